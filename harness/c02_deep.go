package main

// C02 (deepening) — one wavefront on the REAL timing compute unit next to the REAL emulator loop,
// tied to the Lean event machine `C02.Wf.tstep` / `C02.Wf.estep` (lean/MgpuModel/C02Wf.lean).
//
//	c02 wf base=<hex> exec=<hex> seed=<n> prog=<inst>/<inst>/… ev=<e>,<e>,…
//	  answer: `T ok ph=… pc=… vm=… lgkm=… ib=<start>:<len> tr=… s=… scc=… exec=… v=… lds=… mem=… | E done pc=… tr=… …`
//
// The T half is what a real cu.ComputeUnit (built by its Builder, ticked by hand, the harness playing
// the instruction / scalar / vector memories) did with the program; `ev` is the sequence of model
// events derived from observing the wavefront after every Tick(). The E half is a loop that
// replicates emu.ComputeUnit.runWfUntilBarrier with the real decoder and the real emu.ALU.
// The Lean driver replays `ev` through `tstep` (it must accept every event and end in the same
// state) and runs `estep` (same final state as the real emulator).

import (
	"encoding/binary"
	"fmt"
	"strings"

	"github.com/sarchlab/akita/v4/mem/mem"
	"github.com/sarchlab/akita/v4/mem/vm"
	"github.com/sarchlab/akita/v4/sim"
	"github.com/sarchlab/mgpusim/v4/amd/emu"
	"github.com/sarchlab/mgpusim/v4/amd/insts"
	"github.com/sarchlab/mgpusim/v4/amd/kernels"
	"github.com/sarchlab/mgpusim/v4/amd/protocol"
	"github.com/sarchlab/mgpusim/v4/amd/timing/cu"
	"github.com/sarchlab/mgpusim/v4/amd/timing/wavefront"
)

func init() { register("C02", runC02Deep) }

const (
	c02dWindow   = 0x200000 // stores of the generated programs fall in [.., ..+0x800)
	c02dWinSize  = 0x800
	c02dForeign  = 0x300000 // [.., ..+64): somebody else may write here (`env`)
	c02dVOff     = 64
	c02dSOff     = 128
	c02dMaxTicks = 600
	c02dFull     = ^uint64(0)
)

// ---- the shared pseudo-random images (same formulas as memByte / regInit of the model) ------

func c02dMemByte(seed, a uint64) byte {
	x := uint32(a)*2654435761 + uint32(seed)*40503 + 12345
	y := (x ^ (x >> 16)) * 73244475
	return byte(y >> 8)
}

func c02dRegInit(seed, x uint64) uint32 {
	z := uint32(x)*2246822519 + uint32(seed)*7919 + 17
	return (z ^ (z >> 13)) * 2654435761
}

func c02dInitS(seed uint64, i int) uint32 { return c02dRegInit(seed, uint64(i)) }
func c02dInitV(seed uint64, v, l int) uint32 {
	switch v {
	case 0:
		return uint32(4 * l)
	case 1:
		return 0
	}
	return c02dRegInit(seed, uint64(1000+64*v+l))
}

// c02dMem: pattern memory + overlay of writes; the storage accessor of the emulator's ALU and the
// memory behind the timing CU.
type c02dMem struct {
	seed uint64
	over map[uint64]byte
}

func (m *c02dMem) at(a uint64) byte {
	if b, ok := m.over[a]; ok {
		return b
	}
	return c02dMemByte(m.seed, a)
}
func (m *c02dMem) Read(pid vm.PID, a, n uint64) []byte {
	o := make([]byte, n)
	for i := range o {
		o[i] = m.at(a + uint64(i))
	}
	return o
}
func (m *c02dMem) Write(pid vm.PID, a uint64, d []byte) {
	for i, b := range d {
		m.over[a+uint64(i)] = b
	}
}

// diff prints the bytes of the store window that differ from the pattern (the model's memDiff).
func (m *c02dMem) diff() string {
	var out []string
	start := uint64(0)
	var cur []byte
	flush := func() {
		if cur != nil {
			out = append(out, fmt.Sprintf("%x:%s", start, hexb(cur)))
			cur = nil
		}
	}
	for k := uint64(0); k < c02dWinSize; k++ {
		a := c02dWindow + k
		b, ok := m.over[a]
		if !ok || b == c02dMemByte(m.seed, a) {
			flush()
			continue
		}
		if cur == nil {
			start = a
		}
		cur = append(cur, b)
	}
	flush()
	if len(out) == 0 {
		return "-"
	}
	return strings.Join(out, " ")
}

// ---- the concrete instruction set (CInst of the model) --------------------------------------

type c02dInst struct {
	op      string
	a, b, c uint64
}

func (i c02dInst) text() string {
	switch i.op {
	case "smov":
		return fmt.Sprintf("smov.%d.%x", i.a, i.b)
	case "sadd":
		return fmt.Sprintf("sadd.%d.%d.%d", i.a, i.b, i.c)
	case "scmp":
		return fmt.Sprintf("scmp.%d.%d", i.a, i.b)
	case "sexec":
		return fmt.Sprintf("sexec.%x", i.a)
	case "vmov":
		return fmt.Sprintf("vmov.%d.%d", i.a, i.b)
	case "vxor":
		return fmt.Sprintf("vxor.%d.%d.%d", i.a, i.b, i.c)
	case "fld":
		return fmt.Sprintf("fld.%d.%d", i.a, i.b)
	case "fst":
		return fmt.Sprintf("fst.%d.%d", i.a, i.b)
	case "sld":
		return fmt.Sprintf("sld.%d.%d.%x", i.a, i.b, i.c)
	case "wait":
		return fmt.Sprintf("wait.%d.%d", i.a, i.b)
	case "br":
		return fmt.Sprintf("br.%x", i.a)
	case "cbr":
		return fmt.Sprintf("cbr.%d.%x", i.a, i.b)
	case "dsw":
		return fmt.Sprintf("dsw.%d.%d", i.a, i.b)
	case "dsr":
		return fmt.Sprintf("dsr.%d.%d", i.a, i.b)
	case "getpc":
		return fmt.Sprintf("getpc.%d", i.a)
	case "svcc":
		return fmt.Sprintf("svcc.%x", i.a)
	case "vcmp":
		return fmt.Sprintf("vcmp.%d.%d", i.a, i.b)
	case "vrfl":
		return fmt.Sprintf("vrfl.%d.%d", i.a, i.b)
	case "cbrv":
		return fmt.Sprintf("cbrv.%d.%x", i.a, i.b)
	}
	return i.op // nop, end
}

// size is the MODEL's size rule (the real decoder's ByteSize is checked against it).
func (i c02dInst) size() int {
	switch i.op {
	case "smov":
		if i.b <= 64 {
			return 4
		}
		return 8
	case "sexec", "svcc":
		if i.a <= 64 || i.a == c02dFull {
			return 4
		}
		return 8
	case "fld", "fst", "sld", "dsw", "dsr":
		return 8
	}
	return 4
}

func c02dU(kv ...interface{}) map[string]uint32 {
	f := map[string]uint32{}
	for k := 0; k+1 < len(kv); k += 2 {
		f[kv[k].(string)] = uint32(kv[k+1].(uint64))
	}
	return f
}

// enc: GCN3 encoding (assembled with the spec-side encoder of property C04).
func (i c02dInst) enc() []byte {
	var d desc
	switch i.op {
	case "smov": // s_mov_b32 s_d, imm
		if i.b <= 64 {
			d = desc{format: "sop1", op: 0, f: c02dU("sdst", i.a, "ssrc0", 128+i.b)}
		} else {
			d = desc{format: "sop1", op: 0, f: c02dU("sdst", i.a, "ssrc0", uint64(255)), literal: uint32(i.b), hasLit: true}
		}
	case "sadd": // s_add_u32
		d = desc{format: "sop2", op: 0, f: c02dU("sdst", i.a, "ssrc0", i.b, "ssrc1", i.c)}
	case "scmp": // s_cmp_lt_u32
		d = desc{format: "sopc", op: 10, f: c02dU("ssrc0", i.a, "ssrc1", i.b)}
	case "sexec", "svcc": // s_mov_b64 exec / vcc, v
		dst := uint64(126)
		if i.op == "svcc" {
			dst = 106
		}
		switch {
		case i.a <= 64:
			d = desc{format: "sop1", op: 1, f: c02dU("sdst", dst, "ssrc0", 128+i.a)}
		case i.a == c02dFull:
			d = desc{format: "sop1", op: 1, f: c02dU("sdst", dst, "ssrc0", uint64(193))}
		default:
			d = desc{format: "sop1", op: 1, f: c02dU("sdst", dst, "ssrc0", uint64(255)), literal: uint32(i.a), hasLit: true}
		}
	case "vcmp": // v_cmp_lt_u32 vcc, s_s, v_a
		d = desc{format: "vopc", op: 0xC9, f: c02dU("src0", i.a, "vsrc1", i.b)}
	case "vrfl": // v_readfirstlane_b32 s_d, v_a
		d = desc{format: "vop1", op: 2, f: c02dU("vdst", i.a, "src0", 256+i.b)}
	case "cbrv": // s_cbranch_vccz (0) / s_cbranch_vccnz (1)
		d = desc{format: "sopp", op: 6 + uint32(i.a), f: c02dU("simm16", i.b&0xffff)}
	case "vmov": // v_mov_b32 v_d, s_s
		d = desc{format: "vop1", op: 1, f: c02dU("vdst", i.a, "src0", i.b)}
	case "vxor": // v_xor_b32 v_d, s_s, v_a
		d = desc{format: "vop2", op: 21, f: c02dU("vdst", i.a, "src0", i.b, "vsrc1", i.c)}
	case "fld": // flat_load_dword v_d, v[a:a+1]
		d = desc{format: "flat", op: 20, f: c02dU("vdst", i.a, "addr", i.b, "saddr", uint64(0x7f))}
	case "fst": // flat_store_dword v[a:a+1], v_d
		d = desc{format: "flat", op: 28, f: c02dU("addr", i.a, "data", i.b, "saddr", uint64(0x7f))}
	case "sld": // s_load_dword s_d, s[b:b+1], off
		d = desc{format: "smem", op: 0, f: c02dU("imm", uint64(1), "sdata", i.a, "sbase", i.b/2, "offset", i.c)}
	case "wait": // s_waitcnt vmcnt(a) lgkmcnt(b), expcnt = 7
		d = desc{format: "sopp", op: 12, f: c02dU("simm16", i.a|7<<4|i.b<<8)}
	case "nop":
		d = desc{format: "sopp", op: 0, f: c02dU()}
	case "end":
		d = desc{format: "sopp", op: 1, f: c02dU()}
	case "br":
		d = desc{format: "sopp", op: 2, f: c02dU("simm16", i.a&0xffff)}
	case "cbr":
		d = desc{format: "sopp", op: 4 + uint32(i.a), f: c02dU("simm16", i.b&0xffff)}
	case "dsw": // ds_write_b32 v_a, v_d
		d = desc{format: "ds", op: 13, f: c02dU("addr", i.a, "data0", i.b)}
	case "dsr": // ds_read_b32 v_d, v_a
		d = desc{format: "ds", op: 54, f: c02dU("vdst", i.a, "addr", i.b)}
	case "getpc": // s_getpc_b64 s[d:d+1]
		d = desc{format: "sop1", op: 28, f: c02dU("sdst", i.a, "ssrc0", uint64(0))}
	default:
		panic("c02d: unknown op " + i.op)
	}
	return encodeDesc(d)
}

var c02dNames = map[string]string{"smov": "s_mov_b32", "sadd": "s_add_u32", "scmp": "s_cmp_lt_u32", "sexec": "s_mov_b64",
	"vmov": "v_mov_b32_e32", "vxor": "v_xor_b32_e32", "fld": "flat_load_dword", "fst": "flat_store_dword", "sld": "s_load_dword",
	"wait": "s_waitcnt", "nop": "s_nop", "end": "s_endpgm", "br": "s_branch", "dsw": "ds_write_b32", "dsr": "ds_read_b32",
	"getpc": "s_getpc_b64", "svcc": "s_mov_b64", "vcmp": "v_cmp_lt_u32_e32", "vrfl": "v_readfirstlane_b32"}

// c02dCheckEnc decodes the encoding with the real disassembler: name, size, wait counts.
func c02dCheckEnc(dis *insts.Disassembler, i c02dInst) string {
	b := i.enc()
	in, err := dis.Decode(b)
	if err != nil {
		return "decode error: " + err.Error()
	}
	if in.ByteSize != i.size() || len(b) != i.size() {
		return fmt.Sprintf("size: decoder %d, encoder %d, model %d", in.ByteSize, len(b), i.size())
	}
	want := c02dNames[i.op]
	if i.op == "cbr" {
		want = fmt.Sprintf("s_cbranch_scc%d", i.a)
	}
	if i.op == "cbrv" {
		want = []string{"s_cbranch_vccz", "s_cbranch_vccnz"}[i.a]
	}
	if in.InstName != want {
		return fmt.Sprintf("name: decoder %q, want %q", in.InstName, want)
	}
	if i.op == "wait" && (in.VMCNT != int(i.a) || in.LKGMCNT != int(i.b)) {
		return fmt.Sprintf("waitcnt: decoder vm=%d lgkm=%d", in.VMCNT, in.LKGMCNT)
	}
	return ""
}

// ---- a case ---------------------------------------------------------------------------------

type c02dCase struct {
	base, exec, seed uint64
	prog             []c02dInst
	offs             []uint64 // byte offset of each instruction
	img              []byte
	sb               bool
	cut              int // stop after that many ticks (0: run to completion)
	// what the generator knows about the program
	kind      string // sync | hazard | getpc | vmempty | lateexec | simdskip
	getpcDst  int
	ldDst     []int // lateexec: the loaded VGPRs
	rflDst    int   // simdskip: the SGPR written by v_readfirstlane_b32
	foreignLd bool  // loads from the foreign window
	nEnv      int   // env events to perform
	holdIdx   int   // hold the vector memory until instruction holdIdx has been issued (-1: no hold)
	nBranch   int
	// harness timing knobs
	fetchMax, pServeS, pRetS, pServeV, pRetV int
	sOOO, vShuffle                           bool
}

func (c *c02dCase) layout() {
	c.offs = c.offs[:0]
	c.img = c.img[:0]
	for _, i := range c.prog {
		c.offs = append(c.offs, uint64(len(c.img)))
		c.img = append(c.img, i.enc()...)
	}
}

func (c *c02dCase) progText() string {
	p := make([]string, len(c.prog))
	for k, i := range c.prog {
		p[k] = i.text()
	}
	return strings.Join(p, "/")
}

func (c *c02dCase) imgByte(a uint64) byte {
	if a >= c.base && a-c.base < uint64(len(c.img)) {
		return c.img[a-c.base]
	}
	return 0xFF
}

func (c *c02dCase) straddles() bool {
	for k, i := range c.prog {
		a := c.base + c.offs[k]
		if a/64 != (a+uint64(i.size())-1)/64 {
			return true
		}
	}
	return false
}

// ---- architectural state, printed like regsStr of the model -----------------------------------

type c02dState struct {
	s    [16]uint32
	scc  byte
	exec uint64
	vcc  uint64
	v    [10][64]uint32
	lds  [256]byte
	mem  string
}

func c02dMix(h, v uint64) uint64 { return (h ^ v) * 1099511628211 }

func (st *c02dState) vhash() uint64 {
	h := uint64(14695981039346656037)
	for v := 0; v < 10; v++ {
		for l := 0; l < 64; l++ {
			h = c02dMix(h, uint64(st.v[v][l]))
		}
	}
	return h
}
func (st *c02dState) lhash() uint64 {
	h := uint64(14695981039346656037)
	for _, b := range st.lds {
		h = c02dMix(h, uint64(b))
	}
	return h
}
func (st *c02dState) str() string {
	s := make([]string, 16)
	for i := range s {
		s[i] = fmt.Sprintf("%x", st.s[i])
	}
	return fmt.Sprintf("s=%s scc=%d exec=%x vcc=%x v=%x lds=%x mem=%s", strings.Join(s, ","), st.scc, st.exec, st.vcc, st.vhash(), st.lhash(), st.mem)
}

// differences lists where two final states differ (E first, T second).
func (st *c02dState) differences(o *c02dState) string {
	var d []string
	for i := range st.s {
		if st.s[i] != o.s[i] {
			d = append(d, fmt.Sprintf("s%d: emulator %x timing %x", i, st.s[i], o.s[i]))
		}
	}
	if st.scc != o.scc {
		d = append(d, fmt.Sprintf("scc: emulator %d timing %d", st.scc, o.scc))
	}
	if st.exec != o.exec {
		d = append(d, fmt.Sprintf("exec: emulator %x timing %x", st.exec, o.exec))
	}
	if st.vcc != o.vcc {
		d = append(d, fmt.Sprintf("vcc: emulator %x timing %x", st.vcc, o.vcc))
	}
	for v := 0; v < 10; v++ {
		n, first := 0, -1
		for l := 0; l < 64; l++ {
			if st.v[v][l] != o.v[v][l] {
				n++
				if first < 0 {
					first = l
				}
			}
		}
		if n > 0 {
			d = append(d, fmt.Sprintf("v%d: %d lanes differ, lane %d emulator %x timing %x", v, n, first, st.v[v][first], o.v[v][first]))
		}
	}
	if st.lds != o.lds {
		d = append(d, fmt.Sprintf("lds: emulator %x timing %x", st.lhash(), o.lhash()))
	}
	if st.mem != o.mem {
		d = append(d, fmt.Sprintf("mem: emulator %s timing %s", c02dCap(st.mem), c02dCap(o.mem)))
	}
	return strings.Join(d, "; ")
}

func c02dCap(s string) string {
	if len(s) > 90 {
		return s[:90] + "…"
	}
	return s
}

func c02dTrace(t []uint64) string {
	if len(t) == 0 {
		return "-"
	}
	p := make([]string, len(t))
	for i, x := range t {
		p[i] = fmt.Sprint(x)
	}
	return strings.Join(p, ",")
}

// ---- the emulator side ------------------------------------------------------------------------

type c02dEmuRes struct {
	status string // done | fuel | stuck
	pc     uint64
	trace  []uint64
	st     c02dState
	fault  string
}

// c02dRunEmu replicates emu.ComputeUnit.runWfUntilBarrier: decode the 8 bytes at the PC with the
// real decoder, PC += ByteSize, stop at s_endpgm, else alu.Run — with the real emu.Wavefront and ALU.
func c02dRunEmu(cs *c02dCase, dis *insts.Disassembler) *c02dEmuRes {
	res := &c02dEmuRes{}
	m := &c02dMem{seed: cs.seed, over: map[uint64]byte{}}
	wf := emu.NewWavefront(nil)
	wf.VerifSetPID(1)
	alu := emu.NewALU(m)
	lds := make([]byte, 1024)
	alu.SetLDS(lds)
	for i := 0; i < 16; i++ {
		binary.LittleEndian.PutUint32(wf.SRegFile[i*4:], c02dInitS(cs.seed, i))
	}
	for v := 0; v < 10; v++ {
		for l := 0; l < 64; l++ {
			binary.LittleEndian.PutUint32(wf.VRegFile[l*1024+v*4:], c02dInitV(cs.seed, v, l))
		}
	}
	wf.SetSCC(0)
	wf.SetVCC(0)
	wf.SetEXEC(cs.exec)
	wf.SetPC(cs.base)
	done := false
	res.status = "fuel"
	for n := 0; n < 200 && !done; n++ {
		pc := wf.PC()
		buf := make([]byte, 8)
		for k := range buf {
			buf[k] = cs.imgByte(pc + uint64(k))
		}
		var inst *insts.Inst
		var err error
		if f := catch(func() { inst, err = dis.Decode(buf) }); f != "" || err != nil {
			res.status = "stuck"
			break
		}
		wf.VerifSetInst(inst)
		wf.SetPC(pc + uint64(inst.ByteSize))
		res.trace = append(res.trace, pc-cs.base)
		if inst.FormatType == insts.SOPP && inst.Opcode == 1 {
			done = true
			break
		}
		if f := catch(func() { alu.Run(wf) }); f != "" {
			res.fault = f
			return res
		}
	}
	if done {
		res.status = "done"
	}
	res.pc = wf.PC()
	for i := 0; i < 16; i++ {
		res.st.s[i] = binary.LittleEndian.Uint32(wf.SRegFile[i*4:])
	}
	for v := 0; v < 10; v++ {
		for l := 0; l < 64; l++ {
			res.st.v[v][l] = binary.LittleEndian.Uint32(wf.VRegFile[l*1024+v*4:])
		}
	}
	res.st.scc = wf.SCC()
	res.st.exec = wf.EXEC()
	res.st.vcc = wf.VCC()
	copy(res.st.lds[:], lds)
	res.st.mem = m.diff()
	return res
}

func c02dSub(a, b uint64) uint64 { // Nat subtraction of the model
	if a < b {
		return 0
	}
	return a - b
}

func (e *c02dEmuRes) str(base uint64) string {
	return fmt.Sprintf("E %s pc=%d tr=%s %s", e.status, c02dSub(e.pc, base), c02dTrace(e.trace), e.st.str())
}

// ---- the timing side --------------------------------------------------------------------------

// c02dALU delegates to the real emu.ALUImpl and counts the calls of Run: that is the model's `exec`
// event of ALU / branch / LDS instructions.
type c02dALU struct {
	inner *emu.ALUImpl
	ran   int
}

func (a *c02dALU) Run(s emu.InstEmuState) { a.ran++; a.inner.Run(s) }
func (a *c02dALU) SetLDS(l []byte)        { a.inner.SetLDS(l) }
func (a *c02dALU) LDS() []byte            { return a.inner.LDS() }
func (a *c02dALU) ArchName() string       { return a.inner.ArchName() }

type c02dSReq struct {
	req    *mem.ReadReq
	served bool
	rsp    sim.Msg
}

type c02dVTxn struct {
	read  *mem.ReadReq
	write *mem.WriteReq
	seen  bool
	rsp   sim.Msg
}

type c02dVReq struct {
	txns   []*c02dVTxn
	served bool
	load   bool
	execAt uint64 // EXEC when the instruction executed (the coalescer read it)
}

type c02dSnap struct {
	state    wavefront.WfState
	pc       uint64
	toIssue  *wavefront.Inst
	dyn      *wavefront.Inst
	ibLen    int
	ibStart  uint64
	fetching bool
	vm, lgkm int
}

type c02dT struct {
	r   *Run
	rng *Rng
	cs  *c02dCase
	cu  *cu.ComputeUnit
	wf  *wavefront.Wavefront
	alu *c02dALU
	mem *c02dMem

	evs      []string
	trace    []uint64
	executed bool // alu.Run has run for the current instruction
	issuedIx map[uint64]bool

	ifRsp sim.Msg
	ifDue int
	sq    []*c02dSReq
	vq    []*c02dVReq
	vByID map[string]*c02dVTxn
	envAt []int

	returned []*c02dVReq // vector instructions whose responses were handed over before this tick
	lateHit  int         // loads whose data returned under an EXEC different from the one they executed with
	lateMiss int
	stuck    int // ticks the wavefront has been sitting in the same scheduler-internal instruction

	abort string
}

func (t *c02dT) ev(format string, a ...interface{}) { t.evs = append(t.evs, fmt.Sprintf(format, a...)) }

func c02dNewT(r *Run, rng *Rng, cs *c02dCase) *c02dT {
	t := &c02dT{r: r, rng: rng, cs: cs, vByID: map[string]*c02dVTxn{}, issuedIx: map[uint64]bool{}}
	t.mem = &c02dMem{seed: cs.seed, over: map[uint64]byte{}}
	factory := func(sa emu.StorageAccessor) emu.ALU {
		t.alu = &c02dALU{inner: emu.NewALU(sa)}
		return t.alu
	}
	c := cu.MakeBuilder().WithEngine(&fakeEngine{}).WithFreq(1 * sim.GHz).WithALUFactory(factory).
		WithRegisterScoreboard(cs.sb).
		WithVectorMemModules(&mem.SinglePortMapper{Port: sim.RemotePort("VMem")}).Build("CU")
	for _, p := range []sim.Port{c.ToACE, c.ToInstMem, c.ToScalarMem, c.ToVectorMem, c.ToCP} {
		p.SetConnection(&fakeConn{name: "c"})
	}
	c.InstMem = sim.NewPort(c, 4, 4, "IMem")
	c.ScalarMem = sim.NewPort(c, 4, 4, "SMem")
	t.cu = c

	// one work-group with one wavefront, delivered as a real MapWGReq
	co := &insts.KernelCodeObject{KernelCodeObjectMeta: &insts.KernelCodeObjectMeta{}}
	pkt := &kernels.HsaKernelDispatchPacket{WorkgroupSizeX: 64, WorkgroupSizeY: 1, WorkgroupSizeZ: 1,
		GridSizeX: 64, GridSizeY: 1, GridSizeZ: 1, GroupSegmentSize: 1024, KernelObject: cs.base}
	wg := kernels.NewWorkGroup()
	wg.SizeX, wg.SizeY, wg.SizeZ = 64, 1, 1
	wg.CurrSizeX, wg.CurrSizeY, wg.CurrSizeZ = 64, 1, 1
	wg.Packet, wg.CodeObject = pkt, co
	raw := kernels.NewWavefront()
	raw.CodeObject, raw.Packet, raw.WG, raw.InitExecMask = co, pkt, wg, cs.exec
	wg.Wavefronts = append(wg.Wavefronts, raw)
	req := protocol.MapWGReqBuilder{}.WithSrc("Disp.Port").WithDst(c.ToACE.AsRemote()).WithPID(1).WithWG(wg).
		AddWf(protocol.WfDispatchLocation{Wavefront: raw, SIMDID: 1, VGPROffset: c02dVOff, SGPROffset: c02dSOff}).Build()
	if err := c.ToACE.Deliver(req); err != nil {
		t.abort = "cannot deliver MapWGReq"
		return t
	}
	if f := catch(func() { c.Tick() }); f != "" {
		t.abort = "panic while mapping the work-group: " + f
		return t
	}
	wfs := c.VerifPoolWfs(1)
	if len(wfs) != 1 {
		t.abort = fmt.Sprintf("%d wavefronts in pool 1 after MapWGReq", len(wfs))
		return t
	}
	t.wf = wfs[0]
	if t.wf.State != wavefront.WfReady || t.wf.PC() != cs.base || t.wf.EXEC() != cs.exec {
		t.abort = fmt.Sprintf("after MapWGReq: state %d pc %x exec %x", t.wf.State, t.wf.PC(), t.wf.EXEC())
		return t
	}
	// the initial register image of the model, through the register files
	for i := 0; i < 16; i++ {
		c.SRegFile.Write(cu.RegisterAccess{Reg: insts.SReg(i), RegCount: 1, WaveOffset: t.wf.SRegOffset, Data: insts.Uint32ToBytes(c02dInitS(cs.seed, i))})
	}
	for v := 0; v < 10; v++ {
		for l := 0; l < 64; l++ {
			c.VRegFile[1].Write(cu.RegisterAccess{Reg: insts.VReg(v), RegCount: 1, LaneID: l, WaveOffset: t.wf.VRegOffset, Data: insts.Uint32ToBytes(c02dInitV(cs.seed, v, l))})
		}
	}
	t.wf.SetSCC(0)
	t.wf.SetVCC(0)
	t.wf.SetEXEC(cs.exec)
	return t
}

func (t *c02dT) snap() c02dSnap {
	w := t.wf
	return c02dSnap{state: w.State, pc: w.PC(), toIssue: w.InstToIssue, dyn: w.DynamicInst(), ibLen: len(w.InstBuffer),
		ibStart: w.InstBufferStartPC, fetching: w.IsFetching, vm: w.OutstandingVectorMemAccess, lgkm: w.OutstandingScalarMemAccess}
}

const (
	c02dKAlu = iota
	c02dKSpecial
	c02dKFlat
	c02dKSmem
)

func c02dKind(i *wavefront.Inst) int {
	switch {
	case i.ExeUnit == insts.ExeUnitSpecial:
		return c02dKSpecial
	case i.FormatType == insts.FLAT:
		return c02dKFlat
	case i.FormatType == insts.SMEM:
		return c02dKSmem
	}
	return c02dKAlu
}

func (t *c02dT) holding() bool {
	if t.cs.holdIdx < 0 {
		return false
	}
	// released as soon as the instruction has been issued — or when the wavefront sits in an
	// s_waitcnt / s_endpgm that cannot pass without the held responses (no deadlock by the harness)
	return !t.issuedIx[t.cs.offs[t.cs.holdIdx]] && t.stuck < 24
}

// actions of the harness before a tick; returns the index of the scalar response handed to the CU
// (-1: none) and the number of vector instructions whose responses were handed over.
func (t *c02dT) act(tick int) (rsc int, nrv int) {
	rng, cs := t.rng, t.cs
	// somebody else writes the foreign window
	for len(t.envAt) > 0 && t.envAt[0] <= tick {
		t.envAt = t.envAt[1:]
		a := uint64(c02dForeign + rng.Intn(64))
		v := byte(rng.Intn(256))
		t.mem.over[a] = v
		t.ev("env.%x.%x", a, v)
	}
	// instruction memory
	if t.ifRsp != nil && tick >= t.ifDue {
		if err := t.cu.ToInstMem.Deliver(t.ifRsp); err == nil {
			t.ifRsp = nil
		}
	}
	// scalar memory: serve, then return at most one response
	for k, e := range t.sq {
		if e.req != nil && !e.served && rng.Chance(cs.pServeS) {
			data := t.mem.Read(1, e.req.Address, e.req.AccessByteSize)
			e.rsp = mem.DataReadyRspBuilder{}.WithSrc(t.cu.ScalarMem.AsRemote()).WithDst(t.cu.ToScalarMem.AsRemote()).
				WithRspTo(e.req.ID).WithData(data).Build()
			e.served = true
			t.ev("ss.%d", k)
		}
	}
	rsc = -1
	if rng.Chance(cs.pRetS) {
		var cand []int
		for k, e := range t.sq {
			if e.served {
				cand = append(cand, k)
			}
			if !cs.sOOO {
				break // in order: only the oldest
			}
		}
		if cs.sOOO && len(cand) == 1 && len(t.sq) > 1 && rng.Chance(60) {
			cand = nil // let more of them become ready, so that they can overtake each other
		}
		if len(cand) > 0 {
			k := cand[rng.Intn(len(cand))]
			if err := t.cu.ToScalarMem.Deliver(t.sq[k].rsp); err == nil {
				t.sq = append(t.sq[:k:k], t.sq[k+1:]...)
				rsc = k
				if k > 0 {
					t.r.Count("wf:ev-scalar-returned-out-of-order")
				}
			}
		}
	}
	// vector memory
	if t.holding() {
		return rsc, 0
	}
	for {
		var elig []int
		for k, q := range t.vq {
			if q.served {
				continue
			}
			all := true
			for _, x := range q.txns {
				all = all && x.seen
			}
			if all {
				elig = append(elig, k)
			}
		}
		if len(elig) == 0 || !rng.Chance(cs.pServeV) {
			break
		}
		k := elig[0]
		if cs.vShuffle {
			k = elig[rng.Intn(len(elig))]
		}
		for _, x := range t.vq[k].txns {
			if x.read != nil {
				data := t.mem.Read(1, x.read.Address, x.read.AccessByteSize)
				x.rsp = mem.DataReadyRspBuilder{}.WithSrc(x.read.Dst).WithDst(t.cu.ToVectorMem.AsRemote()).WithRspTo(x.read.ID).WithData(data).Build()
			} else {
				for j, b := range x.write.Data {
					if x.write.DirtyMask == nil || x.write.DirtyMask[j] {
						t.mem.over[x.write.Address+uint64(j)] = b
					}
				}
				x.rsp = mem.WriteDoneRspBuilder{}.WithSrc(x.write.Dst).WithDst(t.cu.ToVectorMem.AsRemote()).WithRspTo(x.write.ID).Build()
			}
		}
		t.vq[k].served = true
		t.ev("sv.%d", k)
		if k > 0 {
			t.r.Count("wf:ev-vector-served-younger-first")
		}
	}
	budget := 16 // processInputFromVectorMem handles 16 responses per tick
	for len(t.vq) > 0 && t.vq[0].served && len(t.vq[0].txns) <= budget && rng.Chance(cs.pRetV) {
		for _, x := range t.vq[0].txns {
			if err := t.cu.ToVectorMem.Deliver(x.rsp); err != nil {
				t.abort = "vector response not accepted by the port"
				return rsc, nrv
			}
		}
		budget -= len(t.vq[0].txns)
		t.returned = append(t.returned, t.vq[0])
		t.vq = t.vq[1:]
		nrv++
	}
	return rsc, nrv
}

// derive appends the model events of one tick, in the order the real tick executes them.
func (t *c02dT) derive(pre, post c02dSnap, rsc, nrv int) {
	completed := pre.state == wavefront.WfRunning && (post.state != wavefront.WfRunning || post.dyn != pre.dyn)
	kind := -1
	if pre.state == wavefront.WfRunning && pre.dyn != nil {
		kind = c02dKind(pre.dyn)
	}
	formed, sload := 0, 0
	if t.alu.ran > 0 { // alu.Run in a unit
		if t.alu.ran > 1 || kind != c02dKAlu {
			t.abort = fmt.Sprintf("alu.Run called %d times in one tick (kind %d)", t.alu.ran, kind)
		}
		t.ev("x")
		t.executed = true
	}
	if completed {
		switch kind {
		case c02dKFlat: // VectorMemoryUnit.execute: coalescer + counters + UpdatePCAndSetReady
			t.ev("x")
			q := &c02dVReq{}
			for _, info := range t.cu.InFlightVectorMemAccess {
				if info.Inst == pre.dyn {
					x := &c02dVTxn{read: info.Read, write: info.Write}
					if x.read != nil {
						t.vByID[x.read.ID] = x
					} else {
						t.vByID[x.write.ID] = x
					}
					q.txns = append(q.txns, x)
				}
			}
			if len(q.txns) > 0 {
				formed = 1
				q.load = q.txns[0].read != nil
				q.execAt = t.wf.EXEC()
				t.vq = append(t.vq, q)
				if len(q.txns) > 16 {
					t.abort = fmt.Sprintf("%d transactions for one instruction", len(q.txns))
				}
			}
		case c02dKSmem: // ScalarUnit.executeSMEMLoad
			t.ev("x")
			sload = 1
			t.sq = append(t.sq, &c02dSReq{})
		default: // write stage of a unit, or EvaluateInternalInst
			t.ev("c")
		}
	}
	// an s_waitcnt / s_endpgm, or a FLAT instruction without transaction (it waits in the vector
	// memory unit for the older accesses), that does not move: the wavefront needs the held responses
	if post.state == wavefront.WfRunning && post.dyn == pre.dyn && (kind == c02dKSpecial || kind == c02dKFlat) {
		t.stuck++
	} else {
		t.stuck = 0
	}
	// the scheduler
	issued := post.dyn != pre.dyn && post.dyn != nil
	frDone := pre.fetching && !post.fetching
	lenAtSched := c02dIbAfter(pre, post, completed)
	if post.ibLen != lenAtSched && !(frDone && post.ibLen == lenAtSched+64) {
		t.abort = fmt.Sprintf("instruction buffer length %d -> %d, expected %d (+64)", pre.ibLen, post.ibLen, lenAtSched)
	}
	if lenAtSched == 0 && post.state != wavefront.WfCompleted {
		t.ev("rs") // DecodeNextInst with an empty buffer
	}
	if pre.toIssue == nil && (post.toIssue != nil || issued) {
		t.ev("d")
	}
	if issued {
		t.ev("i")
		t.trace = append(t.trace, c02dSub(post.pc, t.cs.base))
		t.issuedIx[c02dSub(post.pc, t.cs.base)] = true
		t.executed = false
	}
	if !pre.fetching && post.fetching {
		t.ev("f")
	}
	// processInput
	if frDone {
		t.ev("fr")
		if post.ibLen == lenAtSched {
			t.r.Count("wf:ev-fetch-return-dropped")
		}
	}
	if rsc >= 0 {
		t.ev("rsc.%d", rsc)
	}
	for k := 0; k < nrv; k++ {
		t.ev("rv")
	}
	for _, q := range t.returned {
		if q.load && q.execAt != t.wf.EXEC() {
			t.lateHit++
		} else if q.load {
			t.lateMiss++
		}
	}
	t.returned = t.returned[:0]
	// the counters must move exactly as the derived events say
	if post.vm != pre.vm+formed-nrv || post.lgkm != pre.lgkm+formed+sload-nrv-c02dB2i(rsc >= 0) {
		t.abort = fmt.Sprintf("counters moved vm %d->%d lgkm %d->%d, derived formed=%d sload=%d rv=%d rsc=%v", pre.vm, post.vm, pre.lgkm, post.lgkm, formed, sload, nrv, rsc >= 0)
	}
}

func c02dB2i(b bool) int {
	if b {
		return 1
	}
	return 0
}

// c02dIbAfter: the length of the instruction buffer after the unit / scheduler stages of the tick,
// i.e. before a fetch return could extend it (what UpdatePCAndSetReady / the branch unit leave).
func c02dIbAfter(pre, post c02dSnap, completed bool) int {
	if !completed || pre.dyn == nil {
		return pre.ibLen
	}
	if pre.dyn.ExeUnit == insts.ExeUnitBranch {
		return 0
	}
	if post.state == wavefront.WfCompleted || pre.ibLen == 0 {
		return pre.ibLen
	}
	n, st := pre.ibLen, pre.ibStart
	for post.pc >= st+64 && n >= 64 {
		n -= 64
		st += 64
	}
	return n
}

// collect takes what the CU sent in this tick.
func (t *c02dT) collect(tick int) {
	for {
		m := t.cu.ToInstMem.RetrieveOutgoing()
		if m == nil {
			break
		}
		q := m.(*mem.ReadReq)
		data := make([]byte, 64)
		for k := range data {
			data[k] = t.cs.imgByte(q.Address + uint64(k))
		}
		if t.ifRsp != nil {
			t.abort = "two instruction fetches in flight"
		}
		t.ifRsp = mem.DataReadyRspBuilder{}.WithSrc(t.cu.InstMem.AsRemote()).WithDst(t.cu.ToInstMem.AsRemote()).WithRspTo(q.ID).WithData(data).Build()
		t.ifDue = tick + 1 + t.rng.Intn(t.cs.fetchMax+1)
	}
	for {
		m := t.cu.ToScalarMem.RetrieveOutgoing()
		if m == nil {
			break
		}
		q := m.(*mem.ReadReq)
		ok := false
		for _, e := range t.sq {
			if e.req == nil {
				e.req, ok = q, true
				break
			}
		}
		if !ok || q.CanWaitForCoalesce {
			t.abort = "unexpected scalar read request"
		}
	}
	for {
		m := t.cu.ToVectorMem.RetrieveOutgoing()
		if m == nil {
			break
		}
		id := m.Meta().ID
		if x, ok := t.vByID[id]; ok {
			x.seen = true
		} else {
			t.abort = "unexpected vector memory request"
		}
	}
	for t.cu.ToACE.RetrieveOutgoing() != nil {
	}
}

type c02dTRes struct {
	ph        string
	completed bool
	ticks     int
	st        c02dState
	line      string
}

func (t *c02dT) run() *c02dTRes {
	cs := t.cs
	res := &c02dTRes{}
	for tick := 1; ; tick++ {
		rsc, nrv := t.act(tick)
		if t.abort != "" {
			return nil
		}
		pre := t.snap()
		t.alu.ran = 0
		if f := catch(func() { t.cu.Tick() }); f != "" {
			t.abort = "panic in Tick: " + f
			return nil
		}
		post := t.snap()
		t.derive(pre, post, rsc, nrv)
		t.collect(tick)
		if t.abort != "" {
			return nil
		}
		res.ticks = tick
		if post.state == wavefront.WfCompleted {
			res.completed = true
			break
		}
		if cs.cut > 0 && tick >= cs.cut {
			break
		}
		if tick >= c02dMaxTicks {
			break
		}
	}
	w := t.wf
	switch w.State {
	case wavefront.WfReady:
		res.ph = "ready"
	case wavefront.WfCompleted:
		res.ph = "done"
	case wavefront.WfRunning:
		res.ph = "issued"
		if t.executed {
			res.ph = "executed"
		}
	default:
		res.ph = fmt.Sprintf("state%d", w.State)
	}
	b := make([]byte, 4)
	for i := 0; i < 16; i++ {
		t.cu.SRegFile.Read(cu.RegisterAccess{Reg: insts.SReg(i), RegCount: 1, WaveOffset: w.SRegOffset, Data: b})
		res.st.s[i] = binary.LittleEndian.Uint32(b)
	}
	for v := 0; v < 10; v++ {
		for l := 0; l < 64; l++ {
			t.cu.VRegFile[1].Read(cu.RegisterAccess{Reg: insts.VReg(v), RegCount: 1, LaneID: l, WaveOffset: w.VRegOffset, Data: b})
			res.st.v[v][l] = binary.LittleEndian.Uint32(b)
		}
	}
	res.st.scc = w.SCC()
	res.st.exec = w.EXEC()
	res.st.vcc = w.VCC()
	copy(res.st.lds[:], w.WG.LDS)
	res.st.mem = t.mem.diff()
	res.line = fmt.Sprintf("T ok ph=%s pc=%d vm=%d lgkm=%d ib=%x:%d tr=%s %s", res.ph, c02dSub(w.PC(), cs.base),
		w.OutstandingVectorMemAccess, w.OutstandingScalarMemAccess, w.InstBufferStartPC, len(w.InstBuffer), c02dTrace(t.trace), res.st.str())
	return res
}

// ---- the program generator --------------------------------------------------------------------

type c02dPend struct {
	load bool
	dst  int // register id: SGPR i -> i, VGPR v -> 100+v; -1 for stores
	area int // 0: never written, 1: the store window, 2: the foreign window
}

type c02dGen struct {
	rng        *Rng
	p          []c02dInst
	hazardMode bool
	skipped    int
	pv, ps     []c02dPend
	exec       uint64
	valid      map[int]uint64 // address pair -> lanes holding a valid address
	area       map[int]int    // address pair -> area
	sArea      int
	sReady     bool
	foreignLd  bool
	ldsOps     int
	memOps     int
	nBranch    int
	getpc      int
	cost       int
	lastV      int // destination of the latest flat load (-1: none): preferred as a source afterwards
	lastS      int
	force      bool // hazard mode: leave the next needed wait out for sure
}

func c02dV(v int) int { return 100 + v }

// effects: registers read / written, memory behaviour (0 none, 1 vector load, 2 vector store, 3 scalar load), area
func (g *c02dGen) effects(i c02dInst) (rd, wr []int, mk, area int) {
	a, b, c := int(i.a), int(i.b), int(i.c)
	switch i.op {
	case "smov":
		wr = []int{a}
	case "sadd":
		rd, wr = []int{b, c}, []int{a}
	case "scmp":
		rd = []int{a, b}
	case "vmov":
		rd, wr = []int{b}, []int{c02dV(a)}
	case "vxor":
		rd, wr = []int{b, c02dV(c)}, []int{c02dV(a)}
	case "fld":
		rd, wr, mk, area = []int{c02dV(b), c02dV(b + 1)}, []int{c02dV(a)}, 1, g.area[b]
	case "fst":
		rd, mk, area = []int{c02dV(a), c02dV(a + 1), c02dV(b)}, 2, 1
	case "sld":
		rd, wr, mk, area = []int{b, b + 1}, []int{a}, 3, g.sArea
	case "dsw":
		rd = []int{c02dV(a), c02dV(b)}
	case "dsr":
		rd, wr = []int{c02dV(b)}, []int{c02dV(a)}
	case "getpc":
		wr = []int{a, a + 1}
	case "vcmp":
		rd = []int{a, c02dV(b)}
	case "vrfl":
		rd, wr = []int{c02dV(b)}, []int{a}
	}
	return
}

func c02dHas(l []int, x int) bool {
	for _, y := range l {
		if x == y {
			return true
		}
	}
	return false
}

// syncFor emits the s_waitcnt the instruction needs (or, in hazard mode, sometimes leaves it out).
func (g *c02dGen) syncFor(i c02dInst) {
	rd, wr, mk, area := g.effects(i)
	conflict := func(q c02dPend) bool {
		if q.load && (c02dHas(rd, q.dst) || c02dHas(wr, q.dst)) {
			return true
		}
		switch mk {
		case 1, 3:
			return !q.load && area == 1
		case 2:
			return !q.load || q.area == 1
		}
		return false
	}
	needV, needS := -1, false
	for j, q := range g.pv {
		if conflict(q) {
			needV = j
		}
	}
	for _, q := range g.ps {
		if conflict(q) {
			needS = true
		}
	}
	if needV < 0 && !needS {
		return
	}
	// never a hazard on a register an address is formed from: a garbage address would leave the
	// store window and cross cache lines (line-crossing accesses are a separate C02 finding)
	addrReg := false
	for _, x := range append(append([]int{}, rd...), wr...) {
		switch x {
		case 4, 5, 6, 7, 12, c02dV(2), c02dV(3), c02dV(4), c02dV(5):
			addrReg = true
		}
	}
	if g.hazardMode && !addrReg && (g.force || g.rng.Chance(75)) {
		g.skipped++
		return
	}
	k := len(g.pv) - 1 - needV
	if needS || k > 15 || g.rng.Chance(35) {
		g.raw(c02dInst{op: "wait", a: uint64(g.rng.Pick(0, 0, 3, 15)), b: 0})
	} else {
		g.raw(c02dInst{op: "wait", a: uint64(k), b: 15})
	}
}

// raw appends an instruction and updates what may be in flight afterwards.
func (g *c02dGen) raw(i c02dInst) {
	g.p = append(g.p, i)
	g.cost += 6
	_, wr, mk, area := g.effects(i)
	switch i.op {
	case "wait":
		if i.b == 0 {
			g.pv, g.ps = nil, nil
		} else if int(i.a) < len(g.pv) {
			g.pv = append([]c02dPend(nil), g.pv[len(g.pv)-int(i.a):]...)
		}
	case "sexec":
		g.exec = i.a
	case "dsw", "dsr":
		g.cost += 16
	}
	switch mk {
	case 1:
		g.cost += 8
		g.lastV = int(i.a)
		if g.exec != 0 { // with EXEC = 0 no transaction is formed and the counters do not move
			g.pv = append(g.pv, c02dPend{load: true, dst: wr[0], area: area})
		}
		if area == 2 {
			g.foreignLd = true
		}
	case 2:
		g.cost += 8
		if g.exec != 0 {
			g.pv = append(g.pv, c02dPend{dst: -1, area: 1})
		}
	case 3:
		g.cost += 4
		g.lastS = int(i.a)
		g.ps = append(g.ps, c02dPend{load: true, dst: wr[0], area: area})
		if area == 2 {
			g.foreignLd = true
		}
	}
}

func (g *c02dGen) add(i c02dInst) { g.syncFor(i); g.raw(i) }

func c02dArea(a uint64) int {
	switch {
	case a >= c02dWindow && a < c02dWindow+c02dWinSize:
		return 1
	case a >= c02dForeign && a < c02dForeign+0x100:
		return 2
	}
	return 0
}

// setupPair: v[p:p+1] = addr ^ 4*lane (or addr in every lane); s5 = 0 is the high half.
func (g *c02dGen) setupPair(p int, addr uint64, same bool) {
	tmp := uint64(4)
	if p == 4 {
		tmp = 12
	}
	g.add(c02dInst{op: "smov", a: tmp, b: addr})
	if same {
		g.add(c02dInst{op: "vmov", a: uint64(p), b: tmp})
	} else {
		g.add(c02dInst{op: "vxor", a: uint64(p), b: tmp, c: 0})
	}
	g.add(c02dInst{op: "vmov", a: uint64(p + 1), b: 5})
	g.valid[p] = g.exec
	g.area[p] = c02dArea(addr)
}

func (g *c02dGen) winAddr() uint64 { return c02dWindow + 4*uint64(g.rng.Intn(c02dWinSize/4-1)) }

func (g *c02dGen) altAddr() uint64 {
	switch g.rng.Intn(4) {
	case 0:
		return c02dForeign
	case 1:
		return g.winAddr()
	case 2:
		return c02dWindow + 256*uint64(g.rng.Intn(8))
	}
	return 0x100000 + 4*uint64(g.rng.Intn(1<<12))
}

func (g *c02dGen) pairOK(p int) bool { return g.exec&^g.valid[p] == 0 }

func (g *c02dGen) vData() uint64 { return uint64(g.rng.Range(6, 9)) }
func (g *c02dGen) sData() uint64 { return uint64(g.rng.Range(11, 15)) }
func (g *c02dGen) sSrc() uint64 {
	if g.lastS >= 0 && g.rng.Chance(45) {
		return uint64(g.lastS)
	}
	return uint64(g.rng.Pick(0, 1, 2, 3, 4, 11, 12, 13, 14, 15))
}
func (g *c02dGen) vSrc() uint64 {
	if g.lastV >= 0 && g.rng.Chance(55) {
		return uint64(g.lastV)
	}
	return uint64(g.rng.Pick(0, 6, 7, 8, 9))
}

func (g *c02dGen) aluInst() c02dInst {
	rng := g.rng
	switch rng.Intn(10) {
	case 8:
		return c02dInst{op: "vcmp", a: g.sSrc(), b: g.vSrc()}
	case 9:
		if rng.Bool() {
			return c02dInst{op: "svcc", a: uint64(rng.Pick(0, 1, 64, 0xdeadbeef))}
		}
		return c02dInst{op: "vrfl", a: g.sData(), b: g.vSrc()}
	case 0:
		return c02dInst{op: "smov", a: g.sData(), b: uint64(rng.Pick(0, 1, 7, 64, 65, 0x1234, 0xdeadbeef))}
	case 1, 2:
		return c02dInst{op: "sadd", a: g.sData(), b: g.sSrc(), c: g.sSrc()}
	case 3:
		return c02dInst{op: "scmp", a: g.sSrc(), b: g.sSrc()}
	case 4:
		return c02dInst{op: "vmov", a: g.vData(), b: g.sSrc()}
	default:
		return c02dInst{op: "vxor", a: g.vData(), b: g.sSrc(), c: g.vSrc()}
	}
}

func (g *c02dGen) loadInst() (c02dInst, bool) {
	p := g.rng.Pick(2, 2, 4, 0)
	if _, ok := g.area[p]; !ok && p != 0 {
		p = 2
	}
	if p != 0 && !g.pairOK(p) {
		return c02dInst{}, false
	}
	return c02dInst{op: "fld", a: g.vData(), b: uint64(p)}, true
}

func (g *c02dGen) storeInst() (c02dInst, bool) {
	p := 2
	if g.area[4] == 1 && g.rng.Chance(35) {
		p = 4
	}
	if !g.pairOK(p) || g.area[p] != 1 {
		return c02dInst{}, false
	}
	return c02dInst{op: "fst", a: uint64(p), b: g.vSrc()}, true
}

func (g *c02dGen) item() {
	rng := g.rng
	switch x := rng.Intn(100); {
	case x < 22:
		for k := rng.Pick(1, 1, 1, 2); k > 0; k-- {
			if i, ok := g.loadInst(); ok {
				g.add(i)
				g.memOps++
			}
		}
	case x < 36:
		if i, ok := g.storeInst(); ok {
			g.add(i)
			g.memOps++
		}
	case x < 46:
		if !g.sReady {
			base := uint64(rng.Pick(0x100040, 0x100040, c02dForeign, c02dWindow+0x40, c02dWindow+0x100))
			g.add(c02dInst{op: "smov", a: 6, b: base})
			g.add(c02dInst{op: "smov", a: 7, b: 0})
			g.sArea, g.sReady = c02dArea(base), true
		}
		for k := rng.Pick(1, 1, 2, 3); k > 0; k-- { // often a burst: several scalar loads in flight
			g.add(c02dInst{op: "sld", a: g.sData(), b: 6, c: 4 * uint64(rng.Intn(48))})
			g.memOps++
		}
	case x < 68:
		g.add(g.aluInst())
	case x < 75:
		if g.ldsOps < 2 {
			g.ldsOps++
			if rng.Bool() {
				g.add(c02dInst{op: "dsw", a: 0, b: g.vSrc()})
			} else {
				g.add(c02dInst{op: "dsr", a: g.vData(), b: 0})
			}
		}
	case x < 81:
		if rng.Chance(50) {
			g.add(c02dInst{op: "wait", a: uint64(rng.Intn(4)), b: uint64(rng.Pick(0, 15, 15, 2))})
		} else {
			g.add(c02dInst{op: "wait", a: 0, b: 0})
		}
	case x < 84:
		g.add(c02dInst{op: "nop"})
	case x < 90: // a forward branch over one or two ALU instructions
		n := rng.Range(1, 2)
		var blk []c02dInst
		dw := 0
		for k := 0; k < n; k++ {
			i := g.aluInst()
			if rng.Chance(15) {
				i = c02dInst{op: "nop"}
			}
			blk = append(blk, i)
			dw += i.size() / 4
		}
		var br c02dInst
		switch rng.Intn(4) {
		case 0:
			br = c02dInst{op: "br", a: uint64(dw)}
		case 1:
			if rng.Bool() {
				g.add(c02dInst{op: "vcmp", a: g.sSrc(), b: g.vSrc()})
			}
			br = c02dInst{op: "cbrv", a: uint64(rng.Intn(2)), b: uint64(dw)}
		default:
			if rng.Bool() {
				g.add(c02dInst{op: "scmp", a: g.sSrc(), b: g.sSrc()})
			}
			br = c02dInst{op: "cbr", a: uint64(rng.Intn(2)), b: uint64(dw)}
		}
		for _, i := range blk {
			g.syncFor(i)
		}
		g.raw(br)
		for _, i := range blk {
			g.raw(i)
		}
		g.nBranch++
	case x < 93: // a short backward loop bounded by a counter
		if g.nBranch > 0 || g.cost > 120 {
			return
		}
		n := rng.Range(2, 3)
		g.add(c02dInst{op: "smov", a: 8, b: 0})
		g.add(c02dInst{op: "smov", a: 9, b: 1})
		g.add(c02dInst{op: "smov", a: 10, b: uint64(n)})
		start := len(g.p)
		mem0 := g.memOps
		for k := rng.Range(1, 2); k > 0; k-- {
			switch rng.Intn(4) {
			case 0:
				if i, ok := g.storeInst(); ok {
					g.add(i)
					g.memOps++
				}
			case 1:
				if i, ok := g.loadInst(); ok {
					g.add(i)
					g.memOps++
				}
			default:
				g.add(g.aluInst())
			}
		}
		if g.memOps > mem0 { // everything the body put in flight has drained before the next round
			if g.hazardMode && g.rng.Chance(50) {
				g.skipped++
			} else {
				g.raw(c02dInst{op: "wait", a: 0, b: 0})
			}
		}
		g.add(c02dInst{op: "sadd", a: 8, b: 8, c: 9})
		g.add(c02dInst{op: "scmp", a: 8, b: 10})
		dw := 1
		for _, i := range g.p[start:] {
			dw += i.size() / 4
		}
		g.raw(c02dInst{op: "cbr", a: 1, b: uint64(0x10000 - dw)})
		g.cost += (n - 1) * 6 * (len(g.p) - start)
		g.nBranch += 2
	case x < 97: // narrow / widen EXEC
		v := uint64(rng.Pick(0, 1, 0xffff, 0xf0f0f0f0, 0x80000001))
		if rng.Chance(40) {
			v = c02dFull
		}
		g.add(c02dInst{op: "sexec", a: v})
		if v != 0 && !g.pairOK(2) && rng.Chance(70) {
			g.setupPair(2, g.winAddr(), false)
		}
	default:
		if rng.Chance(50) {
			g.setupPair(4, g.altAddr(), rng.Chance(20))
		} else {
			g.setupPair(2, g.winAddr(), rng.Chance(20))
		}
	}
}

func c02dNewGen(rng *Rng, exec uint64) *c02dGen {
	return &c02dGen{rng: rng, exec: exec, valid: map[int]uint64{0: c02dFull}, area: map[int]int{0: 0}, getpc: -1, lastV: -1, lastS: -1}
}

// c02dGenProgram draws one program.
func c02dGenProgram(rng *Rng, cs *c02dCase) {
	g := c02dNewGen(rng, cs.exec)
	mode := rng.Intn(100)
	g.hazardMode = mode < 36
	g.add(c02dInst{op: "smov", a: 5, b: 0})
	g.setupPair(2, g.winAddr(), rng.Chance(10))
	if rng.Chance(55) {
		g.setupPair(4, g.altAddr(), rng.Chance(15))
	}
	n := rng.Range(2, 8)
	gp := -1
	if mode >= 96 {
		gp = rng.Intn(n)
	}
	if g.hazardMode && g.pairOK(2) { // one deliberate dependence without its s_waitcnt
		d, e := g.vData(), g.vData()
		switch rng.Intn(4) {
		case 0: // use of a loaded register
			g.add(c02dInst{op: "fld", a: d, b: 2})
			g.force = true
			g.add(c02dInst{op: "vxor", a: e, b: 0, c: d})
		case 1: // overwriting the destination of a load in flight
			g.add(c02dInst{op: "fld", a: d, b: uint64(rng.Pick(0, 2))})
			g.force = true
			g.add(c02dInst{op: "vmov", a: d, b: 1})
		case 2: // store of a register a load has not delivered yet
			g.add(c02dInst{op: "fld", a: d, b: 0})
			g.force = true
			g.add(c02dInst{op: "fst", a: 2, b: d})
		default: // load after store to the same addresses
			g.add(c02dInst{op: "fst", a: 2, b: d})
			g.force = true
			g.add(c02dInst{op: "fld", a: e, b: 2})
		}
		g.force = false
		g.memOps += 2
	}
	for k := 0; k < n && g.cost < 200; k++ {
		if k == gp {
			g.getpc = rng.Pick(12, 14)
			g.add(c02dInst{op: "getpc", a: uint64(g.getpc)})
		}
		g.item()
	}
	if rng.Bool() {
		g.raw(c02dInst{op: "wait", a: 0, b: 0})
	}
	g.raw(c02dInst{op: "end"})
	cs.prog = g.p
	cs.foreignLd = g.foreignLd
	cs.nBranch = g.nBranch
	cs.getpcDst = g.getpc
	switch {
	case g.getpc >= 0:
		cs.kind = "getpc"
	case g.skipped > 0:
		cs.kind = "hazard"
	default:
		cs.kind = "sync"
	}
}

// c02dVmEmpty: [load A; exec = 0; memory instruction B (no transaction); exec restored;
// s_waitcnt vmcnt(1); use of A's destination; s_waitcnt 0; end]. By the ISA B counts, so vmcnt(1)
// waits for A; the timing CU never counted B.
func c02dVmEmpty(rng *Rng, cs *c02dCase, witness bool) {
	p := []c02dInst{{op: "smov", a: 4, b: c02dWindow}, {op: "smov", a: 5, b: 0}, {op: "vxor", a: 2, b: 4, c: 0}, {op: "vmov", a: 3, b: 5}}
	if !witness {
		p[0].b = c02dWindow + 4*uint64(rng.Intn(256))
		for k := rng.Intn(3); k > 0; k-- {
			p = append(p, c02dInst{op: "sadd", a: 11, b: 0, c: 1})
		}
	}
	a := c02dInst{op: "fld", a: 6, b: 2}
	b := c02dInst{op: "fld", a: 7, b: 2}
	use := c02dInst{op: "vxor", a: 8, b: 4, c: 6}
	if !witness {
		if rng.Chance(30) {
			a.b = 0
		}
		switch rng.Intn(3) {
		case 0:
			b = c02dInst{op: "fst", a: 2, b: 9}
		case 1:
			b.b = 0
		}
		switch rng.Intn(4) {
		case 0:
			use = c02dInst{op: "dsw", a: 0, b: 6}
		case 1:
			use = c02dInst{op: "fst", a: 2, b: 6}
		}
	}
	if !witness && rng.Chance(50) {
		// a third access right after EXEC is restored: it must form its own transactions (nothing the
		// unit remembered for the transaction-less access before it may be reused)
		c := c02dInst{op: "fld", a: 9, b: 2}
		if rng.Chance(30) {
			c = c02dInst{op: "fst", a: 2, b: 6}
		}
		p = append(p, a, c02dInst{op: "sexec", a: 0}, b, c02dInst{op: "sexec", a: cs.exec}, c, c02dInst{op: "wait", a: 0, b: 15},
			c02dInst{op: "vxor", a: 8, b: 4, c: 9}, use)
	} else {
		p = append(p, a, c02dInst{op: "sexec", a: 0}, b, c02dInst{op: "sexec", a: cs.exec}, c02dInst{op: "wait", a: 1, b: 15}, use)
	}
	cs.holdIdx = -1
	if witness || rng.Chance(60) {
		cs.holdIdx = len(p)
	}
	p = append(p, c02dInst{op: "wait", a: 0, b: 0}, c02dInst{op: "end"})
	cs.prog = p
	cs.kind = "vmempty"
	cs.getpcDst = -1
}

// c02dLateExec (class 3): EXEC changes between the execution of a FLAT load (the coalescer fixes the
// lanes then) and the return of its data. The lanes written must be those of the EXEC at execution.
func c02dLateExec(rng *Rng, cs *c02dCase) {
	cs.exec = c02dFull
	g := c02dNewGen(rng, cs.exec)
	g.add(c02dInst{op: "smov", a: 5, b: 0})
	g.setupPair(2, g.winAddr(), rng.Chance(25))
	for k := rng.Intn(3); k > 0; k-- {
		g.add(g.aluInst())
	}
	narrow := uint64(rng.Pick(0, 0, 0xffff, 1, 0xf0f0f0f0, 0x80000001))
	nops := func() {
		for k := rng.Range(2, 12); k > 0; k-- {
			g.add(c02dInst{op: "nop"})
		}
	}
	cs.ldDst = []int{6}
	switch rng.Intn(3) {
	case 0: // narrowed while the data is on its way, widened after it came back (if the window is hit)
		g.add(c02dInst{op: "fld", a: 6, b: 2})
		g.add(c02dInst{op: "sexec", a: narrow})
		cs.holdIdx = len(g.p)
		nops()
		g.add(c02dInst{op: "sexec", a: c02dFull})
	case 1: // narrowed before the load, widened before the data returns
		if narrow == 0 {
			narrow = 0xffff0000
		}
		g.add(c02dInst{op: "sexec", a: narrow})
		g.add(c02dInst{op: "fld", a: 6, b: 2})
		g.add(c02dInst{op: "sexec", a: c02dFull})
		if rng.Bool() {
			nops()
		}
	default: // both: one load before, one after the narrowing
		g.add(c02dInst{op: "fld", a: 6, b: 2})
		g.add(c02dInst{op: "sexec", a: narrow})
		g.add(c02dInst{op: "fld", a: 7, b: uint64(rng.Pick(2, 0))})
		cs.holdIdx = len(g.p)
		nops()
		g.add(c02dInst{op: "sexec", a: c02dFull})
		cs.ldDst = []int{6, 7}
	}
	g.raw(c02dInst{op: "wait", a: 0, b: 0})
	for _, d := range cs.ldDst {
		if rng.Bool() {
			g.add(c02dInst{op: "vxor", a: 8, b: 4, c: uint64(d)})
		} else {
			g.add(c02dInst{op: "fst", a: 2, b: uint64(d)})
		}
	}
	g.raw(c02dInst{op: "end"})
	cs.prog = g.p
	cs.kind = "lateexec"
	cs.pServeV, cs.pRetV = 100, 100
	cs.vShuffle = false
}

// c02dSimdSkip (class 5): VALU instructions whose result is scalar (VCC, an SGPR) executed with
// EXEC = 0 or a sparse EXEC: they must still execute (VCC := 0, s_d := lane 0 / first active lane).
func c02dSimdSkip(rng *Rng, cs *c02dCase) {
	g := c02dNewGen(rng, cs.exec)
	if rng.Bool() {
		g.add(c02dInst{op: "svcc", a: uint64(rng.Pick(1, 0xdeadbeef, 64))})
		if rng.Bool() {
			g.p[len(g.p)-1].a = c02dFull
		}
	} else {
		g.add(c02dInst{op: "smov", a: 11, b: uint64(rng.Intn(200))})
		g.add(c02dInst{op: "vcmp", a: 11, b: 0})
	}
	e0 := uint64(0)
	if rng.Chance(40) {
		e0 = uint64(rng.Pick(1, 0x10, 0xff00, 0x80000001, 0x40000000))
	}
	g.add(c02dInst{op: "sexec", a: e0})
	for k := rng.Intn(2); k > 0; k-- {
		g.add(c02dInst{op: "nop"})
	}
	g.add(c02dInst{op: "vcmp", a: uint64(rng.Pick(0, 1, 2, 3, 11)), b: uint64(rng.Pick(0, 6, 7, 8, 9))})
	cs.rflDst = rng.Range(12, 15)
	g.add(c02dInst{op: "vrfl", a: uint64(cs.rflDst), b: uint64(rng.Pick(0, 6, 7, 8, 9))})
	if rng.Chance(30) { // the other order
		n := len(g.p)
		g.p[n-1], g.p[n-2] = g.p[n-2], g.p[n-1]
	}
	var blk []c02dInst
	dw := 0
	for k := rng.Range(1, 2); k > 0; k-- {
		d := uint64(rng.Range(12, 15))
		for int(d) == cs.rflDst {
			d = uint64(rng.Range(12, 15))
		}
		i := c02dInst{op: "smov", a: d, b: uint64(rng.Pick(3, 0x1234))}
		if rng.Bool() {
			i = c02dInst{op: "sadd", a: d, b: uint64(rng.Intn(4)), c: uint64(rng.Intn(4))}
		}
		blk = append(blk, i)
		dw += i.size() / 4
	}
	g.raw(c02dInst{op: "cbrv", a: uint64(rng.Intn(2)), b: uint64(dw)})
	for _, i := range blk {
		g.raw(i)
	}
	g.nBranch++
	g.add(c02dInst{op: "sexec", a: c02dFull})
	if rng.Bool() {
		g.add(c02dInst{op: "vmov", a: 6, b: uint64(cs.rflDst)})
	}
	if rng.Bool() {
		g.add(c02dInst{op: "vcmp", a: uint64(cs.rflDst), b: 0})
	}
	g.raw(c02dInst{op: "end"})
	cs.prog = g.p
	cs.nBranch = g.nBranch
	cs.kind = "simdskip"
}

func c02dKnobs(rng *Rng, cs *c02dCase) {
	cs.fetchMax = rng.Pick(0, 2, 6, 6)
	cs.pServeS, cs.pRetS = rng.Pick(100, 60, 25), rng.Pick(100, 60, 25)
	cs.pServeV, cs.pRetV = rng.Pick(100, 60, 25), rng.Pick(100, 60, 25)
	cs.sOOO = rng.Bool()
	cs.vShuffle = rng.Chance(40)
	cs.sb = rng.Chance(35)
}

var c02dBases = []int{0x1000, 0x1004, 0x1038, 0x103c, 0x10fc, 0x1f34, 0x2030, 0x107c, 0x10f8, 0x1ffc}

func c02dGenCase(rng *Rng) *c02dCase {
	cs := &c02dCase{holdIdx: -1, getpcDst: -1, rflDst: -1}
	cs.base = uint64(c02dBases[rng.Intn(len(c02dBases))])
	cs.seed = uint64(rng.Intn(1 << 20))
	switch x := rng.Intn(100); {
	case x < 72:
		cs.exec = c02dFull
	case x < 80:
		cs.exec = rng.U64() & rng.U64()
	case x < 86:
		cs.exec = (uint64(1) << uint(rng.Range(1, 63))) - 1
	case x < 90:
		cs.exec = uint64(1) << uint(rng.Intn(64))
	case x < 96:
		cs.exec = uint64(uint32(rng.U64()))
	default:
		cs.exec = 0
	}
	c02dKnobs(rng, cs)
	switch x := rng.Intn(100); {
	case x < 5:
		if cs.exec != c02dFull && (cs.exec == 0 || cs.exec>>32 != 0) {
			cs.exec = c02dFull
		}
		c02dVmEmpty(rng, cs, false)
	case x < 20:
		c02dLateExec(rng, cs)
	case x < 35:
		c02dSimdSkip(rng, cs)
	default:
		c02dGenProgram(rng, cs)
	}
	if rng.Chance(40) {
		cs.cut = rng.Range(1, 120)
	}
	if rng.Chance(10) {
		cs.nEnv = rng.Range(1, 3)
	}
	return cs
}

// ---- running one case ---------------------------------------------------------------------------

func c02dBucket(n int) string {
	switch {
	case n <= 6:
		return "<=6"
	case n <= 12:
		return "7-12"
	case n <= 20:
		return "13-20"
	}
	return ">20"
}

func c02dRunCase(r *Run, rng *Rng, dis *insts.Disassembler, cs *c02dCase) {
	for _, i := range cs.prog {
		if msg := c02dCheckEnc(dis, i); msg != "" {
			r.Failf("C02.wf-encoding", i.text(), "%s", msg)
			return
		}
	}
	cs.layout()
	e := c02dRunEmu(cs, dis)
	if e.fault != "" || e.status != "done" {
		r.Note("c02 wf: emulator %s %s on prog=%s base=%x exec=%x seed=%d (case skipped)", e.status, e.fault, cs.progText(), cs.base, cs.exec, cs.seed)
		r.Count("wf:skipped-emulator")
		return
	}
	t := c02dNewT(r, rng, cs)
	for k := 0; k < cs.nEnv && t.abort == ""; k++ {
		t.envAt = append(t.envAt, rng.Range(1, 90))
	}
	for i := 1; i < len(t.envAt); i++ { // ascending
		for j := i; j > 0 && t.envAt[j] < t.envAt[j-1]; j-- {
			t.envAt[j], t.envAt[j-1] = t.envAt[j-1], t.envAt[j]
		}
	}
	var res *c02dTRes
	if t.abort == "" {
		res = t.run()
	}
	evs := "-"
	if len(t.evs) > 0 {
		evs = strings.Join(t.evs, ",")
	}
	line := fmt.Sprintf("c02 wf base=%x exec=%x seed=%d prog=%s ev=%s", cs.base, cs.exec, cs.seed, cs.progText(), evs)
	if t.abort != "" || res == nil {
		r.Failf("C02.wf-harness", line, "case aborted: %s", t.abort)
		return
	}
	r.Case(line, res.line+" | "+e.str(cs.base))

	// distribution
	r.Count("wf:kind=" + cs.kind)
	r.Count(fmt.Sprintf("wf:sb=%v", cs.sb))
	r.Count("wf:insts=" + c02dBucket(len(cs.prog)))
	if cs.nBranch > 0 {
		r.Count("wf:with-branches")
	}
	if cs.straddles() {
		r.Count("wf:inst-straddles-fetch-line")
	}
	if cs.exec != c02dFull {
		r.Count("wf:exec-partial")
	}
	if len(t.envAt) < cs.nEnv {
		r.Count("wf:env-performed")
	}
	if !res.completed {
		if cs.cut > 0 && res.ticks >= cs.cut {
			r.Count("wf:cut-off")
			r.Count("wf:cut-off-ph=" + res.ph)
			return
		}
		r.Checked("wf-hang")
		r.Failf("C02.wf-hang", line, "wavefront not completed after %d ticks (ph=%s)", res.ticks, res.ph)
		return
	}
	r.Count("wf:completed")
	r.Checked("wf-hang")

	// oracles on the two real sides
	raced := cs.foreignLd && len(t.envAt) < cs.nEnv
	sameTrace := c02dTrace(t.trace) == c02dTrace(e.trace)
	diff := e.st.differences(&res.st)
	// the static CFG check (c02_cfg.go): an accepted program must end as the emulator does
	c02CfgCase(r, cs, line, true, diff == "" && sameTrace, raced, diff)
	switch cs.kind {
	case "sync":
		r.Checked("wf-trace")
		if !sameTrace {
			r.Failf("C02.wf-trace-differs", line, "emulator executed %s, timing issued %s", c02dTrace(e.trace), c02dTrace(t.trace))
		}
		if raced {
			r.Count("wf:env-race")
			break
		}
		r.Checked("wf-final")
		if diff != "" {
			r.Failf("C02.wf-final-differs", line, "%s", diff)
		}
	case "getpc":
		r.Checked("wf-trace")
		if !sameTrace {
			r.Failf("C02.wf-trace-differs", line, "emulator executed %s, timing issued %s", c02dTrace(e.trace), c02dTrace(t.trace))
		}
		r.Checked("wf-getpc")
		d := cs.getpcDst
		if e.st.s[d] != res.st.s[d] || e.st.s[d+1] != res.st.s[d+1] {
			r.Failf("C02.wf-getpc-differs", line, "emulator s[%d:%d]=%x,%x timing %x,%x", d, d+1, e.st.s[d], e.st.s[d+1], res.st.s[d], res.st.s[d+1])
		}
	case "vmempty":
		r.Checked("wf-vmcnt-empty-access")
		if diff != "" || !sameTrace {
			r.Failf("C02.wf-vmcnt-empty-access", line, "a FLAT instruction under EXEC=0 is not counted by the timing CU, s_waitcnt vmcnt(1) passes early: %s", diff)
			r.Count("wf:vmempty-differs")
		} else {
			r.Count("wf:vmempty-same")
		}
	case "lateexec":
		r.CountN("wf:late-exec-window-hit", t.lateHit)
		r.CountN("wf:late-exec-window-miss", t.lateMiss)
		r.Checked("load-return-late-exec")
		bad := ""
		for _, d := range cs.ldDst {
			n, first := 0, -1
			for l := 0; l < 64; l++ {
				if e.st.v[d][l] != res.st.v[d][l] {
					n++
					if first < 0 {
						first = l
					}
				}
			}
			if n > 0 {
				bad += fmt.Sprintf("v%d: %d lanes differ, lane %d emulator %x timing %x; ", d, n, first, e.st.v[d][first], res.st.v[d][first])
			}
		}
		switch {
		case bad != "":
			r.Failf("C02.load-return-uses-late-exec", line, "the lanes a returning load writes must be those of EXEC when it executed: %s", bad)
		case !sameTrace:
			r.Failf("C02.wf-trace-differs", line, "emulator executed %s, timing issued %s", c02dTrace(e.trace), c02dTrace(t.trace))
		case diff != "":
			r.Failf("C02.wf-final-differs", line, "%s", diff)
		}
	case "simdskip":
		r.Checked("simd-skipped-instruction")
		d := cs.rflDst
		switch {
		case !sameTrace || e.st.vcc != res.st.vcc || e.st.s[d] != res.st.s[d]:
			r.Failf("C02.simd-skipped-instruction", line, "emulator tr=%s vcc=%x s%d=%x, timing tr=%s vcc=%x s%d=%x", c02dTrace(e.trace), e.st.vcc, d, e.st.s[d],
				c02dTrace(t.trace), res.st.vcc, d, res.st.s[d])
		case diff != "":
			r.Failf("C02.wf-final-differs", line, "%s", diff)
		}
	case "hazard":
		if diff != "" || !sameTrace {
			r.Count("wf:hazard-differs")
		} else {
			r.Count("wf:hazard-same")
		}
	}
}

// ---- class 4: coalesced stores with duplicate addresses inside one line (`c02 st` lines) --------

// c02dStoreCase draws the lane addresses of one pattern; every dword is 4-aligned inside its line.
func c02dStoreCase(rng *Rng, pat int) *c02Flat {
	c := &c02Flat{opc: 28, arch: "gcn3", dst: rng.Range(6, 10), seed: uint64(rng.Intn(1 << 20))}
	if rng.Chance(30) {
		c.arch = "cdna3"
	}
	base := uint64(0x100000000) + uint64(rng.Intn(1<<20))*64
	randExec := func(n int) uint64 { // n random lanes
		var e uint64
		for _, l := range rng.Perm(64)[:n] {
			e |= 1 << uint(l)
		}
		return e
	}
	dw := func(k int) uint64 { return base + 4*uint64(k) }
	switch pat {
	case 0: // all active lanes on ONE dword
		c.exec = randExec(rng.Range(2, 64))
		if rng.Chance(30) {
			c.exec = c02dFull
		}
		k := rng.Intn(16)
		for l := 0; l < 64; l++ {
			if c.exec&(1<<uint(l)) != 0 {
				c.vals = append(c.vals, dw(k))
			}
		}
	case 1: // 16 lanes, two of them on the same dword, one dword of the line never addressed
		c.exec = randExec(16)
		if rng.Bool() {
			c.exec = 0xffff << uint(rng.Intn(49))
		}
		slots := rng.Perm(16) // slots[15] is never addressed
		for n := 0; n < 15; n++ {
			c.vals = append(c.vals, dw(slots[n]))
		}
		c.vals = append(c.vals, dw(slots[rng.Intn(15)]))
		for i, j := range rng.Perm(16) { // which lane holds the duplicate is random
			if i < j {
				c.vals[i], c.vals[j] = c.vals[j], c.vals[i]
			}
		}
	case 2: // 17..64 lanes cover 15 of the 16 dwords, with duplicates: >= 64 bytes merged, one dword untouched
		n := rng.Range(17, 64)
		c.exec = randExec(n)
		slots := rng.Perm(16)
		for i := 0; i < n; i++ {
			if i < 15 {
				c.vals = append(c.vals, dw(slots[i]))
			} else {
				c.vals = append(c.vals, dw(slots[rng.Intn(15)]))
			}
		}
		for i, j := range rng.Perm(n) {
			if i < j {
				c.vals[i], c.vals[j] = c.vals[j], c.vals[i]
			}
		}
	case 3: // two lines, each with duplicates and holes
		n := rng.Range(6, 40)
		c.exec = randExec(n)
		other := base + 64*uint64(rng.Pick(1, 2, 5))
		for i := 0; i < n; i++ {
			a := dw(rng.Intn(6) * 2)
			if rng.Bool() {
				a = other + 4*uint64(rng.Intn(5)*3)
			}
			c.vals = append(c.vals, a)
		}
	case 4: // x2 / x4: chunks with duplicates, one chunk of the line untouched
		c.opc = rng.Pick(29, 31)
		chunk, per := 8, 8
		if c.opc == 31 {
			chunk, per = 16, 4
		}
		n := rng.Range(2, 24)
		c.exec = randExec(n)
		hole := rng.Intn(per)
		for i := 0; i < n; i++ {
			k := rng.Intn(per)
			for k == hole {
				k = rng.Intn(per)
			}
			a := base + uint64(chunk*k)
			if rng.Chance(25) { // overlapping, not identical: shifted by one dword (stays inside the line)
				if a+4+uint64(chunk) <= base+64 && (k+1 != hole || c.opc == 31) {
					a += 4
				}
			}
			c.vals = append(c.vals, a)
		}
	default: // a single lane
		c.exec = uint64(1) << uint(rng.Intn(64))
		c.opc = rng.Pick(28, 28, 29, 31)
		c.vals = []uint64{dw(rng.Intn(12))}
	}
	return c
}

// c02dRunStore: like (*c02Env).runStore — the real coalescer and issue code of the vector memory unit
// next to the real emulator, same `c02 st` line — and every real mem.WriteReq is checked byte by byte.
func c02dRunStore(r *Run, rng *Rng, e *c02Env, c *c02Flat, pat int) {
	c.ord = rng.Perm(c.nLines())
	line := c.line("st")
	inst := c.inst(e)
	e.mem.pattern, e.mem.seed, e.mem.over = false, c.seed, map[uint64]byte{}
	c.setRegs(e, rng, true)
	var eout string
	if f := e.runEmu(c.arch, inst, c.exec); f != "" {
		eout = c02Fault(f)
	} else {
		eout = c02Runs2Str(e.mem.over)
	}
	wf := e.newTimingWf(c.exec)
	wf.SetDynamicInst(wavefront.NewInst(inst))
	var txns []cu.VerifTxn
	var ok bool
	tf := catch(func() { ok, txns = e.cu.VerifFlatIssue(wf) })
	tmem := map[uint64]byte{}
	var tx []string
	for _, t := range txns {
		n := 0
		for _, d := range t.Write.DirtyMask {
			if d {
				n++
			}
		}
		tx = append(tx, fmt.Sprintf("%x:%d", t.Write.Address, n))
	}
	if tf == "" && ok {
		for _, i := range c.ord {
			if i >= len(txns) {
				continue
			}
			t := txns[i]
			for k, d := range t.Write.DirtyMask { // only dirty bytes reach the memory
				if d {
					tmem[t.Write.Address+uint64(k)] = t.Write.Data[k]
				}
			}
			rsp := mem.WriteDoneRspBuilder{}.WithRspTo(t.Write.ID).Build()
			if tf = catch(func() { e.cu.VerifVectorMemRsp(rsp) }); tf != "" {
				break
			}
		}
	}
	tout := c02Runs2Str(tmem)
	if tf != "" {
		tout = c02Fault(tf)
		r.Case(line, fmt.Sprintf("E %s | T %s", eout, tout))
	} else {
		r.Case(line, fmt.Sprintf("E %s | T txns=%s %s", eout, strings.Join(tx, ","), tout))
	}
	r.Count(fmt.Sprintf("st-dup:pattern=%d", pat))
	r.Count(fmt.Sprintf("st-dup:lines=%d", len(txns)))

	// which (lane, j) covers a byte: the highest lane wins (the coalescer merges lanes ascending)
	_, cnt := c02Width(c.opc)
	type src struct {
		lane, j int
		start   uint64
	}
	cover := func(a uint64) (src, bool) {
		best, found := src{}, false
		k := 0
		for l := 0; l < 64; l++ {
			if c.exec&(1<<uint(l)) == 0 {
				continue
			}
			v := c.effAddr(c.vals[k])
			k++
			for j := 0; j < cnt; j++ {
				if s := v + uint64(4*j); s <= a && a < s+4 {
					best, found = src{l, j, s}, true
				}
			}
		}
		return best, found
	}
	r.Checked("store-dirty-mask")
	if tf != "" {
		r.Failf("C02.store-differs.dup", line, "timing side faults: %s (emulator %s)", tout, eout)
		return
	}
	covered := 0
	for _, t := range txns {
		w := t.Write
		if w == nil || len(w.DirtyMask) != len(w.Data) {
			r.Failf("C02.store-writes-unaddressed-byte.shape", line, "request without data / dirty mask of another length")
			continue
		}
		extra, missing, wrong := 0, 0, 0
		var first [3]string
		for k := range w.Data {
			a := w.Address + uint64(k)
			sc, cov := cover(a)
			switch {
			case w.DirtyMask[k] && !cov:
				if extra++; extra == 1 {
					first[0] = fmt.Sprintf("byte %d (address %x) is dirty, no active lane stores there", k, a)
				}
			case !w.DirtyMask[k] && cov:
				if missing++; missing == 1 {
					first[1] = fmt.Sprintf("byte %d (address %x) is stored by lane %d but not dirty", k, a, sc.lane)
				}
			case cov:
				covered++
				want := byte(c02DataWord(c.seed, sc.lane, sc.j) >> (8 * (a - sc.start)))
				if w.Data[k] != want {
					if wrong++; wrong == 1 {
						first[2] = fmt.Sprintf("byte %d is %02x, the highest lane storing there (%d) holds %02x", k, w.Data[k], sc.lane, want)
					}
				}
			}
		}
		if extra > 0 {
			r.Failf("C02.store-writes-unaddressed-byte", line, "request %x: %d such bytes, first: %s", w.Address, extra, first[0])
		}
		if missing > 0 {
			r.Failf("C02.store-writes-unaddressed-byte.missing", line, "request %x: %d such bytes, first: %s", w.Address, missing, first[1])
		}
		if wrong > 0 {
			r.Failf("C02.store-wrong-merge", line, "request %x: %d such bytes, first: %s", w.Address, wrong, first[2])
		}
	}
	// every stored byte is in some request
	total := map[uint64]bool{}
	for _, v := range c.vals {
		for j := 0; j < 4*cnt; j++ {
			total[c.effAddr(v)+uint64(j)] = true
		}
	}
	if covered != len(total) {
		r.Failf("C02.store-writes-unaddressed-byte.missing", line, "%d bytes stored by the lanes, %d covered by the requests", len(total), covered)
	}
	r.Checked("store-emu-vs-timing")
	if eout != tout {
		r.Failf("C02.store-differs.dup", line, "emulator: %s  timing: %s", eout, tout)
	}
}

func c02dRunStores(r *Run, rng *Rng, n int) {
	e := newC02Env()
	for k := 0; k < n; k++ {
		pat := k % 6
		c02dRunStore(r, rng, e, c02dStoreCase(rng, pat), pat)
	}
}

func runC02Deep(r *Run, rng *Rng, replay string) {
	sim.GetIDGenerator()
	dis := insts.NewDisassembler()
	n := 120
	if r.Tier == "thorough" {
		n = 3000
	}
	// fixed witnesses first
	w1 := &c02dCase{base: 0x1000, exec: c02dFull, seed: 7, holdIdx: -1, kind: "getpc", getpcDst: 4,
		prog: []c02dInst{{op: "getpc", a: 4}, {op: "end"}}, fetchMax: 2, pServeS: 100, pRetS: 100, pServeV: 100, pRetV: 100}
	c02dRunCase(r, rng, dis, w1)
	w2 := &c02dCase{base: 0x1000, exec: c02dFull, seed: 7, fetchMax: 1, pServeS: 100, pRetS: 100, pServeV: 100, pRetV: 100}
	c02dVmEmpty(rng, w2, true)
	c02dRunCase(r, rng, dis, w2)
	for k := 0; k < n; k++ {
		c02dRunCase(r, rng, dis, c02dGenCase(rng))
	}
	nst := 60
	if r.Tier == "thorough" {
		nst = 1500
	}
	c02dRunStores(r, rng, nst)
}
