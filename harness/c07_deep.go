package main

import (
	"fmt"
	"strings"

	"github.com/sarchlab/mgpusim/v4/amd/insts"
	"github.com/sarchlab/mgpusim/v4/amd/kernels"
	shim "github.com/sarchlab/mgpusim/v4/amd/timing/cp/verifshimc09"
)

// C07 (deepening).
//
// 1. Register windows from the REAL resource allocator instead of the generator: a random
//    ReserveResourceForWG / FreeResourcesForWG history on a real CUResourceImpl registered with the
//    shipped compute unit's shape; case line
//
//	c07 alloc <cu> ; r <key> <nwf> <s> <v> <l> ; f <key> ; …
//	    -> ok:<locs>|no|f … wf=<simd>:<soff>:<voff>:<ns>:<nv>,… inside=<0|1> disjoint=<0|1>
//
//    (Lean: C09.reserve/free + C07.wfsOfCU; theorem allocator_windows_disjoint). The windows of the
//    live wavefronts are then checked byte by byte on bitmaps of the register files (oracle
//    C07.alloc.overlap / C07.alloc.outside, independent of the model) and handed to an ordinary
//    `c07 tim` scenario on a real compute unit register file: valid interleaved accesses of all
//    live wavefronts with the flat-cells, frame and same-answers oracles of c07.go.
//
// 2. Replays of the fault-disagreement witnesses of theorem read_faults_agree_every_operand_refuted
//    on the real stores (correspondence ties them to the model; oracle C07.fault-witness.stale fires
//    when a listed disagreement no longer reproduces).
func init() { register("C07", runC07Deep) }

var c07ShippedShape = c09Shape{wf: []int{10, 10, 10, 10}, s: 3200, v: []int{16384, 16384, 16384, 16384}, lds: 65536}

type c07Live struct {
	key  int
	d    c09Dem
	locs []shim.WfLocation
}

// c07Windows: the live wavefronts' windows in reservation order, plus the byte-level checks.
func c07Windows(live []c07Live) (wins []string, ns, nv []int, inside, disjoint bool, detail string) {
	inside, disjoint = true, true
	sOwner := make([]int, c07SFileBytes)
	vOwner := make([][]int, 4)
	for i := range vOwner {
		vOwner[i] = make([]int, c07VFileBytes)
	}
	id := 0
	for _, lv := range live {
		for _, l := range lv.locs {
			id++
			wins = append(wins, fmt.Sprintf("%d:%d:%d:%d:%d", l.SIMDID, l.SGPROffset, l.VGPROffset, lv.d.s, lv.d.v))
			ns = append(ns, lv.d.s)
			nv = append(nv, lv.d.v)
			if l.SIMDID < 0 || l.SIMDID >= 4 || l.SGPROffset < 0 || l.VGPROffset < 0 ||
				l.SGPROffset+4*lv.d.s > c07SFileBytes || l.VGPROffset+4*lv.d.v > 1024 {
				inside = false
				detail += fmt.Sprintf(" wavefront %d (wg %d) simd=%d soff=%d voff=%d ns=%d nv=%d outside;", id, lv.key,
					l.SIMDID, l.SGPROffset, l.VGPROffset, lv.d.s, lv.d.v)
				continue
			}
			for p := l.SGPROffset; p < l.SGPROffset+4*lv.d.s; p++ {
				if sOwner[p] != 0 && disjoint {
					disjoint = false
					detail += fmt.Sprintf(" SGPR byte %d owned by wavefronts %d and %d;", p, sOwner[p], id)
				}
				sOwner[p] = id
			}
			for lane := 0; lane < 64; lane++ {
				base := l.VGPROffset + 1024*lane
				for p := base; p < base+4*lv.d.v; p++ {
					if vOwner[l.SIMDID][p] != 0 && disjoint {
						disjoint = false
						detail += fmt.Sprintf(" VGPR byte %d of SIMD %d owned by wavefronts %d and %d;", p, l.SIMDID, vOwner[l.SIMDID][p], id)
					}
					vOwner[l.SIMDID][p] = id
				}
			}
		}
	}
	return
}

func c07B(b bool) string {
	if b {
		return "1"
	}
	return "0"
}

func c07AllocCase(r *Run, rng *Rng, nops, nacc int) {
	sh := c07ShippedShape
	if rng.Chance(30) { // fewer slots: more refusals, more reuse of freed regions
		k := rng.Pick(1, 2, 3)
		sh.wf = []int{k, k, k, k}
	}
	ops := []string{"c07 alloc " + sh.String()}
	var outs []string
	pool := shim.NewPool()
	if f := catch(func() { pool.Register(&c09CU{name: "CU0", shape: sh}) }); f != "" {
		r.Failf("C07.alloc.register-panic", ops[0], "%s", f)
		return
	}
	var live []c07Live
	wgs := map[int]*kernels.WorkGroup{}
	nextKey := 1
	sPick := func() int { return rng.Pick(0, 1, 8, 16, 16, 17, 32, 33, 48, 64, 96, 100, 102, rng.Range(1, 102)) }
	vPick := func() int { return rng.Pick(0, 1, 3, 4, 4, 5, 8, 9, 16, 24, 64, 128, 200, 255, 256, rng.Range(1, 256)) }
	base := c09Dem{nwf: rng.Pick(1, 1, 2, 3, 4), s: sPick(), v: vPick(), l: c09RandL(rng)}
	for i := 0; i < nops; i++ {
		nl := 0
		for _, lv := range live {
			nl += len(lv.locs)
		}
		if len(live) > 0 && (rng.Chance(35) || nl > 10) {
			j := rng.Intn(len(live))
			lv := live[j]
			op := fmt.Sprintf("f %d", lv.key)
			if f := catch(func() { pool.Free(0, wgs[lv.key]) }); f != "" {
				r.Failf("C07.alloc.free-panic", strings.Join(ops, " ; ")+" ; "+op, "%s", f)
				return
			}
			ops, outs = append(ops, op), append(outs, "f")
			live = append(live[:j], live[j+1:]...)
			delete(wgs, lv.key)
			r.Count("alloc.free")
			continue
		}
		d := base
		if rng.Chance(40) {
			d = c09Dem{nwf: rng.Pick(1, 1, 2, 3, 4), s: sPick(), v: vPick(), l: c09RandL(rng)}
		}
		key := nextKey
		nextKey++
		op := fmt.Sprintf("r %d %d %d %d %d", key, d.nwf, d.s, d.v, d.l)
		wg := c09MakeWG(d)
		var locs []shim.WfLocation
		var ok bool
		if f := catch(func() { locs, ok = pool.Reserve(0, wg) }); f != "" {
			r.Failf("C07.alloc.reserve-panic", strings.Join(ops, " ; ")+" ; "+op, "%s", f)
			return
		}
		ops = append(ops, op)
		if ok {
			outs = append(outs, "ok:"+c09LocsString(locs))
			live = append(live, c07Live{key, d, append([]shim.WfLocation(nil), locs...)})
			wgs[key] = wg
			r.Count("alloc.reserve-ok")
			if d.s == 0 || d.v == 0 {
				r.Count("alloc.empty-window")
			}
		} else {
			outs = append(outs, "no")
			r.Count("alloc.reserve-no")
		}
	}
	wins, ns, nv, inside, disjoint, detail := c07Windows(live)
	wf := "-"
	if len(wins) > 0 {
		wf = strings.Join(wins, ",")
	}
	line := strings.Join(ops, " ; ")
	outs = append(outs, "wf="+wf, "inside="+c07B(inside), "disjoint="+c07B(disjoint))
	r.Case(line, strings.Join(outs, " "))
	r.Checked("alloc.windows")
	if !inside {
		r.Failf("C07.alloc.outside", line, "a live wavefront's register window lies outside the register files:%s", detail)
	}
	if !disjoint {
		r.Failf("C07.alloc.overlap", line, "two live wavefronts share register bytes:%s", detail)
	}
	r.CountN("alloc.live-wavefronts", len(wins))
	if len(wins) == 0 || !inside || !disjoint {
		return
	}
	// register accesses on a real compute unit at the allocator's offsets
	scn := []string{fmt.Sprintf("c07 tim fill=%d nsimd=4 wf=%s", rng.Range(1, 1<<30), wf)}
	for w := range wins {
		scn = append(scn, c07SetOp(rng, w))
	}
	for i := 0; i < nacc; i++ {
		w := rng.Intn(len(wins))
		scn = append(scn, c07GenOp(rng, w, ns[w], nv[w], true))
		if rng.Chance(1) {
			scn = append(scn, fmt.Sprintf("rel %d", rng.Intn(len(wins))))
		}
	}
	runC07Scenario(r, scn, "valid")
	r.Count("alloc.access-scenario")
}

// c07FaultWitness replays one (register, RegCount, lane) read on both real stores and compares the
// fault outcome with what theorem read_faults_agree_every_operand_refuted lists.
func c07FaultWitness(r *Run, name, timWf string, reg insts.RegType, rc, lane int, wantEmu, wantTim string) {
	c07FaultWitnessOp(r, name, "rb", timWf, reg, rc, lane, wantEmu, wantTim)
}

func c07FaultWitnessOp(r *Run, name, kind, timWf string, reg insts.RegType, rc, lane int, wantEmu, wantTim string) {
	op := fmt.Sprintf("rb 0 %d %d %d 8", reg, rc, lane)
	switch kind {
	case "r":
		op = fmt.Sprintf("r 0 %d %d %d", reg, rc, lane)
	case "w":
		op = fmt.Sprintf("w 0 %d %d %d 1122334455667788", reg, rc, lane)
	}
	class := func(tok string) string {
		if strings.HasPrefix(tok, "fault:") {
			return tok
		}
		return "ok"
	}
	run := func(hdr string) string {
		n := len(r.impl)
		runC07Scenario(r, []string{hdr, op}, "wild")
		if len(r.impl) <= n {
			return "none"
		}
		f := strings.Fields(r.impl[len(r.impl)-1])
		if len(f) == 0 {
			return "none"
		}
		return class(f[0])
	}
	gotEmu := run("c07 emu fill=0")
	gotTim := run("c07 tim fill=0 nsimd=1 wf=" + timWf)
	r.Checked("fault-witness")
	r.Count("fault-witness." + name)
	if gotEmu != wantEmu || gotTim != wantTim {
		r.Failf("C07.fault-witness.stale", name+": "+op+" (timing wf="+timWf+")",
			"listed disagreement no longer reproduces: emulator %s (listed %s), timing %s (listed %s)", gotEmu, wantEmu, gotTim, wantTim)
	}
}

func runC07Deep(r *Run, rng *Rng, replay string) {
	// the seven disagreement classes (Lean: witnesses of read_faults_agree_every_operand_refuted)
	c07FaultWitness(r, "vcc-count-9", "0:0:0:0:0", insts.VCC, 9, 0, "fault:bounds", "ok")
	c07FaultWitness(r, "exechi-pair", "0:0:0:0:0", insts.EXECHI, 2, 0, "fault:unsupported", "ok")
	c07FaultWitness(r, "s100-x4", "0:0:0:0:0", insts.S0+100, 4, 0, "fault:bounds", "ok")
	c07FaultWitness(r, "s16-last-unit", "0:12736:16:16:4", insts.S0+16, 0, 0, "ok", "fault:bounds")
	c07FaultWitness(r, "v0-x17", "0:0:0:0:0", insts.V0, 17, 0, "fault:bounds", "ok")
	c07FaultWitness(r, "v252-lane63-voff16", "0:12736:16:16:4", insts.V0+252, 0, 63, "ok", "fault:bounds")
	c07FaultWitness(r, "flatscratchlo-x17", "0:0:0:0:0", insts.FlatSratchLo, 17, 0, "fault:bounds", "fault:unsupported")
	// ReadOperand / WriteOperand (theorem operand_fault_disagreements and its example)
	c07FaultWitnessOp(r, "r-s100-x4-agree", "r", "0:0:0:0:0", insts.S0+100, 4, 0, "ok", "ok")
	c07FaultWitnessOp(r, "r-s101-x2", "r", "0:0:0:0:0", insts.S0+101, 2, 0, "fault:bounds", "ok")
	c07FaultWitnessOp(r, "w-exechi-pair", "w", "0:0:0:0:0", insts.EXECHI, 2, 0, "fault:unsupported", "ok")
	c07FaultWitnessOp(r, "w-s101-x2", "w", "0:0:0:0:0", insts.S0+101, 2, 0, "fault:bounds", "ok")
	c07FaultWitnessOp(r, "w-s0-x4-both", "w", "0:0:0:16:4", insts.S0, 4, 0, "fault:bounds", "fault:bounds")

	n, nacc := 60, 120
	if r.Tier == "thorough" {
		n, nacc = 800, 300
	}
	for i := 0; i < n; i++ {
		c07AllocCase(r, rng, rng.Range(2, 24), rng.Range(20, nacc))
	}
}
