package main

import (
	"fmt"
	"strings"
	"time"

	"github.com/sarchlab/mgpusim/v4/amd/kernels"
	cpshim "github.com/sarchlab/mgpusim/v4/amd/timing/cp/verifshim"
)

// C09 (deepening) — the partition placement algorithm alone, tied to the Lean model
// MgpuModel/C09_Part.lean (theorem partition_conserves). The real partitionAlgorithm is driven
// through the hook of property C08 (VerifNewPartition) on a one-dimensional grid; the outcome of
// every ReserveResourceForWG call is dictated by the case line.
//
//	c09 part gx=<grid> wx=<group> ncu=<CUs> fails=<0/1 string | ->   ->   n=<NumWG> seq=cu:idx;-;…[;stuck]

func init() { register("C09", runC09Deep) }

func c09PartCase(r *Run, gx, wx, ncu int, fails string) {
	fs := fails
	if fs == "" {
		fs = "-"
	}
	line := fmt.Sprintf("c09 part gx=%d wx=%d ncu=%d fails=%s", gx, wx, ncu, fs)
	total := (gx-1)/wx + 1
	pos := 0
	p := cpshim.NewPartition(ncu, func(cu int) bool {
		if pos < len(fails) {
			pos++
			return fails[pos-1] == '0'
		}
		return true
	})
	var seq []string
	var idxs []int
	var cus []int
	n := 0
	ok, fault := withTimeout(20*time.Second, func() {
		p.StartNewKernel(kernels.KernelLaunchInfo{CodeObject: c08CodeObject(false, 0, false),
			Packet: c08Packet(c08Geo{gx, 1, 1}, c08Geo{wx, 1, 1})})
		n = p.NumWG()
		for steps := 0; p.HasNext() && steps < 4*total+len(fails)+16; steps++ {
			d := p.Next()
			if !d.Valid {
				seq = append(seq, "-")
				continue
			}
			seq = append(seq, fmt.Sprintf("%d:%d", d.CU, d.WG.IDX))
			idxs = append(idxs, d.WG.IDX)
			cus = append(cus, d.CU)
		}
		if p.HasNext() {
			seq = append(seq, "stuck")
		}
	})
	if !ok || fault != "" {
		if strings.Contains(fault, "divide_by_zero") {
			fault = "div0"
		}
		r.Case(line, "fault:"+fault)
		if ncu != 0 {
			r.Failf("C09.partition.panic", line, "%s", fault)
		}
		r.Count("part:fault")
		return
	}
	r.Case(line, fmt.Sprintf("n=%d seq=%s", n, strings.Join(seq, ";")))
	// oracle (independent of the model): every work-group offered exactly once, on an existing CU
	r.Checked("partition.conserves")
	seen := make([]int, total)
	bad := n != total
	for k, ix := range idxs {
		if ix < 0 || ix >= total || cus[k] < 0 || cus[k] >= ncu {
			bad = true
			continue
		}
		seen[ix]++
	}
	for _, c := range seen {
		if c != 1 {
			bad = true
		}
	}
	if bad || (len(seq) > 0 && seq[len(seq)-1] == "stuck") {
		r.Failf("C09.partition.conserves", line, "offered %v: not every work-group of the %d-group grid exactly once", idxs, total)
	}
	if strings.Contains(fails, "1") {
		r.Count("part:refusals")
	} else {
		r.Count("part:no-refusal")
	}
	if ncu > total {
		r.Count("part:more-cus-than-groups")
	}
}

func runC09Deep(r *Run, rng *Rng, replay string) {
	n := 700
	if r.Tier == "thorough" {
		n = 6000
	}
	c09PartCase(r, 64, 64, 0, "")
	c09PartCase(r, 320, 64, 4, "")
	c09PartCase(r, 320, 64, 4, "1101")
	for i := 0; i < n; i++ {
		wx := rng.Pick(1, 3, 16, 64, 64, 100, 256)
		nwg := rng.Pick(1, 1, 2, 3, 4, 5, 7, 8, 9, 16, 17, 31, 33, 64)
		if rng.Chance(20) {
			nwg = rng.Range(1, 80)
		}
		gx := (nwg-1)*wx + rng.Range(1, wx)
		ncu := rng.Pick(1, 1, 2, 3, 4, 4, 5, 8, 16, 36, 64)
		if rng.Chance(15) {
			ncu = rng.Range(1, 2*nwg+1)
		}
		var sb strings.Builder
		switch rng.Intn(5) {
		case 0: // no refusal
		case 1: // a burst of refusals at the start (every CU busy)
			for k, m := 0, rng.Range(1, 3*ncu+2); k < m; k++ {
				sb.WriteByte('1')
			}
		default:
			pct := rng.Pick(10, 30, 50, 80, 95)
			for k, m := 0, rng.Range(1, 3*nwg+ncu); k < m; k++ {
				if rng.Chance(pct) {
					sb.WriteByte('1')
				} else {
					sb.WriteByte('0')
				}
			}
		}
		c09PartCase(r, gx, wx, ncu, sb.String())
	}
}
