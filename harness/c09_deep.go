package main

import (
	"fmt"
	"strings"
	"time"

	"github.com/sarchlab/akita/v4/sim"
	"github.com/sarchlab/mgpusim/v4/amd/kernels"
	cpshim "github.com/sarchlab/mgpusim/v4/amd/timing/cp/verifshim"
)

// C09 (deepening) — the partition placement algorithm alone, tied to the Lean model
// MgpuModel/C09_Part.lean (theorem partition_conserves). The real partitionAlgorithm is driven
// through the hook of property C08 (VerifNewPartition) on a one-dimensional grid; the outcome of
// every ReserveResourceForWG call is dictated by the case line.
//
//	c09 part gx=<grid> wx=<group> ncu=<CUs> fails=<0/1 string | ->   ->   n=<NumWG> seq=cu:idx;-;…[;stuck]

func init() { register("C09", runC09Deep) }

func c09PartCase(r *Run, gx, wx, ncu int, fails string) {
	fs := fails
	if fs == "" {
		fs = "-"
	}
	line := fmt.Sprintf("c09 part gx=%d wx=%d ncu=%d fails=%s", gx, wx, ncu, fs)
	total := (gx-1)/wx + 1
	pos := 0
	p := cpshim.NewPartition(ncu, func(cu int) bool {
		if pos < len(fails) {
			pos++
			return fails[pos-1] == '0'
		}
		return true
	})
	var seq []string
	var idxs []int
	var cus []int
	n := 0
	ok, fault := withTimeout(20*time.Second, func() {
		p.StartNewKernel(kernels.KernelLaunchInfo{CodeObject: c08CodeObject(false, 0, false),
			Packet: c08Packet(c08Geo{gx, 1, 1}, c08Geo{wx, 1, 1})})
		n = p.NumWG()
		for steps := 0; p.HasNext() && steps < 4*total+len(fails)+16; steps++ {
			d := p.Next()
			if !d.Valid {
				seq = append(seq, "-")
				continue
			}
			seq = append(seq, fmt.Sprintf("%d:%d", d.CU, d.WG.IDX))
			idxs = append(idxs, d.WG.IDX)
			cus = append(cus, d.CU)
		}
		if p.HasNext() {
			seq = append(seq, "stuck")
		}
	})
	if !ok || fault != "" {
		if strings.Contains(fault, "divide_by_zero") {
			fault = "div0"
		}
		r.Case(line, "fault:"+fault)
		if ncu != 0 {
			r.Failf("C09.partition.panic", line, "%s", fault)
		}
		r.Count("part:fault")
		return
	}
	r.Case(line, fmt.Sprintf("n=%d seq=%s", n, strings.Join(seq, ";")))
	// oracle (independent of the model): every work-group offered exactly once, on an existing CU
	r.Checked("partition.conserves")
	seen := make([]int, total)
	bad := n != total
	for k, ix := range idxs {
		if ix < 0 || ix >= total || cus[k] < 0 || cus[k] >= ncu {
			bad = true
			continue
		}
		seen[ix]++
	}
	for _, c := range seen {
		if c != 1 {
			bad = true
		}
	}
	if bad || (len(seq) > 0 && seq[len(seq)-1] == "stuck") {
		r.Failf("C09.partition.conserves", line, "offered %v: not every work-group of the %d-group grid exactly once", idxs, total)
	}
	if strings.Contains(fails, "1") {
		r.Count("part:refusals")
	} else {
		r.Count("part:no-refusal")
	}
	if ncu > total {
		r.Count("part:more-cus-than-groups")
	}
}

// c09OversizeCase: a kernel whose work-groups fit no CU even when the CU is empty (Lean: `Fits` is false
// for every CU of the pool), launched after a kernel that fits was served, on the real command
// processor with CUs of the given shape. Expected (repair 91eb1bb3, Lean `oversize_launch_is_rejected_at_once`,
// `oversize_group_is_rejected`): the tick in which a dispatcher takes the oversize launch panics at once
// ("cannot dispatch kernel": `fault:oversize`); nothing of it is mapped and no response is sent. The
// pinned code neither mapped nor rejected it — every later tick reported no progress and the launch
// never returned (Lean `oversize_group_waits_forever_before_fix`); if that is ever observed again it is
// reported as C09.oversize.silent-wait, so that reverting the repair is caught.
func c09OversizeCase(r *Run, sh c09Shape, nCU int, big [5]int, why string) {
	e := &c09Env{r: r, rng: NewRng(1), model: true, byReq: map[string]int{}, cuRoom: c09PortCap, drvRoom: c09PortCap}
	var shapeStr []string
	for i := 0; i < nCU; i++ {
		e.shapes = append(e.shapes, sh)
		e.cus = append(e.cus, &c09CU{name: fmt.Sprintf("CU%d", i), shape: sh})
		e.occ = append(e.occ, newC09Occ(sh))
		shapeStr = append(shapeStr, sh.String())
	}
	e.line = []string{fmt.Sprintf("c09 cp alg=rr nd=8 klo=0 ko=1 sklo=0 thr=0 cus=%s", strings.Join(shapeStr, "|"))}
	e.eng = &fakeEngine{}
	e.cp = c09BuildCP(e.eng, e.cus, 0, 1, 0, 0)
	conn := &fakeConn{name: "Conn"}
	for _, p := range []sim.Port{e.cp.ToDriver, e.cp.ToCUs, e.cp.ToDMA, e.cp.ToTLBs, e.cp.ToRDMA, e.cp.ToPMC, e.cp.ToAddressTranslators, e.cp.ToCaches} {
		conn.PlugIn(p)
	}
	e.cp.ToCUs.AcceptHook(e)
	e.cp.ToDriver.AcceptHook(e)
	e.drv = sim.NewPort(nil, 1, 1, "Driver.ToGPU")
	e.launch(128, 64, 16, 4, 256) // kernel 0: fits, served to the end
	e.doTicks(4)
	for len(e.outst) > 0 {
		e.done([]int{0})
	}
	e.doTicks(6)
	e.launch(big[0], big[1], big[2], big[3], big[4]) // kernel 1: fits no CU
	e.doTicks(1)                                     // the tick that takes it: fault:oversize
	rejected := e.dead && strings.Contains(e.fault, "cannot_dispatch_kernel")
	late := e.doTicks(300) // X once rejected
	e.doProbe()
	r.Checked("oversize")
	r.Count("c09.oversize." + why)
	r.Case(e.caseString(), strings.Join(e.outs, " "))
	l0, l1 := e.launches[0], e.launches[1]
	if l1.fits0 || !l1.stuckOK {
		r.Failf("C09.oversize.harness", e.caseString(), "the harness considers the work-group placeable")
		return
	}
	if l0.rsps != 1 {
		r.Failf("C09.oversize.blocks-others", e.caseString(), "the kernel that fits was not answered before the oversize kernel was launched (%d of %d groups mapped)", len(l0.mapped), l0.numWG)
	}
	switch {
	case rejected && len(l1.mapped) == 0 && l1.rsps == 0:
		r.Count("c09.oversize.rejected-at-once")
	case !e.dead && len(l1.mapped) == 0 && l1.rsps == 0 && late == 0:
		r.Failf("C09.oversize.silent-wait", e.caseString(),
			"%s: a work-group of %d work-items with %d SGPRs, %d VGPRs, %d LDS bytes fits no empty CU (%s); the dispatcher neither maps nor rejects it: 300 further ticks report no progress, no response, no error — the launch never returns",
			why, big[1], big[2], big[3], big[4], sh.String())
	default:
		r.Failf("C09.oversize.not-rejected", e.caseString(),
			"%s: a work-group of %d work-items with %d SGPRs, %d VGPRs, %d LDS bytes fits no empty CU (%s) but the tick that takes the launch did not reject it cleanly: dead=%v fault=%q mapped=%d responses=%d",
			why, big[1], big[2], big[3], big[4], sh.String(), e.dead, e.fault, len(l1.mapped), l1.rsps)
	}
}

// c09OvertakeCase replays the Lean witness `later_launch_overtakes_earlier` on the real command
// processor: kernel 1 (one work-group that needs the whole CU) is launched before kernel 2 (three small
// work-groups) and is mapped after all of them; every kernel is answered once.
func c09OvertakeCase(r *Run) {
	sh := c09Shape{wf: []int{2, 2}, s: 64, v: []int{512, 512}, lds: 1024}
	e := &c09Env{r: r, rng: NewRng(1), model: true, byReq: map[string]int{}, cuRoom: c09PortCap, drvRoom: c09PortCap}
	e.shapes = []c09Shape{sh}
	e.cus = []*c09CU{{name: "CU0", shape: sh}}
	e.occ = []*c09Occupancy{newC09Occ(sh)}
	e.line = []string{"c09 cp alg=rr nd=8 klo=0 ko=1 sklo=0 thr=0 cus=" + sh.String()}
	e.eng = &fakeEngine{}
	e.cp = c09BuildCP(e.eng, e.cus, 0, 1, 0, 0)
	conn := &fakeConn{name: "Conn"}
	for _, p := range []sim.Port{e.cp.ToDriver, e.cp.ToCUs, e.cp.ToDMA, e.cp.ToTLBs, e.cp.ToRDMA, e.cp.ToPMC, e.cp.ToAddressTranslators, e.cp.ToCaches} {
		conn.PlugIn(p)
	}
	e.cp.ToCUs.AcceptHook(e)
	e.cp.ToDriver.AcceptHook(e)
	e.drv = sim.NewPort(nil, 1, 1, "Driver.ToGPU")
	e.launch(128, 64, 16, 4, 256)
	e.launch(256, 256, 16, 4, 256)
	e.launch(192, 64, 16, 4, 256)
	e.doTicks(1)
	e.doTicks(1)
	e.doTicks(1)
	e.done([]int{0})
	e.doTicks(1)
	e.doTicks(1)
	e.done([]int{0})
	e.done([]int{0})
	e.done([]int{0})
	e.doTicks(3)
	e.done([]int{0})
	e.doTicks(4)
	e.done([]int{0})
	e.doTicks(3)
	r.Checked("overtake")
	r.Case(e.caseString(), strings.Join(e.outs, " "))
	joined := strings.Join(e.outs, " ")
	iA, iC := strings.Index(joined, ":0:1:0:"), strings.LastIndex(joined, ":0:2:2:")
	if iA < 0 || iC < 0 || iA < iC || e.launches[0].rsps != 1 || e.launches[1].rsps != 1 || e.launches[2].rsps != 1 {
		r.Failf("C09.overtake.differs", e.caseString(), "expected kernel 2 (launched later) to be mapped entirely before kernel 1 and all three answered: %s", joined)
	} else {
		r.Count("c09.overtake.later-launch-first")
	}
}

func runC09Deep(r *Run, rng *Rng, replay string) {
	c09OvertakeCase(r)
	shipped := c09Shape{wf: []int{10, 10, 10, 10}, s: 3200, v: []int{16384, 16384, 16384, 16384}, lds: 65536}
	c09OversizeCase(r, shipped, 2, [5]int{1024, 1024, 16, 68, 0}, "vgpr")   // 16 wavefronts x 17 VGPR units: 3 per SIMD
	c09OversizeCase(r, shipped, 1, [5]int{256, 256, 16, 4, 65537}, "lds")     // 257 LDS units > 256
	c09OversizeCase(r, shipped, 2, [5]int{2048, 1024, 208, 4, 0}, "sgpr")     // 16 x 13 SGPR units > 200
	c09OversizeCase(r, c09Shape{wf: []int{2, 2}, s: 64, v: []int{512, 512}, lds: 1024}, 2, [5]int{64, 64, 200, 4, 256}, "demo")
	n := 700
	if r.Tier == "thorough" {
		n = 6000
	}
	c09PartCase(r, 64, 64, 0, "")
	c09PartCase(r, 320, 64, 4, "")
	c09PartCase(r, 320, 64, 4, "1101")
	for i := 0; i < n; i++ {
		wx := rng.Pick(1, 3, 16, 64, 64, 100, 256)
		nwg := rng.Pick(1, 1, 2, 3, 4, 5, 7, 8, 9, 16, 17, 31, 33, 64)
		if rng.Chance(20) {
			nwg = rng.Range(1, 80)
		}
		gx := (nwg-1)*wx + rng.Range(1, wx)
		ncu := rng.Pick(1, 1, 2, 3, 4, 4, 5, 8, 16, 36, 64)
		if rng.Chance(15) {
			ncu = rng.Range(1, 2*nwg+1)
		}
		var sb strings.Builder
		switch rng.Intn(5) {
		case 0: // no refusal
		case 1: // a burst of refusals at the start (every CU busy)
			for k, m := 0, rng.Range(1, 3*ncu+2); k < m; k++ {
				sb.WriteByte('1')
			}
		default:
			pct := rng.Pick(10, 30, 50, 80, 95)
			for k, m := 0, rng.Range(1, 3*nwg+ncu); k < m; k++ {
				if rng.Chance(pct) {
					sb.WriteByte('1')
				} else {
					sb.WriteByte('0')
				}
			}
		}
		c09PartCase(r, gx, wx, ncu, sb.String())
	}
}
