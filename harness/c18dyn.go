//go:debug randseednop=0
package main

// C18, dynamic part (oracle only, no model): small multi-GPU-capable workloads are run on GPU sets
// {1}, {1,2}, {1,2,3,4}, each plain (one queue per GPU, buffers distributed page-wise) and unified
// (one virtual device, work-groups split by Driver.distributeWGToGPUs), on the emulation platform,
// and one or two on the r9nano timing platform with 2 GPUs (remote accesses go through the real RDMA
// engines). The final output data must equal the single-GPU run bit for bit and pass the
// benchmark's own verification.

import (
	"fmt"
	"math"
	"math/rand"
	"reflect"
	"time"
	"unsafe"

	"github.com/sarchlab/mgpusim/v4/amd/benchmarks/amdappsdk/bitonicsort"
	"github.com/sarchlab/mgpusim/v4/amd/benchmarks/amdappsdk/floydwarshall"
	"github.com/sarchlab/mgpusim/v4/amd/benchmarks/amdappsdk/matrixtranspose"
	"github.com/sarchlab/mgpusim/v4/amd/benchmarks/amdappsdk/vectoradd"
	"github.com/sarchlab/mgpusim/v4/amd/benchmarks/heteromark/fir"
	"github.com/sarchlab/mgpusim/v4/amd/driver"
)

type c18Bench interface {
	SelectGPU([]int)
	SetUnifiedMemory()
	Run()
	Verify()
}

type c18Workload struct {
	name    string
	mk      func(d *driver.Driver, small bool) c18Bench
	outputs []string // unexported host-side result slices of the benchmark
	device  []string // unexported device pointers read back with MemCopyD2H: "field:bytesPerElem*lengthField"
	timing  bool
}

// c18Field reads an unexported field of a benchmark object.
func c18Field(b interface{}, name string) reflect.Value {
	v := reflect.ValueOf(b).Elem().FieldByName(name)
	if !v.IsValid() {
		return v
	}
	return reflect.NewAt(v.Type(), unsafe.Pointer(v.UnsafeAddr())).Elem()
}

func c18Bytes(v reflect.Value) []byte {
	out := []byte{}
	put := func(x uint64, n int) {
		for i := 0; i < n; i++ {
			out = append(out, byte(x>>(8*i)))
		}
	}
	for i := 0; i < v.Len(); i++ {
		e := v.Index(i)
		switch e.Kind() {
		case reflect.Float32:
			put(uint64(math.Float32bits(float32(e.Float()))), 4)
		case reflect.Float64:
			put(math.Float64bits(e.Float()), 8)
		case reflect.Uint8:
			put(e.Uint(), 1)
		case reflect.Uint32:
			put(e.Uint(), 4)
		case reflect.Int32:
			put(uint64(e.Int()), 4)
		case reflect.Uint64:
			put(e.Uint(), 8)
		case reflect.Int64, reflect.Int:
			put(uint64(e.Int()), 8)
		}
	}
	return out
}

var c18Workloads = []c18Workload{
	{name: "vectoradd", timing: true, outputs: []string{"hA"},
		mk: func(d *driver.Driver, small bool) c18Bench {
			b := vectoradd.NewBenchmark(d)
			b.Width, b.Height = 1024, 1
			if small {
				b.Width = 512
			}
			return b
		}},
	{name: "matrixtranspose", outputs: []string{"hOutputData"},
		mk: func(d *driver.Driver, small bool) c18Bench {
			b := matrixtranspose.NewBenchmark(d)
			b.Width = 256
			return b
		}},
	{name: "bitonicsort", outputs: []string{"outputData"},
		mk: func(d *driver.Driver, small bool) c18Bench {
			b := bitonicsort.NewBenchmark(d)
			b.Length = 1024
			b.OrderAscending = true
			return b
		}},
	{name: "floydwarshall", outputs: []string{"hOutputPathMatrix", "hOutputPathDistanceMatrix"},
		mk: func(d *driver.Driver, small bool) c18Bench {
			b := floydwarshall.NewBenchmark(d)
			b.NumNodes = 32
			b.NumIterations = 0
			return b
		}},
	{name: "fir", device: []string{"gOutputData"},
		mk: func(d *driver.Driver, small bool) c18Bench {
			b := fir.NewBenchmark(d)
			b.Length = 1024
			return b
		}},
}

type c18DynCfg struct {
	gpus    []int
	unified bool
	timing  bool
}

func (c c18DynCfg) String() string {
	m := "plain"
	if c.unified {
		m = "unified"
	}
	p := "emu"
	if c.timing {
		p = "timing-r9nano"
	}
	return fmt.Sprintf("%s gpus=%v %s", p, c.gpus, m)
}

// c18RunWorkload runs one workload in one configuration on a fresh platform and returns its final data.
func c18RunWorkload(r *Run, w c18Workload, cfg c18DynCfg, limit time.Duration) (data []byte, status string) {
	var p *platform
	if cfg.timing {
		p = newTimingPlatform(r.OutDir, len(cfg.gpus), "r9nano", false)
	} else {
		p = newEmuPlatform(r.OutDir, 4, 12)
	}
	rand.Seed(20240918)
	var b c18Bench
	ok, fault := withTimeout(limit, func() {
		b = w.mk(p.drv, cfg.timing)
		ids := cfg.gpus
		if cfg.unified {
			ids = []int{p.drv.CreateUnifiedGPU(nil, cfg.gpus)}
		}
		b.SelectGPU(ids)
		b.Run()
	})
	if !ok {
		// the platform is left running: a hung driver cannot be terminated safely
		return nil, "hang"
	}
	defer p.close()
	if fault != "" {
		return nil, "crash:" + fault
	}
	for _, f := range w.outputs {
		v := c18Field(b, f)
		if !v.IsValid() {
			return nil, "no-field:" + f
		}
		data = append(data, c18Bytes(v)...)
	}
	for _, f := range w.device {
		v := c18Field(b, f)
		ctx := c18Field(b, "context").Interface().(*driver.Context)
		n := c18Field(b, "Length").Int() * 4
		buf := make([]byte, n)
		ok, fault := withTimeout(limit, func() { p.drv.MemCopyD2H(ctx, buf, driver.Ptr(v.Uint())) })
		if !ok || fault != "" {
			return nil, "readback:" + fault
		}
		data = append(data, buf...)
	}
	ok, fault = withTimeout(limit, func() { b.Verify() })
	if !ok {
		return data, "verify-hang"
	}
	if fault != "" {
		return data, "verify-failed"
	}
	return data, "ok"
}

func c18Dynamic(r *Run, rng *Rng) {
	thorough := r.Tier == "thorough"
	sets := [][]int{{1, 2}, {1, 2, 3, 4}}
	if thorough {
		sets = append(sets, []int{2, 3}, []int{1, 2, 3}, []int{4, 1})
	}
	t0 := time.Now()
	for _, w := range c18Workloads {
		base, st := c18RunWorkload(r, w, c18DynCfg{gpus: []int{1}}, 90*time.Second)
		line := fmt.Sprintf("dyn %s %s", w.name, c18DynCfg{gpus: []int{1}})
		r.Count("dyn.run")
		r.Checked("dyn.single")
		if st != "ok" {
			r.Failf("C18.dyn.single."+w.name, line, "single-GPU run: %s", st)
			continue
		}
		cfgs := []c18DynCfg{{gpus: []int{1}, unified: true}}
		for _, s := range sets {
			cfgs = append(cfgs, c18DynCfg{gpus: s}, c18DynCfg{gpus: s, unified: true})
		}
		for _, cfg := range cfgs {
			line := fmt.Sprintf("dyn %s %s", w.name, cfg)
			got, st := c18RunWorkload(r, w, cfg, 90*time.Second)
			r.Count("dyn.run")
			r.Count("dyn.emu." + w.name)
			r.Checked("dyn.equal")
			c18Compare(r, w.name, line, base, got, st)
		}
	}
	r.Note("dynamic emulation runs took %.1fs", time.Since(t0).Seconds())
	// timing platform, 2 GPUs: remote accesses cross the real RDMA engines
	t1 := time.Now()
	for _, w := range c18Workloads {
		if !w.timing {
			continue
		}
		base, st := c18RunWorkload(r, w, c18DynCfg{gpus: []int{1}, timing: true}, 120*time.Second)
		line := fmt.Sprintf("dyn %s %s", w.name, c18DynCfg{gpus: []int{1}, timing: true})
		r.Count("dyn.run")
		r.Checked("dyn.single")
		if st != "ok" {
			r.Failf("C18.dyn.single."+w.name, line, "single-GPU timing run: %s", st)
			continue
		}
		cfgs := []c18DynCfg{{gpus: []int{1, 2}, timing: true}}
		if thorough {
			cfgs = append(cfgs, c18DynCfg{gpus: []int{1, 2}, timing: true, unified: true})
		}
		for _, cfg := range cfgs {
			line := fmt.Sprintf("dyn %s %s", w.name, cfg)
			got, st := c18RunWorkload(r, w, cfg, 120*time.Second)
			r.Count("dyn.run")
			r.Count("dyn.timing." + w.name)
			r.Checked("dyn.equal")
			c18Compare(r, w.name, line, base, got, st)
		}
	}
	r.Note("dynamic timing runs took %.1fs", time.Since(t1).Seconds())
}

func c18Compare(r *Run, name, line string, base, got []byte, st string) {
	switch {
	case st == "hang":
		r.Failf("C18.dyn.hang."+name, line, "run did not finish")
	case st != "ok" && got == nil:
		r.Failf("C18.dyn.crash."+name, line, "%s", st)
	case len(got) != len(base):
		r.Failf("C18.dyn.differs."+name, line, "output has %d bytes, single-GPU run %d (%s)", len(got), len(base), st)
	case string(got) != string(base):
		d := firstDiff(got, base)
		n := 0
		for i := range got {
			if got[i] != base[i] {
				n++
			}
		}
		r.Failf("C18.dyn.differs."+name, line, "final data differ from the single-GPU run in %d bytes, first at byte %d (%s)", n, d, st)
	case st != "ok":
		r.Failf("C18.dyn.verify."+name, line, "equal to the single-GPU data but %s", st)
	}
}
