package main

// C18, dynamic part (oracle only, no model): small multi-GPU-capable workloads are run on GPU sets
// {1}, {1,2}, {1,2,3,4}, each plain (one queue per GPU, buffers distributed page-wise) and unified
// (one virtual device, work-groups split by Driver.distributeWGToGPUs), on the emulation platform,
// and one or two on the r9nano timing platform with 2 GPUs (remote accesses go through the real RDMA
// engines). The final output data must equal the single-GPU run bit for bit and pass the
// benchmark's own verification.

import (
	"context"
	"fmt"
	"io"
	"log"
	"math"
	"math/rand"
	"os"
	"os/exec"
	"path/filepath"
	"reflect"
	"strconv"
	"strings"
	"time"
	"unsafe"

	"github.com/sarchlab/mgpusim/v4/amd/benchmarks/amdappsdk/bitonicsort"
	"github.com/sarchlab/mgpusim/v4/amd/benchmarks/amdappsdk/floydwarshall"
	"github.com/sarchlab/mgpusim/v4/amd/benchmarks/amdappsdk/matrixtranspose"
	"github.com/sarchlab/mgpusim/v4/amd/benchmarks/amdappsdk/vectoradd"
	"github.com/sarchlab/mgpusim/v4/amd/benchmarks/amdappsdk/fastwalshtransform"
	"github.com/sarchlab/mgpusim/v4/amd/benchmarks/amdappsdk/simpleconvolution"
	"github.com/sarchlab/mgpusim/v4/amd/benchmarks/heteromark/aes"
	"github.com/sarchlab/mgpusim/v4/amd/benchmarks/heteromark/fir"
	"github.com/sarchlab/mgpusim/v4/amd/benchmarks/heteromark/kmeans"
	"github.com/sarchlab/mgpusim/v4/amd/benchmarks/rodinia/nw"
	"github.com/sarchlab/mgpusim/v4/amd/benchmarks/shoc/stencil2d"
	"github.com/sarchlab/mgpusim/v4/amd/driver"
)

type c18Bench interface {
	SelectGPU([]int)
	SetUnifiedMemory()
	Run()
	Verify()
}

type c18Workload struct {
	name    string
	mk      func(d *driver.Driver, small bool) c18Bench
	outputs []string // unexported host-side result slices of the benchmark
	device  []string // unexported device pointers read back with MemCopyD2H: "field:bytesPerElem*lengthField"
	timing  bool
	noPlain bool // the benchmark refuses several GPUs unless they are unified
}

// c18Field reads an unexported field of a benchmark object.
func c18Field(b interface{}, name string) reflect.Value {
	v := reflect.ValueOf(b).Elem().FieldByName(name)
	if !v.IsValid() {
		return v
	}
	return reflect.NewAt(v.Type(), unsafe.Pointer(v.UnsafeAddr())).Elem()
}

func c18Bytes(v reflect.Value) []byte {
	out := []byte{}
	put := func(x uint64, n int) {
		for i := 0; i < n; i++ {
			out = append(out, byte(x>>(8*i)))
		}
	}
	for i := 0; i < v.Len(); i++ {
		e := v.Index(i)
		switch e.Kind() {
		case reflect.Float32:
			put(uint64(math.Float32bits(float32(e.Float()))), 4)
		case reflect.Float64:
			put(math.Float64bits(e.Float()), 8)
		case reflect.Uint8:
			put(e.Uint(), 1)
		case reflect.Uint32:
			put(e.Uint(), 4)
		case reflect.Int32:
			put(uint64(e.Int()), 4)
		case reflect.Uint64:
			put(e.Uint(), 8)
		case reflect.Int64, reflect.Int:
			put(uint64(e.Int()), 8)
		}
	}
	return out
}

var c18Workloads = []c18Workload{
	{name: "vectoradd", timing: true, outputs: []string{"hA"},
		mk: func(d *driver.Driver, small bool) c18Bench {
			b := vectoradd.NewBenchmark(d)
			b.Width, b.Height = 1024, 1
			if small {
				b.Width = 512
			}
			return b
		}},
	{name: "matrixtranspose", timing: true, outputs: []string{"hOutputData"},
		mk: func(d *driver.Driver, small bool) c18Bench {
			b := matrixtranspose.NewBenchmark(d)
			b.Width = 256
			return b
		}},
	{name: "bitonicsort", outputs: []string{"outputData"},
		mk: func(d *driver.Driver, small bool) c18Bench {
			b := bitonicsort.NewBenchmark(d)
			b.Length = 1024
			b.OrderAscending = true
			return b
		}},
	{name: "floydwarshall", outputs: []string{"hOutputPathMatrix", "hOutputPathDistanceMatrix"},
		mk: func(d *driver.Driver, small bool) c18Bench {
			b := floydwarshall.NewBenchmark(d)
			b.NumNodes = 32
			b.NumIterations = 0
			return b
		}},
	{name: "fir", timing: true, device: []string{"gOutputData:4"},
		mk: func(d *driver.Driver, small bool) c18Bench {
			b := fir.NewBenchmark(d)
			b.Length = 1024
			return b
		}},
	{name: "aes", device: []string{"gInput:1"},
		mk: func(d *driver.Driver, small bool) c18Bench {
			b := aes.NewBenchmark(d)
			b.Length = 4096
			return b
		}},
	{name: "kmeans", outputs: []string{"hMembership", "hClusters"},
		mk: func(d *driver.Driver, small bool) c18Bench {
			b := kmeans.NewBenchmark(d)
			b.NumPoints, b.NumClusters, b.NumFeatures, b.MaxIter = 256, 3, 8, 3
			return b
		}},
	{name: "nw", noPlain: true, outputs: []string{"outputItemSets"},
		mk: func(d *driver.Driver, small bool) c18Bench {
			b := nw.NewBenchmark(d)
			b.SetLength(64)
			return b
		}},
	{name: "simpleconvolution", outputs: []string{"hOutputData"},
		mk: func(d *driver.Driver, small bool) c18Bench {
			b := simpleconvolution.NewBenchmark(d)
			b.Width, b.Height = 62, 62
			b.SetMaskSize(3)
			return b
		}},
	{name: "stencil2d", outputs: []string{"hOutput"},
		mk: func(d *driver.Driver, small bool) c18Bench {
			b := stencil2d.NewBenchmark(d)
			b.NumIteration, b.NumRows, b.NumCols = 2, 66, 66
			return b
		}},
	{name: "fastwalshtransform", outputs: []string{"hInputArray"},
		mk: func(d *driver.Driver, small bool) c18Bench {
			b := fastwalshtransform.NewBenchmark(d)
			b.Length = 1024
			return b
		}},
}

type c18DynCfg struct {
	gpus    []int
	unified bool
	timing  bool
}

func (c c18DynCfg) String() string {
	m := "plain"
	if c.unified {
		m = "unified"
	}
	p := "emu"
	if c.timing {
		p = "timing-r9nano"
	}
	return fmt.Sprintf("%s gpus=%v %s", p, c.gpus, m)
}

func init() { childFuncs["c18dyn"] = c18DynChild }

// c18DynChild: `harness child c18dyn <workload> <gpus,comma> <unified 0|1> <timing 0|1> <outfile>`.
// A panic inside the simulation engine ends the process (Driver.runEngine calls atexit.Exit), and a
// hung driver cannot be stopped, so every dynamic run lives in its own process. The final data go to
// <outfile>, the status is the last line on stdout.
func c18DynChild(args []string) {
	if len(args) != 5 {
		os.Exit(2)
	}
	log.SetOutput(io.Discard)
	var w *c18Workload
	for i := range c18Workloads {
		if c18Workloads[i].name == args[0] {
			w = &c18Workloads[i]
		}
	}
	if w == nil {
		os.Exit(2)
	}
	cfg := c18DynCfg{unified: args[2] == "1", timing: args[3] == "1"}
	for _, g := range strings.Split(args[1], ",") {
		v, _ := strconv.Atoi(g)
		cfg.gpus = append(cfg.gpus, v)
	}
	data, st := c18RunInProcess(filepath.Dir(args[4]), *w, cfg, 100*time.Second)
	if data != nil {
		must(os.WriteFile(args[4], data, 0o644))
	}
	fmt.Printf("\nC18DYN-STATUS %s\n", st)
	os.Exit(0)
}

// c18RunWorkload runs one workload in one configuration in a child process and returns its final data.
func c18RunWorkload(r *Run, w c18Workload, cfg c18DynCfg, limit time.Duration) (data []byte, status string) {
	gs := make([]string, len(cfg.gpus))
	for i, g := range cfg.gpus {
		gs[i] = strconv.Itoa(g)
	}
	out := filepath.Join(r.OutDir, fmt.Sprintf("c18dyn_%s_%s_%s_%s.bin", w.name, strings.Join(gs, "-"), b01(cfg.unified), b01(cfg.timing)))
	os.Remove(out)
	ctx, cancel := context.WithTimeout(context.Background(), limit)
	defer cancel()
	exe, err := os.Executable()
	if err != nil {
		exe = os.Args[0]
	}
	cmd := exec.CommandContext(ctx, exe, "child", "c18dyn", w.name, strings.Join(gs, ","), b01(cfg.unified), b01(cfg.timing), out)
	cmd.Dir = r.OutDir
	cmd.Env = append(os.Environ(), "GOMEMLIMIT=6GiB")
	o, err := cmd.CombinedOutput()
	defer os.Remove(out)
	if ctx.Err() != nil {
		return nil, "hang"
	}
	text := string(o)
	i := strings.LastIndex(text, "C18DYN-STATUS ")
	if i < 0 {
		tail := strings.TrimSpace(text)
		if k := strings.Index(tail, "panic: "); k >= 0 {
			tail = tail[k:]
			if len(tail) > 300 {
				tail = tail[:300]
			}
		} else if k := strings.Index(tail, "panic"); k >= 0 {
			tail = tail[k:]
			if len(tail) > 200 {
				tail = tail[:200]
			}
		} else if len(tail) > 200 {
			tail = tail[len(tail)-200:]
		}
		return nil, fmt.Sprintf("crash:process ended (%v): %s", err, strings.ReplaceAll(tail, "\n", " / "))
	}
	status = strings.TrimSpace(text[i+len("C18DYN-STATUS "):])
	data, _ = os.ReadFile(out)
	return data, status
}

// c18RunInProcess runs one workload in one configuration on a fresh platform and returns its final data.
func c18RunInProcess(outDir string, w c18Workload, cfg c18DynCfg, limit time.Duration) (data []byte, status string) {
	var p *platform
	if cfg.timing {
		p = newTimingPlatform(outDir, len(cfg.gpus), "r9nano", false)
	} else {
		p = newEmuPlatform(outDir, 4, 12)
	}
	rand.Seed(20240918)
	var b c18Bench
	ok, fault := withTimeout(limit, func() {
		b = w.mk(p.drv, cfg.timing)
		ids := cfg.gpus
		if cfg.unified {
			ids = []int{p.drv.CreateUnifiedGPU(nil, cfg.gpus)}
		}
		b.SelectGPU(ids)
		b.Run()
	})
	if !ok {
		// the platform is left running: a hung driver cannot be terminated safely
		return nil, "hang"
	}
	defer p.close()
	if fault != "" {
		return nil, "crash:" + fault
	}
	for _, f := range w.outputs {
		v := c18Field(b, f)
		if !v.IsValid() {
			return nil, "no-field:" + f
		}
		data = append(data, c18Bytes(v)...)
	}
	for _, spec := range w.device {
		f, per := spec, int64(4)
		if i := strings.IndexByte(spec, ':'); i > 0 {
			f = spec[:i]
			per, _ = strconv.ParseInt(spec[i+1:], 10, 64)
		}
		v := c18Field(b, f)
		ctx := c18Field(b, "context").Interface().(*driver.Context)
		n := c18Field(b, "Length").Int() * per
		buf := make([]byte, n)
		ok, fault := withTimeout(limit, func() { p.drv.MemCopyD2H(ctx, buf, driver.Ptr(v.Uint())) })
		if !ok || fault != "" {
			return nil, "readback:" + fault
		}
		data = append(data, buf...)
	}
	ok, fault = withTimeout(limit, func() { b.Verify() })
	if !ok {
		return data, "verify-hang"
	}
	if fault != "" {
		return data, "verify-failed"
	}
	return data, "ok"
}

type c18DynJob struct {
	w    c18Workload
	cfg  c18DynCfg
	data []byte
	st   string
}

func c18Dynamic(r *Run, rng *Rng) {
	thorough := r.Tier == "thorough"
	sets := [][]int{{1, 2}, {1, 2, 3, 4}}
	if thorough {
		sets = append(sets, []int{2, 3}, []int{4, 1}, []int{3, 4, 1, 2}) // sizes 1, 2, 4 only: the workloads split their grids evenly
	}
	// job list: per workload the single-GPU baseline first, then every other configuration
	var jobs []*c18DynJob
	for _, w := range c18Workloads {
		jobs = append(jobs, &c18DynJob{w: w, cfg: c18DynCfg{gpus: []int{1}}})
		jobs = append(jobs, &c18DynJob{w: w, cfg: c18DynCfg{gpus: []int{1}, unified: true}})
		for _, s := range sets {
			if !w.noPlain {
				jobs = append(jobs, &c18DynJob{w: w, cfg: c18DynCfg{gpus: s}})
			}
			jobs = append(jobs, &c18DynJob{w: w, cfg: c18DynCfg{gpus: s, unified: true}})
		}
	}
	for _, w := range c18Workloads {
		if !w.timing {
			continue
		}
		// timing platform, 2 GPUs: remote accesses cross the real RDMA engines
		jobs = append(jobs, &c18DynJob{w: w, cfg: c18DynCfg{gpus: []int{1}, timing: true}})
		jobs = append(jobs, &c18DynJob{w: w, cfg: c18DynCfg{gpus: []int{1, 2}, timing: true}})
		jobs = append(jobs, &c18DynJob{w: w, cfg: c18DynCfg{gpus: []int{1, 2}, timing: true, unified: true}})
	}
	t0 := time.Now()
	sem := make(chan struct{}, 6)
	done := make(chan struct{})
	for _, j := range jobs {
		j := j
		go func() {
			sem <- struct{}{}
			// Driver.DrainCommandQueue has a lost-wake-up race (property C12) that shows as a rare
			// hang under load; a hung run is repeated, only a persistent hang is reported here
			for attempt := 0; attempt < 3; attempt++ {
				limit := 30 * time.Second
				if j.cfg.timing {
					limit = 90 * time.Second
				}
				j.data, j.st = c18RunWorkload(r, j.w, j.cfg, limit)
				if j.st == "hang" {
					r.Count("dyn.repeat-after-hang")
					continue
				}
				if strings.HasPrefix(j.st, "crash:process ended") && attempt < 2 {
					// an engine panic that does not repeat is a schedule-dependent failure (C05/C12
					// territory); only a crash that repeats three times is reported for this property
					r.Count("dyn.repeat-after-crash")
					r.Note("crash repeated: %s %s: %s", j.w.name, j.cfg, j.st)
					continue
				}
				break
			}
			<-sem
			done <- struct{}{}
		}()
	}
	for range jobs {
		<-done
	}
	r.Note("dynamic runs (%d child processes, 6 at a time) took %.1fs", len(jobs), time.Since(t0).Seconds())
	base := map[string]*c18DynJob{}
	for _, j := range jobs {
		key := j.w.name + "/" + b01(j.cfg.timing)
		line := fmt.Sprintf("dyn %s %s", j.w.name, j.cfg)
		r.Count("dyn.run")
		if len(j.cfg.gpus) == 1 && !j.cfg.unified {
			base[key] = j
			r.Checked("dyn.single")
			if j.st != "ok" {
				r.Failf("C18.dyn.single."+j.w.name, line, "single-GPU run: %s", j.st)
			}
			continue
		}
		b := base[key]
		if b == nil || b.st != "ok" {
			continue
		}
		if j.cfg.timing {
			r.Count("dyn.timing." + j.w.name)
		} else {
			r.Count("dyn.emu." + j.w.name)
		}
		r.Checked("dyn.equal")
		c18Compare(r, j.w.name, line, b.data, j.data, j.st)
	}
}

func c18Compare(r *Run, name, line string, base, got []byte, st string) {
	switch {
	case st == "hang":
		r.Failf("C18.dyn.hang."+name, line, "run did not finish")
	case st != "ok" && got == nil:
		r.Failf("C18.dyn.crash."+name, line, "%s", st)
	case len(got) != len(base):
		r.Failf("C18.dyn.differs."+name, line, "output has %d bytes, single-GPU run %d (%s)", len(got), len(base), st)
	case string(got) != string(base):
		d := firstDiff(got, base)
		n := 0
		for i := range got {
			if got[i] != base[i] {
				n++
			}
		}
		r.Failf("C18.dyn.differs."+name, line, "final data differ from the single-GPU run in %d bytes, first at byte %d (%s)", n, d, st)
	case st != "ok":
		r.Failf("C18.dyn.verify."+name, line, "equal to the single-GPU data but %s", st)
	}
}
