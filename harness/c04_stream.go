//go:build verif

package main

import (
	"encoding/binary"
	"fmt"

	"github.com/sarchlab/mgpusim/v4/amd/insts"
)

// Implementation-side oracle for Props/C04Stream.lean (disasm_encode / disasm_fuel_enough): a stream that is
// the concatenation of buffers each of which decodes alone to an instruction of exactly its length is walked
// by the loop of Disassembler.Disassemble (decode, advance by ByteSize) — every instruction must come back at
// its own offset, in order, with the outcome of the stand-alone decode (those outcomes are compared with the
// Lean model by the `c04 dec` case lines), and the walk must end exactly at the end of the stream.
func init() { register("C04", runC04Stream) }

func runC04Stream(r *Run, rng *Rng, replay string) {
	n := 600
	if r.Tier == "thorough" {
		n = 40000
	}
	g := insts.NewDisassembler()
	c := insts.NewDisassembler()
	c.IsCDNA3 = true
	rows := g.VerifRows()
	if len(rows) == 0 {
		return
	}
	for s := 0; s < n; s++ {
		arch, d := "gcn3", g
		if rng.Chance(30) {
			arch, d = "cdna3", c
		}
		k := rng.Range(1, 10)
		var stream []byte
		var want []string
		var offs []int
		for tries := 0; len(want) < k && tries < 200; tries++ {
			it := rows[rng.Intn(len(rows))]
			w := fillWord(rng, it.Format, uint32(it.Opcode))
			buf := binary.LittleEndian.AppendUint32(nil, w)
			buf = append(buf, rng.Bytes(4)...)
			out, inst := decodeCanon(d, buf)
			if inst == nil || (inst.ByteSize != 4 && inst.ByteSize != 8) {
				r.Count("stream.piece-undecodable")
				continue
			}
			offs = append(offs, len(stream))
			stream = append(stream, buf[:inst.ByteSize]...)
			want = append(want, out)
			r.Count(fmt.Sprintf("stream.piece-size.%d", inst.ByteSize))
		}
		line := fmt.Sprintf("c04 stream %s %s", arch, hexb(stream))
		r.Checked("stream-walk")
		r.Count(fmt.Sprintf("stream.len.%d", len(want)))
		pc, i := 0, 0
		bad := ""
		for pc < len(stream) {
			out, inst := decodeCanon(d, stream[pc:])
			switch {
			case i >= len(want):
				bad = fmt.Sprintf("extra instruction at offset %d: %s", pc, out)
			case pc != offs[i]:
				bad = fmt.Sprintf("instruction %d found at offset %d, encoded at %d", i, pc, offs[i])
			case out != want[i]:
				bad = fmt.Sprintf("instruction %d at offset %d decodes in the stream as %q, alone as %q", i, pc, out, want[i])
			case inst == nil:
				bad = fmt.Sprintf("instruction %d at offset %d: %s", i, pc, out)
			}
			if bad != "" {
				break
			}
			pc += inst.ByteSize
			i++
		}
		if bad == "" && (i != len(want) || pc != len(stream)) {
			bad = fmt.Sprintf("walk ended after %d of %d instructions at offset %d of %d", i, len(want), pc, len(stream))
		}
		if bad != "" {
			r.Failf("C04.stream-walk", line, "%s", bad)
		}
	}
}
