package main

import (
	"fmt"
	"os"
	"strings"
	"time"

	"github.com/sarchlab/akita/v4/sim"
	shim "github.com/sarchlab/mgpusim/v4/amd/timing/cp/verifshimc09"
)

// C09 (tie of the composition) — the partition placement algorithm INSIDE the real command
// processor against the Lean model MgpuModel/C09_PCP.lean (theorems MgpuProofs/Props/C09PCP.lean).
//
//	c09 cp alg=partition nd=8 klo= ko= sklo= thr= cus=<cu>|.. ; launch gx wx s v l ; tick ; ticks n ;
//	       done k ; doneb k,.. ; room cu|drv n ; probe
//
// The real cp.MakeBuilder command processor (8 dispatchers, one shared CUResourcePoolImpl) runs
// with the real partitionAlgorithm in every dispatcher (hook verifshimc09.SetAlg); harness CUs of
// random / identical shapes; launches overlap, completions arrive in random order, singly or
// batched across dispatchers, both outgoing ports get back-pressure windows, then a drain phase.
// Whole traces (every MapWGReq with CU, launch, work-group index and every wavefront's SIMD and
// byte offsets, every LaunchKernelRsp, progress flags, dispatcher counters and CU mask probes)
// are compared with the model; all oracles of c09Env stay active on these runs.

func init() { register("C09", runC09PCP) }

// c09pcpSetup builds the environment around a real command processor whose dispatchers place
// with the partition algorithm. ok=false: the builder panicked (bad granularity), already recorded.
func c09pcpSetup(r *Run, rng *Rng, shapes []c09Shape, klo, ko, sklo, thr int) (e *c09Env, ok bool) {
	// model=false selects the "every CU must fit" notion of a placeable kernel in c09Env.launch
	// (partition ties a work-group to the CU of its partition); the case is recorded by this runner.
	e = &c09Env{r: r, rng: rng, model: false, byReq: map[string]int{}, cuRoom: c09PortCap, drvRoom: c09PortCap}
	var shapeStr []string
	bad := false
	for i, sh := range shapes {
		bad = bad || sh.badGranularity()
		e.shapes = append(e.shapes, sh)
		e.cus = append(e.cus, &c09CU{name: fmt.Sprintf("CU%d", i), shape: sh})
		e.occ = append(e.occ, newC09Occ(sh))
		shapeStr = append(shapeStr, sh.String())
	}
	cs := strings.Join(shapeStr, "|")
	if cs == "" {
		cs = "-"
	}
	e.line = []string{fmt.Sprintf("c09 cp alg=partition nd=8 klo=%d ko=%d sklo=%d thr=%d cus=%s", klo, ko, sklo, thr, cs)}
	e.eng = &fakeEngine{}
	if f := catch(func() { e.cp = c09BuildCP(e.eng, e.cus, klo, ko, sklo, thr) }); f != "" {
		if !bad {
			r.Failf("C09.register.panic", e.caseString(), "building the command processor panicked: %s", f)
		}
		r.Count("c09.pcp.bad-granularity")
		r.Case(e.caseString(), "fault:granularity")
		return e, false
	}
	if len(e.cp.Dispatchers) != 8 {
		r.Failf("C09.config.dispatchers", e.caseString(), "the shipped builder creates %d dispatchers, the model assumes 8", len(e.cp.Dispatchers))
	}
	shim.SetAlg(e.cp, "partition")
	conn := &fakeConn{name: "Conn"}
	for _, p := range []sim.Port{e.cp.ToDriver, e.cp.ToCUs, e.cp.ToDMA, e.cp.ToTLBs, e.cp.ToRDMA, e.cp.ToPMC, e.cp.ToAddressTranslators, e.cp.ToCaches} {
		conn.PlugIn(p)
	}
	e.cp.ToCUs.AcceptHook(e)
	e.cp.ToDriver.AcceptHook(e)
	e.drv = sim.NewPort(nil, 1, 1, "Driver.ToGPU")
	for i := range e.cus {
		e.initial = append(e.initial, c09BlankNext(shim.CUString(e.cp, i)))
	}
	return e, true
}

// c09pcpNoCU: with an empty pool no work-group fits a CU: the first CommandProcessor.Tick that takes the
// launch rejects it (`fault:oversize`, classified and judged by doTicks) — before StartNewKernel
// could divide by the number of CUs (the pinned code panicked there: `fault:div0`).
func c09pcpNoCU(r *Run, rng *Rng) {
	e, ok := c09pcpSetup(r, rng, nil, rng.Pick(0, 1, 2), 1, 0, 0)
	if !ok {
		return
	}
	if rng.Chance(50) { // nothing to launch yet: a tick without progress
		e.doTicks(1)
	}
	gx, wx, s, v, l := c09RandLaunch(rng, true)
	e.launch(gx, wx, s, v, l)
	e.doTicks(1)
	if !e.dead {
		e.fail("C09.partition.no-cu", "a launch on a command processor without CUs was taken without a panic")
	}
	e.doTicks(1) // dead: X
	r.Count("c09.pcp.no-cu")
	r.Case(e.caseString(), strings.Join(e.outs, " "))
}

func c09pcpCase(r *Run, rng *Rng) {
	nCU := rng.Pick(1, 1, 2, 2, 3, 4)
	var shapes []c09Shape
	roomy := rng.Chance(35) // the shipped CU: nearly every kernel is placeable, long runs to the response
	for i := 0; i < nCU; i++ {
		sh := c09RandShape(rng)
		if roomy {
			sh = c09Shape{wf: []int{10, 10, 10, 10}, s: 3200, v: []int{16384, 16384, 16384, 16384}, lds: 65536}
		}
		// identical CUs most of the time (with heterogeneous CUs a partition can wait for ever)
		if i > 0 && rng.Chance(75) {
			sh = shapes[0]
		}
		shapes = append(shapes, sh)
	}
	klo, ko, sklo, thr := rng.Pick(0, 0, 1, 2, 5), rng.Pick(1, 1, 2, 3, 7), rng.Pick(0, 0, 1, 3, 10), rng.Pick(0, 0, 1, 2, 4, 8)
	long := rng.Intn(250) == 0
	if long {
		ko = 3600 // the shipped default
	}
	e, ok := c09pcpSetup(r, rng, shapes, klo, ko, sklo, thr)
	if !ok {
		return
	}

	// ---- free-running phase
	nops := rng.Range(5, 60)
	burst := rng.Chance(10) // more concurrent kernels than dispatchers
	maxLaunch := rng.Pick(1, 2, 3, 4, 6)
	if burst {
		maxLaunch = rng.Range(9, 12)
	}
	for i := 0; i < nops; i++ {
		c := rng.Intn(100)
		switch {
		case len(e.launches) < maxLaunch && (c < 12 || burst && c < 40 || len(e.launches) == 0):
			gx, wx, s, v, l := e.randLaunch(rng, burst)
			e.launch(gx, wx, s, v, l)
		case c < 60:
			e.doTicks(1)
		case c < 78:
			e.done([]int{rng.Intn(64)})
		case c < 84:
			n := rng.Range(2, 5)
			ks := make([]int, n)
			for j := range ks {
				ks[j] = rng.Intn(64)
			}
			e.done(ks)
		case c < 90:
			e.room("cu", rng.Pick(0, 0, 1, 2, 3, c09PortCap, c09PortCap))
		case c < 94:
			e.room("drv", rng.Pick(0, 0, 1, c09PortCap, c09PortCap))
		default:
			e.doProbe()
		}
	}

	// ---- drain phase: free ports, every mapped group completes (random order), tick until quiet
	e.room("cu", c09PortCap)
	e.room("drv", c09PortCap)
	quiet, longTicks := 0, 0
	for step := 0; step < 600 && quiet < 2 && !e.dead; step++ {
		for len(e.outst) > 0 && rng.Chance(70) {
			if rng.Chance(15) && len(e.outst) > 1 {
				e.done([]int{rng.Intn(64), rng.Intn(64), rng.Intn(64)})
			} else {
				e.done([]int{rng.Intn(64)})
			}
		}
		p := 0
		if long && len(e.outst) == 0 && longTicks < 3 && rng.Chance(50) {
			longTicks++
			p = e.doTicks(3600)
		} else {
			p = e.doTicks(1)
		}
		if p == 0 && len(e.outst) == 0 {
			quiet++
		} else {
			quiet = 0
		}
	}
	e.doProbe()

	// ---- end-of-scenario oracles (as c09CPCase)
	if !e.dead {
		stuckOK := false
		for _, l := range e.launches {
			stuckOK = stuckOK || l.stuckOK
		}
		answered := 0
		for li, l := range e.launches {
			r.Checked("kernel-complete")
			if l.rsps == 1 {
				answered++
				// the trace-level theorems on the real traffic: the whole grid, once each
				if len(l.mapped) != l.numWG {
					e.fail("C09.rsp.early", "kernel %d answered with %d of %d work-groups mapped", li, len(l.mapped), l.numWG)
				}
				continue
			}
			if stuckOK {
				r.Count("c09.pcp.unplaceable-kernel")
				continue
			}
			if quiet >= 2 {
				e.fail("C09.rsp.missing", "kernel %d: %d of %d work-groups mapped, %d completed, no response although every group completed, ports are free and the command processor reports no progress; %s",
					li, len(l.mapped), l.numWG, l.done, e.probe())
			}
		}
		if answered == len(e.launches) {
			r.Count("c09.pcp.all-answered")
		}
		if quiet >= 2 && !stuckOK {
			for i := range e.cus {
				r.Checked("pool-restored")
				if got := c09BlankNext(shim.CUString(e.cp, i)); got != e.initial[i] && !strings.Contains(e.initial[i], "u0") {
					e.fail("C09.leak.cu", "CU%d reads %s after all kernels completed, initially %s", i, got, e.initial[i])
				}
				if len(e.occ[i].resident) != 0 {
					e.fail("C09.leak.harness", "harness bookkeeping: CU%d still has residents", i)
				}
			}
		}
	}
	// input distribution: did work stealing / a refused-and-retried group / out-of-order indices occur?
	for _, l := range e.launches {
		if l.numWG > len(e.cus) && len(l.mapped) == l.numWG {
			r.Count("c09.pcp.kernel-with-more-groups-than-cus")
		}
	}
	r.Count("c09.pcp.scenarios")
	r.Count(fmt.Sprintf("c09.pcp.cus=%d", nCU))
	r.CountN("c09.pcp.mapwg", e.nMap)
	r.Case(e.caseString(), strings.Join(e.outs, " "))
}

func runC09PCP(r *Run, rng *Rng, replay string) {
	n := 1500
	if r.Tier == "thorough" {
		n = 12000
	}
	start := time.Now()
	c09pcpNoCU(r, rng)
	c09pcpNoCU(r, rng)
	for i := 0; i < n; i++ {
		c09pcpCase(r, rng)
	}
	if os.Getenv("C09PCP_TIME") != "" {
		fmt.Fprintf(os.Stderr, "c09pcp: %d scenarios in %s\n", n+2, time.Since(start))
	}
}
