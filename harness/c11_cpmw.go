package main

import (
	"fmt"
	"strconv"
	"strings"

	"github.com/sarchlab/akita/v4/mem/cache"
	"github.com/sarchlab/akita/v4/sim"
	"github.com/sarchlab/mgpusim/v4/amd/protocol"
	"github.com/sarchlab/mgpusim/v4/amd/timing/cp"
)

// The command processor's copy / flush path on the REAL cp.CommandProcessor, ticked by hand:
// the driver, the DMA engine and the caches are fake remote ports; the harness delivers requests,
// cache acknowledgements and DMA answers in any order and retrieves what the CP sends, leaving
// messages in the outgoing buffers to create back-pressure. Case lines `c11 cpmw …` are answered by
// `C11.runCpmw` (Lean model `MgpuModel/C11Cp.lean`). The oracles watch the CP's ports through
// Akita port hooks (every Send / RetrieveIncoming in program order inside a tick), independent of
// the model.

func init() { register("C11", runC11Cpmw) }

type c11CpHook struct{ f func(ctx sim.HookCtx) }

func (h *c11CpHook) Func(ctx sim.HookCtx) { h.f(ctx) }

type c11CpEnv struct {
	r       *Run
	c       *cp.CommandProcessor
	drv     sim.Port
	dma     sim.Port
	caches  []sim.Port
	cacheIx map[sim.RemotePort]int
	caps    [4]int // in, drv, dma, cache
	ops     []string
	out     []string
	fault   string

	reqs     []sim.Msg // originals by id
	kinds    []string
	byAddr   map[uint64]int
	atDma    []sim.Msg
	atCaches []*cache.FlushReq

	// oracle state (hooks)
	cacheSent, ackUsed int
	sinceFlush         []int
	fwdCount           []int
	lastFwd            int
	cloneOf            map[string]int // clone id -> orig
	dmaAnswered        map[int]bool
	rspCount           []int
	occ                [3]int // drvOut, dmaOut, cacheOut occupancy
	wasFull            bool
	fails              int
}

func (e *c11CpEnv) line() string { return strings.Join(e.ops, " ; ") }
func (e *c11CpEnv) fail(sig, format string, a ...interface{}) {
	if e.fails < 3 {
		e.r.Failf(sig, e.line(), format, a...)
	}
	e.fails++
}

func newC11CpEnv(r *Run, nI, nS, nV, nL2 int, cin, cdrv, cdma, ccache int) *c11CpEnv {
	e := &c11CpEnv{r: r, cacheIx: map[sim.RemotePort]int{}, byAddr: map[uint64]int{}, cloneOf: map[string]int{},
		dmaAnswered: map[int]bool{}, lastFwd: -1}
	e.caps = [4]int{cin, cdrv, cdma, ccache}
	c := cp.MakeBuilder().WithEngine(&fakeEngine{}).WithFreq(1 * sim.GHz).Build("CP")
	e.c = c
	if cin != 4096 || cdrv != 4096 {
		c.ToDriver = sim.NewPort(c, cin, cdrv, "CP.ToDriver")
	}
	if cin != 4096 || cdma != 4096 {
		c.ToDMA = sim.NewPort(c, cin, cdma, "CP.ToDispatcher")
	}
	if cin != 4096 || ccache != 4096 {
		c.ToCaches = sim.NewPort(c, cin, ccache, "CP.ToCaches")
	}
	conn := &fakeConn{name: "c11cp"}
	for _, p := range []sim.Port{c.ToDriver, c.ToDMA, c.ToCaches, c.ToCUs} {
		conn.PlugIn(p)
	}
	e.drv = sim.NewPort(nil, 4, 4, "FakeDriver.GPU")
	e.dma = sim.NewPort(nil, 4, 4, "FakeDMA.ToCP")
	c.Driver = e.drv
	c.DMAEngine = e.dma
	mk := func(kind string, n int) []sim.Port {
		var l []sim.Port
		for i := 0; i < n; i++ {
			p := sim.NewPort(nil, 4, 4, fmt.Sprintf("Fake%s%d.Ctrl", kind, i))
			e.cacheIx[p.AsRemote()] = len(e.caches)
			e.caches = append(e.caches, p)
			l = append(l, p)
		}
		return l
	}
	c.L1ICaches = mk("L1I", nI)
	c.L1SCaches = mk("L1S", nS)
	c.L1VCaches = mk("L1V", nV)
	c.L2Caches = mk("L2", nL2)
	e.ops = []string{fmt.Sprintf("c11 cpmw caches=%d cin=%d cdrv=%d cdma=%d ccache=%d", len(e.caches), cin, cdrv, cdma, ccache)}
	c.ToDriver.AcceptHook(&c11CpHook{e.hookDrv})
	c.ToDMA.AcceptHook(&c11CpHook{e.hookDma})
	c.ToCaches.AcceptHook(&c11CpHook{e.hookCaches})
	return e
}

func (e *c11CpEnv) noteFull() {
	if e.occ[0] >= e.caps[1] || e.occ[1] >= e.caps[2] || e.occ[2] >= e.caps[3] {
		e.wasFull = true
	}
}

// ---- oracles, evaluated at the moment the CP sends / consumes a message

func (e *c11CpEnv) hookCaches(ctx sim.HookCtx) {
	switch ctx.Pos {
	case sim.HookPosPortMsgSend:
		e.occ[2]++
		e.noteFull()
		if q, ok := ctx.Item.(*cache.FlushReq); ok {
			if e.cacheSent == e.ackUsed {
				e.sinceFlush = nil // a new flush begins (the answer of the previous one may have been dropped)
			}
			e.cacheSent++
			e.sinceFlush = append(e.sinceFlush, e.cacheIx[q.Dst])
		}
	case sim.HookPosPortMsgRetrieveIncoming:
		if _, ok := ctx.Item.(*cache.FlushRsp); ok {
			e.ackUsed++
		}
	}
}

func (e *c11CpEnv) hookDma(ctx sim.HookCtx) {
	if ctx.Pos != sim.HookPosPortMsgSend {
		return
	}
	e.occ[1]++
	e.noteFull()
	var addr uint64
	switch q := ctx.Item.(type) {
	case *protocol.MemCopyH2DReq:
		addr = q.DstAddress
	case *protocol.MemCopyD2HReq:
		addr = q.SrcAddress
	default:
		e.fail("C11.cp.dma-port-foreign-message", "a %T was sent to the DMA engine", ctx.Item)
		return
	}
	m := ctx.Item.(sim.Msg)
	o, ok := e.byAddr[addr]
	e.r.Checked("cp.forward")
	if !ok {
		e.fail("C11.cp.copy-forward-payload", "a request with address %x that no driver request carries was sent to the DMA engine", addr)
		return
	}
	if e.cacheSent != e.ackUsed {
		e.fail("C11.cp.copy-during-flush", "copy request %d was forwarded to the DMA engine while %d of %d cache flushes were not acknowledged", o, e.cacheSent-e.ackUsed, e.cacheSent)
	}
	e.fwdCount[o]++
	if e.fwdCount[o] > 1 {
		e.fail("C11.cp.copy-forwarded-twice", "copy request %d was forwarded to the DMA engine %d times", o, e.fwdCount[o])
	}
	if o < e.lastFwd {
		e.fail("C11.cp.copy-forward-order", "copy request %d was forwarded after request %d, which arrived later", o, e.lastFwd)
	}
	e.lastFwd = o
	if m.Meta().Dst != e.dma.AsRemote() || m.Meta().Src != e.c.ToDMA.AsRemote() {
		e.fail("C11.cp.copy-misrouted", "clone of request %d goes from %s to %s", o, m.Meta().Src, m.Meta().Dst)
	}
	if m.Meta().ID == e.reqs[o].Meta().ID {
		e.fail("C11.cp.clone-keeps-id", "the clone of request %d carries the original message id", o)
	}
	e.cloneOf[m.Meta().ID] = o
}

func (e *c11CpEnv) hookDrv(ctx sim.HookCtx) {
	if ctx.Pos != sim.HookPosPortMsgSend {
		return
	}
	e.occ[0]++
	e.noteFull()
	rsp, ok := ctx.Item.(*sim.GeneralRsp)
	if !ok {
		e.fail("C11.cp.driver-port-foreign-message", "a %T was sent to the driver", ctx.Item)
		return
	}
	o := -1
	for i, q := range e.reqs {
		if q == rsp.OriginalReq {
			o = i
		}
	}
	e.r.Checked("cp.answer")
	if o < 0 {
		e.fail("C11.cp.answer-wrong-request", "an answer whose OriginalReq is not a request of the driver was sent")
		return
	}
	e.rspCount[o]++
	if e.rspCount[o] > 1 {
		e.fail("C11.cp.answered-twice", "request %d (%s) was answered %d times", o, e.kinds[o], e.rspCount[o])
	}
	if rsp.Dst != e.drv.AsRemote() {
		e.fail("C11.cp.answer-misrouted", "answer for request %d goes to %s", o, rsp.Dst)
	}
	if e.kinds[o] == "f" {
		if e.cacheSent != e.ackUsed {
			e.fail("C11.cp.flush-acked-early", "flush request %d was answered while %d cache flushes were not acknowledged", o, e.cacheSent-e.ackUsed)
		}
		seen := make([]int, len(e.caches))
		for _, i := range e.sinceFlush {
			seen[i]++
		}
		for i, n := range seen {
			if n != 1 {
				e.fail("C11.cp.flush-cache-count", "flush request %d: cache %d received %d flush requests", o, i, n)
				break
			}
		}
		e.sinceFlush = nil
	} else {
		if e.fwdCount[o] == 0 || !e.dmaAnswered[o] {
			e.fail("C11.cp.copy-answered-early", "copy request %d was answered before the DMA engine answered its clone", o)
		}
	}
}

// ---- scenario ops

func (e *c11CpEnv) deliverReq(kind string) string {
	id := len(e.reqs)
	var m sim.Msg
	switch kind {
	case "f":
		m = protocol.NewFlushReq(e.drv, e.c.ToDriver)
	case "h":
		m = protocol.NewMemCopyH2DReq(e.drv, e.c.ToDriver, []byte{1, 2, 3, 4}, uint64(id)*4096+8)
	default:
		m = protocol.NewMemCopyD2HReq(e.drv, e.c.ToDriver, uint64(id)*4096+8, make([]byte, 4))
	}
	if e.c.ToDriver.Deliver(m) != nil {
		return "full"
	}
	e.reqs = append(e.reqs, m)
	e.kinds = append(e.kinds, kind)
	e.fwdCount = append(e.fwdCount, 0)
	e.rspCount = append(e.rspCount, 0)
	if kind != "f" {
		e.byAddr[uint64(id)*4096+8] = id
	}
	e.r.Count("cpmw.req." + kind)
	return "ok"
}

func (e *c11CpEnv) tick() string {
	p := false
	f := catch(func() { p = e.c.Tick() })
	if f != "" {
		switch {
		case strings.Contains(f, "never"):
			f = "never"
		case f == "nilderef":
		default:
			f = "cache_send"
		}
		e.fault = f
		return "fault:" + f
	}
	if p {
		return "t1"
	}
	return "t0"
}

func (e *c11CpEnv) do(op string) string {
	e.ops = append(e.ops, op)
	o := e.exec(strings.Fields(op))
	e.out = append(e.out, o)
	return o
}

func (e *c11CpEnv) exec(t []string) string {
	n := 0
	if len(t) > 1 {
		n, _ = strconv.Atoi(t[1])
	}
	switch t[0] {
	case "f", "h", "d":
		return e.deliverReq(t[0])
	case "F", "H", "D":
		k := 0
		for i := 0; i < n; i++ {
			if e.deliverReq(strings.ToLower(t[0])) == "ok" {
				k++
			}
		}
		return strconv.Itoa(k)
	case "t":
		return e.tick()
	case "T":
		var sb strings.Builder
		for i := 0; i < n; i++ {
			if e.fault != "" {
				// the model freezes after a fault and reports it for every further tick
				sb.WriteString("!fault:" + e.fault)
				continue
			}
			switch o := e.tick(); o {
			case "t1":
				sb.WriteString("1")
			case "t0":
				sb.WriteString("0")
			default:
				sb.WriteString("!" + o)
			}
		}
		return sb.String()
	case "xd":
		var l []string
		for i := 0; i < n; i++ {
			m := e.c.ToDMA.RetrieveOutgoing()
			if m == nil {
				break
			}
			e.occ[1]--
			e.atDma = append(e.atDma, m)
			var addr uint64
			kind := "?"
			switch q := m.(type) {
			case *protocol.MemCopyH2DReq:
				addr, kind = q.DstAddress, "h"
			case *protocol.MemCopyD2HReq:
				addr, kind = q.SrcAddress, "d"
			}
			l = append(l, fmt.Sprintf("%s%d", kind, e.byAddr[addr]))
		}
		return "xd[" + strings.Join(l, ",") + "]"
	case "xc":
		var l []string
		for i := 0; i < n; i++ {
			m := e.c.ToCaches.RetrieveOutgoing()
			if m == nil {
				break
			}
			e.occ[2]--
			q, ok := m.(*cache.FlushReq)
			if !ok {
				l = append(l, "?")
				continue
			}
			if q.InvalidateAllCachelines || q.DiscardInflight || q.PauseAfterFlushing {
				e.fail("C11.cp.flush-kind", "the copy path's cache flush carries invalidate/discard/pause flags")
			}
			e.atCaches = append(e.atCaches, q)
			l = append(l, strconv.Itoa(e.cacheIx[q.Dst]))
		}
		return "xc[" + strings.Join(l, ",") + "]"
	case "xr":
		var l []string
		for i := 0; i < n; i++ {
			m := e.c.ToDriver.RetrieveOutgoing()
			if m == nil {
				break
			}
			e.occ[0]--
			s := "?"
			if rsp, ok := m.(*sim.GeneralRsp); ok {
				for i, q := range e.reqs {
					if q == rsp.OriginalReq {
						s = e.kinds[i] + strconv.Itoa(i)
					}
				}
			}
			l = append(l, s)
		}
		return "xr[" + strings.Join(l, ",") + "]"
	case "a":
		if len(e.atCaches) == 0 {
			return "none"
		}
		j := n % len(e.atCaches)
		q := e.atCaches[j]
		rsp := cache.FlushRspBuilder{}.WithSrc(q.Dst).WithDst(e.c.ToCaches.AsRemote()).WithRspTo(q.ID).Build()
		if e.c.ToCaches.Deliver(rsp) != nil {
			return "full"
		}
		e.atCaches = append(e.atCaches[:j:j], e.atCaches[j+1:]...)
		return "ok"
	case "r":
		if len(e.atDma) == 0 {
			return "none"
		}
		j := n % len(e.atDma)
		q := e.atDma[j]
		rsp := sim.GeneralRspBuilder{}.WithSrc(e.dma.AsRemote()).WithDst(e.c.ToDMA.AsRemote()).WithOriginalReq(q).Build()
		if e.c.ToDMA.Deliver(rsp) != nil {
			return "full"
		}
		if o, ok := e.cloneOf[q.Meta().ID]; ok {
			e.dmaAnswered[o] = true
		}
		e.atDma = append(e.atDma[:j:j], e.atDma[j+1:]...)
		return "ok"
	}
	return "bad"
}

// finish drains everything (all caches acknowledge, the DMA side answers every clone) until the
// CP is quiet, then checks that every request the driver port accepted was answered exactly once.
func (e *c11CpEnv) finish(rng *Rng) {
	if e.fault == "" {
		for round := 0; round < 4*len(e.reqs)+40; round++ {
			e.do("xd 9999")
			e.do("xc 9999")
			e.do("xr 9999")
			for len(e.atCaches) > 0 {
				if e.do(fmt.Sprintf("a %d", rng.Intn(8))) != "ok" {
					break
				}
			}
			for len(e.atDma) > 0 {
				if e.do(fmt.Sprintf("r %d", rng.Intn(8))) != "ok" {
					break
				}
			}
			o := ""
			if k := len(e.reqs); round == 0 && k > 64 {
				// a long backlog: tick it away in one op (the CP takes two requests / answers per tick)
				o = e.do(fmt.Sprintf("T %d", k/2+2))
				if strings.Contains(o, "!") {
					break
				}
				continue
			}
			o = e.do("t")
			if strings.HasPrefix(o, "fault") {
				break
			}
			if o == "t0" && len(e.atCaches) == 0 && len(e.atDma) == 0 && e.occ == [3]int{} {
				break
			}
		}
	}
	e.r.Case(e.line(), strings.Join(e.out, " "))
	e.r.Count("cpmw.scenario")
	if e.fault != "" {
		e.r.Count("cpmw.fault." + e.fault)
		return
	}
	e.r.Checked("cp.all-answered")
	for i, n := range e.rspCount {
		if n == 1 {
			continue
		}
		what := "never answered"
		if e.kinds[i] != "f" && e.fwdCount[i] == 0 {
			what = "never forwarded to the DMA engine and never answered"
		}
		if e.wasFull {
			e.fail("C11.cp.dropped-under-backpressure", "request %d (%s) was accepted by the driver port but %s: an outgoing buffer was full when the CP sent (the Send error is ignored)", i, e.kinds[i], what)
		} else {
			e.fail("C11.cp.request-lost", "request %d (%s) was accepted by the driver port but %s although every outgoing buffer had room", i, e.kinds[i], what)
		}
		break
	}
}

func c11PickS(rng *Rng, xs ...string) string { return xs[rng.Intn(len(xs))] }

func c11CpScenario(r *Run, rng *Rng) {
	nI, nS, nV, nL2 := rng.Pick(0, 1, 1, 2), rng.Pick(0, 1, 1), rng.Pick(0, 1, 2, 3), rng.Pick(0, 1, 2, 2)
	if rng.Chance(8) {
		nI, nS, nV, nL2 = 0, 0, 0, 0
	}
	n := nI + nS + nV + nL2
	cin, cdrv, cdma, ccache := 4096, 4096, 4096, 4096
	mode := rng.Intn(10)
	if mode >= 6 { // small buffers: back-pressure on every port
		cin = rng.Pick(1, 2, 3, 8)
		cdrv = rng.Pick(1, 2, 3, 8)
		cdma = rng.Pick(1, 2, 3, 8)
		ccache = n + rng.Pick(0, 0, 1, 3)
		if rng.Chance(6) && n > 0 {
			ccache = n - 1
		}
		if ccache == 0 {
			ccache = 1
		}
		r.Count("cpmw.small-buffers")
	}
	e := newC11CpEnv(r, nI, nS, nV, nL2, cin, cdrv, cdma, ccache)
	steps := rng.Range(10, 45)
	drain := rng.Pick(5, 15, 30) // how eagerly the environment takes messages
	for i := 0; i < steps && e.fault == ""; i++ {
		x := rng.Intn(100)
		switch {
		case x < 10:
			e.do("f")
		case x < 30:
			e.do(c11PickS(rng, "h", "d"))
		case x < 55:
			e.do("t")
		case x < 55+drain/3:
			e.do(fmt.Sprintf("xd %d", rng.Pick(1, 1, 2, 9)))
		case x < 55+2*drain/3:
			e.do(fmt.Sprintf("xc %d", rng.Pick(1, 2, 9)))
		case x < 55+drain:
			e.do(fmt.Sprintf("xr %d", rng.Pick(1, 1, 2, 9)))
		case x < 55+drain+(45-drain)/2:
			e.do(fmt.Sprintf("a %d", rng.Intn(6)))
		default:
			e.do(fmt.Sprintf("r %d", rng.Intn(6)))
		}
	}
	e.finish(rng)
}

// c11CpOverflow: the shipped buffer sizes. 4096 copy requests are forwarded while the DMA side
// takes nothing; the next request finds ToDMA's outgoing buffer full.
func c11CpOverflow(r *Run, rng *Rng) {
	e := newC11CpEnv(r, 1, 1, 1, 1, 4096, 4096, 4096, 4096)
	e.do("H 4096")
	e.do("T 2048")
	e.do(c11PickS(rng, "h", "d"))
	e.do("t")
	e.do("xd 4")
	e.do("r 2")
	e.do("r 0")
	e.do("t")
	e.do("xr 4")
	e.finish(rng)
}

func runC11Cpmw(r *Run, rng *Rng, replay string) {
	n := 350
	if r.Tier == "thorough" {
		n = 12000
	}
	for i := 0; i < n; i++ {
		c11CpScenario(r, rng)
	}
	c11CpOverflow(r, rng)
}
