package main

import (
	"bytes"
	"fmt"
	"strconv"
	"strings"

	"github.com/sarchlab/akita/v4/mem/mem"
	"github.com/sarchlab/akita/v4/mem/vm"
	"github.com/sarchlab/akita/v4/sim"
	"github.com/sarchlab/mgpusim/v4/amd/timing/rob"
)

// C15 — the reorder buffer returns responses in request order, exactly once.
//
// One case line = one scenario `c15 cap=.. width=.. pb=def|ti,to,bi,bo cb=def|ci,co bottom=0|1 ; op ; op …`
// driven on the real rob.ReorderBuffer (rob.MakeBuilder) with hand-moved messages.
// The oracles watch the real port traffic through sim port hooks and never look at
// the model.

func init() { register("C15", runC15) }

const c15BottomUnit = "Lower.Top"

type c15Req struct {
	msg      mem.AccessReq
	bot      mem.AccessReq // the duplicate sent down when accepted
	accepted bool
	dropped  bool // removed unaccepted from the Top port (restart)
	discard  bool // transaction thrown away by a flush/restart
	answers  int  // responses sent up with RspTo = this request
}

type c15Env struct {
	r    *Run
	line string
	rb   *rob.ReorderBuffer
	eng  *fakeEngine
	top  sim.Port
	bot  sim.Port
	ctl  sim.Port
	cap  int

	reqs        []*c15Req
	byID        map[string]int // requester id -> index
	botOwner    map[string]int // bottom id -> request index
	botNum      map[string]int // bottom id -> #k (drain order)
	outstanding []mem.AccessReq
	out         []string
	stopped     bool

	// oracle state (fed by port hooks)
	lastBotSend mem.AccessReq
	pendingQ    []int              // accepted, not yet answered, not discarded (acceptance order)
	lastRsp     map[string]sim.Msg // bottom id -> last response the ROB consumed for it
	sentData    map[string][]byte  // response message id -> payload as built by the harness
	seenIDs     map[string]bool
	ctlPending  []*mem.ControlMsg
	nAccepted   int
	nDelivered  int
	nDiscarded  int
	nFlush      int
	maxPending  int
	reorders    int // responses given to the ROB while an older bottom request was unanswered
}

func (e *c15Env) fail(sig, format string, a ...interface{}) {
	e.r.Failf(sig, e.line, format, a...)
}

// Func is the port hook: the oracle's only view of the implementation.
func (e *c15Env) Func(ctx sim.HookCtx) {
	port := ctx.Domain.(sim.Port)
	switch {
	case port == e.bot && ctx.Pos == sim.HookPosPortMsgSend:
		e.lastBotSend, _ = ctx.Item.(mem.AccessReq)
		e.checkForwarded(ctx.Item.(sim.Msg))
	case port == e.top && ctx.Pos == sim.HookPosPortMsgRetrieveIncoming:
		e.onTopRetrieved(ctx.Item.(sim.Msg))
	case port == e.bot && ctx.Pos == sim.HookPosPortMsgRetrieveIncoming:
		if rsp, ok := ctx.Item.(mem.AccessRsp); ok {
			if idx, known := e.botOwner[rsp.GetRspTo()]; !known {
				e.r.Count("c15.rsp-consumed.unknown-id")
			} else if e.reqs[idx].discard {
				e.r.Count("c15.rsp-consumed.late-for-discarded")
			} else if e.reqs[idx].answers > 0 {
				e.r.Count("c15.rsp-consumed.after-retirement")
			} else if e.lastRsp[rsp.GetRspTo()] != nil {
				e.r.Count("c15.rsp-consumed.overwrites-earlier")
			}
			// keep the payload as the lower level sent it: the ROB holds the same message object and
			// may touch it while the response waits for its turn
			if dr, ok := rsp.(*mem.DataReadyRsp); ok {
				cp := *dr
				cp.Data = append([]byte(nil), dr.Data...)
				if sent, ok := e.sentData[dr.Meta().ID]; ok {
					cp.Data = sent
				}
				rsp = &cp
			}
			e.lastRsp[rsp.GetRspTo()] = rsp
		}
	case port == e.top && ctx.Pos == sim.HookPosPortMsgSend:
		e.onTopSend(ctx.Item.(sim.Msg))
	case port == e.ctl && ctx.Pos == sim.HookPosPortMsgRetrieveIncoming:
		e.onCtlConsumed(ctx.Item.(sim.Msg))
	}
}

func (e *c15Env) checkForwarded(m sim.Msg) {
	if m.Meta().Dst != c15BottomUnit {
		e.fail("C15.dup.dst", "forwarded request goes to %q, want the bottom unit", m.Meta().Dst)
	}
	if m.Meta().Src != e.bot.AsRemote() {
		e.fail("C15.dup.src", "forwarded request has source %q", m.Meta().Src)
	}
	if e.seenIDs[m.Meta().ID] {
		e.fail("C15.dup.id-reused", "forwarded request reuses id %s", m.Meta().ID)
	}
	e.seenIDs[m.Meta().ID] = true
}

// topDown sends the duplicate and then retrieves the request; restart retrieves
// without sending. That distinguishes acceptance from dropping.
func (e *c15Env) onTopRetrieved(m sim.Msg) {
	idx, ok := e.byID[m.Meta().ID]
	if !ok {
		return
	}
	q := e.reqs[idx]
	if e.lastBotSend == nil {
		q.dropped = true
		e.r.Count("c15.dropped-at-restart")
		return
	}
	b := e.lastBotSend
	e.lastBotSend = nil
	q.accepted, q.bot = true, b
	e.botOwner[b.Meta().ID] = idx
	e.pendingQ = append(e.pendingQ, idx)
	e.nAccepted++
	if len(e.pendingQ) > e.maxPending {
		e.maxPending = len(e.pendingQ)
	}
	e.r.Checked("capacity")
	if len(e.pendingQ) > e.cap {
		e.fail("C15.capacity.pending", "%d requests accepted and unanswered, capacity %d", len(e.pendingQ), e.cap)
	}
	e.r.Checked("dup")
	e.checkDup(q.msg, b)
}

func (e *c15Env) checkDup(t, b mem.AccessReq) {
	switch tr := t.(type) {
	case *mem.ReadReq:
		br, ok := b.(*mem.ReadReq)
		if !ok {
			e.fail("C15.dup.kind", "read forwarded as %T", b)
			return
		}
		if br.Address != tr.Address {
			e.fail("C15.dup.address", "read address %d forwarded as %d", tr.Address, br.Address)
		}
		if br.AccessByteSize != tr.AccessByteSize {
			e.fail("C15.dup.size", "read size %d forwarded as %d", tr.AccessByteSize, br.AccessByteSize)
		}
		if br.PID != tr.PID {
			e.fail("C15.dup.pid", "read pid %d forwarded as %d", tr.PID, br.PID)
		}
	case *mem.WriteReq:
		bw, ok := b.(*mem.WriteReq)
		if !ok {
			e.fail("C15.dup.kind", "write forwarded as %T", b)
			return
		}
		if bw.Address != tr.Address {
			e.fail("C15.dup.address", "write address %d forwarded as %d", tr.Address, bw.Address)
		}
		if !bytes.Equal(bw.Data, tr.Data) {
			e.fail("C15.dup.data", "write data %x forwarded as %x", tr.Data, bw.Data)
		}
		if fmt.Sprint(bw.DirtyMask) != fmt.Sprint(tr.DirtyMask) {
			e.fail("C15.dup.mask", "write mask %v forwarded as %v", tr.DirtyMask, bw.DirtyMask)
		}
		if bw.PID != tr.PID {
			e.fail("C15.dup.pid", "write pid %d forwarded as %d", tr.PID, bw.PID)
		}
	}
	if b.Meta().ID == t.Meta().ID {
		e.fail("C15.dup.id-reused", "forwarded request keeps the requester's id")
	}
}

func (e *c15Env) onTopSend(m sim.Msg) {
	rsp, ok := m.(mem.AccessRsp)
	if !ok {
		e.fail("C15.rsp.kind", "ROB sent %T to the requester", m)
		return
	}
	e.nDelivered++
	e.r.Checked("order")
	idx, known := e.byID[rsp.GetRspTo()]
	if !known {
		e.fail("C15.rspto.unknown", "response to id %s which no requester used", rsp.GetRspTo())
		return
	}
	q := e.reqs[idx]
	q.answers++
	switch {
	case q.discard:
		e.fail("C15.flush.discarded-delivered", "request %d was discarded by a flush and is answered afterwards", idx)
		return
	case q.answers > 1:
		e.fail("C15.once.duplicate", "request %d answered %d times", idx, q.answers)
		return
	case !q.accepted:
		e.fail("C15.rspto.unaccepted", "request %d answered but never accepted", idx)
		return
	case len(e.pendingQ) == 0 || e.pendingQ[0] != idx:
		e.fail("C15.order", "request %d answered while the oldest pending request is %v", idx, e.pendingQ)
		for i, p := range e.pendingQ {
			if p == idx {
				e.pendingQ = append(e.pendingQ[:i:i], e.pendingQ[i+1:]...)
				break
			}
		}
	default:
		e.pendingQ = e.pendingQ[1:]
	}
	if m.Meta().Dst != q.msg.Meta().Src {
		e.fail("C15.rsp.dst", "response to request %d goes to %q, requester is %q", idx, m.Meta().Dst, q.msg.Meta().Src)
	}
	if m.Meta().Src != e.top.AsRemote() {
		e.fail("C15.rsp.src", "response has source %q", m.Meta().Src)
	}
	e.r.Checked("payload")
	low := e.lastRsp[q.bot.Meta().ID]
	if low == nil {
		e.fail("C15.payload.none", "request %d answered although the lower level never answered its duplicate", idx)
		return
	}
	switch lr := low.(type) {
	case *mem.DataReadyRsp:
		ur, ok := m.(*mem.DataReadyRsp)
		if !ok {
			e.fail("C15.payload.kind", "lower level answered %T, requester got %T", low, m)
		} else if !bytes.Equal(ur.Data, lr.Data) {
			e.fail("C15.payload.data", "request %d: lower level returned %x, requester got %x", idx, lr.Data, ur.Data)
		}
	case *mem.WriteDoneRsp:
		if _, ok := m.(*mem.WriteDoneRsp); !ok {
			e.fail("C15.payload.kind", "lower level answered %T, requester got %T", low, m)
		}
	}
}

func (e *c15Env) onCtlConsumed(m sim.Msg) {
	c, ok := m.(*mem.ControlMsg)
	if !ok || !(c.DiscardTransations || c.Restart) {
		return
	}
	e.nFlush++
	for _, idx := range e.pendingQ {
		e.reqs[idx].discard = true
		e.nDiscarded++
	}
	e.pendingQ = nil
}

func c15ParsePair(s string, n int) ([]int, bool) {
	p := strings.Split(s, ",")
	if len(p) != n {
		return nil, false
	}
	o := make([]int, n)
	for i, x := range p {
		v, err := strconv.Atoi(x)
		if err != nil {
			return nil, false
		}
		o[i] = v
	}
	return o, true
}

func newC15Env(r *Run, line string, cfg []string, live *c15Engine) *c15Env {
	kv := map[string]string{}
	for _, t := range cfg {
		if i := strings.IndexByte(t, '='); i > 0 {
			kv[t[:i]] = t[i+1:]
		}
	}
	capN, _ := strconv.Atoi(kv["cap"])
	width, _ := strconv.Atoi(kv["width"])
	eng := &fakeEngine{}
	var engine sim.Engine = eng
	if live != nil {
		engine = live
	}
	b := rob.MakeBuilder().WithEngine(engine).WithFreq(1 * sim.GHz).
		WithBufferSize(capN).WithNumReqPerCycle(width)
	if kv["bottom"] != "0" {
		b = b.WithBottomUnit(c15BottomUnit)
	}
	rb := b.Build("ROB")
	ci, co := 1, 1
	if v, ok := c15ParsePair(kv["cb"], 2); ok {
		ci, co = v[0], v[1]
	}
	if v, ok := c15ParsePair(kv["pb"], 4); ok {
		rb.VerifSetPortBuffers(v[0], v[1], v[2], v[3], ci, co)
	} else if ci != 1 || co != 1 {
		rb.VerifSetPortBuffers(2*width, 2*width, 2*width, 2*width, ci, co)
	}
	e := &c15Env{r: r, line: line, rb: rb, eng: eng, cap: capN,
		byID: map[string]int{}, botOwner: map[string]int{}, botNum: map[string]int{},
		lastRsp: map[string]sim.Msg{}, sentData: map[string][]byte{}, seenIDs: map[string]bool{}}
	e.top, e.bot, e.ctl = rb.VerifPorts()
	conn := &fakeConn{name: "c15"}
	for _, p := range []sim.Port{e.top, e.bot, e.ctl} {
		p.SetConnection(conn)
		p.AcceptHook(e)
	}
	return e
}

func c15Bits(m []bool) string {
	if len(m) == 0 {
		return "-"
	}
	b := make([]byte, len(m))
	for i, x := range m {
		b[i] = '0'
		if x {
			b[i] = '1'
		}
	}
	return string(b)
}

func c15Data(d []byte) string {
	if len(d) == 0 {
		return "-"
	}
	return hexb(d)
}

func c15b(b bool) string {
	if b {
		return "1"
	}
	return "0"
}

func c15Src(n int) sim.RemotePort {
	if n == 0 {
		return ""
	}
	return sim.RemotePort(fmt.Sprintf("Req%d", n))
}

func c15SrcNum(p sim.RemotePort) string {
	if p == "" {
		return "0"
	}
	return strings.TrimPrefix(string(p), "Req")
}

func (e *c15Env) emit(s string) { e.out = append(e.out, s) }

func (e *c15Env) deliverTop(m mem.AccessReq) {
	if err := e.top.Deliver(m); err != nil {
		e.emit("full") // the requester keeps the request; it was never handed over
		return
	}
	e.byID[m.Meta().ID] = len(e.reqs)
	e.reqs = append(e.reqs, &c15Req{msg: m})
	e.emit("ok")
}

func (e *c15Env) payloadFor(b mem.AccessReq, s string) (sim.Msg, bool) {
	m, ok := e.payloadFor0(b, s)
	if dr, isData := m.(*mem.DataReadyRsp); ok && isData {
		// what the lower level sends, byte for byte (the ROB holds the same object afterwards)
		e.sentData[dr.Meta().ID] = append([]byte(nil), dr.Data...)
	}
	return m, ok
}

func (e *c15Env) payloadFor0(b mem.AccessReq, s string) (sim.Msg, bool) {
	src, dst, id := sim.RemotePort(c15BottomUnit), b.Meta().Src, b.Meta().ID
	switch {
	case strings.HasPrefix(s, "a"):
		salt, err := strconv.Atoi(s[1:])
		if err != nil {
			return nil, false
		}
		if rr, ok := b.(*mem.ReadReq); ok {
			d := make([]byte, rr.AccessByteSize)
			for i := range d {
				d[i] = byte((rr.Address + 7*uint64(i) + uint64(salt)) % 256)
			}
			return mem.DataReadyRspBuilder{}.WithSrc(src).WithDst(dst).WithRspTo(id).WithData(d).Build(), true
		}
		return mem.WriteDoneRspBuilder{}.WithSrc(src).WithDst(dst).WithRspTo(id).Build(), true
	case s == "w":
		return mem.WriteDoneRspBuilder{}.WithSrc(src).WithDst(dst).WithRspTo(id).Build(), true
	case strings.HasPrefix(s, "d:"):
		d, ok := c15Hex(s[2:])
		if !ok {
			return nil, false
		}
		return mem.DataReadyRspBuilder{}.WithSrc(src).WithDst(dst).WithRspTo(id).WithData(d).Build(), true
	}
	return nil, false
}

func c15Hex(s string) ([]byte, bool) {
	if s == "-" {
		return nil, true
	}
	if len(s)%2 != 0 {
		return nil, false
	}
	o := make([]byte, len(s)/2)
	for i := range o {
		v, err := strconv.ParseUint(s[2*i:2*i+2], 16, 8)
		if err != nil {
			return nil, false
		}
		o[i] = byte(v)
	}
	return o, true
}

type c15Bogus struct{ sim.MsgMeta }

func (b *c15Bogus) Meta() *sim.MsgMeta { return &b.MsgMeta }
func (b *c15Bogus) Clone() sim.Msg     { return b }

func (e *c15Env) deliverCtl(discard, restart bool) {
	b := mem.ControlMsgBuilder{}.WithSrc("Ctrl").WithDst(e.ctl.AsRemote())
	if discard {
		b = b.ToDiscardTransactions()
	}
	if restart {
		b = b.ToRestart()
	}
	if err := e.ctl.Deliver(b.Build()); err != nil {
		e.emit("full")
		return
	}
	e.emit("ok")
}

func (e *c15Env) op(t []string) {
	if e.stopped || len(t) == 0 {
		return
	}
	atoi := func(s string) int { v, _ := strconv.Atoi(s); return v }
	switch {
	case t[0] == "t" && len(t) == 1:
		e.eng.now += 1e-9
		p := false
		f := catch(func() { p = e.rb.Tick() })
		if f != "" {
			switch {
			case strings.Contains(f, "never"):
				f = "never"
			case strings.Contains(f, "dst_is_not_given"):
				f = "dst_not_given"
			}
			e.emit("fault:" + f)
			e.stopped = true
			return
		}
		n, tb, fl := e.rb.VerifState()
		e.emit(fmt.Sprintf("t%s:%d,%d,%s", c15b(p), n, tb, c15b(fl)))
		e.r.Checked("capacity")
		if n > e.cap {
			e.fail("C15.capacity.list", "transaction list holds %d entries, capacity %d", n, e.cap)
		}
		if n != tb {
			e.fail("C15.table.size", "lookup table has %d keys for %d transactions", tb, n)
		}
		if n != len(e.pendingQ) {
			e.fail("C15.pending.mismatch", "transaction list holds %d entries, port traffic implies %d pending", n, len(e.pendingQ))
		}
	case t[0] == "R" && len(t) == 6:
		b := mem.ReadReqBuilder{}.WithSrc(c15Src(atoi(t[1]))).WithDst(e.top.AsRemote()).
			WithPID(vm.PID(atoi(t[2]))).WithAddress(uint64(atoi(t[3]))).WithByteSize(uint64(atoi(t[4])))
		if t[5] == "1" {
			b = b.CanWaitForCoalesce()
		}
		e.deliverTop(b.Build())
	case t[0] == "W" && len(t) == 7:
		d, ok := c15Hex(t[4])
		if !ok {
			e.emit("bad")
			return
		}
		var mask []bool
		if t[5] != "-" {
			for _, ch := range t[5] {
				mask = append(mask, ch == '1')
			}
		}
		b := mem.WriteReqBuilder{}.WithSrc(c15Src(atoi(t[1]))).WithDst(e.top.AsRemote()).
			WithPID(vm.PID(atoi(t[2]))).WithAddress(uint64(atoi(t[3]))).WithData(d).WithDirtyMask(mask)
		if t[6] == "1" {
			b = b.CanWaitForCoalesce()
		}
		e.deliverTop(b.Build())
	case t[0] == "db" && len(t) == 2:
		strs := []string{}
		for i := 0; i < atoi(t[1]); i++ {
			m := e.bot.RetrieveOutgoing()
			if m == nil {
				break
			}
			k := len(e.botNum) + 1
			e.botNum[m.Meta().ID] = k
			switch q := m.(type) {
			case *mem.ReadReq:
				e.outstanding = append(e.outstanding, q)
				strs = append(strs, fmt.Sprintf("r(#%d,a=%d,s=%d,p=%d,c=%s)", k, q.Address, q.AccessByteSize, q.PID, c15b(q.CanWaitForCoalesce)))
			case *mem.WriteReq:
				e.outstanding = append(e.outstanding, q)
				strs = append(strs, fmt.Sprintf("w(#%d,a=%d,d=%s,m=%s,p=%d,c=%s)", k, q.Address, c15Data(q.Data), c15Bits(q.DirtyMask), q.PID, c15b(q.CanWaitForCoalesce)))
			default:
				strs = append(strs, fmt.Sprintf("?%T", m))
			}
		}
		e.emit("b[" + strings.Join(strs, " ") + "]")
	case t[0] == "dt" && len(t) == 2:
		strs := []string{}
		for i := 0; i < atoi(t[1]); i++ {
			m := e.top.RetrieveOutgoing()
			if m == nil {
				break
			}
			switch q := m.(type) {
			case *mem.DataReadyRsp:
				strs = append(strs, fmt.Sprintf("d(%s,%s)>%s", e.topIdx(q.RespondTo), c15Data(q.Data), c15SrcNum(q.Dst)))
			case *mem.WriteDoneRsp:
				strs = append(strs, fmt.Sprintf("w(%s)>%s", e.topIdx(q.RespondTo), c15SrcNum(q.Dst)))
			default:
				strs = append(strs, fmt.Sprintf("?%T", m))
			}
		}
		e.emit("T[" + strings.Join(strs, " ") + "]")
	case t[0] == "dc" && len(t) == 1:
		m := e.ctl.RetrieveOutgoing()
		if m == nil {
			e.emit("c[]")
			return
		}
		c, ok := m.(*mem.ControlMsg)
		if !ok || !c.NotifyDone || c.Dst != "Ctrl" || c.Src != e.ctl.AsRemote() {
			e.fail("C15.ctl.rsp", "control response %T %+v", m, m)
			e.emit("c[?]")
			return
		}
		e.emit("c[done]")
	case (t[0] == "r" || t[0] == "rk") && len(t) == 3:
		j, err := strconv.Atoi(t[1])
		if err != nil || j < 0 {
			e.emit("bad")
			return
		}
		if len(e.outstanding) == 0 {
			e.emit("none")
			return
		}
		j %= len(e.outstanding)
		rsp, ok := e.payloadFor(e.outstanding[j], t[2])
		if !ok {
			e.emit("bad")
			return
		}
		if err := e.bot.Deliver(rsp); err != nil {
			e.emit("full") // the lower level keeps its response; the request stays outstanding
			return
		}
		if j > 0 {
			e.reorders++
		}
		if t[0] == "r" {
			e.outstanding = append(e.outstanding[:j:j], e.outstanding[j+1:]...)
		}
		e.emit("ok")
	case t[0] == "ra" && len(t) == 2:
		k := 0
		for len(e.outstanding) > 0 {
			rsp, ok := e.payloadFor(e.outstanding[0], "a"+t[1])
			if !ok || e.bot.Deliver(rsp) != nil {
				break
			}
			e.outstanding = e.outstanding[1:]
			k++
		}
		e.emit(fmt.Sprintf("ok%d", k))
	case t[0] == "po" && len(t) == 1:
		e.outstanding = nil
		e.emit("ok")
	case t[0] == "rb" && len(t) == 2:
		fake := &mem.ReadReq{}
		fake.ID, fake.Src = "bogus", e.bot.AsRemote()
		rsp, ok := e.payloadFor(fake, t[1])
		if !ok || strings.HasPrefix(t[1], "a") {
			e.emit("bad")
			return
		}
		if err := e.bot.Deliver(rsp); err != nil {
			e.emit("full")
			return
		}
		e.emit("ok")
	case t[0] == "F" && len(t) == 1:
		e.deliverCtl(true, false)
	case t[0] == "S" && len(t) == 1:
		e.deliverCtl(false, true)
	case t[0] == "FS" && len(t) == 1:
		e.deliverCtl(true, true)
	case t[0] == "N" && len(t) == 1:
		e.deliverCtl(false, false)
	default:
		e.emit("bad")
	}
}

func (e *c15Env) topIdx(id string) string {
	if i, ok := e.byID[id]; ok {
		return strconv.Itoa(i)
	}
	return "?" + id
}

// runC15Scenario executes one case line on the real ROB. closed = the line ends
// with a closing phase in which the environment restarts, answers and drains
// everything, so every accepted, non-discarded request must have been answered.
func runC15Scenario(r *Run, line string, closed bool) *c15Env {
	segs := strings.Split(line, ";")
	cfg := strings.Fields(segs[0])
	var e *c15Env
	if f := catch(func() { e = newC15Env(r, line, cfg, nil) }); f != "" || e == nil {
		r.Case(line, "bad-cfg")
		return nil
	}
	for _, o := range segs[1:] {
		e.op(strings.Fields(o))
	}
	r.Case(line, strings.Join(e.out, " "))
	r.Count("c15.scenario")
	r.CountN("c15.ops", len(segs)-1)
	r.CountN("c15.accepted", e.nAccepted)
	r.CountN("c15.delivered", e.nDelivered)
	r.CountN("c15.discarded", e.nDiscarded)
	r.CountN("c15.flush-or-restart-processed", e.nFlush)
	r.CountN("c15.responses-out-of-order", e.reorders)
	if e.maxPending >= e.cap {
		r.Count("c15.scenario-reached-capacity")
	}
	if e.stopped {
		r.Count("c15.scenario-faulted")
	}
	// every response that left through the Top port belonged to exactly one request
	r.Checked("once")
	for i, q := range e.reqs {
		if q.answers > 1 {
			e.fail("C15.once.duplicate", "request %d answered %d times", i, q.answers)
		}
	}
	if closed && !e.stopped {
		r.Checked("once.closed")
		for i, q := range e.reqs {
			if q.accepted && !q.discard && q.answers != 1 {
				e.fail("C15.once.missing", "request %d accepted, not discarded, answered %d times after the closing phase", i, q.answers)
			}
			if !q.accepted && !q.dropped {
				e.fail("C15.served.never-accepted", "request %d still waits in the Top port after the closing phase", i)
			}
		}
		if m := e.top.PeekOutgoing(); m != nil {
			e.fail("C15.closed.leftover", "Top port still holds a response after the closing phase")
		}
	}
	return e
}

// ---------------------------------------------------------------- generator

func c15GenReq(rng *Rng, malformed bool) string {
	src := rng.Range(1, 3)
	if malformed && rng.Chance(30) {
		src = 0
	}
	pid := rng.Pick(0, 1, 1, 2, 7)
	addr := rng.Pick(0, 64, 4096, 4100, 1<<20, 1<<32+64, rng.Intn(1<<16))
	cwc := rng.Pick(0, 0, 1)
	if rng.Chance(55) {
		size := rng.Pick(4, 4, 64, 1, 0, 8, 16)
		return fmt.Sprintf("R %d %d %d %d %d", src, pid, addr, size, cwc)
	}
	n := rng.Pick(4, 4, 1, 8, 0, 16, 64)
	data, mask := "-", "-"
	if n > 0 {
		data = hexb(rng.Bytes(n))
		if rng.Chance(70) {
			b := make([]byte, n)
			for i := range b {
				b[i] = byte('0' + rng.Intn(2))
			}
			mask = string(b)
		}
	}
	return fmt.Sprintf("W %d %d %d %s %s %d", src, pid, addr, data, mask, cwc)
}

func c15GenRsp(rng *Rng) string {
	switch x := rng.Intn(100); {
	case x < 88:
		return fmt.Sprintf("a%d", rng.Intn(256))
	case x < 94:
		return "w"
	default:
		return "d:" + c15Data(rng.Bytes(rng.Pick(0, 1, 4, 8)))
	}
}

func c15Closing(rng *Rng, rounds int) []string {
	// let stuck control messages through, restart, forget what the (flushed) lower level owed
	ops := []string{"dc", "t", "dc", "t", "dc", "t", "S", "t", "dc", "t", "po"}
	for i := 0; i < 3; i++ {
		ops = append(ops, c15GenReq(rng, false))
	}
	for i := 0; i < rounds; i++ {
		ops = append(ops, "t", "db 16", fmt.Sprintf("ra %d", i%256), "t", "dt 16")
	}
	return ops
}

func genC15Scenario(rng *Rng, big bool) (string, bool) {
	capN := rng.Pick(1, 2, 3, 4, 4, 6, 8, 16)
	width := rng.Pick(1, 1, 2, 2, 3, 4)
	pb := "def"
	shipped := rng.Chance(6) // the configurations of shaderarray/builder.go
	if shipped {
		capN, width = 128, 4
		if rng.Bool() {
			capN, width = 512, 32
		}
	} else if rng.Chance(55) {
		pb = fmt.Sprintf("%d,%d,%d,%d", rng.Range(1, 4), rng.Range(1, 4), rng.Range(1, 4), rng.Range(1, 4))
	}
	cb := "def"
	if rng.Chance(25) {
		cb = fmt.Sprintf("%d,%d", rng.Range(1, 2), rng.Range(1, 2))
	}
	malformed := rng.Chance(4)
	flushy := rng.Chance(60) // the other scenarios see flush/restart only in the closing phase
	bottom := 1
	if malformed && rng.Chance(25) {
		bottom = 0
	}
	ops := []string{fmt.Sprintf("c15 cap=%d width=%d pb=%s cb=%s bottom=%d", capN, width, pb, cb, bottom)}
	maxOps := 120
	if big {
		maxOps = 1200
	}
	n := rng.Range(5, maxOps)
	// phase weights: normal / top back-pressure / bottom back-pressure / flush storm
	phase, left := 0, 0
	flushed := false
	for i := 0; i < n; i++ {
		if left == 0 {
			phase, left = rng.Pick(0, 0, 0, 1, 2, 3), rng.Range(5, 40)
		}
		left--
		x := rng.Intn(100)
		switch {
		case x < 24:
			ops = append(ops, c15GenReq(rng, malformed))
		case x < 52:
			ops = append(ops, "t")
		case x < 62:
			if phase == 2 && rng.Chance(80) {
				ops = append(ops, "t")
			} else {
				ops = append(ops, fmt.Sprintf("db %d", rng.Range(1, 6)))
			}
		case x < 71:
			if phase == 1 && rng.Chance(85) {
				ops = append(ops, "t")
			} else {
				ops = append(ops, fmt.Sprintf("dt %d", rng.Range(1, 6)))
			}
		case x < 88:
			ops = append(ops, fmt.Sprintf("r %d %s", rng.Pick(0, 0, 1, 2, 3, rng.Intn(16)), c15GenRsp(rng)))
		case x < 91:
			ops = append(ops, fmt.Sprintf("rk %d %s", rng.Intn(8), c15GenRsp(rng)))
		case x < 92:
			ops = append(ops, "rb "+rng.pickStr("w", "d:00", "d:-"))
		case x < 96:
			ops = append(ops, "dc")
		default:
			p := 35
			if phase == 3 {
				p = 100
			}
			if !flushy || !rng.Chance(p) {
				ops = append(ops, "t")
				break
			}
			switch y := rng.Intn(100); {
			case y < 45 && !flushed:
				ops = append(ops, "F")
				flushed = true
			case y < 90:
				ops = append(ops, "S")
				flushed = false
			case y < 96:
				ops = append(ops, "FS")
			default:
				if malformed {
					ops = append(ops, "N")
				} else {
					ops = append(ops, "F")
				}
			}
		}
	}
	closed := rng.Chance(80)
	if closed {
		rounds := 3*capN + 24
		if rounds > n+40 {
			rounds = n + 40
		}
		ops = append(ops, c15Closing(rng, rounds)...)
	}
	return strings.Join(ops, " ; "), closed
}

// ---------------------------------------------------------------- engine-faithful closed runs

// c15Engine keeps the tick events the component schedules; the harness runs them
// one at a time. The component is ticked only when it asked to be (Akita's rule:
// Deliver into an empty incoming buffer, an outgoing buffer leaving the full
// state, or a tick that made progress), so a lost wake-up shows as a request that
// is never answered although the environment did everything it owes.
type c15Engine struct {
	sim.HookableBase
	now sim.VTimeInSec
	q   []sim.Event
}

func (e *c15Engine) Schedule(evt sim.Event)      { e.q = append(e.q, evt) }
func (e *c15Engine) Run() error                  { return nil }
func (e *c15Engine) Pause()                      {}
func (e *c15Engine) Continue()                   {}
func (e *c15Engine) CurrentTime() sim.VTimeInSec { return e.now }

func (e *c15Engine) runOne() bool {
	if len(e.q) == 0 {
		return false
	}
	best := 0
	for i, ev := range e.q {
		if ev.Time() < e.q[best].Time() {
			best = i
		}
	}
	ev := e.q[best]
	e.q = append(e.q[:best:best], e.q[best+1:]...)
	if ev.Time() > e.now {
		e.now = ev.Time()
	}
	_ = ev.Handler().Handle(ev)
	return true
}

func c15Live(r *Run, rng *Rng, idx int) {
	capN := rng.Pick(1, 2, 3, 4, 8)
	width := rng.Pick(1, 1, 2, 4)
	pb := "def"
	if rng.Chance(60) {
		pb = fmt.Sprintf("%d,%d,%d,%d", rng.Range(1, 4), rng.Range(1, 4), rng.Range(1, 4), rng.Range(1, 4))
	}
	cb := "def"
	if rng.Chance(30) {
		cb = fmt.Sprintf("%d,%d", rng.Range(1, 2), rng.Range(1, 2))
	}
	cfg := fmt.Sprintf("c15-live cap=%d width=%d pb=%s cb=%s bottom=1", capN, width, pb, cb)
	line := fmt.Sprintf("%s seed=%d run=%d", cfg, r.Seed, idx)
	eng := &c15Engine{}
	var e *c15Env
	if f := catch(func() { e = newC15Env(r, line, strings.Fields(cfg), eng) }); f != "" {
		r.Failf("C15.live.setup", line, "%s", f)
		return
	}
	nReq := rng.Range(1, 40)
	var ctlPlan []string
	if rng.Chance(50) {
		for i := rng.Range(1, 3); i > 0; i-- {
			ctlPlan = append(ctlPlan, "F", "S")
		}
	}
	var log []string
	act := func(s string) {
		if len(log) < 400 {
			log = append(log, s)
		}
	}
	var waitingReq mem.AccessReq // built, Deliver failed, retried later (never dropped)
	var waitingCtl string
	flushing := false
	idle := func() {
		if len(eng.q) == 0 {
			eng.now += sim.VTimeInSec(rng.Range(1, 3)) * 1e-9
		}
	}
	tryReq := func() bool {
		if waitingReq == nil {
			if nReq == 0 {
				return false
			}
			nReq--
			src := c15Src(rng.Range(1, 3))
			if rng.Bool() {
				waitingReq = mem.ReadReqBuilder{}.WithSrc(src).WithDst(e.top.AsRemote()).WithPID(1).
					WithAddress(uint64(rng.Intn(1<<12) * 4)).WithByteSize(uint64(rng.Pick(4, 8, 64))).Build()
			} else {
				waitingReq = mem.WriteReqBuilder{}.WithSrc(src).WithDst(e.top.AsRemote()).WithPID(1).
					WithAddress(uint64(rng.Intn(1<<12) * 4)).WithData(rng.Bytes(4)).Build()
			}
		}
		idle()
		if e.top.Deliver(waitingReq) == nil {
			e.byID[waitingReq.Meta().ID] = len(e.reqs)
			e.reqs = append(e.reqs, &c15Req{msg: waitingReq})
			waitingReq = nil
			act("req")
			return true
		}
		return false
	}
	tryCtl := func() bool {
		if waitingCtl == "" {
			if len(ctlPlan) == 0 {
				return false
			}
			waitingCtl, ctlPlan = ctlPlan[0], ctlPlan[1:]
		}
		b := mem.ControlMsgBuilder{}.WithSrc("Ctrl").WithDst(e.ctl.AsRemote())
		if waitingCtl == "F" {
			b = b.ToDiscardTransactions()
		} else {
			b = b.ToRestart()
		}
		idle()
		if e.ctl.Deliver(b.Build()) == nil {
			act(waitingCtl)
			flushing = waitingCtl == "F"
			waitingCtl = ""
			return true
		}
		return false
	}
	drainBot := func() bool {
		m := e.bot.RetrieveOutgoing()
		if m == nil {
			return false
		}
		e.outstanding = append(e.outstanding, m.(mem.AccessReq))
		act("db")
		return true
	}
	respond := func(j int) bool {
		if len(e.outstanding) == 0 {
			return false
		}
		j %= len(e.outstanding)
		rsp, _ := e.payloadFor(e.outstanding[j], "a7")
		idle()
		if e.bot.Deliver(rsp) != nil {
			return false
		}
		e.outstanding = append(e.outstanding[:j:j], e.outstanding[j+1:]...)
		act(fmt.Sprintf("r%d", j))
		return true
	}
	drainTop := func() bool {
		if e.top.RetrieveOutgoing() == nil {
			return false
		}
		act("dt")
		return true
	}
	drainCtl := func() bool {
		if e.ctl.RetrieveOutgoing() == nil {
			return false
		}
		act("dc")
		return true
	}
	tick := func() bool {
		ok := false
		if f := catch(func() { ok = eng.runOne() }); f != "" {
			e.fail("C15.live.panic", "%s after %s", f, strings.Join(log, " "))
			return false
		}
		if ok {
			act("t")
		}
		return ok
	}
	// open phase: random interleaving of environment moves and scheduled ticks
	for step := 0; step < 60+rng.Intn(600); step++ {
		switch x := rng.Intn(100); {
		case x < 20:
			tryReq()
		case x < 50:
			tick()
		case x < 62:
			drainBot()
		case x < 80:
			respond(rng.Intn(8))
		case x < 90:
			drainTop()
		case x < 94:
			drainCtl()
		default:
			tryCtl()
		}
	}
	// closing phase: the environment does everything it owes, the component is
	// ticked exactly when it scheduled itself
	for round := 0; round < 100000; round++ {
		did := false
		for tick() {
			did = true
		}
		did = drainCtl() || did
		did = tryCtl() || did
		if waitingCtl == "" && len(ctlPlan) == 0 && !flushing {
			did = tryReq() || did
		}
		for drainBot() {
			did = true
		}
		for respond(0) {
			did = true
		}
		for drainTop() {
			did = true
		}
		if !did && len(eng.q) == 0 {
			break
		}
	}
	r.Checked("live")
	r.Count("c15.live-run")
	r.CountN("c15.live-accepted", e.nAccepted)
	r.CountN("c15.live-delivered", e.nDelivered)
	tail := log
	if len(tail) > 120 {
		tail = tail[len(tail)-120:]
	}
	n, _, fl := e.rb.VerifState()
	for i, q := range e.reqs {
		if q.accepted && !q.discard && q.answers != 1 {
			e.fail("C15.live.stuck", "request %d accepted, not discarded, answered %d times; component asleep with %d transactions (flushing=%v) although every port was served; moves: … %s",
				i, q.answers, n, fl, strings.Join(tail, " "))
			return
		}
		if !q.accepted && !q.dropped {
			e.fail("C15.live.stuck-top", "request %d never accepted; component asleep (flushing=%v, %d transactions) although every port was served; moves: … %s",
				i, fl, n, strings.Join(tail, " "))
			return
		}
	}
	if waitingReq != nil || nReq > 0 || waitingCtl != "" || len(ctlPlan) > 0 {
		e.fail("C15.live.stuck-port", "environment could not hand over its messages (req left %d, ctl left %d); moves: … %s",
			nReq, len(ctlPlan), strings.Join(tail, " "))
	}
}

func (r *Rng) pickStr(xs ...string) string { return xs[r.Intn(len(xs))] }

// hand-written corner scenarios (replayed first, every run)
var c15Corpus = []struct {
	line   string
	closed bool
}{
	// reverse-order responses, capacity 4
	{"c15 cap=4 width=1 pb=4,4,4,4 cb=def bottom=1 ; R 1 1 0 4 0 ; R 1 1 64 4 0 ; W 2 1 128 aabbccdd 1111 0 ; R 1 1 192 4 1 ; t ; t ; t ; t ; db 8 ; r 3 a1 ; r 2 a2 ; r 1 a3 ; t ; t ; t ; dt 8 ; r 0 a4 ; t ; t ; t ; t ; t ; dt 8", false},
	// capacity 1: second request waits
	{"c15 cap=1 width=4 pb=def cb=def bottom=1 ; R 1 1 0 4 0 ; R 1 1 64 4 0 ; t ; t ; db 8 ; r 0 a0 ; t ; t ; db 8 ; dt 8 ; r 0 a0 ; t ; t ; dt 8", false},
	// top port full: the response must wait, order kept
	{"c15 cap=4 width=2 pb=2,1,2,2 cb=def bottom=1 ; R 1 1 0 4 0 ; R 1 1 64 4 0 ; t ; db 8 ; r 1 a0 ; r 0 a0 ; t ; t ; t ; dt 1 ; t ; dt 1 ; t ; dt 1", false},
	// bottom port full: acceptance stalls
	{"c15 cap=4 width=2 pb=4,4,4,1 cb=def bottom=1 ; R 1 1 0 4 0 ; R 1 1 64 4 0 ; R 1 1 128 4 0 ; t ; t ; db 1 ; t ; db 1 ; t ; db 1 ; t", false},
	// flush with pending transactions, late responses after restart, later traffic served
	{"c15 cap=4 width=2 pb=def cb=def bottom=1 ; R 1 1 0 4 0 ; R 1 1 64 4 0 ; t ; db 8 ; r 1 a0 ; t ; F ; t ; dc ; r 0 a0 ; t ; S ; t ; dc ; rk 0 a0 ; R 2 1 256 4 0 ; t ; t ; db 8 ; r 1 a9 ; t ; t ; t ; dt 8", false},
	// control response cannot be sent: flush waits, pipeline keeps running
	{"c15 cap=4 width=1 pb=def cb=2,1 bottom=1 ; R 1 1 0 4 0 ; F ; t ; S ; t ; t ; dc ; t ; dc ; t ; R 1 1 64 4 0 ; t ; db 4 ; r 0 a0 ; r 0 a0 ; t ; t ; dt 4", false},
	// restart drops requests waiting in the Top port
	{"c15 cap=1 width=1 pb=def cb=def bottom=1 ; R 1 1 0 4 0 ; R 1 1 64 4 0 ; t ; F ; t ; dc ; S ; t ; dc ; t ; t ; db 4 ; R 1 1 128 4 0 ; t ; t ; db 4 ; r 1 a0 ; r 0 a0 ; t ; t ; dt 4", false},
	// duplicate response: the latest payload before retirement wins; mismatching kind is passed through
	{"c15 cap=2 width=1 pb=4,4,4,4 cb=def bottom=1 ; R 1 1 0 4 0 ; R 1 1 64 4 0 ; t ; t ; db 2 ; rk 1 d:01020304 ; rk 1 d:05060708 ; r 1 w ; t ; t ; t ; r 0 a0 ; t ; t ; t ; dt 4", false},
	// malformed: control message with neither flag; empty requester; no bottom unit
	{"c15 cap=2 width=1 pb=def cb=def bottom=1 ; N ; t ; t", false},
	{"c15 cap=2 width=1 pb=def cb=def bottom=1 ; R 0 1 0 4 0 ; t ; db 1 ; r 0 a0 ; t ; t ; t", false},
	{"c15 cap=2 width=1 pb=def cb=def bottom=0 ; R 1 1 0 4 0 ; t ; t", false},
	// hypothesis witnesses of Props/C15Hyp.lean replayed: zero requests per cycle, zero capacity, Top port
	// without outgoing buffer (answered, never retired), Bottom port without outgoing buffer
	{"c15 cap=2 width=0 pb=2,2,2,2 cb=def bottom=1 ; R 2 1 0 4 1 ; t ; t ; t ; db 1 ; dt 1", false},
	{"c15 cap=0 width=1 pb=2,2,2,2 cb=def bottom=1 ; R 2 1 0 4 1 ; t ; t ; t ; db 1 ; dt 1", false},
	{"c15 cap=2 width=1 pb=2,0,2,2 cb=def bottom=1 ; R 2 1 0 4 1 ; t ; db 1 ; r 0 d:01 ; t ; t ; t ; dt 1", false},
	{"c15 cap=2 width=1 pb=2,2,2,0 cb=def bottom=1 ; R 2 1 0 4 1 ; t ; t ; t ; db 1", false},
	// the builder's default port capacities at their boundaries (2*numReqPerCycle each way, Control 1/1):
	// third request refused by the Top port; third copy refused by the Bottom port (id consumed); third
	// answer refused by the Bottom port; third response waits for the Top port; second control message refused
	{"c15 cap=8 width=1 pb=def cb=def bottom=1 ; R 2 1 0 4 1 ; R 2 1 64 4 1 ; R 2 1 128 4 1 ; t ; t ; R 2 1 128 4 1 ; R 2 1 192 4 1 ; R 2 1 256 4 1 ; t ; t ; t ; db 8 ; t ; t ; db 8 ; r 0 a1 ; r 0 a2 ; r 0 a3 ; t ; t ; r 0 a3 ; r 0 a4 ; t ; t ; t ; t ; t ; dt 8 ; t ; t ; dt 8 ; F ; S ; t ; dc ; dc", false},
	// a lower level that answers twice (Props/C15Last.lean): with two stages per tick both answers are
	// consumed before the retirement and the later one is delivered; with one the first is delivered
	{"c15 cap=2 width=2 pb=2,2,2,2 cb=def bottom=1 ; R 2 1 0 4 1 ; t ; db 1 ; rk 0 d:01 ; r 0 d:02 ; t ; t ; dt 2", false},
	{"c15 cap=2 width=1 pb=2,2,2,2 cb=def bottom=1 ; R 2 1 0 4 1 ; t ; db 1 ; rk 0 d:01 ; r 0 d:02 ; t ; t ; t ; dt 2", false},
}

func runC15(r *Run, rng *Rng, replay string) {
	thorough := r.Tier == "thorough"
	// common.go's splitmix streams for seeds k and k+d are shifted copies of each
	// other (state = (seed+n)*golden+c) and re-synchronise after a few conditional
	// draws; re-seed from a mixed output so that different seeds give unrelated runs.
	rng = NewRng(rng.U64())
	for _, c := range c15Corpus {
		runC15Scenario(r, c.line, c.closed)
	}
	n := 6000
	if thorough {
		n = 120000
	}
	for i := 0; i < n; i++ {
		line, closed := genC15Scenario(rng, i%12 == 0)
		runC15Scenario(r, line, closed)
	}
	nl := 6000
	if thorough {
		nl = 120000
	}
	for i := 0; i < nl; i++ {
		c15Live(r, rng, i)
	}
}
