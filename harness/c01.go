package main

// Property C01 — simulated kernels compute what the host reference computes.
//
//  1. kernarg correspondence (c01_kernarg.go): argument marshalling of the driver vs the Lean model.
//  2. oracle-level sweep (this file): whole benchmarks on whole platforms through RunWorkloads,
//     oracle = the benchmark's own Verify(). These are oracle evaluations (r.Checked), NOT
//     correspondence cases — there is no Lean model of a whole workload and none is faked.

import (
	"fmt"
	"os"
	"sort"
	"strings"
	"time"
)

func init() { register("C01", runC01Sweep) }

// quick tier: small benchmarks, 2 sizes, emulation, one GPU, every shipped architecture.
var c01QuickBenches = []string{"fir", "vectoradd", "matrixtranspose", "simpleconvolution", "bitonicsort",
	"relu", "floydwarshall", "fastwalshtransform", "atax", "nw"}

type gpuSet struct {
	ids     []int
	unified bool
}

var c01GPUSets = []gpuSet{{[]int{1}, false}, {[]int{1, 2}, false}, {[]int{1, 2, 3, 4}, false},
	{[]int{1, 2}, true}, {[]int{1, 2, 3, 4}, true}}

func c01Specs(tier string, seed int64) []WorkloadSpec {
	var specs []WorkloadSpec
	if tier != "thorough" {
		// every benchmark, its two quick sizes, every shipped architecture, emulation, one GPU
		for _, b := range BenchNames() {
			for _, a := range BenchArchs(b) {
				for _, p := range AdmissibleSizes(b, "quick") {
					specs = append(specs, WorkloadSpec{Bench: b, Params: p, Arch: a, GPUs: []int{1}, Seed: seed})
				}
			}
		}
		// a few multi-GPU / unified / timing representatives at the default size
		for _, b := range c01QuickBenches {
			a := BenchArchs(b)[0]
			if SupportsGPUs(b, 2, true) {
				if sz := AdmissibleSizesFor(b, "quick", 2, true); len(sz) > 0 {
					specs = append(specs, WorkloadSpec{Bench: b, Params: sz[0], Arch: a, GPUs: []int{1, 2}, UnifiedGPU: true, Seed: seed})
				}
			}
			if SupportsGPUs(b, 2, false) && a == "gcn3" && b != "fastwalshtransform" {
				if sz := AdmissibleSizesFor(b, "quick", 2, false); len(sz) > 0 {
					specs = append(specs, WorkloadSpec{Bench: b, Params: sz[0], Arch: a, GPUs: []int{1, 2}, Seed: seed})
				}
			}
		}
		for _, b := range []string{"fir", "matrixtranspose", "relu", "vectoradd"} {
			specs = append(specs, WorkloadSpec{Bench: b, Params: DefaultParams(b), Arch: BenchArchs(b)[0], Timing: true, GPUType: "r9nano", GPUs: []int{1}, Seed: seed})
		}
		// relu splits Length / #GPUs work-items per queue: a length the GPU count does not divide (relu_split_covers)
		specs = append(specs, WorkloadSpec{Bench: "relu", Params: P{"length": 101}, Arch: "gcn3", GPUs: []int{1, 2}, Seed: seed})
		return specs
	}
	for _, a := range []string{"gcn3", "cdna3"} {
		specs = append(specs, WorkloadSpec{Bench: "relu", Params: P{"length": 101}, Arch: a, GPUs: []int{1, 2}, Seed: seed},
			WorkloadSpec{Bench: "relu", Params: P{"length": 102}, Arch: a, GPUs: []int{1, 2, 3, 4}, Seed: seed})
	}
	// thorough: emulation, every benchmark × admissible sizes × arch × GPU sets
	for _, b := range BenchNames() {
		for _, a := range BenchArchs(b) {
			for _, gs := range c01GPUSets {
				if !SupportsGPUs(b, len(gs.ids), gs.unified) {
					continue
				}
				sizes := AdmissibleSizesFor(b, "thorough", len(gs.ids), gs.unified)
				if len(gs.ids) > 1 && len(sizes) > 2 {
					sizes = sizes[:2] // multi-GPU: the two smallest admissible sizes
				}
				for _, p := range sizes {
					specs = append(specs, WorkloadSpec{Bench: b, Params: p, Arch: a, GPUs: gs.ids, UnifiedGPU: gs.unified, Seed: seed})
				}
			}
		}
	}
	// thorough: the acceptance matrix's classes that the emulation block above does not already
	// contain (timing; unified memory), smallest admissible size, serial engine.
	for _, b := range BenchNames() {
		for _, c := range AcceptanceClasses(b) {
			if !c.Timing && !c.UnifiedMem {
				continue
			}
			sizes := AdmissibleSizesFor(b, "quick", len(c.GPUs), c.UnifiedGPU)
			if len(sizes) == 0 {
				continue
			}
			specs = append(specs, WorkloadSpec{Bench: b, Params: sizes[0], Arch: c.Arch, Timing: c.Timing, GPUType: c.GPUType,
				GPUs: c.GPUs, UnifiedGPU: c.UnifiedGPU, UnifiedMem: c.UnifiedMem, Seed: seed})
		}
	}
	// one parallel-engine representative per mode
	specs = append(specs,
		WorkloadSpec{Bench: "fir", Params: DefaultParams("fir"), Arch: "gcn3", GPUs: []int{1, 2}, Parallel: true, Seed: seed},
		WorkloadSpec{Bench: "fir", Params: DefaultParams("fir"), Arch: "gcn3", Timing: true, GPUType: "r9nano", GPUs: []int{1}, Parallel: true, Seed: seed})
	return specs
}

func c01ReplayCmd(s WorkloadSpec) string {
	return fmt.Sprintf("harness/bin/harness child wl %s %s %s %s seed=%d", s.Bench, s.Arch, s.Mode(), strings.ReplaceAll(" "+paramString(s.Params), " -", " ")[1:], s.Seed)
}

func runC01Sweep(r *Run, rng *Rng, replay string) {
	WorkloadDir = r.OutDir
	must(os.MkdirAll(r.OutDir, 0o755))
	specs := c01Specs(r.Tier, int64(r.Seed))
	if f := os.Getenv("C01_ONLY"); f != "" { // developer filter: substring of the spec line
		var keep []WorkloadSpec
		for _, s := range specs {
			if strings.Contains(s.String(), f) {
				keep = append(keep, s)
			}
		}
		specs = keep
	}
	timeout := 60 * time.Second
	par := 14
	if r.Tier == "thorough" {
		timeout = 120 * time.Second
	}
	// long runs first so that the tail of the sweep is short
	sort.SliceStable(specs, func(i, j int) bool { return c01Weight(specs[i]) > c01Weight(specs[j]) })
	start := time.Now()
	results := RunWorkloads(specs, par, timeout)
	r.Note("C01 sweep: %d workload runs in %.1fs wall (%d children in parallel)", len(specs), time.Since(start).Seconds(), par)

	var slow []string
	for _, res := range results {
		s := res.Spec
		kind := "emu"
		if s.Timing {
			kind = "timing"
		}
		r.Checked("verify." + kind)
		r.Count("workload:" + s.Bench)
		r.Count("arch:" + s.Arch)
		r.Count("mode:" + strings.SplitN(s.Mode(), ".", 2)[0] + "." + gpuSetName(s))
		if res.WallMs > 60000 {
			slow = append(slow, fmt.Sprintf("%s %dms", s.String(), res.WallMs))
		}
		sig := fmt.Sprintf("C01.verify.%s.%s.%s", s.Bench, s.Arch, s.Mode())
		switch {
		case res.Fault != "":
			r.Failf(sig, s.String(), "workload did not finish: fault=%s stage=%s site=%s msg=%q replay: %s log: %s",
				res.Fault, res.Stage, crashSite(res.Log), res.VerifyMsg, c01ReplayCmd(s), oneLine(res.Log, 500))
		case !res.VerifyOK:
			r.Failf(sig, s.String(), "Verify() failed: %q replay: %s log: %s", res.VerifyMsg, c01ReplayCmd(s), oneLine(res.Log, 300))
		default:
			r.Count("verified")
		}
	}
	if len(slow) > 0 {
		r.Note("slow runs: %s", strings.Join(slow, "; "))
	}
}

// crashSite names the first simulator function on the stack of a crash report ("-" if none).
func crashSite(log string) string {
	i := strings.Index(log, "\npanic(")
	if i < 0 {
		return "-"
	}
	for _, ln := range strings.Split(log[i:], "\n") {
		if j := strings.Index(ln, "github.com/sarchlab/mgpusim/v4/"); j >= 0 && !strings.Contains(ln, "runEngine") {
			f := ln[j+len("github.com/sarchlab/mgpusim/v4/"):]
			if k := strings.LastIndex(f, "("); k > 0 {
				f = f[:k]
			}
			return f
		}
	}
	return "-"
}

func gpuSetName(s WorkloadSpec) string {
	n := fmt.Sprintf("g%d", len(s.GPUs))
	if s.UnifiedGPU {
		n += "u"
	}
	if s.UnifiedMem {
		n += "m"
	}
	if s.Parallel {
		n += "p"
	}
	return n
}

func c01Weight(s WorkloadSpec) int {
	w := 1
	if s.Timing {
		w = 20 * len(s.GPUs)
	}
	if s.Parallel {
		w *= 5
	}
	for _, v := range s.Params {
		if v > 512 {
			w *= 2
		}
	}
	return w
}

func oneLine(s string, n int) string {
	s = strings.Join(strings.Fields(s), " ")
	if len(s) > n {
		s = s[:n/2] + " … " + s[len(s)-n/2:]
	}
	return s
}
