package main

// C02 (second deepening) — the L1 cache behaviour the kernel-boundary theorems rest on, on the REAL
// Akita write-around cache (mem/cache/writearound, the L1V cache of every compute unit of the timing
// platforms; built by its Builder, no engine, ticked by hand): read hit → cached data, read miss → the
// whole line is fetched from the level below, write → always to the level below and into the line when
// it is cached, cache.FlushReq → every line dropped (`hardResetCache`: directory.Reset()).
//
//	c02 l1 cache n=<caches> seed=<n> ; op ; op …
//	  r<c>.<addr>       4-byte read through cache c        → the value (hex)
//	  w<c>.<addr>.<v>   4-byte write through cache c       → ok
//	  k<c>              cache.FlushReq (invalidate) to cache c's control port → ok
//
// The level below is one memory played by the harness (pattern `c02dMemByte(seed, ·)` + writes). One
// operation at a time (the harness ticks until the answer is there): the model `C02.L1.l1Read/l1Write`
// is sequential. Oracle C02.l1-stale-after-invalidate: a read through a cache that was flushed after the
// last foreign write to the line must return the memory content (what `serial_kernels_read_flat_memory`
// needs from the cache); counted: reads that return stale data without a flush in between (the
// incoherence the kernel-start invalidation exists for).

import (
	"encoding/binary"
	"fmt"
	"strings"

	"github.com/sarchlab/akita/v4/mem/cache"
	"github.com/sarchlab/akita/v4/mem/cache/writearound"
	"github.com/sarchlab/akita/v4/mem/mem"
	"github.com/sarchlab/akita/v4/sim"
)

func init() { register("C02", runC02L1c) }

type c02lcEnv struct {
	seed   uint64
	over   map[uint64]byte
	caches []*writearound.Comp
	top    []sim.Port
	bot    []sim.Port
	ctl    []sim.Port
	agent  sim.Port // the harness as requester / memory / command processor
	// oracle state per cache and line: was a foreign write made since this cache last (re)fetched or was reset?
	cached map[int]map[uint64]bool // cache -> line -> holds a copy
	stale  map[int]map[uint64]bool // cache -> line -> the copy misses a foreign write
}

func (e *c02lcEnv) at(a uint64) byte {
	if v, ok := e.over[a]; ok {
		return v
	}
	return c02dMemByte(e.seed, a)
}

func c02lcNew(n int, seed uint64) *c02lcEnv {
	e := &c02lcEnv{seed: seed, over: map[uint64]byte{}, cached: map[int]map[uint64]bool{}, stale: map[int]map[uint64]bool{}}
	e.agent = sim.NewPort(nil, 64, 64, "C02L1.Agent")
	for i := 0; i < n; i++ {
		c := writearound.MakeBuilder().WithEngine(&fakeEngine{}).WithFreq(1 * sim.GHz).
			WithLog2BlockSize(6).WithTotalByteSize(16 * 1024).WithWayAssociativity(4).WithNumBanks(1).
			WithAddressToPortMapper(&mem.SinglePortMapper{Port: e.agent.AsRemote()}).
			Build(fmt.Sprintf("L1V%d", i))
		conn := &fakeConn{name: "c02l1c"}
		t, b, k := c.GetPortByName("Top"), c.GetPortByName("Bottom"), c.GetPortByName("Control")
		for _, p := range []sim.Port{t, b, k} {
			conn.PlugIn(p)
		}
		e.caches = append(e.caches, c)
		e.top, e.bot, e.ctl = append(e.top, t), append(e.bot, b), append(e.ctl, k)
		e.cached[i], e.stale[i] = map[uint64]bool{}, map[uint64]bool{}
	}
	return e
}

// serveBottom answers what cache c sent to the level below.
func (e *c02lcEnv) serveBottom(c int) {
	for {
		m := e.bot[c].RetrieveOutgoing()
		if m == nil {
			return
		}
		switch q := m.(type) {
		case *mem.ReadReq:
			data := make([]byte, q.AccessByteSize)
			for k := range data {
				data[k] = e.at(q.Address + uint64(k))
			}
			rsp := mem.DataReadyRspBuilder{}.WithSrc(e.agent.AsRemote()).WithDst(e.bot[c].AsRemote()).WithRspTo(q.ID).WithData(data).Build()
			if err := e.bot[c].Deliver(rsp); err != nil {
				panic("bottom port refuses the data")
			}
		case *mem.WriteReq:
			for k, b := range q.Data {
				if q.DirtyMask == nil || q.DirtyMask[k] {
					e.over[q.Address+uint64(k)] = b
				}
			}
			rsp := mem.WriteDoneRspBuilder{}.WithSrc(e.agent.AsRemote()).WithDst(e.bot[c].AsRemote()).WithRspTo(q.ID).Build()
			if err := e.bot[c].Deliver(rsp); err != nil {
				panic("bottom port refuses the write acknowledgement")
			}
		}
	}
}

// until ticks cache c (and plays the memory) until `got` finds its answer.
func (e *c02lcEnv) until(c int, got func() bool) bool {
	for k := 0; k < 400; k++ {
		e.caches[c].Tick()
		e.serveBottom(c)
		if got() {
			// let the cache settle (bank write of a fill, transaction clean-up)
			for j := 0; j < 12; j++ {
				e.caches[c].Tick()
				e.serveBottom(c)
			}
			return true
		}
	}
	return false
}

func (e *c02lcEnv) do(r *Run, line func() string, op string) string {
	var c int
	var a, v uint64
	switch {
	case strings.HasPrefix(op, "r"):
		fmt.Sscanf(op[1:], "%d.%x", &c, &a)
		q := mem.ReadReqBuilder{}.WithSrc(e.agent.AsRemote()).WithDst(e.top[c].AsRemote()).WithAddress(a).WithByteSize(4).WithPID(1).Build()
		if err := e.top[c].Deliver(q); err != nil {
			return "rej"
		}
		var val uint32
		ok := e.until(c, func() bool {
			m := e.top[c].RetrieveOutgoing()
			if d, isD := m.(*mem.DataReadyRsp); isD {
				val = binary.LittleEndian.Uint32(d.Data)
				return true
			}
			return false
		})
		if !ok {
			return "hang"
		}
		ln := a / 64 * 64
		want := uint32(e.at(a)) | uint32(e.at(a+1))<<8 | uint32(e.at(a+2))<<16 | uint32(e.at(a+3))<<24
		if e.cached[c][ln] && e.stale[c][ln] {
			r.Count("l1c:read-of-a-line-with-a-foreign-write-since-fill")
			if val != want {
				r.Count("l1c:stale-read-without-invalidate")
			}
		} else {
			r.Checked("l1-read-coherent")
			if val != want {
				r.Failf("C02.l1-stale-after-invalidate", line(), "cache %d read %x: got %x, memory holds %x (no foreign write to the line since it was fetched / the cache was reset)", c, a, val, want)
			}
		}
		if !e.cached[c][ln] {
			e.cached[c][ln], e.stale[c][ln] = true, false
		}
		return fmt.Sprintf("%x", val)
	case strings.HasPrefix(op, "w"):
		fmt.Sscanf(op[1:], "%d.%x.%x", &c, &a, &v)
		d := make([]byte, 4)
		binary.LittleEndian.PutUint32(d, uint32(v))
		q := mem.WriteReqBuilder{}.WithSrc(e.agent.AsRemote()).WithDst(e.top[c].AsRemote()).WithAddress(a).WithData(d).WithPID(1).Build()
		if err := e.top[c].Deliver(q); err != nil {
			return "rej"
		}
		ok := e.until(c, func() bool {
			_, isW := e.top[c].RetrieveOutgoing().(*mem.WriteDoneRsp)
			return isW
		})
		if !ok {
			return "hang"
		}
		ln := a / 64 * 64
		for o := range e.caches {
			if o != c && e.cached[o][ln] {
				e.stale[o][ln] = true
			}
		}
		return "ok"
	case strings.HasPrefix(op, "k"):
		fmt.Sscanf(op[1:], "%d", &c)
		q := cache.FlushReqBuilder{}.WithSrc(e.agent.AsRemote()).WithDst(e.ctl[c].AsRemote()).InvalidateAllCacheLines().Build()
		if err := e.ctl[c].Deliver(q); err != nil {
			return "rej"
		}
		ok := e.until(c, func() bool {
			_, isF := e.ctl[c].RetrieveOutgoing().(*cache.FlushRsp)
			return isF
		})
		if !ok {
			return "hang"
		}
		e.cached[c], e.stale[c] = map[uint64]bool{}, map[uint64]bool{}
		return "ok"
	}
	return "bad"
}

func c02lcScenario(r *Run, n int, seed uint64, ops []string) {
	e := c02lcNew(n, seed)
	all := []string{fmt.Sprintf("c02 l1 cache n=%d seed=%d", n, seed)}
	var out []string
	for _, op := range ops {
		all = append(all, op)
		var o string
		if f := catch(func() { o = e.do(r, func() string { return strings.Join(all, " ; ") }, op) }); f != "" {
			o = "fault:" + f
		}
		out = append(out, o)
		if o == "hang" || strings.HasPrefix(o, "fault") {
			r.Failf("C02.l1-cache-harness", strings.Join(all, " ; "), "operation %s: %s", op, o)
			return
		}
	}
	r.Case(strings.Join(all, " ; "), strings.Join(out, " "))
}

func runC02L1c(r *Run, rng *Rng, replay string) {
	// the false-sharing witness of `stale_l1_before_fix`: cache 0 reads 0x1000 (fills the line), cache 1
	// writes 0x1004, cache 0 reads 0x1004 (stale), is flushed, reads again (fresh)
	c02lcScenario(r, 2, 7, strings.Split("r0.1000 w1.1004.7 r0.1004 k0 r0.1004", " "))
	// write hit updates the own line, write miss does not allocate
	c02lcScenario(r, 2, 7, strings.Split("r0.1000 w0.1004.aa r0.1004 w1.1040.bb r1.1040 r0.1040", " "))
	n := 60
	if r.Tier == "thorough" {
		n = 1500
	}
	for k := 0; k < n; k++ {
		nc := rng.Range(2, 3)
		var ops []string
		for len(ops) < rng.Range(6, 30) {
			c := rng.Intn(nc)
			a := 0x1000 + uint64(rng.Intn(4))*64 + uint64(rng.Intn(4))*4
			switch x := rng.Intn(100); {
			case x < 50:
				ops = append(ops, fmt.Sprintf("r%d.%x", c, a))
			case x < 85:
				ops = append(ops, fmt.Sprintf("w%d.%x.%x", c, a, rng.U64()&0xffffffff))
			default:
				ops = append(ops, fmt.Sprintf("k%d", c))
			}
		}
		c02lcScenario(r, nc, uint64(rng.Intn(1000)), ops)
	}
}
