package main

import (
	"encoding/binary"
	"encoding/hex"
	"fmt"
	"io"
	"log"
	"os"
	"strconv"
	"strings"

	"github.com/sarchlab/mgpusim/v4/amd/emu"
	"github.com/sarchlab/mgpusim/v4/amd/insts"
	"github.com/sarchlab/mgpusim/v4/amd/kernels"
	"github.com/sarchlab/mgpusim/v4/amd/timing/cu"
	"github.com/sarchlab/mgpusim/v4/amd/timing/wavefront"
)

// Property C07: architectural registers are independent cells with ISA-defined
// aliasing; the register stores of emulation and timing mode agree.
//
// One case line = one scenario on real register stores:
//
//	c07 emu fill=<n> ; op ; op ; …
//	    a real emu.Wavefront whose SRegFile/VRegFile are filled with the
//	    pseudo-random byte stream <n> (0 = leave zero)
//	c07 tim fill=<n> nsimd=<k> wf=<simd>:<soff>:<voff>:<ns>:<nv>,… ; op ; …
//	    a real cu.ComputeUnit with real SimpleRegisterFiles (SGPR 3200 regs,
//	    VGPR 16384 regs per SIMD, lane stride 1024) and real timing wavefronts
//	    with a real CURegFileAccessor at the given byte offsets; ns/nv = the
//	    code object's WFSgprCount/WIVgprCount
//
// ops (W = wavefront index, REG = insts.RegType number, RC = Operand.RegCount):
//
//	set W <vcc> <exec> <scc> <m0>      preset the special registers (hex)
//	r  W REG RC LANE                   ReadOperand        -> hex value
//	w  W REG RC LANE <hex64>           WriteOperand       -> ok
//	rb W REG RC LANE <n>               ReadOperandBytes   -> hex bytes
//	wb W REG RC LANE <hexbytes|->      WriteOperandBytes  -> ok
//	ci W <int> / cl W <hex32>          ReadOperand of an integer / literal operand
//	rel W                              resetRegisterValue (timing only)
//	dig                                FNV digest of every byte of every store
//
// a panic is reported as fault:bounds | fault:unsupported | fault:nonreg | fault:other.
func init() { register("C07", runC07) }

const (
	c07SFileBytes = 3200 * 4
	c07VFileBytes = 16384 * 4
)

// ---------------------------------------------------------------- the flat spec (oracle)

// c07Cells is the flat array-of-cells view of one wavefront's architectural
// registers. It is maintained by the harness from the ISA reading of each
// access and never looks at the Lean model or at the byte layout of a store.
type c07Cells struct {
	s     [102]uint32
	v     [64][256]uint32
	vccLo uint32
	vccHi uint32
	exLo  uint32
	exHi  uint32
	scc   byte
	m0    uint32
	ns    int // registers this wavefront owns (emu: 102 / 256)
	nv    int
}

type c07Acc struct {
	reg  insts.RegType
	rc   int
	lane int
}

func c07KindName(t insts.RegType) string {
	switch {
	case t >= insts.S0 && t <= insts.S101:
		return "sgpr"
	case t >= insts.V0 && t <= insts.V255:
		return "vgpr"
	}
	if r, ok := insts.Regs[t]; ok {
		return r.Name
	}
	return "none"
}

// cellsOf returns the cells an access denotes under the ISA reading, or ok=false when the
// access lies outside the supported subset (see notes/C07.md): register kinds the stores do
// not implement, register counts that make no sense for the kind, registers outside the
// wavefront's allocation, lanes >= 64.
func (c *c07Cells) cellsOf(a c07Acc) (cells []*uint32, isSCC bool, ok bool) {
	k := a.rc
	if k == 0 {
		k = 1
	}
	switch k {
	case 1, 2, 3, 4, 8, 16:
	default:
		return nil, false, false
	}
	t := a.reg
	switch {
	case t >= insts.S0 && t <= insts.S101:
		i := int(t - insts.S0)
		if i+k > c.ns || i+k > 102 {
			return nil, false, false
		}
		for j := 0; j < k; j++ {
			cells = append(cells, &c.s[i+j])
		}
		return cells, false, true
	case t >= insts.V0 && t <= insts.V255:
		i := int(t - insts.V0)
		if i+k > c.nv || i+k > 256 || a.lane < 0 || a.lane >= 64 {
			return nil, false, false
		}
		for j := 0; j < k; j++ {
			cells = append(cells, &c.v[a.lane][i+j])
		}
		return cells, false, true
	}
	switch t {
	case insts.SCC:
		return nil, true, k == 1
	case insts.M0:
		return []*uint32{&c.m0}, false, k == 1
	case insts.VCC:
		return []*uint32{&c.vccLo, &c.vccHi}, false, k == 1
	case insts.EXEC:
		return []*uint32{&c.exLo, &c.exHi}, false, k == 1
	case insts.VCCLO:
		if k == 2 {
			return []*uint32{&c.vccLo, &c.vccHi}, false, true
		}
		return []*uint32{&c.vccLo}, false, k == 1
	case insts.EXECLO:
		if k == 2 {
			return []*uint32{&c.exLo, &c.exHi}, false, true
		}
		return []*uint32{&c.exLo}, false, k == 1
	case insts.VCCHI:
		return []*uint32{&c.vccHi}, false, k == 1
	case insts.EXECHI:
		return []*uint32{&c.exHi}, false, k == 1
	}
	return nil, false, false
}

// expect computes the spec answer of an op and applies its effect to the cells.
// ok=false: the op is outside the supported subset (no expectation).
func (c *c07Cells) expect(f []string) (ans string, ok bool) {
	if len(f) < 5 {
		return "", false
	}
	reg, _ := strconv.Atoi(f[2])
	rc, _ := strconv.Atoi(f[3])
	lane, _ := strconv.Atoi(f[4])
	cells, isSCC, ok := c.cellsOf(c07Acc{insts.RegType(reg), rc, lane})
	if !ok {
		return "", false
	}
	switch f[0] {
	case "r":
		if isSCC {
			return fmt.Sprintf("%x", uint64(c.scc)), true
		}
		v := uint64(*cells[0])
		if len(cells) > 1 {
			v |= uint64(*cells[1]) << 32
		}
		return fmt.Sprintf("%x", v), true
	case "rb":
		n, _ := strconv.Atoi(f[5])
		var b []byte
		if isSCC {
			b = []byte{c.scc}
		} else {
			for _, p := range cells {
				b = binary.LittleEndian.AppendUint32(b, *p)
			}
		}
		if n < 0 {
			return "", false
		}
		if len(b) > n {
			b = b[:n]
		}
		return c07Hex(b), true
	case "w":
		v, _ := strconv.ParseUint(f[5], 16, 64)
		if isSCC {
			c.scc = byte(v)
			return "ok", true
		}
		if len(cells) > 2 {
			return "", false // a 64-bit value cannot carry more than two registers
		}
		*cells[0] = uint32(v)
		if len(cells) == 2 {
			*cells[1] = uint32(v >> 32)
		}
		return "ok", true
	case "wb":
		data := c07Unhex(f[5])
		if isSCC {
			if len(data) != 1 {
				return "", false
			}
			c.scc = data[0]
			return "ok", true
		}
		if len(data) != 4*len(cells) {
			return "", false
		}
		for j, p := range cells {
			*p = binary.LittleEndian.Uint32(data[4*j:])
		}
		return "ok", true
	}
	return "", false
}

func c07Hex(b []byte) string {
	if len(b) == 0 {
		return "-"
	}
	return hex.EncodeToString(b)
}

func c07Unhex(s string) []byte {
	if s == "-" {
		return make([]byte, 0)
	}
	b, _ := hex.DecodeString(s)
	out := make([]byte, len(b)) // exact capacity: slicing beyond len must fault
	copy(out, b)
	return out
}

// ---------------------------------------------------------------- fill stream and digest

// c07Fill writes the pseudo-random byte stream (seed, file id) into b. The Lean
// model implements the same generator.
func c07Fill(b []byte, seed uint64, fid int) {
	if seed == 0 {
		return
	}
	x := uint32(seed)*2654435761 + uint32(fid)*40503 + 12345
	for i := range b {
		x = x*1664525 + 1013904223
		b[i] = byte(x >> 16)
	}
}

func c07Fnv(h uint64, b []byte) uint64 {
	for _, x := range b {
		h = (h ^ uint64(x)) * 1099511628211
	}
	return h
}

func c07SpecialBytes(vcc, exec uint64, scc byte, m0 uint32) []byte {
	b := make([]byte, 0, 21)
	b = binary.LittleEndian.AppendUint64(b, vcc)
	b = binary.LittleEndian.AppendUint64(b, exec)
	b = append(b, scc)
	b = binary.LittleEndian.AppendUint32(b, m0)
	return b
}

// ---------------------------------------------------------------- the two real stores

// c07Wf is what both wavefront types offer.
type c07Wf interface {
	ReadOperand(operand *insts.Operand, laneID int) uint64
	WriteOperand(operand *insts.Operand, laneID int, value uint64)
	ReadOperandBytes(operand *insts.Operand, laneID int, byteCount int) []byte
	WriteOperandBytes(operand *insts.Operand, laneID int, data []byte)
	VCC() uint64
	SetVCC(uint64)
	EXEC() uint64
	SetEXEC(uint64)
	SCC() byte
	SetSCC(byte)
}

func c07Classify(e interface{}) string {
	s := fmt.Sprint(e)
	switch {
	case strings.Contains(s, "out of range"):
		return "fault:bounds"
	case strings.Contains(s, "not supported"):
		return "fault:unsupported"
	case strings.Contains(s, "non-register"):
		return "fault:nonreg"
	case strings.Contains(s, "nil pointer"):
		return "fault:nil"
	}
	return "fault:other"
}

func c07Catch(f func() string) (out string) {
	defer func() {
		if e := recover(); e != nil {
			out = c07Classify(e)
		}
	}()
	return f()
}

func c07Operand(reg, rc int) *insts.Operand {
	r, ok := insts.Regs[insts.RegType(reg)]
	if !ok {
		return nil
	}
	return &insts.Operand{OperandType: insts.RegOperand, Register: r, RegCount: rc}
}

// c07Access runs one r/w/rb/wb/ci/cl op on a real wavefront.
func c07Access(wf c07Wf, f []string) string {
	switch f[0] {
	case "ci":
		v, _ := strconv.ParseInt(f[2], 10, 64)
		o := insts.NewIntOperand(0, v)
		return c07Catch(func() string { return fmt.Sprintf("%x", wf.ReadOperand(o, 0)) })
	case "cl":
		v, _ := strconv.ParseUint(f[2], 16, 32)
		o := &insts.Operand{OperandType: insts.LiteralConstant, LiteralConstant: uint32(v)}
		return c07Catch(func() string { return fmt.Sprintf("%x", wf.ReadOperand(o, 0)) })
	case "cw":
		v, _ := strconv.ParseInt(f[2], 10, 64)
		o := insts.NewIntOperand(0, v)
		return c07Catch(func() string { wf.WriteOperand(o, 0, 1); return "ok" })
	}
	reg, _ := strconv.Atoi(f[2])
	rc, _ := strconv.Atoi(f[3])
	lane, _ := strconv.Atoi(f[4])
	o := c07Operand(reg, rc)
	if o == nil {
		return "fault:noreg"
	}
	switch f[0] {
	case "r":
		return c07Catch(func() string { return fmt.Sprintf("%x", wf.ReadOperand(o, lane)) })
	case "w":
		v, _ := strconv.ParseUint(f[5], 16, 64)
		return c07Catch(func() string { wf.WriteOperand(o, lane, v); return "ok" })
	case "rb":
		n, _ := strconv.Atoi(f[5])
		return c07Catch(func() string { return c07Hex(wf.ReadOperandBytes(o, lane, n)) })
	case "wb":
		d := c07Unhex(f[5])
		return c07Catch(func() string { wf.WriteOperandBytes(o, lane, d); return "ok" })
	}
	return "bad"
}

type c07TimWf struct {
	wf                   *wavefront.Wavefront
	simd, soff, voff     int
	ns, nv               int
	shadow               *emu.Wavefront // same ops on the emulator's store (valid scenarios)
	cells                *c07Cells
	broken               bool
}

// ---------------------------------------------------------------- scenario execution

type c07Scn struct {
	r     *Run
	line  string
	kind  string // valid | wild | enum
	isEmu bool
	ewf   *emu.Wavefront
	ecell *c07Cells
	cu    *cu.ComputeUnit
	files [][]byte // timing: sfile, vfile0, vfile1…
	tw    []*c07TimWf
	out   []string
	ext   *c07Ext // state of the ops of c07_disp.go
}

func c07KV(f []string, k string) string {
	for _, t := range f {
		if strings.HasPrefix(t, k+"=") {
			return t[len(k)+1:]
		}
	}
	return ""
}

func (c *c07Cells) loadEmu(wf *emu.Wavefront) {
	for i := 0; i < 102; i++ {
		c.s[i] = binary.LittleEndian.Uint32(wf.SRegFile[4*i:])
	}
	for l := 0; l < 64; l++ {
		for i := 0; i < 256; i++ {
			c.v[l][i] = binary.LittleEndian.Uint32(wf.VRegFile[l*1024+4*i:])
		}
	}
}

func runC07Scenario(r *Run, ops []string, kind string) {
	hdr := strings.Fields(ops[0])
	if len(hdr) < 2 || hdr[0] != "c07" {
		return
	}
	sc := &c07Scn{r: r, line: strings.Join(ops, " ; "), kind: kind}
	fill, _ := strconv.ParseUint(c07KV(hdr, "fill"), 10, 64)
	switch hdr[1] {
	case "emu":
		sc.isEmu = true
		sc.ewf = emu.NewWavefront(kernels.NewWavefront())
		c07Fill(sc.ewf.SRegFile, fill, 0)
		c07Fill(sc.ewf.VRegFile, fill, 1)
		sc.ecell = &c07Cells{ns: 102, nv: 256}
		sc.ecell.loadEmu(sc.ewf)
	case "tim":
		nsimd, _ := strconv.Atoi(c07KV(hdr, "nsimd"))
		if nsimd < 1 || nsimd > 4 {
			return
		}
		c := &cu.ComputeUnit{}
		if c07KV(hdr, "cu") == "full" { // a compute unit from the real builder (c07_disp.go: scalar unit, ports)
			c = c07FullCU()
		}
		sf := cu.NewSimpleRegisterFile(c07SFileBytes, 0)
		c.SRegFile = sf
		sc.files = append(sc.files, sf.VerifStorage())
		for i := 0; i < nsimd; i++ {
			vf := cu.NewSimpleRegisterFile(c07VFileBytes, 1024)
			c.VRegFile = append(c.VRegFile, vf)
			sc.files = append(sc.files, vf.VerifStorage())
		}
		for i, b := range sc.files {
			c07Fill(b, fill, i)
		}
		sc.cu = c
		for _, ws := range strings.Split(c07KV(hdr, "wf"), ",") {
			p := strings.Split(ws, ":")
			if len(p) != 5 {
				return
			}
			n := make([]int, 5)
			for i := range p {
				n[i], _ = strconv.Atoi(p[i])
			}
			if n[0] < 0 || n[0] >= nsimd {
				return
			}
			kw := kernels.NewWavefront()
			kw.CodeObject = &insts.KernelCodeObject{KernelCodeObjectMeta: &insts.KernelCodeObjectMeta{
				WFSgprCount: uint16(n[3]), WIVgprCount: uint16(n[4])}}
			twf := wavefront.NewWavefront(kw)
			twf.SIMDID, twf.SRegOffset, twf.VRegOffset = n[0], n[1], n[2]
			twf.RegAccessor = &cu.CURegFileAccessor{CU: c, WF: twf}
			t := &c07TimWf{wf: twf, simd: n[0], soff: n[1], voff: n[2], ns: n[3], nv: n[4]}
			sc.tw = append(sc.tw, t)
		}
		if kind != "wild" {
			for _, t := range sc.tw {
				t.initShadow(sc)
			}
		}
	default:
		return
	}
	for _, o := range ops[1:] {
		sc.op(strings.Fields(o))
	}
	sc.finish()
	r.Case(sc.line, strings.Join(sc.out, " "))
	r.Count("scenario." + hdr[1] + "." + kind)
	r.CountN("ops", len(ops)-1)
}

// initShadow gives the wavefront flat cells and a shadow emulator store, both loaded from the
// wavefront's window of the real register files.
func (t *c07TimWf) initShadow(sc *c07Scn) {
	t.cells = &c07Cells{ns: min(t.ns, 102), nv: min(t.nv, 256)}
	t.shadow = emu.NewWavefront(kernels.NewWavefront())
	t.load(sc)
}

// load (re)reads the flat cells from the real store by plain byte reads (offset arithmetic done
// here, independently of the accessor) and copies them into the shadow emulator store.
func (t *c07TimWf) load(sc *c07Scn) {
	for i := range t.shadow.SRegFile {
		t.shadow.SRegFile[i] = 0
	}
	for i := range t.shadow.VRegFile {
		t.shadow.VRegFile[i] = 0
	}
	sfile, vfile := sc.files[0], sc.files[1+t.simd]
	for i := 0; i < t.cells.ns; i++ {
		p := t.soff + 4*i
		if p+4 > len(sfile) {
			t.broken = true
			return
		}
		t.cells.s[i] = binary.LittleEndian.Uint32(sfile[p:])
		binary.LittleEndian.PutUint32(t.shadow.SRegFile[4*i:], t.cells.s[i])
	}
	for l := 0; l < 64; l++ {
		for i := 0; i < t.cells.nv; i++ {
			p := t.voff + l*1024 + 4*i
			if p+4 > len(vfile) {
				t.broken = true
				return
			}
			t.cells.v[l][i] = binary.LittleEndian.Uint32(vfile[p:])
			binary.LittleEndian.PutUint32(t.shadow.VRegFile[l*1024+4*i:], t.cells.v[l][i])
		}
	}
	c := t.cells
	vcc, exec := t.wf.VCC(), t.wf.EXEC()
	c.vccLo, c.vccHi, c.exLo, c.exHi, c.scc, c.m0 = uint32(vcc), uint32(vcc>>32), uint32(exec), uint32(exec>>32), t.wf.SCC(), t.wf.M0
	t.shadow.SetVCC(vcc)
	t.shadow.SetEXEC(exec)
	t.shadow.SetSCC(c.scc)
	t.shadow.M0 = c.m0
}

func (c *c07Cells) loadEmuAll(wf *emu.Wavefront) {
	c.loadEmu(wf)
	vcc, exec := wf.VCC(), wf.EXEC()
	c.vccLo, c.vccHi, c.exLo, c.exHi, c.scc, c.m0 = uint32(vcc), uint32(vcc>>32), uint32(exec), uint32(exec>>32), wf.SCC(), wf.M0
}

func c07OpKind(f []string) string {
	reg, _ := strconv.Atoi(f[2])
	return f[0] + "." + c07KindName(insts.RegType(reg))
}

func (sc *c07Scn) op(f []string) {
	if len(f) == 0 {
		return
	}
	switch f[0] {
	case "dig":
		sc.out = append(sc.out, fmt.Sprintf("%016x", sc.digest()))
		return
	case "set":
		if len(f) < 6 {
			sc.out = append(sc.out, "bad")
			return
		}
		w, _ := strconv.Atoi(f[1])
		vcc, _ := strconv.ParseUint(f[2], 16, 64)
		exec, _ := strconv.ParseUint(f[3], 16, 64)
		scc, _ := strconv.ParseUint(f[4], 16, 8)
		m0, _ := strconv.ParseUint(f[5], 16, 32)
		set := func(wf c07Wf, c *c07Cells) {
			wf.SetVCC(vcc)
			wf.SetEXEC(exec)
			wf.SetSCC(byte(scc))
			if c != nil {
				c.vccLo, c.vccHi, c.exLo, c.exHi = uint32(vcc), uint32(vcc>>32), uint32(exec), uint32(exec>>32)
				c.scc, c.m0 = byte(scc), uint32(m0)
			}
		}
		if sc.isEmu {
			set(sc.ewf, sc.ecell)
			sc.ewf.M0 = uint32(m0)
		} else if w >= 0 && w < len(sc.tw) {
			t := sc.tw[w]
			set(t.wf, t.cells)
			t.wf.M0 = uint32(m0)
			if t.shadow != nil {
				set(t.shadow, nil)
				t.shadow.M0 = uint32(m0)
			}
		} else {
			sc.out = append(sc.out, "bad")
			return
		}
		sc.out = append(sc.out, "ok")
		return
	case "rel":
		w, _ := strconv.Atoi(f[1])
		if sc.isEmu || w < 0 || w >= len(sc.tw) {
			sc.out = append(sc.out, "bad")
			return
		}
		t := sc.tw[w]
		ans := c07Catch(func() string { cu.VerifResetRegisterValue(sc.cu, t.wf); return "ok" })
		sc.out = append(sc.out, ans)
		if t.cells != nil && !t.broken {
			// spec: exactly the registers of the finished wavefront become zero
			for i := 0; i < t.cells.ns; i++ {
				t.cells.s[i] = 0
			}
			for l := 0; l < 64; l++ {
				for i := 0; i < t.cells.nv; i++ {
					t.cells.v[l][i] = 0
				}
			}
			if ans != "ok" {
				sc.r.Failf("C07.release.fault", sc.line, "rel %d answered %s", w, ans)
			}
			sc.r.Checked("release")
			if t.shadow != nil {
				for i := range t.shadow.SRegFile {
					t.shadow.SRegFile[i] = 0
				}
				for i := range t.shadow.VRegFile {
					t.shadow.VRegFile[i] = 0
				}
			}
		}
		return
	case "ci", "cl", "cw":
		if len(f) < 3 {
			sc.out = append(sc.out, "bad")
			return
		}
		var wf c07Wf = sc.ewf
		if !sc.isEmu {
			w, _ := strconv.Atoi(f[1])
			if w < 0 || w >= len(sc.tw) {
				sc.out = append(sc.out, "bad")
				return
			}
			wf = sc.tw[w].wf
		}
		sc.out = append(sc.out, c07Access(wf, f))
		return
	case "new", "disp", "init", "smem", "retire": // c07_disp.go
		sc.opDisp(f)
		return
	case "r", "w", "rb", "wb":
	default:
		sc.out = append(sc.out, "bad")
		return
	}
	if len(f) < 5 || (f[0] != "r" && len(f) < 6) {
		sc.out = append(sc.out, "bad")
		return
	}
	w, _ := strconv.Atoi(f[1])
	if sc.isEmu {
		ans := c07Access(sc.ewf, f)
		sc.out = append(sc.out, ans)
		if sc.kind != "wild" {
			if exp, ok := sc.ecell.expect(f); ok {
				sc.r.Checked("emu." + f[0])
				sc.r.Count("emu." + c07OpKind(f))
				if exp != ans {
					sc.r.Failf("C07.emu."+c07OpKind(f), strings.Join(f, " ")+"  in  "+c07Short(sc.line),
						"flat cells say %s, emu.Wavefront answered %s", exp, ans)
				}
			} else {
				// outside the supported subset: no expectation; re-read the cells from the store
				sc.r.Count("emu.outside-subset." + c07FaultClass(ans))
				if f[0] == "w" || f[0] == "wb" {
					sc.ecell.loadEmuAll(sc.ewf)
				}
			}
		}
		return
	}
	if w < 0 || w >= len(sc.tw) {
		sc.out = append(sc.out, "bad")
		return
	}
	t := sc.tw[w]
	ans := c07Access(t.wf, f)
	sc.out = append(sc.out, ans)
	if t.cells == nil || t.broken {
		return
	}
	exp, ok := t.cells.expect(f)
	var sh string
	if t.shadow != nil {
		sh = c07Access(t.shadow, f)
	}
	if ok {
		sc.r.Checked("timing." + f[0])
		sc.r.Count("timing." + c07OpKind(f))
		if exp != ans {
			sc.r.Failf("C07.timing."+c07OpKind(f), strings.Join(f, " ")+"  in  "+c07Short(sc.line),
				"flat cells say %s, timing wavefront answered %s", exp, ans)
		}
		if t.shadow != nil {
			sc.r.Checked("same-answers")
			if sh != ans {
				sc.r.Failf("C07.same-answers."+c07OpKind(f), strings.Join(f, " ")+"  in  "+c07Short(sc.line),
					"timing answered %s, emulator answered %s (flat cells: %s)", ans, sh, exp)
			}
		}
	} else {
		// outside the supported subset: no expectation; a write may have clobbered a neighbour, so
		// the flat cells (and the shadow emulator stores) are re-read from the real store
		sc.r.Count("timing.outside-subset." + c07FaultClass(ans))
		if t.shadow != nil {
			if sh == ans {
				sc.r.Count("outside-subset.modes-agree")
			} else {
				sc.r.Count("outside-subset.modes-differ." + c07OpKind(f))
				if sc.kind == "witness" {
					// the witness of same_answers_every_operand_refuted, replayed on the real stores
					sc.r.Checked("witness.malformed-operand")
					sc.r.Failf("C07.same-answers.malformed-operand", strings.Join(f, " ")+"  in  "+c07Short(sc.line),
						"timing answered %s, emulator answered %s (operand outside the supported subset)", ans, sh)
				}
				if os.Getenv("C07_DEBUG") != "" {
					sc.r.Note("differ %s: timing %s emu %s", strings.Join(f, " "), ans, sh)
				}
			}
		}
		if f[0] == "w" || f[0] == "wb" {
			for _, x := range sc.tw {
				if x.cells != nil && !x.broken {
					x.load(sc)
				}
			}
		}
	}
}

func c07FaultClass(ans string) string {
	if strings.HasPrefix(ans, "fault:") {
		return ans
	}
	return "answered"
}

func c07Short(line string) string {
	if len(line) > 400 {
		return line[:400] + "…"
	}
	return line
}

func (sc *c07Scn) digest() uint64 {
	h := uint64(14695981039346656037)
	if sc.isEmu {
		h = c07Fnv(h, sc.ewf.SRegFile)
		h = c07Fnv(h, sc.ewf.VRegFile)
		return c07Fnv(h, c07SpecialBytes(sc.ewf.VCC(), sc.ewf.EXEC(), sc.ewf.SCC(), sc.ewf.M0))
	}
	for _, b := range sc.files {
		h = c07Fnv(h, b)
	}
	for _, t := range sc.tw {
		h = c07Fnv(h, c07SpecialBytes(t.wf.VCC(), t.wf.EXEC(), t.wf.SCC(), t.wf.M0))
	}
	return h
}

// finish: final digest for the correspondence + the frame oracle: every register of every
// wavefront (touched or not) holds what the flat cells say.
func (sc *c07Scn) finish() {
	sc.out = append(sc.out, fmt.Sprintf("%016x", sc.digest()))
	if sc.kind == "wild" {
		return
	}
	cmpSpecial := func(who string, wf c07Wf, m0 uint32, c *c07Cells) {
		got := c07SpecialBytes(wf.VCC(), wf.EXEC(), wf.SCC(), m0)
		want := c07SpecialBytes(uint64(c.vccHi)<<32|uint64(c.vccLo), uint64(c.exHi)<<32|uint64(c.exLo), c.scc, c.m0)
		if string(got) != string(want) {
			sc.r.Failf("C07.frame."+who+".special", c07Short(sc.line), "vcc/exec/scc/m0 = %x, flat cells say %x", got, want)
		}
	}
	if sc.isEmu {
		sc.r.Checked("frame.emu")
		c := sc.ecell
		for i := 0; i < 102; i++ {
			if g := sc.ewf.SRegValue(i); g != c.s[i] {
				sc.r.Failf("C07.frame.emu.sgpr", c07Short(sc.line), "s%d = %x, flat cells say %x", i, g, c.s[i])
				break
			}
		}
	vloop:
		for l := 0; l < 64; l++ {
			for i := 0; i < 256; i++ {
				if g := sc.ewf.VRegValue(l, i); g != c.v[l][i] {
					sc.r.Failf("C07.frame.emu.vgpr", c07Short(sc.line), "lane %d v%d = %x, flat cells say %x", l, i, g, c.v[l][i])
					break vloop
				}
			}
		}
		cmpSpecial("emu", sc.ewf, sc.ewf.M0, c)
		return
	}
	for wi, t := range sc.tw {
		if t.cells == nil || t.broken {
			continue
		}
		sc.r.Checked("frame.timing")
		c := t.cells
		buf := make([]byte, 4)
		for i := 0; i < c.ns; i++ {
			sc.cu.SRegFile.Read(cu.RegisterAccess{Reg: insts.SReg(i), RegCount: 1, WaveOffset: t.soff, Data: buf})
			if g := binary.LittleEndian.Uint32(buf); g != c.s[i] {
				sc.r.Failf("C07.frame.timing.sgpr", c07Short(sc.line), "wf%d s%d = %x, flat cells say %x", wi, i, g, c.s[i])
				break
			}
		}
	tvloop:
		for l := 0; l < 64; l++ {
			for i := 0; i < c.nv; i++ {
				sc.cu.VRegFile[t.simd].Read(cu.RegisterAccess{Reg: insts.VReg(i), RegCount: 1, LaneID: l, WaveOffset: t.voff, Data: buf})
				if g := binary.LittleEndian.Uint32(buf); g != c.v[l][i] {
					sc.r.Failf("C07.frame.timing.vgpr", c07Short(sc.line), "wf%d lane %d v%d = %x, flat cells say %x", wi, l, i, g, c.v[l][i])
					break tvloop
				}
			}
		}
		cmpSpecial("timing", t.wf, t.wf.M0, c)
		if t.shadow != nil {
			sc.r.Checked("frame.shadow")
			for i := 0; i < c.ns; i++ {
				if g := t.shadow.SRegValue(i); g != c.s[i] {
					sc.r.Failf("C07.same-state.sgpr", c07Short(sc.line), "wf%d emulator s%d = %x, flat cells say %x", wi, i, g, c.s[i])
					break
				}
			}
		svloop:
			for l := 0; l < 64; l++ {
				for i := 0; i < c.nv; i++ {
					if g := t.shadow.VRegValue(l, i); g != c.v[l][i] {
						sc.r.Failf("C07.same-state.vgpr", c07Short(sc.line), "wf%d emulator lane %d v%d = %x, flat cells say %x", wi, l, i, g, c.v[l][i])
						break svloop
					}
				}
			}
			cmpSpecial("shadow", t.shadow, t.shadow.M0, c)
		}
	}
}

// ---------------------------------------------------------------- generators

var c07RCs = []int{0, 1, 2, 3, 4, 8, 16}

// special register kinds the decoder or the ALUs can name
var c07Specials = []insts.RegType{insts.SCC, insts.M0, insts.VCC, insts.VCCLO, insts.VCCHI,
	insts.EXEC, insts.EXECLO, insts.EXECHI}

// everything else getOperand can produce (unsupported by both stores)
var c07Others = []insts.RegType{insts.VCCZ, insts.EXECZ, insts.FlatSratchLo, insts.FlatSratchHi,
	insts.XnackMaskLo, insts.XnackMaskHi, insts.TbaLo, insts.TbaHi, insts.TmaLo, insts.TmaHi,
	insts.Timp0, insts.Timp5, insts.Timp10, insts.PC, insts.InvalidRegType, insts.Status, insts.VMCNT}

func c07Boundary(rng *Rng, n int) int {
	if n <= 1 {
		return 0
	}
	switch rng.Intn(6) {
	case 0:
		return 0
	case 1:
		return n - 1
	case 2:
		return rng.Intn(min(n, 4))
	default:
		return rng.Intn(n)
	}
}

func c07HexBytes(rng *Rng, n int) string {
	if n <= 0 {
		return "-"
	}
	return hex.EncodeToString(rng.Bytes(n))
}

func c07Value(rng *Rng) uint64 {
	switch rng.Intn(8) {
	case 0:
		return 0
	case 1:
		return ^uint64(0)
	case 2:
		return 0xffffffff
	case 3:
		return 0xffffffff00000000
	}
	return rng.U64()
}

// c07GenOp: one access of wavefront w owning ns SGPRs / nv VGPRs. valid: inside the supported subset.
func c07GenOp(rng *Rng, w, ns, nv int, valid bool) string {
	var reg insts.RegType
	rc := c07RCs[rng.Intn(len(c07RCs))]
	lane := c07Boundary(rng, 64)
	cls := rng.Intn(100)
	k := max(rc, 1)
	widthBytes := 4 * k
	switch {
	case cls < 30 && ns > 0: // SGPR
		if valid {
			for k > ns {
				rc = c07RCs[rng.Intn(len(c07RCs))]
				k = max(rc, 1)
			}
			reg = insts.S0 + insts.RegType(c07Boundary(rng, ns-k+1))
		} else {
			reg = insts.S0 + insts.RegType(c07Boundary(rng, 102))
		}
		widthBytes = 4 * k
	case cls < 65 && nv > 0: // VGPR
		if valid {
			for k > nv {
				rc = c07RCs[rng.Intn(len(c07RCs))]
				k = max(rc, 1)
			}
			reg = insts.V0 + insts.RegType(c07Boundary(rng, nv-k+1))
		} else {
			reg = insts.V0 + insts.RegType(c07Boundary(rng, 256))
			if rng.Chance(5) {
				lane = rng.Range(64, 70)
			}
		}
		widthBytes = 4 * k
	case cls < 97 || valid:
		reg = c07Specials[rng.Intn(len(c07Specials))]
		if valid || rng.Chance(80) {
			rc = rng.Intn(2)
			if (reg == insts.VCCLO || reg == insts.EXECLO) && rng.Chance(40) {
				rc = 2
			}
		}
		switch reg {
		case insts.SCC:
			widthBytes = 1
		case insts.VCC, insts.EXEC:
			widthBytes = 8
		default:
			widthBytes = 4
			if rc == 2 {
				widthBytes = 8
			}
		}
	default:
		reg = c07Others[rng.Intn(len(c07Others))]
		widthBytes = 4
	}
	kind := rng.Intn(100)
	switch {
	case kind < 25:
		return fmt.Sprintf("r %d %d %d %d", w, reg, rc, lane)
	case kind < 50:
		n := widthBytes
		if rng.Chance(25) {
			n = rng.Pick(0, 1, 2, 3, 4, 7, 8, 12, 16, 32, 64, 100)
		}
		return fmt.Sprintf("rb %d %d %d %d %d", w, reg, rc, lane, n)
	case kind < 75:
		if valid && widthBytes > 8 {
			return fmt.Sprintf("wb %d %d %d %d %s", w, reg, rc, lane, c07HexBytes(rng, widthBytes))
		}
		return fmt.Sprintf("w %d %d %d %d %x", w, reg, rc, lane, c07Value(rng))
	default:
		n := widthBytes
		if !valid && rng.Chance(30) {
			n = rng.Pick(0, 1, 3, 4, 5, 8, 9, 12, 16, 20, 64, 68)
		}
		return fmt.Sprintf("wb %d %d %d %d %s", w, reg, rc, lane, c07HexBytes(rng, n))
	}
}

func c07SetOp(rng *Rng, w int) string {
	return fmt.Sprintf("set %d %x %x %x %x", w, c07Value(rng), c07Value(rng), rng.Intn(2), uint32(c07Value(rng)))
}

func c07GenEmu(rng *Rng, n int, valid bool) []string {
	ops := []string{fmt.Sprintf("c07 emu fill=%d", rng.Range(1, 1<<30))}
	ops = append(ops, c07SetOp(rng, 0))
	for i := 0; i < n; i++ {
		ops = append(ops, c07GenOp(rng, 0, 102, 256, valid))
		if rng.Chance(1) {
			ops = append(ops, "dig")
		}
		if !valid && rng.Chance(3) {
			ops = append(ops, rng.pickStr(fmt.Sprintf("ci 0 %d", rng.Range(-16, 64)), fmt.Sprintf("cl 0 %x", uint32(rng.U64())), "cw 0 3"))
		}
	}
	return ops
}


// c07Layout: nwf wavefronts on nsimd SIMDs with pairwise disjoint allocations, granule 16 SGPRs
// and 4 VGPRs like CUResourceImpl (whose non-overlap is property C09), in random order.
func c07Layout(rng *Rng, nwf, nsimd int) (wfs []string, ns, nv []int) {
	ns, nv = make([]int, nwf), make([]int, nwf)
	simd := make([]int, nwf)
	sUnits := make([]int, nwf)
	vUnits := make([]int, nwf)
	for i := 0; i < nwf; i++ {
		ns[i] = rng.Pick(1, 8, 16, 17, 32, 48, 64, 96, 100, 102, rng.Range(1, 102))
		sUnits[i] = (ns[i] + 15) / 16
		simd[i] = rng.Intn(nsimd)
	}
	// VGPR budget per SIMD: 64 units of 4 registers (one lane row holds 256 registers)
	left := make([]int, nsimd)
	for i := range left {
		left[i] = 64
	}
	for i := 0; i < nwf; i++ {
		maxu := left[simd[i]] - (nwf - 1 - i) // leave one unit for each later wavefront
		u := rng.Range(1, max(1, min(maxu, rng.Pick(1, 2, 6, 16, 32, 64))))
		vUnits[i] = u
		left[simd[i]] -= u
		nv[i] = u*4 - rng.Pick(0, 0, 1, 3)
	}
	// place SGPR windows: random order, random gaps
	order := rng.Perm(nwf)
	soff := make([]int, nwf)
	pos := 0
	for _, i := range order {
		pos += rng.Pick(0, 0, 1, 5)
		soff[i] = pos * 64
		pos += sUnits[i]
	}
	voff := make([]int, nwf)
	for s := 0; s < nsimd; s++ {
		p := 0
		slack := left[s]
		for _, i := range rng.Perm(nwf) {
			if simd[i] != s {
				continue
			}
			g := 0
			if slack > 0 {
				g = rng.Intn(slack + 1)
				if rng.Bool() {
					g = 0
				}
			}
			slack -= g
			p += g
			voff[i] = p * 16
			p += vUnits[i]
		}
	}
	for i := 0; i < nwf; i++ {
		wfs = append(wfs, fmt.Sprintf("%d:%d:%d:%d:%d", simd[i], soff[i], voff[i], ns[i], nv[i]))
	}
	return
}

func c07GenTim(rng *Rng, n int, valid bool) []string {
	nsimd := rng.Range(1, 2)
	nwf := 3
	if rng.Chance(15) {
		nwf = rng.Range(1, 4)
	}
	wfs, ns, nv := c07Layout(rng, nwf, nsimd)
	ops := []string{fmt.Sprintf("c07 tim fill=%d nsimd=%d wf=%s", rng.Range(1, 1<<30), nsimd, strings.Join(wfs, ","))}
	for w := 0; w < nwf; w++ {
		ops = append(ops, c07SetOp(rng, w))
	}
	for i := 0; i < n; i++ {
		w := rng.Intn(nwf)
		ops = append(ops, c07GenOp(rng, w, ns[w], nv[w], valid))
		if rng.Chance(1) {
			ops = append(ops, "dig")
		}
		if rng.Chance(1) {
			ops = append(ops, fmt.Sprintf("rel %d", rng.Intn(nwf)))
		}
	}
	if rng.Chance(50) {
		ops = append(ops, fmt.Sprintf("rel %d", rng.Intn(nwf)))
		for i := 0; i < 8; i++ {
			w := rng.Intn(nwf)
			ops = append(ops, c07GenOp(rng, w, ns[w], nv[w], valid))
		}
	}
	return ops
}

// c07Enum: complete enumeration of (register kind x RegCount class x access kind) on both stores:
// every RegType that is not a plain SGPR/VGPR, and the SGPRs/VGPRs at the boundaries (quick) or
// all of them (thorough); one scenario per (register, RegCount).
func c07Enum(r *Run) {
	var regs []int
	for t := 0; t <= int(insts.LGKMCNT)+1; t++ { // +1: no such register
		rt := insts.RegType(t)
		if r.Tier != "thorough" {
			if rt >= insts.S0 && rt <= insts.S101 {
				switch i := int(rt - insts.S0); i {
				case 0, 1, 50, 86, 87, 94, 98, 99, 100, 101:
				default:
					continue
				}
			}
			if rt >= insts.V0 && rt <= insts.V255 {
				switch i := int(rt - insts.V0); i {
				case 0, 1, 128, 240, 241, 248, 252, 253, 254, 255:
				default:
					continue
				}
			}
		}
		regs = append(regs, t)
	}
	hdrs := []string{"c07 emu fill=77", "c07 tim fill=78 nsimd=1 wf=0:448:0:102:256,0:0:0:102:0,0:1024:0:16:0"}
	for _, hdr := range hdrs {
		for _, reg := range regs {
			isV := insts.RegType(reg) >= insts.V0 && insts.RegType(reg) <= insts.V255
			for _, rc := range c07RCs {
				ops := []string{hdr, "set 0 1111111122222222 3333333344444444 1 55555555"}
				k := max(rc, 1)
				for _, lane := range []int{0, 63} {
					if lane != 0 && !isV {
						continue
					}
					ops = append(ops, fmt.Sprintf("r 0 %d %d %d", reg, rc, lane))
					ops = append(ops, fmt.Sprintf("rb 0 %d %d %d %d", reg, rc, lane, 4*k))
					ops = append(ops, fmt.Sprintf("rb 0 %d %d %d 1", reg, rc, lane))
					ops = append(ops, fmt.Sprintf("rb 0 %d %d %d 8", reg, rc, lane))
					ops = append(ops, fmt.Sprintf("rb 0 %d %d %d 64", reg, rc, lane))
					ops = append(ops, fmt.Sprintf("w 0 %d %d %d aaaaaaaabbbbbbbb", reg, rc, lane))
					ops = append(ops, fmt.Sprintf("r 0 %d %d %d", reg, rc, lane))
					for _, n := range []int{4 * k, 1, 4, 8} {
						ops = append(ops, fmt.Sprintf("wb 0 %d %d %d %s", reg, rc, lane, strings.Repeat("c1d2e3f4", 16)[:2*n]))
						ops = append(ops, fmt.Sprintf("rb 0 %d %d %d %d", reg, rc, lane, n))
						ops = append(ops, fmt.Sprintf("r 0 %d %d %d", reg, rc, lane))
					}
				}
				runC07Scenario(r, ops, "enum")
			}
		}
	}
}

// c07Witnesses: the accesses on which the two stores were seen to disagree with the flat cells
// or with each other before the repairs (see notes/C07.md); replayed first on every run.
var c07Witnesses = [][]string{
	{"c07 emu fill=0", "set 0 1111111122222222 0 0 0", fmt.Sprintf("w 0 %d 1 0 bbbbbbbb", insts.VCCHI), fmt.Sprintf("r 0 %d 2 0", insts.VCCLO)},
	{"c07 emu fill=0", "set 0 1111111122222222 0 0 0", fmt.Sprintf("r 0 %d 0 0", insts.VCCLO), fmt.Sprintf("r 0 %d 0 0", insts.VCCHI),
		fmt.Sprintf("rb 0 %d 0 0 4", insts.VCCHI)},
	{"c07 emu fill=0", "set 0 0 1111111122222222 0 0", fmt.Sprintf("w 0 %d 0 0 cccccccc", insts.EXECLO), fmt.Sprintf("rb 0 %d 1 0 4", insts.EXECLO),
		fmt.Sprintf("r 0 %d 2 0", insts.EXECLO)},
	{"c07 emu fill=0", "set 0 0 1111111122222222 0 0", fmt.Sprintf("w 0 %d 0 0 dddddddd", insts.EXECHI), fmt.Sprintf("r 0 %d 0 0", insts.EXECHI),
		fmt.Sprintf("rb 0 %d 1 0 4", insts.EXECHI), fmt.Sprintf("r 0 %d 2 0", insts.EXECLO)},
	{"c07 emu fill=5", fmt.Sprintf("rb 0 %d 16 0 64", insts.S0+4), fmt.Sprintf("rb 0 %d 16 3 64", insts.V0+7)},
	{"c07 tim fill=0 nsimd=1 wf=0:0:0:16:4", "set 0 1111111122222222 1111111122222222 0 0",
		fmt.Sprintf("w 0 %d 1 0 bbbbbbbb", insts.VCCHI), fmt.Sprintf("r 0 %d 2 0", insts.VCCLO), fmt.Sprintf("r 0 %d 0 0", insts.VCCLO),
		fmt.Sprintf("r 0 %d 0 0", insts.VCCHI), fmt.Sprintf("w 0 %d 0 0 cccccccc", insts.EXECLO), fmt.Sprintf("w 0 %d 0 0 dddddddd", insts.EXECHI),
		fmt.Sprintf("r 0 %d 0 0", insts.EXECHI), fmt.Sprintf("r 0 %d 2 0", insts.EXECLO), fmt.Sprintf("rb 0 %d 16 0 64", insts.S0)},
}

// c07TableCheck: facts about insts.Regs the model relies on (names of the VCC halves are unique,
// so that the stores' fall-back by name coincides with the RegType test).
func c07TableCheck(r *Run) {
	for t, reg := range insts.Regs {
		r.Checked("regs-table")
		if reg.RegType != t {
			r.Failf("C07.regs-table", fmt.Sprint(t), "Regs[%d].RegType = %d", t, reg.RegType)
		}
		if (reg.Name == "vcclo") != (t == insts.VCCLO) || (reg.Name == "vcchi") != (t == insts.VCCHI) {
			r.Failf("C07.regs-table", fmt.Sprint(t), "name %q does not identify the register type", reg.Name)
		}
	}
}

func runC07(r *Run, rng *Rng, replay string) {
	log.SetOutput(io.Discard) // log.Panicf prints before it panics
	if replay != "" {
		if b, err := os.ReadFile(replay); err == nil {
			for _, ln := range strings.Split(string(b), "\n") {
				if i := strings.Index(ln, "c07 "); i >= 0 {
					runC07Scenario(r, splitOps(ln[i:]), "valid")
				}
			}
		}
	}
	c07ReadStable(r, rng)
	c07TableCheck(r)
	for _, w := range c07Witnesses {
		runC07Scenario(r, w, "valid")
	}
	// malformed operand (vcc_lo with RegCount 3): the two stores answer differently (known finding)
	runC07Scenario(r, []string{"c07 tim fill=0 nsimd=1 wf=0:0:0:16:4", "set 0 1111111122222222 0 0 0",
		fmt.Sprintf("rb 0 %d 3 0 12", insts.VCCLO)}, "witness")
	c07Enum(r)
	nEmu, nTim, nWild, length := 300, 500, 200, 150
	if r.Tier == "thorough" {
		nEmu, nTim, nWild, length = 4000, 8000, 3000, 400
	}
	for i := 0; i < nEmu; i++ {
		runC07Scenario(r, c07GenEmu(rng, rng.Range(10, length), true), "valid")
	}
	for i := 0; i < nTim; i++ {
		runC07Scenario(r, c07GenTim(rng, rng.Range(10, length), true), "valid")
	}
	for i := 0; i < nWild; i++ {
		if rng.Bool() {
			runC07Scenario(r, c07GenEmu(rng, rng.Range(5, length), false), "wild")
		} else {
			runC07Scenario(r, c07GenTim(rng, rng.Range(5, length), false), "wild")
		}
	}
}

// c07ReadStable: a value read from a register is a VALUE — the bytes returned for operand X must
// not change when another operand is read afterwards (no aliasing of internal scratch storage).
func c07ReadStable(r *Run, rng *Rng) {
	wf := emu.NewWavefront(kernels.NewWavefront())
	c07Fill(wf.SRegFile, 7, 0)
	c07Fill(wf.VRegFile, 7, 1)
	wf.SetVCC(0x1111111122222222)
	wf.SetEXEC(0x3333333344444444)
	n := 400
	if r.Tier == "thorough" {
		n = 20000
	}
	pick := func() (*insts.Operand, int, string) {
		rc := rng.Pick(1, 1, 2, 4)
		switch rng.Intn(4) {
		case 0:
			i := rng.Intn(100 - rc)
			return insts.NewSRegOperand(i, i, rc), 0, fmt.Sprintf("s%d x%d", i, rc)
		case 1:
			return insts.NewRegOperand(106, insts.VCCLO, rng.Pick(1, 2)), 0, "vcc_lo"
		case 2:
			return insts.NewRegOperand(126, insts.EXECLO, rng.Pick(1, 2)), 0, "exec_lo"
		default:
			i, l := rng.Intn(250-rc), rng.Intn(64)
			return insts.NewVRegOperand(256+i, i, rc), l, fmt.Sprintf("v%d x%d lane %d", i, rc, l)
		}
	}
	for k := 0; k < n; k++ {
		ox, lx, nx := pick()
		oy, ly, ny := pick()
		r.Checked("read-stable")
		var x, keep []byte
		f := catch(func() {
			x = wf.ReadOperandBytes(ox, lx, 16)
			keep = append([]byte{}, x...)
			_ = wf.ReadOperandBytes(oy, ly, 16)
			_ = wf.ReadOperand(oy, ly)
		})
		if f != "" {
			continue
		}
		if string(x) != string(keep) {
			r.Failf("C07.emu.read-aliases-later-read", fmt.Sprintf("read %s then read %s", nx, ny),
				"bytes returned for the first operand changed from %x to %x after the second read", keep, x)
			return
		}
	}
}
