package main

import (
	"strings"
)

// Property C14, second pass: the witnesses of lean/MgpuProofs/Props/C14Hyp.lean replayed on the real
// scheduler. Each witness is a fixed case line (it also takes part in the correspondence); the real
// code must behave as the Lean witness says, otherwise the hypothesis analysis no longer describes
// the code (sigs C14.hyp.*). never_panics_any_run (no legality hypothesis) is additionally judged on
// generated ARBITRARY op sequences over arbitrary states that use only the four states the scheduler
// assigns.
func init() { register("C14", runC14Hyp) }

type c14HypCase struct {
	sig, line string
	ok        func(out string) bool
	what      string
}

func runC14Hyp(r *Run, rng *Rng, replay string) {
	two := "c14 abs ace=0 buf=- exec=- wfs=0:R:99:0:0:0:0,0:R:99:0:0:0:0"
	one := "c14 abs ace=0 buf=- exec=- wfs=0:R:99:0:0:0:0"
	cases := []c14HypCase{
		{"C14.hyp.never-needs-states", "c14 abs ace=0 buf=- exec=0 wfs=0:B:1:0:0:0:0,0:D:99:0:0:0:0 ; ev",
			func(o string) bool { return strings.Contains(o, "fault:never") },
			"never_panics_needs_scheduler_states: with a WfDispatching group-mate the real evalSEndPgm must reach panic(\"never\")"},
		{"C14.hyp.never-any-run", two + " ; is 0 10 0 0 ; is 0 1 0 0 ; ev ; ud 0 ; wc 1 ; is 1 1 0 0 ; ev ; ev",
			func(o string) bool { return !strings.Contains(o, "fault:") },
			"never_panics_any_run: an illegal schedule over Ready/Running/AtBarrier/Completed wavefronts must not panic"},
		{"C14.hyp.issue-rules", two + " ; is 0 10 0 0 ; is 0 10 0 0",
			func(o string) bool { return strings.Contains(o, "exec=0,0 ") },
			"invariant_needs_issue_rules: a second issueToInternal of a Running wavefront must enter internalExecuting twice"},
		{"C14.hyp.quiet-memory", one + " ; is 0 1 0 0 ; mi 0 v ; ev",
			func(o string) bool { return strings.Contains(o, " p0/N ") && strings.HasSuffix(o, "out=-") },
			"completion_eventually_without_quiet_memory_refuted: a counted memory access keeps s_endpgm waiting although ToACE has room"},
		{"C14.hyp.quiet-memory", one + " ; is 0 1 0 0 ; ev",
			func(o string) bool { return strings.Contains(o, " p1/C ") && strings.HasSuffix(o, "out=0") },
			"... and without it the same round sends the completion message"},
		{"C14.hyp.port-room", "c14 abs ace=4 buf=- exec=- wfs=0:R:99:0:0:0:0 ; is 0 1 0 0 ; ev ; ev ; ev",
			func(o string) bool { return strings.HasSuffix(o, "out=f.f.f.f") && strings.Contains(o, "exec=0 ") },
			"wg_completion_eventually needs rounds with room: while ToACE stays full the message is not sent and the wavefront stays in internalExecuting"},
		{"C14.hyp.port-room", "c14 abs ace=4 buf=- exec=- wfs=0:R:99:0:0:0:0 ; is 0 1 0 0 ; ev ; dr 1 ; ev",
			func(o string) bool { return strings.HasSuffix(o, "out=f.f.f.0") },
			"... and one drained message later the next round sends it"},
	}
	for _, c := range cases {
		out := c14RunLine(c.line, nil)
		r.Case(c.line, out)
		r.Checked("hyp")
		if !c.ok(out) {
			r.Failf(c.sig, c.line, "the real scheduler does not behave as the Lean witness: %s; got %q", c.what, out)
		}
	}
	// never_panics_any_run on arbitrary sequences
	n := 600
	if r.Tier == "thorough" {
		n = 20000
	}
	for k := 0; k < n; k++ {
		line := c14GenAbs(rng)
		head := strings.SplitN(line, ";", 2)[0]
		if strings.Contains(head, ":D:") || strings.Contains(head, ":S:") {
			continue
		}
		out := c14RunLine(line, nil)
		r.Case(line, out)
		r.Checked("hyp.any-run")
		r.Count("hyp:any-run")
		if strings.Contains(out, "fault:") {
			r.Failf("C14.hyp.never-any-run", line, "the real scheduler panicked in an arbitrary event sequence over the four scheduler states: %s", out)
		}
	}
}
