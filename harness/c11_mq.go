package main

import (
	"fmt"
	"strings"

	"github.com/sarchlab/akita/v4/mem/vm"
	"github.com/sarchlab/akita/v4/sim"
	"github.com/sarchlab/mgpusim/v4/amd/driver"
	"github.com/sarchlab/mgpusim/v4/amd/protocol"
)

// Several command queues copying at once through the REAL Driver (DMA-path copy middleware), ticked
// by hand against fake GPU ports: the middleware keeps ONE delay line (`awaitingReqs`, `cyclesLeft`)
// for the requests of all queues. Commands are enqueued back to back on 2-4 queues before / between
// ticks, H2D and D2H mixed, with and without a preceding flush; the GPU side takes requests and
// answers them in random order. Case lines `c11 mq …` are answered by `C11.runMq`
// (`MgpuModel/C11Mq.lean`).

func init() { register("C11", runC11Mq) }

type c11MqCmd struct {
	kind    string
	addr, l uint64
	pieces  int
	flush   bool
	dst     []byte // D2H destination
	seen    map[uint64]int
	nSeen   int
	nAnsw   int
	flushes int
}

type c11MqEnv struct {
	r       *Run
	d       *driver.Driver
	port    sim.Port
	gpus    []sim.Port
	gpuIx   map[sim.RemotePort]int
	ctx     *driver.Context
	qs      []*driver.CommandQueue
	cmds    [][]*c11MqCmd // per queue: all commands enqueued
	done    []int         // per queue: completed commands
	dirty   [][2]uint64   // buffers that existed at the kernel launch
	outst   []sim.Msg
	ops     []string
	out     []string
	fault   string
	fails   int
	zeroLen bool
}

func (e *c11MqEnv) line() string { return strings.Join(e.ops, " ; ") }
func (e *c11MqEnv) fail(sig, format string, a ...interface{}) {
	if e.fails < 3 {
		e.r.Failf(sig, e.line(), format, a...)
	}
	e.fails++
}

const c11MqPage = 4096

func newC11MqEnv(r *Run, rng *Rng, nGpus, h2d, d2h, nQueues int, warm bool) *c11MqEnv {
	e := &c11MqEnv{r: r, gpuIx: map[sim.RemotePort]int{}}
	e.d = driver.MakeBuilder().WithEngine(&fakeEngine{}).WithPageTable(vm.NewPageTable(12)).WithLog2PageSize(12).
		WithH2DCycles(h2d).WithD2HCycles(d2h).Build("Driver")
	e.port = e.d.GetPortByName("GPU")
	(&fakeConn{name: "c"}).PlugIn(e.port)
	for g := 0; g < nGpus; g++ {
		p := sim.NewPort(nil, 64, 64, fmt.Sprintf("FakeGPU%d.ToDriver", g+1))
		e.gpuIx[p.AsRemote()] = g
		e.gpus = append(e.gpus, p)
		e.d.RegisterGPU(p, driver.DeviceProperties{CUCount: 4, DRAMSize: 1 << 23})
	}
	e.ctx = e.d.Init()
	for i := 0; i < nQueues; i++ {
		e.qs = append(e.qs, e.d.CreateCommandQueue(e.ctx))
	}
	e.cmds = make([][]*c11MqCmd, nQueues)
	e.done = make([]int, nQueues)
	w := 0
	if warm {
		w = 1
	}
	e.ops = []string{fmt.Sprintf("c11 mq gpus=%d h2d=%d d2h=%d queues=%d warm=%d", nGpus, h2d, d2h, nQueues, w)}
	return e
}

// launch a kernel that stays in flight: every buffer allocated so far becomes dirty
func (e *c11MqEnv) launchKernel() bool {
	qk := e.d.CreateCommandQueue(e.ctx) // created after the copy queues: it is ticked last
	e.d.Enqueue(qk, &driver.LaunchKernelCommand{ID: sim.GetIDGenerator().Generate()})
	for i := 0; i < 50; i++ {
		e.d.Tick()
		if m := e.port.RetrieveOutgoing(); m != nil {
			if _, ok := m.(*protocol.LaunchKernelReq); ok {
				e.d.Tick()
				return true
			}
		}
	}
	return false
}

func (e *c11MqEnv) needsFlush(addr, l uint64) bool {
	for _, b := range e.dirty {
		if driver.VerifMemRangeOverlap(b[0], b[0]+b[1], addr, addr+l) {
			return true
		}
	}
	return false
}

func (e *c11MqEnv) enqueue(qi int, kind string, addr, l uint64) {
	pieces := 0
	if l > 0 {
		pieces = int((addr+l-1)/c11MqPage-addr/c11MqPage) + 1
	}
	c := &c11MqCmd{kind: kind, addr: addr, l: l, pieces: pieces, flush: e.needsFlush(addr, l), seen: map[uint64]int{}}
	if kind == "h" {
		src := make([]byte, l)
		for i := range src {
			src[i] = byte((addr+uint64(i))*7%251) + 1
		}
		e.d.EnqueueMemCopyH2D(e.qs[qi], driver.Ptr(addr), src)
	} else {
		c.dst = make([]byte, l)
		e.d.EnqueueMemCopyD2H(e.qs[qi], c.dst, driver.Ptr(addr))
	}
	e.cmds[qi] = append(e.cmds[qi], c)
	f := "-"
	if c.flush {
		f = "F"
	}
	if l == 0 {
		e.zeroLen = true
		e.r.Count("mq.zero-length")
	}
	e.ops = append(e.ops, fmt.Sprintf("e %d %s %d %s", qi, kind, pieces, f))
	e.out = append(e.out, "ok")
	e.r.Count(fmt.Sprintf("mq.cmd.%s.pieces%d.%s", kind, pieces, f))
}

func c11MqD2HByte(pa uint64) byte { return byte(pa*13%255) + 1 }

func (e *c11MqEnv) tick() string {
	before := make([]int, len(e.qs))
	for i, q := range e.qs {
		before[i] = q.NumCommand()
	}
	p := false
	if f := catch(func() { p = e.d.Tick() }); f != "" {
		e.fault = "cannot_find_command"
		if !strings.Contains(f, "cannot_find") {
			e.fault = f
		}
		return "fault:" + e.fault
	}
	o := "t0"
	if p {
		o = "t1"
	}
	for i, q := range e.qs {
		// several commands of one queue can complete in one tick: the answer completes the running
		// one, then processNewCommand starts a command without requests, which completes at once
		for n := before[i] - q.NumCommand(); n > 0; n-- {
			o += fmt.Sprintf("!q%d", i)
			c := e.cmds[i][e.done[i]]
			e.done[i]++
			e.r.Checked("mq.complete")
			want := c.pieces
			if c.flush {
				want += len(e.gpus)
			}
			if c.nSeen < want {
				e.fail("C11.copy.request-never-sent", "queue %d: %s copy at %x (%d bytes) completed although only %d of its %d requests were sent", i, c.kind, c.addr, c.l, c.nSeen, want)
			} else if c.nAnsw < want {
				e.fail("C11.copy.completes-early", "queue %d: %s copy at %x (%d bytes) completed with %d of its %d requests answered", i, c.kind, c.addr, c.l, c.nAnsw, want)
			}
			if c.kind == "d" {
				pt := e.d.VerifPageTable()
				for k := range c.dst {
					pg, _ := pt.Find(e.ctx.VerifPID(), c.addr+uint64(k))
					if c.dst[k] != c11MqD2HByte(pg.PAddr+(c.addr+uint64(k)-pg.VAddr)) {
						e.fail("C11.copy.d2h-data-missing", "queue %d: D2H copy at %x (%d bytes) completed but byte %d of the host buffer is not the byte the GPU returned", i, c.addr, c.l, k)
						break
					}
				}
			}
		}
	}
	return o
}

// cur finds the command a request belongs to: (queue, command)
func (e *c11MqEnv) owner(m sim.Msg) (int, *c11MqCmd) {
	for i, q := range e.qs {
		cs := q.VerifCommands()
		if len(cs) == 0 {
			continue
		}
		for _, r := range cs[0].GetReqs() {
			if r == m {
				return i, e.cmds[i][e.done[i]]
			}
		}
	}
	return -1, nil
}

func (e *c11MqEnv) take(k int) string {
	var l []string
	for i := 0; i < k; i++ {
		m := e.port.RetrieveOutgoing()
		if m == nil {
			break
		}
		qi, c := e.owner(m)
		if c == nil {
			e.fail("C11.copy.request-without-command", "a %T was sent that belongs to no queue's current command", m)
			l = append(l, "?")
			continue
		}
		e.outst = append(e.outst, m)
		c.nSeen++
		var addr uint64
		var n int
		kind := "?"
		switch q := m.(type) {
		case *protocol.FlushReq:
			c.flushes++
			l = append(l, fmt.Sprintf("f%d.%d", qi, e.gpuIx[q.Dst]))
			if c.nSeen-c.flushes > 0 {
				e.fail("C11.flush.after-copy-request", "queue %d: a flush request was sent after a copy request of the same command", qi)
			}
			continue
		case *protocol.MemCopyH2DReq:
			addr, n, kind = q.DstAddress, len(q.SrcBuffer), "h"
		case *protocol.MemCopyD2HReq:
			addr, n, kind = q.SrcAddress, len(q.DstBuffer), "d"
			for b := range q.DstBuffer {
				q.DstBuffer[b] = c11MqD2HByte(q.SrcAddress + uint64(b))
			}
		}
		// which page piece of the command is it? (virtual pages of a buffer are contiguous)
		pt := e.d.VerifPageTable()
		idx := -1
		for p := 0; p < c.pieces; p++ {
			va := c.addr
			if p > 0 {
				va = (c.addr/c11MqPage + uint64(p)) * c11MqPage
			}
			pg, _ := pt.Find(e.ctx.VerifPID(), va)
			if pg.PAddr+(va-pg.VAddr) == addr {
				idx = p
				end := (va/c11MqPage + 1) * c11MqPage
				if end > c.addr+c.l {
					end = c.addr + c.l
				}
				if uint64(n) != end-va {
					e.fail("C11.copy.piece-length", "queue %d: piece %d of the copy at %x (%d bytes) carries %d bytes, expected %d", qi, p, c.addr, c.l, n, end-va)
				}
			}
		}
		e.r.Checked("mq.request")
		if idx < 0 {
			e.fail("C11.copy.request-foreign-address", "queue %d: request for physical address %x is not a piece of the copy at %x (%d bytes)", qi, addr, c.addr, c.l)
		}
		c.seen[addr]++
		if c.seen[addr] > 1 {
			e.fail("C11.copy.request-sent-twice", "queue %d: the piece at physical address %x was sent %d times", qi, addr, c.seen[addr])
		}
		if kind != c.kind {
			e.fail("C11.copy.request-wrong-direction", "queue %d: a %s request was sent for a %s copy", qi, kind, c.kind)
		}
		l = append(l, fmt.Sprintf("%s%d.%d", kind, qi, idx))
	}
	return "x[" + strings.Join(l, ",") + "]"
}

func (e *c11MqEnv) rsp(j int) string {
	if len(e.outst) == 0 {
		return "none"
	}
	j = j % len(e.outst)
	m := e.outst[j]
	rsp := sim.GeneralRspBuilder{}.WithSrc(m.Meta().Dst).WithDst(e.port.AsRemote()).WithOriginalReq(m).Build()
	if e.port.Deliver(rsp) != nil {
		return "full"
	}
	if _, c := e.owner(m); c != nil {
		c.nAnsw++
	}
	e.outst = append(e.outst[:j:j], e.outst[j+1:]...)
	return "ok"
}

func (e *c11MqEnv) do(op string) string {
	e.ops = append(e.ops, op)
	t := strings.Fields(op)
	n := 0
	if len(t) > 1 {
		fmt.Sscan(t[1], &n)
	}
	o := "bad"
	switch t[0] {
	case "t":
		o = e.tick()
	case "x":
		o = e.take(n)
	case "r":
		o = e.rsp(n)
	}
	e.out = append(e.out, o)
	return o
}

func (e *c11MqEnv) pending() int {
	n := 0
	for _, q := range e.qs {
		n += q.NumCommand()
	}
	return n
}

func (e *c11MqEnv) finish(rng *Rng, maxCyc int) {
	idle := 0
	for round := 0; round < 400 && e.fault == "" && e.pending() > 0; round++ {
		e.do("x 99")
		for len(e.outst) > 0 {
			if e.do(fmt.Sprintf("r %d", rng.Intn(7))) != "ok" {
				break
			}
		}
		o := e.do("t")
		if o == "t0" {
			idle++
			if idle > maxCyc+4 {
				break
			}
		} else {
			idle = 0
		}
	}
	e.r.Case(e.line(), strings.Join(e.out, " "))
	e.r.Count("mq.scenario")
	if e.fault != "" {
		e.fail("C11.copy.driver-panic", "the driver panicked: %s", e.fault)
		return
	}
	e.r.Checked("mq.all-complete")
	for i, q := range e.qs {
		if q.NumCommand() == 0 {
			continue
		}
		c := e.cmds[i][e.done[i]]
		want := c.pieces
		if c.flush {
			want += len(e.gpus)
		}
		switch {
		case want == 0:
			e.fail("C11.copy.zero-length-never-completes", "queue %d: a %s copy of 0 bytes at %x (no flush needed) stays at the head of its queue forever: the queue is marked running and no request exists whose answer could complete it", i, c.kind, c.addr)
		case c.nSeen < want:
			e.fail("C11.copy.request-never-sent", "queue %d: %s copy at %x (%d bytes) never completes: only %d of its %d requests were ever sent", i, c.kind, c.addr, c.l, c.nSeen, want)
		default:
			e.fail("C11.copy.never-completes", "queue %d: %s copy at %x (%d bytes) never completes although all %d requests were sent and answered", i, c.kind, c.addr, c.l, want)
		}
		break
	}
}

func c11MqScenario(r *Run, rng *Rng) {
	nGpus := rng.Pick(1, 1, 2)
	h2d, d2h := rng.Pick(0, 1, 2, 5), rng.Pick(0, 1, 3, 4)
	nQ := rng.Pick(2, 2, 3, 3, 4, 1)
	warm := rng.Chance(60)
	e := newC11MqEnv(r, rng, nGpus, h2d, d2h, nQ, warm)
	type buf struct{ addr, size uint64 }
	var bufs [][]buf
	alloc := func() {
		for len(bufs) < nQ {
			bufs = append(bufs, nil)
		}
		for q := 0; q < nQ; q++ {
			sz := uint64(rng.Pick(4096, 8192, 12288))
			p := e.d.AllocateMemory(e.ctx, sz)
			bufs[q] = append(bufs[q], buf{uint64(p), sz})
		}
	}
	alloc()
	if warm {
		for _, bq := range bufs {
			for _, b := range bq {
				e.dirty = append(e.dirty, [2]uint64{b.addr, b.size})
			}
		}
		if !e.launchKernel() {
			r.Note("c11 mq: kernel launch was not sent")
			return
		}
		alloc() // clean buffers
	}
	zero := rng.Chance(4)
	steps := rng.Range(8, 40)
	burst := 0
	for i := 0; i < steps && e.fault == ""; i++ {
		x := rng.Intn(100)
		if burst > 0 {
			x = 0
			burst--
		}
		switch {
		case x < 28:
			if burst == 0 && rng.Chance(50) {
				burst = rng.Range(1, nQ) // back-to-back enqueues on several queues before the next tick
			}
			q := rng.Intn(nQ)
			b := bufs[q][rng.Intn(len(bufs[q]))]
			off := uint64(rng.Pick(0, 0, 1, 4000, 4095, 4096))
			if off >= b.size {
				off = 0
			}
			l := uint64(rng.Pick(1, 96, 97, 4096, 4097, int(b.size-off)))
			if off+l > b.size {
				l = b.size - off
			}
			if zero && rng.Chance(30) {
				l = 0
			}
			e.enqueue(q, c11PickS(rng, "h", "d"), b.addr+off, l)
		case x < 62:
			e.do("t")
		case x < 78:
			e.do(fmt.Sprintf("x %d", rng.Pick(1, 1, 2, 3, 99)))
		default:
			e.do(fmt.Sprintf("r %d", rng.Intn(7)))
		}
	}
	m := h2d
	if d2h > m {
		m = d2h
	}
	e.finish(rng, m)
}

func runC11Mq(r *Run, rng *Rng, replay string) {
	n := 250
	if r.Tier == "thorough" {
		n = 8000
	}
	for i := 0; i < n; i++ {
		c11MqScenario(r, rng)
	}
}
