package main

// C19 — the page-migration handshake as ONE closed system, on the REAL components (oracles only).
//
// One scenario wires together, by hand, what the Lean development `MgpuModel/C19_Sys.lean` composes:
//   * the real driver.Driver (its builder: allocator + vm.PageTable),
//   * n real cp.CommandProcessor (their builder); the driver's GPU i is the REAL ToDriver port of CP i,
//   * two real PageMigrationControllers (GPUs 1 and 2) with harness memories on real mem.Storage,
//   * harness-played parts: the Akita connections (head of an outgoing buffer -> incoming buffer of the
//     destination, FIFO per source port, a message whose Deliver fails is kept and retried), the
//     acknowledging components of every GPU (RDMA engine, CUs, address translators, caches, TLBs:
//     every sub-request is answered exactly once, after a random delay, in random order), the two
//     memories, and an MMU with one request outstanding.
// Every component is ticked by hand under the Akita wake-up discipline: a component whose tick returned
// false is asleep and is ticked again only after a message was delivered into one of its EMPTY incoming
// buffers or one of its FULL outgoing buffers was relieved.
//
// No case line is produced: the statements the Lean development proves about the model of this closed
// system (`handshake_window`, `copy_only_in_window`, `world_inside_system`, `pages_rehomed_once`,
// `mmu_answered_once_in_order`, `handshake_terminates`, `cp_tick_sleeps`, `drv_tick_sleeps`) are checked
// on the real components. Everything of a scenario derives from its sub-seed (`c19 sys sub=…`); a replay
// file that contains such a line re-runs exactly that scenario.

import (
	"fmt"
	"io"
	"log"
	"os"
	"sort"
	"strconv"
	"strings"
	"time"

	"github.com/sarchlab/akita/v4/mem/cache"
	"github.com/sarchlab/akita/v4/mem/mem"
	"github.com/sarchlab/akita/v4/mem/vm"
	"github.com/sarchlab/akita/v4/mem/vm/tlb"
	"github.com/sarchlab/akita/v4/sim"
	"github.com/sarchlab/mgpusim/v4/amd/driver"
	"github.com/sarchlab/mgpusim/v4/amd/protocol"
	"github.com/sarchlab/mgpusim/v4/amd/timing/cp"
	pmcpkg "github.com/sarchlab/mgpusim/v4/amd/timing/pagemigrationcontroller"
	"github.com/sarchlab/mgpusim/v4/amd/timing/rdma"
)

func init() { register("C19", runC19Sys) }

const (
	c19SysR = iota // RDMA engine
	c19SysC        // compute units
	c19SysA        // address translators
	c19SysH        // caches
	c19SysL        // TLBs
	c19SysNCls
)

var c19SysClsNames = [c19SysNCls]string{"RDMA", "CU", "AT", "cache", "TLB"}

const (
	c19SysPageSize  = 4096
	c19SysGPUPages  = 64
	c19SysStoreSize = uint64(1) << 36
)

var c19SysStyleNames = []string{"round-robin", "slow-components", "slow-network", "slow-memories", "driver-rare", "bursty"}

// ---- the plan of a scenario: everything but the schedule, drawn first from the sub-seed

type c19SysGpuCfg struct{ cu, at, tlb, l1i, l1s, l1v, l2 int }

type c19SysReqPlan struct {
	host   int    // GPU (1 or 2) the pages live on; the other of GPUs 1/2 requests them
	npages int    // 1..3
	chain  []bool // page j: re-migrate a page an earlier request brought to the host (if there is one)
	acc    []uint64
	gate   int // the MMU sends it 0 at once / 1 `wait` steps after the previous answer / 2 when the driver is idle again
	wait   int
}

type c19SysPlan struct {
	sub      uint64
	n        int
	style    int
	salt     uint64
	maxDelay int
	cfg      []c19SysGpuCfg
	reqs     []c19SysReqPlan
}

func c19SysMakePlan(sub uint64) (*c19SysPlan, *Rng) {
	rng := NewRng(sub)
	p := &c19SysPlan{sub: sub}
	p.n = rng.Range(2, 4)
	p.style = rng.Intn(len(c19SysStyleNames))
	p.salt = rng.U64() % 1000000
	p.maxDelay = rng.Pick(1, 6, 25, 60)
	if p.style == 1 {
		p.maxDelay = rng.Pick(150, 400, 1200)
	}
	for g := 0; g < p.n; g++ {
		p.cfg = append(p.cfg, c19SysGpuCfg{cu: rng.Range(1, 3), at: rng.Range(1, 3), tlb: rng.Range(1, 3),
			l1i: rng.Intn(3), l1s: rng.Intn(3), l1v: rng.Intn(3), l2: rng.Range(1, 2)})
	}
	for k, nreq := 0, rng.Range(2, 3); k < nreq; k++ {
		q := c19SysReqPlan{host: rng.Range(1, 2), npages: rng.Pick(1, 1, 1, 2, 2, 3)}
		for j := 0; j < q.npages; j++ {
			q.chain = append(q.chain, rng.Chance(35))
		}
		perm := rng.Perm(p.n)
		for _, g := range perm[:rng.Range(1, p.n)] {
			q.acc = append(q.acc, uint64(g+1))
		}
		q.gate = rng.Pick(0, 0, 0, 1, 1, 2)
		q.wait = rng.Pick(1, 4, 20, 120)
		p.reqs = append(p.reqs, q)
	}
	return p, rng
}

func (p *c19SysPlan) line() string {
	var cs, rs []string
	for _, c := range p.cfg {
		cs = append(cs, fmt.Sprintf("%d/%d/%d/%d/%d/%d/%d", c.cu, c.at, c.tlb, c.l1i, c.l1s, c.l1v, c.l2))
	}
	for _, q := range p.reqs {
		ch := ""
		for _, c := range q.chain {
			ch += b01(c)
		}
		rs = append(rs, fmt.Sprintf("host%d>gpu%d:pages=%d:chain=%s:acc=%v:gate=%d/%d", q.host, 3-q.host, q.npages, ch, q.acc, q.gate, q.wait))
	}
	return fmt.Sprintf("c19 sys sub=%x ngpu=%d style=%d(%s) delay<=%d salt=%d comps(cu/at/tlb/l1i/l1s/l1v/l2)=%s reqs=%s",
		p.sub, p.n, p.style, c19SysStyleNames[p.style], p.maxDelay, p.salt, strings.Join(cs, ","), strings.Join(rs, " "))
}

// ---- the real components (built ahead by goroutines: construction draws no random number)

type c19SysPlat struct {
	n       int
	pt      vm.PageTable
	d       *driver.Driver
	gpuPort sim.Port
	mmuPort sim.Port
	cps     []*cp.CommandProcessor
	pmc     [2]*pmcpkg.PageMigrationController
	rem     [2]sim.Port
	ctl     [2]sim.Port
	lm      [2]sim.Port
}

func c19SysBuild(n int) *c19SysPlat {
	pl := &c19SysPlat{n: n, pt: vm.NewPageTable(12)}
	conn := &fakeConn{name: "c19sys"}
	for g := 0; g < n; g++ {
		c := cp.MakeBuilder().WithEngine(&fakeEngine{}).WithFreq(1 * sim.GHz).Build(fmt.Sprintf("GPU%d.CP", g+1))
		for _, p := range []sim.Port{c.ToDriver, c.ToDMA, c.ToRDMA, c.ToCUs, c.ToAddressTranslators, c.ToCaches, c.ToTLBs, c.ToPMC} {
			conn.PlugIn(p)
		}
		pl.cps = append(pl.cps, c)
	}
	d := driver.MakeBuilder().WithEngine(&fakeEngine{}).WithPageTable(pl.pt).WithLog2PageSize(12).Build("Driver")
	for g := 0; g < n; g++ {
		d.RegisterGPU(pl.cps[g].ToDriver, driver.DeviceProperties{CUCount: 4, DRAMSize: c19SysGPUPages * c19SysPageSize})
	}
	d.VerifAddContextC19(1)
	pl.d = d
	pl.gpuPort, pl.mmuPort = d.VerifPortsC19()
	conn.PlugIn(pl.gpuPort)
	conn.PlugIn(pl.mmuPort)
	eng := &fakeEngine{}
	for i := 0; i < 2; i++ {
		name := fmt.Sprintf("GPU%d.PMC", i+1)
		p := pmcpkg.NewPageMigrationController(name, eng,
			&mem.SinglePortMapper{Port: sim.RemotePort(fmt.Sprintf("Mem%d", i))}, nil)
		pl.pmc[i] = p
		pl.rem[i] = p.GetPortByName("Remote")
		pl.ctl[i] = p.GetPortByName("Control")
		pl.lm[i] = p.GetPortByName("LocalMem")
		for _, pt := range []sim.Port{pl.rem[i], pl.ctl[i], pl.lm[i]} {
			conn.PlugIn(pt)
		}
	}
	for g := 0; g < n; g++ {
		c := pl.cps[g]
		c.Driver = pl.gpuPort
		if g < 2 {
			d.RemotePMCPorts = append(d.RemotePMCPorts, pl.rem[g])
			c.PMC = pl.ctl[g]
		} else {
			d.RemotePMCPorts = append(d.RemotePMCPorts, sim.NewPort(nil, 1, 1, fmt.Sprintf("GPU%d.PMC.RemotePort", g+1)))
			c.PMC = sim.NewPort(nil, 1, 1, fmt.Sprintf("GPU%d.PMCCtrlPort", g+1))
		}
	}
	return pl
}

// ---- harness-played parts

type c19SysPend struct {
	msg     sim.Msg
	kind    int // 0 drain / flush / discard, 1 restart
	readyAt int
}

// an acknowledging component
type c19SysFake struct {
	g, cls, idx int
	name        sim.RemotePort
	inbox       []sim.Msg // delivered by the connection, not yet taken
	pend        []c19SysPend
	outbox      []sim.Msg // acknowledgements sent, not yet delivered to the CP
	quiet       bool
	nFlush      int
	nRestart    int
}

func (f *c19SysFake) String() string {
	return fmt.Sprintf("GPU%d %s %d", f.g+1, c19SysClsNames[f.cls], f.idx)
}

type c19SysComp struct {
	name         string
	tick         func() bool
	ports        []sim.Port
	asleep       bool
	nSend, nRet  int
	ticks, wakes int
	srcs         []int
}

type c19SysPort struct {
	p     sim.Port
	owner int
}

// the sending end of a connection
type c19SysSrc struct {
	port      sim.Port    // a real port's outgoing buffer, or
	fake      *c19SysFake // a fake component's outbox, or
	mmu       bool        // the MMU's outbox
	owner     int
	has       bool // real ports: the outgoing buffer is not empty (refreshed after a tick of the owner / a pop)
	blockedOn int  // component whose full incoming buffer refused the head (-1: none); cleared when it consumes
}

type c19SysHook struct{ c *c19SysComp }

func (h *c19SysHook) Func(ctx sim.HookCtx) {
	switch ctx.Pos {
	case sim.HookPosPortMsgSend:
		h.c.nSend++
	case sim.HookPosPortMsgRetrieveIncoming:
		h.c.nRet++
	}
}

type c19SysPage struct {
	va    uint64
	oldPA uint64
	pat   []byte
	chain bool
}

type c19SysReq struct {
	idx      int
	plan     c19SysReqPlan
	msg      *vm.PageMigrationReqToDriver
	host     int
	reqr     int
	pages    []c19SysPage
	migs     []*protocol.PageMigrationReqToCP
	answered int
}

type c19SysAct struct{ k, a int }

type c19SysEnv struct {
	r     *Run
	rng   *Rng
	plan  *c19SysPlan
	pl    *c19SysPlat
	line  string
	comps []*c19SysComp
	real  map[sim.RemotePort]*c19SysPort
	srcs  []*c19SysSrc
	fakes []*c19SysFake
	fakeN map[sim.RemotePort]*c19SysFake

	st         [2]*mem.Storage
	shadow     [2]map[uint64][]byte
	mq, mr     [2][]sim.Msg
	mrBlocked  [2]bool
	memReads   int
	memWrites  int
	mmuOut     []sim.Msg
	mmuIn      []sim.Msg
	reqs       []*c19SysReq
	cur        *c19SysReq
	mmuReadyAt int
	homed      [3][]uint64 // vaddrs an answered request brought to GPU 1 / 2

	curMig *protocol.PageMigrationReqToCP
	inPMC  int

	step, moves int
	lastKey     int
	acts        []c19SysAct
	wts         []int
	fails       map[string]int
	dead        bool
}

// C19SYS_DEBUG=1 prints every failure to stderr (the run record keeps 2000 failures; the earlier runners
// of the property may have used them up when a seeded change is being evaluated)
var c19SysDebug = os.Getenv("C19SYS_DEBUG") != ""

func (e *c19SysEnv) fail(sig, format string, a ...interface{}) {
	if e.fails[sig] < 2 {
		e.r.Failf(sig, e.line, format, a...)
		if c19SysDebug {
			fmt.Fprintf(os.Stderr, "%s | %s | %s\n", sig, e.line, fmt.Sprintf(format, a...))
		}
	}
	e.fails[sig]++
}

func c19SysPattern(salt uint64, req, page int) []byte {
	return NewRng(salt*1000003 + uint64(req)*101 + uint64(page) + 7).Bytes(c19SysPageSize)
}

func newC19SysEnv(r *Run, plan *c19SysPlan, rng *Rng, pl *c19SysPlat) *c19SysEnv {
	e := &c19SysEnv{r: r, rng: rng, plan: plan, pl: pl, line: plan.line(), real: map[sim.RemotePort]*c19SysPort{},
		fakeN: map[sim.RemotePort]*c19SysFake{}, fails: map[string]int{}, lastKey: -1}
	addComp := func(name string, tick func() bool, ports ...sim.Port) {
		c := &c19SysComp{name: name, tick: tick, ports: ports, asleep: true}
		ci := len(e.comps)
		e.comps = append(e.comps, c)
		h := &c19SysHook{c}
		for _, p := range ports {
			p.AcceptHook(h)
			e.real[p.AsRemote()] = &c19SysPort{p, ci}
			c.srcs = append(c.srcs, len(e.srcs))
			e.srcs = append(e.srcs, &c19SysSrc{port: p, owner: ci, blockedOn: -1})
		}
	}
	addComp("Driver", pl.d.Tick, pl.gpuPort, pl.mmuPort)
	for g, c := range pl.cps {
		addComp(fmt.Sprintf("CP%d", g+1), c.Tick, c.ToDriver, c.ToDMA, c.ToRDMA, c.ToCUs, c.ToAddressTranslators, c.ToCaches, c.ToTLBs, c.ToPMC)
	}
	for i := 0; i < 2; i++ {
		addComp(fmt.Sprintf("PMC%d", i+1), pl.pmc[i].Tick, pl.rem[i], pl.ctl[i], pl.lm[i])
	}
	for g, c := range pl.cps {
		cfg := plan.cfg[g]
		idx := [c19SysNCls]int{}
		mk := func(cls int, kind string, n int) []sim.Port {
			var l []sim.Port
			for i := 0; i < n; i++ {
				p := sim.NewPort(nil, 1, 1, fmt.Sprintf("GPU%d.%s%d.Ctrl", g+1, kind, i))
				f := &c19SysFake{g: g, cls: cls, idx: idx[cls], name: p.AsRemote()}
				idx[cls]++
				e.fakes = append(e.fakes, f)
				e.fakeN[f.name] = f
				e.srcs = append(e.srcs, &c19SysSrc{fake: f, owner: -1, blockedOn: -1})
				l = append(l, p)
			}
			return l
		}
		c.RDMA = mk(c19SysR, "RDMA", 1)[0]
		for _, p := range mk(c19SysC, "CU", cfg.cu) {
			c.CUs = append(c.CUs, p.AsRemote())
		}
		c.AddressTranslators = mk(c19SysA, "AT", cfg.at)
		c.TLBs = mk(c19SysL, "TLB", cfg.tlb)
		c.L1ICaches = mk(c19SysH, "L1I", cfg.l1i)
		c.L1SCaches = mk(c19SysH, "L1S", cfg.l1s)
		c.L1VCaches = mk(c19SysH, "L1V", cfg.l1v)
		c.L2Caches = mk(c19SysH, "L2", cfg.l2)
	}
	e.srcs = append(e.srcs, &c19SysSrc{mmu: true, owner: -1, blockedOn: -1})
	for i := 0; i < 2; i++ {
		e.st[i] = mem.NewStorage(c19SysStoreSize)
		e.shadow[i] = map[uint64][]byte{}
	}
	return e
}

// ---- messages of the acknowledging components

func c19SysSubKind(m sim.Msg) (cls, kind int, ok bool) {
	switch q := m.(type) {
	case *rdma.DrainReq:
		return c19SysR, 0, true
	case *rdma.RestartReq:
		return c19SysR, 1, true
	case *protocol.CUPipelineFlushReq:
		return c19SysC, 0, true
	case *protocol.CUPipelineRestartReq:
		return c19SysC, 1, true
	case *mem.ControlMsg:
		if q.DiscardTransations && !q.Restart {
			return c19SysA, 0, true
		}
		if q.Restart && !q.DiscardTransations {
			return c19SysA, 1, true
		}
	case *cache.FlushReq:
		return c19SysH, 0, true
	case *cache.RestartReq:
		return c19SysH, 1, true
	case *tlb.FlushReq:
		return c19SysL, 0, true
	case *tlb.RestartReq:
		return c19SysL, 1, true
	}
	return 0, 0, false
}

func c19SysAck(cls, kind int, src, dst sim.RemotePort, rspTo string) sim.Msg {
	f := kind == 0
	switch cls {
	case c19SysR:
		if f {
			return rdma.DrainRspBuilder{}.WithSrc(src).WithDst(dst).Build()
		}
		return rdma.RestartRspBuilder{}.WithSrc(src).WithDst(dst).Build()
	case c19SysC:
		if f {
			return protocol.CUPipelineFlushRspBuilder{}.WithSrc(src).WithDst(dst).Build()
		}
		return protocol.CUPipelineRestartRspBuilder{}.WithSrc(src).WithDst(dst).Build()
	case c19SysA:
		return mem.ControlMsgBuilder{}.WithSrc(src).WithDst(dst).ToNotifyDone().Build()
	case c19SysH:
		if f {
			return cache.FlushRspBuilder{}.WithSrc(src).WithDst(dst).WithRspTo(rspTo).Build()
		}
		return cache.RestartRspBuilder{}.WithSrc(src).WithDst(dst).WithRspTo(rspTo).Build()
	}
	if f {
		return tlb.FlushRspBuilder{}.WithSrc(src).WithDst(dst).Build()
	}
	return tlb.RestartRspBuilder{}.WithSrc(src).WithDst(dst).Build()
}

// ---- wake-up discipline

func (e *c19SysEnv) wake(ci int) {
	c := e.comps[ci]
	if c.asleep {
		c.asleep = false
		c.wakes++
	}
}

func (e *c19SysEnv) rescan(ci int) {
	for _, si := range e.comps[ci].srcs {
		s := e.srcs[si]
		s.has = s.port.PeekOutgoing() != nil
	}
}

func (e *c19SysEnv) unblock(ci int) {
	for _, s := range e.srcs {
		if s.blockedOn == ci {
			s.blockedOn = -1
		}
	}
	if ci >= len(e.comps)-2 {
		e.mrBlocked[ci-(len(e.comps)-2)] = false
	}
}

// tickComp: one tick of a real component that is awake
func (e *c19SysEnv) tickComp(ci int) {
	c := e.comps[ci]
	c.ticks++
	s0, r0 := c.nSend, c.nRet
	p := false
	if f := catch(func() { p = c.tick() }); f != "" {
		e.fail("C19.sys.panic", "%s panicked in a tick: %s; %s", c.name, f, e.dump())
		e.dead = true
		return
	}
	e.rescan(ci)
	if c.nRet != r0 {
		e.unblock(ci)
	}
	if p {
		return
	}
	// The tick reported no progress: Akita puts the component to sleep. It must have nothing left to do.
	e.r.Checked("sys.quiet-tick")
	if c.nSend != s0 || c.nRet != r0 {
		e.fail("C19.sys.sleeps-with-work", "a tick of %s returned false although it sent %d and consumed %d message(s)", c.name, c.nSend-s0, c.nRet-r0)
	}
	s1, r1 := c.nSend, c.nRet
	st1 := e.compState(ci)
	p2 := false
	if f := catch(func() { p2 = c.tick() }); f != "" {
		e.fail("C19.sys.panic", "%s panicked in the tick after a tick that returned false: %s; %s", c.name, f, e.dump())
		e.dead = true
		return
	}
	e.rescan(ci)
	if c.nRet != r1 {
		e.unblock(ci)
	}
	if st2 := e.compState(ci); p2 || c.nSend != s1 || c.nRet != r1 || st2 != st1 {
		e.fail("C19.sys.sleeps-with-work", "a tick of %s returned false, but one more tick returns %v, sends %d and consumes %d message(s), state %s -> %s: asleep, nothing would wake it up for this work",
			c.name, p2, c.nSend-s1, c.nRet-r1, st1, st2)
		if p2 {
			return
		}
	}
	c.asleep = true
}

func (e *c19SysEnv) compState(ci int) string {
	n := e.pl.n
	switch {
	case ci == 0:
		return fmt.Sprintf("%+v", e.pl.d.VerifHandshakeC19())
	case ci <= n:
		return fmt.Sprintf("%+v", e.pl.cps[ci-1].VerifCtrlStateC19())
	}
	return fmt.Sprintf("%+v", e.pl.pmc[ci-n-1].VerifStateC19())
}

// ---- connections

// deliver: hand m to its destination. ok=false: the destination's incoming buffer is full (owner = its
// component); the caller keeps the message.
func (e *c19SysEnv) deliver(m sim.Msg) (ok bool, owner int) {
	dst := m.Meta().Dst
	if rp, isReal := e.real[dst]; isReal {
		wasEmpty := rp.p.PeekIncoming() == nil
		if rp.p.Deliver(m) != nil {
			return false, rp.owner
		}
		if wasEmpty {
			e.wake(rp.owner)
		}
		e.onDelivered(m)
		return true, rp.owner
	}
	if f, isFake := e.fakeN[dst]; isFake {
		f.inbox = append(f.inbox, m)
		return true, -1
	}
	switch dst {
	case "MMU":
		e.mmuIn = append(e.mmuIn, m)
	case "Mem0":
		e.mq[0] = append(e.mq[0], m)
	case "Mem1":
		e.mq[1] = append(e.mq[1], m)
	default:
		e.fail("C19.sys.misrouted", "a %T from %s is addressed to %s, which is no port of the system", m, m.Meta().Src, dst)
	}
	return true, -1
}

func (e *c19SysEnv) onDelivered(m sim.Msg) {
	switch x := m.(type) {
	case *protocol.PageMigrationReqToCP:
		if e.cur != nil {
			e.cur.migs = append(e.cur.migs, x)
		}
		e.curMig = x
	case *protocol.PageMigrationRspToDriver:
		e.curMig = nil
	case *pmcpkg.PageMigrationReqToPMC:
		e.inPMC++
	case *pmcpkg.PageMigrationRspFromPMC:
		e.inPMC--
	}
}

func (e *c19SysEnv) srcHead(s *c19SysSrc) sim.Msg {
	switch {
	case s.port != nil:
		if !s.has {
			return nil
		}
		return s.port.PeekOutgoing()
	case s.fake != nil:
		if len(s.fake.outbox) == 0 {
			return nil
		}
		return s.fake.outbox[0]
	}
	if len(e.mmuOut) == 0 {
		return nil
	}
	return e.mmuOut[0]
}

func (e *c19SysEnv) srcReady(s *c19SysSrc) bool {
	if s.blockedOn >= 0 {
		return false
	}
	switch {
	case s.port != nil:
		return s.has
	case s.fake != nil:
		return len(s.fake.outbox) > 0
	}
	return len(e.mmuOut) > 0
}

// moveLink: the head of a source moves to its destination, if that has room
func (e *c19SysEnv) moveLink(si int) {
	s := e.srcs[si]
	m := e.srcHead(s)
	if m == nil {
		s.has = false
		return
	}
	ok, owner := e.deliver(m)
	if !ok {
		s.blockedOn = owner
		return
	}
	switch {
	case s.port != nil:
		wasFull := !s.port.CanSend()
		s.port.RetrieveOutgoing()
		if wasFull {
			e.wake(s.owner)
		}
		s.has = s.port.PeekOutgoing() != nil
	case s.fake != nil:
		s.fake.outbox = s.fake.outbox[1:]
	default:
		e.mmuOut = e.mmuOut[1:]
	}
}

// ---- acknowledging components

func (e *c19SysEnv) fakeTake(f *c19SysFake) {
	m := f.inbox[0]
	f.inbox = f.inbox[1:]
	cls, kind, ok := c19SysSubKind(m)
	if !ok || cls != f.cls {
		e.fail("C19.sys.misrouted", "%s received a %T from %s", f, m, m.Meta().Src)
		return
	}
	if kind == 1 {
		f.nRestart++
		e.r.Checked("sys.restart-after-done")
		if e.inPMC > 0 {
			e.fail("C19.sys.restart-before-done", "%s takes a restart request while %d page migration request(s) are still inside the controllers (%s); request %s",
				f, e.inPMC, e.pmcSigs(), e.curName())
		}
		f.quiet = false
	} else {
		f.nFlush++
	}
	d := 0
	if e.plan.maxDelay > 1 {
		d = e.rng.Intn(e.plan.maxDelay)
	}
	f.pend = append(f.pend, c19SysPend{m, kind, e.step + d})
}

func (f *c19SysFake) ready(step int) bool {
	for _, p := range f.pend {
		if p.readyAt <= step {
			return true
		}
	}
	return false
}

func (e *c19SysEnv) fakeAnswer(f *c19SysFake) {
	var ready []int
	for j, p := range f.pend {
		if p.readyAt <= e.step {
			ready = append(ready, j)
		}
	}
	if len(ready) == 0 {
		return
	}
	j := ready[e.rng.Intn(len(ready))]
	p := f.pend[j]
	f.pend = append(f.pend[:j:j], f.pend[j+1:]...)
	f.outbox = append(f.outbox, c19SysAck(f.cls, p.kind, f.name, p.msg.Meta().Src, p.msg.Meta().ID))
	if p.kind == 0 {
		f.quiet = true
	}
}

// ---- memories

func (e *c19SysEnv) curName() string {
	if e.cur == nil {
		return "none outstanding"
	}
	return fmt.Sprintf("#%d (host GPU %d -> GPU %d, accessing %v)", e.cur.idx, e.cur.host, e.cur.reqr, e.cur.plan.acc)
}

// checkWindow: a memory is about to perform an access for a page migration controller
func (e *c19SysEnv) checkWindow(what string, i int, addr uint64) {
	e.r.Checked("sys.window")
	if e.cur == nil {
		e.fail("C19.sys.copy-outside-window", "memory %d performs a %s at %x for its page migration controller while no migration request is outstanding", i+1, what, addr)
		return
	}
	inAcc := map[int]bool{}
	for _, g := range e.cur.plan.acc {
		inAcc[int(g)-1] = true
	}
	var bad []string
	for _, f := range e.fakes {
		if f.quiet {
			continue
		}
		if f.cls == c19SysR || inAcc[f.g] {
			bad = append(bad, f.String())
		}
	}
	if len(bad) > 0 {
		e.fail("C19.sys.copy-outside-window", "memory %d performs a %s at %x for its page migration controller (request %s) while these components are not quiet (no acknowledged drain/flush, or already restarted): %s; driver %+v",
			i+1, what, addr, e.curName(), strings.Join(bad, ", "), e.pl.d.VerifHandshakeC19())
	}
}

func (e *c19SysEnv) memPerform(i int) {
	j := e.rng.Intn(len(e.mq[i]))
	m := e.mq[i][j]
	e.mq[i] = append(e.mq[i][:j:j], e.mq[i][j+1:]...)
	var rsp sim.Msg
	in := func(a, n, lo uint64) bool { return a >= lo && a+n <= lo+c19SysPageSize && (a-lo)%64 == 0 }
	switch x := m.(type) {
	case *mem.ReadReq:
		e.memReads++
		e.checkWindow("read", i, x.Address)
		e.r.Checked("sys.frame")
		if c := e.curMig; c == nil || e.cur == nil || i != e.cur.host-1 || x.AccessByteSize != 64 || !in(x.Address, 64, c.ToReadFromPhysicalAddress) {
			e.fail("C19.sys.frame", "memory %d reads %d bytes at %x: not a chunk of the source frame of the migrate command being served (%s)", i+1, x.AccessByteSize, x.Address, e.migName())
		}
		d, err := e.st[i].Read(x.Address, x.AccessByteSize)
		if err != nil {
			e.fail("C19.sys.frame", "memory %d: read of %d bytes at %x: %v", i+1, x.AccessByteSize, x.Address, err)
			d = make([]byte, x.AccessByteSize)
		}
		rsp = mem.DataReadyRspBuilder{}.WithSrc(x.Dst).WithDst(x.Src).WithRspTo(x.ID).WithData(d).Build()
	case *mem.WriteReq:
		e.memWrites++
		e.checkWindow("write", i, x.Address)
		e.r.Checked("sys.frame")
		if c := e.curMig; c == nil || e.cur == nil || i != e.cur.reqr-1 || len(x.Data) != 64 || x.DirtyMask != nil || !in(x.Address, 64, c.ToWriteToPhysicalAddress) {
			e.fail("C19.sys.frame", "memory %d writes %d bytes at %x: not a chunk of the destination frame of the migrate command being served (%s)", i+1, len(x.Data), x.Address, e.migName())
		}
		if err := e.st[i].Write(x.Address, x.Data); err != nil {
			e.fail("C19.sys.frame", "memory %d: write of %d bytes at %x: %v", i+1, len(x.Data), x.Address, err)
		}
		rsp = mem.WriteDoneRspBuilder{}.WithSrc(x.Dst).WithDst(x.Src).WithRspTo(x.ID).Build()
	default:
		e.fail("C19.sys.misrouted", "memory %d received a %T from %s", i+1, m, m.Meta().Src)
		return
	}
	e.mr[i] = append(e.mr[i], rsp)
}

func (e *c19SysEnv) migName() string {
	if e.curMig == nil {
		return "no migrate command is being served"
	}
	return fmt.Sprintf("read %x write %x size %d to %s, request %s", e.curMig.ToReadFromPhysicalAddress, e.curMig.ToWriteToPhysicalAddress, e.curMig.PageSize, e.curMig.Dst, e.curName())
}

func (e *c19SysEnv) memAnswer(i int) {
	j := e.rng.Intn(len(e.mr[i]))
	ok, _ := e.deliver(e.mr[i][j])
	if !ok {
		e.mrBlocked[i] = true
		return
	}
	e.mr[i] = append(e.mr[i][:j:j], e.mr[i][j+1:]...)
}

// ---- the MMU

func (e *c19SysEnv) mmuCanSend() bool {
	if e.cur != nil || len(e.reqs) >= len(e.plan.reqs) || len(e.mmuOut) > 0 || len(e.mmuIn) > 0 {
		return false
	}
	if len(e.reqs) == 0 {
		return true
	}
	switch p := e.plan.reqs[len(e.reqs)]; p.gate {
	case 1:
		return e.step >= e.mmuReadyAt
	case 2:
		return !e.pl.d.VerifHandshakeC19().Handling
	}
	return true
}

func (e *c19SysEnv) mmuSend() {
	k := len(e.reqs)
	p := e.plan.reqs[k]
	q := &c19SysReq{idx: k, plan: p, host: p.host, reqr: 3 - p.host}
	d := e.pl.d
	var vas []uint64
	for j := 0; j < p.npages; j++ {
		var va uint64
		chained := false
		if p.chain[j] && len(e.homed[q.host]) > 0 {
			h := e.homed[q.host]
			x := e.rng.Intn(len(h))
			va = h[x]
			e.homed[q.host] = append(h[:x:x], h[x+1:]...)
			chained = true
		} else {
			if f := catch(func() { va = d.VerifAllocateC19(1, c19SysPageSize, q.host) }); f != "" {
				e.fail("C19.sys.panic", "the allocator panicked for a page on GPU %d: %s", q.host, f)
				e.dead = true
				return
			}
		}
		pg, ok := e.pl.pt.Find(1, va)
		if !ok || int(pg.DeviceID) != q.host {
			e.fail("C19.sys.table", "before request #%d: page %x of process 1 should live on GPU %d, the table has %+v (found %v)", k, va, q.host, pg, ok)
			e.dead = true
			return
		}
		pat := c19SysPattern(e.plan.salt, k, j)
		must(e.st[q.host-1].Write(pg.PAddr, pat))
		e.shadow[q.host-1][pg.PAddr] = pat
		q.pages = append(q.pages, c19SysPage{va: va, oldPA: pg.PAddr, pat: pat, chain: chained})
		vas = append(vas, va)
		if chained {
			e.r.Count("sys.page.chained")
		} else {
			e.r.Count("sys.page.fresh")
		}
	}
	m := vm.NewPageMigrationReqToDriver("MMU", e.pl.mmuPort.AsRemote())
	m.ID = fmt.Sprintf("mmu%d", k)
	m.MigrationInfo = &vm.PageMigrationInfo{GPUReqToVAddrMap: map[uint64][]uint64{uint64(q.reqr): vas}}
	m.CurrAccessingGPUs = append([]uint64(nil), p.acc...)
	m.PID = 1
	m.CurrPageHostGPU = uint64(q.host)
	m.PageSize = c19SysPageSize
	q.msg = m
	if e.pl.d.VerifHandshakeC19().Handling {
		e.r.Count("sys.request.sent-while-driver-busy")
	} else {
		e.r.Count("sys.request.sent-while-driver-idle")
	}
	e.reqs = append(e.reqs, q)
	e.cur = q
	e.mmuOut = append(e.mmuOut, m)
}

func c19SysFirstDiff(a, b []byte) int {
	for i := range a {
		if i >= len(b) || a[i] != b[i] {
			return i
		}
	}
	if len(a) != len(b) {
		return len(a)
	}
	return -1
}

func (e *c19SysEnv) mmuTake() {
	m := e.mmuIn[0]
	e.mmuIn = e.mmuIn[1:]
	e.r.Checked("sys.answer")
	rsp, isRsp := m.(*vm.PageMigrationRspFromDriver)
	if !isRsp {
		e.fail("C19.sys.answer", "the MMU received a %T", m)
		return
	}
	q := e.cur
	if q == nil || rsp.OriginalReq != sim.Msg(q.msg) {
		id := "?"
		if rsp.OriginalReq != nil {
			id = rsp.OriginalReq.Meta().ID
		}
		for _, o := range e.reqs {
			if rsp.OriginalReq == sim.Msg(o.msg) {
				o.answered++
			}
		}
		e.fail("C19.sys.answer", "the MMU received an answer to request %s; outstanding: %s", id, e.curName())
		return
	}
	q.answered++
	want := map[uint64]bool{}
	for _, pg := range q.pages {
		want[pg.va] = true
	}
	for _, va := range rsp.VAddr {
		if !want[va] {
			e.fail("C19.sys.answer", "the answer to request #%d names page %x, which was not requested", q.idx, va)
		}
		delete(want, va)
	}
	if len(want) > 0 || len(rsp.VAddr) != len(q.pages) {
		e.fail("C19.sys.answer", "the answer to request #%d names pages %x, requested were %d pages", q.idx, rsp.VAddr, len(q.pages))
	}
	// contents and table, page by page
	touched := [2]map[uint64]bool{{}, {}}
	for j, pg := range q.pages {
		var cmd *protocol.PageMigrationReqToCP
		ncmd := 0
		for _, c := range q.migs {
			if c.ToReadFromPhysicalAddress == pg.oldPA {
				cmd = c
				ncmd++
			}
		}
		e.r.Checked("sys.contents")
		if ncmd != 1 || cmd.PageSize != c19SysPageSize || cmd.Dst != e.pl.cps[q.reqr-1].ToDriver.AsRemote() || cmd.DestinationPMCPort != e.pl.rem[q.host-1] {
			e.fail("C19.sys.contents", "request #%d page %d (vaddr %x, old frame %x on GPU %d): %d migrate command(s) read that frame (%d commands in all); last: %s",
				q.idx, j, pg.va, pg.oldPA, q.host, ncmd, len(q.migs), c19SysCmdStr(cmd))
			if cmd == nil {
				continue
			}
		}
		newPA := cmd.ToWriteToPhysicalAddress
		got, err := e.st[q.reqr-1].Read(newPA, c19SysPageSize)
		if err != nil || string(got) != string(pg.pat) {
			e.fail("C19.sys.contents", "request #%d answered: page %d (vaddr %x) new frame %x on GPU %d does not hold the bytes the old frame %x on GPU %d held when the request was sent (first difference at byte %d, error %v)",
				q.idx, j, pg.va, newPA, q.reqr, pg.oldPA, q.host, c19SysFirstDiff(got, pg.pat), err)
		}
		touched[q.reqr-1][newPA] = true
		e.shadow[q.reqr-1][newPA] = pg.pat
		if err == nil && string(got) != string(pg.pat) {
			e.shadow[q.reqr-1][newPA] = got // reported once; from now on the frame has to keep what it holds
		}
		e.r.Checked("sys.table")
		ent, found := e.pl.pt.Find(1, pg.va)
		if !found || int(ent.DeviceID) != q.reqr || ent.PAddr != newPA || !ent.IsMigrating {
			e.fail("C19.sys.table", "request #%d answered: page %x of process 1 should be on GPU %d at frame %x, migrating; the table has %+v (found %v)",
				q.idx, pg.va, q.reqr, newPA, ent, found)
		}
		e.homed[q.reqr] = append(e.homed[q.reqr], pg.va)
	}
	if len(q.migs) != len(q.pages) {
		e.fail("C19.sys.contents", "request #%d of %d pages was served with %d migrate commands", q.idx, len(q.pages), len(q.migs))
	}
	e.checkFrames(touched)
	e.cur = nil
	e.mmuReadyAt = e.step + q.plan.wait
	if n := len(e.reqs); n < len(e.plan.reqs) {
		e.mmuReadyAt = e.step + e.plan.reqs[n].wait
	}
}

func c19SysCmdStr(c *protocol.PageMigrationReqToCP) string {
	if c == nil {
		return "none"
	}
	rem := sim.RemotePort("nil")
	if c.DestinationPMCPort != nil {
		rem = c.DestinationPMCPort.AsRemote()
	}
	return fmt.Sprintf("read %x write %x size %d to %s remote %s", c.ToReadFromPhysicalAddress, c.ToWriteToPhysicalAddress, c.PageSize, c.Dst, rem)
}

// checkFrames: every page the harness wrote a pattern to (source frames, checked destination frames)
// still holds it, except the pages in skip
func (e *c19SysEnv) checkFrames(skip [2]map[uint64]bool) {
	for i := 0; i < 2; i++ {
		var pas []uint64
		for pa := range e.shadow[i] {
			pas = append(pas, pa)
		}
		sort.Slice(pas, func(a, b int) bool { return pas[a] < pas[b] })
		for _, pa := range pas {
			if skip[i][pa] {
				continue
			}
			e.r.Checked("sys.frame")
			got, err := e.st[i].Read(pa, c19SysPageSize)
			if err != nil || string(got) != string(e.shadow[i][pa]) {
				e.fail("C19.sys.frame", "memory %d page %x, which no migration in progress writes to, changed (first difference at byte %d, error %v)", i+1, pa, c19SysFirstDiff(got, e.shadow[i][pa]), err)
			}
		}
	}
}

// ---- scheduler

func (e *c19SysEnv) weight(k, a int) int {
	// categories: tick driver / CP / PMC, link, fake take, fake answer, memory perform, memory answer, MMU
	cat := 0
	switch k {
	case 0:
		switch {
		case a == 0:
			cat = 0
		case a <= e.pl.n:
			cat = 1
		default:
			cat = 2
		}
	case 1:
		cat = 3
	case 2:
		cat = 4
	case 3:
		cat = 5
	case 4:
		cat = 6
	case 5:
		cat = 7
	default:
		cat = 8
	}
	w := [9]int{12, 12, 12, 12, 12, 12, 12, 12, 12}
	switch e.plan.style {
	case 1:
		w[4], w[5] = 1, 1
	case 2:
		w[3] = 1
	case 3:
		w[6], w[7] = 1, 1
	case 4:
		w[0] = 1
		w[8] = 4
	}
	return w[cat]
}

func (e *c19SysEnv) enumerate() {
	e.acts = e.acts[:0]
	for ci, c := range e.comps {
		if !c.asleep {
			e.acts = append(e.acts, c19SysAct{0, ci})
		}
	}
	for si, s := range e.srcs {
		if e.srcReady(s) {
			e.acts = append(e.acts, c19SysAct{1, si})
		}
	}
	for fi, f := range e.fakes {
		if len(f.inbox) > 0 {
			e.acts = append(e.acts, c19SysAct{2, fi})
		}
		if len(f.pend) > 0 && f.ready(e.step) {
			e.acts = append(e.acts, c19SysAct{3, fi})
		}
	}
	for i := 0; i < 2; i++ {
		if len(e.mq[i]) > 0 {
			e.acts = append(e.acts, c19SysAct{4, i})
		}
		if len(e.mr[i]) > 0 && !e.mrBlocked[i] {
			e.acts = append(e.acts, c19SysAct{5, i})
		}
	}
	if len(e.mmuIn) > 0 {
		e.acts = append(e.acts, c19SysAct{6, 0})
	}
	if e.mmuCanSend() {
		e.acts = append(e.acts, c19SysAct{7, 0})
	}
}

// timeJump: nothing can move now; if somebody is only waiting for its delay, let the time pass
func (e *c19SysEnv) timeJump() bool {
	next := -1
	upd := func(t int) {
		if t > e.step && (next < 0 || t < next) {
			next = t
		}
	}
	for _, f := range e.fakes {
		for _, p := range f.pend {
			upd(p.readyAt)
		}
	}
	if e.cur == nil && len(e.reqs) > 0 && len(e.reqs) < len(e.plan.reqs) && e.plan.reqs[len(e.reqs)].gate == 1 {
		upd(e.mmuReadyAt)
	}
	if next < 0 {
		return false
	}
	e.step = next
	return true
}

func (e *c19SysEnv) pick() c19SysAct {
	key := func(a c19SysAct) int { return a.k<<16 | a.a }
	switch e.plan.style {
	case 0: // fair round-robin over the canonical order of all possible moves
		best, first := -1, 0
		for i, a := range e.acts {
			if key(a) < key(e.acts[first]) {
				first = i
			}
			if key(a) > e.lastKey && (best < 0 || key(a) < key(e.acts[best])) {
				best = i
			}
		}
		if best < 0 {
			best = first
		}
		return e.acts[best]
	case 5: // bursty: the same actor moves again and again while it can
		if e.rng.Chance(80) {
			for _, a := range e.acts {
				if key(a) == e.lastKey {
					return a
				}
			}
		}
		return e.acts[e.rng.Intn(len(e.acts))]
	}
	e.wts = e.wts[:0]
	tot := 0
	for _, a := range e.acts {
		w := e.weight(a.k, a.a)
		e.wts = append(e.wts, w)
		tot += w
	}
	x := e.rng.Intn(tot)
	for i, w := range e.wts {
		if x < w {
			return e.acts[i]
		}
		x -= w
	}
	return e.acts[len(e.acts)-1]
}

func (e *c19SysEnv) do(a c19SysAct) {
	switch a.k {
	case 0:
		e.tickComp(a.a)
	case 1:
		e.moveLink(a.a)
	case 2:
		e.fakeTake(e.fakes[a.a])
	case 3:
		e.fakeAnswer(e.fakes[a.a])
	case 4:
		e.memPerform(a.a)
	case 5:
		e.memAnswer(a.a)
	case 6:
		e.mmuTake()
	default:
		e.mmuSend()
	}
}

func (e *c19SysEnv) pmcSigs() string {
	var l []string
	for i := 0; i < 2; i++ {
		s := e.pl.pmc[i].VerifStateC19()
		l = append(l, fmt.Sprintf("PMC%d[pull %d/%d read %d ready %d rsp %d recv %d write %d pending %d map %d handling %v current %v]",
			i+1, s.ToPull, s.CurPull, s.ToRead, s.DataReady, s.ToRsp, s.RecvData, s.WriteReqs, s.Pending, s.MapSize, s.Handling, s.HasCurrent))
	}
	return strings.Join(l, " ")
}

// dump: what is waiting where
func (e *c19SysEnv) dump() string {
	var l []string
	l = append(l, fmt.Sprintf("step %d moves %d; request %s, %d of %d sent; driver %+v", e.step, e.moves, e.curName(), len(e.reqs), len(e.plan.reqs), e.pl.d.VerifHandshakeC19()))
	for g, c := range e.pl.cps {
		st := c.VerifCtrlStateC19()
		l = append(l, fmt.Sprintf("CP%d[cu %d atF %d atR %d tlb %d cache %d shootdown %v]", g+1, st.NumCUAck, st.NumAddrTranslationFlushAck, st.NumAddrTranslationRestartAck, st.NumTLBAck, st.NumCacheACK, st.ShootDownInProcess))
	}
	l = append(l, e.pmcSigs())
	var sl []string
	for _, c := range e.comps {
		if c.asleep {
			sl = append(sl, c.name)
		}
	}
	l = append(l, "asleep: "+strings.Join(sl, ","))
	for _, rp := range e.sortedPorts() {
		in, out := rp.p.PeekIncoming(), rp.p.PeekOutgoing()
		if in != nil {
			l = append(l, fmt.Sprintf("%s incoming head %T from %s", rp.p.Name(), in, in.Meta().Src))
		}
		if out != nil {
			l = append(l, fmt.Sprintf("%s outgoing head %T to %s", rp.p.Name(), out, out.Meta().Dst))
		}
	}
	for _, f := range e.fakes {
		if len(f.inbox)+len(f.pend)+len(f.outbox) > 0 {
			l = append(l, fmt.Sprintf("%s: %d delivered, %d taken, %d acknowledgements on the way", f, len(f.inbox), len(f.pend), len(f.outbox)))
		}
	}
	for i := 0; i < 2; i++ {
		if len(e.mq[i])+len(e.mr[i]) > 0 {
			l = append(l, fmt.Sprintf("memory %d: %d requests, %d responses waiting", i+1, len(e.mq[i]), len(e.mr[i])))
		}
	}
	if len(e.mmuIn)+len(e.mmuOut) > 0 {
		l = append(l, fmt.Sprintf("MMU: %d to send, %d to take", len(e.mmuOut), len(e.mmuIn)))
	}
	return strings.Join(l, "; ")
}

func (e *c19SysEnv) sortedPorts() []*c19SysPort {
	var l []*c19SysPort
	for _, rp := range e.real {
		l = append(l, rp)
	}
	sort.Slice(l, func(a, b int) bool { return l[a].p.Name() < l[b].p.Name() })
	return l
}

func (e *c19SysEnv) run() {
	npages := 0
	for _, q := range e.plan.reqs {
		npages += q.npages
	}
	bound := 40000 + 25000*npages
	for !e.dead {
		e.enumerate()
		if len(e.acts) == 0 {
			if e.timeJump() {
				continue
			}
			break
		}
		if e.moves >= bound {
			e.fail("C19.sys.stuck", "the step bound (%d moves) was hit: %s", bound, e.dump())
			return
		}
		a := e.pick()
		e.lastKey = a.k<<16 | a.a
		e.do(a)
		e.step++
		e.moves++
	}
	if e.dead {
		return
	}
	e.finish()
}

func (e *c19SysEnv) finish() {
	// nothing can move any more and nobody is waiting for a delay
	e.r.Checked("sys.finished")
	allAnswered := len(e.reqs) == len(e.plan.reqs) && e.cur == nil
	if !allAnswered {
		e.fail("C19.sys.stuck", "nothing can move (every component is asleep, every connection is empty or blocked) but the requests are not all answered: %s", e.dump())
		return
	}
	for _, q := range e.reqs {
		e.r.Checked("sys.answer")
		if q.answered != 1 {
			e.fail("C19.sys.answer", "request #%d was answered %d times", q.idx, q.answered)
		}
	}
	e.checkFrames([2]map[uint64]bool{})
	e.r.Checked("sys.idle")
	var bad []string
	h := e.pl.d.VerifHandshakeC19()
	if h.Handling || h.HasCurrent || h.Drain+h.ShootDown+h.Migrating+h.Restart+h.RDMARestart != 0 || h.ToCP != 0 || h.MigratingOne || h.ToSend != 0 || h.ToMMU {
		bad = append(bad, fmt.Sprintf("driver %+v", h))
	}
	for g, c := range e.pl.cps {
		st := c.VerifCtrlStateC19()
		if st.NumCUAck+st.NumAddrTranslationFlushAck+st.NumAddrTranslationRestartAck+st.NumTLBAck+st.NumCacheACK != 0 || st.ShootDownInProcess {
			bad = append(bad, fmt.Sprintf("CP%d %+v", g+1, st))
		}
	}
	for i := 0; i < 2; i++ {
		s := e.pl.pmc[i].VerifStateC19()
		if s.Handling || s.HasCurrent || s.Pending != -1 || s.MapSize != 0 || s.WriteDone || s.ToCtrl || s.ToPull+s.CurPull+s.ToRead+s.DataReady+s.ToRsp+s.RecvData+s.WriteReqs != 0 {
			bad = append(bad, e.pmcSigs())
			break
		}
	}
	for _, rp := range e.sortedPorts() {
		if rp.p.PeekIncoming() != nil || rp.p.PeekOutgoing() != nil {
			bad = append(bad, "buffer of "+rp.p.Name()+" not empty")
		}
	}
	for _, f := range e.fakes {
		if len(f.inbox)+len(f.pend)+len(f.outbox) > 0 {
			bad = append(bad, fmt.Sprintf("%s has unfinished sub-requests", f))
		}
		if f.quiet {
			bad = append(bad, fmt.Sprintf("%s is still quiet (flushed %d times, restarted %d times)", f, f.nFlush, f.nRestart))
		}
	}
	if len(e.mq[0])+len(e.mq[1])+len(e.mr[0])+len(e.mr[1])+len(e.mmuIn)+len(e.mmuOut) > 0 || e.inPMC != 0 || e.curMig != nil {
		bad = append(bad, fmt.Sprintf("memories / MMU / controllers not drained (in controllers %d, command %v)", e.inPMC, e.curMig != nil))
	}
	if len(bad) > 0 {
		e.fail("C19.sys.not-idle", "every request was answered and nothing can move, but the system is not idle: %s", strings.Join(bad, "; "))
	}
}

// ---- runner

func c19SysRunOne(r *Run, plan *c19SysPlan, rng *Rng, pl *c19SysPlat) {
	e := newC19SysEnv(r, plan, rng, pl)
	e.run()
	np, na := 0, 0
	for _, q := range plan.reqs {
		np += q.npages
		r.Count(fmt.Sprintf("sys.request.pages.%d", q.npages))
		r.Count(fmt.Sprintf("sys.request.acc.%d", len(q.acc)))
		r.Count(fmt.Sprintf("sys.request.gate.%d", q.gate))
		na += len(q.acc)
	}
	r.Count("sys.scenario")
	r.Count(fmt.Sprintf("sys.ngpu.%d", plan.n))
	r.Count(fmt.Sprintf("sys.requests.%d", len(plan.reqs)))
	r.Count(fmt.Sprintf("sys.pages.%d", np))
	r.Count("sys.style." + c19SysStyleNames[plan.style])
	r.CountN("sys.moves", e.moves)
	r.CountN("sys.mem.reads", e.memReads)
	r.CountN("sys.mem.writes", e.memWrites)
	b := 1000
	for b < e.moves {
		b *= 2
	}
	r.Count(fmt.Sprintf("sys.moves.le%d", b))
	ticks, wakes := 0, 0
	for _, c := range e.comps {
		ticks += c.ticks
		wakes += c.wakes
	}
	r.CountN("sys.ticks", ticks)
	r.CountN("sys.wakeups", wakes)
	if len(e.fails) > 0 {
		r.Count("sys.scenario.failed")
	}
}

func runC19Sys(r *Run, rng *Rng, replay string) {
	log.SetOutput(io.Discard)
	t0 := time.Now()
	was := r.OracleOnly
	r.OracleOnly = true
	defer func() { r.OracleOnly = was }()
	var subs []uint64
	if replay != "" {
		if b, err := os.ReadFile(replay); err == nil {
			for _, f := range strings.Split(string(b), "c19 sys sub=")[1:] {
				end := strings.IndexFunc(f, func(c rune) bool { return !strings.ContainsRune("0123456789abcdef", c) })
				if end < 0 {
					end = len(f)
				}
				if v, err := strconv.ParseUint(f[:end], 16, 64); err == nil {
					subs = append(subs, v)
				}
			}
		}
	}
	n := 60
	if r.Tier == "thorough" {
		n = 1500
	}
	for i := 0; i < n; i++ {
		subs = append(subs, rng.U64())
	}
	type job struct {
		plan *c19SysPlan
		rng  *Rng
		pl   chan *c19SysPlat
	}
	jobs := make([]*job, len(subs))
	for i, s := range subs {
		p, g := c19SysMakePlan(s)
		jobs[i] = &job{p, g, make(chan *c19SysPlat, 1)}
	}
	// building a driver costs about 20 ms: a few goroutines build the platforms ahead
	sem := make(chan struct{}, 8)
	go func() {
		for _, j := range jobs {
			sem <- struct{}{}
			go func(j *job) { j.pl <- c19SysBuild(j.plan.n) }(j)
		}
	}()
	for _, j := range jobs {
		pl := <-j.pl
		c19SysRunOne(r, j.plan, j.rng, pl)
		<-sem
	}
	r.Note("c19 sys: %d closed-system scenarios in %.1f s", len(jobs), time.Since(t0).Seconds())
}
