package main

// C01 (third deepening) — an LDS + barrier kernel that is SHIPPED: `matrixTranspose` of
// amd/benchmarks/amdappsdk/matrixtranspose/kernels.hsaco (gcn3), launched on the real emulation platform with
// the benchmark's own argument struct (`matrixtranspose.GCN3KernelArgs`), grid and work-group shape
// ((width/4, width/4, 1) / (16, 16, 1): four wavefronts per work-group, one 64x64 tile through 16 KiB of LDS,
// one S_BARRIER).
//
//   * `c01 ttcode`  the bytes the real loader extracts = the Lean literal `transposeKernelCode` the statements of
//                   Props/C01Bar.lean are about.
//   * NOT a `c01 emu` case: the kernel computes `(gix + giy) % num_of_blocks_x` with `v_rcp_iflag_f32`, which is
//                   outside the C03V specification (no division in its reference arithmetic), so the Lean emulator
//                   answers `fault:nospec` on this kernel; its LDS / barrier path is tied by the hand-assembled
//                   `lds-barrier` and `two barriers` kernels of c01_deep.go instead.
//   * oracles       C01.tt.host-reference (output = transposed input, element for element) and the frame
//                   (input unchanged, guard bytes behind the output unchanged).

import (
	"encoding/binary"
	"encoding/hex"
	"encoding/json"
	"fmt"
	"os"
	"path/filepath"
	"time"

	"github.com/sarchlab/akita/v4/simulation"
	"github.com/sarchlab/mgpusim/v4/amd/arch"
	"github.com/sarchlab/mgpusim/v4/amd/benchmarks/amdappsdk/matrixtranspose"
	"github.com/sarchlab/mgpusim/v4/amd/driver"
	"github.com/sarchlab/mgpusim/v4/amd/insts"
	"github.com/sarchlab/mgpusim/v4/amd/samples/runner/emusystem"
)

func init() {
	register("C01", runC01TT)
	childFuncs["c01tt"] = c01TTChild
}

type c01TTSpec struct {
	Seed  uint64
	Width int // floats per row; multiple of 64
}

const c01TTGuard = 64

func c01TTChild(args []string) {
	if len(args) < 2 {
		os.Exit(2)
	}
	var spec c01TTSpec
	sb, err := os.ReadFile(args[0])
	if err == nil {
		err = json.Unmarshal(sb, &spec)
	}
	if err != nil {
		os.Exit(2)
	}
	res := c01DeepResult{}
	save := func() {
		b, _ := json.Marshal(res)
		tmp := args[1] + ".tmp"
		if os.WriteFile(tmp, b, 0o644) == nil {
			_ = os.Rename(tmp, args[1])
		}
	}
	save()
	dir := filepath.Dir(args[1])
	s := simulation.MakeBuilder().WithoutMonitoring().WithOutputFileName(filepath.Join(dir, "akita_sim")).Build()
	emusystem.MakeBuilder().WithSimulation(s).WithNumGPUs(1).WithArchitecture(arch.GCN3).Build()
	drv := s.GetComponentByName("Driver").(*driver.Driver)
	drv.Run()
	ctx := drv.Init()
	queue := drv.CreateCommandQueue(ctx)

	w := spec.Width
	in := c01DataBytes(spec.Seed, w*w*4)
	out0 := c01DataBytes(spec.Seed+1, w*w*4+c01TTGuard)
	dIn := drv.AllocateMemory(ctx, uint64(len(in)))
	dOut := drv.AllocateMemory(ctx, uint64(len(out0)))
	drv.MemCopyH2D(ctx, dIn, in)
	drv.MemCopyH2D(ctx, dOut, out0)

	hs, err := os.ReadFile(filepath.Join(repoRoot(), "amd/benchmarks/amdappsdk/matrixtranspose/kernels.hsaco"))
	must(err)
	co := insts.LoadKernelCodeObjectFromBytes(hs, "matrixTranspose")
	// exactly what Benchmark.enqueueKernel / exec build for one GPU
	wi := uint32(w / 4)
	ka := matrixtranspose.GCN3KernelArgs{
		Output: dOut, Input: dIn, Block: driver.LocalPtr(16 * 16 * 4 * 4 * 4),
		WIWidth: wi, WIHeight: wi, NumWGWidth: wi / 16,
	}
	drv.EnqueueLaunchKernel(queue, co, [3]uint32{wi, wi, 1}, [3]uint16{16, 16, 1}, &ka)

	var lk *driver.LaunchKernelCommand
	for _, c := range queue.VerifCommands() {
		if x, ok := c.(*driver.LaunchKernelCommand); ok {
			lk = x
		}
	}
	if lk == nil {
		res.Fault = "no launch command in the queue"
		save()
		os.Exit(0)
	}
	res.Name = "matrixTranspose"
	res.Code = lk.CodeObject.Data
	res.Flags = c01Flags(lk.CodeObject)
	if lk.CodeObject.Version == insts.CodeObjectV5 {
		res.V5 = 1
	}
	res.WI = int(lk.CodeObject.EnableVgprWorkItemID())
	res.CO = lk.Packet.KernelObject
	res.Entry = lk.CodeObject.KernelCodeEntryByteOffset
	res.Grid = [3]uint32{lk.Packet.GridSizeX, lk.Packet.GridSizeY, lk.Packet.GridSizeZ}
	res.WG = [3]uint16{lk.Packet.WorkgroupSizeX, lk.Packet.WorkgroupSizeY, lk.Packet.WorkgroupSizeZ}
	res.KA = lk.Packet.KernargAddress
	res.PA = uint64(lk.DPacket)
	res.Regions = []c01Region{{uint64(dIn), in}, {uint64(dOut), out0}}
	res.OutAddr = uint64(dOut)

	drv.DrainCommandQueue(queue)

	res.Out = make([]byte, len(out0))
	drv.MemCopyD2H(ctx, res.Out, dOut)
	res.KABytes = make([]byte, lk.CodeObject.KernargSegmentByteSize)
	drv.MemCopyD2H(ctx, res.KABytes, driver.Ptr(res.KA))
	res.PABytes = make([]byte, 64)
	drv.MemCopyD2H(ctx, res.PABytes, driver.Ptr(res.PA))
	after := make([]byte, len(in))
	drv.MemCopyD2H(ctx, after, dIn)
	if string(after) != string(in) {
		res.Fault = "input buffer modified"
	}
	res.Done = true
	save()
	os.Exit(0)
}

func c01RunTT(dir string, spec c01TTSpec, limit time.Duration) c01DeepResult {
	must(os.MkdirAll(dir, 0o755))
	sf, rf := filepath.Join(dir, "spec.json"), filepath.Join(dir, "result.json")
	b, _ := json.Marshal(spec)
	must(os.WriteFile(sf, b, 0o644))
	fault, _ := c01Spawn(dir, []string{"child", "c01tt", sf, rf}, limit)
	var res c01DeepResult
	if rb, err := os.ReadFile(rf); err == nil {
		_ = json.Unmarshal(rb, &res)
	}
	if fault != "" {
		res.Fault = fault
	} else if !res.Done && res.Fault == "" {
		res.Fault = "incomplete"
	}
	_ = os.RemoveAll(dir)
	return res
}

func runC01TT(r *Run, rng *Rng, replay string) {
	widths := []int{64}
	if r.Tier == "thorough" {
		widths = append(widths, 128)
	}
	for i, w := range widths {
		spec := c01TTSpec{Seed: r.Seed*1300 + uint64(i), Width: w}
		id := fmt.Sprintf("tt width=%d seed=%d", w, spec.Seed)
		var res c01DeepResult
		for try := 0; try < 3; try++ {
			res = c01RunTT(filepath.Join(r.OutDir, fmt.Sprintf("tt-%d", i)), spec, 90*time.Second)
			if res.Fault != "hang" {
				break
			}
		}
		r.Count("kern-tt")
		if res.Fault != "" {
			r.Checked("kern-run")
			r.Failf("C01.deep.run-fails", id, "fault=%q", res.Fault)
			continue
		}
		r.Count("deep-kernel-" + res.Name)
		r.CountN("deep-code-bytes", len(res.Code))
		if i == 0 {
			r.Case("c01 ttcode", hex.EncodeToString(res.Code))
		}
		in, out0 := res.Regions[0].Data, res.Regions[1].Data
		ref := append([]byte(nil), out0...)
		for y := 0; y < w; y++ {
			for x := 0; x < w; x++ {
				binary.LittleEndian.PutUint32(ref[(y*w+x)*4:], binary.LittleEndian.Uint32(in[(x*w+y)*4:]))
			}
		}
		r.Checked("tt-host-reference")
		if string(res.Out[:w*w*4]) != string(ref[:w*w*4]) {
			k := 0
			for k < w*w*4 && res.Out[k] == ref[k] {
				k++
			}
			r.Failf("C01.tt.host-reference", id, "first differing byte %d (element %d)", k, k/4)
		}
		r.Checked("tt-frame")
		if string(res.Out[w*w*4:]) != string(ref[w*w*4:]) {
			r.Failf("C01.tt.frame", id, "guard bytes behind the output matrix changed")
		}
	}
}
