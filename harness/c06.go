package main

// C06 — vector lanes are independent and obey the EXEC mask.
//
// Tie H: for every implemented vector opcode of both ALUs (the opcode switches are walked by
// running every row of the decode tables through the REAL decoder and the REAL ALU.Run) the
// per-lane function is defined EXTENSIONALLY BY THE IMPLEMENTATION ITSELF: F(i) = run with only
// lane 0 active after lane i's inputs (VGPR row, its bits of VCC / the SGPR mask pairs) were moved
// to lane 0. Then, for many EXEC masks, the full run must equal the per-lane composition of F,
// inactive lanes must be untouched and perform no access, and run(pi s) = pi(run s).

import (
	"bytes"
	"encoding/binary"
	"fmt"
	"go/ast"
	"go/parser"
	"go/token"
	"io"
	"log"
	"math"
	"math/bits"
	"os"
	"path/filepath"
	"sort"
	"strconv"
	"strings"

	"github.com/sarchlab/akita/v4/mem/vm"
	"github.com/sarchlab/mgpusim/v4/amd/emu"
	"github.com/sarchlab/mgpusim/v4/amd/emu/cdna3"
	"github.com/sarchlab/mgpusim/v4/amd/insts"
)

func init() { register("C06", runC06) }

// register allocation used by every generated instruction (spaced so that up to 4 dwords fit)
const (
	c06Src0  = 10 // v10..  / s10..
	c06Src1  = 20
	c06Src2  = 30 // VGPR v30.. ; the SGPR pair s[30:31] is used ONLY as a lane-mask source
	c06Dst   = 40
	c06Data  = 50
	c06Data1 = 60
	c06Addr  = 70
	c06MaskO = 20 // SGPR pair s[20:21]: ONLY as a lane-mask destination
	c06MaskI = 30 // SGPR pair s[30:31]: ONLY as a lane-mask source
	c06SBase = 40 // SGPR pair s[40:41]: scalar base of global_* with SADDR
	c06USrc  = 50 // s50.. uniform scalar sources
)

type c06inst struct {
	arch    string
	format  string
	op      int
	iname   string
	handler string
	variant string
	inst    *insts.Inst
	words   string
	mem     string // "", "lds", "flat"
}

func (ci *c06inst) String() string {
	return fmt.Sprintf("%s %s.%d %s [%s] %s handler=%s", ci.arch, ci.format, ci.op, ci.iname, ci.variant, ci.words, ci.handler)
}

type c06env struct {
	r       *Run
	rng     *Rng
	e       *aluEnv
	hand    map[string]string // arch/format/op -> handler function named in the opcode switch
	ldsBase []byte
	ldsNeg  []byte
	res     [3]*c06result
	mem     *c06mem
	scr     [2]*c06state // scratch states (moveLane / perm, poison)
	pop     [9]int
}

// ------------------------------------------------------------------ source scan (handler names)

var c06Dispatchers = map[string]string{
	"runVOP1": "vop1", "runVOP2": "vop2", "runVOP3A": "vop3a", "runVOP3B": "vop3b", "runVOPC": "vopc",
	"runDS": "ds", "runFlat": "flat",
	"runSOP1": "sop1", "runSOP2": "sop2", "runSOPC": "sopc", "runSOPK": "sopk", "runSOPP": "sopp", "runSMEM": "smem",
}

var c06VectorFiles = map[string][]string{
	"gcn3":  {"aluvop1.go", "aluvop2.go", "aluvop3a.go", "aluvop3b.go", "aluvopc.go", "aluds.go", "alu_flat.go"},
	"cdna3": {"cdna3/vop1.go", "cdna3/vop2.go", "cdna3/vop3a.go", "cdna3/vop3b.go", "cdna3/vopc.go", "cdna3/ds.go", "cdna3/flat.go"},
}

// scanSwitches is the harness's own reading of the opcode switches (independent of translate/lanes.go):
// arch/format/op -> name of the first method called in the case body; plus the method names per file.
func c06ScanSwitches() (map[string]string, map[string][]string, error) {
	out := map[string]string{}
	funcs := map[string][]string{}
	for arch, dir := range map[string]string{"gcn3": "amd/emu", "cdna3": "amd/emu/cdna3"} {
		fset := token.NewFileSet()
		matches, _ := filepath.Glob(filepath.Join(repoRoot(), dir, "*.go"))
		for _, p := range matches {
			if strings.HasSuffix(p, "_test.go") {
				continue
			}
			f, err := parser.ParseFile(fset, p, nil, 0)
			if err != nil {
				return nil, nil, err
			}
			rel := filepath.Base(p)
			if arch == "cdna3" {
				rel = "cdna3/" + rel
			}
			for _, d := range f.Decls {
				fd, ok := d.(*ast.FuncDecl)
				if !ok || fd.Recv == nil || fd.Body == nil {
					continue
				}
				if fd.Type.Params != nil && len(fd.Type.Params.List) > 0 && len(fd.Type.Params.List[0].Names) > 0 &&
					fd.Type.Params.List[0].Names[0].Name == "state" {
					funcs[arch+":"+rel] = append(funcs[arch+":"+rel], fd.Name.Name)
				}
				format, ok := c06Dispatchers[fd.Name.Name]
				if !ok {
					continue
				}
				ast.Inspect(fd.Body, func(n ast.Node) bool {
					sw, ok := n.(*ast.SwitchStmt)
					if !ok {
						return true
					}
					for _, st := range sw.Body.List {
						cc := st.(*ast.CaseClause)
						name := ""
						for _, b := range cc.Body {
							ast.Inspect(b, func(m ast.Node) bool {
								if ce, ok := m.(*ast.CallExpr); ok && name == "" {
									if se, ok := ce.Fun.(*ast.SelectorExpr); ok {
										if id, ok := se.X.(*ast.Ident); ok && id.Name == "u" {
											name = se.Sel.Name
										}
									}
								}
								return true
							})
						}
						for _, ex := range cc.List {
							if bl, ok := ex.(*ast.BasicLit); ok {
								v, err := strconv.ParseInt(bl.Value, 0, 64)
								if err == nil {
									out[fmt.Sprintf("%s/%s/%d", arch, format, v)] = name
								}
							}
						}
					}
					return false
				})
			}
		}
	}
	for k := range funcs {
		sort.Strings(funcs[k])
	}
	return out, funcs, nil
}

// ------------------------------------------------------------------ instruction construction

func c06catch(f func()) (fault string) {
	defer func() {
		if e := recover(); e != nil {
			fault = fmt.Sprint(e)
			if fault == "" {
				fault = "panic"
			}
		}
	}()
	f()
	return ""
}

func (c *c06env) decode(arch string, d desc) (*insts.Inst, string, error) {
	buf := encodeDesc(d)
	for len(buf) < 12 {
		buf = append(buf, 0)
	}
	var inst *insts.Inst
	var err error
	fault := c06catch(func() { inst, err = c.e.decodeFor(arch, buf) })
	if fault != "" {
		return nil, "", fmt.Errorf("decoder panic: %s", fault)
	}
	if err != nil {
		return nil, "", err
	}
	n := inst.ByteSize
	if n > len(buf) {
		n = len(buf)
	}
	var ws []string
	for i := 0; i+4 <= n; i += 4 {
		ws = append(ws, fmt.Sprintf("%08x", binary.LittleEndian.Uint32(buf[i:])))
	}
	return inst, strings.Join(ws, "_"), nil
}

// isCompareVOP3 / mask positions — ISA knowledge about which operands are 64-bit LANE MASKS
func c06MaskSrc2(format string, op int) bool {
	if format == "vop3a" && op == 256 { // v_cndmask_b32_e64
		return true
	}
	if format == "vop3b" && (op == 284 || op == 285 || op == 286) { // v_addc/subb/subbrev_co_u32
		return true
	}
	return false
}

// variants builds the instruction encodings tried for one opcode.
func (c *c06env) variants(arch, format string, it *insts.InstType) []desc {
	op := uint32(it.Opcode)
	rng := c.rng
	v := func(n uint32) uint32 { return 256 + n }
	var out []desc
	add := func(name string, f map[string]uint32, lit bool) {
		d := desc{format: format, op: op, f: f, hasLit: lit, literal: uint32(rng.U64())}
		_ = name
		out = append(out, d)
	}
	switch format {
	case "vop1":
		add("vgpr", map[string]uint32{"src0": v(c06Src0), "vdst": c06Dst}, false)
		add("sgpr", map[string]uint32{"src0": c06USrc, "vdst": c06Dst}, false)
		add("lit", map[string]uint32{"src0": 255, "vdst": c06Dst}, true)
		add("inl", map[string]uint32{"src0": uint32(rng.Pick(128, 129, 193, 240, 242, 247)), "vdst": c06Dst}, false)
	case "vop2":
		add("vgpr", map[string]uint32{"src0": v(c06Src0), "vsrc1": c06Src1, "vdst": c06Dst}, false)
		add("sgpr", map[string]uint32{"src0": c06USrc, "vsrc1": c06Src1, "vdst": c06Dst}, false)
		add("lit", map[string]uint32{"src0": 255, "vsrc1": c06Src1, "vdst": c06Dst}, true)
		add("same", map[string]uint32{"src0": v(c06Dst), "vsrc1": c06Dst, "vdst": c06Dst}, false) // dst aliases the sources
	case "vopc":
		add("vgpr", map[string]uint32{"src0": v(c06Src0), "vsrc1": c06Src1}, false)
		add("sgpr", map[string]uint32{"src0": c06USrc, "vsrc1": c06Src1}, false)
		add("inl", map[string]uint32{"src0": uint32(rng.Pick(128, 130, 193, 240, 243)), "vsrc1": c06Src1}, false)
	case "vop3a", "vop3b":
		src2 := v(c06Src2)
		if c06MaskSrc2(format, int(op)) {
			src2 = c06MaskI
		}
		dsts := []uint32{c06Dst}
		if format == "vop3a" && op <= 255 {
			dsts = []uint32{c06MaskO, 106} // SGPR pair / VCC as compare destination
		}
		for k, dst := range dsts {
			base := func() map[string]uint32 {
				return map[string]uint32{"src0": v(c06Src0), "src1": v(c06Src1), "src2": src2, "vdst": dst, "sdst": c06MaskO}
			}
			f := base()
			add("vgpr", f, false)
			f = base()
			f["abs"], f["neg"] = uint32(rng.Intn(8)), uint32(rng.Intn(8))
			add("mod", f, false)
			if k == 0 {
				f = base()
				f["src0"] = c06USrc
				f["src1"] = v(c06Src1)
				add("s0", f, false)
				f = base()
				f["src1"] = c06USrc
				if !c06MaskSrc2(format, int(op)) {
					f["src2"] = uint32(rng.Pick(128, 129, 193, 240, 242))
				}
				add("s1c2", f, false)
				if c06MaskSrc2(format, int(op)) {
					f = base()
					f["src2"] = 106 // VCC as the mask source
					add("vccin", f, false)
				}
				if format == "vop3b" {
					f = base()
					f["sdst"] = 106
					add("vccout", f, false)
				}
			}
		}
	case "ds":
		for k := 0; k < 3; k++ {
			add("ds", map[string]uint32{"addr": c06Addr, "data0": c06Data, "data1": c06Data1, "vdst": c06Dst,
				"offset0": uint32(rng.Intn(16)), "offset1": uint32(rng.Intn(16))}, false)
		}
		out[0].f["offset0"], out[0].f["offset1"] = 0, 1
	case "flat":
		offs := []uint32{0, uint32(rng.Intn(64)) * 4, 0x1ffc, 0} // 0x1ffc = -4 (13-bit signed)
		for k, off := range offs {
			f := map[string]uint32{"addr": c06Addr, "data": c06Data, "vdst": c06Dst, "saddr": 0x7f, "offset": off}
			if k == 3 {
				f["saddr"], f["seg"] = c06SBase, 2 // global_* with SADDR (the FLAT segment has no scalar base)
			}
			add("flat", f, false)
		}
	}
	return out
}

var c06VecFormats = []string{"vop1", "vop2", "vopc", "vop3a", "vop3b", "ds", "flat"}
var c06ScaFormats = []string{"sop1", "sop2", "sopc", "sopk", "sopp", "smem"}

func c06FormatOf(it *insts.InstType) string { return strings.ToLower(it.Format.FormatName) }

// ------------------------------------------------------------------ memory with a shared read-only image

// c06mem implements emu.StorageAccessor: `base` is the (never modified) image of the current state,
// `ov` collects the bytes written by the current run; every access is logged.
type c06mem struct {
	base   map[uint64]byte
	ov     map[uint64]byte
	reads  [][2]uint64
	writes [][2]uint64
}

func (f *c06mem) Read(pid vm.PID, vAddr, byteSize uint64) []byte {
	f.reads = append(f.reads, [2]uint64{vAddr, byteSize})
	out := make([]byte, byteSize)
	for i := range out {
		a := vAddr + uint64(i)
		if b, ok := f.ov[a]; ok {
			out[i] = b
		} else {
			out[i] = f.base[a]
		}
	}
	return out
}

func (f *c06mem) Write(pid vm.PID, vAddr uint64, data []byte) {
	f.writes = append(f.writes, [2]uint64{vAddr, uint64(len(data))})
	for i, b := range data {
		f.ov[vAddr+uint64(i)] = b
	}
}

// ------------------------------------------------------------------ states

type c06state struct {
	v    []byte
	s    []byte
	vcc  uint64
	exec uint64
	scc  byte
	m0   uint32
	lds  []byte          // nil unless the instruction is a DS op
	mem  map[uint64]byte // flat memory image
}

func (st *c06state) clone() *c06state {
	n := *st
	n.v = append([]byte{}, st.v...)
	n.s = append([]byte{}, st.s...)
	if st.lds != nil {
		n.lds = append([]byte{}, st.lds...)
	}
	return &n // mem is a read-only image and may be shared
}

func (c *c06env) load(st *c06state) {
	e := c.e
	copy(e.wf.VRegFile, st.v)
	copy(e.wf.SRegFile, st.s)
	e.wf.SetVCC(st.vcc)
	e.wf.SetEXEC(st.exec)
	e.wf.SetSCC(st.scc)
	e.wf.M0 = st.m0
	e.wf.SetPC(0x1000)
	if st.lds != nil {
		copy(e.lds, st.lds)
	}
	c.mem.base = st.mem
	c.mem.ov = map[uint64]byte{}
	c.mem.reads, c.mem.writes = nil, nil
}

// result of one run
type c06result struct {
	fault  string
	v      []byte
	s      []byte
	vcc    uint64
	exec   uint64
	scc    byte
	m0     uint32
	pc     uint64
	lds    []byte
	ldsBuf []byte
	mem    map[uint64]byte
	reads  [][2]uint64
	writes [][2]uint64
}

// runOn runs the instruction on st; the result lives in the scratch slot `slot` (0..2) and is
// overwritten by the next run into the same slot.
func (c *c06env) runOn(ci *c06inst, st *c06state, slot int) *c06result {
	c.load(st)
	if c.res[slot] == nil {
		c.res[slot] = &c06result{v: make([]byte, len(c.e.wf.VRegFile)), s: make([]byte, len(c.e.wf.SRegFile)), ldsBuf: make([]byte, len(c.e.lds))}
	}
	r := c.res[slot]
	r.fault = c.runRaw(ci)
	e := c.e
	copy(r.v, e.wf.VRegFile)
	copy(r.s, e.wf.SRegFile)
	r.vcc, r.exec, r.scc, r.m0, r.pc = e.wf.VCC(), e.wf.EXEC(), e.wf.SCC(), e.wf.M0, e.wf.PC()
	r.lds = nil
	if st.lds != nil {
		copy(r.ldsBuf, e.lds)
		r.lds = r.ldsBuf
	}
	r.mem = c.mem.ov // only the bytes written by this run
	r.reads, r.writes = c.mem.reads, c.mem.writes
	return r
}

func (c *c06env) runRaw(ci *c06inst) string {
	c.e.wf.VerifSetInst(ci.inst)
	if ci.arch == "cdna3" {
		return c06catch(func() { c.e.cdna3.Run(c.e.wf) })
	}
	return c06catch(func() { c.e.gcn3.Run(c.e.wf) })
}

func (c *c06env) fillRandom(b []byte) {
	for i := 0; i+8 <= len(b); i += 8 {
		binary.LittleEndian.PutUint64(b[i:], c.rng.U64())
	}
}

var c06SpecialF32 = []uint32{0, 0x80000000, 0x3f800000, 0xbf800000, 0x7f800000, 0xff800000, 0x7fc00000, 0x00000001, 0x007fffff, 0x7f7fffff, 0x3f000000, 0x40490fdb}

func (c *c06env) value32() uint32 {
	rng := c.rng
	switch k := rng.Intn(100); {
	case k < 45:
		return uint32(rng.U64())
	case k < 60:
		return uint32(rng.Intn(64))
	case k < 70:
		return uint32(int32(-rng.Intn(64)))
	case k < 90:
		return math.Float32bits(float32(rng.Intn(2000)-1000) / float32(1+rng.Intn(16)))
	default:
		return c06SpecialF32[rng.Intn(len(c06SpecialF32))]
	}
}

// newState builds a random architectural state for one instruction.
func (c *c06env) newState(ci *c06inst, collide bool) *c06state {
	rng := c.rng
	st := &c06state{v: make([]byte, len(c.e.wf.VRegFile)), s: make([]byte, len(c.e.wf.SRegFile)), mem: map[uint64]byte{}}
	for lane := 0; lane < 64; lane++ {
		for r := 0; r < 96; r++ {
			binary.LittleEndian.PutUint32(st.v[lane*1024+r*4:], c.value32())
		}
		// 64-bit integer operands (shift counts, addresses): small 64-bit values now and then
		for _, r := range []int{c06Src0, c06Src1, c06Src2} {
			if rng.Chance(30) {
				binary.LittleEndian.PutUint64(st.v[lane*1024+r*4:], uint64(rng.Intn(70)))
			}
		}
		// 64-bit float operands: give the register pairs a sane double now and then
		if rng.Chance(50) {
			for _, r := range []int{c06Src0, c06Src1, c06Src2} {
				if rng.Chance(60) {
					d := math.Float64bits(float64(rng.Intn(4000)-2000) / float64(1+rng.Intn(32)))
					binary.LittleEndian.PutUint64(st.v[lane*1024+r*4:], d)
				}
			}
		}
	}
	for i := 0; i+4 <= len(st.s); i += 4 {
		binary.LittleEndian.PutUint32(st.s[i:], c.value32())
	}
	st.vcc, st.scc, st.m0 = rng.U64(), byte(rng.Intn(2)), 0xffffffff
	binary.LittleEndian.PutUint64(st.s[c06MaskI*4:], rng.U64())
	binary.LittleEndian.PutUint64(st.s[c06MaskO*4:], rng.U64())
	slots := rng.Perm(64)
	switch ci.mem {
	case "lds":
		st.lds = append([]byte{}, c.ldsBase...)
		for lane := 0; lane < 64; lane++ {
			a := uint32(slots[lane]*256 + rng.Intn(8)*8)
			if collide {
				a = uint32(rng.Intn(6)*64 + rng.Intn(3)*4)
			}
			binary.LittleEndian.PutUint32(st.v[lane*1024+c06Addr*4:], a)
		}
	case "flat":
		base := uint64(0x7f0010000000)
		sbase := uint64(0x7e0000100000)
		binary.LittleEndian.PutUint64(st.s[c06SBase*4:], sbase)
		saddr := ci.inst.SAddr != nil && ci.inst.Addr != nil && ci.inst.Addr.RegCount == 1
		for lane := 0; lane < 64; lane++ {
			off := uint64(slots[lane]*256 + rng.Intn(8)*4)
			if collide {
				off = uint64(rng.Intn(6)*64 + rng.Intn(3)*4)
			}
			a := base + 4096 + off
			if saddr {
				// 32-bit offset in the low VGPR; the high VGPR holds junk that must be ignored
				binary.LittleEndian.PutUint32(st.v[lane*1024+c06Addr*4:], uint32(4096+off))
				a = sbase + 4096 + off
			} else {
				binary.LittleEndian.PutUint64(st.v[lane*1024+c06Addr*4:], a)
			}
			imm := int64(int32(ci.inst.Offset0))
			for k := int64(-8); k < 40; k++ {
				st.mem[uint64(int64(a)+imm+k)] = byte(rng.U64())
			}
		}
	}
	return st
}

// moveLane: the state in which lane 0 holds lane i's inputs (its row and its mask bits); the other
// lanes keep what they had, EXEC = 1.
func (c *c06env) scratch(k int, st *c06state) *c06state {
	if c.scr[k] == nil {
		c.scr[k] = &c06state{v: make([]byte, len(st.v)), s: make([]byte, len(st.s))}
	}
	n := c.scr[k]
	v, sr := n.v, n.s
	*n = *st
	n.v, n.s = v, sr
	return n
}

func (c *c06env) moveLane(st *c06state, i int) *c06state {
	n := c.scratch(0, st)
	copy(n.v, st.v)
	copy(n.v[0:1024], st.v[i*1024:(i+1)*1024])
	copy(n.s, st.s)
	mv := func(x uint64) uint64 { return (x &^ 1) | ((x >> uint(i)) & 1) }
	n.vcc = mv(st.vcc)
	for _, p := range []int{c06MaskI, c06MaskO} {
		binary.LittleEndian.PutUint64(n.s[p*4:], mv(binary.LittleEndian.Uint64(st.s[p*4:])))
	}
	n.exec = 1
	return n
}

func permBits(x uint64, pi []int) uint64 {
	var y uint64
	for l := 0; l < 64; l++ {
		y |= ((x >> uint(pi[l])) & 1) << uint(l)
	}
	return y
}

// c06Perm: lane l of the new state is lane pi[l] of the old one; EXEC / VCC / mask pairs alike.
func (c *c06env) perm(st *c06state, pi []int) *c06state {
	n := c.scratch(1, st)
	for l := 0; l < 64; l++ {
		copy(n.v[l*1024:(l+1)*1024], st.v[pi[l]*1024:(pi[l]+1)*1024])
	}
	copy(n.s, st.s)
	n.vcc, n.exec = permBits(st.vcc, pi), permBits(st.exec, pi)
	for _, p := range []int{c06MaskI, c06MaskO} {
		binary.LittleEndian.PutUint64(n.s[p*4:], permBits(binary.LittleEndian.Uint64(st.s[p*4:]), pi))
	}
	return n
}

// ------------------------------------------------------------------ per-lane function F

type c06lane struct {
	fault  string
	row    []byte // lane 0's VGPR row after the single-lane run
	vccBit uint64
	moBit  uint64 // bit 0 of s[20:21]
	reads  [][2]uint64
	writes [][2]uint64
	stores map[uint64]byte // byte stores (flat or LDS) performed by the lane
	order  []uint64        // store addresses in program order (flat) / ascending (LDS)
	sOther bool            // a scalar cell other than the mask pairs / VCC changed
}

func (c *c06env) laneFn(ci *c06inst, st *c06state, i int) *c06lane {
	in := c.moveLane(st, i)
	res := c.runOn(ci, in, 0)
	ln := &c06lane{fault: res.fault, stores: map[uint64]byte{}}
	ln.row = append([]byte{}, res.v[0:1024]...)
	ln.vccBit = res.vcc & 1
	ln.moBit = binary.LittleEndian.Uint64(res.s[c06MaskO*4:]) & 1
	ln.reads, ln.writes = res.reads, res.writes
	for _, w := range res.writes {
		for k := uint64(0); k < w[1]; k++ {
			ln.stores[w[0]+k] = res.mem[w[0]+k]
			ln.order = append(ln.order, w[0]+k)
		}
	}
	if st.lds != nil {
		// LDS has no access log: a byte was written iff it ends up equal under two complementary
		// backgrounds. Second run with the complemented LDS.
		in2 := *in
		in2.lds = c.ldsNeg
		for k := range in.lds {
			in2.lds[k] = ^in.lds[k]
		}
		res2 := c.runOn(ci, &in2, 1)
		if res2.fault != res.fault {
			ln.fault = "lds-background-dependent-fault:" + res.fault + "/" + res2.fault
		}
		for k := range res.lds {
			if res.lds[k] == res2.lds[k] {
				ln.stores[uint64(k)] = res.lds[k]
				ln.order = append(ln.order, uint64(k))
			}
		}
	}
	// scalar side effects other than the mask cells
	for k := 0; k+4 <= len(res.s); k += 4 {
		if k/4 == c06MaskO || k/4 == c06MaskO+1 {
			continue
		}
		if !bytes.Equal(res.s[k:k+4], in.s[k:k+4]) {
			ln.sOther = true
		}
	}
	if res.scc != in.scc || res.m0 != in.m0 || res.exec != in.exec || res.pc != 0x1000 {
		ln.sOther = true
	}
	// lanes other than 0 must be untouched by a single-lane run
	if !bytes.Equal(res.v[1024:], in.v[1024:]) {
		ln.fault = "single-lane-run-wrote-other-lanes"
	}
	return ln
}

// ------------------------------------------------------------------ the checks for one (instruction, state)

func (c *c06env) sig(ci *c06inst, kind string) string {
	return fmt.Sprintf("C06.%s.%s.%s", ci.arch, ci.handler, kind)
}

func c06masks(rng *Rng, tier string) []uint64 {
	var ms []uint64
	ms = append(ms, 0, ^uint64(0))
	for i := 0; i < 64; i++ {
		ms = append(ms, uint64(1)<<uint(i))
	}
	for i := 0; i < 64; i++ {
		ms = append(ms, ^(uint64(1) << uint(i)))
	}
	n := 6
	if tier == "thorough" {
		n = 24
	}
	for k := 0; k < n; k++ {
		m := rng.U64()
		switch k % 3 {
		case 1:
			m &= rng.U64() // sparse
		case 2:
			m |= rng.U64() // dense
		}
		ms = append(ms, m)
	}
	ms = append(ms, 0x00000000ffffffff, 0xffffffff00000000, 0x5555555555555555)
	return ms
}

type c06verdict struct {
	kind   string
	detail string
}

// compose checks one full run against the per-lane composition of F.
func (c *c06env) compose(ci *c06inst, st *c06state, F []*c06lane, res *c06result, freshVCC, freshMO bool) *c06verdict {
	exec := st.exec
	act := func(l int) bool { return exec>>uint(l)&1 == 1 }
	if res.fault != "" {
		return &c06verdict{"lane-dependence", "full run faults although every single-lane run succeeds: " + res.fault}
	}
	for l := 0; l < 64; l++ {
		got := res.v[l*1024 : (l+1)*1024]
		if act(l) {
			if !bytes.Equal(got, F[l].row) {
				return &c06verdict{"lane-dependence", fmt.Sprintf("lane %d: %s differs from the result of running lane %d alone", l, rowDiff(F[l].row, got), l)}
			}
		} else if !bytes.Equal(got, st.v[l*1024:(l+1)*1024]) {
			return &c06verdict{"inactive-write", fmt.Sprintf("inactive lane %d: %s changed", l, rowDiff(st.v[l*1024:(l+1)*1024], got))}
		}
	}
	chkMask := func(name string, old, got uint64, fresh bool, bit func(*c06lane) uint64) *c06verdict {
		for l := 0; l < 64; l++ {
			g := got >> uint(l) & 1
			if act(l) {
				if g != bit(F[l]) {
					return &c06verdict{"lane-dependence", fmt.Sprintf("%s bit %d = %d, lane %d alone gives %d (old %016x new %016x)", name, l, g, l, bit(F[l]), old, got)}
				}
			} else {
				want := old >> uint(l) & 1
				if fresh {
					want = 0
				}
				if g != want {
					return &c06verdict{"inactive-write", fmt.Sprintf("%s bit %d of an inactive lane = %d, want %d (old %016x new %016x)", name, l, g, want, old, got)}
				}
			}
		}
		return nil
	}
	if v := chkMask("vcc", st.vcc, res.vcc, freshVCC, func(f *c06lane) uint64 { return f.vccBit }); v != nil {
		return v
	}
	if v := chkMask("s[20:21]", binary.LittleEndian.Uint64(st.s[c06MaskO*4:]), binary.LittleEndian.Uint64(res.s[c06MaskO*4:]), freshMO,
		func(f *c06lane) uint64 { return f.moBit }); v != nil {
		return v
	}
	for k := 0; k+4 <= len(res.s); k += 4 {
		if k/4 == c06MaskO || k/4 == c06MaskO+1 {
			continue
		}
		if !bytes.Equal(res.s[k:k+4], st.s[k:k+4]) {
			return &c06verdict{"lane-dependence", fmt.Sprintf("scalar register s%d changed %x -> %x", k/4, st.s[k:k+4], res.s[k:k+4])}
		}
	}
	if res.scc != st.scc || res.m0 != st.m0 || res.exec != st.exec || res.pc != 0x1000 {
		return &c06verdict{"lane-dependence", fmt.Sprintf("scc/m0/exec/pc changed: scc %d->%d m0 %x->%x exec %x->%x pc %x", st.scc, res.scc, st.m0, res.m0, st.exec, res.exec, res.pc)}
	}
	// accesses: exactly the active lanes', in lane order
	var wantR, wantW [][2]uint64
	for l := 0; l < 64; l++ {
		if act(l) {
			wantR = append(wantR, F[l].reads...)
			wantW = append(wantW, F[l].writes...)
		}
	}
	if v := c.cmpLog("read", wantR, res.reads, F, act, func(f *c06lane) [][2]uint64 { return f.reads }); v != nil {
		return v
	}
	if v := c.cmpLog("write", wantW, res.writes, F, act, func(f *c06lane) [][2]uint64 { return f.writes }); v != nil {
		return v
	}
	// memory / LDS: the active lanes' stores in lane order
	inactiveOwner := func(a uint64) int {
		for l := 0; l < 64; l++ {
			if !act(l) {
				if _, ok := F[l].stores[a]; ok {
					return l
				}
			}
		}
		return -1
	}
	if st.lds != nil {
		want := append([]byte{}, st.lds...)
		for l := 0; l < 64; l++ {
			if act(l) {
				for _, a := range F[l].order {
					want[a] = F[l].stores[a]
				}
			}
		}
		if !bytes.Equal(want, res.lds) {
			for a := range want {
				if want[a] != res.lds[a] {
					if o := inactiveOwner(uint64(a)); o >= 0 {
						return &c06verdict{"inactive-access", fmt.Sprintf("lds[%#x]=%02x want %02x: byte is in the store range of inactive lane %d", a, res.lds[a], want[a], o)}
					}
					return &c06verdict{"lane-dependence", fmt.Sprintf("lds[%#x]=%02x, composition of the active lanes' stores gives %02x", a, res.lds[a], want[a])}
				}
			}
		}
	}
	if st.lds == nil {
		want := map[uint64]byte{}
		for l := 0; l < 64; l++ {
			if act(l) {
				for _, a := range F[l].order {
					want[a] = F[l].stores[a]
				}
			}
		}
		for a, v := range res.mem {
			w, ok := want[a]
			if !ok || w != v {
				if o := inactiveOwner(a); o >= 0 {
					return &c06verdict{"inactive-access", fmt.Sprintf("mem[%#x] written (%02x): byte is in the store range of inactive lane %d", a, v, o)}
				}
				return &c06verdict{"lane-dependence", fmt.Sprintf("mem[%#x]=%02x, composition of the active lanes' stores gives %02x (written=%v)", a, v, w, ok)}
			}
		}
		if len(want) != len(res.mem) {
			return &c06verdict{"lane-dependence", fmt.Sprintf("%d bytes written, the active lanes alone write %d", len(res.mem), len(want))}
		}
	}
	return nil
}

func (c *c06env) cmpLog(what string, want, got [][2]uint64, F []*c06lane, act func(int) bool, sel func(*c06lane) [][2]uint64) *c06verdict {
	if len(want) == len(got) {
		same := true
		for i := range want {
			if want[i] != got[i] {
				same = false
			}
		}
		if same {
			return nil
		}
	}
	// find an access that belongs to an inactive lane
	wantSet := map[[2]uint64]int{}
	for _, a := range want {
		wantSet[a]++
	}
	for _, g := range got {
		if wantSet[g] > 0 {
			wantSet[g]--
			continue
		}
		for l := 0; l < 64; l++ {
			if !act(l) {
				for _, a := range sel(F[l]) {
					if a == g {
						return &c06verdict{"inactive-access", fmt.Sprintf("%s access (addr %#x, %d bytes) performed for inactive lane %d", what, g[0], g[1], l)}
					}
				}
			}
		}
		return &c06verdict{"lane-dependence", fmt.Sprintf("%s access (addr %#x, %d bytes) is not an access of any active lane run alone", what, g[0], g[1])}
	}
	return &c06verdict{"lane-dependence", fmt.Sprintf("%s access log: %d accesses, the active lanes alone perform %d (or in another order)", what, len(got), len(want))}
}

func rowDiff(a, b []byte) string {
	for r := 0; r < 256; r++ {
		if !bytes.Equal(a[r*4:r*4+4], b[r*4:r*4+4]) {
			return fmt.Sprintf("v%d=%08x (expected %08x)", r, binary.LittleEndian.Uint32(b[r*4:]), binary.LittleEndian.Uint32(a[r*4:]))
		}
	}
	return "row equal"
}

func c06caseStr(ci *c06inst, exec uint64, seedNote string) string {
	return fmt.Sprintf("%s exec=%016x %s", ci.String(), exec, seedNote)
}

// checkInst runs all C06 checks for one instruction instance on `nStates` random states.
func (c *c06env) checkInst(ci *c06inst, nStates int) {
	r := c.r
	for sIdx := 0; sIdx < nStates; sIdx++ {
		collide := ci.mem != "" && sIdx%3 == 2
		st := c.newState(ci, collide)
		note := fmt.Sprintf("state#%d collide=%v", sIdx, collide)
		F := make([]*c06lane, 64)
		bad := ""
		for i := 0; i < 64; i++ {
			F[i] = c.laneFn(ci, st, i)
			if F[i].fault != "" && bad == "" {
				bad = F[i].fault
			}
		}
		if bad != "" {
			if strings.HasPrefix(bad, "single-lane-run-wrote-other-lanes") {
				r.Checked("single-lane")
				r.Failf(c.sig(ci, "inactive-write"), c06caseStr(ci, 1, note), "a run with EXEC=1 changed VGPRs of lanes other than 0")
			} else {
				r.Count("skip:fault-in-single-lane-run")
				r.Count("skip-detail:" + ci.arch + "." + ci.handler + ":" + c06short(bad))
			}
			continue
		}
		anyS := false
		for i := 0; i < 64; i++ {
			if F[i].sOther {
				anyS = true
			}
		}
		if anyS {
			r.Checked("scalar-side-effect")
			r.Failf(c.sig(ci, "lane-dependence"), c06caseStr(ci, 1, note), "a vector instruction changed a scalar cell other than its mask destination (SGPR/SCC/M0/EXEC/PC)")
			continue
		}
		// accumulator mode of the mask destinations: what EXEC=0 leaves behind
		z := st.clone()
		z.exec = 0
		z.vcc |= 1
		binary.LittleEndian.PutUint64(z.s[c06MaskO*4:], binary.LittleEndian.Uint64(z.s[c06MaskO*4:])|1)
		rz := c.runOn(ci, z, 0)
		if rz.fault != "" {
			r.Count("skip:fault-exec0")
			continue
		}
		freshVCC := rz.vcc == 0
		freshMO := binary.LittleEndian.Uint64(rz.s[c06MaskO*4:]) == 0
		disjoint := c06Disjoint(F)
		for mi, m := range c06masks(c.rng, r.Tier) {
			s2 := *st
			s2.exec = m
			res := c.runOn(ci, &s2, 0)
			r.Checked("compose")
			c.pop[bits.OnesCount64(m)/8]++
			if v := c.compose(ci, &s2, F, res, freshVCC, freshMO); v != nil {
				r.Failf(c.sig(ci, v.kind), c06caseStr(ci, m, note), "%s", v.detail)
				break
			}
			// poison: inactive lanes hold an address that faults when touched
			if ci.mem != "" && (mi < 2 || mi%9 == 0) {
				p := c.scratch(1, &s2)
				copy(p.v, s2.v)
				copy(p.s, s2.s)
				for l := 0; l < 64; l++ {
					if m>>uint(l)&1 == 0 {
						if ci.mem == "lds" {
							binary.LittleEndian.PutUint32(p.v[l*1024+c06Addr*4:], 0xffff0000)
						} else {
							binary.LittleEndian.PutUint64(p.v[l*1024+c06Addr*4:], 0xdead00000000+uint64(l)*64)
						}
					}
				}
				rp := c.runOn(ci, p, 1)
				r.Checked("poisoned-inactive-address")
				if rp.fault != "" {
					r.Failf(c.sig(ci, "inactive-access"), c06caseStr(ci, m, note+" inactive lanes' address = out of range"), "faults: %s", c06short(rp.fault))
					break
				}
				for _, a := range append(append([][2]uint64{}, rp.reads...), rp.writes...) {
					if a[0] >= 0xdead00000000-0x10000 && a[0] < 0xdead00000000+0x10000 {
						r.Failf(c.sig(ci, "inactive-access"), c06caseStr(ci, m, note), "access to %#x, the address held by an inactive lane", a[0])
					}
				}
			}
			// permutation equivariance
			if mi%5 == 0 || mi < 2 {
				pi := c.rng.Perm(64)
				sp := c.perm(&s2, pi)
				rp := c.runOn(ci, sp, 1)
				r.Checked("perm")
				if v := c.permCheck(ci, &s2, res, sp, rp, pi, disjoint); v != "" {
					r.Failf(c.sig(ci, "perm"), c06caseStr(ci, m, note+" pi="+fmt.Sprint(pi)), "%s", v)
					break
				}
			}
		}
	}
}

func c06short(s string) string {
	s = strings.ReplaceAll(s, "\n", " ")
	if len(s) > 90 {
		s = s[:90]
	}
	return s
}

// c06Disjoint: do all 64 lanes' store byte sets have pairwise empty intersections?
func c06Disjoint(F []*c06lane) bool {
	seen := map[uint64]bool{}
	for _, f := range F {
		for a := range f.stores {
			if seen[a] {
				return false
			}
		}
		for a := range f.stores {
			seen[a] = true
		}
	}
	return true
}

func (c *c06env) permCheck(ci *c06inst, st *c06state, res *c06result, sp *c06state, rp *c06result, pi []int, disjoint bool) string {
	if rp.fault != res.fault {
		return fmt.Sprintf("fault %q vs %q", rp.fault, res.fault)
	}
	for l := 0; l < 64; l++ {
		if !bytes.Equal(rp.v[l*1024:(l+1)*1024], res.v[pi[l]*1024:(pi[l]+1)*1024]) {
			return fmt.Sprintf("lane %d of run(pi s) differs from lane %d of run(s): %s", l, pi[l], rowDiff(res.v[pi[l]*1024:(pi[l]+1)*1024], rp.v[l*1024:(l+1)*1024]))
		}
	}
	if rp.vcc != permBits(res.vcc, pi) {
		return fmt.Sprintf("vcc %016x, want pi(vcc)=%016x", rp.vcc, permBits(res.vcc, pi))
	}
	if rp.exec != permBits(res.exec, pi) {
		return fmt.Sprintf("exec %016x, want %016x", rp.exec, permBits(res.exec, pi))
	}
	mo, moW := binary.LittleEndian.Uint64(rp.s[c06MaskO*4:]), permBits(binary.LittleEndian.Uint64(res.s[c06MaskO*4:]), pi)
	if mo != moW {
		return fmt.Sprintf("s[20:21] %016x, want %016x", mo, moW)
	}
	ms := func(l [][2]uint64) string {
		x := append([][2]uint64{}, l...)
		sort.Slice(x, func(i, j int) bool { return x[i][0] < x[j][0] || (x[i][0] == x[j][0] && x[i][1] < x[j][1]) })
		return fmt.Sprint(x)
	}
	if ms(rp.reads) != ms(res.reads) || ms(rp.writes) != ms(res.writes) {
		return "the multiset of memory accesses differs"
	}
	if disjoint {
		if st.lds != nil && !bytes.Equal(rp.lds, res.lds) {
			return "LDS contents differ although the active lanes' store ranges are pairwise disjoint"
		}
		for a, v := range res.mem {
			if w, ok := rp.mem[a]; !ok || w != v {
				return fmt.Sprintf("mem[%#x]=%02x vs %02x although the active lanes' store ranges are pairwise disjoint", a, w, v)
			}
		}
		if len(rp.mem) != len(res.mem) {
			return "memory footprint differs"
		}
	}
	return ""
}

// ------------------------------------------------------------------ scalar instructions ignore EXEC

// documented EXEC users among the scalar opcodes (GCN3 / Vega / CDNA3 ISA):
// SOP1 s_{and,or,xor,andn2,orn2,nand,nor,xnor}_saveexec_b64 (32..39), s_andn1/orn1/andn1_wrexec/andn2_wrexec (51..54),
// SOPP s_cbranch_execz (8), s_cbranch_execnz (9).
func c06ScalarUsesExec(format string, op int) bool {
	if format == "sop1" && ((op >= 32 && op <= 39) || (op >= 51 && op <= 54)) {
		return true
	}
	if format == "sopp" && (op == 8 || op == 9) {
		return true
	}
	return false
}

func (c *c06env) scalarDescs(format string, op uint32) []desc {
	rng := c.rng
	var out []desc
	for k := 0; k < 3; k++ {
		f := map[string]uint32{}
		d := desc{format: format, op: op, f: f}
		src := func() uint32 {
			switch rng.Intn(4) {
			case 0:
				return uint32(rng.Pick(128, 129, 130, 192, 193, 240))
			case 1:
				d.hasLit, d.literal = true, uint32(rng.U64())
				return 255
			}
			return uint32(rng.Pick(50, 52, 54, 56, 106))
		}
		switch format {
		case "sop2":
			f["ssrc0"], f["sdst"] = src(), uint32(rng.Pick(60, 62, 106))
			if d.hasLit {
				f["ssrc1"] = uint32(rng.Pick(50, 52, 129))
			} else {
				f["ssrc1"] = src()
			}
		case "sop1":
			f["ssrc0"], f["sdst"] = src(), uint32(rng.Pick(60, 62, 106))
		case "sopc":
			f["ssrc0"] = src()
			if d.hasLit {
				f["ssrc1"] = uint32(rng.Pick(50, 52, 129))
			} else {
				f["ssrc1"] = src()
			}
		case "sopk":
			f["sdst"], f["simm16"] = uint32(rng.Pick(60, 62)), uint32(rng.Intn(65536))
		case "sopp":
			f["simm16"] = uint32(rng.Intn(65536))
		case "smem":
			f["sbase"], f["sdata"], f["imm"], f["offset"] = 20, 64, 1, uint32(rng.Intn(64)*4)
		}
		out = append(out, d)
	}
	return out
}

func (c *c06env) checkScalar(arch, format string, it *insts.InstType) (implemented bool) {
	r := c.r
	for di, d := range c.scalarDescs(format, uint32(it.Opcode)) {
		inst, words, err := c.decode(arch, d)
		if err != nil {
			r.Count("scalar-undecodable")
			continue
		}
		ci := &c06inst{arch: arch, format: format, op: int(it.Opcode), iname: it.InstName, inst: inst, words: words, variant: "scalar",
			handler: c.hand[fmt.Sprintf("%s/%s/%d", arch, format, it.Opcode)]}
		if ci.handler == "" {
			ci.handler = fmt.Sprintf("%s_%d", format, it.Opcode)
		}
		st := c.newState(ci, false)
		binary.LittleEndian.PutUint64(st.s[20*4:], 0x7e0000100000)
		e1, e2 := c.rng.U64()|1, c.rng.U64()&^1
		if di == 0 {
			e2 = 0
		}
		a, b := *st, *st
		a.exec, b.exec = e1, e2
		ra, rb := c.runOn(ci, &a, 0), c.runOn(ci, &b, 1)
		if strings.Contains(ra.fault, "not implemented") || strings.Contains(ra.fault, "not supported") {
			return false
		}
		implemented = true
		r.Checked("scalar-ignores-exec")
		if c06ScalarUsesExec(format, int(it.Opcode)) {
			r.Count("scalar-documented-exec-user")
			continue
		}
		same := ra.fault == rb.fault && bytes.Equal(ra.s, rb.s) && bytes.Equal(ra.v, rb.v) && ra.vcc == rb.vcc && ra.scc == rb.scc &&
			ra.pc == rb.pc && ra.m0 == rb.m0 && ra.exec == e1 && rb.exec == e2 && fmt.Sprint(ra.reads) == fmt.Sprint(rb.reads)
		if !same {
			r.Failf(fmt.Sprintf("C06.%s.%s.scalar-exec", arch, ci.handler), fmt.Sprintf("%s exec=%016x vs exec=%016x", ci.String(), e1, e2),
				"a scalar instruction that does not name EXEC behaves differently under two EXEC masks (or changes EXEC): fault %q/%q exec %x/%x pc %x/%x scc %d/%d",
				ra.fault, rb.fault, ra.exec, rb.exec, ra.pc, rb.pc, ra.scc, rb.scc)
		}
	}
	return implemented
}

// ------------------------------------------------------------------ correspondence with the Lean model

func c06words(xs []uint32) string {
	p := make([]string, len(xs))
	for i, x := range xs {
		p[i] = strconv.FormatUint(uint64(x), 16)
	}
	return strings.Join(p, ",")
}

func c06memByte(a uint64) byte { return byte((a*37 + 11) % 251) }

// corr runs the few concrete handlers the Lean model instantiates (`C06.handle`).
func (c *c06env) corr(n int) {
	r, rng := c.r, c.rng
	type kind struct {
		name, arch, format string
		op                 uint32
		f                  map[string]uint32
	}
	v := func(n uint32) uint32 { return 256 + n }
	kinds := []kind{
		{"add", "gcn3", "vop2", 25, map[string]uint32{"src0": v(0), "vsrc1": 1, "vdst": 2}},
		{"add", "cdna3", "vop2", 25, map[string]uint32{"src0": v(0), "vsrc1": 1, "vdst": 2}},
		{"addc_fresh", "gcn3", "vop2", 28, map[string]uint32{"src0": v(0), "vsrc1": 1, "vdst": 2}},
		{"addc_fresh", "cdna3", "vop2", 28, map[string]uint32{"src0": v(0), "vsrc1": 1, "vdst": 2}},
		{"cmplt", "gcn3", "vopc", 0xC9, map[string]uint32{"src0": v(0), "vsrc1": 1}},
		{"cmplt", "cdna3", "vopc", 0xC9, map[string]uint32{"src0": v(0), "vsrc1": 1}},
		{"cndmask", "gcn3", "vop2", 0, map[string]uint32{"src0": v(0), "vsrc1": 1, "vdst": 2}},
		{"cndmask", "cdna3", "vop2", 0, map[string]uint32{"src0": v(0), "vsrc1": 1, "vdst": 2}},
		{"dswrite", "gcn3", "ds", 13, map[string]uint32{"addr": 0, "data0": 1}},
		{"dswrite", "cdna3", "ds", 13, map[string]uint32{"addr": 0, "data0": 1}},
		{"dsread", "gcn3", "ds", 54, map[string]uint32{"addr": 0, "vdst": 2}},
		{"dsread", "cdna3", "ds", 54, map[string]uint32{"addr": 0, "vdst": 2}},
		{"flatstore", "gcn3", "flat", 28, map[string]uint32{"addr": 0, "data": 2, "saddr": 0x7f}},
		{"flatstore", "cdna3", "flat", 28, map[string]uint32{"addr": 0, "data": 2, "saddr": 0x7f}},
		{"flatload", "gcn3", "flat", 20, map[string]uint32{"addr": 0, "vdst": 2, "saddr": 0x7f}},
		{"flatload", "cdna3", "flat", 20, map[string]uint32{"addr": 0, "vdst": 2, "saddr": 0x7f}},
	}
	for it := 0; it < n; it++ {
		k := kinds[it%len(kinds)]
		f := map[string]uint32{}
		for a, b := range k.f {
			f[a] = b
		}
		off := uint32(0)
		if k.format == "ds" {
			off = uint32(rng.Intn(200))
			f["offset0"], f["offset1"] = off&0xff, 0
		}
		inst, words, err := c.decode(k.arch, desc{format: k.format, op: k.op, f: f})
		if err != nil {
			r.Note("C06 correspondence: %s does not decode: %v", k.name, err)
			continue
		}
		ci := &c06inst{arch: k.arch, format: k.format, op: int(k.op), inst: inst, words: words, iname: k.name, handler: k.name}
		var exec uint64
		switch rng.Intn(6) {
		case 0:
			exec = 0
		case 1:
			exec = ^uint64(0)
		case 2:
			exec = uint64(1) << uint(rng.Intn(64))
		case 3:
			exec = ^(uint64(1) << uint(rng.Intn(64)))
		default:
			exec = rng.U64()
		}
		vcc := rng.U64()
		a, b := make([]uint32, 64), make([]uint32, 64)
		st := &c06state{v: make([]byte, len(c.e.wf.VRegFile)), s: make([]byte, len(c.e.wf.SRegFile)), mem: map[uint64]byte{}, vcc: vcc, exec: exec}
		collide := rng.Chance(30)
		slots := rng.Perm(64)
		for l := 0; l < 64; l++ {
			switch rng.Intn(4) {
			case 0:
				a[l], b[l] = 0xffffffff-uint32(rng.Intn(4)), uint32(rng.Intn(6))
			case 1:
				a[l] = uint32(rng.Intn(5))
				b[l] = a[l] + uint32(rng.Intn(3)) - 1
			default:
				a[l], b[l] = uint32(rng.U64()), uint32(rng.U64())
			}
			if k.format == "ds" || k.format == "flat" {
				a[l] = uint32(slots[l]*16 + 64)
				if collide {
					a[l] = uint32(64 + rng.Intn(8)*2)
				}
			}
			if k.format == "flat" {
				// 64-bit address in v[0:1]: v1 is the high half = b; keep it small and fixed
				b[l] = 0x7f
			}
			binary.LittleEndian.PutUint32(st.v[l*1024+0:], a[l])
			binary.LittleEndian.PutUint32(st.v[l*1024+4:], b[l])
			binary.LittleEndian.PutUint32(st.v[l*1024+8:], 0xabcd0000+uint32(l))
		}
		if k.format == "ds" {
			st.lds = make([]byte, len(c.e.lds))
			for i := range st.lds {
				st.lds[i] = c06memByte(uint64(i))
			}
		}
		if k.format == "flat" {
			for l := 0; l < 64; l++ {
				ad := uint64(b[l])<<32 | uint64(a[l])
				for j := uint64(0); j < 4; j++ {
					st.mem[ad+j] = c06memByte(ad + j)
				}
			}
		}
		res := c.runOn(ci, st, 0)
		line := fmt.Sprintf("c06 vexec %s exec=%x vcc=%x off=%d a=%s b=%s", k.name, exec, vcc, off, c06words(a), c06words(b))
		if res.fault != "" {
			r.Case(line, "fault:"+c06short(res.fault))
			continue
		}
		d := make([]uint32, 64)
		w := make([]uint32, 64)
		for l := 0; l < 64; l++ {
			d[l] = binary.LittleEndian.Uint32(res.v[l*1024+8:])
			var ad uint64
			var get func(uint64) byte
			switch k.format {
			case "ds":
				ad = uint64(a[l] + off)
				get = func(x uint64) byte { return res.lds[x] }
			case "flat":
				ad = uint64(b[l])<<32 | uint64(a[l])
				get = func(x uint64) byte {
					if bb, ok := res.mem[x]; ok {
						return bb
					}
					return c06memByte(x)
				}
			default:
				continue
			}
			w[l] = uint32(get(ad)) | uint32(get(ad+1))<<8 | uint32(get(ad+2))<<16 | uint32(get(ad+3))<<24
		}
		// canonical per-byte access log: (isWrite, addr) in program order
		var lg []byte
		nacc := 0
		for _, rd := range res.reads {
			for j := uint64(0); j < rd[1]; j++ {
				lg = append(lg, 0)
				lg = binary.LittleEndian.AppendUint64(lg, rd[0]+j)
				nacc++
			}
		}
		for _, wr := range res.writes {
			for j := uint64(0); j < wr[1]; j++ {
				lg = append(lg, 1)
				lg = binary.LittleEndian.AppendUint64(lg, wr[0]+j)
				nacc++
			}
		}
		r.Case(line, fmt.Sprintf("d=%s m=%x w=%s log=%d:%x", c06words(d), res.vcc, c06words(w), nacc, fnv(lg)))
		r.Count("corr:" + k.name)
	}
}

// ------------------------------------------------------------------ main

func runC06(r *Run, rng *Rng, replay string) {
	log.SetOutput(io.Discard) // log.Panicf of the ALUs prints before panicking
	c := &c06env{r: r, rng: rng, e: newALUEnv(), mem: &c06mem{}}
	c.e.gcn3 = emu.NewALU(c.mem)
	c.e.cdna3 = cdna3.NewALU(c.mem)
	c.e.gcn3.SetLDS(c.e.lds)
	c.e.cdna3.SetLDS(c.e.lds)
	c.ldsNeg = make([]byte, len(c.e.lds))
	defer func() {
		for k, n := range c.pop {
			r.CountN(fmt.Sprintf("exec-popcount:%02d..", k*8), n)
		}
	}()
	c.ldsBase = make([]byte, len(c.e.lds))
	c.fillRandom(c.ldsBase)
	hand, funcs, err := c06ScanSwitches()
	if err != nil {
		r.Note("C06: cannot parse the emulator sources for handler names: %v", err)
		hand, funcs = map[string]string{}, map[string][]string{}
	}
	c.hand = hand

	nStates := 1
	if r.Tier == "thorough" {
		nStates = 6
	}
	rows := map[string][]*insts.InstType{}
	for _, it := range c.e.dGCN3.VerifRows() {
		rows["gcn3/"+c06FormatOf(it)] = append(rows["gcn3/"+c06FormatOf(it)], it)
	}
	for _, it := range c.e.dCDNA.VerifRows() {
		rows["cdna3/"+c06FormatOf(it)] = append(rows["cdna3/"+c06FormatOf(it)], it)
	}
	for k := range rows {
		l := rows[k]
		sort.Slice(l, func(i, j int) bool { return l[i].Opcode < l[j].Opcode })
	}

	for _, arch := range []string{"gcn3", "cdna3"} {
		for _, format := range c06VecFormats {
			var tableOps, implOps []string
			seen := map[int]bool{}
			for _, it := range rows[arch+"/"+format] {
				op := int(it.Opcode)
				if seen[op] {
					continue
				}
				seen[op] = true
				tableOps = append(tableOps, strconv.Itoa(op))
				if only := os.Getenv("C06_ONLY"); only != "" && it.InstName != only {
					continue
				}
				implemented := false
				for vi, d := range c.variants(arch, format, it) {
					inst, words, err := c.decode(arch, d)
					if err != nil {
						r.Count("undecodable-variant")
						continue
					}
					ci := &c06inst{arch: arch, format: format, op: op, iname: it.InstName, inst: inst, words: words, variant: fmt.Sprint(vi),
						handler: hand[fmt.Sprintf("%s/%s/%d", arch, format, op)]}
					if ci.handler == "" {
						ci.handler = fmt.Sprintf("%s_%d", format, op)
					}
					if format == "ds" {
						ci.mem = "lds"
					}
					if format == "flat" {
						ci.mem = "flat"
					}
					// probe: does the opcode switch know it?
					st := c.newState(ci, false)
					st.exec = ^uint64(0)
					pr := c.runOn(ci, st, 0)
					if strings.Contains(pr.fault, "Opcode") && strings.Contains(pr.fault, "format") && strings.Contains(pr.fault, "is not implemented") {
						break // not in the opcode switch
					}
					if pr.fault != "" {
						implemented = true // the switch dispatches; this variant is refused by the handler (or faults)
						r.Count("skip:variant-faults-with-all-lanes")
						r.Count("skip-detail:" + arch + "." + ci.handler + ":" + c06short(pr.fault))
						continue
					}
					implemented = true
					if format == "vop1" && op == 2 { // v_readfirstlane_b32: the documented cross-lane exception
						r.Count("exception:v_readfirstlane_b32")
						continue
					}
					r.Count("inst:" + arch + "/" + format)
					c.checkInst(ci, nStates)
				}
				if implemented {
					implOps = append(implOps, strconv.Itoa(op))
				}
			}
			r.Case(fmt.Sprintf("c06 dispatch %s %s rows=%s", arch, format, strings.Join(tableOps, ",")), "impl="+strings.Join(implOps, ","))
		}
		for _, format := range c06ScaFormats {
			seen := map[int]bool{}
			for _, it := range rows[arch+"/"+format] {
				if seen[int(it.Opcode)] {
					continue
				}
				seen[int(it.Opcode)] = true
				if c.checkScalar(arch, format, it) {
					r.Count("scalar-inst:" + arch + "/" + format)
				}
			}
		}
	}
	// handler inventory: every method with a `state` parameter in the vector files has a fact record
	for _, arch := range []string{"gcn3", "cdna3"} {
		for _, f := range c06VectorFiles[arch] {
			names := funcs[arch+":"+f]
			r.Case(fmt.Sprintf("c06 handlers %s %s", arch, f), fmt.Sprintf("n=%d %s", len(names), strings.Join(names, ",")))
		}
	}
	n := 400
	if r.Tier == "thorough" {
		n = 4000
	}
	c.corr(n)
}
