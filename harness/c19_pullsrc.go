package main

import (
	"fmt"

	"github.com/sarchlab/akita/v4/mem/mem"
	"github.com/sarchlab/akita/v4/sim"
	pmc "github.com/sarchlab/mgpusim/v4/amd/timing/pagemigrationcontroller"
)

// The SOURCE side of a page migration with more than one destination GPU over time: one real page
// migration controller serves data-pull requests of 2-3 different remote controllers, one request
// at a time (pages of one source GPU migrate to different GPUs one after the other). Every pull is
// answered exactly once, to the controller that sent it, with its id and with the bytes the local
// memory returned for that address. Oracle only (the Lean world has two controllers).
func c19PullSourceScenario(r *Run, rng *Rng) {
	c := pmc.NewPageMigrationController("GPU1.PMC", &fakeEngine{}, &mem.SinglePortMapper{Port: sim.RemotePort("GPU1.DRAM")}, nil)
	remote, local, ctrl := c.GetPortByName("Remote"), c.GetPortByName("LocalMem"), c.GetPortByName("Control")
	for _, p := range []sim.Port{remote, local, ctrl} {
		(&fakeConn{name: "c"}).PlugIn(p)
	}
	nreq := rng.Range(2, 3)
	reqs := make([]sim.RemotePort, nreq)
	for i := range reqs {
		reqs[i] = sim.RemotePort(fmt.Sprintf("GPU%d.PMC.RemotePort", i+2))
	}
	var hist []string
	n := rng.Range(3, 12)
	who := 0
	for k := 0; k < n; k++ {
		if rng.Chance(45) {
			who = rng.Intn(nreq) // a later migration: another GPU pulls
		}
		paddr := uint64(0x1000*(1+rng.Intn(16)) + 64*rng.Intn(64))
		fill := byte(rng.Intn(255) + 1)
		hist = append(hist, fmt.Sprintf("pull %x by %s", paddr, reqs[who]))
		desc := fmt.Sprint(hist)
		pull := pmc.DataPullReqBuilder{}.WithSrc(reqs[who]).WithDst(remote.AsRemote()).WithDataTransferSize(64).WithReadFromPhyAddress(paddr).Build()
		fault := catch(func() {
			if remote.Deliver(pull) != nil {
				panic("remote port refused the pull request")
			}
			var read *mem.ReadReq
			for i := 0; i < 20 && read == nil; i++ {
				c.Tick()
				if m := local.RetrieveOutgoing(); m != nil {
					read, _ = m.(*mem.ReadReq)
				}
			}
			r.Checked("pmc.pull-read")
			if read == nil || read.Address != paddr || read.AccessByteSize != 64 {
				r.Failf("C19.pmc.pull-read", desc, "pull of %x: local read %+v", paddr, read)
				return
			}
			data := make([]byte, 64)
			for i := range data {
				data[i] = fill
			}
			if local.Deliver(mem.DataReadyRspBuilder{}.WithSrc(read.Dst).WithDst(local.AsRemote()).WithRspTo(read.ID).WithData(data).Build()) != nil {
				panic("local port refused the data")
			}
			answers := 0
			for i := 0; i < 20; i++ {
				c.Tick()
				m := remote.RetrieveOutgoing()
				if m == nil {
					continue
				}
				rsp, ok := m.(*pmc.DataPullRsp)
				r.Checked("pmc.pull-answer")
				answers++
				switch {
				case !ok:
					r.Failf("C19.pmc.pull-answer", desc, "answered with %T", m)
				case rsp.Dst != reqs[who]:
					r.Failf("C19.pmc.pull-answer-to-wrong-requester", desc, "the data pulled by %s was sent to %s", reqs[who], rsp.Dst)
				case rsp.ID != pull.ID || len(rsp.Data) != 64 || rsp.Data[0] != fill || rsp.Data[63] != fill:
					r.Failf("C19.pmc.pull-answer", desc, "answer id %s (pull %s), %d bytes, first byte %x want %x", rsp.ID, pull.ID, len(rsp.Data), rsp.Data[0], fill)
				}
			}
			if answers != 1 {
				r.Failf("C19.pmc.pull-answer-count", desc, "pull of %x answered %d times", paddr, answers)
			}
		})
		if fault != "" {
			r.Failf("C19.pmc.pull-fault", desc, "%s", fault)
			return
		}
	}
	r.Count("pmc.pull-source.scenario")
}

func init() {
	register("C19", func(r *Run, rng *Rng, _ string) {
		n := 80
		if r.Tier == "thorough" {
			n = 2000
		}
		for i := 0; i < n; i++ {
			c19PullSourceScenario(r, rng)
		}
	})
}
