package main

import (
	"fmt"
	"os"
	"strings"
	"time"

	"github.com/sarchlab/mgpusim/v4/amd/driver"
)

// =====================================================================================
// EXPERIMENT (off by default; C05_REST=1): gate-level schedules on a driver that carries the
// candidate repair of the hand-off finding — notes/C05-rest-wait.patch, a rest-wait at the end of
// DrainCommandQueue — against the Lean model of the repaired protocol `C05.R`
// (case lines `c05 rsched …`). With the unpatched driver these lines DIFFER (the application
// goroutine never blocks in sync.Cond.Wait), which is why the runner is opt-in.
// Oracle C05.rest.sched-time: with the patch every complete interleaving must show the completion
// times and the final time of the sequential specification (Lean: rest_wait_times_deterministic).
// =====================================================================================

func init() { register("C05", runC05Rest) }

func c05RestObs(out string) string {
	if strings.HasPrefix(out, "?sync.Cond.Wait") {
		return "rest" + strings.TrimPrefix(out, "?sync.Cond.Wait")
	}
	return out
}

func c05RestExec(r *Run, rounds []int, choose func(i int, en []string) string, maxSteps int) (res c05TimedResult, ok bool) {
	if c12Poisoned || c12Hangs >= 3 {
		return res, false
	}
	s := c12NewSys(rounds)
	t0 := float64(s.eng.CurrentTime())
	var taken, outs, order, times []string
	o, okS := s.settle()
	if !okS {
		s.freeRun(50 * time.Millisecond)
		s.teardown()
		return res, false
	}
	prev := o.cmds
	failed := false
	nowBefore := c05Cycles(s, t0)
	for i := 0; i < maxSteps; i++ {
		var en []string
		for _, role := range []string{"a", "r", "e"} {
			if s.canMove(role) {
				en = append(en, role)
			}
		}
		if len(en) == 0 {
			break
		}
		role := choose(i, en)
		if role == "" {
			break
		}
		out, o2, okM := s.move(role)
		taken = append(taken, role)
		if !okM {
			failed = true
			outs = append(outs, "unsettled")
			break
		}
		if out == "-" {
			outs = append(outs, "-")
			continue
		}
		now := c05Cycles(s, t0)
		outs = append(outs, fmt.Sprintf("%s@%d", c05RestObs(out), now))
		if role == "e" {
			for len(prev) > 0 && (len(o2.cmds) == 0 || prev[0] != o2.cmds[0]) {
				order = append(order, prev[0])
				times = append(times, fmt.Sprintf("%s@%d", prev[0], nowBefore))
				prev = prev[1:]
			}
		}
		nowBefore = now
		prev = o2.cmds
		o = o2
	}
	res.complete = !failed && s.done() && o.e == "none" && o.r == "idle"
	if !s.freeRun(2 * time.Second) {
		c12Hangs++
		if !s.rescue() {
			c12Poisoned = true
		}
		failed = true
	}
	s.teardown()
	if failed {
		return res, false
	}
	res.final = c05Cycles(s, t0)
	res.line = fmt.Sprintf("c05 rsched rounds=%s ; %s", c12RoundsStr(rounds), strings.Join(taken, " "))
	res.order = strings.Join(order, ",")
	res.times = strings.Join(times, " ")
	res.sched = strings.Join(taken, " ")
	r.Case(res.line, strings.Join(outs, " "))
	r.Count("rsched")
	return res, true
}

func runC05Rest(r *Run, rng *Rng, replay string) {
	if os.Getenv("C05_REST") == "" {
		return
	}
	driver.VerifYield = c12Yield
	defer func() { c12DropShared(); driver.VerifYield = nil }()
	scripts := [][]int{{1, 1}, {2, 1}, {1, 0, 1}, {1, 2}, {3, 1}, {1, 1, 1}, {2, 2}, {0, 1, 1}}
	per := 40
	if r.Tier == "thorough" {
		per = 300
	}
	for _, rounds := range scripts {
		st, end := c05SpecTimes(rounds)
		for k := 0; k < per && !c12Poisoned; k++ {
			choose := c05Prefer("a", "r", "e") // the application thread always moves as early as it can
			if k == 1 {
				choose = c05Prefer("e", "r", "a")
			}
			if k > 1 {
				bias := rng.Pick(0, 1, 2, 3)
				choose = func(i int, en []string) string {
					if bias < 3 && rng.Chance(60) {
						fav := []string{"a", "r", "e"}[bias]
						for _, x := range en {
							if x == fav {
								return x
							}
						}
					}
					return en[rng.Intn(len(en))]
				}
			}
			res, ok := c05RestExec(r, rounds, choose, 400)
			if !ok || !res.complete {
				r.Count("rsched.incomplete")
				continue
			}
			r.Checked("rest.sched-time")
			if res.times != st || res.final != end {
				r.Failf("C05.rest.sched-time", res.line, "driver with the rest-wait, script %v: command@cycle {%s} end=%d under this interleaving, sequential specification {%s} end=%d", rounds, res.times, res.final, st, end)
			}
		}
	}
}
