package main

// Property C10, buddy allocator (deviceBuddyMemoryState): correspondence with the Lean model
// lean/MgpuModel/C10Buddy.lean plus the allocation-only oracle of theorem buddy_alloc_disjoint.
//
// Histories run through the real driver API (AllocateMemory, Remap, FreeMemory, RemovePage) on GPU
// device 1 built with the buddy memory state, single PID. Each driver op is translated into the
// device-level op of the case line `c10 buddy base=.. size=.. v=.. ; pop k ; am n ; add p,p,…`:
//   alloc of k pages   -> pop k   (k × Device.allocatePage)
//   remap of n pages   -> amadd n p,… (Device.allocateMultiplePages(n), then addSinglePAddr of the replaced
//                         physical pages: the repaired Remap gives them back; `am n` when nothing is replaced)
//   free / rmpage      -> add …   (addSinglePAddr of the physical pages, read from the page table first)
// Implementation answer per op = physical pages now mapped (read back from the page table) + the free
// blocks (VerifBuddyFreeBlocks). Oracles: `C10.buddy.alloc_only.*` on allocation-only histories,
// `C10.buddy.with_free` (no mapped page in a free block, free blocks disjoint) after every step of a
// history with frees on a power-of-two device (the merge-bit defect is repaired); c10.go checks the
// same on its own histories.

import (
	"fmt"
	"strconv"
	"strings"

	"github.com/sarchlab/akita/v4/mem/vm"
)

func init() { register("C10", runC10Deep) }

type c10dBuf struct {
	ptr   uint64
	pages int
	gone  []bool // page removed by rmpage
	holes bool
	freed bool
}

type c10dCase struct {
	r       *Run
	s       *c10Sys
	pid     vm.PID
	base    uint64
	size    uint64
	pow2    bool
	verbose bool
	ops     []string // device-level ops (case line)
	drvOps  []string
	outs    []string
	bufs    []*c10dBuf
	handed  map[uint64]bool // every physical page ever returned
	hasFree bool
	done    bool
	failed  bool
}

func newC10dCase(r *Run, cpuPages, gpuPages int, verbose bool) *c10dCase {
	s := newC10Sys(12, cpuPages, []int{gpuPages}, false, true)
	s.exec("init")
	c := &c10dCase{r: r, s: s, verbose: verbose, handed: map[uint64]bool{}}
	c.pid = s.ctxs[0].VerifPID()
	c.base, c.size = s.drv.VerifDeviceRange(1)
	c.pow2 = gpuPages&(gpuPages-1) == 0
	return c
}

func (c *c10dCase) line() string {
	return fmt.Sprintf("c10 buddy base=%x size=%x v=%d ; %s", c.base, c.size, b2i(c.verbose), strings.Join(c.ops, " ; "))
}

func (c *c10dCase) freeDump() (string, [][2]uint64) {
	bl, _ := c.s.drv.VerifBuddyFreeBlocks(1)
	nl := 0
	for (uint64(4096) << nl) < c.size { // len(freeList) = order+1, as setStorageSize computes it
		nl++
	}
	lv := make([][]string, nl+1)
	for _, b := range bl {
		if int(b[1]) < len(lv) {
			lv[b[1]] = append(lv[b[1]], hexs(b[0]))
		}
	}
	parts := make([]string, len(lv))
	for i := range lv {
		parts[i] = strconv.Itoa(i) + ":" + strings.Join(lv[i], ",")
	}
	return strings.Join(parts, " "), bl
}

// record the answer of a successful op
func (c *c10dCase) answer(res string) [][2]uint64 {
	d, bl := c.freeDump()
	if c.verbose {
		c.outs = append(c.outs, res+" "+d)
	} else {
		c.outs = append(c.outs, res+" #"+strconv.FormatUint(fnvStr(d), 16))
	}
	return bl
}

func (c *c10dCase) fault(out string) {
	c.outs = append(c.outs, out)
	c.r.Count("buddy.outcome:" + out)
	c.done = true
	if !c.hasFree && c.pow2 && out != "fault:oom" {
		c.fail("crash", "allocation-only history crashed with %s", out)
	}
}

func (c *c10dCase) fail(kind, format string, a ...interface{}) {
	if c.failed {
		return
	}
	c.failed = true
	c.done = true
	c.r.Failf("C10.buddy.alloc_only."+kind, c.line()+"   [driver ops: "+strings.Join(c.drvOps, " ; ")+"]", format, a...)
}

func (c *c10dCase) mapped(v uint64, n int) []uint64 {
	var out []uint64
	for i := 0; i < n; i++ {
		if pg, ok := c.s.pt.Find(c.pid, v+uint64(i)*4096); ok {
			out = append(out, pg.PAddr)
		}
	}
	return out
}

func hexList(ps []uint64) string {
	p := make([]string, len(ps))
	for i, x := range ps {
		p[i] = hexs(x)
	}
	return strings.Join(p, ",")
}

// the oracle of buddy_alloc_disjoint, evaluated on the real state after an allocation
func (c *c10dCase) allocOracle(pages []uint64, bl [][2]uint64) {
	for _, p := range pages {
		if p < c.base || p+4096 > c.base+c.size || (p-c.base)%4096 != 0 {
			if !c.pow2 && !c.hasFree {
				c.r.Count("buddy.nonpow2.alloc_only.page_unaligned_or_outside")
			} else if !c.hasFree {
				c.fail("range", "page %x outside device [%x,+%x) or unaligned", p, c.base, c.size)
			}
		}
		if c.handed[p] {
			if !c.pow2 && !c.hasFree {
				c.r.Count("buddy.nonpow2.alloc_only.page_twice")
			} else if !c.hasFree {
				c.fail("dup", "physical page %x handed out twice", p)
			}
		}
		c.handed[p] = true
	}
	if c.hasFree && c.pow2 {
		c.freeOracle()
	}
	if c.hasFree || !c.pow2 {
		return
	}
	for _, b := range bl {
		sz := c.size >> b[1]
		for p := range c.handed {
			if p >= b[0] && p < b[0]+sz {
				c.fail("free_live", "handed-out page %x lies in free block %x level %d", p, b[0], b[1])
			}
		}
	}
	c.r.Checked("buddy.alloc_only")
}

func (c *c10dCase) alloc(k int) {
	if c.done {
		return
	}
	op := fmt.Sprintf("alloc 0 %x", k*4096)
	c.drvOps = append(c.drvOps, op)
	c.ops = append(c.ops, fmt.Sprintf("pop %d", k))
	c.r.Count("buddy.op:pop")
	res := c.s.exec(op)
	if res.fault {
		c.fault(res.out)
		return
	}
	ptr, _ := strconv.ParseUint(res.out[1:], 16, 64)
	pages := c.mapped(ptr, k)
	bl := c.answer("=" + hexList(pages))
	c.bufs = append(c.bufs, &c10dBuf{ptr: ptr, pages: k, gone: make([]bool, k)})
	c.allocOracle(pages, bl)
}

func (c *c10dCase) remap(b *c10dBuf, off, n int) {
	if c.done || b == nil {
		return
	}
	addr := b.ptr + uint64(off)*4096
	op := fmt.Sprintf("remap 0 %x %x 1", addr, n*4096)
	c.drvOps = append(c.drvOps, op)
	// the repaired Remap gives the pages it replaces back to their device (here: the same device, one
	// process): allocateMultiplePages(n), then addSinglePAddr of every replaced page, in address order
	old := c.mapped(addr, n)
	if len(old) > 0 {
		c.ops = append(c.ops, fmt.Sprintf("amadd %d %s", n, hexList(old)))
		c.hasFree = true
	} else {
		c.ops = append(c.ops, fmt.Sprintf("am %d", n))
	}
	c.r.Count("buddy.op:am")
	res := c.s.exec(op)
	if res.fault {
		c.fault(res.out)
		return
	}
	pages := c.mapped(addr, n)
	bl := c.answer("=" + hexList(pages))
	c.allocOracle(pages, bl)
}

func (c *c10dCase) free(b *c10dBuf) {
	if c.done || b == nil {
		return
	}
	// MemoryAllocator.Free: removePage(ptr), then pages 1..n-1 of the allocation
	pages := c.mapped(b.ptr, b.pages)
	op := fmt.Sprintf("free 0 %x", b.ptr)
	c.drvOps = append(c.drvOps, op)
	c.ops = append(c.ops, "add "+hexList(pages))
	c.r.Count("buddy.op:add")
	c.hasFree = true
	res := c.s.exec(op)
	if res.fault {
		c.fault(res.out)
		return
	}
	b.freed = true
	c.answer("ok")
	if c.pow2 {
		c.freeOracle()
	}
}

func (c *c10dCase) rmpage(b *c10dBuf, i int) {
	if c.done || b == nil {
		return
	}
	v := b.ptr + uint64(i)*4096
	pages := c.mapped(v, 1)
	op := fmt.Sprintf("rmpage %x", v)
	c.drvOps = append(c.drvOps, op)
	c.ops = append(c.ops, "add "+hexList(pages))
	c.r.Count("buddy.op:add")
	c.hasFree = true
	res := c.s.exec(op)
	if res.fault {
		c.fault(res.out)
		return
	}
	b.gone[i] = true
	b.holes = true
	c.answer("ok")
	if c.pow2 {
		c.freeOracle()
	}
}

// freeOracle: the statement of buddy_disjoint_full_holds on the real state of a history with frees
// (power-of-two device): no mapped page inside a free block, free blocks pairwise disjoint.
func (c *c10dCase) freeOracle() {
	if c.failed {
		return
	}
	lf, ov := c.defects()
	c.r.Checked("buddy.with_free")
	if lf || ov {
		c.failed = true
		c.done = true
		c.r.Failf("C10.buddy.with_free", c.line()+"   [driver ops: "+strings.Join(c.drvOps, " ; ")+"]",
			"live page inside a free block=%v, free blocks overlap=%v", lf, ov)
	}
}

// liveInFree: does a mapped physical page lie inside a free block / do two free blocks overlap?
func (c *c10dCase) defects() (liveInFree, overlap bool) {
	bl, _ := c.s.drv.VerifBuddyFreeBlocks(1)
	for _, e := range c.s.entries() {
		for _, b := range bl {
			if e.pg.PAddr >= b[0] && e.pg.PAddr < b[0]+(c.size>>b[1]) {
				liveInFree = true
			}
		}
	}
	for i, a := range bl {
		for _, b := range bl[i+1:] {
			if a[0] < b[0]+(c.size>>b[1]) && b[0] < a[0]+(c.size>>a[1]) {
				overlap = true
			}
		}
	}
	return
}

func (c *c10dCase) finish(kind string) {
	c.r.Count("buddy.hist:" + kind)
	if c.hasFree {
		c.r.Count("buddy.hist.with_free")
	} else {
		c.r.Count("buddy.hist.alloc_only")
	}
	c.r.Case(c.line(), strings.Join(c.outs, " ; "))
}

func (c *c10dCase) buf(i int) *c10dBuf {
	if i < len(c.bufs) {
		return c.bufs[i]
	}
	return nil
}

func (c *c10dCase) live() []*c10dBuf {
	var out []*c10dBuf
	for _, b := range c.bufs {
		if !b.freed {
			out = append(out, b)
		}
	}
	return out
}

// maxFreePages: pages of the largest free block (what a single request can get at most)
func (c *c10dCase) maxFreePages() int {
	bl, _ := c.s.drv.VerifBuddyFreeBlocks(1)
	m := 0
	for _, b := range bl {
		if n := int((c.size >> b[1]) / 4096); n > m {
			m = n
		}
	}
	return m
}

// request size: mostly within what is available (an over-sized request ends the history with oom)
func (c *c10dCase) reqPages(rng *Rng, max int) int {
	k := c10dPages(rng, max)
	if m := c.maxFreePages(); k > m && m > 0 && rng.Chance(85) {
		k = rng.Range(1, m)
	}
	return k
}

func c10dPages(rng *Rng, max int) int {
	switch rng.Intn(10) {
	case 0, 1, 2, 3:
		return 1
	case 4, 5:
		return 1 << rng.Range(0, 3)
	case 6, 7:
		return rng.Pick(2, 3, 5, 6, 7, 9)
	case 8:
		return rng.Range(1, max+1)
	}
	return rng.Range(1, 4)
}

func c10dRandom(r *Run, rng *Rng, idx int) {
	gpuPages := 1 << rng.Range(0, 6)
	if rng.Chance(8) {
		gpuPages = rng.Pick(3, 5, 6, 7, 12, 24, 48)
	}
	cpuPages := rng.Pick(0, 1, 2, 3, 4, 8)
	c := newC10dCase(r, cpuPages, gpuPages, idx < 60)
	r.Count(fmt.Sprintf("buddy.gpuPages=%d", gpuPages))
	allocOnly := rng.Chance(40)
	untilOOM := rng.Chance(15)
	steps := rng.Range(6, 40)
	if untilOOM {
		steps = 400
	}
	for step := 0; step < steps && !c.done; step++ {
		live := c.live()
		w := rng.Intn(100)
		switch {
		case untilOOM && allocOnly, w < 45, len(live) == 0:
			if !allocOnly && !untilOOM && len(live) > 0 && c.maxFreePages() == 0 && rng.Chance(90) {
				continue // nothing free: prefer a free/rmpage over a certain oom
			}
			c.alloc(c.reqPages(rng, gpuPages))
		case w < 62:
			// remap a mapped sub-range of a live buffer
			b := live[rng.Intn(len(live))]
			off := rng.Intn(b.pages)
			n := rng.Range(1, b.pages-off)
			ok := true
			for i := off; i < off+n; i++ {
				if b.gone[i] {
					ok = false
				}
			}
			if !ok {
				continue
			}
			if rng.Chance(3) {
				n = 0
			}
			c.remap(b, off, n)
		case allocOnly:
			c.alloc(c.reqPages(rng, gpuPages))
		case w < 92:
			var cand []*c10dBuf
			for _, b := range live {
				if !b.holes {
					cand = append(cand, b)
				}
			}
			if len(cand) == 0 {
				continue
			}
			c.free(cand[rng.Intn(len(cand))])
		default:
			b := live[rng.Intn(len(live))]
			i := rng.Intn(b.pages)
			if b.gone[i] {
				continue
			}
			c.rmpage(b, i)
		}
	}
	kind := "random"
	if untilOOM {
		kind = "random_until_oom"
	}
	c.finish(kind)
}

func runC10Deep(r *Run, rng *Rng, replay string) {
	// (a) the repaired finding: three 1-page allocations, free the third
	for _, gp := range []int{4, 8, 16, 64} {
		c := newC10dCase(r, 4, gp, true)
		c.alloc(1)
		c.alloc(1)
		c.alloc(1)
		c.free(c.buf(2))
		lf, ov := c.defects()
		r.Note("buddy witness A (3 x alloc 1 page, free 3rd) on %d pages: live page inside a free block=%v, free blocks overlap=%v", gp, lf, ov)
		c.finish("witnessA")
	}
	// (b) alloc, alloc, alloc, free 1st, free 3rd
	for _, gp := range []int{4, 8, 16, 64} {
		c := newC10dCase(r, 4, gp, true)
		c.alloc(1)
		c.alloc(1)
		c.alloc(1)
		c.free(c.buf(0))
		c.free(c.buf(2))
		lf, ov := c.defects()
		r.Note("buddy witness B (3 x alloc 1 page, free 1st, free 3rd) on %d pages: live page inside a free block=%v, free blocks overlap=%v", gp, lf, ov)
		c.finish("witnessB")
	}
	// (c) allocation-only with non-power-of-two page counts
	for _, n := range []int{2, 3, 5, 6, 7, 9} {
		c := newC10dCase(r, 8, 64, true)
		c.alloc(n)
		c.remap(c.buf(0), 0, n)
		c.alloc(1)
		c.remap(c.buf(1), 0, 1)
		c.alloc(2)
		c.remap(c.buf(2), 0, 2)
		c.alloc(n)
		c.remap(c.buf(3), 0, n)
		c.alloc(1)
		c.finish("nofree_scripted")
	}
	// (d) allocate single pages until out of memory: every page of the device exactly once
	for _, gp := range []int{1, 2, 8, 32} {
		c := newC10dCase(r, 1, gp, true)
		for i := 0; i <= gp && !c.done; i++ {
			c.alloc(1)
		}
		if len(c.handed) != gp && !c.failed {
			c.fail("exhaust", "%d single pages handed out before out-of-memory on a %d-page device", len(c.handed), gp)
		}
		r.Checked("buddy.alloc_only.exhaust")
		c.finish("exhaust")
	}
	rng = NewRng(rng.U64() ^ (r.Seed << 32) ^ 0xB0DD1)
	n := 300
	if r.Tier == "thorough" {
		n = 3000
	}
	for i := 0; i < n; i++ {
		c10dRandom(r, rng, i)
	}
}
