package main

// Property C08, fixed-width integers of the launch path (Lean: nwg32 / nwg64 / Geo.total32 /
// wgPerCU64 / gpuFilter32 / dist32 in lean/MgpuModel/C08.lean, theorems in
// lean/MgpuProofs/Props/C08Wrap.lean). Two extra case kinds:
//
//	c08 dist32 g=.. w=.. cu=.. probe=x,y,z
//	    real driver split (distributeWGToGPUs + the WGFilter closures of the launched GPUs) on
//	    geometries whose work-group counts are near / beyond 2^32 or have an empty axis; answer =
//	    the cumulative ranges, the GPUs whose closure accepts work-group (x,y,z), and whether
//	    the driver completed the command at once (nothing to dispatch)
//	c08 cnt32 g=.. w=..
//	    real GridBuilder without filter: NumWG() and the first NextWG()
//
// Oracles (independent of the model, arithmetic in uint64/float64 that cannot wrap here):
// a probe inside the grid's work-group box must be accepted by exactly one launched GPU
// (C08.wgdist32.partition, also at and beyond 2^32 work-groups), an empty grid launches on no GPU
// and its command completes at once (C08.launch.empty), a non-empty one is not dropped
// (C08.launch.dropped), and NumWG must be 0 when NextWG yields nothing (C08.numwg.emptyaxis).

import (
	"fmt"
	"strings"

	"github.com/sarchlab/mgpusim/v4/amd/insts"
	"github.com/sarchlab/mgpusim/v4/amd/kernels"
)

func init() { register("C08", runC08Deep) }

// c08dCount is the mathematically intended number of work-groups along one axis.
func c08dCount(g, w int) uint64 {
	if g == 0 {
		return 0
	}
	return uint64(g-1)/uint64(w) + 1
}

func c08dDist32(r *Run, g, w c08Geo, cus []int, probe c08Geo) {
	line := fmt.Sprintf("c08 dist32 g=%s w=%s cu=%s probe=%s", g, w, c08CUString(cus), probe)
	var dist []int
	var filters []kernels.WGFilterFunc
	completed := false
	fault := catch(func() {
		e := c08Driver(cus)
		dist, filters, completed = e.d.VerifUnifiedLaunchQueued(e.queue, *c08Packet(g, w))
	})
	if strings.Contains(fault, "divide_by_zero") {
		fault = "div0"
	} else if strings.Contains(fault, "not_all_wg_allocated") {
		fault = "not_all_allocated"
	}
	if fault != "" {
		r.Case(line, "fault:"+fault)
		return
	}
	var acc []int
	pkt := c08Packet(g, w)
	f2 := catch(func() {
		for i, f := range filters {
			if f != nil && f(pkt, &kernels.WorkGroup{IDX: probe[0], IDY: probe[1], IDZ: probe[2]}) {
				acc = append(acc, i)
			}
		}
	})
	if f2 != "" {
		r.Case(line, "fault:"+f2)
		r.Failf("C08.wgdist32.panic", line, "%s", f2)
		return
	}
	as := "-"
	if len(acc) > 0 {
		as = c08Ints(acc)
	}
	r.Case(line, fmt.Sprintf("d=%s acc=%s done=%d", c08Ints(dist), as, c08B2i(completed)))

	nx, ny, nz := c08dCount(g[0], w[0]), c08dCount(g[1], w[1]), c08dCount(g[2], w[2])
	if nx == 0 || ny == 0 || nz == 0 {
		// empty grid: nothing to dispatch, no GPU involved, the command completes at once
		r.Checked("launch.empty")
		r.Count("dist32.empty")
		launched := 0
		for _, f := range filters {
			if f != nil {
				launched++
			}
		}
		if !completed || launched != 0 {
			r.Failf("C08.launch.empty", line, "empty grid: %d GPUs received a launch request, command completed=%v, ranges %v", launched, completed, dist)
		}
		return
	}
	r.Checked("launch.nonempty")
	if completed {
		r.Failf("C08.launch.dropped", line, "a grid with %dx%dx%d work-groups was completed without a launch request, ranges %v", nx, ny, nz, dist)
	}
	inBox := uint64(probe[0]) < nx && uint64(probe[1]) < ny && uint64(probe[2]) < nz
	if !inBox {
		r.Count("dist32.probe-outside")
		return
	}
	// exactly one launched GPU must accept a work-group of the grid, whatever the size of the
	// grid (the generator stays below 2^62 work-groups: 64-bit int arithmetic does not overflow)
	r.Checked("wgdist32.partition")
	if float64(nx)*float64(ny)*float64(nz) < 4294967296.0 {
		r.Count("dist32.below-2^32")
	} else {
		r.Count("dist32.at-or-beyond-2^32")
	}
	if len(acc) != 1 {
		r.Failf("C08.wgdist32.partition", line, "work-group %v of a grid with %dx%dx%d work-groups is accepted by GPUs %v, ranges %v", probe, nx, ny, nz, acc, dist)
	}
}

func c08dCnt32(r *Run, g, w c08Geo) {
	line := fmt.Sprintf("c08 cnt32 g=%s w=%s", g, w)
	// countWG multiplies three 64-bit ints; stay far from 2^63 (the model is unbounded there)
	est := 1.0
	for a := 0; a < 3; a++ {
		if g[a] != 0 { // an empty axis makes the product 0 whatever the partial product was
			est *= float64(c08dCount(g[a], w[a]))
		}
	}
	if est >= 4e18 { // also keeps the model's unbounded product equal to the int64 one
		r.Count("cnt32.skipped-int64")
		return
	}
	b := kernels.NewGridBuilder()
	n, first := 0, "nil"
	fault := catch(func() {
		b.SetKernel(kernels.KernelLaunchInfo{CodeObject: &insts.KernelCodeObject{KernelCodeObjectMeta: &insts.KernelCodeObjectMeta{}}, Packet: c08Packet(g, w)})
		n = b.NumWG()
		if wg := b.NextWG(); wg != nil {
			first = c08WGString(wg)
		}
	})
	if fault != "" {
		if strings.Contains(fault, "divide") {
			fault = "div0"
		}
		r.Case(line, "fault:"+fault)
		return
	}
	r.Case(line, fmt.Sprintf("n=%d first=%s", n, first))
	r.Checked("numwg.first")
	if first == "nil" && n != 0 {
		r.Failf("C08.numwg.emptyaxis", line, "NumWG announces %d work-groups but NextWG yields none (empty axis)", n)
	}
	if first != "nil" && n == 0 {
		r.Failf("C08.numwg.zero", line, "NumWG announces 0 work-groups but NextWG yields %s", first)
	}
}

// c08dBigAxis: a work-group count and a matching (grid, wg) pair for one axis, grid < 2^32.
func c08dBigAxis(rng *Rng, n int) (g, w int) {
	w = rng.Pick(1, 1, 2, 3, 7, 16, 64, 255, 256, 1024)
	for n*w >= 1<<32 {
		w = 1
		if n >= 1<<32 {
			n = 1<<32 - 1
		}
	}
	g = n*w - rng.Intn(w)
	return
}

func runC08Deep(r *Run, rng *Rng, replay string) {
	thorough := r.Tier == "thorough"
	// the kernel-checked witnesses of Props/C08Wrap.lean, replayed on the real code
	c08dDist32(r, c08Geo{65536, 65536, 1}, c08Geo{1, 1, 1}, []int{4, 4}, c08Geo{8, 0, 0})
	c08dDist32(r, c08Geo{65536, 65536, 1}, c08Geo{1, 1, 1}, []int{4, 4}, c08Geo{3, 0, 0})
	c08dDist32(r, c08Geo{65536, 65536, 1}, c08Geo{1, 1, 1}, []int{1}, c08Geo{0, 0, 0})
	c08dDist32(r, c08Geo{65536, 65537, 1}, c08Geo{1, 1, 1}, []int{36, 64}, c08Geo{0, 1, 0})
	c08dDist32(r, c08Geo{4194304, 65536, 1}, c08Geo{64, 1, 1}, []int{4, 4}, c08Geo{8, 0, 0})
	c08dDist32(r, c08Geo{2048, 2048, 1024}, c08Geo{1, 1, 1}, []int{2, 2, 2, 2}, c08Geo{5, 5, 5})
	c08dDist32(r, c08Geo{2097152, 1024, 1}, c08Geo{256, 1, 1}, []int{36, 64}, c08Geo{8191, 1023, 0})
	c08dDist32(r, c08Geo{65535, 65537, 1}, c08Geo{1, 1, 1}, []int{4, 4}, c08Geo{65534, 65536, 0}) // 2^32-1 groups
	c08dDist32(r, c08Geo{0, 1, 1}, c08Geo{1, 1, 1}, []int{4, 4}, c08Geo{0, 0, 0})
	c08dDist32(r, c08Geo{0, 4, 1}, c08Geo{64, 1, 1}, []int{4, 4}, c08Geo{0, 0, 0})
	c08dCnt32(r, c08Geo{0, 1, 1}, c08Geo{64, 1, 1})
	c08dCnt32(r, c08Geo{1, 0, 1}, c08Geo{1, 1, 1})
	c08dCnt32(r, c08Geo{1, 1, 0}, c08Geo{1, 7, 1024})
	c08dCnt32(r, c08Geo{1<<32 - 1, 1, 1}, c08Geo{1, 1, 1})
	c08dCnt32(r, c08Geo{1<<32 - 1, 1<<32 - 1, 2}, c08Geo{3, 5, 1})

	n := 300
	if thorough {
		n = 6000
	}
	for k := 0; k < n; k++ {
		// counts per axis: product just below, at, or above 2^32
		var cnt [3]int
		switch rng.Intn(4) {
		case 0: // far inside
			cnt = [3]int{rng.Range(1, 1<<12), rng.Range(1, 1<<10), rng.Range(1, 1<<8)}
		case 1: // near the boundary from below / above
			a := 1 << uint(rng.Range(0, 32))
			b := 1 << uint(rng.Range(0, 32-c08Min(32, c08dLog2(a))))
			c := (1 << 32) / (a * b)
			cnt = [3]int{a, b, c}
			cnt[rng.Intn(3)] += rng.Pick(-1, 0, 0, 1)
		case 2: // beyond
			cnt = [3]int{rng.Range(1<<15, 1<<17), rng.Range(1<<15, 1<<17), rng.Range(1, 4)}
		default: // one big axis
			cnt = [3]int{1, 1, 1}
			cnt[rng.Intn(3)] = rng.Range(1<<30, 1<<32-1)
			cnt[rng.Intn(3)] += rng.Intn(3)
		}
		var g, w c08Geo
		for a := 0; a < 3; a++ {
			if cnt[a] < 1 {
				cnt[a] = 1
			}
			g[a], w[a] = c08dBigAxis(rng, cnt[a])
		}
		if rng.Chance(4) {
			g[rng.Intn(3)] = 0
		}
		cus := c08RandCUs(rng)
		var probe c08Geo
		for a := 0; a < 3; a++ {
			na := int(c08dCount(g[a], w[a]))
			switch {
			case na == 0:
				probe[a] = 0
			case rng.Chance(30):
				probe[a] = na - 1
			case rng.Chance(20):
				probe[a] = 0
			default:
				probe[a] = rng.Intn(na)
			}
		}
		c08dDist32(r, g, w, cus, probe)
		if k%4 == 0 {
			ww := w
			for ww.prod() > 1024 {
				ww[rng.Intn(3)] = 1
			}
			c08dCnt32(r, g, ww)
		}
	}
}

func c08dLog2(a int) int {
	n := 0
	for a > 1 {
		a >>= 1
		n++
	}
	return n
}
