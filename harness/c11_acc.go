package main

import (
	"fmt"
	"strings"

	"github.com/sarchlab/akita/v4/mem/vm"
	"github.com/sarchlab/mgpusim/v4/amd/driver"
	"github.com/sarchlab/mgpusim/v4/amd/emu"
)

// The emulator's own memory path, emu.StorageAccessor (every load/store/fetch of an emulated
// instruction goes through it), runs the same page-splitting loop as the copy middleware. It is
// answered by the same Lean functions (`C11.pieces`, `h2d`, `d2h`; theorems h2d_bytes, h2d_frame,
// d2h_reads_latest): the case lines are the `c11 h2d` / `c11 d2h` lines with a `via=accessor` tag.
// Accesses are the sizes instructions issue (1..64 bytes), placed around page boundaries of buffers
// whose consecutive virtual pages sit on non-adjacent frames (distributed over 2-4 GPUs).
func copyCasesAccessor(r *Run, rng *Rng, n int) {
	for round := 0; n > 0; round++ {
		gpus := rng.Pick(2, 2, 4, 1)
		log2 := uint64(12)
		ps := uint64(1) << log2
		p := newEmuPlatform(r.OutDir, gpus, log2)
		ctx := p.drv.Init()
		st := p.drv.VerifGlobalStorage()
		acc := emu.NewStorageAccessor(st, p.drv.VerifPageTable(), log2, nil)
		pages := rng.Range(2, 4)
		p.drv.AllocateMemory(ctx, ps)
		buf := p.drv.AllocateMemory(ctx, uint64(pages)*ps)
		p.drv.AllocateMemory(ctx, ps)
		if gpus > 1 {
			ids := []int{}
			for g := 1; g <= gpus; g++ {
				ids = append(ids, g)
			}
			p.drv.Distribute(ctx, buf, uint64(pages)*ps, ids)
			r.Count("accessor.distributed")
		}
		base := uint64(buf) - ps
		total := pages + 2
		per := 60
		if per > n {
			per = n
		}
		for k := 0; k < per; k++ {
			n--
			seed := rng.Intn(200)
			pts, phys := ptString(p, ctx, base, total, ps)
			for i, ph := range phys {
				b := make([]byte, ph[1])
				for j := range b {
					b[j] = pagePattern(seed+i, j)
				}
				must(st.Write(ph[0], b))
			}
			size := uint64(pages) * ps
			l := uint64(rng.Pick(1, 2, 4, 8, 8, 16, 16, 32, 64, 12, rng.Range(1, 80)))
			// start so that the access ends in, on, or just over a page boundary
			pg := uint64(rng.Range(1, pages-1)) * ps
			back := uint64(rng.Pick(1, 2, 4, 4, 8, 12, int(l)-1, int(l), int(l)+1, rng.Range(0, 80)))
			off := pg - back
			if back > pg || off+l > size {
				off = 0
			}
			addr := uint64(buf) + off
			if off/ps != (off+l-1)/ps {
				r.Count("accessor.crosses-page")
			}
			r.Count(fmt.Sprintf("accessor.len.%d", l))
			if rng.Chance(55) {
				data := make([]byte, l)
				for i := range data {
					data[i] = h2dByte(addr, uint64(i))
				}
				line := fmt.Sprintf("c11 h2d via=accessor pt=%s addr=%x len=%d seed=%d", pts, addr, l, seed)
				if fault := catch(func() { acc.Write(ctx.VerifPID(), addr, data) }); fault != "" {
					r.Case(line, "fault:"+fault)
					continue
				}
				var hs []string
				for _, ph := range phys {
					b, _ := st.Read(ph[0], ph[1])
					hs = append(hs, fmt.Sprintf("%x", fnv(b)))
				}
				r.Case(line, strings.Join(hs, ","))
				r.Checked("accessor.write-frame")
				checkH2DPhys(r, line, p, ctx, st, base, total, ps, seed, addr, data)
				var got []byte
				if fault := catch(func() { got = acc.Read(ctx.VerifPID(), addr, l) }); fault != "" || string(got) != string(data) {
					r.Failf("C11.accessor.roundtrip", line, "Read(Write(x)) != x (%s)", fault)
				}
			} else {
				line := fmt.Sprintf("c11 d2h via=accessor pt=%s addr=%x len=%d seed=%d", pts, addr, l, seed)
				var got []byte
				if fault := catch(func() { got = acc.Read(ctx.VerifPID(), addr, l) }); fault != "" {
					r.Case(line, "fault:"+fault)
					continue
				}
				r.Case(line, fmt.Sprintf("%x", fnv(got)))
				r.Checked("accessor.read-content")
				pt := p.drv.VerifPageTable()
				for i := range got {
					va := addr + uint64(i)
					pg, _ := pt.Find(ctx.VerifPID(), va)
					pi := int((pg.VAddr - base) / ps)
					if got[i] != pagePattern(seed+pi, int(va-pg.VAddr)) {
						r.Failf("C11.accessor.read-content", line, "byte %d of the access is not the byte mapped at %x", i, va)
						break
					}
				}
			}
		}
		p.close()
	}
}

func init() {
	f := func(r *Run, rng *Rng, _ string) {
		n := 400
		if r.Tier == "thorough" {
			n = 12000
		}
		copyCasesAccessor(r, rng, n)
	}
	register("C11", f)
	// every emulated load/store/fetch of a workload (C01) goes through this accessor; so do the
	// dirty-buffer flushes that make a kernel's writes visible to the copy that reads them back
	register("C01", func(r *Run, rng *Rng, _ string) {
		r.OracleOnly = true
		defer func() { r.OracleOnly = false }()
		copyCasesAccessor(r, rng, 300)
		for i := 0; i < 60; i++ {
			c11FlushScenario(r, rng)
		}
	})
}

// ---------------------------------------------------------------------------------------------
// The SAME accessor object before and after the page table changes: Remap / Distribute move a page
// the accessor has already used, Free removes it (and the frame is handed to a later allocation at
// another virtual address). Every access must go to the frame the page table names NOW. Case lines
// `c11 accrun seed= frames=… ; pt … ; w addr len salt ; r addr len ; … ; img` are answered by
// `C11.runAccRun` (theorem acc_run_uses_current_table: the page-wise model = the per-byte view
// under the table current at each step).
type c11AccBuf struct {
	addr  uint64
	pages int
	freed bool
}

func accessorRuns(r *Run, rng *Rng, n int) {
	const log2, ps = uint64(12), uint64(4096)
	for n > 0 {
		gpus := rng.Pick(2, 2, 4)
		p := newEmuPlatform(r.OutDir, gpus, log2)
		ctx := p.drv.Init()
		st := p.drv.VerifGlobalStorage()
		pt := p.drv.VerifPageTable()
		pid := ctx.VerifPID()
		acc := emu.NewStorageAccessor(st, pt, log2, nil) // ONE accessor for every scenario of this platform
		per := 25
		if per > n {
			per = n
		}
		for k := 0; k < per; k++ {
			n--
			c11AccRun(r, rng, p, ctx, acc, gpus)
		}
		_ = pid
		p.close()
	}
}

func c11AccRun(r *Run, rng *Rng, p *platform, ctx *driver.Context, acc emu.StorageAccessor, gpus int) {
	const ps = uint64(4096)
	st := p.drv.VerifGlobalStorage()
	pt := p.drv.VerifPageTable()
	pid := ctx.VerifPID()
	seed := rng.Intn(200)
	var bufs []*c11AccBuf
	var base, top uint64
	alloc := func(pages int) *c11AccBuf {
		if gpus > 1 {
			p.drv.SelectGPU(ctx, rng.Range(1, gpus))
		}
		a := uint64(p.drv.AllocateMemory(ctx, uint64(pages)*ps))
		if base == 0 {
			base = a
		}
		top = a + uint64(pages)*ps
		b := &c11AccBuf{addr: a, pages: pages}
		bufs = append(bufs, b)
		return b
	}
	alloc(rng.Range(2, 3))
	alloc(rng.Range(1, 2))
	var frames [][2]uint64
	frameIx := map[uint64]int{}
	ops := []string{""}
	var out []string
	lastPt := "?"
	// snapshot: current table over every page this scenario allocated; new frames get their pattern
	snapshot := func() {
		var parts []string
		for va := base; va < top; va += ps {
			pg, ok := pt.Find(pid, va)
			if !ok {
				continue
			}
			parts = append(parts, fmt.Sprintf("%x:%x:%d", pg.VAddr, pg.PAddr, pg.PageSize))
			if _, seen := frameIx[pg.PAddr]; !seen {
				i := len(frames)
				frameIx[pg.PAddr] = i
				frames = append(frames, [2]uint64{pg.PAddr, pg.PageSize})
				b := make([]byte, pg.PageSize)
				for j := range b {
					b[j] = pagePattern(seed+i, j)
				}
				must(st.Write(pg.PAddr, b))
			}
		}
		s := strings.Join(parts, ",")
		if s == "" {
			s = "-"
		}
		if s != lastPt {
			lastPt = s
			ops = append(ops, "pt "+s)
		}
	}
	line := func() string {
		var fs []string
		for _, f := range frames {
			fs = append(fs, fmt.Sprintf("%x:%d", f[0], f[1]))
		}
		ops[0] = fmt.Sprintf("c11 accrun seed=%d frames=%s", seed, strings.Join(fs, ","))
		return strings.Join(ops, " ; ")
	}
	live := func() *c11AccBuf {
		var l []*c11AccBuf
		for _, b := range bufs {
			if !b.freed {
				l = append(l, b)
			}
		}
		if len(l) == 0 {
			return nil
		}
		return l[rng.Intn(len(l))]
	}
	var hot *c11AccBuf // buffer accessed last: the next table change prefers it
	var hotOff uint64
	faulted := false
	access := func(b *c11AccBuf, off, l uint64, write bool) {
		snapshot()
		addr := b.addr + off
		// the frames as they are now, to see what a write changes
		before := make([][]byte, len(frames))
		for i, f := range frames {
			before[i], _ = st.Read(f[0], f[1])
		}
		mapped := true
		for i := uint64(0); i < l; i++ {
			if _, ok := pt.Find(pid, addr+i); !ok {
				mapped = false
			}
		}
		if write {
			salt := rng.Intn(50)
			data := make([]byte, l)
			for i := range data {
				data[i] = h2dByte(addr+uint64(salt), uint64(i))
			}
			ops = append(ops, fmt.Sprintf("w %x %d %d", addr, l, salt))
			fault := catch(func() { acc.Write(pid, addr, data) })
			r.Checked("accrun.write")
			if fault != "" {
				out = append(out, "fault:page_not_found")
				faulted = true
				if mapped {
					r.Failf("C11.accessor.fault-on-mapped-range", line(), "Write of %d bytes at %x panicked (%s) although every byte is mapped", l, addr, fault)
				}
				return
			}
			out = append(out, "ok")
			if !mapped {
				r.Failf("C11.accessor.access-after-free", line(), "Write of %d bytes at %x succeeded although part of the range is not mapped any more", l, addr)
				return
			}
			want := make([][]byte, len(frames))
			for i := range before {
				want[i] = append([]byte{}, before[i]...)
			}
			for i := uint64(0); i < l; i++ {
				pg, _ := pt.Find(pid, addr+i)
				want[frameIx[pg.PAddr]][addr+i-pg.VAddr] = data[i]
			}
			for i, f := range frames {
				now, _ := st.Read(f[0], f[1])
				if d := firstDiff(now, want[i]); d >= 0 {
					sig := "C11.accessor.write-wrong-frame"
					if now[d] == before[i][d] {
						sig = "C11.accessor.stale-translation"
					}
					r.Failf(sig, line(), "after Write(%x, %d bytes): frame %x byte %d is %02x; under the page table as it is now it must be %02x", addr, l, f[0], d, now[d], want[i][d])
					return
				}
			}
		} else {
			ops = append(ops, fmt.Sprintf("r %x %d", addr, l))
			var got []byte
			fault := catch(func() { got = acc.Read(pid, addr, l) })
			r.Checked("accrun.read")
			if fault != "" {
				out = append(out, "fault:page_not_found")
				faulted = true
				if mapped {
					r.Failf("C11.accessor.fault-on-mapped-range", line(), "Read of %d bytes at %x panicked (%s) although every byte is mapped", l, addr, fault)
				}
				return
			}
			out = append(out, fmt.Sprintf("%x", fnv(got)))
			if !mapped {
				r.Failf("C11.accessor.access-after-free", line(), "Read of %d bytes at %x succeeded although part of the range is not mapped any more", l, addr)
				return
			}
			for i := range got {
				pg, _ := pt.Find(pid, addr+uint64(i))
				if got[i] != before[frameIx[pg.PAddr]][addr+uint64(i)-pg.VAddr] {
					r.Failf("C11.accessor.stale-translation", line(), "Read(%x, %d bytes): byte %d is not the byte of frame %x, which the page table names now for %x", addr, l, i, pg.PAddr, addr+uint64(i))
					return
				}
			}
		}
		hot, hotOff = b, off
	}
	steps := rng.Range(5, 12)
	for i := 0; i < steps && !faulted; i++ {
		x := rng.Intn(100)
		b := live()
		switch {
		case x < 50 && b != nil:
			if hot != nil && !hot.freed && rng.Chance(60) {
				b = hot // come back to the page that was just moved
			}
			size := uint64(b.pages) * ps
			l := uint64(rng.Pick(1, 4, 8, 16, 64, rng.Range(1, 80)))
			pg := uint64(rng.Range(0, b.pages)) * ps
			back := uint64(rng.Pick(0, 1, 4, int(l)-1, int(l), rng.Range(0, 80)))
			off := uint64(0)
			if pg >= back {
				off = pg - back
			}
			if b == hot && rng.Chance(50) {
				off = hotOff
			}
			if off+l > size {
				off = size - l
			}
			if off/ps != (off+l-1)/ps {
				r.Count("accrun.crosses-page")
			}
			access(b, off, l, rng.Chance(50))
		case x < 68 && b != nil:
			if hot != nil && !hot.freed && rng.Chance(70) {
				b = hot
			}
			pgi := rng.Intn(b.pages)
			if b == hot && rng.Chance(70) {
				pgi = int(hotOff / ps)
			}
			g := rng.Range(1, gpus)
			if catch(func() { p.drv.Remap(ctx, b.addr+uint64(pgi)*ps, ps, g) }) == "" {
				r.Count("accrun.remap")
			}
		case x < 78 && b != nil && b.pages > 1:
			ids := []int{}
			for g := 1; g <= gpus; g++ {
				ids = append(ids, g)
			}
			if catch(func() { p.drv.Distribute(ctx, driver.Ptr(b.addr), uint64(b.pages)*ps, ids) }) == "" {
				r.Count("accrun.distribute")
			}
		case x < 88 && b != nil:
			var old []uint64
			for i := 0; i < b.pages; i++ {
				pg, _ := pt.Find(pid, b.addr+uint64(i)*ps)
				old = append(old, pg.PAddr)
			}
			if catch(func() { p.drv.FreeMemory(ctx, driver.Ptr(b.addr)) }) == "" {
				b.freed = true
				r.Count("accrun.free")
				if rng.Chance(40) {
					// the same virtual range is mapped again, onto the old frames in rotated order
					for i := 0; i < b.pages; i++ {
						pt.Insert(vm.Page{PID: pid, VAddr: b.addr + uint64(i)*ps, PAddr: old[(i+1)%b.pages], PageSize: ps, Valid: true})
					}
					r.Count("accrun.mapped-again-after-free")
					access(b, uint64(rng.Pick(0, 4090, 8)), uint64(rng.Pick(1, 8, 16)), rng.Bool())
					if !faulted {
						access(b, uint64(rng.Pick(0, 4090, 8)), uint64(rng.Pick(1, 8, 16)), false)
					}
					break
				}
				if rng.Chance(35) { // use the freed range: the accessor must not remember the page
					r.Count("accrun.access-freed")
					access(b, uint64(rng.Pick(0, 4090)), uint64(rng.Pick(1, 8, 16)), rng.Bool())
				}
			}
		default:
			nb := alloc(rng.Range(1, 2)) // may receive a frame a freed buffer gave back
			snapshot()
			for va := nb.addr; va < nb.addr+uint64(nb.pages)*ps; va += ps {
				if pg, ok := pt.Find(pid, va); ok {
					if i, seen := frameIx[pg.PAddr]; seen && i < len(frames)-nb.pages {
						r.Count("accrun.frame-reused")
					}
				}
			}
			hot, hotOff = nb, 0
		}
	}
	if !faulted {
		snapshot()
		ops = append(ops, "img")
		var hs []string
		for _, f := range frames {
			b, _ := st.Read(f[0], f[1])
			hs = append(hs, fmt.Sprintf("%x", fnv(b)))
		}
		out = append(out, strings.Join(hs, ","))
	}
	r.Case(line(), strings.Join(out, " "))
	r.Count("accrun.scenario")
}

func init() {
	f := func(r *Run, rng *Rng, _ string) {
		n := 150
		if r.Tier == "thorough" {
			n = 5000
		}
		accessorRuns(r, rng, n)
	}
	register("C11", f)
	register("C01", func(r *Run, rng *Rng, _ string) {
		r.OracleOnly = true
		defer func() { r.OracleOnly = false }()
		accessorRuns(r, rng, 60)
	})
}
