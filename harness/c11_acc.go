package main

import (
	"fmt"
	"strings"

	"github.com/sarchlab/mgpusim/v4/amd/emu"
)

// The emulator's own memory path, emu.StorageAccessor (every load/store/fetch of an emulated
// instruction goes through it), runs the same page-splitting loop as the copy middleware. It is
// answered by the same Lean functions (`C11.pieces`, `h2d`, `d2h`; theorems h2d_bytes, h2d_frame,
// d2h_reads_latest): the case lines are the `c11 h2d` / `c11 d2h` lines with a `via=accessor` tag.
// Accesses are the sizes instructions issue (1..64 bytes), placed around page boundaries of buffers
// whose consecutive virtual pages sit on non-adjacent frames (distributed over 2-4 GPUs).
func copyCasesAccessor(r *Run, rng *Rng, n int) {
	for round := 0; n > 0; round++ {
		gpus := rng.Pick(2, 2, 4, 1)
		log2 := uint64(12)
		ps := uint64(1) << log2
		p := newEmuPlatform(r.OutDir, gpus, log2)
		ctx := p.drv.Init()
		st := p.drv.VerifGlobalStorage()
		acc := emu.NewStorageAccessor(st, p.drv.VerifPageTable(), log2, nil)
		pages := rng.Range(2, 4)
		p.drv.AllocateMemory(ctx, ps)
		buf := p.drv.AllocateMemory(ctx, uint64(pages)*ps)
		p.drv.AllocateMemory(ctx, ps)
		if gpus > 1 {
			ids := []int{}
			for g := 1; g <= gpus; g++ {
				ids = append(ids, g)
			}
			p.drv.Distribute(ctx, buf, uint64(pages)*ps, ids)
			r.Count("accessor.distributed")
		}
		base := uint64(buf) - ps
		total := pages + 2
		per := 60
		if per > n {
			per = n
		}
		for k := 0; k < per; k++ {
			n--
			seed := rng.Intn(200)
			pts, phys := ptString(p, ctx, base, total, ps)
			for i, ph := range phys {
				b := make([]byte, ph[1])
				for j := range b {
					b[j] = pagePattern(seed+i, j)
				}
				must(st.Write(ph[0], b))
			}
			size := uint64(pages) * ps
			l := uint64(rng.Pick(1, 2, 4, 8, 8, 16, 16, 32, 64, 12, rng.Range(1, 80)))
			// start so that the access ends in, on, or just over a page boundary
			pg := uint64(rng.Range(1, pages-1)) * ps
			back := uint64(rng.Pick(1, 2, 4, 4, 8, 12, int(l)-1, int(l), int(l)+1, rng.Range(0, 80)))
			off := pg - back
			if back > pg || off+l > size {
				off = 0
			}
			addr := uint64(buf) + off
			if off/ps != (off+l-1)/ps {
				r.Count("accessor.crosses-page")
			}
			r.Count(fmt.Sprintf("accessor.len.%d", l))
			if rng.Chance(55) {
				data := make([]byte, l)
				for i := range data {
					data[i] = h2dByte(addr, uint64(i))
				}
				line := fmt.Sprintf("c11 h2d via=accessor pt=%s addr=%x len=%d seed=%d", pts, addr, l, seed)
				if fault := catch(func() { acc.Write(ctx.VerifPID(), addr, data) }); fault != "" {
					r.Case(line, "fault:"+fault)
					continue
				}
				var hs []string
				for _, ph := range phys {
					b, _ := st.Read(ph[0], ph[1])
					hs = append(hs, fmt.Sprintf("%x", fnv(b)))
				}
				r.Case(line, strings.Join(hs, ","))
				r.Checked("accessor.write-frame")
				checkH2DPhys(r, line, p, ctx, st, base, total, ps, seed, addr, data)
				var got []byte
				if fault := catch(func() { got = acc.Read(ctx.VerifPID(), addr, l) }); fault != "" || string(got) != string(data) {
					r.Failf("C11.accessor.roundtrip", line, "Read(Write(x)) != x (%s)", fault)
				}
			} else {
				line := fmt.Sprintf("c11 d2h via=accessor pt=%s addr=%x len=%d seed=%d", pts, addr, l, seed)
				var got []byte
				if fault := catch(func() { got = acc.Read(ctx.VerifPID(), addr, l) }); fault != "" {
					r.Case(line, "fault:"+fault)
					continue
				}
				r.Case(line, fmt.Sprintf("%x", fnv(got)))
				r.Checked("accessor.read-content")
				pt := p.drv.VerifPageTable()
				for i := range got {
					va := addr + uint64(i)
					pg, _ := pt.Find(ctx.VerifPID(), va)
					pi := int((pg.VAddr - base) / ps)
					if got[i] != pagePattern(seed+pi, int(va-pg.VAddr)) {
						r.Failf("C11.accessor.read-content", line, "byte %d of the access is not the byte mapped at %x", i, va)
						break
					}
				}
			}
		}
		p.close()
	}
}

func init() {
	f := func(r *Run, rng *Rng, _ string) {
		n := 400
		if r.Tier == "thorough" {
			n = 12000
		}
		copyCasesAccessor(r, rng, n)
	}
	register("C11", f)
	// every emulated load/store/fetch of a workload (C01) goes through this accessor; so do the
	// dirty-buffer flushes that make a kernel's writes visible to the copy that reads them back
	register("C01", func(r *Run, rng *Rng, _ string) {
		r.OracleOnly = true
		defer func() { r.OracleOnly = false }()
		copyCasesAccessor(r, rng, 300)
		for i := 0; i < 60; i++ {
			c11FlushScenario(r, rng)
		}
	})
}
