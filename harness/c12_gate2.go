package main

import (
	"fmt"
	"os"
	"runtime"
	"strconv"
	"strings"
	"sync"
	"sync/atomic"
	"time"

	"github.com/sarchlab/akita/v4/mem/vm"
	"github.com/sarchlab/akita/v4/sim"
	"github.com/sarchlab/mgpusim/v4/amd/driver"
)

func init() { register("C12", runC12Gate2) }

// =====================================================================================
// Tie H for TWO application threads: the schedule-forcing gate harness of c12.go with two real
// application goroutines (roles "a0", "a1") next to Driver.runAsync ("r") and Driver.runEngine ("e"),
// 1 or 2 command queues (one context or two), Noop commands. Every thread runs a script of
// Enqueue(q) / DrainCommandQueue(q) calls that ends with a drain. A move releases the gate of one
// role and waits for quiescence; the observation after each move is compared with the Lean model's
// `C12.K.macroStepK` (case lines `c12 ksched2 nq=… scripts=…|… ; a0 a1 r e …`), which is proved to be
// a finite run of `C12.K.step` (`K.macroStepK_is_run`, `K.observed_states_reach`).
// =====================================================================================

type c12g2Op struct {
	enq bool
	q   int
}

func (o c12g2Op) String() string {
	if o.enq {
		return "e" + strconv.Itoa(o.q)
	}
	return "d" + strconv.Itoa(o.q)
}

type c12g2Script [2][]c12g2Op

func c12g2ParseScripts(s string) c12g2Script {
	var out c12g2Script
	for j, part := range strings.Split(s, "|") {
		if part == "" || part == "-" {
			continue
		}
		for _, w := range strings.Split(part, ",") {
			q, _ := strconv.Atoi(w[1:])
			out[j] = append(out[j], c12g2Op{enq: w[0] == 'e', q: q})
		}
	}
	return out
}

func (sc c12g2Script) String() string {
	var parts []string
	for _, t := range sc {
		if len(t) == 0 {
			parts = append(parts, "-")
			continue
		}
		w := make([]string, len(t))
		for i, o := range t {
			w[i] = o.String()
		}
		parts = append(parts, strings.Join(w, ","))
	}
	return strings.Join(parts, "|")
}

type c12g2Sys struct {
	mu     sync.Mutex
	gating bool
	parked map[string]*c12Gate // role -> gate it is parked at
	d      *driver.Driver
	eng    *sim.SerialEngine
	all    [3]*driver.CommandQueue // context A: queues 0 and 1; context B: queue 2
	nparks atomic.Int64
	enqMu  sync.Mutex // id allocation + append are one action (submission order = id order)

	// per schedule
	nq, nctx  int
	qs        []*driver.CommandQueue // model queue number -> real queue
	scripts   c12g2Script
	shared    []bool // queue used by both scripts
	goid      map[uint64]int
	done      [2]bool
	fault     [2]string
	returned  [2]int
	nextID    int
	submitted [][]string
	subs      [][]int // per queue: threads with a live listener, in subscription order
	early     []string
}

// the gate2 system the yield hook dispatches to (consulted from c12Yield in c12.go)
var c12g2Cur atomic.Pointer[c12g2Sys]

// c12g2Goid returns the id of the calling goroutine.
func c12g2Goid() uint64 {
	var buf [64]byte
	n := runtime.Stack(buf[:], false)
	var id uint64
	for _, c := range buf[len("goroutine "):n] {
		if c < '0' || c > '9' {
			break
		}
		id = id*10 + uint64(c-'0')
	}
	return id
}

// yield is called from driver.VerifYield (through c12Yield) on every yield point.
func (s *c12g2Sys) yield(point string) {
	if _, park := c12ParkPoints[point]; !park {
		return
	}
	role := c12RoleOf(point)
	if role == "a" {
		id := c12g2Goid()
		s.mu.Lock()
		j, ok := s.goid[id]
		s.mu.Unlock()
		if !ok {
			return // not one of the two application goroutines (a rescue call)
		}
		role = "a" + strconv.Itoa(j)
	}
	s.park(role, point)
}

func (s *c12g2Sys) park(role, point string) {
	s.mu.Lock()
	if !s.gating {
		s.mu.Unlock()
		return
	}
	g := &c12Gate{point: point, ch: make(chan struct{})}
	s.parked[role] = g
	s.nparks.Add(1)
	s.mu.Unlock()
	<-g.ch
}

type c12g2EngineHook struct{ s *c12g2Sys }

func (h *c12g2EngineHook) Func(ctx sim.HookCtx) {
	if ctx.Pos != sim.HookPosBeforeEvent {
		return
	}
	if evt, ok := ctx.Item.(sim.Event); ok && evt.Handler() == sim.Handler(h.s.d.TickingComponent) {
		h.s.park("e", "engine.event")
	}
}

var c12g2Shared *c12g2Sys
var c12g2Poisoned bool
var c12g2Hangs int
var c12g2SkipNoted bool
var c12g2CapNoted bool
var c12g2T [3]time.Duration

// c12g2NewSys prepares the (reused) system for one schedule and starts the two application
// goroutines; both park at their first `app.idle` gate.
func c12g2NewSys(nq, nctx int, scripts c12g2Script) *c12g2Sys {
	s := c12g2Shared
	if s == nil {
		s = &c12g2Sys{parked: map[string]*c12Gate{}}
		s.eng = sim.NewSerialEngine()
		s.d = driver.MakeBuilder().WithEngine(s.eng).WithPageTable(vm.NewPageTable(12)).WithLog2PageSize(12).Build("Driver")
		s.eng.AcceptHook(&c12g2EngineHook{s})
		ctxA := s.d.Init()
		s.all[0] = s.d.CreateCommandQueue(ctxA)
		s.all[1] = s.d.CreateCommandQueue(ctxA)
		ctxB := s.d.Init()
		s.all[2] = s.d.CreateCommandQueue(ctxB)
		s.d.Tick() // warm-up, see c12NewSys
		c12g2Cur.Store(s)
		s.d.Run()
		c12g2Shared = s
	}
	s.mu.Lock()
	s.gating = true
	s.parked = map[string]*c12Gate{}
	s.nq, s.nctx = nq, nctx
	switch {
	case nq == 1:
		s.qs = []*driver.CommandQueue{s.all[0]}
	case nctx == 1:
		s.qs = []*driver.CommandQueue{s.all[0], s.all[1]}
	default:
		s.qs = []*driver.CommandQueue{s.all[0], s.all[2]}
	}
	s.scripts = scripts
	s.shared = make([]bool, nq)
	for q := 0; q < nq; q++ {
		var uses [2]bool
		for j := range scripts {
			for _, o := range scripts[j] {
				if o.q == q {
					uses[j] = true
				}
			}
		}
		s.shared[q] = uses[0] && uses[1]
	}
	s.goid = map[uint64]int{}
	s.done = [2]bool{}
	s.fault = [2]string{}
	s.returned = [2]int{}
	s.nextID = 0
	s.submitted = make([][]string, nq)
	s.subs = make([][]int, nq)
	s.early = nil
	s.mu.Unlock()
	c12g2SpawnA(s)
	c12g2SpawnB(s)
	return s
}

// the two application goroutines are told apart in stack dumps by their "created by" line

//go:noinline
func c12g2SpawnA(s *c12g2Sys) { go c12g2AppThread(s, 0) }

//go:noinline
func c12g2SpawnB(s *c12g2Sys) { go c12g2AppThread(s, 1) }

func c12g2AppThread(s *c12g2Sys, j int) {
	role := "a" + strconv.Itoa(j)
	s.mu.Lock()
	s.goid[c12g2Goid()] = j
	script := s.scripts[j]
	s.mu.Unlock()
	fault := catch(func() {
		for _, op := range script {
			s.park(role, "app.idle")
			q := s.qs[op.q]
			if op.enq {
				s.enqMu.Lock()
				s.mu.Lock()
				s.nextID++
				id := strconv.Itoa(s.nextID)
				s.submitted[op.q] = append(s.submitted[op.q], id)
				s.mu.Unlock()
				s.d.Enqueue(q, &driver.NoopCommand{ID: id})
				s.enqMu.Unlock()
				continue
			}
			s.mu.Lock()
			s.subs[op.q] = append(s.subs[op.q], j)
			s.mu.Unlock()
			s.d.DrainCommandQueue(q)
			left := q.VerifCommandIDs()
			s.mu.Lock()
			for i, t := range s.subs[op.q] {
				if t == j {
					s.subs[op.q] = append(s.subs[op.q][:i:i], s.subs[op.q][i+1:]...)
					break
				}
			}
			s.returned[j]++
			// on a queue the other thread also enqueues on, "non-empty right after the return" is only
			// meaningful while the gates hold the other thread still
			if len(left) != 0 && (!s.shared[op.q] || s.gating) {
				s.early = append(s.early, fmt.Sprintf("thread %d, queue %d: %s", j, op.q, strings.Join(left, ",")))
			}
			s.mu.Unlock()
		}
	})
	s.mu.Lock()
	s.fault[j] = fault
	s.done[j] = true
	s.mu.Unlock()
}

var c12g2StackBuf = make([]byte, 1<<16)

// c12g2Goroutines lists the role goroutines (a0, a1, r, e) with their scheduler state.
func c12g2Goroutines() []c12G {
	n := runtime.Stack(c12g2StackBuf, true)
	for n == len(c12g2StackBuf) {
		c12g2StackBuf = make([]byte, 2*len(c12g2StackBuf))
		n = runtime.Stack(c12g2StackBuf, true)
	}
	var out []c12G
	for _, blk := range strings.Split(string(c12g2StackBuf[:n]), "\n\n") {
		if !strings.HasPrefix(blk, "goroutine ") {
			continue
		}
		i := strings.IndexByte(blk, '[')
		j := strings.IndexByte(blk, ']')
		if i < 0 || j < i {
			continue
		}
		st := blk[i+1 : j]
		if k := strings.IndexByte(st, ','); k >= 0 {
			st = st[:k]
		}
		role := ""
		switch {
		case strings.Contains(blk, "created by main.c12g2SpawnA"):
			role = "a0"
		case strings.Contains(blk, "created by main.c12g2SpawnB"):
			role = "a1"
		case strings.Contains(blk, "created by github.com/sarchlab/mgpusim/v4/amd/driver.(*Driver).runAsync in"):
			role = "e"
		case strings.Contains(blk, "created by github.com/sarchlab/mgpusim/v4/amd/driver.(*Driver).Run in"):
			role = "r"
		}
		if role != "" {
			out = append(out, c12G{state: st, role: role})
		}
	}
	return out
}

type c12g2Obs struct {
	a        [2]string
	r, e     string
	cmds     [][]string
	token    [2]int
	capBad   string
	running  bool
	pend     bool
	returned [2]int
	nEngines int
}

func (o c12g2Obs) String() string {
	b := func(x bool) string {
		if x {
			return "1"
		}
		return "0"
	}
	qs := make([]string, len(o.cmds))
	for i, c := range o.cmds {
		qs[i] = strings.Join(c, ",")
	}
	return fmt.Sprintf("%s/%d/%d+%s/%d/%d.%s.%s:%s:%s%s", o.a[0], o.token[0], o.returned[0], o.a[1], o.token[1], o.returned[1],
		o.r, o.e, strings.Join(qs, "|"), b(o.running), b(o.pend))
}

// settle waits for quiescence (every role goroutine parked at a gate or blocked in a channel
// operation) and returns the observation.
func (s *c12g2Sys) settle() (c12g2Obs, bool) {
	deadline := time.Now().Add(10 * time.Second)
	spins := 0
	for {
		gs := c12g2Goroutines()
		quiet := true
		st := map[string]string{}
		nEng := 0
		for _, g := range gs {
			if !c12BlockedLike(g.state) {
				quiet = false
			}
			if g.role == "e" {
				nEng++
			}
			st[g.role] = g.state
		}
		if quiet {
			var o c12g2Obs
			o.nEngines = nEng
			s.mu.Lock()
			pc := func(role string) string {
				if g := s.parked[role]; g != nil {
					return c12ParkPoints[g.point]
				}
				return ""
			}
			for j := 0; j < 2; j++ {
				role := "a" + strconv.Itoa(j)
				if o.a[j] = pc(role); o.a[j] != "" {
					continue
				}
				switch {
				case st[role] == "" && s.done[j]:
					o.a[j] = "idle"
				case st[role] == "" || s.done[j]:
					quiet = false // goroutine not started yet / about to exit
				case strings.HasPrefix(st[role], "chan send"):
					o.a[j] = "sending"
				case strings.HasPrefix(st[role], "chan receive"):
					o.a[j] = "waiting"
				default:
					o.a[j] = "?" + st[role]
				}
			}
			if o.r = pc("r"); o.r == "" {
				if strings.HasPrefix(st["r"], "select") {
					o.r = "idle"
				} else {
					o.r = "?" + st["r"]
				}
			}
			if o.e = pc("e"); o.e == "" {
				if st["e"] == "" {
					o.e = "none"
				} else {
					o.e = "?" + st["e"]
				}
			}
			o.returned = s.returned
			subs := make([][]int, len(s.subs))
			for i := range s.subs {
				subs[i] = append([]int(nil), s.subs[i]...)
			}
			s.mu.Unlock()
			if quiet {
				for qi, q := range s.qs {
					o.cmds = append(o.cmds, q.VerifCommandIDs())
					toks, caps := q.VerifListenerTokens()
					if len(toks) != len(subs[qi]) {
						o.capBad = fmt.Sprintf("queue %d has %d listeners, the harness counted %d", qi, len(toks), len(subs[qi]))
						continue
					}
					for i, t := range subs[qi] {
						o.token[t] = toks[i]
						if toks[i] > 1 || caps[i] != 1 {
							o.capBad = fmt.Sprintf("listener signal of thread %d holds %d notifications, capacity %d", t, toks[i], caps[i])
						}
					}
				}
				o.running, o.pend = s.d.VerifEngineFlags()
				return o, true
			}
		}
		if time.Now().After(deadline) {
			if os.Getenv("C12_DEBUG") != "" {
				n := runtime.Stack(c12g2StackBuf, true)
				fmt.Fprintf(os.Stderr, "DEBUG gate2 unsettled gs=%v\n%s\n", gs, c12g2StackBuf[:n])
			}
			return c12g2Obs{}, false
		}
		spins++
		if spins < 50 {
			runtime.Gosched()
		} else {
			time.Sleep(20 * time.Microsecond)
		}
	}
}

var c12g2Roles = []string{"a0", "a1", "r", "e"}

// canMove: a role is movable iff it is parked at a gate, except that runAsync is not released into
// Engine.Pause while the engine is parked inside an event.
func (s *c12g2Sys) canMove(role string) bool {
	s.mu.Lock()
	defer s.mu.Unlock()
	g := s.parked[role]
	if g == nil {
		return false
	}
	if role == "r" && g.point == "async.afterRecv" {
		if e := s.parked["e"]; e != nil && e.point == "engine.event" {
			return false
		}
	}
	return true
}

func (s *c12g2Sys) move(role string) (string, c12g2Obs, bool) {
	if !s.canMove(role) {
		return "-", c12g2Obs{}, true
	}
	s.mu.Lock()
	g := s.parked[role]
	delete(s.parked, role)
	s.mu.Unlock()
	before := s.nparks.Load()
	close(g.ch)
	for i := 0; i < 200 && s.nparks.Load() == before; i++ {
		runtime.Gosched()
	}
	o, ok := s.settle()
	if !ok {
		return "unsettled", o, false
	}
	return o.String(), o, true
}

func (s *c12g2Sys) allDone() bool {
	s.mu.Lock()
	defer s.mu.Unlock()
	return s.done[0] && s.done[1]
}

// freeRun removes all gates and waits for both application threads to finish their scripts.
func (s *c12g2Sys) freeRun(d time.Duration) bool {
	s.mu.Lock()
	s.gating = false
	for k, g := range s.parked {
		close(g.ch)
		delete(s.parked, k)
	}
	s.mu.Unlock()
	deadline := time.Now().Add(d)
	for !s.allDone() {
		if time.Now().After(deadline) {
			return false
		}
		time.Sleep(50 * time.Microsecond)
	}
	return true
}

// rescue tries to un-hang stuck application threads (so later cases can still run).
func (s *c12g2Sys) rescue() bool {
	for i := 0; i < 200 && !s.allDone(); i++ {
		for _, q := range s.all {
			q.NotifyAllSubscribers()
		}
		if i%20 == 0 {
			go func() { withTimeout(2*time.Second, func() { s.d.DrainCommandQueue(s.all[0]) }) }()
		}
		time.Sleep(5 * time.Millisecond)
	}
	return s.allDone()
}

func (s *c12g2Sys) drop() {
	c12g2Shared = nil
	withTimeout(2*time.Second, func() { s.d.Terminate() })
	c12g2Cur.Store(nil)
}

// teardown waits until the system is quiescent and reusable (only runAsync left, in its select;
// every queue empty; engine flags clear); otherwise the system is dropped.
func (s *c12g2Sys) teardown() (emptied bool) {
	deadline := time.Now().Add(3 * time.Second)
	for {
		gs := c12g2Goroutines()
		if len(gs) == 1 && gs[0].role == "r" && strings.HasPrefix(gs[0].state, "select") {
			empty := true
			for _, q := range s.all {
				if len(q.VerifCommandIDs()) != 0 {
					empty = false
				}
			}
			if run, pend := s.d.VerifEngineFlags(); empty && !run && !pend {
				return true
			}
		}
		if time.Now().After(deadline) {
			break
		}
		runtime.Gosched()
	}
	emptied = true
	for _, q := range s.all {
		if len(q.VerifCommandIDs()) != 0 {
			emptied = false
		}
	}
	s.drop()
	deadline = time.Now().Add(3 * time.Second)
	for len(c12g2Goroutines()) != 0 {
		if time.Now().After(deadline) {
			c12g2Poisoned = true
			break
		}
		time.Sleep(100 * time.Microsecond)
	}
	return emptied
}

type c12g2Cfg struct {
	nq, nctx int
	scripts  c12g2Script
}

func (c c12g2Cfg) line(taken []string) string {
	return fmt.Sprintf("c12 ksched2 nq=%d ctx=%d scripts=%s ; %s", c.nq, c.nctx, c.scripts, strings.Join(taken, " "))
}

// c12g2Exec runs one gated schedule. choose gets the step index and the movable roles and returns
// the role to move ("" = stop and let the system run freely).
func c12g2Exec(r *Run, kind string, cfg c12g2Cfg, choose func(i int, en []string) string, maxSteps int) (taken []string, enabled [][]string) {
	if c12g2Poisoned || c12g2Hangs >= 3 {
		if !c12g2SkipNoted {
			c12g2SkipNoted = true
			r.Note("C12 gate2: remaining two-thread schedule cases skipped after %d hangs", c12g2Hangs)
		}
		return nil, nil
	}
	tA := time.Now()
	s := c12g2NewSys(cfg.nq, cfg.nctx, cfg.scripts)
	var outs []string
	line := func() string { return cfg.line(taken) }
	o, ok := s.settle()
	failed := false
	if !ok {
		r.Failf("C12.harness.unsettled.gate2", line(), "initial state did not become quiescent")
		failed = true
	}
	for i := 0; !failed && i < maxSteps; i++ {
		var en []string
		for _, role := range c12g2Roles {
			if s.canMove(role) {
				en = append(en, role)
			}
		}
		enabled = append(enabled, en)
		if len(en) == 0 {
			if !s.allDone() {
				r.Failf("C12.drain-hang.gate2", line(), "stuck state on the real code: no thread can move, application threads are %s and %s (queues=%v)", o.a[0], o.a[1], o.cmds)
				failed = true
			}
			break
		}
		role := choose(i, en)
		if role == "" {
			break
		}
		out, o2, ok := s.move(role)
		taken = append(taken, role)
		outs = append(outs, out)
		if !ok {
			r.Failf("C12.harness.unsettled.gate2", line(), "system did not become quiescent after the move")
			failed = true
			break
		}
		if out == "-" {
			continue
		}
		o = o2
		r.Checked("gate2.obs")
		// implementation-side oracles on every observation
		s.mu.Lock()
		for qi := range o.cmds {
			sub := s.submitted[qi]
			if len(o.cmds[qi]) > len(sub) || strings.Join(sub[len(sub)-len(o.cmds[qi]):], ",") != strings.Join(o.cmds[qi], ",") {
				r.Failf("C12.fifo.gate2", line(), "queue %d holds %v, not a suffix of its submission order %v", qi, o.cmds[qi], sub)
			}
		}
		for _, e := range s.early {
			r.Failf("C12.drain-early-return.gate2", line(), "DrainCommandQueue returned while its queue still held commands (%s)", e)
		}
		s.early = nil
		s.mu.Unlock()
		if o.capBad != "" && !c12g2CapNoted {
			c12g2CapNoted = true
			r.Failf("C12.signal-capacity.gate2", line(), "%s", o.capBad)
		}
		if o.nEngines > 1 {
			r.Failf("C12.two-engines.gate2", line(), "%d runEngine goroutines alive at a quiescent point", o.nEngines)
		}
		if o.pend && !o.running {
			r.Failf("C12.pending-without-engine.gate2", line(), "enginePending set while engineRunning is false")
		}
	}
	tB := time.Now()
	// liveness oracle: from wherever the schedule stopped, the free-running system must finish
	r.Checked("gate2.finish")
	limit := 2 * time.Second
	if failed {
		limit = 50 * time.Millisecond
	}
	if !s.freeRun(limit) {
		c12g2Hangs++
		if !failed {
			s.mu.Lock()
			d0, d1 := s.done[0], s.done[1]
			s.mu.Unlock()
			var left []string
			for _, q := range s.qs {
				left = append(left, strings.Join(q.VerifCommandIDs(), ","))
			}
			r.Failf("C12.drain-hang.gate2", line(), "the application threads did not finish within 2 s after the gates were removed (finished: thread 0 %v, thread 1 %v; queues=%v)", d0, d1, left)
		}
		if !s.rescue() {
			c12g2Poisoned = true
			r.Note("C12 gate2: an application thread could not be rescued after a hang; remaining two-thread schedule cases skipped")
		}
	}
	s.mu.Lock()
	for _, e := range s.early {
		r.Failf("C12.drain-early-return.gate2", line(), "DrainCommandQueue returned while its queue still held commands (%s)", e)
	}
	for j, f := range s.fault {
		if f != "" {
			r.Failf("C12.app-fault.gate2", line(), "application thread %d panicked: %s", j, f)
		}
	}
	s.mu.Unlock()
	tC := time.Now()
	if c12g2Poisoned {
		s.drop()
	} else if !s.teardown() && !failed {
		r.Failf("C12.queue-not-drained.gate2", line(), "both threads finished (every Enqueue was followed by a DrainCommandQueue of the same thread) but a queue still held commands 3 s later")
	}
	c12g2T[0] += tB.Sub(tA)
	c12g2T[1] += tC.Sub(tB)
	c12g2T[2] += time.Since(tC)
	r.Case(line(), strings.Join(outs, " "))
	r.Count("gate2." + kind)
	r.Count("gate2.scripts." + fmt.Sprintf("nq%dctx%d", cfg.nq, cfg.nctx))
	r.CountN("gate2.steps", len(taken))
	return taken, enabled
}

func c12g2First(i int, en []string) string { return en[0] }
func c12g2Last(i int, en []string) string  { return en[len(en)-1] }

func c12g2Cfg1(nq, nctx int, scripts string) c12g2Cfg {
	return c12g2Cfg{nq: nq, nctx: nctx, scripts: c12g2ParseScripts(scripts)}
}

// c12g2RandomScripts: 1-2 (thorough: 1-3) rounds per thread of 0-2 enqueues followed by a drain;
// mostly on the thread's own queue, sometimes on the other one. Every script ends with a drain.
func c12g2RandomScripts(rng *Rng, nq int, maxRounds int) c12g2Script {
	var sc c12g2Script
	for j := 0; j < 2; j++ {
		own := j % nq
		pickQ := func() int {
			if nq > 1 && rng.Chance(25) {
				return 1 - own
			}
			return own
		}
		rounds := rng.Range(1, maxRounds)
		if rng.Chance(5) {
			rounds = 0 // one thread only
		}
		for k := 0; k < rounds; k++ {
			for n := rng.Pick(0, 1, 1, 1, 2); n > 0; n-- {
				sc[j] = append(sc[j], c12g2Op{enq: true, q: pickQ()})
			}
			sc[j] = append(sc[j], c12g2Op{enq: false, q: pickQ()})
		}
	}
	return sc
}

func c12g2Schedules(r *Run, rng *Rng) {
	thorough := r.Tier == "thorough"
	shared := c12g2Cfg1(1, 1, "e0,d0|e0,d0")
	// 1. fixed witness schedules, completed by "first movable role" and cut (free run) after the window
	type wit struct {
		kind string
		cfg  c12g2Cfg
		seq  string
	}
	wits := []wit{
		// the second signal finds runAsync busy with the first one: its sender blocks and is served later
		{"witness-two-senders", shared, "a0 a1 a0 a1 a0 a1 r r r r e a0 a1"},
		// the later sender blocks first
		{"witness-two-senders-swapped", shared, "a0 a1 a1 a0 a1 a0 r r r r e a1 a0"},
		// BOTH threads blocked in the send while runAsync is busy with an earlier signal; the one that
		// blocked first is served first (thread 0 first / thread 1 first)
		{"witness-fifo-senders-01", c12g2Cfg1(1, 1, "d0,e0,d0|e0,d0"), "a0 a0 a0 a0 a0 a1 a1 a0 a1 r r r r r r"},
		{"witness-fifo-senders-10", c12g2Cfg1(1, 1, "d0,e0,d0|e0,d0"), "a0 a0 a0 a0 a0 a1 a1 a1 a0 r r r r r r"},
		// lost-notify window (one Dequeue notifies two listeners between their check and their Wait)
		{"witness-lost-notify-2", shared, "a0 a1 a0 a1 a0 r r a1 r r a0 a1 e e e a0 a1"},
		// engine-exit window: thread 0's round completes, the engine parks after Engine.Run returned, thread 1 signals
		{"witness-engine-exit-2", c12g2Cfg1(2, 1, "e0,d0|e1,d1"), "a0 a0 a0 r r a0 e e a0 e e a0 a1 a1 a1 r r e a1"},
		{"witness-engine-exit-2ctx", c12g2Cfg1(2, 2, "e0,d0|e1,d1"), "a0 a0 a0 r r a0 e e a0 e e a0 a1 a1 a1 r r e a1"},
		// a thread that drains a queue it never filled, while the other thread fills it
		{"witness-foreign-drain", c12g2Cfg1(1, 1, "e0,e0,d0|d0"), "a1 a1 r r a0 a1 a0 e e a1 a0 a0"},
		// one thread waits while the other runs two rounds on the other queue
		{"witness-two-rounds", c12g2Cfg1(2, 1, "e0,d0|e1,d1,e1,d1"), "a0 a0 a0 r r a0 a0 a1 a1 a1 r r e e a1 a1 a1 a1"},
	}
	for _, w := range wits {
		seq := strings.Fields(w.seq)
		c12g2Exec(r, w.kind, w.cfg, c12Fixed(seq, c12g2First), 300)
		c12g2Exec(r, w.kind, w.cfg, c12Fixed(seq, nil), 300)
	}

	// 2. systematic: depth-first over ALL movable roles for the first D moves, completed by the first
	//    movable role (stateless exploration: every execution is one complete schedule)
	type sys struct {
		cfg    c12g2Cfg
		depth  int
		budget int
		then   func(int, []string) string
	}
	syss := []sys{
		{shared, 7, 700, c12g2First},
		{c12g2Cfg1(2, 1, "e0,d0|e1,d1"), 6, 400, c12g2Last},
		{c12g2Cfg1(1, 1, "e0,e0,d0|d0"), 6, 400, c12g2First},
		{c12g2Cfg1(2, 2, "e0,d0|e1,d1,e1,d1"), 4, 200, c12g2Last},
	}
	if thorough {
		syss = []sys{
			{shared, 9, 4000, c12g2First},
			{shared, 7, 700, c12g2Last},
			{c12g2Cfg1(2, 1, "e0,d0|e1,d1"), 8, 3000, c12g2Last},
			{c12g2Cfg1(2, 2, "e0,d0|e1,d1"), 7, 1500, c12g2First},
			{c12g2Cfg1(1, 1, "e0,e0,d0|d0"), 8, 3000, c12g2First},
			{c12g2Cfg1(2, 1, "e0,d0|e1,d1,e1,d1"), 6, 1500, c12g2Last},
			{c12g2Cfg1(1, 1, "d0,e0,d0|e0,d0"), 6, 1500, c12g2First},
		}
	}
	for _, c := range syss {
		stack := [][]string{{}}
		n := 0
		for len(stack) > 0 && n < c.budget && !c12g2Poisoned {
			prefix := stack[len(stack)-1]
			stack = stack[:len(stack)-1]
			taken, en := c12g2Exec(r, "systematic", c.cfg, c12Fixed(prefix, c.then), 400)
			n++
			for i := len(prefix); i < len(taken) && i < c.depth && i < len(en); i++ {
				for _, alt := range en[i] {
					if alt != taken[i] {
						stack = append(stack, append(append([]string(nil), taken[:i]...), alt))
					}
				}
			}
		}
		r.CountN(fmt.Sprintf("gate2.systematic.unexplored-prefixes.%s.d%d", c.cfg.scripts, c.depth), len(stack))
	}

	// 3. random schedules over random script pairs (mostly movable roles, sometimes a blocked one)
	nr, maxRounds := 500, 2
	if thorough {
		nr, maxRounds = 6000, 3
	}
	for i := 0; i < nr && !c12g2Poisoned; i++ {
		nq := rng.Pick(1, 2, 2)
		nctx := 1
		if nq == 2 && rng.Bool() {
			nctx = 2
		}
		cfg := c12g2Cfg{nq: nq, nctx: nctx, scripts: c12g2RandomScripts(rng, nq, maxRounds)}
		bias := rng.Pick(0, 1, 2, 3, 4) // favourite role
		cut := -1                       // sometimes stop in the middle and let the system run freely
		if rng.Chance(15) {
			cut = rng.Range(3, 30)
		}
		c12g2Exec(r, "random", cfg, func(i int, en []string) string {
			if i == cut {
				return ""
			}
			if rng.Chance(6) {
				return c12g2Roles[rng.Intn(len(c12g2Roles))]
			}
			if bias < 4 && rng.Chance(50) {
				for _, x := range en {
					if x == c12g2Roles[bias] {
						return x
					}
				}
			}
			return en[rng.Intn(len(en))]
		}, 400)
	}
}

func runC12Gate2(r *Run, rng *Rng, replay string) {
	// the one-thread system of c12.go must be gone: its goroutines would be taken for ours
	c12DropShared()
	driver.VerifYield = c12Yield
	deadline := time.Now().Add(3 * time.Second)
	for len(c12g2Goroutines()) != 0 || len(c12Goroutines()) != 0 {
		if time.Now().After(deadline) {
			r.Failf("C12.harness.gate2-foreign-goroutines", "c12 ksched2", "driver goroutines of an earlier runner are still alive: %v", c12g2Goroutines())
			return
		}
		time.Sleep(time.Millisecond)
	}
	t0 := time.Now()
	c12g2Schedules(r, rng)
	if s := c12g2Shared; s != nil {
		s.drop()
	}
	c12g2Cur.Store(nil)
	if os.Getenv("C12_DEBUG") != "" {
		fmt.Fprintf(os.Stderr, "gate2: %v for %d steps; gated %v free-run %v teardown %v\n", time.Since(t0), r.Dist["gate2.steps"], c12g2T[0], c12g2T[1], c12g2T[2])
	}
}

// `harness child c12gate2 <seed> <tier> <outdir>` runs only this file's runner (debugging aid).
func init() {
	childFuncs["c12gate2"] = func(args []string) {
		seed, _ := strconv.ParseUint(args[0], 10, 64)
		r := NewRun("C12", args[1], seed, args[2])
		t0 := time.Now()
		runC12Gate2(r, NewRng(seed), "")
		r.Flush()
		fmt.Printf("c12gate2: %d cases, %d oracle failures, %v\n", len(r.ops), len(r.fails), time.Since(t0))
	}
}
