package main

// C02 (second deepening) — the command processor empties the L1 scalar and vector caches before a kernel
// starts on an idle GPU (cpMiddleware.processLaunchKernelReq / invalidateL1CachesBeforeKernel,
// ctrlMiddleware.processCacheFlushRsp). A real cp.CommandProcessor (its Builder, no engine) with harness
// ports in the place of the caches and stand-in dispatchers whose IsDispatching the harness controls
// (hook amd/timing/cp/verif_export_c02.go) is ticked by hand:
//
//	c02 l1 fix=1 nI= nS= nV= nL2= nd= ; op ; op ; …
//	  L<r>  a LaunchKernelReq (number r) reaches ToDriver        F   a driver FlushReq reaches ToDriver
//	  T     CommandProcessor.Tick                                A<i> cache i answers its oldest flush request
//	  D<d>  dispatcher d stops dispatching
//
// answer: per op what the command processor sent (`i<c>` invalidating cache.FlushReq to cache c, `f<c>`
// plain cache.FlushReq, `s<d>.<r>` StartDispatching(req r) on dispatcher d, `R` flush response to the
// driver), then numCacheACK / invalidation in progress / flush pending / ToDriver length / busy flags.
// The Lean model `C02.L1.cpTick` must give the same line. Oracles (on the real component):
//	C02.kernel-start-without-l1-invalidation   a kernel was started on an idle GPU although some L1S/L1V
//	                                           cache has not been reset since the previous kernel ended
//	C02.kernel-start-during-flush              a kernel was started while cache acknowledgements are outstanding
//	C02.l1-invalidation-answered-to-driver     the driver got a flush response nobody asked for

import (
	"fmt"
	"strings"

	"github.com/sarchlab/akita/v4/mem/cache"
	"github.com/sarchlab/akita/v4/sim"
	"github.com/sarchlab/mgpusim/v4/amd/protocol"
	"github.com/sarchlab/mgpusim/v4/amd/timing/cp"
)

func init() { register("C02", runC02L1) }

type c02l1Env struct {
	r      *Run
	c      *cp.CommandProcessor
	drv    sim.Port
	caches []sim.Port
	ix     map[sim.RemotePort]int
	disp   []*cp.VerifDispatcherC02
	reqNo  map[*protocol.LaunchKernelReq]int
	// outstanding flush requests per cache (ids), oldest first
	pend [][]*cache.FlushReq
	// oracle state: caches reset since the last kernel ended / since the platform was built
	clean     []bool
	started   int
	flushAsk  int
	flushRsp  int
	ops       []string
	nI, nS, nV, nL2 int
}

func c02l1New(r *Run, nI, nS, nV, nL2, nd int) *c02l1Env {
	e := &c02l1Env{r: r, ix: map[sim.RemotePort]int{}, reqNo: map[*protocol.LaunchKernelReq]int{}, nI: nI, nS: nS, nV: nV, nL2: nL2}
	c := cp.MakeBuilder().WithEngine(&fakeEngine{}).WithFreq(1 * sim.GHz).Build("CP")
	e.c = c
	conn := &fakeConn{name: "c02l1"}
	for _, p := range []sim.Port{c.ToDriver, c.ToDMA, c.ToCaches, c.ToCUs, c.ToRDMA, c.ToAddressTranslators, c.ToTLBs, c.ToPMC} {
		conn.PlugIn(p)
	}
	e.drv = sim.NewPort(nil, 4, 4, "FakeDriver.GPU")
	c.Driver = e.drv
	mk := func(kind string, n int) []sim.Port {
		var l []sim.Port
		for i := 0; i < n; i++ {
			p := sim.NewPort(nil, 4, 4, fmt.Sprintf("Fake%s%d.Ctrl", kind, i))
			e.ix[p.AsRemote()] = len(e.caches)
			e.caches = append(e.caches, p)
			l = append(l, p)
		}
		return l
	}
	c.L1ICaches = mk("L1I", nI)
	c.L1SCaches = mk("L1S", nS)
	c.L1VCaches = mk("L1V", nV)
	c.L2Caches = mk("L2", nL2)
	e.pend = make([][]*cache.FlushReq, len(e.caches))
	e.clean = make([]bool, len(e.caches))
	for i := range e.clean {
		e.clean[i] = true // nothing has run yet
	}
	e.disp = c.VerifInstallDispatchersC02(nd)
	return e
}

func (e *c02l1Env) isL1Data(i int) bool { return i >= e.nI && i < e.nI+e.nS+e.nV }

func (e *c02l1Env) state() string {
	acks, inv, fl := e.c.VerifLaunchStateC02()
	b := ""
	for _, d := range e.disp {
		if d.Busy {
			b += "1"
		} else {
			b += "0"
		}
	}
	return fmt.Sprintf("acks=%d inv=%d fl=%d busy=%s", acks, c02dB2i(inv), c02dB2i(fl), b)
}

func (e *c02l1Env) line() string { return strings.Join(e.ops, " ; ") }

// drain what the command processor sent during the op
func (e *c02l1Env) collect(startedBefore []int) string {
	var out []string
	for {
		m := e.c.ToDriver.RetrieveOutgoing()
		if m == nil {
			break
		}
		if g, ok := m.(*sim.GeneralRsp); ok {
			if _, isF := g.OriginalReq.(*protocol.FlushReq); isF {
				out = append(out, "R")
				e.flushRsp++
				e.r.Checked("flush-response-asked-for")
				if e.flushRsp > e.flushAsk {
					e.r.Failf("C02.l1-invalidation-answered-to-driver", e.line(), "flush response %d for %d flush requests", e.flushRsp, e.flushAsk)
				}
				continue
			}
		}
		out = append(out, "?")
	}
	for {
		m := e.c.ToCaches.RetrieveOutgoing()
		if m == nil {
			break
		}
		if q, ok := m.(*cache.FlushReq); ok {
			i := e.ix[q.Dst]
			e.pend[i] = append(e.pend[i], q)
			if q.InvalidateAllCachelines {
				out = append(out, fmt.Sprintf("i%d", i))
			} else {
				out = append(out, fmt.Sprintf("f%d", i))
			}
		} else {
			out = append(out, "?")
		}
	}
	for d, dd := range e.disp {
		for k := startedBefore[d]; k < len(dd.Started); k++ {
			out = append(out, fmt.Sprintf("s%d.%d", d, e.reqNo[dd.Started[k]]))
			// oracles at the moment a kernel starts
			acks := dd.AcksAtStart[k]
			e.r.Checked("kernel-start-l1-state")
			others := false
			for d2, x := range e.disp {
				if d2 != d && x.Busy {
					others = true
				}
			}
			if acks > 0 {
				e.r.Failf("C02.kernel-start-during-flush", e.line(), "kernel %d started on dispatcher %d while numCacheACK=%d", e.reqNo[dd.Started[k]], d, acks)
			}
			if !others {
				for i := range e.caches {
					if e.isL1Data(i) && !e.clean[i] {
						e.r.Failf("C02.kernel-start-without-l1-invalidation", e.line(),
							"kernel %d started on an idle GPU, cache %d (of L1I %d, L1S %d, L1V %d) not reset since the previous kernel", e.reqNo[dd.Started[k]], i, e.nI, e.nS, e.nV)
						break
					}
				}
			}
			// from now on the caches fill
			for i := range e.clean {
				e.clean[i] = false
			}
			e.started++
		}
	}
	if len(out) == 0 {
		return "-"
	}
	return strings.Join(out, ",")
}

func (e *c02l1Env) do(op string) string {
	e.ops = append(e.ops, op)
	before := make([]int, len(e.disp))
	for d, dd := range e.disp {
		before[d] = len(dd.Started)
	}
	switch {
	case op == "T":
		if f := catch(func() { e.c.Tick() }); f != "" {
			return "fault:" + f
		}
		return e.collect(before)
	case op == "F":
		q := protocol.NewFlushReq(e.drv, e.c.ToDriver)
		if err := e.c.ToDriver.Deliver(q); err != nil {
			return "rej"
		}
		e.flushAsk++
		return "ok"
	case strings.HasPrefix(op, "L"):
		var n int
		fmt.Sscan(op[1:], &n)
		q := protocol.NewLaunchKernelReq(e.drv, e.c.ToDriver)
		e.reqNo[q] = n
		if err := e.c.ToDriver.Deliver(q); err != nil {
			return "rej"
		}
		return "ok"
	case strings.HasPrefix(op, "A"):
		var i int
		fmt.Sscan(op[1:], &i)
		if i < 0 || i >= len(e.caches) || len(e.pend[i]) == 0 {
			return "rej"
		}
		q := e.pend[i][0]
		rsp := cache.FlushRspBuilder{}.WithSrc(e.caches[i].AsRemote()).WithDst(e.c.ToCaches.AsRemote()).WithRspTo(q.ID).Build()
		if err := e.c.ToCaches.Deliver(rsp); err != nil {
			return "rej"
		}
		e.pend[i] = e.pend[i][1:]
		e.clean[i] = true // hardResetCache: directory.Reset()
		return "ok"
	case strings.HasPrefix(op, "D"):
		var d int
		fmt.Sscan(op[1:], &d)
		if d < 0 || d >= len(e.disp) || !e.disp[d].Busy {
			return "rej"
		}
		e.disp[d].Busy = false
		return "ok"
	}
	return "bad"
}

func c02l1Scenario(r *Run, nI, nS, nV, nL2, nd int, ops []string) {
	e := c02l1New(r, nI, nS, nV, nL2, nd)
	head := fmt.Sprintf("c02 l1 fix=1 nI=%d nS=%d nV=%d nL2=%d nd=%d", nI, nS, nV, nL2, nd)
	e.ops = []string{head}
	var out []string
	for _, op := range ops {
		o := e.do(op)
		out = append(out, o)
		if strings.HasPrefix(o, "fault") {
			break
		}
	}
	st := e.state()
	r.Case(e.line(), strings.Join(out, " ")+" | "+st)
	r.Count(fmt.Sprintf("l1:kernels-started=%s", c02dBucket(e.started)))
}

func runC02L1(r *Run, rng *Rng, replay string) {
	// fixed scenarios: the shipped shape (one queue: L T acks T T … D), a flush between kernels, two dispatchers
	c02l1Scenario(r, 1, 1, 2, 1, 1, strings.Split("L0 T A1 A2 T A3 T T D0 L1 T A3 A2 A1 T T T D0", " "))
	c02l1Scenario(r, 1, 1, 2, 1, 2, strings.Split("L0 T A1 A2 A3 T T L1 T T D0 D1 F T A0 A1 A2 A3 A4 T T L2 T A1 A2 A3 T T", " "))
	c02l1Scenario(r, 0, 0, 0, 0, 1, strings.Split("L0 T D0 L1 T F T T", " "))
	n := 150
	if r.Tier == "thorough" {
		n = 4000
	}
	for k := 0; k < n; k++ {
		nI, nS, nV, nL2 := rng.Intn(3), rng.Intn(3), rng.Intn(4), rng.Intn(3)
		nd := rng.Range(1, 3)
		tot := nI + nS + nV + nL2
		var ops []string
		next := 0
		inq := 0
		for len(ops) < rng.Range(8, 40) {
			switch x := rng.Intn(100); {
			case x < 18 && inq < 3:
				ops = append(ops, fmt.Sprintf("L%d", next))
				next++
				inq++
			case x < 24 && inq < 3:
				ops = append(ops, "F")
				inq++
			case x < 55:
				ops = append(ops, "T")
			case x < 85 && tot > 0:
				// answer caches: mostly every cache once (a whole round), sometimes a single one
				if rng.Chance(60) {
					for _, i := range rng.Perm(tot) {
						ops = append(ops, fmt.Sprintf("A%d", i))
					}
				} else {
					ops = append(ops, fmt.Sprintf("A%d", rng.Intn(tot)))
				}
			default:
				ops = append(ops, fmt.Sprintf("D%d", rng.Intn(nd)))
			}
		}
		c02l1Scenario(r, nI, nS, nV, nL2, nd, ops)
	}
}
