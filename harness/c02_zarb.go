package main

import (
	"fmt"
	"sort"
	"strconv"
	"strings"

	"github.com/sarchlab/akita/v4/sim"
	"github.com/sarchlab/mgpusim/v4/amd/insts"
	"github.com/sarchlab/mgpusim/v4/amd/kernels"
	"github.com/sarchlab/mgpusim/v4/amd/timing/cu"
	"github.com/sarchlab/mgpusim/v4/amd/timing/wavefront"
)

// Property C02, third deepening: the `issue` event of the wavefront machine driven by the real issue path.
//
//	c02 arb last=<k> pools=<id:ph:inst,...|...> load=<n0,..,n5>
//
// A real compute unit (cu.MakeBuilder) whose four wavefront pools hold wavefronts in the states the
// wavefront machine knows (ph: r = WfReady, x = WfRunning, d = WfCompleted), each with or without a
// decoded instruction — the REAL decoding (insts.Disassembler) of the GCN3 encoding of one instruction
// of the concrete set of c02_deep.go (inst = its text form, `-` = InstToIssue == nil) —, decode units
// pre-loaded with 0..4 wavefronts; one real SchedulerImpl.DoIssue per round (the arbiter's round-robin
// pointer follows). Answer: the wavefronts handed to issueToInternal in order, the wavefronts that
// became WfRunning in a unit (sorted), the new lastSIMDID. The Lean side builds the machine states,
// derives the pools (`C02.Arb.poolsOf`: `view`, `unitOf`, `stateCode`) and answers with
// `C02.Arb.cycleActs` (= C14's arbiter and DoIssue model on those pools).
// Oracle: C02.arb-issued-not-issuable (DoIssue moved a wavefront that was not WfReady with a decoded
// instruction — the machine would refuse the event).
func init() { register("C02", runC02Arb) }

func c02ArbSample(rng *Rng) c02dInst {
	s := uint64(rng.Range(4, 20))
	v := uint64(rng.Range(2, 9))
	switch rng.Intn(21) {
	case 0:
		return c02dInst{op: "smov", a: s, b: uint64(rng.Pick(3, 64, 0x12345))}
	case 1:
		return c02dInst{op: "sadd", a: s, b: s + 1, c: s + 2}
	case 2:
		return c02dInst{op: "scmp", a: s, b: s + 1}
	case 3:
		return c02dInst{op: "sexec", a: uint64(rng.Pick(0, 3, 0x1234567))}
	case 4:
		return c02dInst{op: "vmov", a: v, b: s}
	case 5:
		return c02dInst{op: "vxor", a: v, b: s, c: v + 1}
	case 6:
		return c02dInst{op: "fld", a: v, b: 2}
	case 7:
		return c02dInst{op: "fst", a: 2, b: v}
	case 8:
		return c02dInst{op: "sld", a: s, b: 8, c: uint64(rng.Pick(0, 4, 64))}
	case 9:
		return c02dInst{op: "wait", a: uint64(rng.Intn(4)), b: uint64(rng.Intn(2))}
	case 10:
		return c02dInst{op: "nop"}
	case 11:
		return c02dInst{op: "br", a: uint64(rng.Intn(4))}
	case 12:
		return c02dInst{op: "cbr", a: uint64(rng.Intn(2)), b: uint64(rng.Intn(4))}
	case 13:
		return c02dInst{op: "dsw", a: v, b: v + 1}
	case 14:
		return c02dInst{op: "dsr", a: v, b: v + 1}
	case 15:
		return c02dInst{op: "getpc", a: s &^ 1}
	case 16:
		return c02dInst{op: "svcc", a: uint64(rng.Pick(0, 1))}
	case 17:
		return c02dInst{op: "vcmp", a: s, b: v}
	case 18:
		return c02dInst{op: "vrfl", a: s, b: v}
	case 19:
		return c02dInst{op: "cbrv", a: uint64(rng.Intn(2)), b: uint64(rng.Intn(4))}
	}
	return c02dInst{op: "end"}
}

type c02ArbWf struct {
	wf   *wavefront.Wavefront
	id   int
	inst string
}

func c02ArbCase(r *Run, rng *Rng, dis *insts.Disassembler) {
	c := cu.MakeBuilder().WithEngine(&fakeEngine{}).WithFreq(1 * sim.GHz).WithRegisterScoreboard(false).Build("CU")
	sch := c.VerifScheduler()
	co := &insts.KernelCodeObject{KernelCodeObjectMeta: &insts.KernelCodeObjectMeta{}}
	mk := func() *wavefront.Wavefront {
		raw := kernels.NewWavefront()
		raw.CodeObject = co
		wf := wavefront.NewWavefront(raw)
		wf.SetDynamicInst(c14ArbInst(0, false))
		return wf
	}
	var all []*c02ArbWf
	pools := make([][]*c02ArbWf, 4)
	n := rng.Range(0, 12)
	for i := 0; i < n; i++ {
		wf := mk()
		wf.SIMDID = rng.Intn(4)
		if rng.Chance(30) {
			wf.SIMDID = 0
		}
		wf.State = wavefront.WfState(rng.Pick(1, 1, 1, 1, 1, 2, 3))
		w := &c02ArbWf{wf: wf, id: i, inst: "-"}
		if rng.Chance(85) {
			ci := c02ArbSample(rng)
			in, err := dis.Decode(ci.enc())
			if err != nil {
				r.Failf("C02.arb-decode", ci.text(), "the disassembler rejects the encoding: %v", err)
				return
			}
			wf.InstToIssue = wavefront.NewInst(in)
			w.inst = ci.text()
		}
		c.WfPools[wf.SIMDID].AddWf(wf)
		all = append(all, w)
		pools[wf.SIMDID] = append(pools[wf.SIMDID], w)
	}
	load := make([]int, 6)
	for _, u := range []int{0, 1, 2, 4} {
		k := rng.Pick(0, 0, 0, 1, 3, 4)
		load[u] = k
		unit := map[int]cu.SubComponent{0: c.VectorDecoder, 1: c.ScalarDecoder, 2: c.VectorMemDecoder, 4: c.LDSDecoder}[u]
		for j := 0; j < k; j++ {
			unit.AcceptWave(mk())
		}
	}
	if rng.Chance(30) {
		load[3] = 1
		c.BranchUnit.AcceptWave(mk())
	}
	last := 0
	idOf := map[*wavefront.Wavefront]int{}
	for _, w := range all {
		idOf[w.wf] = w.id
	}
	for round := rng.Range(1, 3); round > 0; round-- {
		var ps []string
		for _, p := range pools {
			var ws []string
			for _, w := range p {
				ph := map[wavefront.WfState]string{wavefront.WfReady: "r", wavefront.WfRunning: "x", wavefront.WfCompleted: "d"}[w.wf.State]
				inst := "-"
				if w.wf.InstToIssue != nil {
					inst = w.inst
				}
				ws = append(ws, fmt.Sprintf("%d:%s:%s", w.id, ph, inst))
			}
			if len(ws) == 0 {
				ps = append(ps, "-")
			} else {
				ps = append(ps, strings.Join(ws, ","))
			}
		}
		var ls []string
		for _, k := range load {
			ls = append(ls, strconv.Itoa(k))
		}
		line := fmt.Sprintf("c02 arb last=%d pools=%s load=%s", last, strings.Join(ps, "|"), strings.Join(ls, ","))
		before := map[int]wavefront.WfState{}
		hadInst := map[int]*wavefront.Inst{}
		for _, w := range all {
			before[w.id] = w.wf.State
			hadInst[w.id] = w.wf.InstToIssue
		}
		out := ""
		fault := catch(func() {
			nInt := len(sch.VerifInternalExecuting())
			sch.VerifDoIssue()
			var ints, runs []string
			inInt := map[int]bool{}
			for _, wf := range sch.VerifInternalExecuting()[nInt:] {
				ints = append(ints, strconv.Itoa(idOf[wf]))
				inInt[idOf[wf]] = true
			}
			var runIDs []int
			for _, w := range all {
				if w.wf.State == before[w.id] {
					continue
				}
				r.Checked("arb-issued")
				if before[w.id] != wavefront.WfReady || hadInst[w.id] == nil || w.wf.State != wavefront.WfRunning ||
					w.wf.DynamicInst() != hadInst[w.id] || w.wf.InstToIssue != nil {
					r.Failf("C02.arb-issued-not-issuable", line, "DoIssue moved wavefront %d from state %d to %d (decoded instruction before: %v): the wavefront machine refuses that issue event",
						w.id, int(before[w.id]), int(w.wf.State), hadInst[w.id] != nil)
				}
				if !inInt[w.id] {
					runIDs = append(runIDs, w.id)
				}
			}
			sort.Ints(runIDs)
			for _, id := range runIDs {
				runs = append(runs, strconv.Itoa(id))
				load[int(hadInst[id].ExeUnit)]++
				r.Count(fmt.Sprintf("arb:unit%d", int(hadInst[id].ExeUnit)))
			}
			si, sr := "-", "-"
			if len(ints) > 0 {
				si = strings.Join(ints, ",")
				r.Count("arb:internal")
			}
			if len(runs) > 0 {
				sr = strings.Join(runs, ",")
			}
			if n > 0 {
				last = (last + 1) % 4
			}
			out = fmt.Sprintf("int=%s run=%s last=%d", si, sr, last)
		})
		if fault != "" {
			r.Failf("C02.arb-fault", line, "the real DoIssue panicked: %s", fault)
			return
		}
		r.Count("arb:cycles")
		r.Case(line, out)
	}
}

func runC02Arb(r *Run, rng *Rng, replay string) {
	n := 300
	if r.Tier == "thorough" {
		n = 6000
	}
	dis := insts.NewDisassembler()
	for k := 0; k < n; k++ {
		c02ArbCase(r, rng, dis)
	}
}
