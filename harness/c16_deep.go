package main

// C16 (deep) — the closed world under Akita's wake rule.
//
// Same real addresstranslator.Comp, same ports/hooks/oracles as c16.go, but the component is
// driven the way the engine drives it: the engine below keeps the tick event the real
// sim.TickScheduler schedules (TickLater from Handle on progress, NotifyRecv on a delivery into
// an empty buffer, NotifyPortFree on a retrieval from a full one); a `t` op runs
// TickingComponent.Handle on that event, or does nothing (`ts`) when none is scheduled. Only
// honest environment moves occur (each lookup / forwarded request answered once, restart only
// while flushing). Case lines carry `wake=1`; the Lean side runs `hstep` (the closed-world model
// the run-level theorems are about) and prints the scheduler state after every op.
//
// Oracles: while no tick event is scheduled a direct Tick() must return false and change nothing
// (`C16.wake.lost`: a lost wake-up); after the closing rounds — with ticks only when scheduled —
// everything is quiescent and every accepted, non-flushed access is answered exactly once
// (`C16.wake.not-quiescent`, `C16.wake.unanswered`).

import (
	"fmt"
	"strconv"
	"strings"

	"github.com/sarchlab/akita/v4/mem/vm"
	"github.com/sarchlab/akita/v4/sim"
	"github.com/sarchlab/mgpusim/v4/amd/timing/mem/addresstranslator"
)

func init() { register("C16", runC16Deep) }

// c16Engine keeps scheduled events instead of running them.
type c16Engine struct {
	sim.HookableBase
	now     sim.VTimeInSec
	pending []sim.Event
}

func (e *c16Engine) Schedule(evt sim.Event)      { e.pending = append(e.pending, evt) }
func (e *c16Engine) Run() error                  { return nil }
func (e *c16Engine) Pause()                      {}
func (e *c16Engine) Continue()                   {}
func (e *c16Engine) CurrentTime() sim.VTimeInSec { return e.now }

type c16Deep struct {
	*c16Env
	eng *c16Engine
}

func newC16Deep(r *Run, line string, w int, lg, salt uint64) *c16Deep {
	e := &c16Env{r: r, line: line, lg: lg, w: w, salt: salt,
		accByID: map[string]*c16Acc{}, tidNum: map[string]int{}, bidNum: map[string]int{},
		memRsp: map[string][]byte{}, memRspSeen: map[string]bool{}, translated: map[string]bool{},
		bidOwner: map[string]*c16Acc{}}
	eng := &c16Engine{}
	e.comp = addresstranslator.MakeBuilder().
		WithEngine(eng).
		WithFreq(1 * sim.GHz).
		WithNumReqPerCycle(w).
		WithLog2PageSize(lg).
		WithDeviceID(1).
		WithMemoryProviderMapper(onePortMapper{"Mem"}).
		WithTranslationProviderMapper(onePortMapper{"MMU"}).
		Build("AT")
	e.top, e.bot, e.tr, e.ctl = e.comp.VerifC16Ports()
	conn := &fakeConn{name: "c16w"}
	for k, p := range map[string]sim.Port{"top": e.top, "bot": e.bot, "tr": e.tr, "ctl": e.ctl} {
		p.SetConnection(conn)
		p.AcceptHook(&c16Hook{e: e, kind: k})
	}
	e.pt = vm.NewPageTable(lg)
	pids := []uint64{0, 1, 2, 3, 4, 5, 6, 7}
	for k := uint64(1); k <= 3; k++ {
		pids = append(pids, (1<<lg)+k)
	}
	for _, pid := range pids {
		for vpn := uint64(0); vpn < 8; vpn++ {
			e.pt.Insert(vm.Page{PID: vm.PID(pid), VAddr: vpn << lg, PAddr: (salt + vpn*8 + pid) << lg,
				PageSize: 1 << lg, Valid: true, DeviceID: 1})
		}
	}
	return &c16Deep{c16Env: e, eng: eng}
}

func (d *c16Deep) awake() bool { return len(d.eng.pending) > 0 }

// portsSig: what sits at the head of each buffer the component can look at (plus the sizes a
// blocked stage depends on) — for the "nothing changed" part of the lost-wake-up oracle
func (d *c16Deep) portsSig() string {
	h := func(p sim.Port) string {
		s := ""
		if m := p.PeekIncoming(); m != nil {
			s += "i" + m.Meta().ID
		}
		if m := p.PeekOutgoing(); m != nil {
			s += "o" + m.Meta().ID
		}
		return s
	}
	return h(d.top) + "|" + h(d.bot) + "|" + h(d.tr) + "|" + h(d.ctl)
}

func onesZeros(n, k int) string {
	ts := make([]string, k)
	for i := range ts {
		ts[i] = "0"
		if i < n {
			ts[i] = "1"
		}
	}
	return strings.Join(ts, "/")
}

func (d *c16Deep) lastOut() string {
	t := d.out[len(d.out)-1]
	d.out = d.out[:len(d.out)-1]
	return t
}

func (d *c16Deep) wop(toks []string) string {
	e := d.c16Env
	argN := func(i int) int {
		v := 0
		if i < len(toks) {
			v, _ = strconv.Atoi(toks[i])
		}
		return v
	}
	switch toks[0] {
	case "a", "f":
		e.op(toks)
		return d.lastOut()
	case "s":
		if fl, _, _ := e.comp.VerifC16State(); !fl {
			return "c!" // the controller has not seen the flush acknowledged: no restart yet
		}
		e.op(toks)
		return d.lastOut()
	case "xt", "xm":
		e.op(toks)
		t := d.lastOut()
		if strings.HasPrefix(t, "ok") {
			t = "ok"
		}
		return t
	case "du", "db", "dx", "dc":
		e.op(toks)
		n, _ := strconv.Atoi(d.lastOut()[1:])
		return onesZeros(n, argN(1))
	case "t":
		if !d.awake() {
			e.r.Count("wake.tick-skipped-asleep")
			return "ts"
		}
		evt := d.eng.pending[0]
		d.eng.pending = d.eng.pending[1:]
		d.eng.now = evt.Time()
		e.ev, e.afterK, e.lastQ = nil, false, nil
		f := catch(func() { _ = e.comp.Handle(evt) })
		if f != "" {
			e.fault = f
			return "fault:" + f
		}
		if len(d.eng.pending) > 1 {
			e.r.Failf("C16.wake.double-schedule", e.line, "%d tick events pending after one Handle", len(d.eng.pending))
		}
		tok := "t0"
		if d.awake() {
			tok = "t1"
		}
		return tok + e.stateSig()
	}
	return "?"
}

// lost wake-up probe: nothing scheduled => a tick would do nothing
func (d *c16Deep) probeAsleep(after string) {
	e := d.c16Env
	if d.awake() || e.fault != "" {
		return
	}
	e.r.Checked("wake.asleep")
	_, txs, _ := e.comp.VerifC16State()
	for _, t := range txs {
		if t.Done {
			e.r.Count("wake.asleep-with-completed-transaction")
			break
		}
	}
	before, pb, nev := e.stateSig(), d.portsSig(), len(e.ev)
	p := false
	f := catch(func() { p = e.comp.Tick() })
	if f != "" || p || e.stateSig() != before || d.portsSig() != pb || len(e.ev) != nev {
		e.r.Failf("C16.wake.lost", e.line, "after op %q no tick is scheduled, yet Tick() returned %v (fault %q), state %s -> %s, %d port events",
			after, p, f, before, e.stateSig(), len(e.ev)-nev)
	}
}

func c16DeepGen(rng *Rng, big bool) []string {
	w := rng.Pick(1, 1, 1, 2, 2, 4, 3)
	lg := rng.Pick(12, 12, 6, 8)
	salt := rng.Pick(16, 256, 4096)
	ops := []string{fmt.Sprintf("c16 w=%d lg=%d salt=%d wake=1", w, lg, salt)}
	maxOps := 80
	if big {
		maxOps = 400
	}
	n := rng.Range(8, maxOps)
	style := rng.Intn(4) // 0 uniform; 1 bottom rarely drained; 2 top/translation back-pressure; 3 flush points
	pidBias, vpnBias := rng.Range(1, 3), rng.Intn(4)
	nacc := 0
	for i := 0; i < n; i++ {
		x := rng.Intn(100)
		switch {
		case x < 22:
			ops = append(ops, c16GenAccess(rng, uint64(lg), pidBias, vpnBias))
			nacc++
		case x < 52:
			ops = append(ops, "t")
		case x < 63:
			ops = append(ops, fmt.Sprintf("xt %d", rng.Intn(6)))
		case x < 73:
			ops = append(ops, fmt.Sprintf("xm %d", rng.Intn(6)))
		case x < 80:
			if style == 2 && rng.Chance(70) {
				ops = append(ops, "t")
			} else {
				ops = append(ops, fmt.Sprintf("dx %d", rng.Range(1, 3)))
			}
		case x < 87:
			if style == 1 && rng.Chance(75) {
				ops = append(ops, fmt.Sprintf("xt %d", rng.Intn(3)), "t")
			} else {
				ops = append(ops, fmt.Sprintf("db %d", rng.Range(1, 3)))
			}
		case x < 93:
			if style == 2 && rng.Chance(70) {
				ops = append(ops, "t")
			} else {
				ops = append(ops, fmt.Sprintf("du %d", rng.Range(1, 3)))
			}
		case x < 96:
			ops = append(ops, "dc 1")
		default:
			if style == 3 || rng.Chance(30) {
				if rng.Chance(55) {
					ops = append(ops, "f")
				} else {
					ops = append(ops, "s")
				}
				if rng.Chance(60) {
					ops = append(ops, "t", "dc 1")
				}
			} else {
				ops = append(ops, "t")
			}
		}
	}
	// complete a possibly open flush/restart handshake, a few more accesses, closing rounds
	ops = append(ops, "t", "dc 1", "t", "s", "t", "dc 1", "t", "s", "t", "dc 1", "t")
	for k := 0; k < rng.Intn(4); k++ {
		ops = append(ops, c16GenAccess(rng, uint64(lg), pidBias, vpnBias))
		nacc++
	}
	for i := 0; i < 14+3*nacc; i++ {
		ops = append(ops, "t", fmt.Sprintf("dx %d", w), fmt.Sprintf("db %d", w), fmt.Sprintf("du %d", w), "dc 1")
		for k := 0; k < w; k++ {
			ops = append(ops, "xt 0", "xm 0")
		}
	}
	ops = append(ops, "t", fmt.Sprintf("du %d", w), "t", fmt.Sprintf("du %d", w))
	return ops
}

var c16DeepFixed = [][]string{
	// reply while the bottom port is full: the component goes to sleep with a completed
	// transaction pending; the memory side taking a request wakes it
	{"c16 w=1 lg=12 salt=16 wake=1", "a 1 1004 r 4", "t", "dx 1", "xt 0", "t", "a 2 1008 r 4", "t", "dx 1", "xt 0", "t", "t", "t", "db 1", "t", "xm 0", "t", "du 1", "db 1", "xm 0", "t", "du 1", "t", "t"},
	// flush + restart with a late memory response and a late translation reply
	{"c16 w=2 lg=12 salt=16 wake=1", "a 1 0 r 4", "a 2 0 r 4", "t", "dx 2", "xt 0", "t", "db 1", "a 1 3000 r 4", "t", "f", "t", "dc 1", "s", "t", "dc 1", "a 2 3000 r 4", "t", "xt 0", "xm 0", "t", "t", "dx 2", "xt 0", "xt 0", "t", "db 2", "xm 0", "t", "du 2", "t", "t"},
}

func runC16DeepScenario(r *Run, ops []string, kind string) {
	cfg := strings.Fields(ops[0])
	w, lg, salt := 4, uint64(12), uint64(16)
	for _, t := range cfg {
		switch {
		case strings.HasPrefix(t, "w="):
			w, _ = strconv.Atoi(t[2:])
		case strings.HasPrefix(t, "lg="):
			lg, _ = strconv.ParseUint(t[3:], 10, 64)
		case strings.HasPrefix(t, "salt="):
			salt, _ = strconv.ParseUint(t[5:], 10, 64)
		}
	}
	line := strings.Join(ops, " ; ")
	d := newC16Deep(r, line, w, lg, salt)
	out := []string{}
	for _, o := range ops[1:] {
		if d.fault != "" {
			break
		}
		tok := d.wop(strings.Fields(o))
		fl := "_"
		if d.awake() {
			fl = "^"
		}
		out = append(out, tok+fl)
		d.probeAsleep(o)
	}
	out = append(out, fmt.Sprintf("E r=%d;f=%d;a=%d", d.nRecv, d.nFwd, d.nAns))
	r.Case(line, strings.Join(out, " "))
	r.Count("wake.scenario." + kind)
	r.CountN("wake.ops", len(ops)-1)
	// ---- oracle: driven only by scheduled ticks, nothing accepted is left behind
	fl, txs, infl := d.comp.VerifC16State()
	if d.fault == "" {
		r.Checked("wake.no-loss")
		if fl || len(txs) != 0 || len(infl) != 0 || d.top.PeekIncoming() != nil ||
			d.tr.PeekIncoming() != nil || d.bot.PeekIncoming() != nil || d.awake() {
			r.Failf("C16.wake.not-quiescent", line, "after the closing rounds: flushing=%v transactions=%d inflight=%d awake=%v", fl, len(txs), len(infl), d.awake())
		}
		for _, a := range d.accs {
			if a == nil || a.discarded || !a.accepted || a.epoch != d.epoch {
				continue
			}
			if a.fwd != 1 || a.ans != 1 {
				r.Failf("C16.wake.unanswered", line, "access %d (pid %d vaddr %x) forwarded %d times, answered %d times", a.idx, a.pid, a.vaddr, a.fwd, a.ans)
			}
		}
	}
}

func runC16Deep(r *Run, rng *Rng, replay string) {
	for _, sc := range c16DeepFixed {
		runC16DeepScenario(r, sc, "fixed")
	}
	n, nbig := 600, 30
	if r.Tier == "thorough" {
		n, nbig = 12000, 600
	}
	for i := 0; i < n; i++ {
		runC16DeepScenario(r, c16DeepGen(rng, false), "random")
	}
	for i := 0; i < nbig; i++ {
		runC16DeepScenario(r, c16DeepGen(rng, true), "long")
	}
}
