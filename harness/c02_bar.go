package main

// C02 (second deepening) — SEVERAL wavefronts of one work-group meeting at `s_barrier` on the REAL
// timing compute unit, next to the REAL emulator ALU driven like emu.ComputeUnit.runWG, tied to the
// Lean event machine `C02.Bar.wgstep` / `C02.Bar.ewgRun` (lean/MgpuModel/C02Bar.lean).
//
//	c02 bar base=<hex> exec=<hex> seed=<n> nwf=<n> prog=<inst>/<inst>/… ev=<w>:<e>,<w>:<e>,…
//	  answer: `T ok <wf0> ; <wf1> ; … mem=<diff> | E done <ewf0> ; <ewf1> ; … mem=<diff>`
//	  <wfj>  = ph=<ready|issued|executed|done|bar> pc=… vm=… lgkm=… tr=… s=… scc=… exec=… vcc=… v=… lds=…
//	  <ewfj> = pc=… tr=… s=… scc=… exec=… vcc=… v=… lds=…
//
// The T half is what a real cu.ComputeUnit (built by its Builder, ticked by hand, the harness playing
// the instruction / scalar / vector memories, one shared pattern memory) did with ONE work-group of
// nwf wavefronts delivered by ONE real MapWGReq. `ev` is derived from per-wavefront snapshots taken
// before and after every Tick(), grouped by pipeline STAGE in the order the real tick runs them:
//
//	(between ticks)  sv.k / ss.k         the memories perform an access (the only events on shared memory)
//	runPipeline      x / c               execution units (branch, scalar, SIMD 0..3, LDS, vector memory)
//	Scheduler.Run    c                   EvaluateInternalInst, in the order of `internalExecuting`
//	                                     (s_barrier arrives / releases, s_waitcnt, s_endpgm, s_nop)
//	                 rs / d              DecodeNextInst
//	                 i                   DoIssue
//	                 f                   DoFetch
//	processInput     fr, rsc.k, rv       instruction memory, scalar memory, vector memory
//
// so that a release caused by wavefront 1's `c` precedes wavefront 0's `d` of the same tick.

import (
	"encoding/binary"
	"fmt"
	"strings"

	"github.com/sarchlab/akita/v4/mem/mem"
	"github.com/sarchlab/akita/v4/sim"
	"github.com/sarchlab/mgpusim/v4/amd/emu"
	"github.com/sarchlab/mgpusim/v4/amd/insts"
	"github.com/sarchlab/mgpusim/v4/amd/kernels"
	"github.com/sarchlab/mgpusim/v4/amd/protocol"
	"github.com/sarchlab/mgpusim/v4/amd/timing/cu"
	"github.com/sarchlab/mgpusim/v4/amd/timing/wavefront"
)

func init() { register("C02", runC02Bar) }

const (
	c02bMaxTicks = 6000
	c02bROBase   = 0x100000 // read-only memory of the generated programs
)

// ---- a case -----------------------------------------------------------------------------------

type c02bCase struct {
	base, exec, seed uint64
	nwf              int
	prog             []c02dInst
	offs             []uint64
	img              []byte
	bars             map[uint64]bool // offsets of the s_barrier instructions
	kind             string          // exchange | drained | earlyexit | nodrain
	nBranch          int
	// harness knobs
	sb, spread, clock                        bool
	fetchMax, pServeS, pRetS, pServeV, pRetV int
	sOOO, vShuffle                           bool
	storeDelay                               int // a store is performed at the earliest that many ticks after it left the CU
}

func c02bEnc(i c02dInst) []byte {
	if i.op == "bar" { // s_barrier: SOPP opcode 10
		return encodeDesc(desc{format: "sopp", op: 10, f: c02dU()})
	}
	return i.enc()
}

func c02bCheckEnc(dis *insts.Disassembler, i c02dInst) string {
	if i.op != "bar" {
		return c02dCheckEnc(dis, i)
	}
	b := c02bEnc(i)
	in, err := dis.Decode(b)
	if err != nil {
		return "decode error: " + err.Error()
	}
	if in.ByteSize != 4 || len(b) != 4 || in.InstName != "s_barrier" || in.FormatType != insts.SOPP || in.Opcode != 10 {
		return fmt.Sprintf("s_barrier: decoder says %q size %d opcode %d", in.InstName, in.ByteSize, in.Opcode)
	}
	return ""
}

func (c *c02bCase) layout() {
	c.offs, c.img, c.bars = c.offs[:0], c.img[:0], map[uint64]bool{}
	for _, i := range c.prog {
		o := uint64(len(c.img))
		c.offs = append(c.offs, o)
		if i.op == "bar" {
			c.bars[o] = true
		}
		c.img = append(c.img, c02bEnc(i)...)
	}
}

func (c *c02bCase) progText() string {
	p := make([]string, len(c.prog))
	for k, i := range c.prog {
		p[k] = i.text()
	}
	return strings.Join(p, "/")
}

func (c *c02bCase) imgByte(a uint64) byte {
	if a >= c.base && a-c.base < uint64(len(c.img)) {
		return c.img[a-c.base]
	}
	return 0xFF
}

func (c *c02bCase) straddles() bool {
	for k, i := range c.prog {
		a := c.base + c.offs[k]
		if a/64 != (a+uint64(i.size())-1)/64 {
			return true
		}
	}
	return false
}

// the initial SGPR image of wavefront j (`initRegsW`): s14 = 256·j, s13 = 256·((j+1) mod n)
func (c *c02bCase) initS(j, i int) uint32 {
	switch i {
	case 14:
		return uint32(256 * j)
	case 13:
		return uint32(256 * ((j + 1) % c.nwf))
	}
	return c02dInitS(c.seed, i)
}

// c02bRegs prints a state like `regsStr` of the model (c02dState.str() without the memory field).
func c02bRegs(st *c02dState) string {
	return strings.TrimSuffix(st.str(), " mem="+st.mem)
}

// ---- the emulator side: emu.ComputeUnit.runWG ---------------------------------------------------

type c02bEmuWf struct {
	pc    uint64
	trace []uint64
	nbar  int
	st    c02dState
}

type c02bEmuRes struct {
	status string // done | fuel | stuck
	fault  string
	wfs    []c02bEmuWf
	mem    string
	rounds int
}

// c02bRunEmu replicates runWG: rounds of { every wavefront in order: runWfUntilBarrier } followed by
// resolveBarrier, with the real decoder, the real emu.Wavefront and the real ALU on one memory.
func c02bRunEmu(cs *c02bCase, dis *insts.Disassembler) *c02bEmuRes {
	res := &c02bEmuRes{status: "fuel", wfs: make([]c02bEmuWf, cs.nwf)}
	m := &c02dMem{seed: cs.seed, over: map[uint64]byte{}}
	alu := emu.NewALU(m)
	lds := make([]byte, 1024) // initLDS: one LDS per work-group
	var wfs []*emu.Wavefront
	for j := 0; j < cs.nwf; j++ {
		wf := emu.NewWavefront(nil)
		wf.VerifSetPID(1)
		wf.LDS = lds
		for i := 0; i < 16; i++ {
			binary.LittleEndian.PutUint32(wf.SRegFile[i*4:], cs.initS(j, i))
		}
		for v := 0; v < 10; v++ {
			for l := 0; l < 64; l++ {
				binary.LittleEndian.PutUint32(wf.VRegFile[l*1024+v*4:], c02dInitV(cs.seed, v, l))
			}
		}
		wf.SetSCC(0)
		wf.SetVCC(0)
		wf.SetEXEC(cs.exec)
		wf.SetPC(cs.base)
		wfs = append(wfs, wf)
	}
	allCompleted := func() bool {
		for _, wf := range wfs {
			if !wf.Completed {
				return false
			}
		}
		return true
	}
	// runWfUntilBarrier
	runSeg := func(j int, wf *emu.Wavefront) bool {
		if wf.Completed {
			return true
		}
		for n := 0; n < 400; n++ {
			pc := wf.PC()
			buf := make([]byte, 8)
			for k := range buf {
				buf[k] = cs.imgByte(pc + uint64(k))
			}
			var inst *insts.Inst
			var err error
			if f := catch(func() { inst, err = dis.Decode(buf) }); f != "" || err != nil {
				res.status = "stuck"
				return false
			}
			wf.VerifSetInst(inst)
			wf.SetPC(pc + uint64(inst.ByteSize))
			res.wfs[j].trace = append(res.wfs[j].trace, pc-cs.base)
			if inst.FormatType == insts.SOPP && inst.Opcode == 10 {
				wf.AtBarrier = true
				res.wfs[j].nbar++
				return true
			}
			if inst.FormatType == insts.SOPP && inst.Opcode == 1 {
				wf.Completed = true
				return true
			}
			if f := catch(func() { alu.Run(wf) }); f != "" {
				res.fault = f
				return false
			}
		}
		return false
	}
rounds:
	for res.rounds = 0; res.rounds < 64 && !allCompleted(); res.rounds++ {
		for j, wf := range wfs {
			alu.SetLDS(wf.LDS)
			if !runSeg(j, wf) {
				break rounds
			}
		}
		// resolveBarrier
		if allCompleted() {
			break
		}
		for _, wf := range wfs {
			if wf.Completed {
				continue
			}
			if !wf.AtBarrier {
				res.fault = "not all wavefronts at barrier"
				break rounds
			}
			wf.AtBarrier = false
		}
	}
	if res.fault == "" && res.status != "stuck" && allCompleted() {
		res.status = "done"
	}
	for j, wf := range wfs {
		w := &res.wfs[j]
		w.pc = wf.PC()
		for i := 0; i < 16; i++ {
			w.st.s[i] = binary.LittleEndian.Uint32(wf.SRegFile[i*4:])
		}
		for v := 0; v < 10; v++ {
			for l := 0; l < 64; l++ {
				w.st.v[v][l] = binary.LittleEndian.Uint32(wf.VRegFile[l*1024+v*4:])
			}
		}
		w.st.scc, w.st.exec, w.st.vcc = wf.SCC(), wf.EXEC(), wf.VCC()
		copy(w.st.lds[:], lds)
	}
	res.mem = m.diff()
	return res
}

func (e *c02bEmuRes) str(base uint64) string {
	p := make([]string, len(e.wfs))
	for j := range e.wfs {
		w := &e.wfs[j]
		p[j] = fmt.Sprintf("pc=%d tr=%s %s", c02dSub(w.pc, base), c02dTrace(w.trace), c02bRegs(&w.st))
	}
	return fmt.Sprintf("E %s %s mem=%s", e.status, strings.Join(p, " ; "), e.mem)
}

// ---- the timing side ----------------------------------------------------------------------------

// c02bALU delegates to the real emu.ALUImpl and records for WHICH wavefront Run was called.
type c02bALU struct {
	inner *emu.ALUImpl
	ran   []emu.InstEmuState
}

func (a *c02bALU) Run(s emu.InstEmuState) { a.ran = append(a.ran, s); a.inner.Run(s) }
func (a *c02bALU) SetLDS(l []byte)        { a.inner.SetLDS(l) }
func (a *c02bALU) LDS() []byte            { return a.inner.LDS() }
func (a *c02bALU) ArchName() string       { return a.inner.ArchName() }

type c02bSReq struct {
	req    *mem.ReadReq
	seen   bool // the request left the compute unit
	served bool
	rsp    sim.Msg
}

type c02bWf struct {
	j    int
	wf   *wavefront.Wavefront
	simd int

	pre, post c02dSnap
	trace     []uint64
	executed  bool

	ifRsp sim.Msg
	ifDue int
	sq    []*c02bSReq
	vq    []*c02dVReq

	// per tick
	rsc int // index of the scalar response handed over before the tick (-1: none)
	nrv int // vector instructions whose responses were handed over before the tick

	// barrier bookkeeping (oracles)
	issuedBars, arrived, released int
}

type c02bT struct {
	r   *Run
	rng *Rng
	cs  *c02bCase
	cu  *cu.ComputeUnit
	eng *fakeEngine
	alu *c02bALU
	mem *c02dMem
	wfs []*c02bWf
	byW map[*wavefront.Wavefront]*c02bWf

	evs    []string
	vByID  map[string]*c02dVTxn
	seenAt map[*c02dVTxn]int

	phaseViol   string
	releaseViol string
	maxParked   int
	sameTickRel int // releases where the released wavefront was decoded / issued in the very tick
	endRelease  int // releases performed by an ending wavefront
	abort       string
}

func (t *c02bT) ev(w *c02bWf, format string, a ...interface{}) {
	t.evs = append(t.evs, fmt.Sprintf("%d:", w.j)+fmt.Sprintf(format, a...))
}

func c02bNewT(r *Run, rng *Rng, cs *c02bCase) *c02bT {
	t := &c02bT{r: r, rng: rng, cs: cs, vByID: map[string]*c02dVTxn{}, seenAt: map[*c02dVTxn]int{}, byW: map[*wavefront.Wavefront]*c02bWf{}}
	t.mem = &c02dMem{seed: cs.seed, over: map[uint64]byte{}}
	t.eng = &fakeEngine{}
	factory := func(sa emu.StorageAccessor) emu.ALU {
		t.alu = &c02bALU{inner: emu.NewALU(sa)}
		return t.alu
	}
	c := cu.MakeBuilder().WithEngine(t.eng).WithFreq(1 * sim.GHz).WithALUFactory(factory).
		WithRegisterScoreboard(cs.sb).
		WithVectorMemModules(&mem.SinglePortMapper{Port: sim.RemotePort("VMem")}).Build("CU")
	for _, p := range []sim.Port{c.ToACE, c.ToInstMem, c.ToScalarMem, c.ToVectorMem, c.ToCP} {
		p.SetConnection(&fakeConn{name: "c"})
	}
	c.InstMem = sim.NewPort(c, 4, 4, "IMem")
	c.ScalarMem = sim.NewPort(c, 4, 4, "SMem")
	t.cu = c

	// ONE work-group with nwf wavefronts, delivered as ONE real MapWGReq
	n := cs.nwf
	co := &insts.KernelCodeObject{KernelCodeObjectMeta: &insts.KernelCodeObjectMeta{}}
	pkt := &kernels.HsaKernelDispatchPacket{WorkgroupSizeX: uint16(64 * n), WorkgroupSizeY: 1, WorkgroupSizeZ: 1,
		GridSizeX: uint32(64 * n), GridSizeY: 1, GridSizeZ: 1, GroupSegmentSize: 1024, KernelObject: cs.base}
	wg := kernels.NewWorkGroup()
	wg.SizeX, wg.SizeY, wg.SizeZ = 64*n, 1, 1
	wg.CurrSizeX, wg.CurrSizeY, wg.CurrSizeZ = 64*n, 1, 1
	wg.Packet, wg.CodeObject = pkt, co
	b := protocol.MapWGReqBuilder{}.WithSrc("Disp.Port").WithDst(c.ToACE.AsRemote()).WithPID(1).WithWG(wg)
	simds := make([]int, n)
	for j := 0; j < n; j++ {
		raw := kernels.NewWavefront()
		raw.CodeObject, raw.Packet, raw.WG, raw.InitExecMask = co, pkt, wg, cs.exec
		raw.FirstWiFlatID = 64 * j
		wg.Wavefronts = append(wg.Wavefronts, raw)
		simds[j] = 1
		if cs.spread {
			simds[j] = (j + 1) % 4
		}
		b = b.AddWf(protocol.WfDispatchLocation{Wavefront: raw, SIMDID: simds[j], VGPROffset: c02dVOff * (j + 1), SGPROffset: c02dSOff * (j + 1)})
	}
	if err := c.ToACE.Deliver(b.Build()); err != nil {
		t.abort = "cannot deliver MapWGReq"
		return t
	}
	if f := catch(func() { c.Tick() }); f != "" {
		t.abort = "panic while mapping the work-group: " + f
		return t
	}
	var first *wavefront.Wavefront
	total := 0
	for p := 0; p < 4; p++ {
		ws := c.VerifPoolWfs(p)
		total += len(ws)
		if len(ws) > 0 && first == nil {
			first = ws[0]
		}
	}
	if total != n || first == nil || first.WG == nil || len(first.WG.Wfs) != n {
		t.abort = fmt.Sprintf("%d wavefronts in the pools after MapWGReq, want %d", total, n)
		return t
	}
	for j, w := range first.WG.Wfs {
		if w.State != wavefront.WfReady || w.PC() != cs.base || w.EXEC() != cs.exec || w.SIMDID != simds[j] {
			t.abort = fmt.Sprintf("after MapWGReq: wavefront %d state %d pc %x exec %x simd %d", j, w.State, w.PC(), w.EXEC(), w.SIMDID)
			return t
		}
		x := &c02bWf{j: j, wf: w, simd: simds[j], rsc: -1}
		t.wfs = append(t.wfs, x)
		t.byW[w] = x
		// the initial register image of the model, through the register files
		for i := 0; i < 16; i++ {
			c.SRegFile.Write(cu.RegisterAccess{Reg: insts.SReg(i), RegCount: 1, WaveOffset: w.SRegOffset, Data: insts.Uint32ToBytes(cs.initS(j, i))})
		}
		for v := 0; v < 10; v++ {
			for l := 0; l < 64; l++ {
				c.VRegFile[x.simd].Write(cu.RegisterAccess{Reg: insts.VReg(v), RegCount: 1, LaneID: l, WaveOffset: w.VRegOffset, Data: insts.Uint32ToBytes(c02dInitV(cs.seed, v, l))})
			}
		}
		w.SetSCC(0)
		w.SetVCC(0)
		w.SetEXEC(cs.exec)
	}
	return t
}

func c02bSnap(w *wavefront.Wavefront) c02dSnap {
	return c02dSnap{state: w.State, pc: w.PC(), toIssue: w.InstToIssue, dyn: w.DynamicInst(), ibLen: len(w.InstBuffer),
		ibStart: w.InstBufferStartPC, fetching: w.IsFetching, vm: w.OutstandingVectorMemAccess, lgkm: w.OutstandingScalarMemAccess}
}

func c02bIsBar(i *wavefront.Inst) bool {
	return i != nil && i.FormatType == insts.SOPP && i.Opcode == 10
}

// act: what the memories do before a tick. The responses handed to the ports are processed by
// processInput at the END of the tick: their events are emitted by derive.
func (t *c02bT) act(tick int) (rvOrder []*c02bWf) {
	rng, cs := t.rng, t.cs
	for _, w := range t.wfs {
		w.rsc, w.nrv = -1, 0
	}
	// instruction memory: processInputFromInstMem takes one response per tick
	var due []*c02bWf
	for _, w := range t.wfs {
		if w.ifRsp != nil && tick >= w.ifDue {
			due = append(due, w)
		}
	}
	if len(due) > 0 {
		w := due[rng.Intn(len(due))]
		if err := t.cu.ToInstMem.Deliver(w.ifRsp); err == nil {
			w.ifRsp = nil
		}
	}
	// scalar memory: serve, then return at most one response (processInputFromScalarMem takes one per tick)
	for _, wi := range rng.Perm(len(t.wfs)) {
		w := t.wfs[wi]
		for k, e := range w.sq {
			if e.seen && !e.served && rng.Chance(cs.pServeS) {
				data := t.mem.Read(1, e.req.Address, e.req.AccessByteSize)
				e.rsp = mem.DataReadyRspBuilder{}.WithSrc(t.cu.ScalarMem.AsRemote()).WithDst(t.cu.ToScalarMem.AsRemote()).
					WithRspTo(e.req.ID).WithData(data).Build()
				e.served = true
				t.ev(w, "ss.%d", k)
			}
		}
	}
	if rng.Chance(cs.pRetS) {
		type cand struct {
			w *c02bWf
			k int
		}
		var cands []cand
		for _, w := range t.wfs {
			for k, e := range w.sq {
				if e.served {
					cands = append(cands, cand{w, k})
				}
				if !cs.sOOO {
					break // in order: only the oldest of the wavefront
				}
			}
		}
		if len(cands) > 0 {
			c := cands[rng.Intn(len(cands))]
			if err := t.cu.ToScalarMem.Deliver(c.w.sq[c.k].rsp); err == nil {
				c.w.sq = append(c.w.sq[:c.k:c.k], c.w.sq[c.k+1:]...)
				c.w.rsc = c.k
				if c.k > 0 {
					t.r.Count("bar:ev-scalar-returned-out-of-order")
				}
			}
		}
	}
	// vector memory: per wavefront in order (or shuffled), across wavefronts in any order
	for {
		type cand struct {
			w *c02bWf
			k int
		}
		var elig []cand
		for _, w := range t.wfs {
			for k, q := range w.vq {
				if q.served {
					continue
				}
				all := true
				for _, x := range q.txns {
					all = all && x.seen && (q.load || tick-t.seenAt[x] >= cs.storeDelay)
				}
				if all {
					elig = append(elig, cand{w, k})
					if !cs.vShuffle {
						break
					}
				}
			}
		}
		if len(elig) == 0 || !rng.Chance(cs.pServeV) {
			break
		}
		c := elig[rng.Intn(len(elig))]
		q := c.w.vq[c.k]
		for _, x := range q.txns {
			if x.read != nil {
				data := t.mem.Read(1, x.read.Address, x.read.AccessByteSize)
				x.rsp = mem.DataReadyRspBuilder{}.WithSrc(x.read.Dst).WithDst(t.cu.ToVectorMem.AsRemote()).WithRspTo(x.read.ID).WithData(data).Build()
			} else {
				for j, b := range x.write.Data {
					if x.write.DirtyMask == nil || x.write.DirtyMask[j] {
						t.mem.over[x.write.Address+uint64(j)] = b
					}
				}
				x.rsp = mem.WriteDoneRspBuilder{}.WithSrc(x.write.Dst).WithDst(t.cu.ToVectorMem.AsRemote()).WithRspTo(x.write.ID).Build()
			}
		}
		q.served = true
		t.ev(c.w, "sv.%d", c.k)
		if c.k > 0 {
			t.r.Count("bar:ev-vector-served-younger-first")
		}
	}
	budget := 16 // processInputFromVectorMem handles 16 responses per tick
	for {
		var cands []*c02bWf
		for _, w := range t.wfs {
			if len(w.vq) > 0 && w.vq[0].served && len(w.vq[0].txns) <= budget {
				cands = append(cands, w)
			}
		}
		if len(cands) == 0 || !rng.Chance(cs.pRetV) {
			break
		}
		w := cands[rng.Intn(len(cands))]
		for _, x := range w.vq[0].txns {
			if err := t.cu.ToVectorMem.Deliver(x.rsp); err != nil {
				t.abort = "vector response not accepted by the port"
				return
			}
		}
		budget -= len(w.vq[0].txns)
		w.vq = w.vq[1:]
		w.nrv++
		rvOrder = append(rvOrder, w)
	}
	return rvOrder
}

// derive appends the model events of one tick, stage by stage, in the order the real tick runs them.
// internal: the scheduler's `internalExecuting` list BEFORE the tick.
func (t *c02bT) derive(internal []*wavefront.Wavefront, rvOrder []*c02bWf) {
	cs := t.cs
	type info struct {
		completed, released, issued, frDone bool
		kind, formed, sload, lenAtSched     int
	}
	inf := make([]info, len(t.wfs))
	for j, w := range t.wfs {
		pre, post := w.pre, w.post
		x := &inf[j]
		x.completed = pre.state == wavefront.WfRunning && (post.state != wavefront.WfRunning || post.dyn != pre.dyn)
		x.kind = -1
		if pre.state == wavefront.WfRunning && pre.dyn != nil {
			x.kind = c02dKind(pre.dyn)
		}
		x.issued = post.dyn != pre.dyn && post.dyn != nil
		x.frDone = pre.fetching && !post.fetching
		// it waited at the barrier (or arrives in this tick) and does not wait any more
		x.released = (pre.state == wavefront.WfAtBarrier || (x.completed && x.kind == c02dKSpecial && c02bIsBar(pre.dyn))) &&
			post.state != wavefront.WfAtBarrier
	}

	// ---- runPipeline: the execution units -------------------------------------------------------
	ranFor := map[*c02bWf]int{}
	for _, s := range t.alu.ran {
		rw, ok := s.(*wavefront.Wavefront)
		w := t.byW[rw]
		if !ok || w == nil {
			t.abort = "alu.Run for an unknown wavefront"
			return
		}
		ranFor[w]++
		if ranFor[w] > 1 || inf[w.j].kind != c02dKAlu {
			t.abort = fmt.Sprintf("alu.Run called %d times in one tick for wavefront %d (kind %d)", ranFor[w], w.j, inf[w.j].kind)
			return
		}
		t.ev(w, "x")
		w.executed = true
		if inf[w.j].completed { // SIMD unit: alu.Run and UpdatePCAndSetReady in one call
			t.ev(w, "c")
		}
	}
	for j, w := range t.wfs {
		x := &inf[j]
		if !x.completed {
			continue
		}
		switch x.kind {
		case c02dKAlu:
			if ranFor[w] == 0 { // write stage of the scalar / branch / LDS unit
				t.ev(w, "c")
			}
		case c02dKFlat: // VectorMemoryUnit.execute: coalescer + counters + UpdatePCAndSetReady
			t.ev(w, "x")
			q := &c02dVReq{}
			for _, in := range t.cu.InFlightVectorMemAccess {
				if in.Inst == w.pre.dyn {
					if in.Wavefront != w.wf {
						t.abort = "vector access attributed to another wavefront"
						return
					}
					v := &c02dVTxn{read: in.Read, write: in.Write}
					if v.read != nil {
						t.vByID[v.read.ID] = v
					} else {
						t.vByID[v.write.ID] = v
					}
					q.txns = append(q.txns, v)
				}
			}
			if len(q.txns) > 0 {
				x.formed = 1
				q.load = q.txns[0].read != nil
				q.execAt = w.wf.EXEC()
				w.vq = append(w.vq, q)
				if len(q.txns) > 16 {
					t.abort = fmt.Sprintf("%d transactions for one instruction", len(q.txns))
					return
				}
			}
		case c02dKSmem: // ScalarUnit.executeSMEMLoad
			t.ev(w, "x")
			x.sload = 1
			e := &c02bSReq{}
			for _, in := range t.cu.InFlightScalarMemAccess {
				if in.Inst == w.pre.dyn && in.Wavefront == w.wf {
					if e.req != nil || in.Req.CanWaitForCoalesce {
						t.abort = "scalar load split in several requests"
						return
					}
					e.req = in.Req
				}
			}
			if e.req == nil {
				t.abort = "scalar load without request"
				return
			}
			w.sq = append(w.sq, e)
		}
	}

	// ---- Scheduler.EvaluateInternalInst: in the order of internalExecuting -------------------------
	seen := map[*c02bWf]bool{}
	var releaser *c02bWf
	releaserEnds := false
	for _, rw := range internal {
		w := t.byW[rw]
		if w == nil {
			t.abort = "unknown wavefront in internalExecuting"
			return
		}
		x := &inf[w.j]
		if seen[w] {
			continue
		}
		seen[w] = true
		if x.kind != c02dKSpecial || !x.completed {
			continue
		}
		t.ev(w, "c")
		if c02bIsBar(w.pre.dyn) {
			w.arrived++
		}
		ending := w.pre.dyn != nil && w.pre.dyn.FormatType == insts.SOPP && w.pre.dyn.Opcode == 1
		if (c02bIsBar(w.pre.dyn) && w.post.state != wavefront.WfAtBarrier) || ending {
			releaser, releaserEnds = w, ending // the last such event of the tick is the one that released
		}
	}
	nrel := 0
	for j, u := range t.wfs {
		if !inf[j].released {
			continue
		}
		nrel++
		u.released++
		if want := u.pre.pc + 4; u.post.pc != want && t.releaseViol == "" {
			t.releaseViol = fmt.Sprintf("wavefront %d released from the barrier at %d: PC %d afterwards", u.j, c02dSub(u.pre.pc, cs.base), c02dSub(u.post.pc, cs.base))
		}
		if inf[j].issued || (u.pre.toIssue == nil && u.post.toIssue != nil) {
			t.sameTickRel++
		}
	}
	if nrel > 0 && releaser == nil && t.releaseViol == "" {
		// no abort: the model refuses what such a wavefront does next
		t.releaseViol = "wavefronts left the barrier in a tick in which no wavefront of the group arrived at it (and left) or ended"
	}
	if nrel > 0 && releaserEnds {
		t.endRelease++
	}
	for j, w := range t.wfs { // a special instruction completed that was not in the list: impossible
		if inf[j].completed && inf[j].kind == c02dKSpecial && !seen[w] {
			t.abort = fmt.Sprintf("wavefront %d completed a scheduler-internal instruction without being in internalExecuting", j)
			return
		}
	}
	parked := 0
	for _, w := range t.wfs {
		if w.post.state == wavefront.WfAtBarrier {
			parked++
		}
	}
	if parked > t.maxParked {
		t.maxParked = parked
	}

	// ---- Scheduler.DecodeNextInst -------------------------------------------------------------------
	for j, w := range t.wfs {
		x := &inf[j]
		x.lenAtSched = c02dIbAfter(w.pre, w.post, x.completed || x.released)
		// (an ending wavefront that releases the others gets UpdatePCAndSetReady itself, which may trim its
		// buffer: nothing reads the buffer of a completed wavefront)
		if w.post.state != wavefront.WfCompleted && w.post.ibLen != x.lenAtSched && !(x.frDone && w.post.ibLen == x.lenAtSched+64) {
			t.abort = fmt.Sprintf("wavefront %d: instruction buffer length %d -> %d, expected %d (+64)", j, w.pre.ibLen, w.post.ibLen, x.lenAtSched)
			return
		}
		if x.lenAtSched == 0 && w.post.state != wavefront.WfCompleted && w.post.state != wavefront.WfAtBarrier {
			t.ev(w, "rs") // DecodeNextInst with an empty buffer
		}
		if w.pre.toIssue == nil && (w.post.toIssue != nil || x.issued) {
			t.ev(w, "d")
		}
	}
	// ---- Scheduler.DoIssue ----------------------------------------------------------------------------
	for j, w := range t.wfs {
		if !inf[j].issued {
			continue
		}
		t.ev(w, "i")
		off := c02dSub(w.post.pc, cs.base)
		w.trace = append(w.trace, off)
		w.executed = false
		// phase order: an instruction after the k-th barrier of w, while another unfinished wavefront has
		// not arrived at its k-th barrier
		if k := w.issuedBars; k > 0 && t.phaseViol == "" {
			for _, u := range t.wfs {
				if u != w && u.post.state != wavefront.WfCompleted && u.arrived < k {
					t.phaseViol = fmt.Sprintf("wavefront %d issued the instruction at %d (after its barrier #%d) while wavefront %d (pc %d) has arrived at %d barriers",
						w.j, off, k, u.j, c02dSub(u.post.pc, cs.base), u.arrived)
				}
			}
		}
		if cs.bars[off] {
			w.issuedBars++
		}
	}
	// ---- Scheduler.DoFetch ----------------------------------------------------------------------------
	nf := 0
	for _, w := range t.wfs {
		if !w.pre.fetching && w.post.fetching {
			t.ev(w, "f")
			nf++
			if w.post.state == wavefront.WfAtBarrier {
				t.r.Count("bar:ev-fetch-while-at-barrier")
			}
		}
	}
	if nf > 1 {
		t.abort = "two fetches started in one tick"
		return
	}
	// ---- processInput -----------------------------------------------------------------------------------
	nfr := 0
	for j, w := range t.wfs {
		if inf[j].frDone {
			t.ev(w, "fr")
			nfr++
			if w.post.ibLen == inf[j].lenAtSched {
				t.r.Count("bar:ev-fetch-return-dropped")
			}
		}
	}
	if nfr > 1 {
		t.abort = "two fetch returns in one tick"
		return
	}
	for _, w := range t.wfs {
		if w.rsc >= 0 {
			t.ev(w, "rsc.%d", w.rsc)
		}
	}
	for _, w := range rvOrder {
		t.ev(w, "rv")
	}
	// the counters must move exactly as the derived events say
	for j, w := range t.wfs {
		x := &inf[j]
		pre, post := w.pre, w.post
		if post.vm != pre.vm+x.formed-w.nrv || post.lgkm != pre.lgkm+x.formed+x.sload-w.nrv-c02dB2i(w.rsc >= 0) {
			t.abort = fmt.Sprintf("wavefront %d: counters moved vm %d->%d lgkm %d->%d, derived formed=%d sload=%d rv=%d rsc=%v", j, pre.vm, post.vm, pre.lgkm, post.lgkm, x.formed, x.sload, w.nrv, w.rsc >= 0)
			return
		}
	}
}

// collect takes what the CU sent in this tick.
func (t *c02bT) collect(tick int) {
	for {
		m := t.cu.ToInstMem.RetrieveOutgoing()
		if m == nil {
			break
		}
		q := m.(*mem.ReadReq)
		var w *c02bWf
		for _, in := range t.cu.InFlightInstFetch {
			if in.Req == q {
				w = t.byW[in.Wavefront]
			}
		}
		if w == nil || w.ifRsp != nil {
			t.abort = "instruction fetch of an unknown wavefront / two fetches of one wavefront in flight"
			return
		}
		data := make([]byte, 64)
		for k := range data {
			data[k] = t.cs.imgByte(q.Address + uint64(k))
		}
		w.ifRsp = mem.DataReadyRspBuilder{}.WithSrc(t.cu.InstMem.AsRemote()).WithDst(t.cu.ToInstMem.AsRemote()).WithRspTo(q.ID).WithData(data).Build()
		w.ifDue = tick + 1 + t.rng.Intn(t.cs.fetchMax+1)
	}
	for {
		m := t.cu.ToScalarMem.RetrieveOutgoing()
		if m == nil {
			break
		}
		q := m.(*mem.ReadReq)
		ok := false
		for _, w := range t.wfs {
			for _, e := range w.sq {
				if e.req == q && !e.seen {
					e.seen, ok = true, true
				}
			}
		}
		if !ok {
			t.abort = "unexpected scalar read request"
			return
		}
	}
	for {
		m := t.cu.ToVectorMem.RetrieveOutgoing()
		if m == nil {
			break
		}
		if x, ok := t.vByID[m.Meta().ID]; ok {
			x.seen = true
			t.seenAt[x] = tick
		} else {
			t.abort = "unexpected vector memory request"
			return
		}
	}
	for t.cu.ToACE.RetrieveOutgoing() != nil {
	}
}

type c02bTRes struct {
	completed bool
	ticks     int
	phs       []string
	sts       []c02dState
	mem       string
	line      string
}

func (t *c02bT) run() *c02bTRes {
	cs := t.cs
	res := &c02bTRes{}
	for tick := 1; ; tick++ {
		rvOrder := t.act(tick)
		if t.abort != "" {
			return nil
		}
		for _, w := range t.wfs {
			w.pre = c02bSnap(w.wf)
		}
		internal := append([]*wavefront.Wavefront(nil), t.cu.VerifScheduler().VerifInternalExecuting()...)
		t.alu.ran = t.alu.ran[:0]
		if cs.clock {
			t.eng.now += 1e-9
		}
		if f := catch(func() { t.cu.Tick() }); f != "" {
			t.abort = "panic in Tick: " + f
			return nil
		}
		all := true
		for _, w := range t.wfs {
			w.post = c02bSnap(w.wf)
			all = all && w.post.state == wavefront.WfCompleted
		}
		t.derive(internal, rvOrder)
		if t.abort != "" {
			return nil
		}
		t.collect(tick)
		if t.abort != "" {
			return nil
		}
		res.ticks = tick
		if all {
			res.completed = true
			break
		}
		if tick >= c02bMaxTicks {
			break
		}
	}
	b := make([]byte, 4)
	var parts []string
	for _, x := range t.wfs {
		w := x.wf
		ph := ""
		switch w.State {
		case wavefront.WfReady:
			ph = "ready"
		case wavefront.WfCompleted:
			ph = "done"
		case wavefront.WfAtBarrier:
			ph = "bar"
		case wavefront.WfRunning:
			ph = "issued"
			if x.executed {
				ph = "executed"
			}
		default:
			ph = fmt.Sprintf("state%d", w.State)
		}
		var st c02dState
		for i := 0; i < 16; i++ {
			t.cu.SRegFile.Read(cu.RegisterAccess{Reg: insts.SReg(i), RegCount: 1, WaveOffset: w.SRegOffset, Data: b})
			st.s[i] = binary.LittleEndian.Uint32(b)
		}
		for v := 0; v < 10; v++ {
			for l := 0; l < 64; l++ {
				t.cu.VRegFile[x.simd].Read(cu.RegisterAccess{Reg: insts.VReg(v), RegCount: 1, LaneID: l, WaveOffset: w.VRegOffset, Data: b})
				st.v[v][l] = binary.LittleEndian.Uint32(b)
			}
		}
		st.scc, st.exec, st.vcc = w.SCC(), w.EXEC(), w.VCC()
		copy(st.lds[:], w.WG.LDS)
		res.phs = append(res.phs, ph)
		res.sts = append(res.sts, st)
		// the PC of a completed wavefront is dead state and not compared: when an ending wavefront releases
		// the waiters, evalSEndPgm calls passBarrier BEFORE it marks the wavefront WfCompleted, so
		// setAllWfStateToReady advances the ending wavefront's PC once more (endpgm + 4); otherwise it
		// stays on the s_endpgm
		pcs := fmt.Sprint(c02dSub(w.PC(), cs.base))
		if ph == "done" {
			pcs = "-"
		}
		parts = append(parts, fmt.Sprintf("ph=%s pc=%s vm=%d lgkm=%d tr=%s %s", ph, pcs,
			w.OutstandingVectorMemAccess, w.OutstandingScalarMemAccess, c02dTrace(x.trace), c02bRegs(&st)))
	}
	res.mem = t.mem.diff()
	res.line = fmt.Sprintf("T ok %s mem=%s", strings.Join(parts, " ; "), res.mem)
	return res
}

// ---- the program generator: race-free phase programs ----------------------------------------------

type c02bGen struct {
	rng   *Rng
	cs    *c02bCase
	p     []c02dInst
	pend  map[int]bool // registers (SGPR i -> i, VGPR v -> 100+v) that are the destination of a load in flight
	pendS bool         // a scalar load is in flight
	pendW bool         // a store is in flight
	nBr   int
}

func (g *c02bGen) raw(op string, a ...uint64) {
	i := c02dInst{op: op}
	if len(a) > 0 {
		i.a = a[0]
	}
	if len(a) > 1 {
		i.b = a[1]
	}
	if len(a) > 2 {
		i.c = a[2]
	}
	g.p = append(g.p, i)
}

// drain emits the s_waitcnt that empties everything in flight.
func (g *c02bGen) drain() {
	if len(g.pend) == 0 && !g.pendW && !g.pendS {
		return
	}
	if !g.pendS && g.rng.Chance(30) {
		g.raw("wait", 0, 15) // vmcnt(0): every vector access has returned; no scalar load is in flight
	} else {
		g.raw("wait", 0, 0)
	}
	g.pend, g.pendS, g.pendW = map[int]bool{}, false, false
}

func (g *c02bGen) touches(regs ...int) bool {
	for _, x := range regs {
		if g.pend[x] {
			return true
		}
	}
	return false
}

// alu emits one ALU instruction (after the wait it needs).
func (g *c02bGen) alu() {
	rng := g.rng
	sSrc := func() int { return rng.Pick(0, 1, 2, 3, 8, 9, 11, 13, 14, 15) }
	sDst := func() int { return rng.Pick(8, 9, 11, 15) }
	vSrc := func() int { return rng.Pick(0, 6, 7, 8, 9) }
	vDst := func() int { return rng.Range(6, 9) }
	switch rng.Intn(8) {
	case 0:
		d := sDst()
		if g.touches(d) {
			g.drain()
		}
		g.raw("smov", uint64(d), uint64(rng.Pick(0, 1, 7, 64, 65, 0x1234, 0xdeadbeef)))
	case 1, 2:
		d, a, b := sDst(), sSrc(), sSrc()
		if g.touches(d, a, b) {
			g.drain()
		}
		g.raw("sadd", uint64(d), uint64(a), uint64(b))
	case 3:
		a, b := sSrc(), sSrc()
		if g.touches(a, b) {
			g.drain()
		}
		g.raw("scmp", uint64(a), uint64(b))
	case 4:
		d, s := vDst(), sSrc()
		if g.touches(c02dV(d), s) {
			g.drain()
		}
		g.raw("vmov", uint64(d), uint64(s))
	case 5:
		g.raw("nop")
	default:
		d, s, a := vDst(), sSrc(), vSrc()
		if g.touches(c02dV(d), s, c02dV(a)) {
			g.drain()
		}
		g.raw("vxor", uint64(d), uint64(s), uint64(a))
	}
}

// c02bGenProgram: phase p (between barrier p-1 and barrier p) of wavefront j writes only its own slot
// of area p mod 2 (window + 1024·(p mod 2) + 256·j) and reads only area (p+1) mod 2 — written in phase
// p-1, by anybody — or read-only memory; everything in flight is drained before `bar` and `end`.
func c02bGenProgram(rng *Rng, cs *c02bCase) {
	g := &c02bGen{rng: rng, cs: cs, pend: map[int]bool{}}
	nBar := rng.Pick(1, 1, 2, 2, 3)
	early := cs.kind == "earlyexit"
	earlyAt := rng.Intn(nBar) // in the phase before that barrier
	g.raw("smov", 5, 0)
	for p := 0; p <= nBar; p++ {
		wArea := uint64(c02dWindow + 1024*(p%2))
		rArea := uint64(c02dWindow + 1024*((p+1)%2))
		last := p == nBar
		// ---- reads
		if rng.Chance(70) {
			switch rng.Intn(5) {
			case 0: // the neighbour's slot
				g.raw("smov", 12, rArea)
				g.raw("sadd", 12, 12, 13)
			case 1: // its own slot
				g.raw("smov", 12, rArea)
				g.raw("sadd", 12, 12, 14)
			case 2: // a fixed slot
				g.raw("smov", 12, rArea+256*uint64(rng.Intn(cs.nwf)))
			case 3: // neighbour's, again: the interesting one
				g.raw("smov", 12, rArea)
				g.raw("sadd", 12, 12, 13)
			default: // read-only memory
				g.raw("smov", 12, c02bROBase+256*uint64(rng.Intn(16)))
			}
			if rng.Chance(15) {
				g.raw("vmov", 4, 12) // the same dword in every lane
			} else {
				g.raw("vxor", 4, 12, 0)
			}
			g.raw("vmov", 5, 5)
			used := map[int]bool{}
			for k := rng.Pick(1, 1, 2); k > 0; k-- {
				d := rng.Range(6, 9)
				if used[d] {
					continue
				}
				used[d] = true
				if g.touches(c02dV(d)) {
					g.drain()
				}
				pair := uint64(4)
				if rng.Chance(12) {
					pair = 0 // v[0:1] = 4·lane: low read-only memory
				}
				g.raw("fld", uint64(d), pair)
				if cs.exec != 0 {
					g.pend[c02dV(d)] = true
				}
			}
		}
		if rng.Chance(25) { // scalar loads
			// always from the store window: the model driver tabulates that window, a scalar load from
			// anywhere else walks through every memory layer for every register cell (seconds per load)
			if rng.Bool() {
				g.raw("smov", 6, rArea)
				g.raw("sadd", 6, 6, uint64(rng.Pick(13, 14))) // the neighbour's / its own slot
			} else {
				g.raw("smov", 6, rArea+256*uint64(rng.Intn(cs.nwf))) // a fixed slot
			}
			g.raw("smov", 7, 0)
			used := map[int]bool{}
			for k := rng.Pick(1, 1, 2, 3); k > 0; k-- {
				d := rng.Pick(8, 9, 11, 15)
				if used[d] {
					continue
				}
				used[d] = true
				if g.touches(d) {
					g.drain()
				}
				g.raw("sld", uint64(d), 6, 4*uint64(rng.Intn(48)))
				g.pend[d] = true
				g.pendS = true
			}
		}
		// ---- work
		for k := rng.Range(0, 3); k > 0; k-- {
			g.alu()
		}
		if rng.Chance(30) { // a wavefront-dependent branch around work
			g.raw("smov", 10, 256*uint64(rng.Range(1, cs.nwf)))
			if len(g.pend) > 0 || g.pendS { // whatever the block needs has drained, for every wavefront
				g.drain()
			}
			keep := g.p
			g.p = nil
			for k := rng.Range(1, 2); k > 0; k-- {
				g.alu() // nothing is in flight that it could touch: no s_waitcnt inside the block
			}
			blk := g.p
			g.p = keep
			dw := 0
			for _, i := range blk {
				dw += i.size() / 4
			}
			g.raw("scmp", 14, 10)
			g.raw("cbr", uint64(rng.Intn(2)), uint64(dw))
			g.p = append(g.p, blk...)
			g.nBr++
		}
		// ---- the write to its own slot
		if !last || rng.Chance(60) {
			g.raw("smov", 4, wArea)
			g.raw("sadd", 4, 4, 14)
			g.raw("vxor", 2, 4, 0)
			g.raw("vmov", 3, 5)
			for k := rng.Pick(1, 1, 1, 1, 2); k > 0; k-- {
				d := rng.Pick(0, 6, 7, 8, 9)
				if g.touches(c02dV(d)) || g.pendW {
					g.drain()
				}
				g.raw("fst", 2, uint64(d))
				if cs.exec != 0 {
					g.pendW = true
				}
				if k > 1 {
					g.alu()
				}
			}
		}
		if rng.Chance(15) {
			g.alu()
		}
		if early && p == earlyAt { // the wavefronts with s14 < 256·k end here
			g.raw("smov", 10, 256*uint64(rng.Range(1, cs.nwf-1)))
			g.raw("scmp", 14, 10)
			// sometimes they are slow to leave, so that the others already wait at the barrier when they end
			// (evalSEndPgm releases the waiting wavefronts)
			var blk []c02dInst
			if rng.Chance(75) {
				if rng.Bool() {
					blk = append(blk, c02dInst{op: "fld", a: uint64(rng.Range(6, 9)), b: 0})
				}
				for k := rng.Range(4, 16); k > 0; k-- {
					blk = append(blk, c02dInst{op: "nop"})
				}
			}
			blk = append(blk, c02dInst{op: "wait", a: 0, b: 0}, c02dInst{op: "end"})
			dw := 0
			for _, i := range blk {
				dw += i.size() / 4
			}
			g.raw("cbr", 0, uint64(dw))
			g.p = append(g.p, blk...)
			g.nBr++
		}
		// ---- everything has drained before the barrier / the end
		if cs.kind == "nodrain" && !last {
			// only the store (the youngest access) may stay in flight across the barrier
			switch {
			case g.pendS:
				g.raw("wait", 0, 0)
				g.pendW = false
			case len(g.pend) > 0 && g.pendW:
				g.raw("wait", 1, 15)
			case len(g.pend) > 0:
				g.raw("wait", 0, 15)
			}
			g.pend, g.pendS = map[int]bool{}, false
		} else {
			g.raw("wait", 0, 0)
			g.pend, g.pendS, g.pendW = map[int]bool{}, false, false
		}
		if last {
			g.raw("end")
		} else {
			g.raw("bar")
		}
	}
	cs.prog = g.p
	cs.nBranch = g.nBr
}

func c02bKnobs(rng *Rng, cs *c02bCase) {
	cs.fetchMax = rng.Pick(0, 2, 6, 6)
	cs.pServeS, cs.pRetS = rng.Pick(100, 60, 25), rng.Pick(100, 60, 25)
	cs.pServeV, cs.pRetV = rng.Pick(100, 60, 25), rng.Pick(100, 60, 25)
	cs.sOOO = rng.Bool()
	cs.vShuffle = rng.Chance(40)
	cs.sb = rng.Chance(35)
	cs.spread = rng.Bool()
	cs.clock = rng.Bool()
	cs.storeDelay = rng.Pick(0, 0, 0, 10, 40)
}

func c02bP(s string) []c02dInst {
	var out []c02dInst
	for _, f := range strings.Split(s, "/") {
		p := strings.Split(f, ".")
		i := c02dInst{op: p[0]}
		v := make([]uint64, 3)
		for k := 1; k < len(p) && k <= 3; k++ {
			hex := (i.op == "smov" && k == 2) || (i.op == "sld" && k == 3) || (i.op == "br" && k == 1) || (i.op == "cbr" && k == 2)
			if hex {
				fmt.Sscanf(p[k], "%x", &v[k-1])
			} else {
				fmt.Sscanf(p[k], "%d", &v[k-1])
			}
		}
		i.a, i.b, i.c = v[0], v[1], v[2]
		out = append(out, i)
	}
	return out
}

const c02bExchange = "smov.5.0/smov.4.200000/sadd.4.4.14/vxor.2.4.0/vmov.3.5/vmov.6.14/fst.2.6/wait.0.0/bar/smov.12.200000/sadd.12.12.13/vxor.4.12.0/vmov.5.5/fld.8.4/wait.0.0/end"

func c02bGenCase(rng *Rng) *c02bCase {
	cs := &c02bCase{}
	cs.base = uint64(c02dBases[rng.Intn(len(c02dBases))])
	cs.seed = uint64(rng.Intn(1 << 20))
	cs.nwf = rng.Pick(2, 2, 3, 4)
	switch x := rng.Intn(100); {
	case x < 75:
		cs.exec = c02dFull
	case x < 83:
		cs.exec = rng.U64() & rng.U64()
	case x < 89:
		cs.exec = (uint64(1) << uint(rng.Range(1, 63))) - 1
	case x < 93:
		cs.exec = uint64(1) << uint(rng.Intn(64))
	case x < 98:
		cs.exec = uint64(uint32(rng.U64()))
	default:
		cs.exec = 0
	}
	c02bKnobs(rng, cs)
	switch x := rng.Intn(100); {
	case x < 75:
		cs.kind = "drained"
	case x < 90:
		cs.kind = "earlyexit"
	default:
		cs.kind = "nodrain"
	}
	if cs.kind == "nodrain" {
		cs.storeDelay = rng.Pick(0, 20, 60)
	}
	c02bGenProgram(rng, cs)
	return cs
}

// ---- running one case -------------------------------------------------------------------------------

func c02bRunCase(r *Run, rng *Rng, dis *insts.Disassembler, cs *c02bCase) {
	for _, i := range cs.prog {
		if msg := c02bCheckEnc(dis, i); msg != "" {
			r.Failf("C02.bar-encoding", i.text(), "%s", msg)
			return
		}
	}
	cs.layout()
	e := c02bRunEmu(cs, dis)
	if e.fault != "" || e.status != "done" {
		r.Note("c02 bar: emulator %s %s on prog=%s base=%x exec=%x seed=%d nwf=%d (case skipped)", e.status, e.fault, cs.progText(), cs.base, cs.exec, cs.seed, cs.nwf)
		r.Count("bar:skipped-emulator")
		return
	}
	t := c02bNewT(r, rng, cs)
	var res *c02bTRes
	if t.abort == "" {
		res = t.run()
	}
	evs := "-"
	if len(t.evs) > 0 {
		evs = strings.Join(t.evs, ",")
	}
	line := fmt.Sprintf("c02 bar base=%x exec=%x seed=%d nwf=%d prog=%s ev=%s", cs.base, cs.exec, cs.seed, cs.nwf, cs.progText(), evs)
	if t.abort != "" || res == nil {
		r.Failf("C02.bar-harness", line, "case aborted: %s", t.abort)
		return
	}
	r.Case(line, res.line+" | "+e.str(cs.base))

	// distribution
	r.Count("bar:kind=" + cs.kind)
	r.Count(fmt.Sprintf("bar:nwf=%d", cs.nwf))
	r.Count(fmt.Sprintf("bar:barriers=%d", len(cs.bars)))
	r.Count(fmt.Sprintf("bar:sb=%v", cs.sb))
	r.Count(fmt.Sprintf("bar:spread-over-simds=%v", cs.spread))
	r.Count("bar:insts=" + c02dBucket(len(cs.prog)))
	r.CountN("bar:events", len(t.evs))
	r.CountN("bar:ticks", res.ticks)
	r.Count(fmt.Sprintf("bar:max-waiting=%d", t.maxParked))
	r.CountN("bar:released-and-decoded-in-one-tick", t.sameTickRel)
	r.CountN("bar:released-by-ending-wavefront", t.endRelease)
	if cs.nBranch > 0 {
		r.Count("bar:with-branches")
	}
	if cs.straddles() {
		r.Count("bar:inst-straddles-fetch-line")
	}
	if cs.exec != c02dFull {
		r.Count("bar:exec-partial")
	}

	r.Checked("bar-hang")
	if !res.completed {
		r.Failf("C02.bar-hang", line, "work-group not completed after %d ticks (ph=%s)", res.ticks, strings.Join(res.phs, ","))
		return
	}
	r.Count("bar:completed")

	// oracles on the real outputs
	r.Checked("bar-phase-order")
	if t.phaseViol != "" {
		r.Failf("C02.bar-phase-order", line, "%s", t.phaseViol)
	}
	r.Checked("bar-release-count")
	switch {
	case t.releaseViol != "":
		r.Failf("C02.bar-release-count", line, "%s", t.releaseViol)
	default:
		for _, w := range t.wfs {
			if w.issuedBars != w.arrived || w.arrived != w.released {
				r.Failf("C02.bar-release-count", line, "wavefront %d issued %d barriers, arrived at %d, was released %d times", w.j, w.issuedBars, w.arrived, w.released)
				break
			}
			if cs.kind != "nodrain" && w.issuedBars != e.wfs[w.j].nbar {
				r.Failf("C02.bar-release-count", line, "wavefront %d passed %d barriers, the emulator %d", w.j, w.issuedBars, e.wfs[w.j].nbar)
				break
			}
		}
	}
	var diffs []string
	for j, w := range t.wfs {
		if a, b := c02dTrace(e.wfs[j].trace), c02dTrace(w.trace); a != b {
			diffs = append(diffs, fmt.Sprintf("wavefront %d: emulator executed %s, timing issued %s", j, a, b))
		}
		if d := e.wfs[j].st.differences(&res.sts[j]); d != "" {
			diffs = append(diffs, fmt.Sprintf("wavefront %d: %s", j, d))
		}
	}
	if e.mem != res.mem {
		diffs = append(diffs, fmt.Sprintf("mem: emulator %s timing %s", c02dCap(e.mem), c02dCap(res.mem)))
	}
	if cs.kind == "nodrain" {
		if len(diffs) > 0 {
			r.Count("bar:nodrain-differs")
		} else {
			r.Count("bar:nodrain-same")
		}
		return
	}
	r.Checked("bar-final")
	if len(diffs) > 0 {
		r.Failf("C02.bar-final-differs", line, "%s", strings.Join(diffs, "; "))
	}
}

func runC02Bar(r *Run, rng *Rng, replay string) {
	sim.GetIDGenerator()
	dis := insts.NewDisassembler()
	n := 40
	if r.Tier == "thorough" {
		n = 800
	}
	// the exchange kernel: every wavefront stores its slot number to its slot, barrier, loads the neighbour's
	w1 := &c02bCase{base: 0x1000, exec: c02dFull, seed: 7, nwf: 2, kind: "exchange", prog: c02bP(c02bExchange),
		fetchMax: 2, pServeS: 100, pRetS: 100, pServeV: 60, pRetV: 60}
	c02bRunCase(r, rng, dis, w1)
	// the witness: the same kernel WITHOUT the s_waitcnt before the barrier, on a slow vector memory
	w2 := &c02bCase{base: 0x1000, exec: c02dFull, seed: 7, nwf: 2, kind: "nodrain",
		prog: c02bP(strings.Replace(c02bExchange, "/wait.0.0/bar", "/bar", 1)), fetchMax: 0, pServeS: 100, pRetS: 100, pServeV: 100, pRetV: 100, storeDelay: 80}
	c02bRunCase(r, rng, dis, w2)
	// an ending wavefront releases the one that waits: wavefront 0 leaves late, wavefront 1 is at the barrier
	w3 := &c02bCase{base: 0x1038, exec: c02dFull, seed: 11, nwf: 2, kind: "earlyexit",
		prog: c02bP("smov.5.0/smov.10.100/scmp.14.10/cbr.0.2a" + strings.Repeat("/nop", 40) + "/wait.0.0/end/" +
			"vmov.6.14/bar/smov.4.200000/sadd.4.4.14/vxor.2.4.0/vmov.3.5/fst.2.6/wait.0.0/end"),
		fetchMax: 1, pServeS: 100, pRetS: 100, pServeV: 100, pRetV: 100, spread: true}
	c02bRunCase(r, rng, dis, w3)
	for k := 0; k < n; k++ {
		c02bRunCase(r, rng, dis, c02bGenCase(rng))
	}
}
