package main

import (
	"fmt"
	"io"
	"log"
	"os"
	"strconv"
	"strings"
	"time"

	"github.com/sarchlab/akita/v4/mem/vm"
	"github.com/sarchlab/akita/v4/sim"
	"github.com/sarchlab/mgpusim/v4/amd/driver"
	"github.com/sarchlab/mgpusim/v4/amd/protocol"
)

// `c19 drv …` lines: the migration stages of the REAL driver.Driver (Tick = sendToGPUs, sendToMMU,
// sendMigrationReqToCP, middlewares, processReturnReq, processNewCommand, parseFromMMU) driven tick by
// tick; model: lean/MgpuModel/C19_Drv.lean (namespace C19.DR). One `t` op = one d.Tick(); the harness
// plays the MMU (`Q`, `xm`) and the command processors of the GPUs (`xg`, `r`).
//
// Implementation-side oracles (independent of the model) work on an event log recorded by Akita port
// hooks on the driver's GPU and MMU ports: every message the driver sends and every message it takes out
// of an incoming buffer, in program order.

func init() { register("C19", runC19Drv) }

type c19DrvPage struct {
	gpu   int // 0-based requesting GPU
	va    uint64
	oldPA uint64
}

type c19DrvReq struct {
	id    int
	msg   *vm.PageMigrationReqToDriver
	host  uint64
	acc   []uint64
	pages []c19DrvPage // GPU order, GPUs 1..ngpu only
	// snapshots taken when the request was delivered
	freeAt [][]uint64            // free frames of the GPU devices (index = 0-based GPU)
	others map[[2]uint64]vm.Page // every page known then, except the pages of this request
	// monitor
	nDrain, nRdma, nShoot, nRestart []int
	migOf                           map[uint64]*protocol.PageMigrationReqToCP // by vaddr
	cD, cS, cM, cG, cA              int                                       // answers consumed while this request was current
	dM                              int                                       // migrate answers delivered by the harness
	answered                        int
	ended                           bool
}

const (
	c19DrvEvSend = iota
	c19DrvEvConsume
	c19DrvEvSendMMU
	c19DrvEvTake
)

type c19DrvEvt struct {
	kind int
	msg  sim.Msg
}

type c19DrvHook struct {
	e   *c19DrvEnv
	mmu bool
}

func (h *c19DrvHook) Func(ctx sim.HookCtx) {
	m, ok := ctx.Item.(sim.Msg)
	if !ok {
		return
	}
	switch ctx.Pos {
	case sim.HookPosPortMsgSend:
		if h.mmu {
			h.e.log = append(h.e.log, c19DrvEvt{c19DrvEvSendMMU, m})
		} else {
			h.e.log = append(h.e.log, c19DrvEvt{c19DrvEvSend, m})
		}
	case sim.HookPosPortMsgRetrieveIncoming:
		if h.mmu {
			h.e.log = append(h.e.log, c19DrvEvt{c19DrvEvTake, m})
		} else {
			h.e.log = append(h.e.log, c19DrvEvt{c19DrvEvConsume, m})
		}
	}
}

type c19DrvCmd struct {
	kind byte // D A S G M
	gpu  int
	req  int // request the command was sent for (-1 unknown)
}

type c19DrvEnv struct {
	r          *Run
	c          *c19Prep
	d          *driver.Driver
	gpuPort    sim.Port
	mmuPort    sim.Port
	gpuSrc     sim.Port
	ngpu       int
	psz        uint64
	conforming bool
	head       string
	ops        []string
	out        []string
	faulted    bool
	fault      string
	sigFix     string // final signature to use instead of the live one (a `Q` that faulted half-way)
	reqs       []*c19DrvReq
	byMsg      map[sim.Msg]*c19DrvReq
	log        []c19DrvEvt
	cur        int   // request being handled (-1 none), as observed on the ports
	shootIDs   []int // request of every shootdown command created, oldest first (for the `S>g:?` label)
	cmdReq     map[sim.Msg]int
	lastXg     []c19DrvCmd
	lastXm     int // request number of the answer the last `xm` took (-1 none)
	xmGot      []int
	migSent    int // migrate commands sent / answers delivered (all requests)
	migAnsDel  int
	nextAnswer int
	nTicks     int
	cpuPages   int
}

func newC19DrvEnv(r *Run, ngpu int, psz uint64, pages int, conforming bool) *c19DrvEnv {
	gp := make([]int, ngpu)
	for i := range gp {
		gp[i] = pages
	}
	c := c19DrvPrebuilt
	c19DrvPrebuilt = nil
	if c == nil || c.ndev != ngpu+1 || c19DrvPrebuiltPages != pages {
		c = newC19Prep(gp)
	}
	d := c.drv
	d.VerifAddContextC19(1)
	for i := 0; i < ngpu; i++ {
		d.RemotePMCPorts = append(d.RemotePMCPorts, sim.NewPort(nil, 1, 1, fmt.Sprintf("GPU%d.PMC.Remote", i+1)))
	}
	gpuPort, mmuPort := d.VerifPortsC19()
	(&fakeConn{name: "c"}).PlugIn(gpuPort)
	(&fakeConn{name: "c"}).PlugIn(mmuPort)
	e := &c19DrvEnv{r: r, c: c, d: d, gpuPort: gpuPort, mmuPort: mmuPort, ngpu: ngpu, psz: psz, conforming: conforming,
		byMsg: map[sim.Msg]*c19DrvReq{}, cmdReq: map[sim.Msg]int{}, cur: -1, lastXm: -1,
		gpuSrc: sim.NewPort(nil, 1, 1, "GPU1.CP.ToDriver"),
		head:   fmt.Sprintf("c19 drv ngpu=%d psz=%d pages=%d", ngpu, psz, pages)}
	// The memory-copy middleware of a fresh driver reports progress once (cyclesLeft 0 -> -1); the model's
	// middlewares are idle, so that tick is spent before the scenario starts.
	catch(func() { d.Tick() })
	gpuPort.AcceptHook(&c19DrvHook{e: e})
	mmuPort.AcceptHook(&c19DrvHook{e: e, mmu: true})
	return e
}

func (e *c19DrvEnv) line() string { return strings.Join(append([]string{e.head}, e.ops...), " ; ") }

func (e *c19DrvEnv) failf(sig, format string, a ...interface{}) {
	e.r.Failf(sig, e.line(), format, a...)
}

func c19DrvHexList(l []uint64) string {
	s := make([]string, len(l))
	for i, v := range l {
		s[i] = strconv.FormatUint(v, 16)
	}
	return strings.Join(s, ".")
}

func c19DrvFault(f string) string {
	if f == "bounds" {
		return "index"
	}
	return c19PrepFault(f)
}

func (e *c19DrvEnv) gpuIndex(dst sim.RemotePort) int {
	for i, p := range e.d.GPUs {
		if p.AsRemote() == dst {
			return i
		}
	}
	return -1
}

func (e *c19DrvEnv) pmcIndex(p sim.Port) int {
	for i, q := range e.d.RemotePMCPorts {
		if q == p {
			return i
		}
	}
	return -1
}

func (e *c19DrvEnv) sig() string {
	h := e.d.VerifHandshakeC19()
	return fmt.Sprintf("%s:%d,%d,%d,%d,%d:%d,%s:%d,%s,%s", b01(h.Handling), h.Drain, h.ShootDown, h.Migrating, h.Restart, h.RDMARestart,
		h.ToCP, b01(h.MigratingOne), h.ToSend, b01(h.ToMMU), b01(h.HasCurrent))
}

// gpuFree: the free frames of the GPU devices (index = 0-based GPU)
func (e *c19DrvEnv) gpuFree() [][]uint64 {
	all := make([][]uint64, e.ngpu)
	for g := 0; g < e.ngpu; g++ {
		all[g], _ = e.d.VerifFreePAddrsC19(g + 1)
	}
	return all
}

func (e *c19DrvEnv) allocSig() string {
	_, tb := e.c.dump()
	var l []string
	for _, f := range e.gpuFree() {
		h := uint64(0)
		if len(f) > 0 {
			h = f[0]
		}
		l = append(l, fmt.Sprintf("%d/%x", len(f), h))
	}
	return "T=" + tb + " F=" + strings.Join(l, ",")
}

func (e *c19DrvEnv) portState() string {
	head := func(m sim.Msg) string {
		if m == nil {
			return "-"
		}
		return fmt.Sprintf("%T@%p", m, m)
	}
	return fmt.Sprintf("%+v port heads: GPU in %s out %s, MMU in %s out %s", e.d.VerifHandshakeC19(), head(e.gpuPort.PeekIncoming()), head(e.gpuPort.PeekOutgoing()),
		head(e.mmuPort.PeekIncoming()), head(e.mmuPort.PeekOutgoing()))
}

// ---- one tick + the monitor ------------------------------------------------------------------------

// tick runs one d.Tick() and feeds the recorded port events to the monitor.
func (e *c19DrvEnv) tick() (prog bool, fault string) {
	e.nTicks++
	n0 := len(e.log)
	fault = catch(func() { prog = e.d.Tick() })
	evs := append([]c19DrvEvt(nil), e.log[n0:]...)
	h := e.d.VerifHandshakeC19()
	for _, ev := range evs {
		e.observe(ev, h, fault != "")
	}
	if fault == "" && !h.HasCurrent && e.cur >= 0 {
		e.endRequest()
	}
	return prog, fault
}

func (e *c19DrvEnv) curReq() *c19DrvReq {
	if e.cur >= 0 && e.cur < len(e.reqs) {
		return e.reqs[e.cur]
	}
	return nil
}

func (e *c19DrvEnv) endRequest() {
	q := e.curReq()
	e.cur = -1
	if q == nil || q.ended {
		return
	}
	q.ended = true
	if !e.conforming {
		return
	}
	e.r.Checked("drv.command-target")
	inAcc := func(g int) int {
		n := 0
		for _, a := range q.acc {
			if int(a) == g+1 {
				n++
			}
		}
		return n
	}
	for g := 0; g < e.ngpu; g++ {
		if q.nDrain[g] != 1 || q.nRdma[g] != 1 || q.nShoot[g] != inAcc(g) || q.nRestart[g] != inAcc(g) {
			e.failf("C19.drv.command-target", "request %d (host %d, accessing %v) ended; GPU %d got %d drain, %d shootdown, %d restart, %d RDMA restart commands (expected 1, %d, %d, 1)",
				q.id, q.host, q.acc, g+1, q.nDrain[g], q.nShoot[g], q.nRestart[g], q.nRdma[g], inAcc(g), inAcc(g))
		}
	}
	for _, p := range q.pages {
		if q.migOf[p.va] == nil {
			e.failf("C19.drv.command-target", "request %d ended without a migrate command for page %x (requested by GPU %d)", q.id, p.va, p.gpu+1)
		}
	}
	if q.answered != 1 {
		e.failf("C19.drv.mmu-answer", "request %d ended (RDMA restarted on all GPUs) with %d answers sent to the MMU", q.id, q.answered)
	}
}

func (e *c19DrvEnv) observe(ev c19DrvEvt, h driver.VerifHandshakeC19, faulted bool) {
	q := e.curReq()
	switch ev.kind {
	case c19DrvEvTake:
		if e.cur >= 0 {
			// the previous request ended earlier in this tick (processReturnReq runs before parseFromMMU)
			e.endRequest()
		}
		if nq := e.byMsg[ev.msg]; nq != nil {
			e.cur = nq.id
		}
	case c19DrvEvConsume:
		switch ev.msg.(type) {
		case *protocol.RDMADrainRspToDriver:
			if q != nil {
				q.cD++
				if h.Drain == 0 && !faulted {
					for range q.acc {
						e.shootIDs = append(e.shootIDs, q.id)
					}
				}
			}
		case *protocol.ShootDownCompleteRsp:
			if q != nil {
				q.cS++
			}
		case *protocol.PageMigrationRspToDriver:
			if q != nil {
				q.cM++
			}
		case *protocol.GPURestartRsp:
			if q != nil {
				q.cG++
			}
		case *protocol.RDMARestartRspToDriver:
			if q != nil {
				q.cA++
			}
		}
	case c19DrvEvSend:
		e.observeSend(ev.msg, q)
	case c19DrvEvSendMMU:
		e.observeAnswer(ev.msg)
	}
}

func (e *c19DrvEnv) observeSend(m sim.Msg, q *c19DrvReq) {
	g := e.gpuIndex(m.Meta().Dst)
	if q != nil {
		e.cmdReq[m] = q.id
	} else {
		e.cmdReq[m] = -1
	}
	if mm, ok := m.(*protocol.PageMigrationReqToCP); ok {
		if e.conforming {
			e.r.Checked("drv.one-migration")
			if e.migSent-e.migAnsDel >= 1 {
				e.failf("C19.drv.two-migrations-in-flight", "migrate command %x>%x leaves for GPU %d while %d earlier migrate command(s) are unanswered (sent %d, answers delivered %d)",
					mm.ToReadFromPhysicalAddress, mm.ToWriteToPhysicalAddress, g+1, e.migSent-e.migAnsDel, e.migSent, e.migAnsDel)
			}
		}
		e.migSent++
	}
	if !e.conforming {
		return
	}
	if q == nil || g < 0 {
		e.failf("C19.drv.command-target", "%T leaves for %s (GPU index %d) while no request is being handled", m, m.Meta().Dst, g)
		return
	}
	phase := func(what string, have, want int, of string) {
		e.r.Checked("drv.phase-order")
		if have != want {
			e.failf("C19.drv.phase-order", "request %d: a %s command leaves for GPU %d after %d of %d %s answers were consumed", q.id, what, g+1, have, want, of)
		}
	}
	inAcc := func() bool {
		for _, a := range q.acc {
			if int(a) == g+1 {
				return true
			}
		}
		return false
	}
	once := func(what string, cnt []int) {
		cnt[g]++
		if cnt[g] > 1 {
			e.failf("C19.drv.command-target", "request %d: GPU %d gets %s command no %d", q.id, g+1, what, cnt[g])
		}
	}
	switch x := m.(type) {
	case *protocol.RDMADrainCmdFromDriver:
		once("an RDMA drain", q.nDrain)
	case *protocol.ShootDownCommand:
		phase("shootdown", q.cD, e.ngpu, "drain")
		once("a shootdown", q.nShoot)
		var want []uint64
		for _, p := range q.pages {
			want = append(want, p.va)
		}
		if !inAcc() || x.PID != 1 || c19DrvHexList(x.VAddr) != c19DrvHexList(want) {
			e.failf("C19.drv.command-target", "request %d (accessing %v, pages %s): shootdown for GPU %d carries PID %d pages %s", q.id, q.acc, c19DrvHexList(want), g+1, x.PID, c19DrvHexList(x.VAddr))
		}
	case *protocol.PageMigrationReqToCP:
		phase("migrate", q.cS, len(q.acc), "shootdown")
		var pg *c19DrvPage
		for i := range q.pages {
			if q.pages[i].oldPA == x.ToReadFromPhysicalAddress && q.migOf[q.pages[i].va] == nil {
				pg = &q.pages[i]
				break
			}
		}
		if pg == nil {
			e.failf("C19.drv.command-target", "request %d: migrate command for GPU %d reads %x, which is not the frame of a page of the request still to be migrated", q.id, g+1, x.ToReadFromPhysicalAddress)
			break
		}
		q.migOf[pg.va] = x
		free := false
		for _, f := range q.freeAt[pg.gpu] {
			if f == x.ToWriteToPhysicalAddress {
				free = true
			}
		}
		dup := false
		for va, o := range q.migOf {
			if va != pg.va && o.ToWriteToPhysicalAddress == x.ToWriteToPhysicalAddress {
				dup = true
			}
		}
		wantPMC := -2
		if q.host >= 1 && int(q.host) <= len(e.d.RemotePMCPorts) {
			wantPMC = int(q.host) - 1
		}
		if g != pg.gpu || e.pmcIndex(x.DestinationPMCPort) != wantPMC || x.PageSize != e.psz || !free || dup {
			e.failf("C19.drv.command-target", "request %d page %x (requested by GPU %d, host %d, old frame %x): migrate command goes to GPU %d, PMC port %d, size %d (request: %d), writes %x (free on the requester when the request arrived: %v, used by another command: %v)",
				q.id, pg.va, pg.gpu+1, q.host, pg.oldPA, g+1, e.pmcIndex(x.DestinationPMCPort), x.PageSize, e.psz, x.ToWriteToPhysicalAddress, free, dup)
		}
	case *protocol.GPURestartReq:
		phase("GPU restart", q.cM, len(q.pages), "migrate")
		once("a restart", q.nRestart)
		if !inAcc() {
			e.failf("C19.drv.command-target", "request %d (accessing %v): GPU %d gets a restart command", q.id, q.acc, g+1)
		}
	case *protocol.RDMARestartCmdFromDriver:
		phase("RDMA restart", q.cG, len(q.acc), "GPU restart")
		once("an RDMA restart", q.nRdma)
	}
}

var c19DrvLeakReported bool

// Building a driver costs about 20 ms (the CPU device's list of 2^20 free frames), a scenario less than
// 1 ms: the drivers of the random scenarios are built ahead by a few goroutines (construction draws no
// random numbers and touches no shared state); the scenarios themselves run one after the other.
var c19DrvPrebuilt *c19Prep
var c19DrvPrebuiltPages int

type c19DrvPlan struct {
	kind  int // 0 conforming, 1 malformed request, 2 soup
	ngpu  int
	pages int
	psz   uint64
	mal   int
	nreq  int
	rng   *Rng
	prep  chan *c19Prep
}

func c19DrvMakePlan(rng *Rng) *c19DrvPlan {
	p := &c19DrvPlan{ngpu: 1 + rng.Intn(4), pages: 2048, mal: -1, prep: make(chan *c19Prep, 1)}
	switch x := rng.Intn(100); {
	case x < 60:
		p.kind = 0
		if p.ngpu == 1 && rng.Chance(60) {
			p.ngpu = 2 + rng.Intn(3)
		}
		p.psz = uint64(rng.Pick(4096, 4096, 4096, 64, 8192, 2097152))
		p.nreq = 1 + rng.Intn(3)
	case x < 75:
		p.kind = 1
		p.mal = min(rng.Intn(11), 8)
		p.nreq = 1 + rng.Intn(2)
		if p.mal == 8 {
			// few frames: the device of a requesting GPU fills up (needs a third GPU: with two, every
			// migration takes one frame on each side and the host runs out first)
			p.pages, p.ngpu, p.nreq = 2+rng.Intn(2), 3+rng.Intn(2), 3
		} else if rng.Chance(15) {
			p.pages = 2 + rng.Intn(3)
		}
		p.psz = uint64(rng.Pick(4096, 4096, 0, 64))
	default:
		p.kind = 2
		if rng.Chance(20) {
			p.pages = 2 + rng.Intn(2)
		}
		p.psz = uint64(rng.Pick(4096, 4096, 0, 64, 8192))
	}
	p.rng = NewRng(rng.U64())
	return p
}

func (p *c19DrvPlan) run(r *Run) {
	c19DrvPrebuilt, c19DrvPrebuiltPages = <-p.prep, p.pages
	switch p.kind {
	case 0:
		e := newC19DrvEnv(r, p.ngpu, p.psz, p.pages, true)
		c19DrvHonest(e, p.rng, p.nreq, -1, 4000)
		e.finish("conforming")
	case 1:
		e := newC19DrvEnv(r, p.ngpu, p.psz, p.pages, false)
		c19DrvHonest(e, p.rng, p.nreq, p.mal, 160)
		e.finish(fmt.Sprintf("malformed-request.%d", p.mal))
	default:
		c19DrvScenarioSoup(r, p.rng, newC19DrvEnv(r, p.ngpu, p.psz, p.pages, false))
	}
}

func (e *c19DrvEnv) observeAnswer(m sim.Msg) {
	rsp, ok := m.(*vm.PageMigrationRspFromDriver)
	if !ok {
		return
	}
	q := e.byMsg[rsp.OriginalReq]
	if q != nil {
		q.answered++
	}
	if !e.conforming {
		return
	}
	e.r.Checked("drv.mmu-answer")
	if q == nil {
		e.failf("C19.drv.mmu-answer", "an answer leaves for the MMU that belongs to no delivered request (%+v)", rsp)
		return
	}
	var want []uint64
	for _, p := range q.pages {
		want = append(want, p.va)
	}
	if q.id != e.nextAnswer || q.answered != 1 || c19DrvHexList(rsp.VAddr) != c19DrvHexList(want) || q.cM != len(q.pages) ||
		rsp.Dst != q.msg.Src {
		e.failf("C19.drv.mmu-answer", "answer for request %d (its answer no %d, expected next: request %d) to %s with pages %s (request: %s) after %d of %d migrate answers",
			q.id, q.answered, e.nextAnswer, rsp.Dst, c19DrvHexList(rsp.VAddr), c19DrvHexList(want), q.cM, len(q.pages))
	}
	if q.id >= e.nextAnswer {
		e.nextAnswer = q.id + 1
	}
	// ---- the table when the answer leaves
	e.r.Checked("drv.table")
	now, _ := e.c.dump()
	for _, p := range q.pages {
		pg, found := now[[2]uint64{1, p.va}]
		cmd := q.migOf[p.va]
		if !found || cmd == nil || pg.DeviceID != uint64(p.gpu+1) || pg.PAddr != cmd.ToWriteToPhysicalAddress || !pg.IsMigrating {
			wr := uint64(0)
			if cmd != nil {
				wr = cmd.ToWriteToPhysicalAddress
			}
			e.failf("C19.drv.table", "request %d answered: page %x (requested by GPU %d, migrate command writes %x) maps to %+v (found %v)", q.id, p.va, p.gpu+1, wr, pg, found)
		}
	}
	for k, b := range q.others {
		if now[k] != b {
			e.failf("C19.drv.table", "request %d answered: page %x, which is not part of it, changed from %+v to %+v", q.id, k[1], b, now[k])
		}
	}
	// ---- the old frames
	e.r.Checked("drv.old-frame")
	if q.host >= 1 && int(q.host) <= e.ngpu {
		hostFree, _ := e.d.VerifFreePAddrsC19(int(q.host))
		for _, p := range q.pages {
			mapped, free := false, false
			for _, pg := range now {
				if pg.PAddr == p.oldPA {
					mapped = true
				}
			}
			for _, f := range hostFree {
				if f == p.oldPA {
					free = true
				}
			}
			if !mapped && !free {
				e.r.Count("drv.old-frames-lost")
			}
			if !mapped && !free && !c19DrvLeakReported && uint64(p.gpu+1) != q.host {
				c19DrvLeakReported = true
				// regression oracle of the REPAIRED finding C19-old-frame-not-released: the driver gives the old frame back
				// (MemoryAllocator.ReleasePhysicalPage) when it handles the page's PageMigrationRspToDriver
				e.failf("C19.drv.old-frame-not-released", "request %d answered: page %x moved from frame %x on GPU %d to GPU %d; the old frame is mapped by no page and is not in the free list of device %d (%d free frames): it is lost for ever",
					q.id, p.va, p.oldPA, q.host, p.gpu+1, q.host, len(hostFree))
			}
		}
	}
}

// ---- ops -------------------------------------------------------------------------------------------

// do executes one op of the line protocol on the real driver; returns the token ("" after a fault)
func (e *c19DrvEnv) do(op string) string {
	if e.faulted {
		return ""
	}
	e.ops = append(e.ops, op)
	t := strings.Fields(op)
	tok := "bad"
	switch t[0] {
	case "Q":
		tok = e.opQ(t[1], t[2], t[3:])
	case "t":
		tok = e.opTick()
	case "r":
		tok = e.opRsp(t[1])
	case "xg":
		n, _ := strconv.Atoi(t[1])
		tok = e.opXg(n)
	case "xm":
		tok = e.opXm()
	}
	e.out = append(e.out, tok)
	if strings.HasPrefix(tok, "fault:") {
		e.faulted = true
		e.fault = tok[6:]
	}
	return tok
}

func (e *c19DrvEnv) opQ(hostS, accS string, ents []string) string {
	if e.mmuPort.PeekIncoming() != nil {
		return "full"
	}
	host, _ := strconv.ParseUint(hostS, 10, 64)
	var acc []uint64
	if accS != "-" {
		for _, s := range strings.Split(accS, ",") {
			v, _ := strconv.ParseUint(s, 10, 64)
			acc = append(acc, v)
		}
	}
	before := e.allocSig()
	others, _ := e.c.dump()
	info := &vm.PageMigrationInfo{GPUReqToVAddrMap: map[uint64][]uint64{}}
	var newPages [][2]uint64
	for _, en := range ents {
		kv := strings.SplitN(en, ":", 2)
		g, _ := strconv.ParseUint(kv[0], 10, 64)
		k, _ := strconv.Atoi(kv[1])
		for i := 0; i < k; i++ {
			var va uint64
			if f := catch(func() { va = e.d.VerifAllocateC19(1, 4096, int(host)) }); f != "" {
				// the model allocates all or nothing: the pages this `Q` got so far are not part of its answer
				e.sigFix = before
				return "fault:" + c19DrvFault(f)
			}
			newPages = append(newPages, [2]uint64{1, va})
			info.GPUReqToVAddrMap[g] = append(info.GPUReqToVAddrMap[g], va)
		}
		if host == 0 {
			e.cpuPages += k
		}
	}
	for _, k := range newPages {
		e.c.known[k] = true
	}
	q := &c19DrvReq{id: len(e.reqs), host: host, acc: acc, others: others, migOf: map[uint64]*protocol.PageMigrationReqToCP{},
		nDrain: make([]int, e.ngpu), nRdma: make([]int, e.ngpu), nShoot: make([]int, e.ngpu), nRestart: make([]int, e.ngpu)}
	for g := 1; g <= e.ngpu; g++ {
		for _, va := range info.GPUReqToVAddrMap[uint64(g)] {
			pg, _ := e.c.pt.Find(1, va)
			q.pages = append(q.pages, c19DrvPage{gpu: g - 1, va: va, oldPA: pg.PAddr})
		}
	}
	q.freeAt = e.gpuFree()
	m := &vm.PageMigrationReqToDriver{MigrationInfo: info, CurrAccessingGPUs: acc, PID: 1, CurrPageHostGPU: host, PageSize: e.psz}
	m.ID = fmt.Sprintf("mmu%d", q.id)
	m.Src, m.Dst = "MMU", e.mmuPort.AsRemote()
	q.msg = m
	if e.mmuPort.Deliver(m) != nil {
		return "full" // cannot happen: the buffer was empty
	}
	e.reqs = append(e.reqs, q)
	e.byMsg[m] = q
	e.r.Count("drv.requests")
	e.r.CountN("drv.pages", len(q.pages))
	return "ok"
}

func (e *c19DrvEnv) opTick() string {
	before := e.portState()
	n0 := len(e.log)
	prog, f := e.tick()
	if f != "" {
		return "fault:" + c19DrvFault(f)
	}
	tok := fmt.Sprintf("t%s[%s]", b01(prog), e.sig())
	if !prog {
		// oracle 1: a tick that reports no progress puts the driver to sleep: it must not have done anything,
		// and a further tick must not find anything to do either (nothing re-schedules a tick for messages
		// that are already in a port).
		e.r.Checked("drv.quiet-tick")
		if after := e.portState(); after != before || len(e.log) != n0 {
			e.failf("C19.drv.sleeps-with-work", "tick %d reported no progress but changed the driver (%d port events): %s -> %s", e.nTicks, len(e.log)-n0, before, after)
		}
		before = e.portState()
		n0 = len(e.log)
		again, f2 := e.tick()
		after := e.portState()
		if f2 != "" || again || after != before || len(e.log) != n0 {
			e.failf("C19.drv.sleeps-with-work", "tick %d reported no progress, but the next tick did work (progress=%v fault=%q, %d port events): %s -> %s: the driver would have gone to sleep with work left",
				e.nTicks-1, again, f2, len(e.log)-n0, before, after)
		}
	}
	return tok
}

func (e *c19DrvEnv) opRsp(k string) string {
	var m sim.Msg
	switch k {
	case "D":
		m = protocol.NewRDMADrainRspToDriver(e.gpuSrc, e.gpuPort)
	case "A":
		m = protocol.NewRDMARestartRspToDriver(e.gpuSrc, e.gpuPort)
	case "S":
		m = protocol.NewShootdownCompleteRsp(e.gpuSrc, e.gpuPort)
	case "G":
		m = protocol.NewGPURestartRsp(e.gpuSrc, e.gpuPort)
	case "M":
		m = protocol.NewPageMigrationRspToDriver(e.gpuSrc, e.gpuPort)
	default:
		// a message type neither the driver nor its memory-copy middleware knows: it stays at the head of
		// the port's buffer for ever
		m = &c19Junk{sim.MsgMeta{ID: "junk", Src: e.gpuSrc.AsRemote(), Dst: e.gpuPort.AsRemote()}}
	}
	if e.gpuPort.Deliver(m) != nil {
		return "full"
	}
	if k == "M" {
		e.migAnsDel++
	}
	return "ok"
}

func (e *c19DrvEnv) opXg(n int) string {
	e.lastXg = nil
	var l []string
	for i := 0; i < n; i++ {
		m := e.gpuPort.RetrieveOutgoing()
		if m == nil {
			break
		}
		g := e.gpuIndex(m.Meta().Dst)
		rq, known := e.cmdReq[m]
		if !known {
			rq = -1
		}
		c := c19DrvCmd{gpu: g, req: rq}
		switch x := m.(type) {
		case *protocol.RDMADrainCmdFromDriver:
			c.kind = 'D'
			l = append(l, fmt.Sprintf("D>%d", g))
		case *protocol.RDMARestartCmdFromDriver:
			c.kind = 'A'
			l = append(l, fmt.Sprintf("A>%d", g))
		case *protocol.GPURestartReq:
			c.kind = 'G'
			l = append(l, fmt.Sprintf("G>%d", g))
		case *protocol.ShootDownCommand:
			c.kind = 'S'
			id := -1
			if len(e.shootIDs) > 0 {
				id = e.shootIDs[0]
				e.shootIDs = e.shootIDs[1:]
			}
			// the model names the payload through the request being handled NOW; a shootdown of an
			// earlier request that is still around is printed as `?`
			if id >= 0 && id == e.cur {
				l = append(l, fmt.Sprintf("S>%d:%d:%s", g, x.PID, c19DrvHexList(x.VAddr)))
			} else {
				l = append(l, fmt.Sprintf("S>%d:?", g))
			}
		case *protocol.PageMigrationReqToCP:
			c.kind = 'M'
			l = append(l, fmt.Sprintf("M>%d:%x>%x:%d@%d", g, x.ToReadFromPhysicalAddress, x.ToWriteToPhysicalAddress, x.PageSize, e.pmcIndex(x.DestinationPMCPort)))
		default:
			c.kind = '?'
			l = append(l, fmt.Sprintf("?%T", m))
		}
		e.lastXg = append(e.lastXg, c)
	}
	return "xg[" + strings.Join(l, ",") + "]"
}

func (e *c19DrvEnv) opXm() string {
	e.lastXm = -1
	m := e.mmuPort.RetrieveOutgoing()
	if m == nil {
		return "xm[]"
	}
	rsp, ok := m.(*vm.PageMigrationRspFromDriver)
	if !ok {
		return fmt.Sprintf("xm[?%T]", m)
	}
	id := "?"
	if q := e.byMsg[rsp.OriginalReq]; q != nil && rsp.GetRspTo() == q.msg.ID {
		id = strconv.Itoa(q.id)
		e.lastXm = q.id
		e.xmGot = append(e.xmGot, q.id)
	}
	return fmt.Sprintf("xm[%s:%s]", id, c19DrvHexList(rsp.VAddr))
}

func (e *c19DrvEnv) quiet() bool {
	h := e.d.VerifHandshakeC19()
	return !h.Handling && !h.HasCurrent && h.Drain == 0 && h.ShootDown == 0 && h.Migrating == 0 && h.Restart == 0 && h.RDMARestart == 0 &&
		h.ToCP == 0 && !h.MigratingOne && h.ToSend == 0 && !h.ToMMU &&
		e.gpuPort.PeekIncoming() == nil && e.gpuPort.PeekOutgoing() == nil && e.mmuPort.PeekIncoming() == nil && e.mmuPort.PeekOutgoing() == nil
}

// finish records the case and evaluates the end-of-scenario oracles
func (e *c19DrvEnv) finish(kind string) {
	fin := e.allocSig()
	if e.sigFix != "" {
		fin = e.sigFix
	}
	e.r.Case(e.line(), strings.Join(e.out, " ")+" "+fin)
	e.r.Count("drv.scenario." + kind)
	e.r.CountN("drv.ops", len(e.ops))
	if e.faulted {
		e.r.Count("drv.fault." + e.fault)
	}
	if e.conforming {
		e.r.Checked("drv.idle")
		if e.faulted {
			e.failf("C19.drv.not-idle", "a conforming scenario panicked: %s", e.fault)
			return
		}
		if !e.quiet() {
			e.failf("C19.drv.not-idle", "after %d complete handshakes the driver is not idle: %s", len(e.reqs), e.portState())
		}
		for _, q := range e.reqs {
			if !q.ended {
				e.failf("C19.drv.not-idle", "request %d never ended (answers consumed: %d drain, %d shootdown, %d migrate, %d restart, %d RDMA restart)", q.id, q.cD, q.cS, q.cM, q.cG, q.cA)
			}
			if q.answered != 1 {
				e.failf("C19.drv.mmu-answer", "request %d was answered %d times", q.id, q.answered)
			}
		}
		for i, id := range e.xmGot {
			if id != i {
				e.failf("C19.drv.mmu-answer", "the MMU received the answers of requests %v (in this order)", e.xmGot)
				break
			}
		}
		if len(e.xmGot) != len(e.reqs) {
			e.failf("C19.drv.mmu-answer", "%d requests, but the MMU received the answers %v", len(e.reqs), e.xmGot)
		}
	}
}

// ---- generators ------------------------------------------------------------------------------------

// c19DrvGenQ: one request. mal = -1: conforming; 0..8: one malformed feature
func c19DrvGenQ(rng *Rng, ngpu int, mal int) string {
	host := 1 + rng.Intn(ngpu)
	var cand []int
	for g := 1; g <= ngpu; g++ {
		if g != host {
			cand = append(cand, g)
		}
	}
	if len(cand) == 0 {
		cand = []int{host} // a single GPU: the page moves to another frame of the same device
	}
	p := rng.Perm(len(cand))
	ne := 1 + rng.Intn(min(3, len(cand)))
	var ents []string
	for i := 0; i < ne; i++ {
		ents = append(ents, fmt.Sprintf("%d:%d", cand[p[i]], 1+rng.Intn(3)))
	}
	pa := rng.Perm(ngpu)
	na := 1 + rng.Intn(min(3, ngpu))
	var acc []string
	for i := 0; i < na; i++ {
		acc = append(acc, strconv.Itoa(pa[i]+1))
	}
	hostS := strconv.Itoa(host)
	switch mal {
	case 0:
		acc = nil
	case 1:
		acc[rng.Intn(len(acc))] = "0"
	case 2:
		acc = append(acc, strconv.Itoa(ngpu+1))
	case 3:
		hostS = "0"
	case 4:
		hostS = strconv.Itoa(ngpu + 1)
	case 5:
		ents = append(ents, fmt.Sprintf("%d:%d", host, 1+rng.Intn(2)))
	case 6:
		ents = append(ents, ents[rng.Intn(len(ents))], ents[0])
	case 7:
		ents = append([]string{fmt.Sprintf("%d:%d", ngpu+1+rng.Intn(2), 1+rng.Intn(2))}, ents...)
		if rng.Chance(30) {
			ents = ents[:1]
		}
	case 8:
		ents = []string{ents[0][:strings.Index(ents[0], ":")] + ":2"}
		acc = append(acc, acc[0]) // a GPU listed twice
	}
	a := "-"
	if len(acc) > 0 {
		a = strings.Join(acc, ",")
	}
	return "Q " + hostS + " " + a + " " + strings.Join(ents, " ")
}

type c19DrvOwed struct {
	kind byte
	req  int
}

// c19DrvHonest plays an honest MMU and honest command processors: every command taken with `xg` is answered
// later by the matching `r` (random delays, several answers between two ticks), the answers to the MMU are
// taken at random times, but before the pages of the next request finish migrating; the next request is
// sent when the previous one is finished or in its restart phase. mal >= 0: the requests are malformed
// (the environment stays honest; the run is cut after maxSteps).
func c19DrvHonest(e *c19DrvEnv, rng *Rng, nreq int, mal int, maxSteps int) {
	var pool []c19DrvOwed
	sent := 0
	useless := rng.Intn(5)
	for step := 0; step < maxSteps && !e.faulted; step++ {
		if sent == nreq && len(e.xmGot) == sent && len(pool) == 0 && e.quiet() {
			break
		}
		canQ := sent < nreq && e.mmuPort.PeekIncoming() == nil && (sent == 0 || e.reqs[sent-1].dM == len(e.reqs[sent-1].pages))
		if mal >= 0 && sent > 0 {
			canQ = sent < nreq && e.mmuPort.PeekIncoming() == nil
		}
		canXg := e.gpuPort.PeekOutgoing() != nil
		canXm := e.mmuPort.PeekOutgoing() != nil
		x := rng.Intn(100)
		switch {
		case canQ && x < 25:
			m := mal
			if mal >= 0 && mal != 8 && sent > 0 && rng.Chance(50) {
				m = -1
			}
			busy := e.d.VerifHandshakeC19().Handling
			if e.do(c19DrvGenQ(rng, e.ngpu, m)) == "ok" {
				sent++
				if busy && mal < 0 {
					e.r.Count("drv.request-sent-during-restart-phase")
				}
			}
		case len(pool) > 0 && x < 50:
			for k := 1 + rng.Intn(min(len(pool), 4)); k > 0 && len(pool) > 0 && !e.faulted; k-- {
				i := rng.Intn(len(pool))
				o := pool[i]
				if o.kind == 'M' && o.req > 0 && o.req < len(e.reqs) && mal < 0 {
					q := e.reqs[o.req]
					if q.dM+1 == len(q.pages) {
						// the last migrate answer of this request: the MMU has taken the earlier answers by now
						for n := 0; len(e.xmGot) < o.req && n < 20 && !e.faulted; n++ {
							if e.mmuPort.PeekOutgoing() != nil {
								e.do("xm")
							} else {
								e.do("t")
							}
						}
					}
				}
				pool = append(pool[:i], pool[i+1:]...)
				if e.do("r "+string(o.kind)) == "ok" && o.kind == 'M' && o.req >= 0 && o.req < len(e.reqs) {
					e.reqs[o.req].dM++
				}
			}
		case (canXg || useless > 0 && x < 52) && x < 75:
			if !canXg {
				useless--
			}
			e.do(fmt.Sprintf("xg %d", 1+rng.Intn(9)))
			for _, c := range e.lastXg {
				pool = append(pool, c19DrvOwed{c.kind, c.req})
			}
		case (canXm || useless > 0 && x < 77) && x < 82:
			if !canXm {
				useless--
			}
			e.do("xm")
		default:
			for k := 1 + rng.Intn(3); k > 0; k-- {
				e.do("t")
			}
		}
	}
	if e.faulted {
		return
	}
	// close: let the driver come to rest and collect what is left
	for k, z := 0, 0; k < 12 && z < 2 && !e.faulted; k++ {
		if strings.HasPrefix(e.do("t"), "t0") {
			z++
		} else {
			z = 0
		}
	}
	e.do("xg 9")
	e.do("xm")
}

// c19DrvScenarioSoup: arbitrary ops; answers are biased towards the kind the driver waits for so that the
// handshake moves through its phases, but stray answers (counter 0: uint64 wrap) and unknown messages occur
func c19DrvScenarioSoup(r *Run, rng *Rng, e *c19DrvEnv) {
	ngpu := e.ngpu
	noXm := rng.Chance(40)
	n := 10 + rng.Intn(70)
	xgFrom := 78 // `xg` for x in [xgFrom, 93)
	malPct, wantPct := 45, 80
	if rng.Chance(30) {
		// commands are rarely taken: a whole handshake passes (stray answers) while its shootdown commands
		// are still in the port
		xgFrom, n, malPct, wantPct = 91, 60+rng.Intn(80), 8, 95
	}
	for i := 0; i < n && !e.faulted; i++ {
		x := rng.Intn(100)
		switch {
		case x < 12:
			mal := -1
			if rng.Chance(malPct) {
				mal = rng.Intn(9)
			}
			if mal == 3 && e.cpuPages > 40 {
				mal = -1
			}
			e.do(c19DrvGenQ(rng, ngpu, mal))
		case x < 50:
			e.do("t")
		case x < xgFrom:
			h := e.d.VerifHandshakeC19()
			var want []string
			for i, c := range []uint64{h.Drain, h.ShootDown, h.Migrating, h.Restart, h.RDMARestart} {
				if c != 0 {
					want = append(want, string("DSMGA"[i]))
				}
			}
			k := string("DASGMO"[rng.Intn(6)])
			if len(want) > 0 && rng.Chance(wantPct) {
				k = want[rng.Intn(len(want))]
			} else if k == "O" && rng.Chance(60) {
				k = "D"
			}
			e.do("r " + k)
		case x < 93:
			e.do(fmt.Sprintf("xg %d", rng.Intn(6)))
		default:
			if !noXm {
				e.do("xm")
			} else {
				e.do("t")
			}
		}
	}
	e.do("xg 9")
	e.do("xm")
	e.finish("soup")
}

// c19DrvServe: tick; take every command; answer all of them; until nothing moves
func c19DrvServe(e *c19DrvEnv) {
	for i := 0; i < 200 && !e.faulted; i++ {
		tok := e.do("t")
		e.do("xg 9")
		cmds := e.lastXg
		if strings.HasPrefix(tok, "t0") && len(cmds) == 0 {
			break
		}
		for _, c := range cmds {
			e.do("r " + string(c.kind))
		}
	}
}

// c19DrvScenarioScript: the requests one after the other, each served completely
func c19DrvScenarioScript(r *Run, ngpu, pages int, takeXm bool, qs ...string) {
	e := newC19DrvEnv(r, ngpu, 4096, pages, false)
	for _, q := range qs {
		e.do(q)
		c19DrvServe(e)
		if takeXm {
			e.do("xm")
		}
	}
	e.finish("fixed")
}

// c19DrvScenarioOverwritten: an MMU that has two requests outstanding and does not take the answers. The
// answer to request 0 sits in the MMU port's outgoing buffer (capacity 1), the answer to request 1 waits in
// toSendToMMU; when request 2 completes, preparePageMigrationRspToMMU assigns toSendToMMU again.
func c19DrvScenarioOverwritten(r *Run) {
	e := newC19DrvEnv(r, 2, 4096, 2048, false)
	for _, q := range []string{"Q 1 1,2 2:1", "Q 2 1 1:2", "Q 1 2 2:1"} {
		e.do(q)
		c19DrvServe(e)
	}
	for i := 0; i < 3; i++ {
		e.do("xm")
		e.do("t")
		e.do("t")
	}
	e.finish("fixed-overwritten")
	r.Checked("drv.mmu-answer-overwritten")
	if e.faulted {
		return
	}
	for _, q := range e.reqs {
		got := 0
		for _, id := range e.xmGot {
			if id == q.id {
				got++
			}
		}
		h := e.d.VerifHandshakeC19()
		if got != 1 && q.ended {
			e.failf("C19.drv.mmu-answer-overwritten", "three requests were delivered and served completely while the MMU did not take any answer out of the driver's MMU port (outgoing capacity 1); "+
				"afterwards the MMU took the answers of requests %v: request %d (pages %s) ended (drain, shootdown, migration, restart all acknowledged) but its answer was taken %d times and left the driver %d times; "+
				"toSendToMMU held it when preparePageMigrationRspToMMU stored the answer of the next request there; driver now idle: %+v",
				e.xmGot, q.id, func() string {
					var l []uint64
					for _, p := range q.pages {
						l = append(l, p.va)
					}
					return c19DrvHexList(l)
				}(), got, q.answered, h)
		}
	}
}

func c19DrvScenarios(r *Run) int {
	n := 0
	for k, v := range r.Dist {
		if strings.HasPrefix(k, "drv.scenario.") {
			n += v
		}
	}
	return n
}

// runC19DrvLine re-executes a recorded case line
func runC19DrvLine(r *Run, line string, kind string) {
	ops := splitOps(line)
	ngpu, psz, pages := 2, uint64(4096), 2048
	for _, t := range strings.Fields(ops[0]) {
		switch {
		case strings.HasPrefix(t, "ngpu="):
			ngpu, _ = strconv.Atoi(t[5:])
		case strings.HasPrefix(t, "psz="):
			psz, _ = strconv.ParseUint(t[4:], 10, 64)
		case strings.HasPrefix(t, "pages="):
			pages, _ = strconv.Atoi(t[6:])
		}
	}
	e := newC19DrvEnv(r, ngpu, psz, pages, false)
	for _, o := range ops[1:] {
		e.do(o)
	}
	e.finish(kind)
}

func runC19Drv(r *Run, rng *Rng, replay string) {
	log.SetOutput(io.Discard)
	c19DrvLeakReported = false
	t0 := time.Now()
	defer func() { r.Note("c19 drv: %d scenarios in %.2f s", c19DrvScenarios(r), time.Since(t0).Seconds()) }()
	if replay != "" {
		if b, err := os.ReadFile(replay); err == nil {
			for _, ln := range strings.Split(string(b), "\n") {
				if strings.HasPrefix(ln, "c19 drv ") {
					runC19DrvLine(r, ln, "replay")
				}
			}
		}
	}
	for _, ln := range c19DrvFixed {
		runC19DrvLine(r, ln, "fixed")
	}
	// the device of requesting GPU 2 (two frames) fills up: out of memory in preparePageForMigration
	c19DrvScenarioScript(r, 3, 2, true, "Q 1 1 2:2", "Q 3 1,3 2:1 1:1")
	// pages living on the CPU (host 0): RemotePMCPorts[0-1]
	c19DrvScenarioScript(r, 2, 2048, true, "Q 0 1,2 2:1 1:1")
	// an entry for the host itself, a GPU listed twice, an entry for a GPU that does not exist
	c19DrvScenarioScript(r, 2, 2048, true, "Q 1 2 1:1 2:1 1:2 5:1", "Q 2 1,1 1:1")
	// nobody accesses the pages: no shootdown is sent, the handshake waits for ever
	c19DrvScenarioScript(r, 2, 2048, true, "Q 1 - 2:1")
	c19DrvScenarioOverwritten(r)
	n := 300
	if r.Tier == "thorough" {
		n = 6000
	}
	plans := make([]*c19DrvPlan, n)
	for i := range plans {
		plans[i] = c19DrvMakePlan(rng)
	}
	window := make(chan struct{}, 24) // drivers built and not yet used
	go func() {
		for _, p := range plans {
			window <- struct{}{}
			go func(p *c19DrvPlan) {
				gp := make([]int, p.ngpu)
				for i := range gp {
					gp[i] = p.pages
				}
				p.prep <- newC19Prep(gp)
			}(p)
		}
	}()
	for _, p := range plans {
		p.run(r)
		<-window
	}
}

var c19DrvFixed = []string{
	"c19 drv ngpu=2 psz=4096 pages=2048 ; Q 1 1,2 2:1 ; t ; t ; t ; xg 9 ; r D ; r D ; t",
	// stray answers at counter 0 (uint64 wrap), an unknown message blocks the port
	"c19 drv ngpu=2 psz=4096 pages=2048 ; r S ; t ; r M ; t ; r G ; t ; r A ; t ; r O ; r D ; t ; t",
	// a stray drain answer while nothing is handled: 0 - 1 wraps, no shootdown; one more would reach … never 0
	"c19 drv ngpu=1 psz=4096 pages=2048 ; r D ; t ; Q 1 1 1:1 ; t ; t ; xg 3 ; r D ; t ; t",
	// accessing GPU 0: d.GPUs[0-1]
	"c19 drv ngpu=2 psz=4096 pages=2048 ; Q 1 0 2:1 ; t ; t ; t ; xg 9 ; r D ; r D ; t ; t",
	// nobody takes the commands, the answers come nevertheless: the shootdown command of a finished request
	"c19 drv ngpu=2 psz=4096 pages=2048 ; Q 1 1 2:1 ; t ; t ; t ; r D ; r D ; t ; t ; t ; r S ; t ; t ; t ; r M ; t ; t ; t ; r G ; t ; t ; t ; r A ; r A ; t ; t ; t ; xg 9 ; xm",
	// host 3 of 2: no such device
	"c19 drv ngpu=2 psz=4096 pages=2048 ; Q 3 1 1:1 ; t",
	// two frames per GPU, two pages move to GPU 2, one command at a time
	"c19 drv ngpu=2 psz=4096 pages=2 ; Q 1 1 2:2 ; t ; t ; t ; xg 9 ; r D ; r D ; t ; t ; t ; xg 9 ; r S ; t ; t ; xg 1 ; r M ; t ; t ; xg 1 ; r M ; t ; t ; t ; xg 9 ; xm ; Q 1 1 2:1",
}
