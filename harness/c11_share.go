package main

import (
	"fmt"
	"strconv"
	"strings"

	"github.com/sarchlab/akita/v4/mem/cache"
	"github.com/sarchlab/akita/v4/mem/mem"
	"github.com/sarchlab/akita/v4/mem/vm"
	"github.com/sarchlab/akita/v4/mem/vm/tlb"
	"github.com/sarchlab/akita/v4/sim"
	"github.com/sarchlab/mgpusim/v4/amd/protocol"
	"github.com/sarchlab/mgpusim/v4/amd/timing/cp"
)

// The command processor's copy / flush path TOGETHER with the TLB-shootdown path, which shares
// numCacheACK and currFlushRequest with it, on the REAL cp.CommandProcessor ticked by hand. The
// driver, the DMA engine, the caches, the compute units, the address translators and the TLBs are
// fake remote ports; the harness delivers flush / H2D / D2H requests, ShootDownCommands and the
// components' acknowledgements in any order and takes what the CP sends (or leaves it in the
// outgoing buffers: back-pressure). A message the harness could not deliver ("full") is kept, never
// dropped. Case lines `c11 cps …` are answered by `C11.runCps` (Lean model MgpuModel/C11CpShare.lean).
// The oracles watch the CP's ports through Akita port hooks, independent of the model.

func init() { register("C11", runC11Share) }

const (
	c11shCU = iota
	c11shAT
	c11shTLB
	c11shN
)

var c11shClsNames = [c11shN]string{"compute units", "address translators", "TLBs"}
var c11shTake = [c11shN]string{"xu", "xa", "xl"}
var c11shAck = [c11shN]string{"au", "aa", "al"}

type c11shHook struct{ f func(ctx sim.HookCtx) }

func (h *c11shHook) Func(ctx sim.HookCtx) { h.f(ctx) }

type c11shCfg struct {
	cu, at, tlb, l1i, l1s, l1v, l2          int
	cin, cdrv, cdma, ccache, ccu, cat, ctlb int
	disp                                    int // stand-in dispatchers (kernel launches)
}

func (g c11shCfg) caches() int { return g.l1i + g.l1s + g.l1v + g.l2 }

func (g c11shCfg) head() string {
	return fmt.Sprintf("c11 cps cu=%d at=%d tlb=%d caches=%d l1i=%d l1s=%d l1v=%d cin=%d cdrv=%d cdma=%d ccache=%d ccu=%d cat=%d ctlb=%d disp=%d",
		g.cu, g.at, g.tlb, g.caches(), g.l1i, g.l1s, g.l1v, g.cin, g.cdrv, g.cdma, g.ccache, g.ccu, g.cat, g.ctlb, g.disp)
}

func c11shDefaultCfg() c11shCfg {
	return c11shCfg{1, 1, 1, 1, 1, 1, 1, 4096, 4096, 4096, 4096, 4096, 4096, 4096, 1}
}

type c11shEnv struct {
	r   *Run
	c   *cp.CommandProcessor
	cfg c11shCfg

	drv, dma sim.Port
	caches   []sim.Port
	cacheIx  map[sim.RemotePort]int
	port     [c11shN]sim.Port
	compIx   [c11shN]map[sim.RemotePort]int

	ops   []string
	out   []string
	fault string

	reqs     []sim.Msg // flush / copy requests by id
	kinds    []string
	byAddr   map[uint64]int
	shoots   int // ShootDownCommands the driver port accepted
	disp     []*cp.VerifDispatcherC02
	launches []*protocol.LaunchKernelReq // LaunchKernelReqs the driver port accepted
	started  int                         // kernels handed to a dispatcher so far
	invSent  int                         // kernel-start invalidation requests seen on ToCaches
	atDma    []sim.Msg
	atCaches []*cache.FlushReq
	pend     [c11shN][]sim.Msg

	// occupancy of the CP's buffers (hooks + the harness's own Deliver / RetrieveOutgoing)
	outDrv, outDma, outCache int
	outCls                   [c11shN]int

	// oracle state (hooks)
	cacheSent, cacheAcked int // cache requests really sent (flush or reset) / acknowledgements consumed
	clsSent, clsAcked     [c11shN]int
	fwdCount, rspCount    []int
	doneSent              int // ShootdownCompleteRsp sent
	doneExpected          int // times numTLBAck reached 0
	doneLost              int // ShootdownCompleteRsp handed to a full ToDriver
	flushAnswered         int
	nFlush                int
	overlap               bool // a flush and a shootdown were pending at the same time
	mix                   bool // a kernel launch request and a shootdown were pending at the same time
	dropped               bool // an unchecked Send hit a full buffer
	fails                 map[string]int
}

func (e *c11shEnv) line() string { return strings.Join(e.ops, " ; ") }

func (e *c11shEnv) fail(sig, format string, a ...interface{}) {
	if e.fails == nil {
		e.fails = map[string]int{}
	}
	if e.fails[sig] < 2 {
		e.r.Failf(sig, e.line(), format, a...)
	}
	e.fails[sig]++
}

func newC11shEnv(r *Run, g c11shCfg) *c11shEnv {
	e := &c11shEnv{r: r, cfg: g, cacheIx: map[sim.RemotePort]int{}, byAddr: map[uint64]int{}}
	c := cp.MakeBuilder().WithEngine(&fakeEngine{}).WithFreq(1 * sim.GHz).Build("CP")
	e.c = c
	repl := func(old sim.Port, cout int, name string) sim.Port {
		if g.cin == 4096 && cout == 4096 {
			return old
		}
		return sim.NewPort(c, g.cin, cout, name)
	}
	c.ToDriver = repl(c.ToDriver, g.cdrv, "CP.ToDriver")
	c.ToDMA = repl(c.ToDMA, g.cdma, "CP.ToDispatcher")
	c.ToCaches = repl(c.ToCaches, g.ccache, "CP.ToCaches")
	c.ToCUs = repl(c.ToCUs, g.ccu, "CP.ToCUs")
	c.ToAddressTranslators = repl(c.ToAddressTranslators, g.cat, "CP.ToAddressTranslators")
	c.ToTLBs = repl(c.ToTLBs, g.ctlb, "CP.ToTLBs")
	conn := &fakeConn{name: "c11sh"}
	for _, p := range []sim.Port{c.ToDriver, c.ToDMA, c.ToRDMA, c.ToCUs, c.ToAddressTranslators, c.ToCaches, c.ToTLBs, c.ToPMC} {
		conn.PlugIn(p)
	}
	e.port = [c11shN]sim.Port{c.ToCUs, c.ToAddressTranslators, c.ToTLBs}
	e.drv = sim.NewPort(nil, 4, 4, "FakeDriver.GPU")
	e.dma = sim.NewPort(nil, 4, 4, "FakeDMA.ToCP")
	c.Driver = e.drv
	c.DMAEngine = e.dma
	mkCache := func(kind string, n int) []sim.Port {
		var l []sim.Port
		for i := 0; i < n; i++ {
			p := sim.NewPort(nil, 4, 4, fmt.Sprintf("Fake%s%d.Ctrl", kind, i))
			e.cacheIx[p.AsRemote()] = len(e.caches)
			e.caches = append(e.caches, p)
			l = append(l, p)
		}
		return l
	}
	c.L1ICaches = mkCache("L1I", g.l1i)
	c.L1SCaches = mkCache("L1S", g.l1s)
	c.L1VCaches = mkCache("L1V", g.l1v)
	c.L2Caches = mkCache("L2", g.l2)
	mk := func(cls int, kind string, n int) []sim.Port {
		e.compIx[cls] = map[sim.RemotePort]int{}
		var l []sim.Port
		for i := 0; i < n; i++ {
			p := sim.NewPort(nil, 4, 4, fmt.Sprintf("Fake%s%d.Ctrl", kind, i))
			e.compIx[cls][p.AsRemote()] = i
			l = append(l, p)
		}
		return l
	}
	for _, p := range mk(c11shCU, "CU", g.cu) {
		c.CUs = append(c.CUs, p.AsRemote())
	}
	c.AddressTranslators = mk(c11shAT, "AT", g.at)
	c.TLBs = mk(c11shTLB, "TLB", g.tlb)
	e.disp = c.VerifInstallDispatchersC02(g.disp)
	c.ToDriver.AcceptHook(&c11shHook{e.hookDrv})
	c.ToDMA.AcceptHook(&c11shHook{e.hookDma})
	c.ToCaches.AcceptHook(&c11shHook{e.hookCaches})
	for cls := 0; cls < c11shN; cls++ {
		e.port[cls].AcceptHook(&c11shHook{e.hookCls(cls)})
	}
	e.ops = []string{g.head()}
	return e
}

// ---- hooks: occupancy and the oracles, at the moment the CP sends / consumes a message

func (e *c11shEnv) pendingFlushes() int { return e.nFlush - e.flushAnswered }
func (e *c11shEnv) pendingShoots() int  { return e.shoots - e.doneSent }

func (e *c11shEnv) pendingLaunches() int { return len(e.launches) - e.startedNow() }

func (e *c11shEnv) noteOverlap() {
	if e.pendingFlushes() > 0 && e.pendingShoots() > 0 {
		e.overlap = true
	}
	if e.pendingLaunches() > 0 && e.pendingShoots() > 0 {
		e.mix = true
	}
}

func (e *c11shEnv) hookCaches(ctx sim.HookCtx) {
	switch ctx.Pos {
	case sim.HookPosPortMsgSend:
		e.outCache++
		if _, ok := ctx.Item.(*cache.FlushReq); ok {
			e.cacheSent++
		}
	case sim.HookPosPortMsgRetrieveIncoming:
		if _, ok := ctx.Item.(*cache.FlushRsp); ok {
			e.cacheAcked++
		}
	}
}

func (e *c11shEnv) hookCls(cls int) func(ctx sim.HookCtx) {
	return func(ctx sim.HookCtx) {
		switch ctx.Pos {
		case sim.HookPosPortMsgSend:
			e.outCls[cls]++
			e.clsSent[cls]++
		case sim.HookPosPortMsgRetrieveIncoming:
			e.clsAcked[cls]++
			// processTLBFlushRsp: numTLBAck--; at 0 ShootdownCompleteRsp is handed to ToDriver.Send with the
			// error ignored; then the acknowledgement is retrieved (this hook). A full ToDriver loses it.
			if cls == c11shTLB && e.c.VerifCtrlStateC19().NumTLBAck == 0 {
				e.doneExpected++
				if e.doneSent+e.doneLost < e.doneExpected {
					e.doneLost++
					if !e.dropped {
						e.r.Count("cps.dropped-send")
					}
					e.dropped = true
				}
			}
		}
	}
}

func (e *c11shEnv) hookDma(ctx sim.HookCtx) {
	if ctx.Pos != sim.HookPosPortMsgSend {
		return
	}
	e.outDma++
	var addr uint64
	switch q := ctx.Item.(type) {
	case *protocol.MemCopyH2DReq:
		addr = q.DstAddress
	case *protocol.MemCopyD2HReq:
		addr = q.SrcAddress
	default:
		e.fail("C11.cps.dma-port-foreign-message", "a %T was sent to the DMA engine", ctx.Item)
		return
	}
	o, ok := e.byAddr[addr]
	e.r.Checked("cps.forward")
	if !ok {
		e.fail("C11.cps.copy-forward-payload", "a request with address %x that no driver request carries was sent to the DMA engine", addr)
		return
	}
	st := e.c.VerifCtrlStateC19()
	if st.NumCacheACK != 0 || e.cacheSent != e.cacheAcked {
		e.fail("C11.cps.copy-during-cache-acks", "copy request %d was forwarded to the DMA engine while numCacheACK = %d and %d of %d cache requests (flush or shootdown reset) were not acknowledged",
			o, st.NumCacheACK, e.cacheSent-e.cacheAcked, e.cacheSent)
	}
	e.fwdCount[o]++
	if e.fwdCount[o] > 1 {
		e.fail("C11.cps.copy-forwarded-twice", "copy request %d was forwarded to the DMA engine %d times", o, e.fwdCount[o])
	}
}

func (e *c11shEnv) hookDrv(ctx sim.HookCtx) {
	if ctx.Pos != sim.HookPosPortMsgSend {
		return
	}
	e.outDrv++
	switch rsp := ctx.Item.(type) {
	case *protocol.ShootDownCompleteRsp:
		e.r.Checked("cps.shootdown-complete")
		e.doneSent++
		if e.doneSent > e.shoots {
			e.fail("C11.cps.answered-twice", "%d ShootdownCompleteRsp for %d shootdown commands", e.doneSent, e.shoots)
		}
		if !e.mix {
			for cls := 0; cls < c11shN; cls++ {
				if e.clsSent[cls]-e.clsAcked[cls] > 1 { // the acknowledgement being processed is retrieved after the Send
					e.fail("C11.cps.shootdown-complete-early", "ShootdownCompleteRsp sent while %d requests to the %s are not acknowledged", e.clsSent[cls]-e.clsAcked[cls], c11shClsNames[cls])
				}
			}
			if e.cacheSent != e.cacheAcked {
				e.fail("C11.cps.shootdown-complete-early", "ShootdownCompleteRsp sent while %d cache requests are not acknowledged", e.cacheSent-e.cacheAcked)
			}
		}
	case *sim.GeneralRsp:
		e.r.Checked("cps.answer")
		o := -1
		for i, q := range e.reqs {
			if q == rsp.OriginalReq {
				o = i
			}
		}
		if o < 0 {
			e.fail("C11.cps.answer-wrong-request", "an answer whose OriginalReq is not a request of the driver was sent")
			return
		}
		e.rspCount[o]++
		if e.rspCount[o] > 1 {
			e.fail("C11.cps.answered-twice", "request %d (%s) was answered %d times", o, e.kinds[o], e.rspCount[o])
		}
		if e.kinds[o] == "f" {
			e.flushAnswered++
			if e.cacheSent != e.cacheAcked {
				e.fail("C11.cps.flush-acked-early", "flush request %d was answered while %d cache requests were not acknowledged", o, e.cacheSent-e.cacheAcked)
			}
		}
	default:
		e.fail("C11.cps.driver-port-foreign-message", "a %T was sent to the driver", ctx.Item)
	}
}

// ---- scenario ops

func (e *c11shEnv) deliverReq(kind string) string {
	id := len(e.reqs)
	var m sim.Msg
	switch kind {
	case "f":
		m = protocol.NewFlushReq(e.drv, e.c.ToDriver)
	case "h":
		m = protocol.NewMemCopyH2DReq(e.drv, e.c.ToDriver, []byte{1, 2, 3, 4}, uint64(id)*4096+8)
	default:
		m = protocol.NewMemCopyD2HReq(e.drv, e.c.ToDriver, uint64(id)*4096+8, make([]byte, 4))
	}
	if e.c.ToDriver.Deliver(m) != nil {
		return "full"
	}
	e.reqs = append(e.reqs, m)
	e.kinds = append(e.kinds, kind)
	e.fwdCount = append(e.fwdCount, 0)
	e.rspCount = append(e.rspCount, 0)
	if kind == "f" {
		e.nFlush++
	} else {
		e.byAddr[uint64(id)*4096+8] = id
	}
	e.noteOverlap()
	e.r.Count("cps.req." + kind)
	return "ok"
}

func (e *c11shEnv) deliverShoot() string {
	id := uint64(e.shoots)
	m := protocol.NewShootdownCommand(e.drv, e.c.ToDriver, []uint64{id*0x10000 + 0x1000, id*0x10000 + 0x2000}, vm.PID(id+1))
	if e.c.ToDriver.Deliver(m) != nil {
		return "full"
	}
	e.shoots++
	e.noteOverlap()
	e.r.Count("cps.req.s")
	return "ok"
}

func (e *c11shEnv) busy() int {
	n := 0
	for _, d := range e.disp {
		if d.Busy {
			n++
		}
	}
	return n
}

func (e *c11shEnv) startedNow() int {
	n := 0
	for _, d := range e.disp {
		n += len(d.Started)
	}
	return n
}

func (e *c11shEnv) sig() string {
	st := e.c.VerifCtrlStateC19()
	_, inv, _ := e.c.VerifLaunchStateC02()
	return fmt.Sprintf("%d,%d,%d,%d,%s,%s,%s,%d,%d", st.NumCUAck, st.NumAddrTranslationFlushAck, st.NumTLBAck, st.NumCacheACK,
		b01(st.ShootDownInProcess), b01(st.HasFlushRequest), b01(inv), e.busy(), e.startedNow())
}

func (e *c11shEnv) deliverLaunch() string {
	m := protocol.NewLaunchKernelReq(e.drv, e.c.ToDriver)
	if e.c.ToDriver.Deliver(m) != nil {
		return "full"
	}
	e.launches = append(e.launches, m)
	e.noteOverlap()
	e.r.Count("cps.req.k")
	return "ok"
}

// the j-th busy dispatcher finishes its kernel
func (e *c11shEnv) kernelDone(j int) string {
	var b []*cp.VerifDispatcherC02
	for _, d := range e.disp {
		if d.Busy {
			b = append(b, d)
		}
	}
	if len(b) == 0 {
		return "none"
	}
	b[j%len(b)].Busy = false
	return "ok"
}

func (e *c11shEnv) tick() string {
	before := e.c.VerifCtrlStateC19()
	doneBefore := e.doneSent
	p := false
	f := catch(func() { p = e.c.Tick() })
	if f != "" {
		switch {
		case strings.Contains(f, "never"):
			f = "never"
		case f == "nilderef":
		default:
			f = "cache_send"
		}
		e.fault = f
		return "fault:" + f
	}
	// an unchecked Send into a full buffer: the counter expects an acknowledgement that cannot come
	st := e.c.VerifCtrlStateC19()
	if st.NumCUAck != uint64(e.clsSent[c11shCU]-e.clsAcked[c11shCU]) ||
		st.NumAddrTranslationFlushAck != uint64(e.clsSent[c11shAT]-e.clsAcked[c11shAT]) ||
		st.NumTLBAck != uint64(e.clsSent[c11shTLB]-e.clsAcked[c11shTLB]) ||
		st.NumCacheACK != uint64(e.cacheSent-e.cacheAcked) {
		if !e.dropped {
			e.r.Count("cps.dropped-send")
		}
		e.dropped = true
	}
	if before.ShootDownInProcess && !st.ShootDownInProcess && e.doneSent == doneBefore {
		if !e.dropped {
			e.r.Count("cps.dropped-send")
		}
		e.dropped = true
	}
	if p {
		return "t1"
	}
	return "t0"
}

func (e *c11shEnv) do(op string) string {
	e.ops = append(e.ops, op)
	o := e.exec(strings.Fields(op))
	e.out = append(e.out, o)
	return o
}

func (e *c11shEnv) takeCls(cls, n int) string {
	var l []string
	for i := 0; i < n; i++ {
		m := e.port[cls].RetrieveOutgoing()
		if m == nil {
			break
		}
		e.outCls[cls]--
		ix, ok := e.compIx[cls][m.Meta().Dst]
		good := false
		switch q := m.(type) {
		case *protocol.CUPipelineFlushReq:
			good = cls == c11shCU
		case *mem.ControlMsg:
			good = cls == c11shAT && q.DiscardTransations && !q.Restart
		case *tlb.FlushReq:
			good = cls == c11shTLB
		}
		if !ok || !good {
			l = append(l, "?")
			continue
		}
		e.pend[cls] = append(e.pend[cls], m)
		l = append(l, strconv.Itoa(ix))
	}
	return c11shTake[cls] + "[" + strings.Join(l, ",") + "]"
}

func (e *c11shEnv) ackCls(cls, j int) string {
	p := e.pend[cls]
	if len(p) == 0 {
		return "none"
	}
	j %= len(p)
	q := p[j]
	src, dst := q.Meta().Dst, e.port[cls].AsRemote()
	var m sim.Msg
	switch cls {
	case c11shCU:
		m = protocol.CUPipelineFlushRspBuilder{}.WithSrc(src).WithDst(dst).Build()
	case c11shAT:
		m = mem.ControlMsgBuilder{}.WithSrc(src).WithDst(dst).ToNotifyDone().Build()
	default:
		m = tlb.FlushRspBuilder{}.WithSrc(src).WithDst(dst).Build()
	}
	if e.port[cls].Deliver(m) != nil {
		return "full"
	}
	e.pend[cls] = append(p[:j:j], p[j+1:]...)
	return "ok"
}

func (e *c11shEnv) exec(t []string) string {
	n := 0
	if len(t) > 1 {
		n, _ = strconv.Atoi(t[1])
	}
	switch t[0] {
	case "f", "h", "d":
		return e.deliverReq(t[0])
	case "s":
		return e.deliverShoot()
	case "k":
		return e.deliverLaunch()
	case "kd":
		return e.kernelDone(n)
	case "F", "H", "D":
		k := 0
		for i := 0; i < n; i++ {
			if e.deliverReq(strings.ToLower(t[0])) == "ok" {
				k++
			}
		}
		return strconv.Itoa(k)
	case "t":
		return e.tick()
	case "T":
		var sb strings.Builder
		for i := 0; i < n; i++ {
			if e.fault != "" {
				sb.WriteString("!fault:" + e.fault)
				continue
			}
			switch o := e.tick(); o {
			case "t1":
				sb.WriteString("1")
			case "t0":
				sb.WriteString("0")
			default:
				sb.WriteString("!" + o)
			}
		}
		return sb.String()
	case "q":
		return e.sig()
	case "xd":
		var l []string
		for i := 0; i < n; i++ {
			m := e.c.ToDMA.RetrieveOutgoing()
			if m == nil {
				break
			}
			e.outDma--
			e.atDma = append(e.atDma, m)
			var addr uint64
			kind := "?"
			switch q := m.(type) {
			case *protocol.MemCopyH2DReq:
				addr, kind = q.DstAddress, "h"
			case *protocol.MemCopyD2HReq:
				addr, kind = q.SrcAddress, "d"
			}
			l = append(l, fmt.Sprintf("%s%d", kind, e.byAddr[addr]))
		}
		return "xd[" + strings.Join(l, ",") + "]"
	case "xc":
		var l []string
		for i := 0; i < n; i++ {
			m := e.c.ToCaches.RetrieveOutgoing()
			if m == nil {
				break
			}
			e.outCache--
			q, ok := m.(*cache.FlushReq)
			ix, ok2 := 0, false
			if ok {
				ix, ok2 = e.cacheIx[q.Dst]
			}
			switch {
			case !ok || !ok2:
				l = append(l, "?")
				continue
			case q.InvalidateAllCachelines && q.DiscardInflight && q.PauseAfterFlushing:
				l = append(l, "R"+strconv.Itoa(ix))
			case q.InvalidateAllCachelines && !q.DiscardInflight && !q.PauseAfterFlushing:
				l = append(l, "I"+strconv.Itoa(ix))
			case !q.InvalidateAllCachelines && !q.DiscardInflight && !q.PauseAfterFlushing:
				l = append(l, strconv.Itoa(ix))
			default:
				l = append(l, "?"+strconv.Itoa(ix))
			}
			e.atCaches = append(e.atCaches, q)
		}
		return "xc[" + strings.Join(l, ",") + "]"
	case "xr":
		var l []string
		for i := 0; i < n; i++ {
			m := e.c.ToDriver.RetrieveOutgoing()
			if m == nil {
				break
			}
			e.outDrv--
			s := "?"
			switch rsp := m.(type) {
			case *sim.GeneralRsp:
				for i, q := range e.reqs {
					if q == rsp.OriginalReq {
						s = e.kinds[i] + strconv.Itoa(i)
					}
				}
			case *protocol.ShootDownCompleteRsp:
				s = "S"
			}
			l = append(l, s)
		}
		return "xr[" + strings.Join(l, ",") + "]"
	case "a":
		if len(e.atCaches) == 0 {
			return "none"
		}
		j := n % len(e.atCaches)
		q := e.atCaches[j]
		rsp := cache.FlushRspBuilder{}.WithSrc(q.Dst).WithDst(e.c.ToCaches.AsRemote()).WithRspTo(q.ID).Build()
		if e.c.ToCaches.Deliver(rsp) != nil {
			return "full"
		}
		e.atCaches = append(e.atCaches[:j:j], e.atCaches[j+1:]...)
		return "ok"
	case "r":
		if len(e.atDma) == 0 {
			return "none"
		}
		j := n % len(e.atDma)
		q := e.atDma[j]
		rsp := sim.GeneralRspBuilder{}.WithSrc(e.dma.AsRemote()).WithDst(e.c.ToDMA.AsRemote()).WithOriginalReq(q).Build()
		if e.c.ToDMA.Deliver(rsp) != nil {
			return "full"
		}
		e.atDma = append(e.atDma[:j:j], e.atDma[j+1:]...)
		return "ok"
	case "xu":
		return e.takeCls(c11shCU, n)
	case "xa":
		return e.takeCls(c11shAT, n)
	case "xl":
		return e.takeCls(c11shTLB, n)
	case "au":
		return e.ackCls(c11shCU, n)
	case "aa":
		return e.ackCls(c11shAT, n)
	case "al":
		return e.ackCls(c11shTLB, n)
	}
	return "bad"
}

func (e *c11shEnv) outTotal() int {
	n := e.outDrv + e.outDma + e.outCache
	for _, k := range e.outCls {
		n += k
	}
	return n
}

func (e *c11shEnv) pendTotal() int {
	n := len(e.atDma) + len(e.atCaches)
	for _, p := range e.pend {
		n += len(p)
	}
	return n
}

// drain: every component takes everything, acknowledges everything it has taken (any order), the
// driver takes every answer, tick; until the CP reports no progress with nothing left anywhere.
func (e *c11shEnv) drain(rng *Rng) {
	for round := 0; round < 4*(len(e.reqs)+e.shoots)+60 && e.fault == ""; round++ {
		progress := false
		if e.outDma > 0 {
			e.do("xd 9999")
			progress = true
		}
		if e.outCache > 0 {
			e.do("xc 9999")
			progress = true
		}
		if e.outDrv > 0 {
			e.do("xr 9999")
			progress = true
		}
		for cls := 0; cls < c11shN; cls++ {
			if e.outCls[cls] > 0 {
				e.do(c11shTake[cls] + " 9999")
				progress = true
			}
		}
		for len(e.atCaches) > 0 {
			if e.do(fmt.Sprintf("a %d", rng.Intn(8))) != "ok" {
				break
			}
			progress = true
		}
		for len(e.atDma) > 0 {
			if e.do(fmt.Sprintf("r %d", rng.Intn(8))) != "ok" {
				break
			}
			progress = true
		}
		for cls := 0; cls < c11shN; cls++ {
			for len(e.pend[cls]) > 0 {
				if e.do(fmt.Sprintf("%s %d", c11shAck[cls], rng.Intn(4))) != "ok" {
					break
				}
				progress = true
			}
		}
		if e.busy() > 0 && e.c.ToDriver.PeekIncoming() != nil {
			e.do("kd 0") // a running kernel ends: a waiting launch request finds a dispatcher
			progress = true
		}
		o := e.do("t")
		if strings.HasPrefix(o, "fault") {
			break
		}
		if o == "t0" && (!progress || (e.outTotal() == 0 && e.pendTotal() == 0)) {
			break
		}
	}
}

// finish drains, records the correspondence case and evaluates the end-of-scenario oracles.
func (e *c11shEnv) finish(rng *Rng, name string) {
	e.drain(rng)
	if e.fault == "" {
		e.do("q")
	}
	e.r.Case(e.line(), strings.Join(e.out, " "))
	e.r.Count("cps.scenario")
	if e.overlap {
		e.r.Count("cps.overlap")
	}
	if e.mix {
		e.r.Count("cps.launch-in-shootdown")
	}
	const known = "C11.cps.launch-in-shootdown"
	// regression oracle of the REPAIRED finding C11-cp-launch-in-shootdown (no entry in known_findings any more)
	knownText := "a LaunchKernelReq and a ShootDownCommand were pending at the same time: processLaunchKernelReq must wait for shootDownInProcess (repair of C11-cp-launch-in-shootdown), otherwise the acknowledgements of its kernel-start L1 invalidation are counted in numCacheACK and end the shootdown's cache phase before it began"
	if e.fault != "" {
		e.r.Count("cps.fault." + e.fault)
		switch {
		case e.fault == "nilderef" && e.mix:
			e.fail(known, "%s: the CP panics with a nil dereference (processRegularCacheFlush with currFlushRequest == nil): %s; every request had been acknowledged honestly. Tokens: %s", name, knownText, strings.Join(e.out, " "))
		case e.fault == "cache_send" && e.cfg.ccache < 2*e.cfg.caches():
			// flushCache's / invalidateCache's panic(err): ToCaches cannot hold one request per cache
		default:
			e.fail("C11.cps.panic", "%s: the CP panicked (%s) under an honest environment (flush/shootdown overlap=%v, launch/shootdown overlap=%v)", name, e.fault, e.overlap, e.mix)
		}
		return
	}
	if e.dropped {
		return // an unchecked Send lost a message: the shootdown cannot finish, everything behind it waits
	}
	quiet := e.outTotal() == 0 && e.pendTotal() == 0 && e.c.ToDriver.PeekIncoming() == nil
	e.r.Checked("cps.all-answered")
	for i, n := range e.rspCount {
		if n == 1 {
			continue
		}
		st := e.sig()
		switch {
		case e.mix:
			e.fail(known, "%s: request %d (%s) was accepted by the driver port but got %d answers; %s; state [%s]", name, i, e.kinds[i], n, knownText, st)
		case e.kinds[i] == "f":
			e.fail("C11.cps.flush-lost", "%s: flush request %d was accepted by the driver port but got %d answers (a shootdown overlapped it: %v — since repair 0728adcb the flush waits for the shootdown and is answered afterwards); state [%s]", name, i, n, e.overlap, st)
		default:
			e.fail("C11.cps.copy-lost", "%s: copy request %d (%s) was accepted by the driver port but got %d answers (forwarded %d times); state [%s]", name, i, e.kinds[i], n, e.fwdCount[i], st)
		}
		break
	}
	e.r.Checked("cps.shootdown-answered")
	if e.doneSent != e.shoots {
		if e.mix {
			e.fail(known, "%s: %d shootdown commands accepted, %d ShootdownCompleteRsp sent; %s; state [%s]", name, e.shoots, e.doneSent, knownText, e.sig())
		} else {
			e.fail("C11.cps.shootdown-lost", "%s: %d shootdown commands accepted, %d ShootdownCompleteRsp sent (flush overlapped: %v); state [%s]", name, e.shoots, e.doneSent, e.overlap, e.sig())
		}
	}
	e.r.Checked("cps.kernels-started")
	if e.pendingLaunches() != 0 && !e.mix {
		e.fail("C11.cps.kernel-never-started", "%s: %d of %d kernel launch requests were never handed to a dispatcher although every invalidation was acknowledged and every running kernel ended; state [%s]", name, e.pendingLaunches(), len(e.launches), e.sig())
	}
	if !e.mix {
		e.r.Checked("cps.idle")
		if st := e.sig(); !strings.HasPrefix(st, "0,0,0,0,0,") || !quiet {
			e.fail("C11.cps.not-idle", "%s: everything was acknowledged and drained but the CP is not idle: state [%s] quiet=%v", name, st, quiet)
		}
	}
}

// ---- generators

func c11shRandCfg(rng *Rng) c11shCfg {
	g := c11shDefaultCfg()
	g.cu, g.at, g.tlb = rng.Range(1, 3), rng.Range(1, 3), rng.Range(1, 3)
	g.disp = rng.Pick(1, 1, 2)
	g.l1i, g.l1s, g.l1v, g.l2 = rng.Pick(0, 1, 1, 2), rng.Pick(0, 1, 1), rng.Pick(0, 1, 2), rng.Pick(0, 1, 1, 2)
	if g.caches() == 0 {
		g.l2 = 1
	}
	n := g.caches()
	switch rng.Intn(10) {
	case 0, 1, 2: // small buffers, every loop of unchecked Sends still fits
		g.cin = rng.Pick(2, 3, 8)
		g.cdrv = rng.Pick(1, 2, 3, 8)
		g.cdma = rng.Pick(1, 2, 3, 8)
		g.ccache = 2*n + rng.Pick(0, 1, 3)
		g.ccu = g.cu + rng.Pick(0, 1, 3)
		g.cat = g.at + rng.Pick(0, 1, 3)
		g.ctlb = g.tlb + rng.Pick(0, 1, 3)
	case 3: // buffers too small for a loop of unchecked Sends: messages are dropped
		g.cin = rng.Pick(2, 3, 8)
		g.cdrv = rng.Pick(1, 2, 8)
		g.cdma = rng.Pick(1, 2, 8)
		g.ccache = rng.Pick(n, n, n+1, 2*n-1)
		if g.ccache < 1 {
			g.ccache = 1
		}
		g.ccu = rng.Pick(1, g.cu, g.cu+1)
		g.cat = rng.Pick(1, g.at, g.at+1)
		g.ctlb = rng.Pick(1, g.tlb, g.tlb+1)
	}
	return g
}

// one random move of the environment
func (e *c11shEnv) step(rng *Rng, serial bool, pf, pc, ps, pk int) {
	x := rng.Intn(100)
	if pk > 0 && rng.Chance(pk) {
		// kernel launches: delivered only outside a shootdown when the scenario is serialised
		if rng.Chance(60) {
			if serial && e.pendingShoots() > 0 {
				e.do("t")
				return
			}
			e.do("k")
		} else {
			e.do(fmt.Sprintf("kd %d", rng.Intn(3)))
		}
		return
	}
	switch {
	case x < pf:
		if serial && e.pendingShoots() > 0 {
			e.do("t")
			return
		}
		e.do("f")
	case x < pf+pc:
		e.do(c11PickS(rng, "h", "d"))
	case x < pf+pc+ps:
		if serial && e.pendingFlushes() > 0 {
			e.do("t")
			return
		}
		e.do("s")
	case x < pf+pc+ps+25:
		e.do("t")
	case x < pf+pc+ps+29:
		e.do("q")
	default:
		// a useful move of some component, now and then one that finds nothing
		var useful []string
		if e.outDma > 0 {
			useful = append(useful, fmt.Sprintf("xd %d", rng.Pick(1, 1, 2, 9)))
		}
		if e.outCache > 0 {
			useful = append(useful, fmt.Sprintf("xc %d", rng.Pick(1, 2, 9)), fmt.Sprintf("xc %d", rng.Pick(1, 2, 9)))
		}
		if e.outDrv > 0 {
			useful = append(useful, fmt.Sprintf("xr %d", rng.Pick(1, 1, 2, 9)))
		}
		if len(e.atDma) > 0 {
			useful = append(useful, fmt.Sprintf("r %d", rng.Intn(6)))
		}
		if len(e.atCaches) > 0 {
			op := fmt.Sprintf("a %d", rng.Intn(6))
			useful = append(useful, op, op, op)
		}
		for cls := 0; cls < c11shN; cls++ {
			if e.outCls[cls] > 0 {
				op := fmt.Sprintf("%s %d", c11shTake[cls], rng.Pick(1, 2, 9))
				useful = append(useful, op, op)
			}
			if len(e.pend[cls]) > 0 {
				op := fmt.Sprintf("%s %d", c11shAck[cls], rng.Intn(4))
				useful = append(useful, op, op, op)
			}
		}
		if len(useful) == 0 || rng.Chance(6) {
			useful = append(useful, "t", fmt.Sprintf("xc %d", rng.Pick(1, 9)), fmt.Sprintf("a %d", rng.Intn(4)),
				fmt.Sprintf("%s %d", c11shAck[rng.Intn(c11shN)], rng.Intn(3)), fmt.Sprintf("%s %d", c11shTake[rng.Intn(c11shN)], rng.Pick(1, 9)))
		}
		e.do(useful[rng.Intn(len(useful))])
	}
}

func c11shScenario(r *Run, rng *Rng) {
	g := c11shRandCfg(rng)
	e := newC11shEnv(r, g)
	serial := rng.Chance(50) // the environment serialises the two users of numCacheACK
	if serial {
		r.Count("cps.serial")
	}
	pf, pc, ps := rng.Pick(4, 8, 14), rng.Pick(5, 10, 18), rng.Pick(3, 6, 10)
	pk := rng.Pick(0, 0, 6, 12)
	for s := rng.Range(15, 90); s > 0 && e.fault == ""; s-- {
		e.step(rng, serial, pf, pc, ps, pk)
	}
	name := "random scenario"
	if serial {
		name = "random serialised scenario"
	}
	e.finish(rng, name)
}

// c11shFixed: a fixed prefix, then the honest drain
func c11shFixed(r *Run, rng *Rng, g c11shCfg, name string, pre []string) *c11shEnv {
	e := newC11shEnv(r, g)
	for _, op := range pre {
		if e.fault != "" {
			break
		}
		e.do(op)
	}
	e.finish(rng, name)
	return e
}

func runC11Share(r *Run, rng *Rng, replay string) {
	n := 150
	if r.Tier == "thorough" {
		n = 4000
	}
	for i := 0; i < n; i++ {
		c11shScenario(r, rng)
	}
	g := c11shDefaultCfg()
	// the two variants of the REPAIRED finding C19-cp-flush-lost-in-shootdown (0728adcb; the witnesses of
	// cps_flush_answered_before_fix_refuted): now the flush waits for the shootdown / the shootdown for the
	// flush, everything is answered
	// (1) the flush request arrives while the shootdown waits for the compute units
	c11shFixed(r, rng, g, "flush delivered during the shootdown's CU phase", []string{"s", "t", "f", "t", "q"})
	// (2) the shootdown arrives while the flush waits for the caches
	c11shFixed(r, rng, g, "shootdown delivered while a flush is in progress, the caches answer the flush first",
		[]string{"f", "t", "s", "t", "q", "xc 4", "a 0", "a 0", "a 0", "a 0", "t", "t", "t", "t", "q", "xl 1", "al 0", "t", "xr 1", "q"})
	// the THIRD user of numCacheACK: the kernel-start invalidation of the L1S / L1V caches. Copies and a
	// flush behind the launch request wait for it; its last acknowledgement answers nothing
	c11shFixed(r, rng, g, "kernel launch on an idle GPU, a flush and a copy behind it",
		[]string{"k", "f", "h", "t", "q", "xc 9", "a 1", "t", "q", "a 0", "t", "q", "xr 9", "t", "q", "t", "q"})
	// a second kernel while the first is running starts without invalidation
	c11shFixed(r, rng, g, "second kernel while the first runs", []string{"k", "t", "xc 9", "a 0", "a 0", "t", "t", "q", "k", "t", "q", "kd 0", "t", "q"})
	// REPAIRED finding C11-cp-launch-in-shootdown: a launch request delivered during the shootdown's CU phase
	// (witness of cps_no_fault_full_before_fix_refuted: the old code issued the kernel-start invalidation into
	// the shootdown's counter — TLB flush and ShootdownCompleteRsp before the CUs, translators and caches were
	// flushed, then a nil dereference). Now the launch waits until the ShootdownCompleteRsp is out, then the
	// invalidation is issued and the kernel starts
	c11shFixed(r, rng, g, "kernel launch delivered during the shootdown's CU phase",
		[]string{"s", "t", "k", "t", "q", "xc 9", "a 0", "a 0", "t", "q", "t", "q", "xl 9", "al 0", "t", "q", "xu 9", "au 0", "t", "xa 9", "aa 0", "t", "q",
			"xc 9", "a 0", "a 0", "a 0", "a 0", "t", "t", "t", "t", "q", "xl 9", "al 0", "t", "q", "xr 9", "t", "xc 9", "a 1", "a 0", "t", "t", "q"})
	// serialised versions of the same requests: everything is answered
	c11shFixed(r, rng, g, "shootdown, then flush and copies", []string{"s", "h", "t", "xu 1", "au 0", "t", "xa 1", "aa 0", "t", "q",
		"xc 4", "a 3", "a 0", "a 1", "a 0", "T 4", "q", "xl 1", "al 0", "t", "xr 2", "f", "d", "t", "q"})
	c11shFixed(r, rng, g, "flush, then shootdown", []string{"f", "h", "t", "xc 4", "a 0", "a 0", "a 0", "a 0", "T 4", "xr 1", "s", "t", "q"})
	// the guard of processCacheFlushRsp: with shootDownInProcess the last cache acknowledgement is NOT held
	// back by a full ToDriver (one-entry ToDriver that still holds a copy's answer); the
	// ShootdownCompleteRsp then meets the full buffer and is lost (unchecked Send)
	g1 := g
	g1.cdrv = 1
	c11shFixed(r, rng, g1, "shootdown's last cache acknowledgement while ToDriver is full",
		[]string{"h", "t", "xd 1", "r 0", "t", "s", "t", "xu 1", "au 0", "t", "xa 1", "aa 0", "t", "q", "xc 9", "a 0", "a 0", "a 0", "a 0",
			"T 4", "q", "xl 1", "al 0", "t", "q", "xr 9"})
	// the same with the driver taking the copy's answer in time: the shootdown completes
	c11shFixed(r, rng, g1, "shootdown with a one-entry ToDriver, answers taken in time",
		[]string{"h", "t", "xd 1", "r 0", "t", "s", "t", "xu 1", "au 0", "t", "xa 1", "aa 0", "t", "xc 9", "a 0", "a 0", "a 0", "a 0",
			"T 4", "xr 1", "xl 1", "al 0", "t", "q", "xr 9", "f", "t", "xc 9", "a 1", "a 0", "a 0", "t", "a 0", "t", "t", "q"})
}
