package main

// Property C13 — loading a kernel yields exactly its code and metadata.
//
// Streams
//   shipped   every shipped .hsaco x every kernel symbol (+ the empty name): the
//             real loader vs the Lean model on the ELF view dumped with debug/elf,
//             and an oracle that reads the raw file bytes with its own offset table.
//   synth     ELF64 objects written by this harness from a spec (1..6 kernels,
//             V2/V3 headers / V5 descriptors / raw, non-zero section addresses,
//             shuffled symbol tables, header mimics at each validation stage,
//             metadata symbols present/absent, a few malformed shapes). Oracle =
//             the spec the object was written from; metamorphic oracle = symbol
//             order and neighbours do not matter.
//   unit      isV2V3Header / parseV2V3Header / parseV5KernelDescriptor /
//             newKernelCodeObjectFromEntireTextSection on byte strings.
//
// The loader ends the process with log.Fatal on several paths, so it always runs
// in a server child process (`harness child c13serve`); a dead child is the
// observable `fatal:<class>`.

import (
	"bufio"
	"bytes"
	"debug/elf"
	"encoding/binary"
	"encoding/hex"
	"fmt"
	"io"
	"os"
	"os/exec"
	"path/filepath"
	"sort"
	"strings"

	"github.com/sarchlab/mgpusim/v4/amd/insts"
)

func init() {
	register("C13", runC13)
	childFuncs["c13serve"] = c13serve
}

// ---------------------------------------------------------------- canonical result

func c13b01(b bool) byte {
	if b {
		return '1'
	}
	return '0'
}

func c13metaStr(m *insts.KernelCodeObjectMeta) string {
	if m == nil {
		return "meta=nil"
	}
	en := []byte{c13b01(m.EnableSgprPrivateSegmentBuffer), c13b01(m.EnableSgprDispatchPtr), c13b01(m.EnableSgprQueuePtr),
		c13b01(m.EnableSgprKernargSegmentPtr), c13b01(m.EnableSgprDispatchID), c13b01(m.EnableSgprFlatScratchInit),
		c13b01(m.EnableSgprPrivateSegmentSize), c13b01(m.EnableSgprGridWorkgroupCountX), c13b01(m.EnableSgprGridWorkgroupCountY),
		c13b01(m.EnableSgprGridWorkgroupCountZ)}
	return fmt.Sprintf("r1=%08x r2=%08x r3=%08x karg=%d lds=%d priv=%d entry=%d en=%s cv=%d.%d mk=%d mv=%d.%d.%d sgpr=%d vgpr=%d",
		m.ComputePgmRsrc1, m.ComputePgmRsrc2, m.ComputePgmRsrc3, m.KernargSegmentByteSize, m.GroupSegmentByteSize,
		m.PrivateSegmentByteSize, m.KernelCodeEntryByteOffset, en, m.CodeVersionMajor, m.CodeVersionMinor, m.MachineKind,
		m.MachineVersionMajor, m.MachineVersionMinor, m.MachineVersionStepping, m.WFSgprCount, m.WIVgprCount)
}

func c13canon(co *insts.KernelCodeObject) string {
	if co == nil {
		return "nil"
	}
	sym := "nil"
	if co.Symbol != nil {
		sym = fmt.Sprintf("n:%s,%x,%x,%d", co.Symbol.Name, co.Symbol.Value, co.Symbol.Size, int(co.Symbol.Section))
	}
	return fmt.Sprintf("ok v=%d sym=%s data=%d:%016x %s", int(co.Version), sym, len(co.Data), fnv(co.Data), c13metaStr(co.KernelCodeObjectMeta))
}

// ---------------------------------------------------------------- server child

func c13serve(args []string) {
	in := bufio.NewReaderSize(os.Stdin, 1<<20)
	out := bufio.NewWriter(os.Stdout)
	for {
		line, err := in.ReadString('\n')
		if len(line) == 0 && err != nil {
			return
		}
		line = strings.TrimRight(line, "\n")
		parts := strings.SplitN(line, "\t", 3)
		if len(parts) != 3 {
			fmt.Fprintln(out, "bad-request")
			out.Flush()
			continue
		}
		name := parts[2]
		var co *insts.KernelCodeObject
		var f string
		if parts[0] == "F" {
			f = catch(func() { co = insts.LoadKernelCodeObjectFromFS(parts[1], name) })
		} else {
			data, _ := hex.DecodeString(parts[1])
			f = catch(func() { co = insts.LoadKernelCodeObjectFromBytes(data, name) })
		}
		if f != "" {
			fmt.Fprintln(out, "fault:"+f)
		} else {
			fmt.Fprintln(out, c13canon(co))
		}
		out.Flush()
		if err != nil {
			return
		}
	}
}

type c13server struct {
	cmd    *exec.Cmd
	stdin  io.WriteCloser
	stdout *bufio.Reader
	stderr *bytes.Buffer
	spawns int
}

func (s *c13server) start() {
	s.cmd = exec.Command(os.Args[0], "child", "c13serve")
	s.cmd.Env = append(os.Environ(), "GOMEMLIMIT=2GiB")
	var err error
	s.stdin, err = s.cmd.StdinPipe()
	must(err)
	so, err := s.cmd.StdoutPipe()
	must(err)
	s.stdout = bufio.NewReaderSize(so, 1<<16)
	s.stderr = &bytes.Buffer{}
	s.cmd.Stderr = s.stderr
	must(s.cmd.Start())
	s.spawns++
}

func (s *c13server) stop() {
	if s.cmd != nil {
		s.stdin.Close()
		s.cmd.Wait()
		s.cmd = nil
	}
}

// query runs the real loader in the child; a dead child becomes fatal:<class>.
func (s *c13server) query(kind, payload, name string) string {
	if s.cmd == nil {
		s.start()
	}
	_, werr := io.WriteString(s.stdin, kind+"\t"+payload+"\t"+name+"\n")
	line, rerr := s.stdout.ReadString('\n')
	if werr == nil && rerr == nil {
		return strings.TrimRight(line, "\n")
	}
	s.stdin.Close()
	s.cmd.Wait()
	msg := s.stderr.String()
	code := s.cmd.ProcessState.ExitCode()
	s.cmd = nil
	cls := "other"
	switch {
	case strings.Contains(msg, ".text section not found"):
		cls = "notext"
	case strings.Contains(msg, "multiple kernels found"):
		cls = "multiple"
	case strings.Contains(msg, "not found in ELF file"):
		cls = "notfound"
	case strings.Contains(msg, "SHT_NOBITS") || strings.Contains(msg, "unexpected EOF") || strings.Contains(msg, "EOF"):
		cls = "textdata"
	}
	if code != 1 {
		return fmt.Sprintf("died:%d:%s", code, cls)
	}
	return "fatal:" + cls
}

// ---------------------------------------------------------------- ELF view

func c13nameOK(n string) bool { return !strings.ContainsAny(n, " ;\t\n\r") }

// c13view renders what debug/elf returns for the file: section names, addresses,
// data of the sections the loader reads (.text/.rodata), and the symbol table.
func c13view(ef *elf.File) (string, bool) {
	var sb strings.Builder
	syms, err := ef.Symbols()
	if err != nil {
		sb.WriteString("syms=0")
	} else {
		sb.WriteString("syms=1")
	}
	ok := true
	for _, s := range ef.Sections {
		ok = ok && c13nameOK(s.Name)
		d := "-"
		if s.Name == ".text" || s.Name == ".rodata" {
			data, _ := s.Data()
			if data == nil {
				d = "!"
			} else if len(data) == 0 {
				d = "e"
			} else {
				d = hexb(data)
			}
		}
		fmt.Fprintf(&sb, " ; S n:%s %x %s", s.Name, s.Addr, d)
	}
	for _, y := range syms {
		ok = ok && c13nameOK(y.Name)
		fmt.Fprintf(&sb, " ; Y n:%s %x %x %d", y.Name, y.Value, y.Size, int(y.Section))
	}
	return sb.String(), ok
}

// ---------------------------------------------------------------- independent metadata reading (oracle side)

type c13meta struct {
	r1, r2, r3             uint32
	karg                   uint64
	lds, priv              uint32
	entry                  uint64
	en                     [10]bool
	cvMaj, cvMin           uint32
	mk, mvMaj, mvMin, mvSt uint16
	sgpr, vgpr             uint16
}

func (m c13meta) String() string {
	en := make([]byte, 10)
	for i := range en {
		en[i] = c13b01(m.en[i])
	}
	return fmt.Sprintf("r1=%08x r2=%08x r3=%08x karg=%d lds=%d priv=%d entry=%d en=%s cv=%d.%d mk=%d mv=%d.%d.%d sgpr=%d vgpr=%d",
		m.r1, m.r2, m.r3, m.karg, m.lds, m.priv, m.entry, en, m.cvMaj, m.cvMin, m.mk, m.mvMaj, m.mvMin, m.mvSt, m.sgpr, m.vgpr)
}

// le reads n little-endian bytes at off with plain shifts (no encoding/binary).
func c13le(b []byte, off, n int) uint64 {
	var v uint64
	for i := n - 1; i >= 0; i-- {
		v = v<<8 | uint64(b[off+i])
	}
	return v
}

// amd_kernel_code_t field offsets (LLVM AMDGPUUsage, "Kernel Code Object V2/V3 header").
func c13oracleHeader(b []byte) c13meta {
	var m c13meta
	m.cvMaj = uint32(c13le(b, 0, 4))
	m.cvMin = uint32(c13le(b, 4, 4))
	m.mk = uint16(c13le(b, 8, 2))
	m.mvMaj = uint16(c13le(b, 10, 2))
	m.mvMin = uint16(c13le(b, 12, 2))
	m.mvSt = uint16(c13le(b, 14, 2))
	m.entry = c13le(b, 16, 8)
	m.r1 = uint32(c13le(b, 48, 4))
	m.r2 = uint32(c13le(b, 52, 4))
	fl := c13le(b, 56, 4)
	for i := 0; i < 10; i++ {
		m.en[i] = fl>>uint(i)&1 == 1
	}
	m.priv = uint32(c13le(b, 60, 4))
	m.lds = uint32(c13le(b, 64, 4))
	m.karg = c13le(b, 72, 8)
	m.sgpr = uint16(c13le(b, 84, 2))
	m.vgpr = uint16(c13le(b, 86, 2))
	return m
}

// genuine header: the five signature fields, checked bytewise.
func c13oracleIsHeader(b []byte) bool {
	if len(b) < 256 {
		return false
	}
	sig := b[0] == 1 && b[1] == 0 && b[2] == 0 && b[3] == 0 &&
		b[4] <= 2 && b[5] == 0 && b[6] == 0 && b[7] == 0 &&
		b[8] == 1 && b[9] == 0 &&
		b[10] >= 7 && b[10] <= 9 && b[11] == 0
	if !sig {
		return false
	}
	want := []byte{0, 1, 0, 0, 0, 0, 0, 0}
	return bytes.Equal(b[16:24], want)
}

// kernel descriptor as stored, read with the AMDGPU ABI layout
// (llvm amdhsa::kernel_descriptor_t: rsrc3 @44, rsrc1 @48, rsrc2 @52, properties @56)
type c13kdStored struct {
	lds, priv, karg uint32
	entry           uint64
	r3, r1, r2      uint32
	props           uint16
}

func c13readKd(b []byte) c13kdStored {
	return c13kdStored{lds: uint32(c13le(b, 0, 4)), priv: uint32(c13le(b, 4, 4)), karg: uint32(c13le(b, 8, 4)),
		entry: c13le(b, 16, 8), r3: uint32(c13le(b, 44, 4)), r1: uint32(c13le(b, 48, 4)), r2: uint32(c13le(b, 52, 4)),
		props: uint16(c13le(b, 56, 2))}
}

func c13readKdLoaderSlots(b []byte) c13kdStored {
	k := c13readKd(b)
	k.r3, k.r1, k.r2 = uint32(c13le(b, 40, 4)), uint32(c13le(b, 44, 4)), uint32(c13le(b, 48, 4))
	return k
}

func c13rsrcPart(x string) string {
	var o []string
	for _, t := range strings.Fields(x) {
		if strings.HasPrefix(t, "r1=") || strings.HasPrefix(t, "r2=") || strings.HasPrefix(t, "r3=") || strings.HasPrefix(t, "sgpr=") || strings.HasPrefix(t, "vgpr=") {
			o = append(o, t)
		}
	}
	return strings.Join(o, " ")
}

// c13sameButRsrc: two canonical results agree on everything except the fields that
// depend on the rsrc words (r1 r2 r3 sgpr vgpr).
func c13sameButRsrc(a, b string) bool {
	strip := func(x string) string {
		var o []string
		for _, t := range strings.Fields(x) {
			if strings.HasPrefix(t, "r1=") || strings.HasPrefix(t, "r2=") || strings.HasPrefix(t, "r3=") || strings.HasPrefix(t, "sgpr=") || strings.HasPrefix(t, "vgpr=") {
				continue
			}
			o = append(o, t)
		}
		return strings.Join(o, " ")
	}
	return strip(a) == strip(b)
}

// ... and what the loader documents it derives from it.
func (k c13kdStored) derived(sgprSyms, vgprSyms []uint64) c13meta {
	var m c13meta
	m.lds, m.priv, m.karg, m.entry, m.r3, m.r1 = k.lds, k.priv, uint64(k.karg), k.entry, k.r3, k.r1
	m.vgpr = uint16((k.r1&0x3f + 1) * 4)
	m.sgpr = uint16((k.r1>>6&0xf + 1) * 8)
	m.en[3] = k.karg > 0
	r2 := k.r2 & 0xfffffffe
	if k.karg > 0 {
		r2 = r2&^0x3e | 4
	}
	r2 |= 0x180
	if r2&0x1800 == 0 {
		r2 |= 0x800
	}
	m.r2 = r2
	for _, v := range sgprSyms {
		c := uint16(v) + 2
		c = (c + 7) / 8 * 8
		if c > m.sgpr {
			m.sgpr = c
		}
	}
	for _, v := range vgprSyms {
		c := uint16(v)
		c = (c + 3) / 4 * 4
		if c > m.vgpr {
			m.vgpr = c
		}
	}
	return m
}

// ---------------------------------------------------------------- ELF64 writer (spec side)

type c13sec struct {
	name   string
	typ    uint32
	flags  uint64
	addr   uint64
	data   []byte
	nobits bool
}

type c13sym struct {
	name  string
	info  byte
	shndx uint16
	value uint64
	size  uint64
}

type c13obj struct {
	secs     []c13sec // user sections; index i here is ELF section index i+1
	syms     []c13sym
	noSymtab bool
}

func c13writeELF(o *c13obj) []byte {
	type sh struct {
		name                     uint32
		typ                      uint32
		flags, addr, off, size   uint64
		link, info               uint32
		align, entsize           uint64
	}
	var shstr, str bytes.Buffer
	shstr.WriteByte(0)
	str.WriteByte(0)
	addName := func(b *bytes.Buffer, s string) uint32 {
		if s == "" {
			return 0
		}
		off := uint32(b.Len())
		b.WriteString(s)
		b.WriteByte(0)
		return off
	}
	body := make([]byte, 64)
	shs := []sh{{}}
	put := func(data []byte, align int) uint64 {
		for len(body)%align != 0 {
			body = append(body, 0)
		}
		off := uint64(len(body))
		body = append(body, data...)
		return off
	}
	for _, s := range o.secs {
		h := sh{name: addName(&shstr, s.name), typ: s.typ, flags: s.flags, addr: s.addr, align: 4}
		if s.nobits {
			h.typ = uint32(elf.SHT_NOBITS)
			h.off = uint64(len(body))
			h.size = uint64(len(s.data))
		} else {
			h.off = put(s.data, 4)
			h.size = uint64(len(s.data))
		}
		shs = append(shs, h)
	}
	if !o.noSymtab {
		symtab := make([]byte, 24)
		for _, y := range o.syms {
			e := make([]byte, 24)
			binary.LittleEndian.PutUint32(e[0:], addName(&str, y.name))
			e[4] = y.info
			binary.LittleEndian.PutUint16(e[6:], y.shndx)
			binary.LittleEndian.PutUint64(e[8:], y.value)
			binary.LittleEndian.PutUint64(e[16:], y.size)
			symtab = append(symtab, e...)
		}
		h := sh{name: addName(&shstr, ".symtab"), typ: uint32(elf.SHT_SYMTAB), align: 8, entsize: 24, link: uint32(len(shs) + 1), info: 1}
		h.off = put(symtab, 8)
		h.size = uint64(len(symtab))
		shs = append(shs, h)
		h = sh{name: addName(&shstr, ".strtab"), typ: uint32(elf.SHT_STRTAB), align: 1}
		h.off = put(str.Bytes(), 1)
		h.size = uint64(str.Len())
		shs = append(shs, h)
	}
	hn := addName(&shstr, ".shstrtab")
	h := sh{name: hn, typ: uint32(elf.SHT_STRTAB), align: 1}
	h.off = put(shstr.Bytes(), 1)
	h.size = uint64(shstr.Len())
	shs = append(shs, h)
	for len(body)%8 != 0 {
		body = append(body, 0)
	}
	shoff := uint64(len(body))
	for _, h := range shs {
		e := make([]byte, 64)
		binary.LittleEndian.PutUint32(e[0:], h.name)
		binary.LittleEndian.PutUint32(e[4:], h.typ)
		binary.LittleEndian.PutUint64(e[8:], h.flags)
		binary.LittleEndian.PutUint64(e[16:], h.addr)
		binary.LittleEndian.PutUint64(e[24:], h.off)
		binary.LittleEndian.PutUint64(e[32:], h.size)
		binary.LittleEndian.PutUint32(e[40:], h.link)
		binary.LittleEndian.PutUint32(e[44:], h.info)
		binary.LittleEndian.PutUint64(e[48:], h.align)
		binary.LittleEndian.PutUint64(e[56:], h.entsize)
		body = append(body, e...)
	}
	copy(body[0:], []byte{0x7f, 'E', 'L', 'F', 2, 1, 1, 64, 3})
	binary.LittleEndian.PutUint16(body[16:], 3)   // ET_DYN
	binary.LittleEndian.PutUint16(body[18:], 224) // EM_AMDGPU
	binary.LittleEndian.PutUint32(body[20:], 1)
	binary.LittleEndian.PutUint64(body[40:], shoff)
	binary.LittleEndian.PutUint16(body[52:], 64)
	binary.LittleEndian.PutUint16(body[58:], 64)
	binary.LittleEndian.PutUint16(body[60:], uint16(len(shs)))
	binary.LittleEndian.PutUint16(body[62:], uint16(len(shs)-1))
	return body
}

// ---------------------------------------------------------------- synthetic objects

const (
	c13KindV3 = iota // genuine 256-byte header + code, no descriptor
	c13KindV5        // descriptor in .rodata, raw code
	c13KindRaw       // neither: whole range is instructions
	c13KindMimic     // instruction bytes mimic a header up to a validation stage, no descriptor
	c13KindV5Mimic   // descriptor AND instruction bytes that form a complete header
)

type c13kern struct {
	name     string
	kind     int
	stage    int    // mimic: first failing validation stage (0..5); 6 = passes all
	blob     []byte // what lies at the symbol (header/mimic + code)
	textOff  int
	kd       []byte // 64 descriptor bytes (kinds V5*)
	kdOff    int
	sgprSyms []uint64
	vgprSyms []uint64
}

type c13spec struct {
	kerns     []c13kern
	textAddr  uint64
	roAddr    uint64
	text      []byte
	ro        []byte
	malformed string // "" or the malformation applied (spec oracle skipped unless handled)
}

func c13put(b []byte, off, n int, v uint64) {
	for i := 0; i < n; i++ {
		b[off+i] = byte(v >> (8 * uint(i)))
	}
}

func c13biased32(rng *Rng) uint32 {
	switch rng.Intn(6) {
	case 0:
		return 0
	case 1:
		return 0xffffffff
	case 2:
		return uint32(rng.Intn(300))
	case 3:
		return uint32(1) << uint(rng.Intn(32))
	}
	return uint32(rng.U64())
}

// c13header writes a 256-byte amd_kernel_code_t; stage = first signature field made
// invalid (6 = genuine).
func c13header(rng *Rng, stage int) []byte {
	h := rng.Bytes(256)
	c13put(h, 0, 4, 1)
	c13put(h, 4, 4, uint64(rng.Intn(3)))
	c13put(h, 8, 2, 1)
	c13put(h, 10, 2, uint64(7+rng.Intn(3)))
	c13put(h, 12, 2, uint64(rng.Intn(4)))
	c13put(h, 14, 2, uint64(rng.Intn(4)))
	c13put(h, 16, 8, 256)
	c13put(h, 48, 4, uint64(c13biased32(rng)))
	c13put(h, 52, 4, uint64(c13biased32(rng)))
	c13put(h, 56, 4, uint64(c13biased32(rng)))
	c13put(h, 60, 4, uint64(c13biased32(rng)))
	c13put(h, 64, 4, uint64(c13biased32(rng)))
	if rng.Chance(70) {
		c13put(h, 72, 8, uint64(rng.Intn(256)))
	}
	switch stage {
	case 0:
		c13put(h, 0, 4, uint64(rng.Pick(0, 2, 0x101, 0x01000001, 0x10001)))
	case 1:
		c13put(h, 4, 4, uint64(rng.Pick(3, 4, 0x100, 0x01000000, 0x10002)))
	case 2:
		c13put(h, 8, 2, uint64(rng.Pick(0, 2, 0x101, 0x100)))
	case 3:
		c13put(h, 10, 2, uint64(rng.Pick(0, 6, 10, 0x107, 0x0800, 11)))
	case 4:
		v := []uint64{0, 255, 257, 512, 0x100000100, 0x0100000000000100}
		c13put(h, 16, 8, v[rng.Intn(len(v))])
	}
	return h
}

func c13descriptor(rng *Rng) []byte {
	d := rng.Bytes(64)
	if rng.Chance(60) { // plausible
		c13put(d, 0, 4, uint64(rng.Pick(0, 0, 64, 4096, 65536)))
		c13put(d, 4, 4, uint64(rng.Pick(0, 0, 16, 256)))
		c13put(d, 8, 4, uint64(rng.Pick(0, 0, 8, 24, 280)))
		c13put(d, 12, 4, 0)
		c13put(d, 16, 8, uint64(rng.Pick(0, 256, 0x1000, 0x940)))
		c13put(d, 24, 16, 0)
	}
	if rng.Chance(25) {
		c13put(d, 8, 4, 0)
	}
	c13put(d, 44, 4, uint64(c13biased32(rng)))
	c13put(d, 48, 4, uint64(c13biased32(rng)))
	c13put(d, 52, 4, uint64(c13biased32(rng)))
	if rng.Chance(50) {
		c13put(d, 40, 4, 0) // reserved in the ABI
	}
	return d
}

func c13regSyms(rng *Rng) []uint64 {
	switch rng.Intn(10) {
	case 0, 1, 2:
		return nil
	case 3:
		return []uint64{uint64(rng.Intn(110)), uint64(rng.Intn(110))} // duplicate symbols: max wins
	case 4:
		return []uint64{uint64(rng.Pick(65527, 65528, 65529, 65533, 65534, 65535, 65536, 65538, 0x10000_0005))}
	}
	return []uint64{uint64(rng.Intn(260))}
}

var c13names = []string{"vecadd", "_Z6kernelPfS_i", "StencilKernel", "k", "a.b", "main", "kern_2", "vecadd2", "K", "q.kd", "x.num_vgpr", "fir", "relu"}

func c13genSpec(rng *Rng, nk int) *c13spec {
	sp := &c13spec{}
	sp.textAddr = []uint64{0, 0x1000, 0x1900, 0x2100, 0x7f0000001000, 0x100, 0xffff_ffff_0000_0000}[rng.Intn(7)]
	sp.roAddr = []uint64{0, 0x200, 0x6c0, 0x700, 0x7f0000000400, 0x40}[rng.Intn(6)]
	perm := rng.Perm(len(c13names))
	sp.text = rng.Bytes(rng.Pick(0, 0, 4, 64, 300))
	sp.ro = rng.Bytes(rng.Pick(0, 0, 64, 16, 200))
	for i := 0; i < nk; i++ {
		k := c13kern{name: c13names[perm[i]]}
		k.kind = rng.Pick(c13KindV3, c13KindV3, c13KindV5, c13KindV5, c13KindV5, c13KindRaw, c13KindMimic, c13KindMimic, c13KindV5Mimic)
		code := rng.Bytes(rng.Pick(4, 8, 60, 252, 256, 260, 300, 700, rng.Range(1, 600)))
		switch k.kind {
		case c13KindV3:
			k.stage = 6
			k.blob = append(c13header(rng, 6), code...)
			if rng.Chance(10) {
				k.blob = k.blob[:256] // header only, no instructions
			}
		case c13KindV5:
			k.blob = code
		case c13KindRaw:
			k.blob = code
		case c13KindMimic:
			k.stage = rng.Intn(6)
			k.blob = append(c13header(rng, k.stage), code...)
			if k.stage == 5 { // all fields right but shorter than a header
				k.blob = k.blob[:rng.Pick(24, 88, 255, 200)]
			}
		case c13KindV5Mimic:
			k.stage = 6
			k.blob = append(c13header(rng, 6), code...)
		}
		if k.kind == c13KindV5 || k.kind == c13KindV5Mimic {
			k.kd = c13descriptor(rng)
			sp.ro = append(sp.ro, rng.Bytes(rng.Pick(0, 0, 64, 8))...)
			k.kdOff = len(sp.ro)
			sp.ro = append(sp.ro, k.kd...)
		}
		if rng.Chance(70) {
			k.sgprSyms = c13regSyms(rng)
			k.vgprSyms = c13regSyms(rng)
		}
		k.textOff = len(sp.text)
		sp.text = append(sp.text, k.blob...)
		sp.text = append(sp.text, rng.Bytes(rng.Pick(0, 0, 4, 256, 12))...)
		sp.kerns = append(sp.kerns, k)
	}
	if rng.Chance(30) {
		sp.ro = append(sp.ro, rng.Bytes(rng.Pick(8, 64, 100))...)
	}
	return sp
}

// c13build lays the spec out as an ELF object. keep[i]=false drops kernel i and
// its companion symbols; extra adds unrelated symbols; symbol order is shuffled.
func c13build(rng *Rng, sp *c13spec, keep []bool, extra int, secOrder int) *c13obj {
	o := &c13obj{}
	text := c13sec{name: ".text", typ: 1, flags: 6, addr: sp.textAddr, data: sp.text}
	ro := c13sec{name: ".rodata", typ: 1, flags: 2, addr: sp.roAddr, data: sp.ro}
	note := c13sec{name: ".note", typ: 7, flags: 2, addr: 0x200, data: []byte("AMDGPU\x00\x00")}
	dat := c13sec{name: ".data", typ: 1, flags: 3, addr: 0x5000, data: make([]byte, 128)}
	switch secOrder % 4 {
	case 0:
		o.secs = []c13sec{note, ro, text, dat}
	case 1:
		o.secs = []c13sec{text, ro}
	case 2:
		o.secs = []c13sec{dat, text, note, ro}
	case 3:
		o.secs = []c13sec{ro, dat, text}
	}
	idx := func(n string) uint16 {
		for i, s := range o.secs {
			if s.name == n {
				return uint16(i + 1)
			}
		}
		return 0
	}
	ti, ri := idx(".text"), idx(".rodata")
	for i, k := range sp.kerns {
		if keep != nil && !keep[i] {
			continue
		}
		o.syms = append(o.syms, c13sym{name: k.name, info: 0x12, shndx: ti, value: sp.textAddr + uint64(k.textOff), size: uint64(len(k.blob))})
		if k.kd != nil {
			o.syms = append(o.syms, c13sym{name: k.name + ".kd", info: 0x11, shndx: ri, value: sp.roAddr + uint64(k.kdOff), size: 64})
		}
		for _, v := range k.sgprSyms {
			o.syms = append(o.syms, c13sym{name: k.name + ".numbered_sgpr", info: 0x10, shndx: 0xfff1, value: v})
		}
		for _, v := range k.vgprSyms {
			o.syms = append(o.syms, c13sym{name: k.name + ".num_vgpr", info: 0x10, shndx: 0xfff1, value: v})
		}
	}
	for i := 0; i < extra; i++ {
		n := fmt.Sprintf("extra%d", i)
		switch rng.Intn(6) {
		case 0: // another kernel-like function inside .text
			o.syms = append(o.syms, c13sym{name: n, info: 0x12, shndx: ti, value: sp.textAddr, size: uint64(rng.Intn(len(sp.text) + 1))})
		case 1:
			o.syms = append(o.syms, c13sym{name: n + ".kd", info: 0x11, shndx: ri, value: sp.roAddr, size: 64})
		case 2:
			o.syms = append(o.syms, c13sym{name: n + ".numbered_sgpr", info: 0x10, shndx: 0xfff1, value: 200})
		case 3:
			o.syms = append(o.syms, c13sym{name: "", info: 3, shndx: ti})
		case 4:
			o.syms = append(o.syms, c13sym{name: n, info: 0x10, shndx: 0, value: 0})
		case 5:
			o.syms = append(o.syms, c13sym{name: ".num_vgpr", info: 0x10, shndx: 0xfff1, value: 252})
		}
	}
	p := rng.Perm(len(o.syms))
	sh := make([]c13sym, len(o.syms))
	for i, j := range p {
		sh[i] = o.syms[j]
	}
	o.syms = sh
	return o
}

// expected result of loading kernel k of a (well-formed) spec, from the spec alone.
func c13expect(sp *c13spec, k *c13kern, shndx int, loaderSlots bool) string {
	var m c13meta
	var data []byte
	ver := 5
	switch k.kind {
	case c13KindV3:
		m = c13oracleHeader(k.blob)
		m.entry = 0
		data = k.blob[256:]
		ver = 3
	case c13KindV5, c13KindV5Mimic:
		st := c13readKd(k.kd)
		if loaderSlots {
			st = c13readKdLoaderSlots(k.kd)
		}
		m = st.derived(k.sgprSyms, k.vgprSyms)
		data = k.blob
	case c13KindRaw, c13KindMimic:
		data = k.blob
	}
	return fmt.Sprintf("ok v=%d sym=n:%s,%x,%x,%d data=%d:%016x %s", ver, k.name, sp.textAddr+uint64(k.textOff), len(k.blob), shndx, len(data), fnv(data), m)
}

// ---------------------------------------------------------------- the run

type c13env struct {
	r      *Run
	srv    *c13server
	layout int // synthetic instances of the descriptor-layout finding recorded so far
}

// layoutFail records a synthetic instance of the known descriptor-layout defect;
// only the first few are kept as failures (all are counted) so that the failure
// list keeps room for anything else.
func (e *c13env) layoutFail(cs, format string, a ...interface{}) {
	e.layout++
	if e.layout <= 25 {
		e.r.Failf("C13.v5-descriptor-layout", cs, format, a...)
	}
}

// loadCase runs one (object bytes, name) query on the real loader and records the
// correspondence case built from the debug/elf view of the same bytes.
func (e *c13env) loadCase(tag string, obj []byte, path, name string) (string, bool) {
	var ef *elf.File
	var err error
	ef, err = elf.NewFile(bytes.NewReader(obj))
	if err != nil {
		e.r.Count("elf-rejected")
		return "", false
	}
	view, ok := c13view(ef)
	if !ok || !c13nameOK(name) {
		e.r.Count("name-not-representable")
		return "", false
	}
	var res string
	if path != "" {
		res = e.srv.query("F", path, name)
	} else {
		res = e.srv.query("B", hexb(obj), name)
	}
	e.r.Case("c13 load n:"+name+" "+view, res)
	e.r.Count(tag)
	switch {
	case strings.HasPrefix(res, "ok v=3"):
		e.r.Count("outcome.v3-header-stripped")
	case strings.HasPrefix(res, "ok v=5"):
		e.r.Count("outcome.v5-or-raw")
	default:
		e.r.Count("outcome." + strings.SplitN(res, " ", 2)[0])
	}
	return res, true
}

func c13field(res, key string) string {
	for _, t := range strings.Fields(res) {
		if strings.HasPrefix(t, key+"=") {
			return t[len(key)+1:]
		}
	}
	return ""
}

func (e *c13env) shipped() {
	r := e.r
	var files []string
	filepath.Walk(filepath.Join(repoRoot(), "amd"), func(p string, info os.FileInfo, err error) error {
		if err == nil && !info.IsDir() && strings.HasSuffix(p, ".hsaco") {
			files = append(files, p)
		}
		return nil
	})
	sort.Strings(files)
	r.CountN("shipped.files", len(files))
	for _, p := range files {
		raw, err := os.ReadFile(p)
		if err != nil {
			continue
		}
		ef, err := elf.NewFile(bytes.NewReader(raw))
		if err != nil {
			r.Note("cannot parse %s: %v", p, err)
			continue
		}
		rel, _ := filepath.Rel(repoRoot(), p)
		syms, _ := ef.Symbols()
		byName := map[string][]elf.Symbol{}
		for _, s := range syms {
			byName[s.Name] = append(byName[s.Name], s)
		}
		secOf := func(s elf.Symbol) *elf.Section {
			if s.Section == elf.SHN_UNDEF || int(s.Section) >= len(ef.Sections) {
				return nil
			}
			return ef.Sections[s.Section]
		}
		var kernels []elf.Symbol
		for _, s := range syms {
			if sec := secOf(s); sec != nil && sec.Name == ".text" && s.Size > 0 {
				kernels = append(kernels, s)
				if elf.ST_TYPE(s.Info) != elf.STT_FUNC {
					r.Count("shipped.kernel-symbol-not-FUNC")
				}
			}
		}
		for _, k := range kernels {
			res, ok := e.loadCase("shipped.kernel", raw, p, k.Name)
			if !ok {
				continue
			}
			id := rel + ":" + k.Name
			r.Count("shipped.kernels")
			// independent reading straight from the file bytes
			sec := secOf(k)
			lo := sec.Offset + (k.Value - sec.Addr)
			if len(byName[k.Name]) != 1 || k.Value < sec.Addr || lo+k.Size > uint64(len(raw)) || k.Value+k.Size > sec.Addr+sec.Size {
				r.Failf("C13.shipped.illformed", id, "symbol not unique or outside its section")
				continue
			}
			blob := raw[lo : lo+k.Size]
			var kd []byte
			if ks := byName[k.Name+".kd"]; len(ks) > 0 {
				if ksec := secOf(ks[0]); len(ks) == 1 && ksec != nil && ks[0].Size == 64 && ks[0].Value >= ksec.Addr && ks[0].Value+64 <= ksec.Addr+ksec.Size && ksec.Type != elf.SHT_NOBITS {
					o := ksec.Offset + (ks[0].Value - ksec.Addr)
					kd = raw[o : o+64]
					if ksec.Name != ".rodata" {
						r.Failf("C13.shipped.kd-outside-rodata", id, "descriptor symbol lives in %s: the loader ignores it", ksec.Name)
					}
				} else {
					r.Failf("C13.shipped.illformed", id, "malformed .kd symbol")
					continue
				}
			}
			var want, altMeta string
			var m c13meta
			data := blob
			ver := 5
			vals := func(n string) (v []uint64) {
				for _, s := range byName[n] {
					v = append(v, s.Value)
				}
				return
			}
			if kd != nil {
				st := c13readKd(kd)
				m = st.derived(vals(k.Name+".numbered_sgpr"), vals(k.Name+".num_vgpr"))
				r.Count("shipped.kind.v5-descriptor")
				if c13oracleIsHeader(blob) {
					r.Count("shipped.kind.v5-descriptor-with-header-lookalike")
				}
				// the same bytes read through the slots the loader uses (rsrc3/1/2 at 40/44/48)
				sl := c13readKdLoaderSlots(kd)
				altMeta = sl.derived(vals(k.Name+".numbered_sgpr"), vals(k.Name+".num_vgpr")).String()
				// strict reading of the property: what is stored vs what a layout-correct
				// loader applying the documented rewriting would hand out
				r.Checked("shipped-v5-stored-vs-normalised")
				var diffs []string
				if m.r2 != st.r2 {
					diffs = append(diffs, fmt.Sprintf("rsrc2 stored %08x normalised %08x", st.r2, m.r2))
				}
				names := []string{"private_segment_buffer", "dispatch_ptr", "queue_ptr", "kernarg_segment_ptr", "dispatch_id", "flat_scratch_init", "private_segment_size"}
				for i, n := range names {
					if (st.props>>uint(i)&1 == 1) != m.en[i] {
						diffs = append(diffs, fmt.Sprintf("enable_sgpr_%s stored %d loaded %s", n, st.props>>uint(i)&1, string(c13b01(m.en[i]))))
					}
				}
				if st.entry != 0 && ks0(byName[k.Name+".kd"]).Value+st.entry != k.Value {
					diffs = append(diffs, fmt.Sprintf("entry offset %d does not lead from the descriptor to the kernel symbol", st.entry))
				}
				if len(diffs) > 0 {
					r.Count("shipped.v5-meta-normalised")
					r.Failf("C13.v5-stored-vs-normalised", id, "%s", strings.Join(diffs, "; "))
				}
				if st.entry != 0 {
					r.Count("shipped.v5-entry-offset-nonzero")
				}
			} else if c13oracleIsHeader(blob) {
				m = c13oracleHeader(blob)
				m.entry = 0
				data = blob[256:]
				ver = 3
				r.Count("shipped.kind.v3-header")
			} else {
				r.Count("shipped.kind.raw")
				r.Failf("C13.shipped.no-metadata", id, "kernel has neither a header nor a descriptor: loaded with all-zero metadata")
			}
			want = fmt.Sprintf("ok v=%d sym=n:%s,%x,%x,%d data=%d:%016x %s", ver, k.Name, k.Value, k.Size, int(k.Section), len(data), fnv(data), m)
			r.Checked("shipped-bytes-and-meta")
			if res != want {
				alt := fmt.Sprintf("ok v=%d sym=n:%s,%x,%x,%d data=%d:%016x %s", ver, k.Name, k.Value, k.Size, int(k.Section), len(data), fnv(data), altMeta)
				if altMeta != "" && res == alt {
					r.Count("shipped.v5-descriptor-layout")
					r.Failf("C13.v5-descriptor-layout", id, "rsrc words are read one slot early (rsrc3/1/2 taken from bytes 40/44/48, the ABI has them at 44/48/52): loader %s ; ABI reading %s", c13rsrcPart(res), c13rsrcPart(want))
				} else {
					r.Failf("C13.shipped.mismatch", id, "loader: %s  independent reading: %s", res, want)
				}
			}
		}
		// empty name
		if res, ok := e.loadCase("shipped.empty-name", raw, p, ""); ok {
			r.Checked("shipped-empty-name")
			switch {
			case len(kernels) > 1 && res != "fatal:multiple":
				r.Failf("C13.empty-name", rel, "%d kernels, got %s", len(kernels), res)
			case len(kernels) == 1 && c13field(res, "sym") != fmt.Sprintf("n:%s,%x,%x,%d", kernels[0].Name, kernels[0].Value, kernels[0].Size, int(kernels[0].Section)):
				r.Failf("C13.empty-name", rel, "single kernel %s, got %s", kernels[0].Name, res)
			}
		}
	}
}

func ks0(l []elf.Symbol) elf.Symbol {
	if len(l) == 0 {
		return elf.Symbol{}
	}
	return l[0]
}

func (e *c13env) synth(rng *Rng, n int) {
	r := e.r
	for it := 0; it < n; it++ {
		nk := rng.Range(1, 6)
		sp := c13genSpec(rng, nk)
		so := rng.Intn(4)
		o := c13build(rng, sp, nil, rng.Pick(0, 0, 1, 3), so)
		obj := c13writeELF(o)
		r.Count(fmt.Sprintf("synth.kernels=%d", nk))
		ti := 0
		for i, s := range o.secs {
			if s.name == ".text" {
				ti = i + 1
			}
		}
		base := make([]string, nk)
		for i := range sp.kerns {
			k := &sp.kerns[i]
			res, ok := e.loadCase("synth.kernel", obj, "", k.name)
			if !ok {
				continue
			}
			base[i] = res
			r.Count(fmt.Sprintf("synth.kind=%d", k.kind))
			if k.kind == c13KindMimic {
				r.Count(fmt.Sprintf("synth.mimic-stage=%d", k.stage))
			}
			want := c13expect(sp, k, ti, false)
			r.Checked("synth-bytes-and-meta")
			if res != want && res == c13expect(sp, k, ti, true) {
				r.Count("synth.v5-descriptor-layout")
				e.layoutFail(fmt.Sprintf("seed=%d it=%d kernel=%s", r.Seed, it, k.name),
					"rsrc words are read one slot early: loader %s ; ABI reading %s", c13rsrcPart(res), c13rsrcPart(want))
			} else if res != want {
				sig := "C13.synth.mismatch"
				if c13field(res, "data") != c13field(want, "data") {
					sig = "C13.synth.bytes"
					if k.kind == c13KindV5Mimic {
						sig = "C13.synth.v5-precedence"
					}
				}
				r.Failf(sig, fmt.Sprintf("seed=%d it=%d kernel=%s kind=%d stage=%d textAddr=%x", r.Seed, it, k.name, k.kind, k.stage, sp.textAddr),
					"loader: %s  spec: %s", res, want)
			}
		}
		// empty name
		if res, ok := e.loadCase("synth.empty-name", obj, "", ""); ok {
			nks := 0
			for _, y := range o.syms {
				if int(y.shndx) == ti && y.size > 0 {
					nks++
				}
			}
			r.Checked("synth-empty-name")
			if (nks > 1) != (res == "fatal:multiple") || (nks == 1 && nk == 1 && res != base[0]) {
				r.Failf("C13.empty-name", fmt.Sprintf("seed=%d it=%d", r.Seed, it), "%d kernel symbols, got %s", nks, res)
			}
		}
		// metamorphic: other symbol order, neighbours removed / added
		for rep := 0; rep < 2; rep++ {
			target := rng.Intn(nk)
			keep := make([]bool, nk)
			for i := range keep {
				keep[i] = i == target || rng.Bool()
			}
			o2 := c13build(rng, sp, keep, rng.Pick(0, 2, 5), so)
			res, ok := e.loadCase("synth.variant", c13writeELF(o2), "", sp.kerns[target].name)
			if !ok {
				continue
			}
			r.Checked("order-and-neighbours")
			if res != base[target] {
				r.Failf("C13.order-neighbours", fmt.Sprintf("seed=%d it=%d kernel=%s", r.Seed, it, sp.kerns[target].name),
					"original object: %s  reordered/thinned object: %s", base[target], res)
			}
		}
	}
}

// malformed / corner shapes: the observable is the outcome class; a light oracle
// checks the class where it is evident.
func (e *c13env) malformed(rng *Rng, n int) {
	r := e.r
	for it := 0; it < n; it++ {
		sp := c13genSpec(rng, rng.Range(1, 3))
		so := rng.Intn(4)
		o := c13build(rng, sp, nil, rng.Intn(2), so)
		k := sp.kerns[0]
		find := func(name string) *c13sym {
			for i := range o.syms {
				if o.syms[i].name == name {
					return &o.syms[i]
				}
			}
			return nil
		}
		secIdx := func(n string) int {
			for i, s := range o.secs {
				if s.name == n {
					return i
				}
			}
			return -1
		}
		kind := rng.Pick(0, 1, 2, 3, 4, 5, 6, 7, 8, 9, 10, 11, 11, 11, 12, 13, 14, 15)
		name := k.name
		want := ""
		switch kind {
		case 0:
			find(k.name).size = uint64(len(sp.text)-k.textOff) + uint64(rng.Pick(1, 4, 1000))
			want = "fault:bounds"
		case 1:
			if sp.textAddr == 0 {
				continue
			}
			find(k.name).value = sp.textAddr - uint64(rng.Pick(1, 4, 256))
			want = "fault:bounds"
		case 2:
			find(k.name).size = 0
			want = "fatal:notfound"
		case 3:
			name = "nosuchkernel"
			want = "fatal:notfound"
		case 4:
			o.secs[secIdx(".text")].name = ".txt"
			want = "fatal:notext"
		case 5:
			o.noSymtab = true
		case 6:
			if y := find(k.name + ".kd"); y != nil {
				y.size = uint64(rng.Pick(0, 32, 63, 65, 128))
			}
		case 7:
			if y := find(k.name + ".kd"); y != nil {
				y.shndx = uint16(rng.Pick(secIdx(".text")+1, 0, 0xfff1, 40))
			}
		case 8:
			if y := find(k.name + ".kd"); y != nil {
				y.value = sp.roAddr + uint64(len(sp.ro)) - uint64(rng.Pick(0, 1, 32, 63))
			}
		case 9:
			if y := find(k.name + ".kd"); y != nil {
				if sp.roAddr == 0 {
					continue
				}
				y.value = sp.roAddr - uint64(rng.Pick(1, 8, 63, 64, 65))
			}
		case 10: // duplicate kernel name: the first one in the table wins
			o.syms = append(o.syms, c13sym{name: k.name, info: 0x12, shndx: uint16(secIdx(".text") + 1), value: sp.textAddr, size: uint64(rng.Range(1, len(sp.text)))})
			p := rng.Perm(len(o.syms))
			sh := make([]c13sym, len(o.syms))
			for i, j := range p {
				sh[i] = o.syms[j]
			}
			o.syms = sh
		case 11: // duplicate descriptor symbol
			if y := find(k.name + ".kd"); y != nil {
				d := *y
				d.value = sp.roAddr
				d.size = uint64(rng.Pick(64, 64, 32))
				switch rng.Intn(3) {
				case 1: // first match lives outside .rodata: the search stops there
					d.shndx = uint16(secIdx(".text") + 1)
				case 2: // first match is out of range: the search stops there too
					d.value = sp.roAddr + uint64(len(sp.ro))
				}
				o.syms = append([]c13sym{d}, o.syms...)
			}
		case 12:
			o.secs[secIdx(".rodata")].nobits = true
		case 13:
			o.secs[secIdx(".text")].nobits = true
			want = "fatal:textdata"
		case 14: // a second .text section: symbols in it are sliced from the first
			o.secs = append(o.secs, c13sec{name: ".text", typ: 1, flags: 6, addr: sp.textAddr + 0x10, data: rng.Bytes(64)})
			o.syms = append(o.syms, c13sym{name: "second", info: 0x12, shndx: uint16(len(o.secs)), value: sp.textAddr + 0x10, size: 8})
			name = "second"
		case 15: // kernel symbol whose section index is out of range / special
			find(k.name).shndx = uint16(rng.Pick(0, 0xfff1, 60))
			want = "fatal:notfound"
		}
		r.Count(fmt.Sprintf("malformed.kind=%d", kind))
		res, ok := e.loadCase("malformed", c13writeELF(o), "", name)
		if !ok {
			continue
		}
		if want != "" {
			r.Checked("malformed-outcome-class")
			if res != want {
				r.Failf("C13.malformed-outcome", fmt.Sprintf("seed=%d it=%d kind=%d", r.Seed, it, kind), "expected %s got %s", want, res)
			}
		}
		if rng.Chance(30) {
			e.loadCase("malformed.empty-name", c13writeELF(o), "", "")
		}
	}
}

func (e *c13env) unit(rng *Rng, n int) {
	r := e.r
	for it := 0; it < n; it++ {
		// header-shaped strings at every validation stage and length
		stage := rng.Intn(7)
		b := c13header(rng, stage)
		b = append(b, rng.Bytes(rng.Pick(0, 0, 4, 44, 300))...)
		if rng.Chance(25) {
			b = b[:rng.Pick(0, 1, 4, 10, 23, 24, 88, 255, 256)]
		}
		if rng.Chance(5) {
			b = rng.Bytes(rng.Range(0, 300))
		}
		var is bool
		var co *insts.KernelCodeObject
		f := catch(func() {
			is = insts.VerifIsV2V3Header(b)
			co = insts.VerifNewKernelCodeObjectFromEntireTextSection(b)
		})
		ans := "fault:" + f
		if f == "" {
			ans = fmt.Sprintf("is=%c %s", c13b01(is), c13canon(co))
		}
		in := hexb(b)
		if in == "" {
			in = "e"
		}
		r.Case("c13 ent "+in, ans)
		r.Count(fmt.Sprintf("unit.ent.stage=%d", stage))
		r.Checked("unit-header")
		wantIs := c13oracleIsHeader(b)
		wantLen := len(b)
		if wantIs {
			wantLen -= 256
		}
		if f != "" || is != wantIs || len(co.Data) != wantLen || (wantIs && !bytes.Equal(co.Data, b[256:])) || (!wantIs && !bytes.Equal(co.Data, b)) {
			r.Failf("C13.unit.header-detect", in[:min(len(in), 64)], "stage=%d len=%d is=%v want=%v fault=%q", stage, len(b), is, wantIs, f)
		} else if wantIs {
			m := c13oracleHeader(b)
			m.entry = 0
			if c13metaStr(co.KernelCodeObjectMeta) != m.String() {
				r.Failf("C13.unit.header-fields", in[:176], "loader %s want %s", c13metaStr(co.KernelCodeObjectMeta), m)
			}
		}
		if len(b) >= 256 {
			var m *insts.KernelCodeObjectMeta
			catch(func() { m = insts.VerifParseV2V3Header(b) })
			r.Case("c13 hdr "+hexb(b[:256]), c13metaStr(m))
			r.Checked("unit-header-parse")
			if c13metaStr(m) != c13oracleHeader(b).String() {
				r.Failf("C13.unit.header-fields", in[:176], "loader %s want %s", c13metaStr(m), c13oracleHeader(b))
			}
		} else if len(b) > 0 {
			// shorter than a header: Go panics iff a read leaves the buffer (cap = len here)
			sb := append([]byte(nil), b...)
			sb = sb[:len(sb):len(sb)]
			var m *insts.KernelCodeObjectMeta
			f2 := catch(func() { m = insts.VerifParseV2V3Header(sb) })
			a2 := c13metaStr(m)
			if f2 != "" {
				a2 = "fault:" + f2
			}
			r.Case("c13 hdr "+hexb(sb), a2)
			r.Checked("unit-header-short")
			if (f2 != "") != (len(sb) < 88) {
				r.Failf("C13.unit.header-short", hexb(sb), "len=%d fault=%q", len(sb), f2)
			}
		}
		// descriptors
		d := c13descriptor(rng)
		if rng.Chance(8) {
			d = append([]byte(nil), d[:rng.Pick(0, 4, 12, 24, 44, 48, 51, 52, 55, 56, 60)]...)
			d = d[:len(d):len(d)]
		}
		var m *insts.KernelCodeObjectMeta
		f = catch(func() { m = insts.VerifParseV5KernelDescriptor(d) })
		ans = c13metaStr(m)
		if f != "" {
			ans = "fault:" + f
		}
		in = hexb(d)
		if in == "" {
			in = "e"
		}
		r.Case("c13 kd "+in, ans)
		r.Checked("unit-descriptor")
		if len(d) < 64 {
			if (f != "") != (len(d) < 56) {
				r.Failf("C13.unit.descriptor-short", in, "len=%d fault=%q", len(d), f)
			}
		} else if w := c13readKd(d).derived(nil, nil); ans != w.String() {
			if ans == c13readKdLoaderSlots(d).derived(nil, nil).String() {
				r.Count("unit.v5-descriptor-layout")
				e.layoutFail(in, "rsrc words are read one slot early: loader %s ; ABI reading %s", c13rsrcPart(ans), c13rsrcPart(w.String()))
			} else {
				r.Failf("C13.unit.descriptor-fields", in, "loader %s want %s", ans, w)
			}
		}
	}
}

func runC13(r *Run, rng *Rng, replay string) {
	thorough := r.Tier == "thorough"
	e := &c13env{r: r, srv: &c13server{}}
	defer e.srv.stop()
	e.shipped()
	ns, nm, nu := 220, 160, 1500
	if thorough {
		ns, nm, nu = 2500, 1200, 20000
	}
	e.synth(rng, ns)
	e.malformed(rng, nm)
	e.unit(rng, nu)
	r.CountN("child-process-spawns", e.srv.spawns)
}
