package main

// C02 (second deepening) — the static s_waitcnt placement check for programs WITH branches
// (lean/MgpuModel/C02Cfg.lean: a "may be in flight" dataflow analysis over the control-flow graph,
// proved sound in Props/C02Cfg.lean). This file repeats the analysis in Go, literally (same iteration
// order, same joins, same output), for every program the wavefront runner (c02_deep.go) generates and
// runs on the real compute unit:
//
//	c02 cfg base=<hex> prog=<i>/<i>/…   →   cfg=<ok|rej@K> succ=… in=…
//
// and evaluates the soundness theorem on the REAL code: a program the check accepts, run to completion on
// the real cu.ComputeUnit under a random schedule, must end with the emulator's registers, memory and
// instruction sequence (oracle C02.cfg-check-unsound). Rejected programs are only counted.

import (
	"fmt"
	"strings"
)

const (
	c02cSCC  = 200
	c02cEXEC = 201
	c02cVCC  = 202
	c02cLDS  = 5000
)

func c02cV(v uint64) int { return 1000 + int(v) }

type c02cInst struct {
	kind     string // alu branch vload vstore sload wait nop endpgm
	vm, lgkm uint64
	rd, wr   []int
}

// c02cCompile mirrors C02.Wf.compile: kinds and read / write lists (registers as groups: SGPR n, SCC,
// EXEC, VCC, the 64 lanes of VGPR v as one group, the LDS as one group — every list of the model is a
// union of such groups).
func c02cCompile(i c02dInst) c02cInst {
	s := func(x uint64) int { return int(x) }
	switch i.op {
	case "smov":
		return c02cInst{kind: "alu", wr: []int{s(i.a)}}
	case "sadd":
		return c02cInst{kind: "alu", rd: []int{s(i.b), s(i.c)}, wr: []int{s(i.a), c02cSCC}}
	case "scmp":
		return c02cInst{kind: "alu", rd: []int{s(i.a), s(i.b)}, wr: []int{c02cSCC}}
	case "sexec":
		return c02cInst{kind: "alu", wr: []int{c02cEXEC}}
	case "vmov":
		return c02cInst{kind: "alu", rd: []int{c02cEXEC, s(i.b)}, wr: []int{c02cV(i.a)}}
	case "vxor":
		return c02cInst{kind: "alu", rd: []int{c02cEXEC, s(i.b), c02cV(i.c)}, wr: []int{c02cV(i.a)}}
	case "fld":
		return c02cInst{kind: "vload", rd: []int{c02cEXEC, c02cV(i.b), c02cV(i.b + 1)}, wr: []int{c02cV(i.a)}}
	case "fst":
		return c02cInst{kind: "vstore", rd: []int{c02cEXEC, c02cV(i.a), c02cV(i.a + 1), c02cV(i.b)}}
	case "sld":
		return c02cInst{kind: "sload", rd: []int{s(i.b), s(i.b + 1)}, wr: []int{s(i.a)}}
	case "wait":
		return c02cInst{kind: "wait", vm: i.a, lgkm: i.b}
	case "nop":
		return c02cInst{kind: "nop"}
	case "br":
		return c02cInst{kind: "branch"}
	case "cbr":
		return c02cInst{kind: "branch", rd: []int{c02cSCC}}
	case "dsw":
		return c02cInst{kind: "alu", rd: []int{c02cEXEC, c02cV(i.a), c02cV(i.b)}, wr: []int{c02cLDS}}
	case "dsr":
		return c02cInst{kind: "alu", rd: []int{c02cEXEC, c02cV(i.b), c02cLDS}, wr: []int{c02cV(i.a)}}
	case "getpc":
		return c02cInst{kind: "alu", wr: []int{s(i.a), s(i.a + 1)}}
	case "svcc":
		return c02cInst{kind: "alu", wr: []int{c02cVCC}}
	case "vcmp":
		return c02cInst{kind: "alu", rd: []int{c02cEXEC, s(i.a), c02cV(i.b)}, wr: []int{c02cVCC}}
	case "vrfl":
		return c02cInst{kind: "alu", rd: []int{c02cEXEC, c02cV(i.b)}, wr: []int{s(i.a)}}
	case "cbrv":
		return c02cInst{kind: "branch", rd: []int{c02cVCC}}
	case "end":
		return c02cInst{kind: "endpgm"}
	}
	return c02cInst{kind: "nop"}
}

type c02cPair struct{ idx, y int }
type c02cA struct {
	pv []c02cPair
	ps []int
}

func (a c02cA) clone() c02cA {
	return c02cA{pv: append([]c02cPair(nil), a.pv...), ps: append([]int(nil), a.ps...)}
}

func (a c02cA) eq(b c02cA) bool {
	if len(a.pv) != len(b.pv) || len(a.ps) != len(b.ps) {
		return false
	}
	for k := range a.pv {
		if a.pv[k] != b.pv[k] {
			return false
		}
	}
	for k := range a.ps {
		if a.ps[k] != b.ps[k] {
			return false
		}
	}
	return true
}

type c02cGraph struct {
	code []c02cInst
	succ [][]int
}

func c02cDisj(a, b []int) bool {
	for _, x := range a {
		for _, y := range b {
			if x == y {
				return false
			}
		}
	}
	return true
}

func (g *c02cGraph) idxs(a c02cA) []int {
	var l []int
	for _, p := range a.pv {
		l = append(l, p.idx)
	}
	return append(l, a.ps...)
}

func (g *c02cGraph) regOK(a c02cA, i c02cInst) bool {
	for _, x := range g.idxs(a) {
		if x < 0 || x >= len(g.code) {
			continue
		}
		q := g.code[x]
		if (q.kind == "vload" || q.kind == "sload") && !c02cDisj(append(append([]int(nil), i.rd...), i.wr...), q.wr) {
			return false
		}
	}
	return true
}

func (g *c02cGraph) memOK(a c02cA, i c02cInst) bool {
	for _, x := range g.idxs(a) {
		if x < 0 || x >= len(g.code) {
			continue
		}
		if g.code[x].kind == "vstore" || i.kind == "vstore" { // one alias class: regions are all equal
			return false
		}
	}
	return true
}

func (g *c02cGraph) xfer(k int, a c02cA) (c02cA, bool) {
	if k < 0 || k >= len(g.code) {
		return c02cA{}, false
	}
	i := g.code[k]
	switch i.kind {
	case "wait":
		if i.lgkm == 0 {
			return c02cA{}, true
		}
		out := c02cA{ps: append([]int(nil), a.ps...)}
		for _, p := range a.pv {
			if uint64(p.y) < i.vm {
				out.pv = append(out.pv, p)
			}
		}
		return out, true
	case "endpgm":
		return c02cA{}, true
	case "nop":
		return a.clone(), true
	case "alu", "branch":
		if g.regOK(a, i) {
			return a.clone(), true
		}
		return c02cA{}, false
	case "vload", "vstore":
		if g.regOK(a, i) && g.memOK(a, i) {
			out := c02cA{ps: append([]int(nil), a.ps...)}
			for _, p := range a.pv {
				y := p.y + 1
				if p.y >= 64 {
					y = 64
				}
				out.pv = append(out.pv, c02cPair{p.idx, y})
			}
			out.pv = append(out.pv, c02cPair{k, 0})
			return out, true
		}
		return c02cA{}, false
	case "sload":
		if g.regOK(a, i) && g.memOK(a, i) {
			out := a.clone()
			out.ps = append(out.ps, k)
			return out, true
		}
		return c02cA{}, false
	}
	return c02cA{}, false
}

func c02cJoin(t, x c02cA) c02cA {
	t = t.clone()
	for _, p := range x.pv {
		found := false
		for k := range t.pv {
			if t.pv[k].idx == p.idx {
				found = true
				if p.y < t.pv[k].y {
					t.pv[k].y = p.y
				}
			}
		}
		if !found {
			t.pv = append(t.pv, p)
		}
	}
	for _, s := range x.ps {
		found := false
		for _, y := range t.ps {
			found = found || y == s
		}
		if !found {
			t.ps = append(t.ps, s)
		}
	}
	return t
}

func c02cLe(x, y c02cA) bool {
	for _, p := range x.pv {
		ok := false
		for _, q := range y.pv {
			ok = ok || (q.idx == p.idx && q.y <= p.y)
		}
		if !ok {
			return false
		}
	}
	for _, s := range x.ps {
		ok := false
		for _, t := range y.ps {
			ok = ok || t == s
		}
		if !ok {
			return false
		}
	}
	return true
}

// c02cAnalyse: the graph of the program (cgraph), the solver's in-states, the verdict line of `handleCfg`.
func c02cAnalyse(base uint64, prog []c02dInst) (ok bool, line string) {
	n := len(prog)
	g := &c02cGraph{}
	offs := make([]uint64, n)
	o := uint64(0)
	for k, i := range prog {
		offs[k] = o
		o += uint64(i.size())
		g.code = append(g.code, c02cCompile(i))
	}
	tgt := func(k int, off uint64) int {
		p := base + offs[k] + 4 // the PC behind the 4-byte branch
		var d uint64
		if off%65536 >= 32768 {
			d = p - (65536-off%65536)*4 // uint64 arithmetic wraps like `% PCM`
		} else {
			d = p + off%65536*4
		}
		for j := range prog {
			if base+offs[j] == d {
				return j
			}
		}
		return n
	}
	for k, i := range prog {
		switch i.op {
		case "end":
			g.succ = append(g.succ, nil)
		case "br":
			g.succ = append(g.succ, []int{tgt(k, i.a)})
		case "cbr", "cbrv":
			g.succ = append(g.succ, []int{k + 1, tgt(k, i.b)})
		default:
			g.succ = append(g.succ, []int{k + 1})
		}
	}
	A := make([]c02cA, n)
	for round := 0; round < 65*(n+1); round++ {
		changed := false
		for k := 0; k < n; k++ {
			out, pass := g.xfer(k, A[k])
			if !pass {
				continue
			}
			for _, j := range g.succ[k] {
				if j < n {
					nj := c02cJoin(A[j], out)
					if !nj.eq(A[j]) {
						changed = true
					}
					A[j] = nj
				}
			}
		}
		if !changed {
			break
		}
	}
	verdict := "ok"
	for k := 0; k < n; k++ {
		out, pass := g.xfer(k, A[k])
		good := pass
		if pass {
			for _, j := range g.succ[k] {
				good = good && j < n && c02cLe(out, A[j])
			}
		}
		if !good {
			verdict = fmt.Sprintf("rej@%d", k)
			break
		}
	}
	var ss, in []string
	for k := 0; k < n; k++ {
		var l []string
		for _, j := range g.succ[k] {
			l = append(l, fmt.Sprint(j))
		}
		ss = append(ss, fmt.Sprintf("%d:%s", k, strings.Join(l, ",")))
		in = append(in, fmt.Sprintf("%d/%d", len(A[k].pv), len(A[k].ps)))
	}
	return verdict == "ok", fmt.Sprintf("cfg=%s succ=%s in=%s", verdict, strings.Join(ss, ";"), strings.Join(in, ","))
}

// c02CfgCase is called by the wavefront runner for every program it has run to completion on both
// real sides: `same` = registers, memory and instruction sequence of the timing compute unit equal the
// emulator's; `raced` = a foreign write hit a loaded address (the property excludes it).
func c02CfgCase(r *Run, cs *c02dCase, line string, completed, same, raced bool, detail string) {
	ok, ans := c02cAnalyse(cs.base, cs.prog)
	r.Case(fmt.Sprintf("c02 cfg base=%x prog=%s", cs.base, cs.progText()), ans)
	hasBr := cs.nBranch > 0
	tag := "straight"
	if hasBr {
		tag = "branches"
	}
	if !ok {
		r.Count("cfg:rejected-" + tag)
		if completed && !same {
			r.Count("cfg:rejected-and-differs")
		}
		return
	}
	r.Count("cfg:accepted-" + tag)
	if !completed || raced {
		return
	}
	r.Checked("cfg-check-sound")
	if !same {
		r.Failf("C02.cfg-check-unsound", line, "the static CFG check accepts the program, yet the timing compute unit and the emulator differ: %s", detail)
	}
}
