package main

import (
	"fmt"
	"strings"
	"time"

	"github.com/sarchlab/akita/v4/mem/vm"
	"github.com/sarchlab/mgpusim/v4/amd/driver"
)

func init() { register("C12", runC12LModel) }

// Correspondence for the Lean model C12.L (the listener list of one command queue): sequential
// Subscribe / Unsubscribe / Enqueue / Dequeue / Wait calls on the real CommandQueue; after every call
// the buffered notifications of the listed listeners are read in LIST ORDER
// (VerifListenerTokens), so a removal that drops or reorders another listener shows up. `c12
// listeners ; ops` — s subscribe (ids 0,1,2,…), u:i unsubscribe listener i, e / d enqueue / dequeue
// a Noop, w:i Wait of listener i (under a wall-clock guard; a Wait expected to block is only ever
// the LAST call of a scenario: a goroutine left blocked in Wait would steal a later notification).
func c12LModelScenario(r *Run, rng *Rng) {
	d := driver.MakeBuilder().WithEngine(&fakeEngine{}).WithPageTable(vm.NewPageTable(12)).WithLog2PageSize(12).Build("Driver")
	q := d.CreateCommandQueue(d.Init())
	type lst struct {
		l     *driver.CommandQueueStatusListener
		id    int
		token bool
	}
	var live []*lst
	var ops, ans []string
	next, queued := 0, 0
	line := func() string { return "c12 listeners ; " + strings.Join(ops, " ") }
	obs := func(res string) {
		toks, caps := q.VerifListenerTokens()
		s := ""
		for i, t := range toks {
			if t > 0 {
				s += "1"
			} else {
				s += "0"
			}
			if caps[i] != 1 {
				r.Failf("C12.signal-capacity", line(), "listener signal has capacity %d", caps[i])
			}
		}
		if s == "" {
			s = "-"
		}
		ans = append(ans, res+"/"+s)
		// implementation-side oracle: the listed listeners are exactly the live ones
		r.Checked("lmodel.count")
		if len(toks) != len(live) {
			r.Failf("C12.listener.list-length", line(), "%d listeners are subscribed, the queue lists %d", len(live), len(toks))
		}
	}
	steps := rng.Range(4, 18)
	for s := 0; s < steps; s++ {
		x := rng.Intn(100)
		last := s == steps-1
		switch {
		case x < 28 || len(live) == 0:
			live = append(live, &lst{l: q.Subscribe(), id: next})
			next++
			ops = append(ops, "s")
			obs("ok")
		case x < 46:
			i := rng.Intn(len(live))
			ops = append(ops, fmt.Sprintf("u:%d", live[i].id))
			f := catch(func() { q.Unsubscribe(live[i].l) })
			if f != "" {
				r.Failf("C12.listener.unsubscribe-panic", line(), "Unsubscribe of live listener %d: %s", live[i].id, f)
				obs("fault:" + f)
				r.Case(line(), strings.Join(ans, " "))
				return
			}
			live = append(live[:i:i], live[i+1:]...)
			obs("ok")
		case x < 72:
			if queued > 0 && rng.Bool() {
				q.Dequeue()
				queued--
				ops = append(ops, "d")
			} else {
				q.Enqueue(&driver.NoopCommand{ID: fmt.Sprintf("n%d", s)})
				queued++
				ops = append(ops, "e")
			}
			for _, l := range live {
				l.token = true
			}
			obs("ok")
		default:
			var cand []*lst
			for _, l := range live {
				if l.token || last {
					cand = append(cand, l)
				}
			}
			if len(cand) == 0 {
				continue
			}
			l := cand[rng.Intn(len(cand))]
			ops = append(ops, fmt.Sprintf("w:%d", l.id))
			lim := 500 * time.Millisecond
			if !l.token {
				lim = 20 * time.Millisecond
			}
			r.Checked("lmodel.wait")
			if ok, _ := withTimeout(lim, l.l.Wait); ok {
				if !l.token {
					r.Failf("C12.listener.spurious-wakeup", line(), "Wait of listener %d returned although the queue has not changed since its last Wait", l.id)
				}
				l.token = false
				obs("ok")
			} else {
				if l.token {
					r.Failf("C12.listener.lost-wakeup", line(), "listener %d is subscribed, the queue changed, but its Wait does not return", l.id)
				}
				obs("hang")
				r.Case(line(), strings.Join(ans, " "))
				r.Count("lmodel.scenario")
				return
			}
		}
	}
	r.Case(line(), strings.Join(ans, " "))
	r.Count("lmodel.scenario")
}

func runC12LModel(r *Run, rng *Rng, replay string) {
	n := 120
	if r.Tier == "thorough" {
		n = 2500
	}
	for i := 0; i < n; i++ {
		c12LModelScenario(r, rng)
	}
}
