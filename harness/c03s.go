package main

import (
	"bufio"
	"bytes"
	"encoding/binary"
	"fmt"
	"io"
	"log"
	"os"
	"os/exec"
	"path/filepath"
	"sort"
	"strings"
)

// C03 (scalar part): every implemented SOP2/SOPK/SOP1/SOPC/SOPP opcode of BOTH real ALUs
// (emu.ALUImpl = GCN3, cdna3.ALU) is run through the real decoder on a real emu.Wavefront and
// the complete post-state delta is compared with
//   (a) the ISA specification in Lean          — case lines `c03 s <arch> …`      (oracle + stream)
//   (b) the handler TRANSLATED from the Go source — case lines `c03 s gen.<arch> …` (translator validation)

func init() { register("C03", runC03S) }

// c03sGenStream: emit the translator-validation lines
var c03sGenStream = true

type c03sOpc struct {
	arch   string
	format string
	op     uint32
	name   string
	dst64  bool
	src64  bool // src0 is 64 bits wide
	s1w64  bool // src1 is 64 bits wide (value, not register count)
}

type c03sCase struct {
	line string // without the arch token: "<hex> scc=… …"
	arch string
	name string
	impl string
	gen  bool     // also emit a gen.<arch> line
	dstK []string // architected destination cells
}

var c03sFormats = []struct {
	name string
	nOps uint32
}{{"sop2", 96}, {"sopk", 32}, {"sop1", 256}, {"sopc", 128}, {"sopp", 128}}

// operand kinds
const (
	kSGPR = iota
	kLit
	kInline
	kVCC  // vcc (64-bit op) / vcc_lo (32-bit op)
	kEXEC // exec / exec_lo
	kM0
	kFloat
)

type c03sOpnd struct {
	kind int
	val  uint64 // value for sgpr/lit/inline
	code uint32 // float code
}

type c03sState struct {
	scc        byte
	vcc, exec  uint64
	pc         uint64
	m0         uint32
	s8, s9     uint32
	dOld       uint32 // value of a SOPK destination
}

var c03sCorners32 = []uint64{0, 1, 2, 31, 32, 33, 63, 64, 0x7fffffff, 0x80000000, 0xffffffff, 0x55555555,
	0xaaaaaaaa, 0xfffffffe, 0x80000001, 0xffff, 0x10000}
var c03sCorners64 = []uint64{0, 1, 2, 31, 32, 33, 63, 64, 0x7fffffff, 0x80000000, 0xffffffff, 1 << 32, 1 << 63,
	^uint64(0), 0x5555555555555555, 0xaaaaaaaaaaaaaaaa, 0x7fffffffffffffff}
var c03sImm = []uint64{0, 1, 2, 5, 0x7fff, 0x8000, 0xffff, 0xfff0, 0x4000, 0xc000}

type c03sEnv struct {
	e        *aluEnv
	a, b, z  *archState
	cases    []c03sCase
	r        *Run
	faultsOK map[string]bool
}

func c03sNewState() *archState {
	return &archState{s: make([]byte, 0), v: make([]byte, 0), lds: make([]byte, 0), mem: map[uint64]byte{}}
}

func (c *c03sEnv) snapInto(st *archState) {
	e := c.e
	st.s = append(st.s[:0], e.wf.SRegFile...)
	st.v = append(st.v[:0], e.wf.VRegFile...)
	st.lds = append(st.lds[:0], e.lds...)
	for k := range st.mem {
		delete(st.mem, k)
	}
	for k, v := range e.mem.m {
		st.mem[k] = v
	}
	st.exec, st.vcc, st.scc, st.pc, st.m0 = e.wf.EXEC(), e.wf.VCC(), e.wf.SCC(), e.wf.PC(), e.wf.M0
}

func c03sInlineCode(v int64) uint32 {
	if v >= 0 {
		return uint32(128 + v)
	}
	return uint32(192 - v)
}

// encode builds the instruction bytes and the pre-state register assignment.
func (c *c03sEnv) build(o c03sOpc, s0, s1 c03sOpnd, dstCode uint32, imm uint32, st c03sState) (buf []byte, sregs map[int]uint32, ok bool) {
	sregs = map[int]uint32{}
	d := desc{format: o.format, op: o.op, f: map[string]uint32{}}
	put := func(field string, opd c03sOpnd, base int, w64 bool) bool {
		switch opd.kind {
		case kSGPR:
			d.f[field] = uint32(base)
			sregs[base] = uint32(opd.val)
			if w64 {
				sregs[base+1] = uint32(opd.val >> 32)
			}
		case kLit:
			if d.hasLit && d.literal != uint32(opd.val) {
				return false
			}
			d.f[field] = 255
			d.hasLit, d.literal = true, uint32(opd.val)
		case kInline:
			d.f[field] = c03sInlineCode(int64(opd.val))
		case kVCC:
			d.f[field] = 106
		case kEXEC:
			d.f[field] = 126
		case kM0:
			if w64 {
				return false
			}
			d.f[field] = 124
		case kFloat:
			if w64 {
				return false
			}
			d.f[field] = opd.code
		}
		return true
	}
	switch o.format {
	case "sop2":
		// the decoder gives every operand of a "64" SOP2 instruction two registers
		if !put("ssrc0", s0, 4, o.src64) || !put("ssrc1", s1, 6, o.src64 || o.dst64) {
			return nil, nil, false
		}
		d.f["sdst"] = dstCode
	case "sopc":
		if !put("ssrc0", s0, 4, false) || !put("ssrc1", s1, 6, false) {
			return nil, nil, false
		}
	case "sop1":
		if !put("ssrc0", s0, 4, o.src64) {
			return nil, nil, false
		}
		d.f["sdst"] = dstCode
	case "sopk":
		d.f["sdst"] = dstCode
		d.f["simm16"] = imm & 0xffff
	case "sopp":
		d.f["simm16"] = imm & 0xffff
	}
	if _, set := sregs[8]; !set {
		sregs[8] = st.s8
	}
	if _, set := sregs[9]; !set {
		sregs[9] = st.s9
	}
	if o.format == "sopk" && dstCode <= 101 {
		sregs[int(dstCode)] = st.dOld
	}
	return encodeDesc(d), sregs, true
}

func c03sDstCells(code uint32, w64 bool) []string {
	switch {
	case code <= 101:
		if w64 {
			return []string{fmt.Sprintf("s%d", code), fmt.Sprintf("s%d", code+1)}
		}
		return []string{fmt.Sprintf("s%d", code)}
	case code == 106 || code == 107:
		return []string{"vcc"}
	case code == 124:
		return []string{"m0"}
	case code == 126 || code == 127:
		return []string{"exec"}
	}
	return nil
}

// one runs one case on the real ALU and records it.
func (c *c03sEnv) one(o c03sOpc, s0, s1 c03sOpnd, dstCode uint32, imm uint32, st c03sState, gen bool) {
	buf, sregs, ok := c.build(o, s0, s1, dstCode, imm, st)
	if !ok {
		return
	}
	e := c.e
	inst, err := e.decodeFor(o.arch, buf)
	if err != nil {
		c.r.Failf("C03."+o.arch+"."+o.name+".decode", hexb(buf), "decoder rejects an instruction it accepted while probing: %v", err)
		return
	}
	e.restore(c.z)
	keys := make([]int, 0, len(sregs))
	for k, v := range sregs {
		e.setS(k, v)
		if v != 0 {
			keys = append(keys, k)
		}
	}
	sort.Ints(keys)
	e.wf.SetSCC(st.scc)
	e.wf.SetVCC(st.vcc)
	e.wf.SetEXEC(st.exec)
	e.wf.SetPC(st.pc)
	e.wf.M0 = st.m0
	c.snapInto(c.a)
	fault := e.run(o.arch, inst)
	c.snapInto(c.b)
	impl := delta(c.a, c.b)
	if fault != "" {
		impl = "fault:" + fault
	}
	var sb strings.Builder
	fmt.Fprintf(&sb, "%s scc=%d vcc=%x exec=%x pc=%x m0=%x s=", hexb(buf), st.scc, st.vcc, st.exec, st.pc, st.m0)
	if len(keys) == 0 {
		sb.WriteString("-")
	}
	for i, k := range keys {
		if i > 0 {
			sb.WriteByte(',')
		}
		fmt.Fprintf(&sb, "%d:%x", k, sregs[k])
	}
	var cells []string
	if o.format == "sop2" || o.format == "sop1" || o.format == "sopk" {
		cells = c03sDstCells(dstCode, o.dst64)
	}
	c.cases = append(c.cases, c03sCase{line: sb.String(), arch: o.arch, name: o.name, impl: impl, gen: gen, dstK: cells})
	c.r.Count("arch:" + o.arch)
	c.r.Count("format:" + o.format)
}

// probe enumerates the opcodes each ALU implements: the instruction must be in the decoder's
// table and the ALU's opcode switch must not fall into its "not implemented" default.
func (c *c03sEnv) probe() []c03sOpc {
	var out []c03sOpc
	for _, arch := range []string{"gcn3", "cdna3"} {
		for _, f := range c03sFormats {
			for op := uint32(0); op < f.nOps; op++ {
				d := desc{format: f.name, op: op, f: map[string]uint32{"ssrc0": 4, "ssrc1": 6, "sdst": 8, "simm16": 1}}
				buf := encodeDesc(d)
				inst, err := c.e.decodeFor(arch, buf)
				if err != nil || inst == nil || !strings.EqualFold(inst.FormatName, f.name) {
					continue
				}
				c.e.restore(c.z)
				fault := c.e.run(arch, inst)
				if strings.Contains(fault, "is_not_imp") {
					continue
				}
				o := c03sOpc{arch: arch, format: f.name, op: op, name: inst.InstName,
					dst64: inst.DSTWidth == 64, src64: inst.SRC0Width == 64, s1w64: inst.SRC1Width == 64}
				if f.name == "sop2" && strings.Contains(inst.InstName, "64") {
					o.dst64, o.src64 = true, true
				}
				out = append(out, o)
				c.r.Count("implemented-opcodes:" + arch)
			}
		}
	}
	return out
}

func (c *c03sEnv) randState(rng *Rng) c03sState {
	pick64 := func() uint64 {
		switch rng.Intn(4) {
		case 0:
			return c03sCorners64[rng.Intn(len(c03sCorners64))]
		case 1:
			return 0
		}
		return rng.U64()
	}
	st := c03sState{scc: byte(rng.Intn(2)), vcc: pick64(), exec: pick64(), m0: uint32(rng.U64()),
		s8: 0xdeadbeef, s9: 0xcafef00d, dOld: uint32(rng.U64())}
	switch rng.Intn(4) {
	case 0:
		st.pc = 0x1000
	case 1:
		st.pc = 0xfffffffffffffffc
	case 2:
		st.pc = 4
	default:
		st.pc = rng.U64() &^ 3
	}
	return st
}

func c03sRandVal(rng *Rng, w64 bool) uint64 {
	var v uint64
	switch rng.Intn(5) {
	case 0:
		if w64 {
			v = c03sCorners64[rng.Intn(len(c03sCorners64))]
		} else {
			v = c03sCorners32[rng.Intn(len(c03sCorners32))]
		}
	case 1:
		v = uint64(rng.Intn(70))
	case 2:
		v = uint64(rng.Intn(128))<<16 | uint64(rng.Intn(32)) // bit-field descriptors
	default:
		v = rng.U64()
	}
	if !w64 {
		v &= 0xffffffff
	}
	return v
}

func c03sRandOpnd(rng *Rng, w64 bool) c03sOpnd {
	switch x := rng.Intn(100); {
	case x < 50:
		return c03sOpnd{kind: kSGPR, val: c03sRandVal(rng, w64)}
	case x < 62:
		return c03sOpnd{kind: kLit, val: c03sRandVal(rng, false)}
	case x < 80:
		return c03sOpnd{kind: kInline, val: uint64(int64(rng.Intn(81) - 16))}
	case x < 86:
		return c03sOpnd{kind: kVCC}
	case x < 92:
		return c03sOpnd{kind: kEXEC}
	case x < 96:
		return c03sOpnd{kind: kM0}
	default:
		return c03sOpnd{kind: kFloat, code: uint32(240 + rng.Intn(9))}
	}
}

func (c *c03sEnv) genFor(o c03sOpc, rng *Rng, nRandom int) {
	base := c03sState{vcc: 0x8000000000000001, exec: 0xffff0000ffff0000, pc: 0x1000, m0: 0x12345678, s8: 0xdeadbeef, s9: 0xcafef00d}
	sg := func(v uint64) c03sOpnd { return c03sOpnd{kind: kSGPR, val: v} }
	corners := c03sCorners32
	if o.src64 {
		corners = c03sCorners64
	}
	c1 := c03sCorners32
	switch o.format {
	case "sop2", "sopc":
		// (A) full cross product of corner values x SCC
		for _, a := range corners {
			for _, b := range c1 {
				for scc := byte(0); scc < 2; scc++ {
					st := base
					st.scc = scc
					c.one(o, sg(a), sg(b), 8, 0, st, true)
				}
			}
		}
		if strings.Contains(o.name, "bfe") {
			for _, a := range corners {
				for _, off := range []uint64{0, 1, 4, 15, 16, 28, 31} {
					for _, w := range []uint64{0, 1, 4, 8, 16, 28, 31, 32, 33, 64, 127} {
						c.one(o, sg(a), sg(w<<16|off), 8, 0, base, true)
					}
				}
			}
		}
		// (B) operand kinds
		kinds := []c03sOpnd{sg(0xfffffff0), {kind: kLit, val: 0xfffffffe}, {kind: kLit, val: 7}, {kind: kInline, val: 3}, {kind: kInline, val: 64},
			{kind: kInline, val: uint64(0xffffffffffffffff)}, {kind: kInline, val: uint64(0xfffffffffffffff0)}, {kind: kInline, val: uint64(0xfffffffffffffffe)},
			{kind: kVCC}, {kind: kEXEC}, {kind: kM0}, {kind: kFloat, code: 242}, {kind: kFloat, code: 247}, sg(0xffffffff), sg(1)}
		for _, a := range kinds {
			for _, b := range kinds {
				for scc := byte(0); scc < 2; scc++ {
					st := base
					st.scc = scc
					st.vcc, st.exec, st.m0 = 0xfffffffe, 0x1ffffffff, 0xffffffff
					// 32-bit reads of vcc_lo return all 64 bits of VCC in the emulator (property C07):
					// keep those cases out of the translator-validation stream
					gen := o.src64 || (a.kind != kVCC && b.kind != kVCC)
					c.one(o, a, b, 8, 0, st, gen)
				}
			}
		}
		// (B') a 32-bit read of vcc_lo hands the handler all 64 bits of VCC (emulator register file,
		// property C07): 32-bit handlers must not let the upper half through
		if !o.src64 {
			for _, vcc := range []uint64{1 << 32, 0xffffffff00000000, 0x100000001, 0x8000000080000000} {
				for _, other := range []c03sOpnd{{kind: kVCC}, sg(0xffffffff), sg(0), sg(1)} {
					for scc := byte(0); scc < 2; scc++ {
						st := base
						st.scc, st.vcc = scc, vcc
						c.one(o, c03sOpnd{kind: kVCC}, other, 8, 0, st, false)
						c.one(o, other, c03sOpnd{kind: kVCC}, 8, 0, st, false)
					}
				}
			}
		}
		// (C) destination kinds
		if o.format == "sop2" {
			dsts := []uint32{4, 6, 106, 124}
			if o.dst64 {
				dsts = []uint32{4, 6, 106, 126}
			}
			for _, dc := range dsts {
				for _, a := range []uint64{0, 5, 0xffffffff, 0x80000000} {
					for _, b := range []uint64{0, 3, 0xffffffff} {
						st := base
						st.scc = byte((a + b) & 1)
						c.one(o, sg(a), sg(b), dc, 0, st, true)
					}
				}
			}
		}
	case "sop1":
		for _, a := range corners {
			for scc := byte(0); scc < 2; scc++ {
				for _, ex := range []uint64{0, 1, ^uint64(0), 0xffff0000ffff0000, 1 << 63} {
					for _, pc := range []uint64{0x1000, 0xfffffffffffffffc} {
						st := base
						st.scc, st.exec, st.pc = scc, ex, pc
						c.one(o, sg(a), c03sOpnd{}, 8, 0, st, true)
					}
				}
			}
		}
		kinds := []c03sOpnd{{kind: kLit, val: 0xfffffffe}, {kind: kInline, val: 3}, {kind: kInline, val: uint64(0xffffffffffffffff)},
			{kind: kInline, val: uint64(0xfffffffffffffff0)}, {kind: kVCC}, {kind: kEXEC}, {kind: kM0}, {kind: kFloat, code: 243}, {kind: kInline, val: 0}}
		dsts := []uint32{8, 4, 106, 124}
		if o.dst64 {
			dsts = []uint32{8, 4, 106, 126}
		}
		for _, a := range kinds {
			for _, dc := range dsts {
				for scc := byte(0); scc < 2; scc++ {
					st := base
					st.scc = scc
					st.vcc, st.m0 = 0xffffffff, 0
					c.one(o, a, c03sOpnd{}, dc, 0, st, o.src64 || a.kind != kVCC)
				}
			}
		}
	case "sopk":
		for _, d := range c03sCorners32 {
			for _, imm := range c03sImm {
				for scc := byte(0); scc < 2; scc++ {
					st := base
					st.scc, st.dOld = scc, uint32(d)
					c.one(o, c03sOpnd{}, c03sOpnd{}, 8, uint32(imm), st, true)
				}
			}
		}
		for _, d := range []uint64{0x10005, 0xffff0005, 5, 0xfffffff0, 0x0000fff0} {
			for _, imm := range []uint64{5, 0xfff0} {
				st := base
				st.scc, st.dOld = 1, uint32(d)
				c.one(o, c03sOpnd{}, c03sOpnd{}, 8, uint32(imm), st, true)
			}
		}
	case "sopp":
		for _, imm := range c03sImm {
			for scc := byte(0); scc < 2; scc++ {
				for _, vcc := range []uint64{0, 1, 1 << 63, 1 << 32} {
					for _, ex := range []uint64{0, 1, 1 << 63, 1 << 32} {
						for _, pc := range []uint64{0x1000, 4, 0xfffffffffffffffc, 0x100000000} {
							st := base
							st.scc, st.vcc, st.exec, st.pc = scc, vcc, ex, pc
							c.one(o, c03sOpnd{}, c03sOpnd{}, 0, uint32(imm), st, true)
						}
					}
				}
			}
		}
	}
	// (D) random states and operands
	for i := 0; i < nRandom; i++ {
		st := c.randState(rng)
		a := c03sRandOpnd(rng, o.src64)
		b := c03sRandOpnd(rng, o.src64)
		dc := uint32(8)
		if rng.Chance(15) {
			dc = uint32(rng.Pick(4, 6, 10, 106))
		}
		gen := o.src64 || (a.kind != kVCC && b.kind != kVCC)
		c.one(o, a, b, dc, uint32(rng.Intn(65536)), st, gen)
	}
}

func c03sDriverPath() string {
	if p := os.Getenv("VERIF_DRIVER"); p != "" {
		return p
	}
	exe, err := os.Executable()
	if err != nil {
		return ""
	}
	p := filepath.Join(filepath.Dir(exe), "..", "..", "lean", ".lake", "build", "bin", "drv_c03")
	if _, err := os.Stat(p); err != nil {
		return ""
	}
	return p
}

func c03sParseDelta(s string) map[string]string {
	m := map[string]string{}
	for _, t := range strings.Fields(s) {
		if t == "-" {
			continue
		}
		if i := strings.IndexByte(t, '='); i > 0 {
			m[t[:i]] = t[i+1:]
		} else {
			m[t] = ""
		}
	}
	return m
}

// aspect names what differs between the real post-state delta and the specified one.
func c03sAspect(cs c03sCase, impl, spec string) string {
	if strings.HasPrefix(impl, "fault:") {
		return "fault"
	}
	a, b := c03sParseDelta(impl), c03sParseDelta(spec)
	isDst := map[string]bool{}
	for _, k := range cs.dstK {
		isDst[k] = true
	}
	set := map[string]bool{}
	for _, m := range []map[string]string{a, b} {
		for k := range m {
			if a[k] == b[k] && func() bool { _, x := a[k]; _, y := b[k]; return x == y }() {
				continue
			}
			switch {
			case isDst[k]:
				set["dst"] = true
			case k == "scc" || k == "pc" || k == "exec":
				set[k] = true
			default:
				set["extra"] = true
			}
		}
	}
	var parts []string
	for _, k := range []string{"dst", "exec", "scc", "pc", "extra"} {
		if set[k] {
			parts = append(parts, k)
		}
	}
	if len(parts) == 0 {
		return "delta"
	}
	return strings.Join(parts, "+")
}

func runC03S(r *Run, rng *Rng, replay string) {
	c := &c03sEnv{e: newALUEnv(), a: c03sNewState(), b: c03sNewState(), r: r}
	c.e.reset()
	c.z = c.e.snapshot()
	log.SetOutput(io.Discard) // the ALUs log before they panic on an unimplemented opcode
	ops := c.probe()
	log.SetOutput(os.Stderr)
	nRandom := 150
	if r.Tier == "thorough" {
		nRandom = 10000
	}
	for _, o := range ops {
		c.genFor(o, rng, nRandom)
	}
	// the ISA specification's answers, from the Lean driver
	var in bytes.Buffer
	for _, cs := range c.cases {
		fmt.Fprintf(&in, "c03 s %s %s\n", cs.arch, cs.line)
	}
	var spec []string
	if drv := c03sDriverPath(); drv != "" {
		cmd := exec.Command(drv)
		cmd.Stdin = &in
		out, err := cmd.Output()
		if err != nil {
			r.Note("C03S: Lean driver failed (%v): the specification oracle did not run", err)
		} else {
			sc := bufio.NewScanner(bytes.NewReader(out))
			sc.Buffer(make([]byte, 1<<20), 1<<20)
			for sc.Scan() {
				spec = append(spec, sc.Text())
			}
		}
	} else {
		r.Note("C03S: Lean driver binary not found: the specification oracle did not run (the correspondence diff still compares both sides)")
	}
	perSig := map[string]int{}
	for i, cs := range c.cases {
		line := "c03 s " + cs.arch + " " + cs.line
		r.Case(line, cs.impl)
		if cs.gen && c03sGenStream {
			r.Case("c03 s gen."+cs.arch+" "+cs.line, cs.impl)
			r.Count("translator-validation")
		}
		if i < len(spec) {
			r.Checked("isa-spec-delta")
			if spec[i] != cs.impl {
				sig := "C03." + cs.arch + "." + cs.name + "." + c03sAspect(cs, cs.impl, spec[i])
				perSig[sig]++
				r.Count("spec-mismatch:" + sig)
				if perSig[sig] <= 3 {
					r.Failf(sig, line, "real %s ALU leaves {%s}, the ISA prescribes {%s}", cs.arch, cs.impl, spec[i])
				}
			}
		}
	}
	_ = binary.LittleEndian
}
