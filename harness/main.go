package main

import (
	"flag"
	"fmt"
	"os"
	"sort"
	"strconv"
)

// A property runner generates cases, executes them on the real code, records the
// canonical answers and evaluates the implementation-side oracles.
type propFunc func(r *Run, rng *Rng, replay string)

var registry = map[string][]propFunc{}

// register adds a runner for a property; several files may contribute runners to one
// property, they run in registration order into the same Run.
func register(name string, f propFunc) { registry[name] = append(registry[name], f) }

func main() {
	if len(os.Args) >= 2 && os.Args[1] == "child" {
		childMain(os.Args[2:])
		return
	}
	prop := flag.String("prop", "", "property id")
	tier := flag.String("tier", "quick", "quick|thorough")
	seed := flag.Uint64("seed", 1, "seed")
	out := flag.String("out", "", "output directory")
	replay := flag.String("replay", "", "replay file (ops to re-run)")
	flag.Parse()
	if s := os.Getenv("VERIF_SEED"); s != "" && !isFlagSet("seed") {
		if v, err := strconv.ParseUint(s, 10, 64); err == nil {
			*seed = v
		}
	}
	fs, ok := registry[*prop]
	if !ok {
		names := []string{}
		for k := range registry {
			names = append(names, k)
		}
		sort.Strings(names)
		fmt.Fprintf(os.Stderr, "unknown property %q; have %v\n", *prop, names)
		os.Exit(2)
	}
	if *out == "" {
		fmt.Fprintln(os.Stderr, "-out required")
		os.Exit(2)
	}
	r := NewRun(*prop, *tier, *seed, *out)
	for i, f := range fs {
		f(r, NewRng(*seed+uint64(i)*1000003), *replay)
	}
	r.Flush()
}

func isFlagSet(name string) bool {
	set := false
	flag.Visit(func(f *flag.Flag) {
		if f.Name == name {
			set = true
		}
	})
	return set
}

// childFuncs are entry points that run in a separate process (cases that may
// hang, call log.Fatal or os.Exit).
var childFuncs = map[string]func(args []string){}

func childMain(args []string) {
	if len(args) == 0 {
		os.Exit(2)
	}
	f, ok := childFuncs[args[0]]
	if !ok {
		fmt.Fprintf(os.Stderr, "unknown child %q\n", args[0])
		os.Exit(2)
	}
	f(args[1:])
}
