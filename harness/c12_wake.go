package main

import (
	"fmt"
	"strings"

	"github.com/sarchlab/akita/v4/mem/vm"
	"github.com/sarchlab/akita/v4/sim"
	"github.com/sarchlab/mgpusim/v4/amd/driver"
	"github.com/sarchlab/mgpusim/v4/amd/kernels"
	"github.com/sarchlab/mgpusim/v4/amd/protocol"
)

func init() { register("C12", runC12Wake) }

// "Waiting always terminates" also depends on the driver honouring Akita's sleep/wake rule: a
// ticking component is ticked again only while its Tick reports progress; once asleep it is woken
// only by a delivery into an EMPTY incoming buffer (or an outgoing buffer leaving the full state).
// A tick that reports no progress while a message is still waiting in its incoming buffer is a lost
// wake-up: nobody will ever tick the driver again and the command queue never drains.
// Scenario: a unified multi-GPU kernel (one request per member GPU); the members' responses reach
// the driver's port in chosen groups (several in the same cycle, or one by one).
func c12WakeScenario(r *Run, rng *Rng) {
	n := rng.Range(2, 4)
	d := driver.MakeBuilder().WithEngine(&fakeEngine{}).WithPageTable(vm.NewPageTable(12)).WithLog2PageSize(12).Build("Driver")
	gpuPort := d.GetPortByName("GPU")
	(&fakeConn{name: "c"}).PlugIn(gpuPort)
	var cps []sim.Port
	ids := []int{}
	for i := 0; i < n; i++ {
		cp := sim.NewPort(nil, 16, 16, fmt.Sprintf("FakeGPU%d.ToDriver", i+1))
		cps = append(cps, cp)
		d.RegisterGPU(cp, driver.DeviceProperties{CUCount: 4, DRAMSize: 1 << 28})
		ids = append(ids, i+1)
	}
	ctx := d.Init()
	uni := d.CreateUnifiedGPU(ctx, ids)
	d.SelectGPU(ctx, uni)
	q := d.CreateCommandQueue(ctx)
	ncmd := rng.Range(1, 3)
	desc := []string{fmt.Sprintf("unified launch on %d GPUs, %d commands", n, ncmd)}
	// Akita's rule
	runWhileProgress := func() int {
		k := 0
		for k < 10000 && d.Tick() {
			k++
		}
		return k
	}
	var outstanding []*protocol.LaunchKernelReq
	drainOut := func() {
		for {
			m := gpuPort.RetrieveOutgoing()
			if m == nil {
				return
			}
			if lk, ok := m.(*protocol.LaunchKernelReq); ok {
				outstanding = append(outstanding, lk)
			}
		}
	}
	for c := 0; c < ncmd; c++ {
		cmd := &driver.LaunchUnifiedMultiGPUKernelCommand{ID: sim.GetIDGenerator().Generate()}
		for i := 0; i < n; i++ {
			p := kernels.HsaKernelDispatchPacket{GridSizeX: uint32(64 * 4 * n * rng.Range(1, 3)), GridSizeY: 1, GridSizeZ: 1,
				WorkgroupSizeX: 64, WorkgroupSizeY: 1, WorkgroupSizeZ: 1}
			cmd.PacketArray = append(cmd.PacketArray, &p)
			cmd.DPacketArray = append(cmd.DPacketArray, driver.Ptr(0))
		}
		d.Enqueue(q, cmd) // the enqueue wakes the driver (runAsync → TickLater)
	}
	for round := 0; round < 50 && q.NumCommand() > 0; round++ {
		runWhileProgress()
		drainOut()
		runWhileProgress()
		if len(outstanding) == 0 {
			break
		}
		// deliver a group of responses within ONE cycle (no tick in between): only the first
		// delivery, into an empty buffer, wakes the driver
		g := rng.Pick(1, 2, len(outstanding), len(outstanding))
		if g > len(outstanding) {
			g = len(outstanding)
		}
		perm := rng.Perm(len(outstanding))
		var rest []*protocol.LaunchKernelReq
		picked := map[int]bool{}
		for _, j := range perm[:g] {
			picked[j] = true
		}
		woke := false
		for j, lk := range outstanding {
			if !picked[j] {
				rest = append(rest, lk)
				continue
			}
			wasEmpty := gpuPort.PeekIncoming() == nil
			rsp := protocol.NewLaunchKernelRsp(cps[0].AsRemote(), gpuPort.AsRemote(), lk.ID)
			if gpuPort.Deliver(rsp) != nil {
				rest = append(rest, lk)
				continue
			}
			if wasEmpty {
				woke = true
			}
		}
		outstanding = rest
		desc = append(desc, fmt.Sprintf("deliver %d responses in one cycle", g))
		if woke {
			runWhileProgress()
		}
		// the property: asleep (last tick made no progress) with input waiting = lost wake-up
		r.Checked("wake")
		if gpuPort.PeekIncoming() != nil {
			r.Failf("C12.driver.asleep-with-input", strings.Join(desc, "; "),
				"Driver.Tick reported no progress while a message is waiting in its GPU port: it will never be ticked again, %d command(s) stay queued", q.NumCommand())
			return
		}
	}
	r.Checked("wake-drained")
	if q.NumCommand() != 0 {
		r.Failf("C12.driver.queue-not-drained", strings.Join(desc, "; "), "every kernel response was delivered and the driver is asleep, but %d command(s) are still queued", q.NumCommand())
	}
	r.Count("wake.scenario")
}

func runC12Wake(r *Run, rng *Rng, replay string) {
	n := 60
	if r.Tier == "thorough" {
		n = 2000
	}
	for i := 0; i < n; i++ {
		c12WakeScenario(r, rng)
	}
}
