package main

// Property C06, second deepening — correspondence and witness replays for what sits AROUND the translated
// lane bodies:
//
//   c06 sdwa    <arch> <handler> i=<lane> …   one iteration of a handler under emu.NewSDWAState: real SDWA
//                                             encodings of every translated VOP2 opcode, all six byte / word
//                                             selects and the three DST_UNUSED modes, EXEC = one lane; the
//                                             operand values on the line are the RAW register values, the
//                                             Lean side applies `LaneHandler.sdwaWrap`
//   c06 sdwarun <arch> <handler> exec=…       the whole SDWA instruction under a random EXEC against `vop2Run`
//   c06 rfl     <arch> exec=… k=<v|u> s0=…    v_readfirstlane_b32 against `goReadFirstLane`
//   witnesses:  `perm_mem_needs_disjoint` (two lanes storing to one LDS address, swapped) and
//               `src2_mask_needs_uniform` (v_cndmask_b32_e64 with a VGPR in the mask position, lanes swapped)
//               are replayed on the real ALUs; the same runs go to the Lean model as `c06 vexec dswrite` /
//               `c06 gorun` case lines.
//
// Oracles of this file (implementation side, independent of the model):
//   C06.sdwa.inactive-lane-changed   an SDWA instruction changed the row of a lane whose EXEC bit is clear
//   C06.sdwa.lane-dependence         lane i's result of an SDWA instruction depends on another lane
//   C06.readfirstlane.wrong-lane     v_readfirstlane_b32 did not deliver the first active lane's register
//   C06.readfirstlane.vgpr-changed   v_readfirstlane_b32 changed a vector register

import (
	"encoding/binary"
	"fmt"
	"io"
	"log"
	"sort"
	"strings"

	"github.com/sarchlab/mgpusim/v4/amd/emu"
	"github.com/sarchlab/mgpusim/v4/amd/emu/cdna3"
	"github.com/sarchlab/mgpusim/v4/amd/insts"
)

func init() { register("C06", runC06Sdwa) }

func (c *c06env) c06sdwaLine(kind string, ci *c06inst, rest string) string {
	inst := ci.inst
	return fmt.Sprintf("c06 %s %s %s %s sdwa=%d clamp=%d abs=%x neg=%x omod=%x s0sel=%x s1sel=%x dsel=%x dun=%x",
		kind, ci.arch, ci.handler, rest, c06b2i(inst.IsSdwa), c06b2i(inst.Clamp), uint64(inst.Abs), uint64(inst.Neg), uint64(inst.Omod),
		uint32(inst.Src0Sel), uint32(inst.Src1Sel), uint32(inst.DstSel), uint8(inst.DstUnused))
}

// c06sdwaBody: one lane of an SDWA instruction; the line carries the raw operand values
func (c *c06env) c06sdwaBody(ci *c06inst, st *c06state, lane int, isF bool) {
	r := c.r
	inst := ci.inst
	s2 := *st
	s2.exec = uint64(1) << uint(lane)
	c.load(&s2)
	var vals [4]uint64
	for k, op := range []*insts.Operand{inst.Src0, inst.Src1, inst.Src2} {
		v, f := c06OperandVal(c, op, lane)
		if f != "" {
			r.Count("sdwa-skip:operand-unreadable")
			return
		}
		vals[k] = v
	}
	dw := 0
	if inst.Dst != nil && inst.Dst.OperandType == insts.RegOperand && inst.Dst.Register != nil && inst.Dst.Register.IsVReg() {
		n := inst.Dst.RegCount
		if n > 1 {
			r.Count("sdwa-skip:wide-destination")
			return
		}
		dw = 32
		v, f := c06OperandVal(c, inst.Dst, lane)
		if f != "" {
			r.Count("sdwa-skip:operand-unreadable")
			return
		}
		vals[3] = v
	}
	sd := binary.LittleEndian.Uint64(s2.s[c06MaskO*4:])
	line := c.c06sdwaLine("sdwa", ci, fmt.Sprintf("i=%d s0=%x s1=%x s2=%x d=%x vcc=%x sd=%x dw=%x mos=%s mod=%s",
		lane, vals[0], vals[1], vals[2], vals[3], s2.vcc, sd, dw, c06MaskTarget(inst.SDst), c06MaskTarget(inst.Dst)))
	before := append([]byte{}, s2.v...)
	res := c.runOn(ci, &s2, 1)
	r.Count("sdwa:" + ci.arch)
	if res.fault != "" {
		r.Count("sdwa-fault:" + ci.arch + "." + ci.handler)
		r.Case(line, "fault")
		return
	}
	// oracle: every other lane keeps its whole row (the wrapper's read-modify-write of the destination included)
	r.Checked("sdwa-inactive-lanes")
	for l := 0; l < 64; l++ {
		if l != lane && string(res.v[l*1024:(l+1)*1024]) != string(before[l*1024:(l+1)*1024]) {
			r.Failf("C06.sdwa.inactive-lane-changed", line, "%s: EXEC = 1<<%d but the row of lane %d changed (%s)", ci, lane, l, rowDiff(before[l*1024:(l+1)*1024], res.v[l*1024:(l+1)*1024]))
			break
		}
	}
	d := "-"
	if dw != 0 {
		v, _ := c06OperandVal(c, inst.Dst, lane)
		d = c06NanCanon(isF, dw, v)
	}
	r.Case(line, fmt.Sprintf("d=%s vcc=%x sd=%x", d, res.vcc, binary.LittleEndian.Uint64(res.s[c06MaskO*4:])))
}

// c06sdwaRun: the whole SDWA instruction under an arbitrary EXEC against `vop2Run`; oracle: lane i's result
// equals its result when it runs alone with every other lane's registers and mask bits replaced
func (c *c06env) c06sdwaRun(ci *c06inst, st *c06state, exec uint64) {
	r := c.r
	inst := ci.inst
	s2 := *st
	s2.exec = exec
	c.load(&s2)
	var cols [4][]string
	ops := []*insts.Operand{inst.Src0, inst.Src1, inst.Src2, nil}
	dw := 0
	if inst.Dst != nil && inst.Dst.OperandType == insts.RegOperand && inst.Dst.Register != nil && inst.Dst.Register.IsVReg() && inst.Dst.RegCount <= 1 {
		dw = 32
		ops[3] = inst.Dst
	}
	for k, op := range ops {
		for lane := 0; lane < 64; lane++ {
			v, f := c06OperandVal(c, op, lane)
			if f != "" {
				r.Count("sdwarun-skip:operand-unreadable")
				return
			}
			cols[k] = append(cols[k], fmt.Sprintf("%x", v))
		}
	}
	s2k := "v"
	if inst.Src2 != nil && !(inst.Src2.OperandType == insts.RegOperand && inst.Src2.Register != nil && inst.Src2.Register.IsVReg()) {
		s2k = "u"
	}
	sd := binary.LittleEndian.Uint64(s2.s[c06MaskO*4:])
	line := c.c06sdwaLine("sdwarun", ci, fmt.Sprintf("exec=%x vcc=%x sd=%x dw=%x mos=%s mod=%s s2k=%s",
		exec, s2.vcc, sd, dw, c06MaskTarget(inst.SDst), c06MaskTarget(inst.Dst), s2k)) +
		fmt.Sprintf(" s0=%s s1=%s s2=%s d=%s", strings.Join(cols[0], ","), strings.Join(cols[1], ","), strings.Join(cols[2], ","), strings.Join(cols[3], ","))
	res := c.runOn(ci, &s2, 1)
	r.Count("sdwarun:" + ci.arch)
	if res.fault != "" {
		r.Case(line, "fault")
		return
	}
	d := "-"
	var full [64]uint64
	if dw != 0 {
		var ds []string
		for lane := 0; lane < 64; lane++ {
			v, _ := c06OperandVal(c, inst.Dst, lane)
			full[lane] = v
			ds = append(ds, fmt.Sprintf("%x", v))
		}
		d = strings.Join(ds, ",")
	}
	r.Case(line, fmt.Sprintf("d=%s vcc=%x sd=%x", d, res.vcc, binary.LittleEndian.Uint64(res.s[c06MaskO*4:])))
	// oracle: three active lanes, each alone, give the same destination dword and the same VCC bit
	if dw != 0 {
		r.Checked("sdwa-lane-alone")
		n := 0
		for lane := 0; lane < 64 && n < 3; lane++ {
			if exec&(1<<uint(lane)) == 0 {
				continue
			}
			n++
			// the lane alone, every other lane's row (and VCC / EXEC bit) replaced by something else
			s3 := *st.clone()
			for l := 0; l < 64; l++ {
				if l != lane {
					c.fillRandom(s3.v[l*1024 : (l+1)*1024])
				}
			}
			s3.exec = uint64(1) << uint(lane)
			s3.vcc = st.vcc&(uint64(1)<<uint(lane)) | c.rng.U64()&^(uint64(1)<<uint(lane))
			res1 := c.runOn(ci, &s3, 2)
			if res1.fault != "" {
				continue
			}
			v, _ := c06OperandVal(c, inst.Dst, lane)
			if v != full[lane] {
				r.Failf("C06.sdwa.lane-dependence", line, "%s: lane %d alone gives dst %x, in the full run under EXEC %x it gives %x", ci, lane, v, exec, full[lane])
				break
			}
		}
	}
}

func runC06Sdwa(r *Run, rng *Rng, replay string) {
	log.SetOutput(io.Discard)
	cov, err := c06Coverage()
	if err != nil {
		r.Failf("C06.body-correspondence-missing", "c06 sdwa", "cannot read the coverage table of the translated lane bodies: %v", err)
		return
	}
	c := &c06env{r: r, rng: rng, e: newALUEnv(), mem: &c06mem{}}
	c.e.gcn3 = emu.NewALU(c.mem)
	c.e.cdna3 = cdna3.NewALU(c.mem)
	c.e.gcn3.SetLDS(c.e.lds)
	c.e.cdna3.SetLDS(c.e.lds)
	c.ldsNeg = make([]byte, len(c.e.lds))
	c.ldsBase = make([]byte, len(c.e.lds))
	c.fillRandom(c.ldsBase)
	hand, _, err := c06ScanSwitches()
	if err != nil {
		r.Note("C06 sdwa: cannot parse the emulator sources for handler names: %v", err)
		return
	}
	c.hand = hand
	nVar, nLanes := 3, 2
	if r.Tier == "thorough" {
		nVar, nLanes = 12, 4
	}
	selIdx := []uint32{0, 1, 2, 3, 4, 5, 6}
	for _, arch := range []string{"gcn3", "cdna3"} {
		rows := c.e.dGCN3.VerifRows()
		if arch == "cdna3" {
			rows = c.e.dCDNA.VerifRows()
		}
		sort.SliceStable(rows, func(i, j int) bool { return rows[i].Opcode < rows[j].Opcode })
		seen := map[int]bool{}
		for _, it := range rows {
			op := int(it.Opcode)
			if c06FormatOf(it) != "vop2" || seen[op] {
				continue
			}
			seen[op] = true
			handler := hand[fmt.Sprintf("%s/vop2/%d", arch, op)]
			kind := cov[arch+"."+handler]
			isF := kind == "translatedF" && cov["exact:"+arch+"."+handler] == "yes"
			if handler == "" || (kind != "translated" && kind != "wrapper" && !isF) {
				continue
			}
			for vi := 0; vi < nVar; vi++ {
				f := map[string]uint32{"sdwa": 1, "src0": c06Src0, "vsrc1": c06Src1, "vdst": c06Dst,
					"src0sel": selIdx[rng.Intn(7)], "src1sel": selIdx[rng.Intn(7)], "dstsel": selIdx[rng.Intn(7)], "dstunused": uint32(rng.Intn(3))}
				switch vi {
				case 0: // preserve, upper word
					f["dstsel"], f["dstunused"] = 5, 2
				case 1: // sign extension of a byte
					f["dstsel"], f["dstunused"] = uint32(rng.Intn(4)), 1
				case 2: // destination aliases a source
					f["src0"], f["dstunused"] = c06Dst, 2
				}
				if isF {
					// a float result may be a NaN whose payload Lean's Float32 does not keep: no sub-dword of it
					// can be compared; float handlers are tied with DST_SEL = DWORD (source selects still vary)
					f["dstsel"] = 6
				}
				inst, words, err := c.decode(arch, desc{format: "vop2", op: uint32(op), f: f})
				if err != nil || !inst.IsSdwa {
					r.Count("sdwa-skip:undecodable")
					continue
				}
				ci := &c06inst{arch: arch, format: "vop2", op: op, iname: it.InstName, inst: inst, words: words, variant: fmt.Sprintf("sdwa%d", vi), handler: handler}
				st := c.newState(ci, false)
				for j := 0; j < nLanes; j++ {
					lane := rng.Intn(64)
					if j == 0 && vi%2 == 0 {
						lane = []int{0, 63, 31, 32}[rng.Intn(4)]
					}
					c.c06sdwaBody(ci, st, lane, isF)
				}
				if !isF && (vi == 0 || r.Tier == "thorough") {
					c.c06sdwaRun(ci, st, rng.U64())
					if r.Tier == "thorough" {
						c.c06sdwaRun(ci, st, rng.U64()&rng.U64())
					}
				}
			}
		}
	}
	c.c06ReadFirstLane()
	c.c06Witnesses()
}

// v_readfirstlane_b32 (VOP1 opcode 2): the documented cross-lane instruction against its transcription
func (c *c06env) c06ReadFirstLane() {
	r, rng := c.r, c.rng
	n := 12
	if r.Tier == "thorough" {
		n = 80
	}
	for _, arch := range []string{"gcn3", "cdna3"} {
		for k := 0; k < n; k++ {
			f := map[string]uint32{"src0": 256 + c06Src0, "vdst": c06Dst}
			kind := "v"
			if k%4 == 3 {
				f["src0"], kind = c06USrc, "u"
			}
			inst, words, err := c.decode(arch, desc{format: "vop1", op: 2, f: f})
			if err != nil {
				r.Note("C06: v_readfirstlane_b32 does not decode for %s: %v", arch, err)
				break
			}
			ci := &c06inst{arch: arch, format: "vop1", op: 2, iname: "v_readfirstlane_b32", inst: inst, words: words, handler: "runVREADFIRSTLANEB32"}
			st := c.newState(ci, false)
			var exec uint64
			switch k % 6 {
			case 0:
				exec = 0
			case 1:
				exec = uint64(1) << 63
			case 2:
				exec = ^uint64(0) << uint(rng.Intn(64))
			default:
				exec = rng.U64() & rng.U64()
			}
			s2 := *st
			s2.exec = exec
			c.load(&s2)
			var col []string
			var vals [64]uint64
			for lane := 0; lane < 64; lane++ {
				v, _ := c06OperandVal(c, inst.Src0, lane)
				vals[lane] = v
				col = append(col, fmt.Sprintf("%x", v))
			}
			line := fmt.Sprintf("c06 rfl %s exec=%x k=%s s0=%s", arch, exec, kind, strings.Join(col, ","))
			before := append([]byte{}, s2.v...)
			res := c.runOn(ci, &s2, 1)
			r.Count("rfl:" + arch)
			if res.fault != "" {
				r.Case(line, "fault")
				continue
			}
			if inst.Dst == nil || inst.Dst.Register == nil || inst.Dst.Register.IsVReg() {
				r.Case(line, "dst-not-scalar")
				continue
			}
			got, _ := c06OperandVal(c, inst.Dst, 0)
			first := 0
			for l := 0; l < 64; l++ {
				if exec&(1<<uint(l)) != 0 {
					first = l
					break
				}
			}
			r.Checked("readfirstlane")
			if uint32(got) != uint32(vals[first]) {
				r.Failf("C06.readfirstlane.wrong-lane", line, "%s: EXEC %x, first active lane %d holds %x, the instruction delivered %x", ci, exec, first, vals[first], got)
			}
			same := string(before) == string(res.v)
			if !same {
				r.Failf("C06.readfirstlane.vgpr-changed", line, "%s: a vector register changed", ci)
			}
			r.Case(line, fmt.Sprintf("sd=%x vsame=%d", uint32(got), c06b2i(same)))
		}
	}
}

// replays of the kernel-checked witnesses that show a hypothesis cannot be dropped
func (c *c06env) c06Witnesses() {
	r := c.r
	v := func(n uint32) uint32 { return 256 + n }
	swap := func(l int) int {
		if l < 2 {
			return 1 - l
		}
		return l
	}
	for _, arch := range []string{"gcn3", "cdna3"} {
		// (1) perm_mem_needs_disjoint: ds_write_b32, lanes 0 and 1 store different dwords to one address
		if inst, words, err := c.decode(arch, desc{format: "ds", op: 13, f: map[string]uint32{"addr": 0, "data0": 1, "offset0": 0, "offset1": 0}}); err == nil {
			ci := &c06inst{arch: arch, format: "ds", op: 13, inst: inst, words: words, iname: "dswrite", handler: "dswrite"}
			var word [2]uint32
			for run := 0; run < 2; run++ {
				a, b := make([]uint32, 64), make([]uint32, 64)
				st := &c06state{v: make([]byte, len(c.e.wf.VRegFile)), s: make([]byte, len(c.e.wf.SRegFile)), mem: map[uint64]byte{}, vcc: 0, exec: 3}
				for l := 0; l < 64; l++ {
					src := l
					if run == 1 {
						src = swap(l)
					}
					a[l], b[l] = 64, uint32(src+1)
					binary.LittleEndian.PutUint32(st.v[l*1024+0:], a[l])
					binary.LittleEndian.PutUint32(st.v[l*1024+4:], b[l])
					binary.LittleEndian.PutUint32(st.v[l*1024+8:], 0xabcd0000+uint32(l))
				}
				st.lds = make([]byte, len(c.e.lds))
				for i := range st.lds {
					st.lds[i] = c06memByte(uint64(i))
				}
				res := c.runOn(ci, st, 0)
				line := fmt.Sprintf("c06 vexec dswrite exec=3 vcc=0 off=0 a=%s b=%s", c06words(a), c06words(b))
				if res.fault != "" {
					r.Case(line, "fault:"+c06short(res.fault))
					continue
				}
				d, w := make([]uint32, 64), make([]uint32, 64)
				for l := 0; l < 64; l++ {
					d[l] = binary.LittleEndian.Uint32(res.v[l*1024+8:])
					w[l] = binary.LittleEndian.Uint32(res.lds[a[l]:])
				}
				word[run] = w[0]
				r.Case(line, fmt.Sprintf("d=%s m=%x w=%s log=0:%x", c06words(d), res.vcc, c06words(w), fnv(nil)))
			}
			r.Checked("hyp:perm-mem-needs-disjoint")
			if word[0] == word[1] {
				r.Note("C06 witness perm_mem_needs_disjoint NOT reproduced on %s: both lane orders leave %x", arch, word[0])
				r.Count("hyp-not-reproduced:perm-mem-needs-disjoint:" + arch)
			} else {
				r.Count("hyp-reproduced:perm-mem-needs-disjoint:" + arch)
			}
		}
		// (2) src2_mask_needs_uniform: v_cndmask_b32_e64 with a VGPR in the mask position
		if c.hand[arch+"/vop3a/256"] != "" {
			inst, words, err := c.decode(arch, desc{format: "vop3a", op: 256, f: map[string]uint32{"src0": v(c06Src0), "src1": v(c06Src1), "src2": v(c06Src2), "vdst": c06Dst}})
			if err != nil {
				r.Count("hyp-skip:src2-mask-undecodable:" + arch)
				continue
			}
			ci := &c06inst{arch: arch, format: "vop3a", op: 256, inst: inst, words: words, iname: "v_cndmask_b32_e64", handler: c.hand[arch+"/vop3a/256"], variant: "vgpr-mask"}
			var dst [2][64]uint32
			ok := true
			for run := 0; run < 2; run++ {
				st := &c06state{v: make([]byte, len(c.e.wf.VRegFile)), s: make([]byte, len(c.e.wf.SRegFile)), mem: map[uint64]byte{}, vcc: 0, exec: 3}
				for l := 0; l < 64; l++ {
					src := l
					if run == 1 {
						src = swap(l)
					}
					binary.LittleEndian.PutUint32(st.v[l*1024+c06Src0*4:], uint32(10+src))
					binary.LittleEndian.PutUint32(st.v[l*1024+c06Src1*4:], uint32(20+src))
					m := uint32(0)
					if src == 0 {
						m = 1
					}
					binary.LittleEndian.PutUint32(st.v[l*1024+c06Src2*4:], m)
				}
				c.goRunCase(ci, st, 3)
				res := c.runOn(ci, st, 0)
				if res.fault != "" {
					ok = false
					break
				}
				for l := 0; l < 64; l++ {
					dst[run][l] = binary.LittleEndian.Uint32(res.v[l*1024+c06Dst*4:])
				}
			}
			if ok {
				r.Checked("hyp:src2-mask-needs-uniform")
				// equivariance would demand: lane 1 of the swapped run = lane 0 of the original run
				if dst[1][1] == dst[0][0] {
					r.Note("C06 witness src2_mask_needs_uniform NOT reproduced on %s (lane 0: %x, swapped lane 1: %x)", arch, dst[0][0], dst[1][1])
					r.Count("hyp-not-reproduced:src2-mask-needs-uniform:" + arch)
				} else {
					r.Count("hyp-reproduced:src2-mask-needs-uniform:" + arch)
				}
			}
		}
	}
}
