package main

import (
	"fmt"
	"strings"

	"github.com/sarchlab/akita/v4/mem/mem"
	"github.com/sarchlab/akita/v4/sim"
	"github.com/sarchlab/mgpusim/v4/amd/emu"
	"github.com/sarchlab/mgpusim/v4/amd/insts"
	"github.com/sarchlab/mgpusim/v4/amd/timing/cu"
	"github.com/sarchlab/mgpusim/v4/amd/timing/wavefront"
)

// Property C14, second pass: the vector memory unit's transaction path, cycle by cycle.
//
//	c14 vmu w=<width> n=<stages> b=<post buffer> cap=64 ; is <k> <p> ; cy <t> ; ...
//
// A real compute unit built by cu.MakeBuilder with the given transaction pipeline (the shipped
// r9nano configuration is w=1 n=10 b=8, the shipped mi300a configuration w=8 n=4 b=64 with
// maxCoalescingPenalty 3). `is k p`: a FLAT load or store whose k active lanes touch k cache lines is
// executed by the real VectorMemoryUnit.executeFlatInsts (k transactions, the last one flagged; p =
// the coalescing penalty the unit charges per transaction). `cy t`: one real VectorMemoryUnit.Run,
// then the memory side takes t requests from ToVectorMem and answers them AT ONCE, IN THE ORDER IT
// RECEIVED THEM (an ideal in-order memory), through the real return handlers. The model must predict
// which transactions reach the port in which cycle, and the queue lengths after every cycle.
//
// Oracles on the real unit: C14.vmu.lost (a transaction is in exactly one place), C14.vmu.in-order-list
// (transactionsInOrder = set aside + buffer + pipeline, counter = flagged entries, bounded, nothing
// set aside with one lane), C14.vmu.drained (a memory that takes requests empties the unit), C14.vmu.send-order
// (requests leave in creation order), C14.vmu.counter-early (behind an in-order memory
// OutstandingVectorMemAccess never drops below the number of instructions that still have a
// transaction unanswered — what s_waitcnt vmcnt relies on).
func init() { register("C14", runC14Vmu) }

// c14NewVMUEnv: a compute unit whose vector memory unit has the given transaction pipeline.
func c14NewVMUEnv(width, stages, buf, penalty int) *c02Env {
	e := &c02Env{mem: &c02Mem{over: map[uint64]byte{}}, insts: map[string]*insts.Inst{}}
	e.ewf = emu.NewWavefront(nil)
	e.dG = insts.NewDisassembler()
	c := cu.MakeBuilder().WithEngine(&fakeEngine{}).
		WithVecMemTransPipelineWidth(width).WithVecMemTransPipelineStages(stages).WithMemPipelineBufferSize(buf).
		WithMaxCoalescingPenalty(penalty).
		WithVectorMemModules(&mem.SinglePortMapper{Port: sim.RemotePort("VMem")}).Build("CU")
	c.ToVectorMem.SetConnection(&fakeConn{name: "v"})
	e.cu = c
	return e
}

type c14VmuHook struct{ ids []string }

func (h *c14VmuHook) Func(ctx sim.HookCtx) {
	if ctx.Pos != sim.HookPosPortMsgSend {
		return
	}
	switch m := ctx.Item.(type) {
	case *mem.ReadReq:
		h.ids = append(h.ids, m.ID)
	case *mem.WriteReq:
		h.ids = append(h.ids, m.ID)
	}
}

type c14VmuInst struct {
	first, n int
	open     int // transactions not yet answered
}

type c14VmuShape struct{ w, n, b, pen int }

func c14VmuCase(r *Run, rng *Rng, sh c14VmuShape, caseNo int, directed bool) {
	e := c14NewVMUEnv(sh.w, sh.n, sh.b, sh.pen)
	hook := &c14VmuHook{}
	e.cu.ToVectorMem.AcceptHook(hook)
	wf := e.newTimingWf(^uint64(0))
	ops := []string{fmt.Sprintf("c14 vmu w=%d n=%d b=%d cap=64", sh.w, sh.n, sh.b)}
	var toks []string
	line := func() string { return strings.Join(ops, " ; ") }
	pos := map[string]int{}   // request id -> creation index
	instOf := map[string]int{} // request id -> instruction
	var instsL []*c14VmuInst
	created, nsent := 0, 0
	failed := map[string]bool{}
	fail := func(sig, format string, a ...interface{}) {
		if !failed[sig] {
			failed[sig] = true
			r.Failf(sig, line(), format, a...)
		}
	}
	issue := func(k int, store bool) {
		for l := 0; l < 64; l++ {
			ad := uint64(0x200000000) + uint64(caseNo%64)*0x1000000 + uint64(len(instsL))*0x10000 + uint64(l)*64
			e.tSetV(l, c02AddrReg, uint32(ad))
			e.tSetV(l, c02AddrReg+1, uint32(ad>>32))
		}
		opc := uint32(20)
		if store {
			opc = 28
		}
		inst := e.decode("gcn3", desc{format: "flat", op: opc, f: map[string]uint32{"vdst": 8, "data": 8, "addr": c02AddrReg, "saddr": 0x7f}})
		if k >= 64 {
			wf.SetEXEC(^uint64(0))
		} else {
			wf.SetEXEC((uint64(1) << uint(k)) - 1)
		}
		wf.SetDynamicInst(wavefront.NewInst(inst))
		before := len(e.cu.InFlightVectorMemAccess)
		ok, n := e.cu.VerifFlushFlatIssue(wf)
		if !ok {
			return // InFlightVectorMemAccessLimit: the unit keeps the instruction, nothing was created
		}
		p := 0
		if !store {
			p = int(float64(16-1) / 16 * float64(sh.pen)) // one lane per cache line
		}
		ops = append(ops, fmt.Sprintf("is %d %d", n, p))
		toks = append(toks, fmt.Sprintf("i%d", created))
		in := &c14VmuInst{first: created, n: n, open: n}
		for _, info := range e.cu.InFlightVectorMemAccess[before:] {
			id := ""
			if info.Read != nil {
				id = info.Read.ID
			} else {
				id = info.Write.ID
			}
			pos[id] = created
			instOf[id] = len(instsL)
			created++
		}
		instsL = append(instsL, in)
	}
	cyc := func(t int) {
		ops = append(ops, fmt.Sprintf("cy %d", t))
		e.cu.VectorMemUnit.Run()
		var now []string
		for _, id := range hook.ids[nsent:] {
			now = append(now, fmt.Sprint(pos[id]))
		}
		// send order: creation order
		r.Checked("vmu.send-order")
		for k := nsent; k < len(hook.ids); k++ {
			if k > 0 && pos[hook.ids[k]] < pos[hook.ids[k-1]] {
				fail("C14.vmu.send-order", "transaction %d (instruction %d) is put on ToVectorMem after transaction %d (instruction %d): the unit does not keep the creation order",
					pos[hook.ids[k]], instOf[hook.ids[k]], pos[hook.ids[k-1]], instOf[hook.ids[k-1]])
			}
		}
		nsent = len(hook.ids)
		waiting, post := e.cu.VerifVMUQueued()
		inOrder, flagged, aside := e.cu.VerifVMUInOrder()
		inPipe := created - nsent - waiting - post - aside
		r.Checked("vmu.lost")
		if inPipe < 0 || inPipe > sh.w*sh.n {
			fail("C14.vmu.lost", "%d transactions created, %d sent, %d waiting, %d in the post-pipeline buffer, %d set aside: %d would be inside a pipeline of %d places", created, nsent, waiting, post, aside, inPipe, sh.w*sh.n)
		}
		// the bookkeeping of the entry order: the list holds exactly what is set aside, in the buffer
		// or in the pipeline; the counter is the number of flagged entries; the storage is bounded;
		// one lane sets nothing aside
		r.Checked("vmu.in-order-list")
		if inOrder != aside+post+inPipe || flagged != aside || inOrder > sh.b+sh.w*sh.n || (sh.w == 1 && aside != 0) {
			fail("C14.vmu.in-order-list", "transactionsInOrder holds %d entries (%d flagged setAside), numTransactionsSetAside = %d, %d in the post-pipeline buffer, %d in the pipeline (bound %d + %d x %d)", inOrder, flagged, aside, post, inPipe, sh.b, sh.w, sh.n)
		}
		s := "-"
		if len(now) > 0 {
			s = strings.Join(now, ".")
		}
		toks = append(toks, fmt.Sprintf("%s/%d:%d:%d:%d", s, waiting, inPipe, post, aside))
		// the ideal in-order memory: takes t requests and answers them in that order, at once
		for k := 0; k < t; k++ {
			m := e.cu.ToVectorMem.RetrieveOutgoing()
			if m == nil {
				break
			}
			switch q := m.(type) {
			case *mem.ReadReq:
				e.cu.VerifHandleVectorDataLoadReturn(mem.DataReadyRspBuilder{}.WithRspTo(q.ID).WithData(make([]byte, 64)).Build())
				instsL[instOf[q.ID]].open--
			case *mem.WriteReq:
				e.cu.VerifHandleVectorDataStoreRsp(mem.WriteDoneRspBuilder{}.WithRspTo(q.ID).Build())
				instsL[instOf[q.ID]].open--
			}
			truth := 0
			for _, in := range instsL {
				if in.open > 0 {
					truth++
				}
			}
			r.Checked("vmu.counter-early")
			if wf.OutstandingVectorMemAccess < truth {
				fail("C14.vmu.counter-early", "in-order memory: after the answer to transaction %d OutstandingVectorMemAccess = %d while %d instructions still have unanswered transactions (s_waitcnt vmcnt(%d) would complete now)",
					pos[m.Meta().ID], wf.OutstandingVectorMemAccess, truth, wf.OutstandingVectorMemAccess)
			}
		}
	}
	fault := catch(func() {
		if directed {
			// back-pressure: three scattered accesses, the memory takes nothing for a while, then one request per cycle
			for k := 0; k < 3; k++ {
				issue(64, true) // stores: no coalescing penalty, also with the mi300a setting maxCoalescingPenalty = 3
			}
			for k := 0; k < 40; k++ {
				cyc(0)
			}
			for k := 0; k < 200; k++ {
				cyc(1)
			}
			return
		}
		takeStyle := rng.Intn(4)
		for step := rng.Range(10, 120); step > 0; step-- {
			if rng.Chance(18) {
				issue(rng.Pick(1, 1, 2, 3, 5, 16, 40, 64), rng.Chance(35))
				continue
			}
			t := 0
			switch takeStyle {
			case 0:
				t = 16
			case 1:
				t = rng.Pick(0, 0, 0, 1)
			case 2:
				t = rng.Pick(0, 1, 2, 16)
			default:
				if step%40 < 25 {
					t = 0
				} else {
					t = rng.Pick(1, 2)
				}
			}
			cyc(t)
		}
		for k := 0; k < 12; k++ {
			cyc(16)
		}
		// liveness: the memory takes 16 requests per cycle; every transaction created leaves the unit
		// (a load transaction with coalescing penalty p keeps the pipeline entry busy for p more cycles)
		limit := 100 + (sh.pen+1)*(created-nsent)
		for k := 0; k < limit && nsent < created; k++ {
			cyc(16)
		}
		r.Checked("vmu.drained")
		if nsent < created {
			fail("C14.vmu.drained", "%d transactions created, only %d sent although the memory took 16 requests per cycle for %d cycles", created, nsent, limit)
		}
	})
	if fault != "" {
		r.Failf("C14.vmu.fault", line(), "the real vector memory unit panicked: %s", fault)
		return
	}
	var all []string
	for _, id := range hook.ids {
		all = append(all, fmt.Sprint(pos[id]))
	}
	sent := "-"
	if len(all) > 0 {
		sent = strings.Join(all, ".")
	}
	toks = append(toks, "sent="+sent)
	r.Count(fmt.Sprintf("vmu:w%d", sh.w))
	r.Case(line(), strings.Join(toks, " "))
}

func runC14Vmu(r *Run, rng *Rng, replay string) {
	shapes := []c14VmuShape{{1, 10, 8, 0}, {1, 10, 8, 3}, {8, 4, 64, 3}, {8, 4, 64, 0}, {2, 1, 8, 0}, {4, 2, 8, 3}, {1, 0, 8, 0}, {1, 1, 8, 0}, {3, 3, 16, 3}, {2, 1, 8, 0}, {4, 1, 8, 3}, {8, 4, 8, 0}, {2, 0, 8, 0}}
	// the two shipped configurations under back-pressure
	c14VmuCase(r, rng, c14VmuShape{1, 10, 8, 0}, 0, true)
	c14VmuCase(r, rng, c14VmuShape{8, 4, 64, 3}, 1, true)
	n := 150
	if r.Tier == "thorough" {
		n = 4000
	}
	for k := 0; k < n; k++ {
		c14VmuCase(r, rng, shapes[rng.Intn(len(shapes))], k+2, false)
	}
}
