package main

import (
	"context"
	"encoding/json"
	"fmt"
	"io"
	"log"
	"math"
	"math/rand"
	"os"
	"os/exec"
	"path/filepath"
	"sort"
	"strconv"
	"strings"
	"sync"
	"sync/atomic"
	"time"

	"github.com/sarchlab/akita/v4/sim"
	"github.com/sarchlab/akita/v4/simulation"
	"github.com/sarchlab/mgpusim/v4/amd/driver"
	"github.com/sarchlab/mgpusim/v4/amd/insts"
	"github.com/sarchlab/mgpusim/v4/amd/samples/runner"
	"github.com/sarchlab/mgpusim/v4/amd/samples/runner/emusystem"
	"github.com/sarchlab/mgpusim/v4/amd/samples/runner/timingconfig"
	"github.com/sarchlab/mgpusim/v4/amd/sampling"
	"github.com/sarchlab/mgpusim/v4/amd/timing/cu"
)

func init() {
	register("C05", runC05Deep)
}

// =====================================================================================
// (A) timed gate-level schedules: the REAL driver / runAsync / runEngine / serial engine under
// forced interleavings (machinery of harness/c12.go), observing SIMULATED TIME after every move.
// Case line `c05 tsched rounds=… ; a r e …`, answered by the timed protocol model `C05.T`.
// Oracle: for one application script, every complete interleaving must give the same completion
// order (proved: `completion_order_schedule_independent`) and the same completion TIMES.
// =====================================================================================

type c05TimedResult struct {
	line     string
	complete bool
	order    string // completion order
	times    string // id@cycle …
	final    int64
	sched    string
}

func c05Cycles(s *c12Sys, t0 float64) int64 {
	return int64(math.Round((float64(s.eng.CurrentTime()) - t0) * 1e9))
}

// c05TimedExec runs one gated schedule and records the correspondence case.
func c05TimedExec(r *Run, rounds []int, choose func(i int, en []string) string, maxSteps int) (res c05TimedResult, ok bool) {
	if c12Poisoned || c12Hangs >= 3 {
		return res, false
	}
	s := c12NewSys(rounds)
	t0 := float64(s.eng.CurrentTime())
	var taken, outs, order, times []string
	line := func() string {
		return fmt.Sprintf("c05 tsched rounds=%s ; %s", c12RoundsStr(rounds), strings.Join(taken, " "))
	}
	o, okS := s.settle()
	if !okS {
		r.Note("C05 tsched: initial state did not become quiescent")
		s.freeRun(50 * time.Millisecond)
		s.teardown()
		return res, false
	}
	prev := o.cmds
	failed := false
	nowBefore := c05Cycles(s, t0)
	for i := 0; i < maxSteps; i++ {
		var en []string
		for _, role := range []string{"a", "r", "e"} {
			if s.canMove(role) {
				en = append(en, role)
			}
		}
		if len(en) == 0 {
			break
		}
		role := choose(i, en)
		if role == "" {
			break
		}
		out, o2, okM := s.move(role)
		taken = append(taken, role)
		if !okM {
			failed = true
			outs = append(outs, "unsettled")
			break
		}
		if out == "-" {
			outs = append(outs, "-")
			continue
		}
		now := c05Cycles(s, t0)
		outs = append(outs, fmt.Sprintf("%s@%d", out, now))
		// commands that left the head of the queue during this move completed at `now`
		if role == "e" {
			// the engine was parked before a tick event whose time it had already written
			for len(prev) > 0 && (len(o2.cmds) == 0 || prev[0] != o2.cmds[0]) {
				order = append(order, prev[0])
				times = append(times, fmt.Sprintf("%s@%d", prev[0], nowBefore))
				prev = prev[1:]
			}
		}
		nowBefore = now
		prev = o2.cmds
		o = o2
	}
	res.complete = !failed && s.done() && o.e == "none" && o.r == "idle"
	if !s.freeRun(2 * time.Second) {
		c12Hangs++
		if !s.rescue() {
			c12Poisoned = true
		}
		failed = true
	}
	s.teardown()
	if failed {
		return res, false
	}
	res.final = c05Cycles(s, t0)
	res.line = line()
	res.order = strings.Join(order, ",")
	res.times = strings.Join(times, " ")
	res.sched = strings.Join(taken, " ")
	r.Case(res.line, strings.Join(outs, " "))
	r.Count("tsched")
	return res, true
}

// c05SpecTimes is the sequential specification (Lean: T.specTimes 0 1 rounds): a round of k
// commands started at rest at cycle n completes them at n+1 … n+k; the system is at rest again
// at n+k+1.
func c05SpecTimes(rounds []int) (string, int64) {
	var p []string
	n, id := int64(0), 1
	for _, k := range rounds {
		for i := 0; i < k; i++ {
			p = append(p, fmt.Sprintf("%d@%d", id, n+1+int64(i)))
			id++
		}
		n += int64(k) + 1
	}
	return strings.Join(p, " "), n
}

func c05Prefer(order ...string) func(i int, en []string) string {
	return func(i int, en []string) string {
		for _, want := range order {
			for _, x := range en {
				if x == want {
					return x
				}
			}
		}
		return ""
	}
}

func c05TimedSchedules(r *Run, rng *Rng) {
	thorough := r.Tier == "thorough"
	driver.VerifYield = c12Yield
	defer func() { c12DropShared(); driver.VerifYield = nil }()
	scripts := [][]int{{1, 1}, {2, 1}, {1, 0, 1}, {1, 2}}
	per := 25
	if thorough {
		scripts = append(scripts, []int{3, 1}, []int{1, 1, 1}, []int{2, 2}, []int{0, 1, 1})
		per = 300
	}
	for _, rounds := range scripts {
		// reference: the engine (then runAsync) always moves first, the application thread only
		// when the system is at rest — the quiescent-call discipline of the Lean model (T.runQ)
		ref, okRef := c05TimedExec(r, rounds, c05Prefer("e", "r", "a"), 400)
		if !okRef || !ref.complete {
			r.Note("C05 tsched: reference schedule of %v did not complete", rounds)
			continue
		}
		r.Checked("tsched.quiescent-spec")
		if st, end := c05SpecTimes(rounds); ref.times != st || ref.final != end {
			r.Failf("C05.sched-spec", ref.line, "script %v with the application thread moving only when the simulator is at rest: completion times {%s} end=%d, sequential specification {%s} end=%d", rounds, ref.times, ref.final, st, end)
		}
		reported := false
		for k := 0; k < per && !c12Poisoned; k++ {
			choose := c05Prefer("a", "r", "e") // the application thread always moves first
			if k > 0 {
				bias := rng.Pick(0, 1, 2, 3)
				choose = func(i int, en []string) string {
					if bias < 3 && rng.Chance(60) {
						fav := []string{"a", "r", "e"}[bias]
						for _, x := range en {
							if x == fav {
								return x
							}
						}
					}
					return en[rng.Intn(len(en))]
				}
			}
			res, ok := c05TimedExec(r, rounds, choose, 400)
			if !ok || !res.complete {
				continue
			}
			r.Checked("tsched.order")
			r.Checked("tsched.time")
			if res.order != ref.order {
				r.Failf("C05.sched-order", res.line, "one application thread, script %v: completion order %s under this interleaving, %s under [%s]", rounds, res.order, ref.order, ref.sched)
			}
			if (res.times != ref.times || res.final != ref.final) && !reported {
				reported = true
				r.Failf("C05.sched-time", res.line, "one application thread, script %v (k Enqueue + Drain per round): command@cycle {%s} end=%d cycles under this interleaving, {%s} end=%d when the application only moves with the simulator at rest [%s]", rounds, res.times, res.final, ref.times, ref.final, ref.sched)
			}
		}
	}
}

// =====================================================================================
// (B) per-site dynamic checks with FORCED variation of the map iteration order: the map of each
// modelled site is rebuilt with different insertion histories / sizes, the loop is run many
// times, the iteration orders actually seen are counted (a check that saw one order only would
// be vacuous), and every result is compared with the first one and with the Lean model.
// =====================================================================================

func c05DeepDevid(r *Run, rng *Rng) {
	ncfg := 25
	reps := 30
	if r.Tier == "thorough" {
		ncfg, reps = 300, 60
	}
	multi, varied := 0, 0
	for c := 0; c < ncfg; c++ {
		n := rng.Range(2, 7)
		sizes := []uint64{uint64(rng.Range(1, 8)) * 4096}
		for i := 0; i < n; i++ {
			sizes = append(sizes, uint64(rng.Range(1, 8))*4096)
		}
		for i := rng.Intn(3); i > 0; i-- {
			sizes = append(sizes, 0)
		}
		d := c05Devices(rng, sizes)
		total := uint64(0)
		var ss []string
		for _, s := range sizes {
			total += s
			ss = append(ss, fmt.Sprint(s))
		}
		var addrs []uint64
		acc := uint64(4096)
		for _, s := range sizes {
			addrs = append(addrs, acc, acc+s-1)
			acc += s
		}
		addrs = append(addrs, 0, 4095, acc, rng.U64()%(total+8192))
		first := map[uint64]string{}
		orders := map[string]bool{}
		ask := func(p uint64) string {
			var id int
			f := catch(func() { id = d.VerifDeviceIDByPAddr(p) })
			if f != "" {
				return "fault:" + strings.TrimPrefix(f, "explicit:")
			}
			return fmt.Sprint(id)
		}
		for _, p := range addrs {
			first[p] = ask(p)
			r.Case(fmt.Sprintf("c05 devid 12 %s %d", strings.Join(ss, ","), p), first[p])
			r.Count("deep.devid")
		}
		for rep := 0; rep < reps; rep++ {
			// same content, another insertion history: churn with dummy entries, re-insert the
			// devices in a random order
			perm := rng.Perm(len(sizes))
			d.VerifChurnDeviceMap(rng.Pick(0, 1, 7, 9, 40, 200), perm)
			orders[fmt.Sprint(d.VerifDeviceMapOrder())] = true
			r.Checked("deep.devid-order")
			for _, p := range addrs {
				if got := ask(p); got != first[p] {
					r.Failf("C05.map-order.deviceIDByPAddr", fmt.Sprintf("c05 devid 12 %s %d", strings.Join(ss, ","), p),
						"after rebuilding the device map (same devices, insertion order %v) the answer is %s, before %s", perm, got, first[p])
					break
				}
			}
		}
		multi++
		if len(orders) >= 2 {
			varied++
		}
		r.CountN("deep.devid.distinct-iteration-orders", len(orders))
	}
	if varied*2 < multi {
		r.Note("C05 deep: the device map showed more than one iteration order in only %d of %d layouts — the order-variation part of the check is weak on this Go runtime", varied, multi)
	}
}

func c05DeepDecoder(r *Run, rng *Rng) {
	ninst := 8
	if r.Tier == "thorough" {
		ninst = 40
	}
	type key struct {
		ft insts.FormatType
		op insts.Opcode
	}
	sig := func(it *insts.InstType) string {
		return fmt.Sprintf("%s/%d/%d/%d/%d/%d/%d", it.InstName, it.ExeUnit, it.DSTWidth, it.SRC0Width, it.SRC1Width, it.SRC2Width, it.SDSTWidth)
	}
	var refTab map[key]string
	var refIDs map[key]int
	var refFmt string
	idVaried, fmtVaried := 0, 0
	for k := 0; k < ninst; k++ {
		d := insts.NewDisassembler()
		tab := map[key]string{}
		ids := map[key]int{}
		for _, it := range d.VerifRows() {
			tab[key{it.Format.FormatType, it.Opcode}] = sig(it)
			ids[key{it.Format.FormatType, it.Opcode}] = it.ID
		}
		var fl []string
		for _, f := range d.VerifFormatList() {
			fl = append(fl, f.FormatName)
		}
		fs := strings.Join(fl, ",")
		// the list must be sorted by descending mask whatever the map order was
		for i := 1; i < len(d.VerifFormatList()); i++ {
			if d.VerifFormatList()[i-1].Mask < d.VerifFormatList()[i].Mask {
				r.Failf("C05.map-order.formatList", "formatList "+fs, "format list of decoder instance %d is not sorted by descending mask at %d", k, i)
				break
			}
		}
		r.Checked("deep.decoder-table")
		if refTab == nil {
			refTab, refIDs, refFmt = tab, ids, fs
			continue
		}
		if fs != refFmt {
			fmtVaried++
		}
		if len(tab) != len(refTab) {
			r.Failf("C05.map-order.decodeTable", "decode table size", "instance %d has %d rows, the first instance %d", k, len(tab), len(refTab))
		}
		differ := false
		for kk, v := range refTab {
			if tab[kk] != v {
				r.Failf("C05.map-order.decodeTable", fmt.Sprintf("format %d opcode %d", kk.ft, kk.op), "instance %d registers %q, the first instance %q", k, tab[kk], v)
				break
			}
			if ids[kk] != refIDs[kk] {
				differ = true
			}
		}
		if differ {
			idVaried++
		}
	}
	r.CountN("deep.decoder.instances-with-other-InstType.ID", idVaried)
	r.CountN("deep.decoder.instances-with-other-format-order", fmtVaried)
	if idVaried == 0 {
		r.Note("C05 deep: all %d decoder instances assigned identical InstType.ID values — the VOP1 copy loop never ran in two different orders", ninst)
	}
}

func c05Float(rng *Rng) float64 { return float64(rng.U64()>>11) / float64(uint64(1)<<53) }

var c05TaskNames = []string{"Idle", "Fetch", "Special", "VMemInst", "VMem", "LDS", "Branch", "ScalarInst", "ScalarMemInst", "ScalarMem", "VALU",
	"total", "a", "zz", "Total", "VectorMemTransaction", "x_1", "B", "0", "~"}

func c05DeepCPIStack(r *Run, rng *Rng) {
	ncfg := 40
	reps := 12
	if r.Tier == "thorough" {
		ncfg, reps = 600, 25
	}
	multi, varied := 0, 0
	for c := 0; c < ncfg; c++ {
		nk := rng.Pick(0, 1, 2, 3, 5, 8, 9, 11, 14, 20)
		var names []string
		for _, i := range rng.Perm(len(c05TaskNames)) {
			names = append(names, c05TaskNames[i])
		}
		if nk > len(names) {
			nk = len(names)
		}
		keys := names[:nk]
		vals := map[string]float64{}
		for _, k := range keys {
			switch rng.Intn(4) {
			case 0:
				vals[k] = float64(rng.Range(0, 1000)) * 1e-9
			case 1:
				vals[k] = c05Float(rng) * 1e-3
			case 2:
				vals[k] = 0
			default:
				vals[k] = float64(rng.Range(1, 1<<20)) / 3e9
			}
		}
		freq := sim.Freq(rng.Pick(1, 1000, 1500, 1801) * 1000000)
		inst := uint64(rng.Range(1, 100000))
		valu := uint64(rng.Range(1, 100000))
		first := c05Float(rng) * 1e-6
		last := first + c05Float(rng)*1e-3
		build := func() *cu.CPIStackTracer {
			// a random history with the same final content: dummy keys inserted and deleted,
			// real keys inserted in random order, sometimes deleted and re-inserted, values
			// accumulated in one piece (float addition is not associative; the content must
			// be identical, only the history differs)
			var h []cu.VerifStackOp
			order := rng.Perm(len(keys))
			ndummy := rng.Pick(0, 0, 3, 9, 30, 100)
			for i := 0; i < ndummy; i++ {
				h = append(h, cu.VerifStackOp{Key: fmt.Sprintf("dummy%d", i), Val: 1})
			}
			for _, i := range order {
				if rng.Chance(20) {
					h = append(h, cu.VerifStackOp{Key: keys[i], Val: 7}, cu.VerifStackOp{Key: keys[i], Delete: true})
				}
				h = append(h, cu.VerifStackOp{Key: keys[i], Val: vals[keys[i]]})
			}
			for i := 0; i < ndummy; i++ {
				h = append(h, cu.VerifStackOp{Key: fmt.Sprintf("dummy%d", i), Delete: true})
			}
			return cu.VerifNewCPIStackTracer(freq, h, inst, valu, first, last)
		}
		rows := func(t *cu.CPIStackTracer, simd bool) string {
			prefix := "CPIStack."
			if simd {
				prefix = "SIMDCPIStack."
			}
			var p []string
			for _, m := range runner.VerifReportCPIStack(t, "CU", simd) {
				p = append(p, fmt.Sprintf("%s=%016x", strings.TrimPrefix(m.What, prefix), math.Float64bits(m.Value)))
			}
			return strings.Join(p, " ")
		}
		line := func(n uint64) string {
			var es []string
			sk := append([]string(nil), keys...)
			sort.Strings(sk)
			for _, k := range sk {
				es = append(es, fmt.Sprintf("%s=%016x", k, math.Float64bits(vals[k])))
			}
			return fmt.Sprintf("c05 cpistack total=%016x freq=%016x inst=%d ; %s", math.Float64bits(last-first), math.Float64bits(float64(freq)), n, strings.Join(es, " "))
		}
		t0 := build()
		ref := [2]string{rows(t0, false), rows(t0, true)}
		r.Case(line(inst), ref[0])
		r.Case(line(valu), ref[1])
		r.Count("deep.cpistack")
		orders := map[string]bool{}
		for rep := 0; rep < reps; rep++ {
			t := t0
			if rep > 0 {
				t = build()
			}
			for k := 0; k < 3; k++ {
				orders[strings.Join(t.VerifTimeStackOrder(), ",")] = true
				r.Checked("deep.cpistack-order")
				for i, simd := range []bool{false, true} {
					if got := rows(t, simd); got != ref[i] {
						r.Failf("C05.map-order.cpiStack", line(map[bool]uint64{false: inst, true: valu}[simd]),
							"tracer built with another insertion history (or a repeated call) reports [%s], the first call [%s]", got, ref[i])
					}
				}
				// the maps themselves
				a, b := t.GetCPIStack(), t0.GetCPIStack()
				if len(a) != len(b) {
					r.Failf("C05.map-order.cpiStack", line(inst), "GetCPIStack returns %d entries, first tracer %d", len(a), len(b))
				}
				for k2, v := range b {
					if math.Float64bits(a[k2]) != math.Float64bits(v) {
						r.Failf("C05.map-order.cpiStack", line(inst), "GetCPIStack[%s] = %v, first tracer %v", k2, a[k2], v)
					}
				}
			}
		}
		if len(keys) >= 3 {
			multi++
			if len(orders) >= 2 {
				varied++
			}
		}
		r.CountN("deep.cpistack.distinct-iteration-orders", len(orders))
	}
	if multi > 0 && varied*2 < multi {
		r.Note("C05 deep: timeStack showed more than one iteration order in only %d of %d contents with >= 3 keys", varied, multi)
	}
}

// =====================================================================================
// (C) whole simulations under host-timing perturbation: the same workload in child processes,
// once with the ENGINE thread delayed right after it signalled "command done" and once with the
// APPLICATION thread delayed before it notices (pure sleeps at yield points of the hand-off).
// Device memory must be identical; simulated time is compared and a difference reported under
// the signature of the hand-off finding.
// =====================================================================================

// c05wl child: one whole simulation (platform built as amd/samples/runner does, benchmark from
// the workload table) with a host-timing perturbation. mode "engine": the engine goroutine sleeps
// before every tick event of the driver; mode "app": the application goroutine sleeps before
// every queue check of DrainCommandQueue. Prints one JSON line.
type c05DelayHook struct {
	handler sim.Handler
	d       time.Duration
}

func (h *c05DelayHook) Func(ctx sim.HookCtx) {
	if ctx.Pos != sim.HookPosBeforeEvent {
		return
	}
	if evt, ok := ctx.Item.(sim.Event); ok && evt.Handler() == h.handler {
		time.Sleep(h.d)
	}
}

type c05WlResult struct {
	SimTime  float64
	Events   int64
	Ticks    int64
	VerifyOK bool
	Fault    string
}

func init() {
	childFuncs["c05wl"] = func(args []string) {
		bench, timing, mode := args[0], args[1] == "1", args[2]
		seed, _ := strconv.ParseInt(args[3], 10, 64)
		dir, _ := os.MkdirTemp("", "c05wl")
		defer os.RemoveAll(dir)
		def := benchByName(bench)
		if def == nil {
			os.Exit(2)
		}
		log.SetOutput(io.Discard)
		s := simulation.MakeBuilder().WithoutMonitoring().WithOutputFileName(filepath.Join(dir, "akita_sim")).Build()
		a := archOf("gcn3")
		if timing {
			sampling.InitSampledEngine()
			timingconfig.MakeBuilder().WithSimulation(s).WithNumGPUs(1).WithGPUType("r9nano").Build()
		} else {
			emusystem.MakeBuilder().WithSimulation(s).WithNumGPUs(1).WithArchitecture(a).Build()
		}
		drv := s.GetComponentByName("Driver").(*driver.Driver)
		var events int64
		s.GetEngine().AcceptHook(&eventCounter{n: &events})
		switch mode {
		case "engine":
			s.GetEngine().AcceptHook(&c05DelayHook{handler: sim.Handler(drv.TickingComponent), d: 300 * time.Microsecond})
		case "app":
			driver.VerifYield = func(p string) {
				if p == "drain.beforeCheck" {
					time.Sleep(300 * time.Microsecond)
				}
			}
		}
		rand.Seed(seed)
		res := c05WlResult{}
		b := def.build(drv, a, cloneParams(def.sizes[0]))
		b.SelectGPU([]int{1})
		drv.Run()
		if f := catchMsg(b.Run); f != "" {
			res.Fault = "panic:" + classifyText(f)
		} else {
			res.SimTime = float64(s.GetEngine().CurrentTime())
			res.Events = atomic.LoadInt64(&events)
			res.VerifyOK = catchMsg(b.Verify) == ""
		}
		out, _ := json.Marshal(res)
		fmt.Println("C05WL " + string(out))
		os.Exit(0)
	}
}

func c05RunWl(bench string, timing bool, mode string, seed uint64, timeout time.Duration) (res c05WlResult) {
	exe, err := os.Executable()
	if err != nil {
		exe = os.Args[0]
	}
	t := "0"
	if timing {
		t = "1"
	}
	ctx, cancel := context.WithTimeout(context.Background(), timeout)
	defer cancel()
	cmd := exec.CommandContext(ctx, exe, "child", "c05wl", bench, t, mode, fmt.Sprint(seed))
	cmd.Env = append(os.Environ(), "GOMAXPROCS=4", "GOMEMLIMIT=6GiB")
	out, err := cmd.Output()
	for _, ln := range strings.Split(string(out), "\n") {
		if strings.HasPrefix(ln, "C05WL ") {
			if json.Unmarshal([]byte(ln[6:]), &res) == nil {
				return res
			}
		}
	}
	res.Fault = fmt.Sprintf("no result (%v)", err)
	return res
}

func c05PerturbedRuns(r *Run, rng *Rng) {
	known := map[string]bool{}
	for _, b := range BenchNames() {
		known[b] = true
	}
	type wl struct {
		bench  string
		timing bool
	}
	wls := []wl{{"fir", false}, {"fir", true}, {"vectoradd", true}}
	if r.Tier == "thorough" {
		wls = append(wls, wl{"vectoradd", false}, wl{"matrixtranspose", true}, wl{"kmeans", false}, wl{"atax", true}, wl{"bitonicsort", true})
	}
	modes := []string{"none", "engine", "app"}
	type job struct {
		w    wl
		mode string
		res  c05WlResult
	}
	var jobs []*job
	for _, w := range wls {
		if !known[w.bench] {
			continue
		}
		for _, m := range modes {
			jobs = append(jobs, &job{w: w, mode: m})
		}
	}
	var wg sync.WaitGroup
	sem := make(chan struct{}, 6)
	for _, j := range jobs {
		wg.Add(1)
		go func(j *job) {
			defer wg.Done()
			sem <- struct{}{}
			j.res = c05RunWl(j.w.bench, j.w.timing, j.mode, r.Seed, 240*time.Second)
			<-sem
		}(j)
	}
	wg.Wait()
	for i := 0; i+2 < len(jobs); i += 3 {
		ref := jobs[i]
		id := fmt.Sprintf("workload %s timing=%v gcn3 r9nano gpus=1 (default size)", ref.w.bench, ref.w.timing)
		r.Count("perturbed." + ref.w.bench)
		reported := false
		for _, j := range jobs[i+1 : i+3] {
			if ref.res.Fault != "" || j.res.Fault != "" {
				r.Note("C05 perturbed run of %s did not complete (%q / %s: %q)", id, ref.res.Fault, j.mode, j.res.Fault)
				continue
			}
			r.Checked("perturbed.verify")
			if !j.res.VerifyOK || !ref.res.VerifyOK {
				r.Failf("C05.perturbed-verify."+ref.w.bench, id, "Verify() fails under host-timing perturbation %q (unperturbed ok=%v)", j.mode, ref.res.VerifyOK)
			}
			r.Checked("perturbed.time")
			if j.res.SimTime != ref.res.SimTime && !reported {
				reported = true
				r.Failf("C05.sched-time", id, "whole simulation, one application thread, serial engine: simulated time %.9f s (%d events) unperturbed, %.9f s (%d events) when the %s thread is delayed 0.3 ms at each hand-off (difference %.1f driver cycles)",
					ref.res.SimTime, ref.res.Events, j.res.SimTime, j.res.Events, j.mode, (j.res.SimTime-ref.res.SimTime)*1e9)
			}
		}
	}
}

func runC05Deep(r *Run, rng *Rng, replay string) {
	only := os.Getenv("C05_ONLY")
	if only == "" || only == "sites" {
		c05DeepDevid(r, rng)
		c05DeepDecoder(r, rng)
		c05DeepCPIStack(r, rng)
	}
	if only == "" || only == "tsched" {
		c05TimedSchedules(r, rng)
	}
	if only == "" || only == "perturb" {
		c05PerturbedRuns(r, rng)
	}
}
