package main

import (
	"encoding/json"
	"fmt"
	"os"
	"path/filepath"
	"sort"
	"strings"
	"sync"

	"github.com/sarchlab/akita/v4/sim"
)

// ---------------------------------------------------------------- PRNG

// Rng is a splitmix64 generator; every random choice of a run derives from one
// state seeded by VERIF_SEED so a disagreement replays exactly.
type Rng struct{ s uint64 }

func NewRng(seed uint64) *Rng {
	// scramble the seed first: with a plain multiple of the increment, seeds k and k+1 would
	// produce shifted copies of one stream
	z := (seed ^ 0xD6E8FEB86659FD93) * 0xBF58476D1CE4E5B9
	z = (z ^ (z >> 29)) * 0x94D049BB133111EB
	return &Rng{s: z ^ (z >> 32)}
}

func (r *Rng) U64() uint64 {
	r.s += 0x9E3779B97F4A7C15
	z := r.s
	z = (z ^ (z >> 30)) * 0xBF58476D1CE4E5B9
	z = (z ^ (z >> 27)) * 0x94D049BB133111EB
	return z ^ (z >> 31)
}
func (r *Rng) Intn(n int) int {
	if n <= 0 {
		return 0
	}
	return int(r.U64() % uint64(n))
}
func (r *Rng) Range(lo, hi int) int { return lo + r.Intn(hi-lo+1) }
func (r *Rng) Bool() bool           { return r.U64()&1 == 1 }
func (r *Rng) Chance(pct int) bool  { return r.Intn(100) < pct }
func (r *Rng) Pick(xs ...int) int   { return xs[r.Intn(len(xs))] }
func (r *Rng) Bytes(n int) []byte {
	b := make([]byte, n)
	for i := range b {
		b[i] = byte(r.U64())
	}
	return b
}
func (r *Rng) Perm(n int) []int {
	p := make([]int, n)
	for i := range p {
		p[i] = i
	}
	for i := n - 1; i > 0; i-- {
		j := r.Intn(i + 1)
		p[i], p[j] = p[j], p[i]
	}
	return p
}

// ---------------------------------------------------------------- run record

// Run collects what one harness invocation did: the case lines (model inputs),
// what the implementation answered, oracle failures, and the distribution.
type Run struct {
	mu       sync.Mutex
	Prop     string
	Tier     string
	Seed     uint64
	OutDir   string
	ops      []string
	impl     []string
	fails    []Fail
	Dist     map[string]int
	distinct map[string]struct{}
	Samples  []string
	Oracle   int
	Notes    []string
	// OracleOnly: scenario functions of ANOTHER property are being reused for their
	// implementation-side oracles; their case lines belong to that property's model and are
	// not recorded for this property's correspondence.
	OracleOnly bool
}

// Fail is an implementation-side property-oracle failure.
type Fail struct {
	Sig    string `json:"sig"`    // stable signature used to match known findings
	Case   string `json:"case"`   // the concrete input / history
	Detail string `json:"detail"` // expected vs actual
}

func NewRun(prop, tier string, seed uint64, out string) *Run {
	return &Run{Prop: prop, Tier: tier, Seed: seed, OutDir: out,
		Dist: map[string]int{}, distinct: map[string]struct{}{}}
}

// Case records one correspondence case: the model input line and the
// implementation's canonical answer.
func (r *Run) Case(op, implOut string) {
	r.mu.Lock()
	defer r.mu.Unlock()
	if r.OracleOnly {
		r.Dist["cross-oracle-cases"]++
		return
	}
	op = strings.ReplaceAll(op, "\n", " ")
	implOut = strings.ReplaceAll(implOut, "\n", " ")
	r.ops = append(r.ops, op)
	r.impl = append(r.impl, implOut)
	r.distinct[op] = struct{}{}
	if len(r.Samples) < 4 {
		s := op + "  =>  " + implOut
		if len(s) > 600 {
			s = s[:600] + "…"
		}
		r.Samples = append(r.Samples, s)
	}
}

// Checked counts one implementation-side oracle evaluation.
func (r *Run) Checked(kind string) {
	r.mu.Lock()
	r.Oracle++
	r.Dist["oracle:"+kind]++
	r.mu.Unlock()
}

// Failf records an oracle failure.
func (r *Run) Failf(sig, cs, format string, a ...interface{}) {
	r.mu.Lock()
	defer r.mu.Unlock()
	if len(r.fails) < 2000 {
		r.fails = append(r.fails, Fail{Sig: sig, Case: cs, Detail: fmt.Sprintf(format, a...)})
	}
}

func (r *Run) Count(k string) { r.mu.Lock(); r.Dist[k]++; r.mu.Unlock() }
func (r *Run) CountN(k string, n int) {
	r.mu.Lock()
	r.Dist[k] += n
	r.mu.Unlock()
}
func (r *Run) Note(format string, a ...interface{}) {
	r.mu.Lock()
	r.Notes = append(r.Notes, fmt.Sprintf(format, a...))
	r.mu.Unlock()
}

// Flush writes ops.txt, impl.out, oracle.json, stats.json into OutDir.
func (r *Run) Flush() {
	must(os.MkdirAll(r.OutDir, 0o755))
	must(os.WriteFile(filepath.Join(r.OutDir, "ops.txt"), []byte(joinLines(r.ops)), 0o644))
	must(os.WriteFile(filepath.Join(r.OutDir, "impl.out"), []byte(joinLines(r.impl)), 0o644))
	fb, _ := json.MarshalIndent(r.fails, "", " ")
	must(os.WriteFile(filepath.Join(r.OutDir, "oracle.json"), fb, 0o644))
	keys := make([]string, 0, len(r.Dist))
	for k := range r.Dist {
		keys = append(keys, k)
	}
	sort.Strings(keys)
	st := map[string]interface{}{
		"prop": r.Prop, "tier": r.Tier, "seed": r.Seed,
		"cases": len(r.ops), "distinct_cases": len(r.distinct),
		"oracle_evaluations": r.Oracle, "oracle_failures": len(r.fails),
		"distribution": r.Dist, "samples": r.Samples, "notes": r.Notes,
	}
	sb, _ := json.MarshalIndent(st, "", " ")
	must(os.WriteFile(filepath.Join(r.OutDir, "stats.json"), sb, 0o644))
}

func joinLines(l []string) string {
	if len(l) == 0 {
		return ""
	}
	return strings.Join(l, "\n") + "\n"
}

func must(err error) {
	if err != nil {
		panic(err)
	}
}

// catch runs f and maps a panic to a small enum string.
func catch(f func()) (fault string) {
	defer func() {
		if e := recover(); e != nil {
			fault = classifyPanic(e)
		}
	}()
	f()
	return ""
}

func classifyPanic(e interface{}) string {
	s := fmt.Sprint(e)
	switch {
	case strings.Contains(s, "nil pointer"):
		return "nilderef"
	case strings.Contains(s, "out of range"):
		return "bounds"
	default:
		s = strings.ToLower(s)
		s = strings.Map(func(r rune) rune {
			if (r >= 'a' && r <= 'z') || (r >= '0' && r <= '9') {
				return r
			}
			return '_'
		}, s)
		if len(s) > 40 {
			s = s[:40]
		}
		return "explicit:" + s
	}
}

// ---------------------------------------------------------------- fake Akita environment

// fakeEngine satisfies sim.Engine; events are counted, never run.
type fakeEngine struct {
	sim.HookableBase
	now       sim.VTimeInSec
	scheduled int
}

func (e *fakeEngine) Schedule(evt sim.Event)            { e.scheduled++ }
func (e *fakeEngine) Run() error                        { return nil }
func (e *fakeEngine) Pause()                            {}
func (e *fakeEngine) Continue()                         {}
func (e *fakeEngine) CurrentTime() sim.VTimeInSec       { return e.now }

// fakeConn is a connection that does nothing: the harness moves messages by
// hand with port.Deliver / port.RetrieveOutgoing.
type fakeConn struct {
	sim.HookableBase
	name string
}

func (c *fakeConn) Name() string                  { return c.name }
func (c *fakeConn) PlugIn(port sim.Port)          { port.SetConnection(c) }
func (c *fakeConn) Unplug(port sim.Port)          {}
func (c *fakeConn) NotifyAvailable(port sim.Port) {}
func (c *fakeConn) NotifySend()                   {}

// idMap renumbers the string IDs the code under test creates by first appearance.
type idMap struct {
	m map[string]int
}

func newIDMap() *idMap { return &idMap{m: map[string]int{}} }
func (m *idMap) get(id string) int {
	if v, ok := m.m[id]; ok {
		return v
	}
	v := len(m.m) + 1
	m.m[id] = v
	return v
}

func hexb(b []byte) string {
	const d = "0123456789abcdef"
	o := make([]byte, 0, 2*len(b))
	for _, x := range b {
		o = append(o, d[x>>4], d[x&15])
	}
	return string(o)
}

func fnv(b []byte) uint64 {
	h := uint64(14695981039346656037)
	for _, x := range b {
		h = (h ^ uint64(x)) * 1099511628211
	}
	return h
}
