#!/bin/sh
# scratch worktree of /repo for an independent mutation author: /tmp/mut/<ID>/repo (+ /tmp/mut/<ID>/out)
set -e
ID=$1
mkdir -p /tmp/mut/$ID/out
git -C /repo worktree add -q --detach /tmp/mut/$ID/repo HEAD
echo /tmp/mut/$ID ready
