#!/usr/bin/env python3
"""seeded/SUMMARY.md: one row per seeded change with what our checks said."""
import glob, json, os
R = os.path.dirname(os.path.abspath(__file__))
rows = []
for f in sorted(glob.glob(os.path.join(R, "seeded", "*", "meta.json"))):
    m = json.load(open(f)); d = os.path.basename(os.path.dirname(f))
    c = m.get("confirmed", {})
    ok = c.get("demo_without_patch_exit") == 0 and c.get("demo_with_patch_exit", 0) != 0 and c.get("build_exit") == 0 and c.get("existing_tests_exit") == 0
    oc = m.get("our_check", {})
    det = ", ".join(f"{t}: {'caught' if v.get('detected') else 'MISSED'}" for t, v in sorted(oc.items()))
    rows.append(f"| {d} | {m.get('title', m.get('what_breaks', ''))[:90]} | {str(m.get('needs_to_manifest', ''))[:110]} | {'yes' if ok else 'NO'} | {det} | {m.get('caught_by', '')} |")
out = "| change | what it breaks | needs to manifest | confirmed (demo fails with / passes without, builds, tests pass) | our check | caught by |\n|---|---|---|---|---|---|\n" + "\n".join(rows) + "\n"
open(os.path.join(R, "seeded", "SUMMARY.md"), "w").write(out)
print(out)
