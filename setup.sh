#!/bin/sh
# Build the whole framework offline from files on disk: Lean project, translator, harness.
set -e
cd "$(dirname "$0")"
export GOFLAGS=-mod=mod GOPROXY=off
unset GOTOOLCHAIN GOSUMDB || true
mkdir -p run evidence replays
if [ -d translate ] && [ -f translate/go.mod ]; then
  (cd translate && go build -o bin/translate . && ./bin/translate -repo /repo -out ../lean/MgpuModel/Gen -only all)
fi
python3 gen_main.py
(cd lean && lake build)
(cd harness && cp /repo/go.sum go.sum && go build -tags verif -o bin/harness .)
echo setup done
