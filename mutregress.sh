#!/bin/bash
# Regression over the archived seeded changes: applies every seeded/<id>/patch.diff that still
# applies to the current code in a PRIVATE pair of worktrees (/tmp/vreg/{verif,repo}), runs the
# property's quick check there and records whether it is still reported. /repo and /verif are not
# touched, so this can run next to other work. usage: mutregress.sh [id-regex]
PAT=${1:-.}
export GOFLAGS=-mod=mod GOPROXY=off; unset GOTOOLCHAIN GOSUMDB
V=/tmp/vreg/verif; R=/tmp/vreg/repo
git -C /verif worktree remove --force $V 2>/dev/null; git -C /repo worktree remove --force $R 2>/dev/null; rm -rf /tmp/vreg; mkdir -p /tmp/vreg
git -C /verif worktree add --detach -q $V HEAD && git -C /repo worktree add --detach -q $R HEAD || exit 2
export VERIF_REPO=$R
(cd $V && python3 gen_main.py >/dev/null && cd lean && lake build > /tmp/vreg/lake.log 2>&1) || { echo "lake build failed in $V"; tail -5 /tmp/vreg/lake.log; }
OUT=/verif/seeded/REGRESSION.md
echo "| change | applies to current code | quick check of its property |" > $OUT.tmp; echo "|---|---|---|" >> $OUT.tmp
for d in $(ls -d /verif/seeded/C*/ | sort); do
  id=$(basename $d); echo $id | grep -Eq "$PAT" || continue
  prop=${id%%-*}
  if ! git -C $R apply --check $d/patch.diff 2>/dev/null; then
    echo "| $id | no (code repaired or moved since) | - |" >> $OUT.tmp; echo "$id: does not apply"; continue
  fi
  git -C $R apply $d/patch.diff
  (cd $V && ./check $prop > /tmp/vreg/$id.out 2>&1); rc=$?
  git -C $R checkout -q -- . ; git -C $R clean -fdq
  git -C $V checkout -q -- . 2>/dev/null
  if [ $rc = 1 ]; then
    if grep -q "no-failing-input-found" /tmp/vreg/$id.out; then res="reported (no-failing-input-found)"; else res="reported with a concrete input: $(grep -o 'oracle-failure [^:]*' /tmp/vreg/$id.out | head -1 | cut -d' ' -f2)"; fi
  else res="NOT REPORTED (exit $rc)"; fi
  echo "| $id | yes | $res |" >> $OUT.tmp; echo "$id: $res"
done
mv $OUT.tmp $OUT
git -C /verif worktree remove --force $V; git -C /repo worktree remove --force $R; rm -rf /tmp/vreg
