#!/bin/sh
# creates the per-agent worktrees /work/<ID>/{verif,repo} on branches <id>
set -e
ID=$1; id=$(echo $ID | tr A-Z a-z)
mkdir -p /work/$ID
git -C /verif worktree add -q -b $id /work/$ID/verif
git -C /repo worktree add -q -b $id /work/$ID/repo
echo /work/$ID ready
