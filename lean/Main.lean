import MgpuModel.C11

def dispatch (line : String) : String :=
  match (line.splitOn " ").filter (· ≠ "") with
  | "c11" :: _ => C11.handle line
  | _ => "bad-op"

partial def loop (h : IO.FS.Stream) (out : IO.FS.Stream) : IO Unit := do
  let line ← h.getLine
  if line.isEmpty then return ()
  let l := line.trimAscii.toString
  out.putStrLn (dispatch l)
  loop h out

def main : IO Unit := do
  let i ← IO.getStdin
  let o ← IO.getStdout
  loop i o
  o.flush
