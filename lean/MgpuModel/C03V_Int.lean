/-! # C03V — per-lane integer semantics of the vector ALU (ISA transcription, core Lean)

Written from the GCN3 / CDNA3 ISA manuals' pseudo code in bit-level style (shifts, masks,
wrap-around arithmetic, unsigned compares for carries).  `MgpuProofs/Props/C03V.lean` proves for
ALL operands what each function means arithmetically (meaning lemmas), so that this file is not
just a second copy of the Go handlers. -/
namespace C03V.I

abbrev W := BitVec 32
abbrev D := BitVec 64

/-! ## add / sub with carry -/
/-- V_ADD_CO_U32: D = S0 + S1, carry-out = unsigned overflow -/
def addCo (a b : W) : W × Bool := (a + b, BitVec.ult (a + b) a)
/-- V_SUB_CO_U32: D = S0 - S1, borrow-out = S1 > S0 -/
def subCo (a b : W) : W × Bool := (a - b, BitVec.ult a b)
/-- V_ADDC_CO_U32: D = S0 + S1 + cin; carry-out of the 33-bit sum -/
def addcCo (a b : W) (cin : Bool) : W × Bool :=
  let c : W := if cin then 1#32 else 0#32
  (a + b + c, BitVec.ult (a + b) a || BitVec.ult (a + b + c) (a + b))
/-- V_SUBB_CO_U32: D = S0 - S1 - cin; borrow-out = S1 + cin > S0 -/
def subbCo (a b : W) (cin : Bool) : W × Bool :=
  let c : W := if cin then 1#32 else 0#32
  (a - b - c, BitVec.ult a b || BitVec.ult (a - b) c)

/-! ## multiplies -/
def mulLo (a b : W) : W := a * b
def mulHiU (a b : W) : W := ((a.setWidth 64 * b.setWidth 64) >>> 32).setWidth 32
def mulHiI (a b : W) : W := ((a.signExtend 64 * b.signExtend 64) >>> 32).setWidth 32
def sext24 (a : W) : W := (a.setWidth 24).signExtend 32
def zext24 (a : W) : W := a &&& 0xFFFFFF#32
def mulI24 (a b : W) : W := sext24 a * sext24 b
def mulU24 (a b : W) : W := zext24 a * zext24 b
def madI24 (a b c : W) : W := sext24 a * sext24 b + c
def madU24 (a b c : W) : W := zext24 a * zext24 b + c
/-- V_MAD_U64_U32: D.u64 = S0.u32 * S1.u32 + S2.u64, carry-out of the 64-bit add -/
def madU64U32 (a b : W) (c : D) : D × Bool :=
  let p : D := a.setWidth 64 * b.setWidth 64
  (p + c, BitVec.ult (p + c) p)

/-! ## shifts (the *rev forms take the shift count in S0) -/
def lshlrev (a b : W) : W := b <<< (a &&& 31#32)
def lshrrev (a b : W) : W := b >>> (a &&& 31#32)
def ashrrev (a b : W) : W := b.sshiftRight (a &&& 31#32).toNat
def lshlrev64 (a : W) (b : D) : D := b <<< (a &&& 63#32)
def lshrrev64 (a : W) (b : D) : D := b >>> (a &&& 63#32)
def ashrrev64 (a : W) (b : D) : D := b.sshiftRight (a &&& 63#32).toNat
/-- 16-bit shift: count from S0[3:0], data S1[15:0], result zero-extended -/
def lshlrev16 (a b : W) : W := ((b.setWidth 16) <<< (a &&& 15#32)).setWidth 32
def addU16 (a b : W) : W := (a.setWidth 16 + b.setWidth 16).setWidth 32

/-! ## bit fields -/
def maskW (w : Nat) : W := (1#32 <<< w) - 1#32
/-- V_BFE_U32: (S0 >> S1[4:0]) & ((1 << S2[4:0]) - 1) -/
def bfeU (a off wd : W) : W := (a >>> (off &&& 31#32)) &&& maskW (wd &&& 31#32).toNat
/-- V_BFE_I32: (S0.i >> S1[4:0]) & ((1 << S2[4:0]) - 1), sign-extended from bit width-1 -/
def bfeI (a off wd : W) : W :=
  let w := (wd &&& 31#32).toNat
  let x := (a.sshiftRight (off &&& 31#32).toNat) &&& maskW w
  if w == 0 then 0#32
  else if x.getLsbD (w - 1) then x ||| ~~~ maskW w else x
def bfi (a b c : W) : W := (a &&& b) ||| (~~~a &&& c)
/-- V_ALIGNBIT_B32: ({S0,S1} >> S2[4:0])[31:0] -/
def alignbit (a b c : W) : W := (((a ++ b) >>> (c &&& 31#32).toNat)).setWidth 32
def lshlAdd (a b c : W) : W := (a <<< (b &&& 31#32)) + c
def addLshl (a b c : W) : W := (a + b) <<< (c &&& 31#32)
def add3 (a b c : W) : W := a + b + c
/-- V_XAD_U32 (GFX9): D.u32 = (S0.u32 ^ S1.u32) + S2.u32, no carry -/
def xad (a b c : W) : W := (a ^^^ b) + c
def lshlOr (a b c : W) : W := (a <<< (b &&& 31#32)) ||| c
/-- V_LSHL_ADD_U64: (S0.u64 << S1[2:0]) + S2.u64 -/
def lshlAdd64 (a : D) (b : W) (c : D) : D := (a <<< (b &&& 7#32)) + c

def bfrev (a : W) : W := a.reverse
/-- V_FFBH_U32: number of leading zero bits, -1 when the source is 0 -/
def ffbh (a : W) : W := if a == 0#32 then 0xFFFFFFFF#32 else BitVec.ofNat 32 (31 - Nat.log2 a.toNat)
/-- V_FFBL_B32: index of the lowest set bit, -1 when the source is 0 -/
def ffbl (a : W) : W :=
  if a == 0#32 then 0xFFFFFFFF#32 else
  BitVec.ofNat 32 (Nat.log2 ((a &&& (0#32 - a)).toNat))

/-! ## min / max / med3 -/
def minU (a b : W) : W := if BitVec.ult a b then a else b
def maxU (a b : W) : W := if BitVec.ult a b then b else a
def minI (a b : W) : W := if BitVec.slt a b then a else b
def maxI (a b : W) : W := if BitVec.slt a b then b else a
def min3U (a b c : W) : W := minU (minU a b) c
def max3U (a b c : W) : W := maxU (maxU a b) c
def min3I (a b c : W) : W := minI (minI a b) c
def max3I (a b c : W) : W := maxI (maxI a b) c
/-- median of three: max(min(a,b), min(max(a,b), c)) -/
def med3U (a b c : W) : W := maxU (minU a b) (minU (maxU a b) c)
def med3I (a b c : W) : W := maxI (minI a b) (minI (maxI a b) c)

/-! ## integer compares; `op`: 0 F, 1 LT, 2 EQ, 3 LE, 4 GT, 5 NE, 6 GE, 7 T -/
def cmpOp (op : Nat) (lt eq : Bool) : Bool :=
  match op with
  | 0 => false
  | 1 => lt
  | 2 => eq
  | 3 => lt || eq
  | 4 => !(lt || eq)
  | 5 => !eq
  | 6 => !lt
  | _ => true
def cmpU {n : Nat} (op : Nat) (a b : BitVec n) : Bool := cmpOp op (BitVec.ult a b) (a == b)
def cmpI {n : Nat} (op : Nat) (a b : BitVec n) : Bool := cmpOp op (BitVec.slt a b) (a == b)

/-! ## SDWA sub-dword selection: sel 0..3 = BYTE_0..3, 4/5 = WORD_0/1, 6 = DWORD -/
def sdwaSrc (x : W) (sel : Nat) (sext : Bool) : W :=
  match sel with
  | 0 => if sext then (x.setWidth 8).signExtend 32 else (x.setWidth 8).setWidth 32
  | 1 => if sext then ((x >>> 8).setWidth 8).signExtend 32 else ((x >>> 8).setWidth 8).setWidth 32
  | 2 => if sext then ((x >>> 16).setWidth 8).signExtend 32 else ((x >>> 16).setWidth 8).setWidth 32
  | 3 => if sext then ((x >>> 24).setWidth 8).signExtend 32 else ((x >>> 24).setWidth 8).setWidth 32
  | 4 => if sext then (x.setWidth 16).signExtend 32 else (x.setWidth 16).setWidth 32
  | 5 => if sext then ((x >>> 16).setWidth 16).signExtend 32 else ((x >>> 16).setWidth 16).setWidth 32
  | _ => x
def sdwaMask (sel : Nat) : W :=
  match sel with
  | 0 => 0x000000FF#32
  | 1 => 0x0000FF00#32
  | 2 => 0x00FF0000#32
  | 3 => 0xFF000000#32
  | 4 => 0x0000FFFF#32
  | 5 => 0xFFFF0000#32
  | _ => 0xFFFFFFFF#32
def sdwaShift (sel : Nat) : Nat :=
  match sel with
  | 1 => 8
  | 2 => 16
  | 3 => 24
  | 5 => 16
  | _ => 0
def sdwaBits (sel : Nat) : Nat :=
  match sel with
  | 0 | 1 | 2 | 3 => 8
  | 4 | 5 => 16
  | _ => 32
/-- destination selection; `unused` 0 = pad with zeros, 1 = sign-extend above the field,
    2 = preserve the other bits of the old destination -/
def sdwaDst (old new : W) (sel unused : Nat) : W :=
  let m := sdwaMask sel
  let placed := (new <<< sdwaShift sel) &&& m
  match unused with
  | 2 => (old &&& ~~~m) ||| placed
  | 1 =>
    let top := sdwaShift sel + sdwaBits sel
    let hi : W := if new.getLsbD (sdwaBits sel - 1) then (0xFFFFFFFF#32 <<< top) else 0#32
    placed ||| hi
  | _ => placed

/-! ## memory helpers -/
/-- zero / sign extension of an n-byte little-endian value to 32 bits -/
def extend (nbytes : Nat) (signed : Bool) (v : Nat) : Nat :=
  let bits := 8 * nbytes
  let x := v % 2 ^ bits
  if signed && x ≥ 2 ^ (bits - 1) then x + (2 ^ 32 - 2 ^ bits) else x
/-- DS address of the two-offset forms: base + offset * element size, 32-bit wrap -/
def ds2Addr (base off esize : Nat) : Nat := (base + off * esize) % 2 ^ 32
/-- sign extension of the 13-bit instruction offset of GLOBAL/SCRATCH (CDNA3) -/
def sext13 (o : Nat) : Int := if o % 8192 ≥ 4096 then (o % 8192 : Int) - 8192 else (o % 8192 : Int)

end C03V.I
