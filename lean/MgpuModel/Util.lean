/-! Shared helpers for the line-protocol driver (core Lean only). -/
namespace Util

def hexDigit? (c : Char) : Option Nat :=
  if '0' ≤ c ∧ c ≤ '9' then some (c.toNat - '0'.toNat)
  else if 'a' ≤ c ∧ c ≤ 'f' then some (c.toNat - 'a'.toNat + 10)
  else if 'A' ≤ c ∧ c ≤ 'F' then some (c.toNat - 'A'.toNat + 10)
  else none

def hexNat? (s : String) : Option Nat :=
  if s.isEmpty then none else
  s.foldl (fun acc c => match acc, hexDigit? c with
    | some a, some d => some (a * 16 + d)
    | _, _ => none) (some 0)

/-- hex string (two digits per byte) to bytes -/
def hexBytes? (s : String) : Option (List Nat) :=
  let rec go : List Char → Option (List Nat)
    | [] => some []
    | a :: b :: rest => do
        let x ← hexDigit? a
        let y ← hexDigit? b
        let r ← go rest
        pure ((x * 16 + y) :: r)
    | _ => none
  go s.toList

def hexChar (n : Nat) : Char :=
  if n < 10 then Char.ofNat (n + '0'.toNat) else Char.ofNat (n - 10 + 'a'.toNat)

def toHex (n : Nat) : String :=
  let rec go (fuel n : Nat) (acc : List Char) : List Char :=
    match fuel with
    | 0 => acc
    | fuel + 1 => if n < 16 then hexChar n :: acc else go fuel (n / 16) (hexChar (n % 16) :: acc)
  String.ofList (go 64 n [])

def toHexPad (width n : Nat) : String :=
  let s := toHex n
  String.ofList (List.replicate (width - s.length) '0') ++ s

def bytesHex (bs : List Nat) : String :=
  String.join (bs.map (toHexPad 2))

/-- `k=v` lookup among tokens -/
def kv? (toks : List String) (k : String) : Option String :=
  toks.findSome? fun t => if t.startsWith (k ++ "=") then some ((t.drop (k.length + 1)).toString) else none

def kvNat? (toks : List String) (k : String) : Option Nat := (kv? toks k).bind String.toNat?
def kvHex? (toks : List String) (k : String) : Option Nat := (kv? toks k).bind hexNat?

def splitTrim (s : String) (sep : String) : List String :=
  (s.splitOn sep).map (fun t => t.trimAscii.toString) |>.filter (· ≠ "")

def words (s : String) : List String := (s.splitOn " ").filter (· ≠ "")

def natList? (s : String) (sep : String := ",") : Option (List Nat) :=
  if s = "" || s = "-" then some [] else (s.splitOn sep).mapM String.toNat?

def joinWith (sep : String) (l : List String) : String := sep.intercalate l

/-- FNV-1a style 64-bit hash of a byte list (used to compare large byte images) -/
def fnv (bs : List Nat) : Nat :=
  bs.foldl (fun h b => ((h ^^^ (b % 256)) * 1099511628211) % 18446744073709551616) 14695981039346656037

end Util
