import MgpuModel.C18_Base
/-! # C18 — virtual memory over an arbitrary page placement (`c18 mem`)

The data half of C18's first sentence ("results do not depend on how data are spread over GPUs") at
the memory level. A platform is `n` GPUs with `S` bytes each (bank 0 = host, bank `i` = GPU `i`,
the layout of `bank` / `isLocal`), a page size `P` and an *arbitrary* page table (any outcome of the
driver's `Distribute` / `Remap`). One access is issued by some GPU `g`; every byte is translated
(`PAddr + vaddr % pageSize`, `addresstranslator`) and routed exactly as the timing platform routes
it: `isLocal S g pa` (the L1→L2 `InterleavedAddressPortMapper` with address-space limitation,
`r9nano/builder.go`) keeps it in `g`'s own L2/DRAM, otherwise the RDMA engine looks the destination
up in the `BankedAddressPortMapper` (`routeOut`; index beyond the table = Go slice panic = fault
`bounds`; destination 0 is the pseudo port "CPU" that nobody serves = fault `cpu`), and the
destination GPU's engine hands the request to *its* local mapper (`localModules.Find`); if that
mapper does not keep the address local the request would be sent back to the RDMA engine for ever
(fault `loop`, proved unreachable).

Each GPU has its own memory (`DRAM g pa`, initially zero). The real platform backs all DRAM
controllers by one shared `mem.Storage`, but the write-back L2 caches are private per GPU, so "which
GPU holds the byte" is what has to be unique; private memories make a wrong routing decision visible.
Addresses are naturals (no 64-bit wrap-around). -/
namespace C18
open Util

/-- page size `P`, per-GPU memory size `S` (= `BankSize` of the RDMA table = width of every GPU's
    local range), `n` GPUs -/
structure MemCfg where
  P : Nat
  S : Nat
  n : Nat
deriving Repr, DecidableEq

/-- virtual page number → global physical page number (first entry wins) -/
abbrev PageTable := List (Nat × Nat)

inductive MFault
  /-- no page-table entry for the virtual page -/
  | page
  /-- physical address beyond the RDMA table (`LowModules[i]` panics) -/
  | bounds
  /-- remote physical address in bank 0 (port "CPU") -/
  | cpu
  /-- destination GPU does not keep the address local -/
  | loop
deriving DecidableEq, Repr

def MFault.str : MFault → String
  | .page => "page"
  | .bounds => "bounds"
  | .cpu => "cpu"
  | .loop => "loop"

/-- `pageTable.Find` + `page.PAddr + vAddr % pageSize` -/
def translate (c : MemCfg) (pt : PageTable) (v : Nat) : Option Nat :=
  match pt.lookup (v / c.P) with
  | none => none
  | some pp => some (pp * c.P + v % c.P)

/-- the RDMA engine's remote table of this platform (only `bankSize`, `nBanks` matter to `routeOut`) -/
def rdmaCfg (c : MemCfg) : Cfg :=
  { cap := 0
    wReqOut := 0
    wRspOut := 0
    wReqIn := 0
    wRspIn := 0
    bankSize := c.S
    nBanks := c.n + 1
    isz := 0
    k := 0
    lo := 0
    hi := 0 }

/-- the GPU whose memory serves physical address `pa` when GPU `g` issues the access -/
def target (c : MemCfg) (g pa : Nat) : Except MFault Nat :=
  if isLocal c.S g pa then .ok g else
  match routeOut (rdmaCfg c) pa with
  | none => .error .bounds
  | some 0 => .error .cpu
  | some (d + 1) => if isLocal c.S (d + 1) pa then .ok (d + 1) else .error .loop

/-- (serving GPU, physical address) of virtual byte `v` accessed by GPU `g` -/
def locate (c : MemCfg) (pt : PageTable) (g v : Nat) : Except MFault (Nat × Nat) :=
  match translate c pt v with
  | none => .error .page
  | some pa =>
    match target c g pa with
    | .error e => .error e
    | .ok t => .ok (t, pa)

/-- one memory per GPU: `d g pa` -/
abbrev DRAM := Nat → Nat → Nat

def DRAM.write (d : DRAM) (g a b : Nat) : DRAM :=
  fun g' a' => if g' = g ∧ a' = a then b else d g' a'

inductive Acc
  | store (g v : Nat) (bytes : List Nat)
  | load (g v len : Nat)
deriving Repr, DecidableEq

/-- the same access with the issuing GPU erased -/
def Acc.noGpu : Acc → Acc
  | .store _ v bs => .store 0 v bs
  | .load _ v len => .load 0 v len

def storeBytes (c : MemCfg) (pt : PageTable) (g : Nat) : DRAM → Nat → List Nat → Except MFault DRAM
  | d, _, [] => .ok d
  | d, v, b :: bs =>
    match locate c pt g v with
    | .error e => .error e
    | .ok (t, pa) => storeBytes c pt g (d.write t pa b) (v + 1) bs

def loadBytes (c : MemCfg) (pt : PageTable) (g : Nat) (d : DRAM) : Nat → Nat → Except MFault (List Nat)
  | _, 0 => .ok []
  | v, len + 1 =>
    match locate c pt g v with
    | .error e => .error e
    | .ok (t, pa) =>
      match loadBytes c pt g d (v + 1) len with
      | .error e => .error e
      | .ok r => .ok (d t pa :: r)

structure MSt where
  /-- results of the loads so far, in program order -/
  loads : List (List Nat) := []
  dram : DRAM := fun _ _ => 0
  fault : Option MFault := none

/-- one access, atomic: a fault on any byte leaves the memories untouched and stops the run -/
def memStep (c : MemCfg) (pt : PageTable) (s : MSt) (a : Acc) : MSt :=
  if s.fault.isSome then s else
  match a with
  | .store g v bs =>
    match storeBytes c pt g s.dram v bs with
    | .error e => { s with fault := some e }
    | .ok d => { s with dram := d }
  | .load g v len =>
    match loadBytes c pt g s.dram v len with
    | .error e => { s with fault := some e }
    | .ok r => { s with loads := s.loads ++ [r] }

def runMem (c : MemCfg) (pt : PageTable) (accs : List Acc) : MSt := accs.foldl (memStep c pt) {}

/-- the byte at virtual address `v`: read from the memory of the owner `bank S pa` -/
def vread (c : MemCfg) (pt : PageTable) (d : DRAM) (v : Nat) : Option Nat :=
  match translate c pt v with
  | none => none
  | some pa => some (d (bank c.S pa) pa)

/-- the virtual memory image: all bytes of all mapped pages, in page-table order -/
def virtImage (c : MemCfg) (pt : PageTable) (d : DRAM) : List Nat :=
  (pt.map fun e => (List.range c.P).map fun off => (vread c pt d (e.1 * c.P + off)).getD 0).flatten

/-! ## The flat reference: one memory addressed virtually -/

structure FSt where
  loads : List (List Nat) := []
  mem : Nat → Nat := fun _ => 0

def flatStore (m : Nat → Nat) : Nat → List Nat → Nat → Nat
  | _, [] => m
  | v, b :: bs => flatStore (fun a => if a = v then b else m a) (v + 1) bs

def flatLoad (m : Nat → Nat) : Nat → Nat → List Nat
  | _, 0 => []
  | v, len + 1 => m v :: flatLoad m (v + 1) len

def flatStep (s : FSt) : Acc → FSt
  | .store _ v bs => { s with mem := flatStore s.mem v bs }
  | .load _ v len => { s with loads := s.loads ++ [flatLoad s.mem v len] }

def flatRun (accs : List Acc) : FSt := accs.foldl flatStep {}

/-- the flat memory restricted to the mapped pages, in page-table order -/
def flatImage (c : MemCfg) (pt : PageTable) (m : Nat → Nat) : List Nat :=
  (pt.map fun e => (List.range c.P).map fun off => m (e.1 * c.P + off)).flatten

/-! ## Line protocol
`c18 mem P=<hex> S=<hex> n=<k> pt=<vp>:<pp>,… ; s <g> <vaddr> <bytes hex> ; l <g> <vaddr> <len> ; …`
(page numbers and addresses hex, `pt=-` empty). Answer: one token per access — `w<t…>` for a store,
`<data hex>@<t…>` for a load, `t` = serving GPU of each byte (one digit, `n ≤ 9`) — then
`img=<hex of virtImage>`; at the first faulting access `fault:<kind>` instead and nothing more. -/

def parsePT (s : String) : Option PageTable :=
  if s = "-" || s = "" then some [] else
  (s.splitOn ",").mapM fun e =>
    match e.splitOn ":" with
    | [a, b] => do
      let x ← hexNat? a
      let y ← hexNat? b
      pure (x, y)
    | _ => none

def parseAcc (n : Nat) (seg : String) : Option Acc :=
  match words seg with
  | ["s", g, v, bs] => do
    let g ← g.toNat?
    let v ← hexNat? v
    let bs ← if bs = "-" then some [] else hexBytes? bs
    if 1 ≤ g ∧ g ≤ n then pure (.store g v bs) else none
  | ["l", g, v, len] => do
    let g ← g.toNat?
    let v ← hexNat? v
    let len ← len.toNat?
    if 1 ≤ g ∧ g ≤ n then pure (.load g v len) else none
  | _ => none

/-- serving GPU of every byte of an access (printed only for accesses that did not fault) -/
def targets (c : MemCfg) (pt : PageTable) (g v len : Nat) : List Nat :=
  (List.range len).filterMap fun i =>
    match locate c pt g (v + i) with
    | .ok (t, _) => some t
    | .error _ => none

def hexOrDash (bs : List Nat) : String := if bs.isEmpty then "-" else bytesHex bs

def digits (l : List Nat) : String := String.join (l.map toString)

def memLoop (c : MemCfg) (pt : PageTable) : List Acc → MSt → List String → List String
  | [], s, out => (("img=" ++ hexOrDash (virtImage c pt s.dram)) :: out).reverse
  | a :: rest, s, out =>
    let s' := memStep c pt s a
    match s'.fault with
    | some f => (("fault:" ++ f.str) :: out).reverse
    | none =>
      let tok := match a with
        | .store g v bs => "w" ++ digits (targets c pt g v bs.length)
        | .load g v len => hexOrDash ((s'.loads.getLast?).getD []) ++ "@" ++ digits (targets c pt g v len)
      memLoop c pt rest s' (tok :: out)

def handleMem (cfg : List String) (rest : List String) : String :=
  match kvHex? cfg "P", kvHex? cfg "S", kvNat? cfg "n", (kv? cfg "pt").bind parsePT with
  | some P, some S, some n, some pt =>
    if P = 0 ∨ S = 0 ∨ n = 0 ∨ n > 9 then "bad" else
    match rest.mapM (parseAcc n) with
    | none => "bad"
    | some accs => joinWith " " (memLoop ⟨P, S, n⟩ pt accs {} [])
  | _, _, _, _ => "bad"

end C18
