import MgpuModel.Util
/-! # C18 — RDMA engine (tick-exact), owner routing, work-group distribution

Hand-written model (tie H) of
* `amd/timing/rdma/comp.go`: `Comp.Tick` = `processFromCtrlPort`, `drainRDMA` (while draining),
  `processFromL1`×outgoingReqPerCycle, `processFromL2`×outgoingRspPerCycle,
  `processIncomingReq`×incomingReqPerCycle, `processIncomingRsp`×incomingRspPerCycle, with the five
  Akita ports the builder creates (incoming and outgoing capacity = `bufferSize`).
  The engine is two independent *channels* plus control:
  - channel `io` (inside→outside): requests arrive on `RDMARequestInside`, clones leave on
    `RDMARequestOutside`, replies arrive on `RDMARequestOutside`, answers leave on `RDMARequestInside`;
    table `transactionsFromInside`;
  - channel `oi` (outside→inside): requests arrive on `RDMADataOutside`, clones leave on
    `RDMADataInside`, replies arrive on `RDMADataInside`, answers leave on `RDMADataOutside`;
    table `transactionsFromOutside`.
* `Driver.distributeWGToGPUs` (work-group ranges of a unified launch).
* the address → owner maps of the timing platform (`BankedAddressPortMapper` with
  `BankSize = gpuMemSize`, the per-GPU `InterleavedAddressPortMapper` limits) and of the
  allocator (`RegisterDevice` ranges, starting one page above 0).

Message IDs: a request delivered by the environment gets a fresh `Nat` per channel (`nextA`), a
forwarded clone a fresh `Nat` per channel (`nextF`, consumed only by a successful `Send`; the harness
renumbers Go's string IDs by first appearance on the port).
Ghost fields (`fwd`, `ans`, `del`, `ev`, `acks`, `cev`) do not influence behaviour. -/
namespace C18
open Util

/-- what must go through the engine unchanged (`mem.ReadReq` / `mem.WriteReq` fields;
    `bad` = a message that is not a `mem.AccessReq`) -/
inductive Payload
  | read (addr size pid : Nat)
  | write (addr : Nat) (data : List Nat) (mask : List Bool) (pid : Nat)
  | bad
deriving DecidableEq, Repr, Inhabited

/-- a request arriving at the engine (`id`, `src` = `Meta().ID`, `Meta().Src`) -/
structure Req where
  id : Nat
  src : Nat
  pl : Payload
deriving DecidableEq, Repr, Inhabited

/-- the clone sent on -/
structure OutReq where
  fid : Nat
  dst : Nat
  pl : Payload
deriving DecidableEq, Repr, Inhabited

/-- a reply arriving at the engine: `some data` = `DataReadyRsp`, `none` = `WriteDoneRsp`,
    `bad` = not a `mem.AccessRsp` -/
structure Rsp where
  rspTo : Nat
  data : Option (List Nat)
  bad : Bool
deriving DecidableEq, Repr, Inhabited

/-- the answer sent back to the originator -/
structure OutRsp where
  rspTo : Nat
  dst : Nat
  data : Option (List Nat)
deriving DecidableEq, Repr, Inhabited

/-- `transaction` -/
structure Tx where
  orig : Req
  fid : Nat
deriving DecidableEq, Repr, Inhabited

/-- ghost: one successful forward -/
structure FwdRec where
  orig : Req
  out : OutReq
deriving Repr

/-- ghost: one successful answer -/
structure AnsRec where
  orig : Req
  fid : Nat
  out : OutRsp
deriving Repr

structure Chan where
  reqIn : List Req := []
  reqOut : List OutReq := []
  rspIn : List Rsp := []
  rspOut : List OutRsp := []
  tx : List Tx := []
  nextA : Nat := 0
  nextF : Nat := 0
  fault : Option String := none
  /-- ghost: every request taken from the incoming port together with the clone sent (newest first) -/
  fwd : List FwdRec := []
  /-- ghost: every answer sent (newest first) -/
  ans : List AnsRec := []
  /-- ghost: every reply delivered by the environment (newest first) -/
  del : List Rsp := []
  /-- ghost: trace events (newest first) -/
  ev : List String := []
deriving Repr

def addrOf : Payload → Nat
  | .read a _ _ => a
  | .write a _ _ _ => a
  | .bad => 0

/-- `cloneReq`, branch by branch (after the `fix:` commit that copies the PID;
    `CanWaitForCoalesce` and `Info` are not part of the payload and are not copied) -/
def clonePl : Payload → Payload
  | .read a n pid => .read a n pid
  | .write a d m pid => .write a d m pid
  | .bad => .bad

def maskSig (m : List Bool) : String :=
  if m.isEmpty then "-" else String.ofList (m.map fun b => if b then '1' else '0')

def plSig : Payload → String
  | .read a n pid => s!"r{toHex a}:{n}:p{pid}"
  | .write a d m pid => s!"w{toHex a}:{bytesHex d}/{maskSig m}:p{pid}"
  | .bad => "?"

def dataSig : Option (List Nat) → String
  | some d => "d" ++ bytesHex d
  | none => "w"

/-- `processReqFromL1` / `processReqFromRDMADataOutside` behind the type switch:
    `Find` (may index out of range), clone, `Send` (may fail), then retrieve + append. -/
def fwdStep (route : Nat → Option Nat) (cap : Nat) (c : Chan) : Chan × Bool :=
  match c.reqIn with
  | [] => (c, false)
  | r :: rest =>
    if r.pl = Payload.bad then ({ c with fault := some "badtype" }, false) else
    match route (addrOf r.pl) with
    | none => ({ c with fault := some "bounds" }, false)
    | some dst =>
      if c.reqOut.length < cap then
        let o : OutReq := ⟨c.nextF, dst, clonePl r.pl⟩
        ({ c with reqIn := rest, reqOut := c.reqOut ++ [o], tx := c.tx ++ [⟨r, c.nextF⟩],
                  nextF := c.nextF + 1, fwd := ⟨r, o⟩ :: c.fwd,
                  ev := s!"A{r.id}" :: s!"F{o.fid}:{o.dst}:{plSig o.pl}" :: c.ev }, true)
      else (c, false)

/-- `findTransactionByRspToID` + the slice removal: first entry with this clone id -/
def extract (fid : Nat) : List Tx → Option (Tx × List Tx)
  | [] => none
  | t :: ts =>
    if t.fid = fid then some (t, ts)
    else match extract fid ts with
      | none => none
      | some (g, r) => some (g, t :: r)

/-- `processRspFromL2` / `processRspFromRDMARequestOutside` behind the type switch -/
def rspStep (cap : Nat) (c : Chan) : Chan × Bool :=
  match c.rspIn with
  | [] => (c, false)
  | r :: rest =>
    if r.bad then ({ c with fault := some "badtype" }, false) else
    match extract r.rspTo c.tx with
    | none => ({ c with fault := some "notfound" }, false)
    | some (t, tx') =>
      if c.rspOut.length < cap then
        let o : OutRsp := ⟨t.orig.id, t.orig.src, r.data⟩
        ({ c with rspIn := rest, rspOut := c.rspOut ++ [o], tx := tx',
                  ans := ⟨t.orig, t.fid, o⟩ :: c.ans,
                  ev := s!"X{r.rspTo}" :: s!"R{o.rspTo}:{o.dst}:{dataSig o.data}" :: c.ev }, true)
      else (c, false)

/-- the `for` loop of `processFromL1`: forward until the port is empty or a send fails -/
def l1Loop (route : Nat → Option Nat) (cap : Nat) : Nat → Chan → Bool → Chan × Bool
  | 0, c, p => (c, p)
  | n + 1, c, p =>
    if c.fault.isSome then (c, p) else
    let r := fwdStep route cap c
    if r.2 then l1Loop route cap n r.1 true else (r.1, p)

inductive Ctl
  | drain (src : Nat)
  | restart (src : Nat)
  | bad
deriving DecidableEq, Repr, Inhabited

inductive CtlRsp
  | drainAck (dst : Nat)
  | restartAck (dst : Nat)
deriving DecidableEq, Repr, Inhabited

structure Cfg where
  cap : Nat
  wReqOut : Nat
  wRspOut : Nat
  wReqIn : Nat
  wRspIn : Nat
  /-- `RemoteRDMAAddressTable`: banked mapper -/
  bankSize : Nat
  nBanks : Nat
  /-- `localModules`: interleaved mapper with address-space limitation -/
  isz : Nat
  k : Nat
  lo : Nat
  hi : Nat
deriving Repr

/-- `BankedAddressPortMapper.Find`: destination = bank index (slice index may be out of range) -/
def routeOut (c : Cfg) (a : Nat) : Option Nat :=
  if c.bankSize = 0 then none else
  if a / c.bankSize < c.nBanks then some (a / c.bankSize) else none

/-- `InterleavedAddressPortMapper.Find` with `UseAddressSpaceLimitation`;
    1000 = `ModuleForOtherAddresses` -/
def routeIn (c : Cfg) (a : Nat) : Option Nat :=
  if a ≥ c.hi ∨ a < c.lo then some 1000 else
  if c.isz = 0 ∨ c.k = 0 then none else some (a / c.isz % c.k)

structure St where
  io : Chan := {}
  oi : Chan := {}
  ctIn : List Ctl := []
  ctOut : List CtlRsp := []
  draining : Bool := false
  pause : Bool := false
  /-- `currentDrainReq.Src` -/
  cur : Option Nat := none
  cfault : Option String := none
  /-- ghost: (len transactionsFromInside, len transactionsFromOutside) at every drain acknowledgement -/
  acks : List (Nat × Nat) := []
  /-- ghost: number of restart acknowledgements sent -/
  nRestart : Nat := 0
  cev : List String := []
deriving Repr

def faulted (s : St) : Bool := s.io.fault.isSome || s.oi.fault.isSome || s.cfault.isSome

/-- `processFromCtrlPort` (+ `processRDMARestartReq`). The message is retrieved before the
    acknowledgement is attempted: a restart whose acknowledgement cannot be sent is lost. -/
def ctrlStep (cap : Nat) (s : St) : St × Bool :=
  match s.ctIn with
  | [] => (s, false)
  | .drain src :: rest =>
    ({ s with ctIn := rest, cur := some src, draining := true, pause := true,
              cev := "Cd" :: s.cev }, true)
  | .restart _ :: rest =>
    match s.cur with
    | none => ({ s with ctIn := rest, cfault := some "nilderef", cev := "Cr" :: s.cev }, false)
    | some d =>
      if s.ctOut.length < cap then
        ({ s with ctIn := rest, ctOut := s.ctOut ++ [.restartAck d], cur := none, pause := false,
                  nRestart := s.nRestart + 1, cev := s!"Kr{d}" :: "Cr" :: s.cev }, true)
      else ({ s with ctIn := rest, cev := "Cr" :: s.cev }, false)
  | .bad :: rest => ({ s with ctIn := rest, cfault := some "badtype", cev := "C?" :: s.cev }, false)

/-- `drainRDMA` with `fullyDrained` -/
def drainStep (cap : Nat) (s : St) : St × Bool :=
  if s.io.tx.isEmpty && s.oi.tx.isEmpty then
    match s.cur with
    | none => ({ s with cfault := some "nilderef" }, false)
    | some d =>
      if s.ctOut.length < cap then
        ({ s with ctOut := s.ctOut ++ [.drainAck d], draining := false,
                  acks := (s.io.tx.length, s.oi.tx.length) :: s.acks,
                  cev := s!"Kd{d}" :: s.cev }, true)
      else (s, false)
  else (s, false)

/-- `processFromL1` -/
def fromL1 (c : Cfg) (s : St) : St × Bool :=
  if s.pause then (s, false) else
  let r := l1Loop (routeOut c) c.cap s.io.reqIn.length s.io false
  ({ s with io := r.1 }, r.2)

def onIO (f : Chan → Chan × Bool) (s : St) : St × Bool :=
  let r := f s.io
  ({ s with io := r.1 }, r.2)

def onOI (f : Chan → Chan × Bool) (s : St) : St × Bool :=
  let r := f s.oi
  ({ s with oi := r.1 }, r.2)

/-- nothing runs after a panic -/
def guard (f : St → St × Bool) (s : St) : St × Bool := if faulted s then (s, false) else f s

/-- `for i := 0; i < n; i++ { madeProgress = f() || madeProgress }` -/
def iter (f : St → St × Bool) : Nat → St → St × Bool
  | 0, s => (s, false)
  | n + 1, s =>
    let r1 := f s
    let r2 := iter f n r1.1
    (r2.1, r1.2 || r2.2)

/-- the state after the control phase of a tick (`processFromCtrlPort`, then `drainRDMA`) -/
def ctrlPhase (c : Cfg) (s : St) : St × Bool :=
  let r1 := ctrlStep c.cap s
  let r2 := if r1.1.draining then guard (drainStep c.cap) r1.1 else (r1.1, false)
  (r2.1, r1.2 || r2.2)

/-- the data phase of a tick -/
def dataPhase (c : Cfg) (s : St) : St × Bool :=
  let r3 := iter (guard (fromL1 c)) c.wReqOut s
  let r4 := iter (guard (onOI (rspStep c.cap))) c.wRspOut r3.1
  let r5 := iter (guard (onOI (fwdStep (routeIn c) c.cap))) c.wReqIn r4.1
  let r6 := iter (guard (onIO (rspStep c.cap))) c.wRspIn r5.1
  (r6.1, r3.2 || r4.2 || r5.2 || r6.2)

/-- `Comp.Tick` -/
def tick (c : Cfg) (s : St) : St × Bool :=
  let r1 := ctrlPhase c s
  let r2 := dataPhase c r1.1
  (r2.1, r1.2 || r2.2)

/-- Environment moves and the tick. The environment is unconstrained. -/
inductive Op
  | reqI (src : Nat) (pl : Payload)   -- L1 delivers a request to RDMARequestInside
  | reqO (src : Nat) (pl : Payload)   -- another GPU delivers a request to RDMADataOutside
  | rspI (r : Rsp)                    -- a reply arrives on RDMARequestOutside
  | rspO (r : Rsp)                    -- a reply arrives on RDMADataInside
  | ctl (k : Ctl)
  | tick
  | takeFwdI                          -- the connection takes one clone from RDMARequestOutside
  | takeFwdO                          -- … from RDMADataInside
  | takeAnsI                          -- … one answer from RDMARequestInside
  | takeAnsO                          -- … from RDMADataOutside
  | takeCtl
deriving Repr

def deliverReq (cap : Nat) (c : Chan) (src : Nat) (pl : Payload) : Chan :=
  if c.reqIn.length < cap then { c with reqIn := c.reqIn ++ [⟨c.nextA, src, pl⟩], nextA := c.nextA + 1 }
  else { c with nextA := c.nextA + 1 }

def deliverRsp (cap : Nat) (c : Chan) (r : Rsp) : Chan :=
  if c.rspIn.length < cap then { c with rspIn := c.rspIn ++ [r], del := r :: c.del } else c

def step (c : Cfg) (s : St) : Op → St
  | .reqI src pl => { s with io := deliverReq c.cap s.io src pl }
  | .reqO src pl => { s with oi := deliverReq c.cap s.oi src pl }
  | .rspI r => { s with io := deliverRsp c.cap s.io r }
  | .rspO r => { s with oi := deliverRsp c.cap s.oi r }
  | .ctl k => if s.ctIn.length < c.cap then { s with ctIn := s.ctIn ++ [k] } else s
  | .tick => (tick c s).1
  | .takeFwdI => { s with io := { s.io with reqOut := s.io.reqOut.tail } }
  | .takeFwdO => { s with oi := { s.oi with reqOut := s.oi.reqOut.tail } }
  | .takeAnsI => { s with io := { s.io with rspOut := s.io.rspOut.tail } }
  | .takeAnsO => { s with oi := { s.oi with rspOut := s.oi.rspOut.tail } }
  | .takeCtl => { s with ctOut := s.ctOut.tail }

def run (c : Cfg) (ops : List Op) : St := ops.foldl (step c) {}

/-! ## The harness environment -/

structure World where
  s : St := {}
  envI : List OutReq := []
  envO : List OutReq := []
  oldI : List OutReq := []
  oldO : List OutReq := []
deriving Repr

def memByte (a : Nat) : Nat := (a * 13 + 5) % 256

def memAnswer (b : OutReq) : Rsp :=
  match b.pl with
  | .read a n _ => ⟨b.fid, some ((List.range n).map fun i => memByte (a + i)), false⟩
  | _ => ⟨b.fid, none, false⟩

def removeNth {α} : Nat → List α → List α
  | _, [] => []
  | 0, _ :: xs => xs
  | n + 1, x :: xs => x :: removeNth n xs

inductive WOp
  | core (o : Op)
  | ans (inside : Bool) (j : Nat)
  | dup (inside : Bool) (j : Nat)
  | badRsp (inside : Bool)
  | takeFwd (inside : Bool) (k : Nat)
  | takeAns (inside : Bool) (k : Nat)
  | takeCtl (k : Nat)
deriving Repr

def takeFwdN (c : Cfg) (inside : Bool) : Nat → World → World
  | 0, w => w
  | k + 1, w =>
    if inside then
      match w.s.io.reqOut with
      | [] => w
      | q :: _ => takeFwdN c inside k { w with s := step c w.s .takeFwdI, envI := w.envI ++ [q] }
    else
      match w.s.oi.reqOut with
      | [] => w
      | q :: _ => takeFwdN c inside k { w with s := step c w.s .takeFwdO, envO := w.envO ++ [q] }

def takeAnsN (c : Cfg) (inside : Bool) : Nat → World → World
  | 0, w => w
  | k + 1, w =>
    if inside then
      match w.s.io.rspOut with
      | [] => w
      | _ :: _ => takeAnsN c inside k { w with s := step c w.s .takeAnsI }
    else
      match w.s.oi.rspOut with
      | [] => w
      | _ :: _ => takeAnsN c inside k { w with s := step c w.s .takeAnsO }

def chanOf (s : St) (inside : Bool) : Chan := if inside then s.io else s.oi

def sendRsp (c : Cfg) (w : World) (inside : Bool) (r : Rsp) : World :=
  { w with s := step c w.s (if inside then .rspI r else .rspO r) }

def wstep (c : Cfg) (w : World) : WOp → World × String
  | .core (.reqI src pl) =>
    let ok := w.s.io.reqIn.length < c.cap
    ({ w with s := step c w.s (.reqI src pl) }, if ok then "+" else "-")
  | .core (.reqO src pl) =>
    let ok := w.s.oi.reqIn.length < c.cap
    ({ w with s := step c w.s (.reqO src pl) }, if ok then "+" else "-")
  | .core (.ctl k) =>
    let ok := w.s.ctIn.length < c.cap
    ({ w with s := step c w.s (.ctl k) }, if ok then "+" else "-")
  | .core o => ({ w with s := step c w.s o }, "-")
  | .ans inside j =>
    let env := if inside then w.envI else w.envO
    match env with
    | [] => (w, "none")
    | q0 :: _ =>
      let i := j % env.length
      let q := env.getD i q0
      if (chanOf w.s inside).rspIn.length < c.cap then
        let w1 := sendRsp c w inside (memAnswer q)
        (if inside then { w1 with envI := removeNth i w.envI, oldI := w.oldI ++ [q] }
         else { w1 with envO := removeNth i w.envO, oldO := w.oldO ++ [q] }, s!"ok{q.fid}")
      else (w, "full")
  | .dup inside j =>
    let old := if inside then w.oldI else w.oldO
    match old with
    | [] => (w, "none")
    | q0 :: _ =>
      let q := old.getD (j % old.length) q0
      if (chanOf w.s inside).rspIn.length < c.cap then
        (sendRsp c w inside (memAnswer q), s!"ok{q.fid}")
      else (w, "full")
  | .badRsp inside =>
    if (chanOf w.s inside).rspIn.length < c.cap then
      (sendRsp c w inside ⟨0, none, true⟩, "+")
    else (w, "-")
  | .takeFwd inside k =>
    let w' := takeFwdN c inside k w
    (w', s!"d{(chanOf w.s inside).reqOut.length - (chanOf w'.s inside).reqOut.length}")
  | .takeAns inside k =>
    let w' := takeAnsN c inside k w
    (w', s!"d{(chanOf w.s inside).rspOut.length - (chanOf w'.s inside).rspOut.length}")
  | .takeCtl k =>
    let n := min k w.s.ctOut.length
    ({ w with s := { w.s with ctOut := w.s.ctOut.drop n } }, s!"d{n}")

/-! ## Line protocol: RDMA scenarios -/

def parseMask (s : String) : Option (List Bool) :=
  if s = "-" then some [] else
  s.toList.mapM fun ch => if ch = '1' then some true else if ch = '0' then some false else none

def parsePl : List String → Option Payload
  | ["r", a, n, pid] => do
      let a ← hexNat? a; let n ← n.toNat?; let p ← pid.toNat?
      pure (.read a n p)
  | ["w", a, d, m, pid] => do
      let a ← hexNat? a; let bs ← hexBytes? d; let mk ← parseMask m; let p ← pid.toNat?
      pure (.write a bs mk p)
  | ["b"] => some .bad
  | _ => none

def parseSide : String → Option Bool
  | "i" => some true
  | "o" => some false
  | _ => none

def parseOp (t : List String) : Option (List WOp) :=
  match t with
  | "qi" :: src :: rest => do
      let s ← src.toNat?; let pl ← parsePl rest
      pure [.core (.reqI s pl)]
  | "qo" :: src :: rest => do
      let s ← src.toNat?; let pl ← parsePl rest
      pure [.core (.reqO s pl)]
  | ["t"] => some [.core .tick]
  | ["x", sd, j] => do let b ← parseSide sd; let j ← j.toNat?; pure [.ans b j]
  | ["y", sd, j] => do let b ← parseSide sd; let j ← j.toNat?; pure [.dup b j]
  | ["z", sd] => do let b ← parseSide sd; pure [.badRsp b]
  | ["f", sd, k] => do let b ← parseSide sd; let k ← k.toNat?; pure [.takeFwd b k]
  | ["r", sd, k] => do let b ← parseSide sd; let k ← k.toNat?; pure [.takeAns b k]
  | ["dc", k] => k.toNat?.map fun k => [.takeCtl k]
  | ["d", k] => k.toNat?.map fun k =>
      [.takeFwd true k, .takeFwd false k, .takeAns true k, .takeAns false k, .takeCtl k]
  | ["cd", src] => src.toNat?.map fun s => [.core (.ctl (.drain s))]
  | ["cr", src] => src.toNat?.map fun s => [.core (.ctl (.restart s))]
  | ["cb"] => some [.core (.ctl .bad)]
  | _ => none

def b01 (b : Bool) : String := if b then "1" else "0"

def stateSig (s : St) : String :=
  let f := fun (t : Tx) => s!"{t.orig.id}>{t.fid}"
  "{" ++ s!"d{b01 s.draining}p{b01 s.pause}c{b01 s.cur.isSome};" ++
    joinWith "," (s.io.tx.map f) ++ ";" ++ joinWith "," (s.oi.tx.map f) ++ "}"

def faultOf (s : St) : Option String :=
  match s.cfault with
  | some f => some f
  | none => match s.io.fault with
    | some f => some f
    | none => s.oi.fault

def endTok (w : World) : String :=
  s!"E fi={w.s.io.fwd.length};ai={w.s.io.ans.length};fo={w.s.oi.fwd.length};ao={w.s.oi.ans.length};k={w.s.acks.length};r={w.s.nRestart}"

def newEv (old new : List String) : List String := (new.take (new.length - old.length)).reverse

def runOps (c : Cfg) : List (List WOp) → World → List String → List String
  | [], w, out => endTok w :: out
  | grp :: rest, w, out =>
    if faulted w.s then endTok w :: out else
    match grp with
    | [.core .tick] =>
      let r := tick c w.s
      let evs := "[" ++ joinWith "," (newEv w.s.io.ev r.1.io.ev) ++ "|" ++
        joinWith "," (newEv w.s.oi.ev r.1.oi.ev) ++ "|" ++ joinWith "," (newEv w.s.cev r.1.cev) ++ "]"
      let tok := match faultOf r.1 with
        | some f => "fault:" ++ f ++ evs
        | none => (if r.2 then "t1" else "t0") ++ evs ++ stateSig r.1
      runOps c rest { w with s := r.1 } (tok :: out)
    | _ =>
      let (w', toks) := grp.foldl (fun (acc : World × List String) o =>
          let r := wstep c acc.1 o
          (r.1, r.2 :: acc.2)) (w, [])
      runOps c rest w' (joinWith "/" toks.reverse :: out)

def handleRdma (cfg : List String) (rest : List String) : String :=
  match kvNat? cfg "cap", (kv? cfg "w").bind (natList? ·), kvHex? cfg "bank", kvNat? cfg "nb",
        kvHex? cfg "isz", kvNat? cfg "k", kvHex? cfg "lo", kvHex? cfg "hi" with
  | some cap, some [w1, w2, w3, w4], some bank, some nb, some isz, some k, some lo, some hi =>
    match rest.mapM fun o => parseOp (words o) with
    | some ops => joinWith " " (runOps ⟨cap, w1, w2, w3, w4, bank, nb, isz, k, lo, hi⟩ ops {} []).reverse
    | none => "bad"
  | _, _, _, _, _, _, _, _ => "bad"

/-! ## Work-group distribution of a unified launch (`Driver.distributeWGToGPUs`) -/

/-- cumulative ranges: `wgDist[i+1] = wgDist[i] + cuCount_i * wgPerCU` -/
def wgDist (wgPerCU : Nat) : List Nat → Nat → List Nat
  | [], acc => [acc]
  | c :: cs, acc => acc :: wgDist wgPerCU cs (acc + c * wgPerCU)

/-- `(totalWGCount + totalCUCount - 1) / totalCUCount` in Go `int` (after the `fix:` be858c27: ceiling of
    total / CUs, 0 for an empty grid; equal to the former `(total-1)/CUs + 1` whenever `total > 0`);
    tied to the source by `Props/C18Plat.lean` (`wgPerCU_eq_gen`) -/
def wgPerCU (total sumCU : Nat) : Nat := (total + sumCU - 1) / sumCU

/-- `numWGInDim`: `(int(gridSize) + int(wgSize) - 1) / int(wgSize)` (after the `fix:` be858c27; equal to the
    former `uint32` `(grid-1)/wg + 1` whenever `grid > 0`); tied to the source by `numWG_eq_gen` -/
def numWG (grid wg : Nat) : Nat := (grid + wg - 1) / wg

/-- last element (`wgAllocated` after the loop) -/
def lastD : List Nat → Nat → Nat
  | [], d => d
  | x :: xs, _ => lastD xs x

/-- number of ranges `[d[i], d[i+1])` that contain `id` — the work-group filter of
    `processUnifiedMultiGPULaunchKernelCommand` accepts `id` on GPU `i` iff
    `wgDist[i] ≤ id < wgDist[i+1]` -/
def countOwners (id : Nat) : List Nat → Nat
  | a :: b :: rest => (if a ≤ id ∧ id < b then 1 else 0) + countOwners id (b :: rest)
  | _ => 0

inductive WgRes
  | dist (d : List Nat)
  | fault (k : String)
deriving DecidableEq, Repr

def distributeWG (cus : List Nat) (total : Nat) : WgRes :=
  if cus.sum = 0 then .fault "divzero" else
  let d := wgDist (wgPerCU total cus.sum) cus 0
  if lastD d 0 < total then .fault "notall" else .dist d

/-- number of work-groups `id < total` with `d[i] ≤ id < d[i+1]` -/
def rangeCounts (total : Nat) : List Nat → List Nat
  | a :: b :: rest => (min b total - min a total) :: rangeCounts total (b :: rest)
  | _ => []

def handleWg (cfg : List String) : String :=
  match (kv? cfg "cus").bind (natList? ·), (kv? cfg "grid").bind (natList? ·), (kv? cfg "wgs").bind (natList? ·) with
  | some cus, some [gx, gy, gz], some [wx, wy, wz] =>
    if wx = 0 ∨ wy = 0 ∨ wz = 0 then "fault:divzero" else
    let total := numWG gx wx * numWG gy wy * numWG gz wz
    match distributeWG cus total with
    | .fault k => "fault:" ++ k
    | .dist d => s!"total={total} dist=" ++ joinWith "," (d.map toString) ++
        " cnt=" ++ joinWith "," ((rangeCounts total d).map toString)
  | _, _, _ => "bad"

/-! ## Owner of a physical address -/

/-- `BankedAddressPortMapper.Find` with `BankSize = S`: index into `LowModules`
    (0 = "CPU", i = GPU i) -/
def bank (S a : Nat) : Nat := a / S

/-- the allocator's owner (`deviceIDByPAddr`): device `d` (0 = CPU, i = GPU i) owns
    `[P + d*S, P + (d+1)*S)` — `RegisterDevice` starts at one page `P` "to avoid 0 address";
    `n` = number of GPUs -/
def allocOwner (P S n a : Nat) : Option Nat :=
  if a < P then none else
  if (a - P) / S ≤ n then some ((a - P) / S) else none

/-- GPU `g`'s L1→L2 mapper keeps `[g*S, g*S + S)` local and sends everything else to the RDMA engine -/
def isLocal (S g a : Nat) : Bool := decide (g * S ≤ a) && decide (a < g * S + S)

def handleOwn (cfg : List String) : String :=
  match kvHex? cfg "S", kvHex? cfg "P", kvNat? cfg "n", kvHex? cfg "a" with
  | some S, some P, some n, some a =>
    if S = 0 then "bad" else
    let al := match allocOwner P S n a with
      | some d => toString d
      | none => "none"
    let bk := if bank S a ≤ n then toString (bank S a) else "oob"
    let loc := String.join ((List.range n).map fun g => b01 (isLocal S (g + 1) a))
    s!"alloc={al} bank={bk} local={loc}"
  | _, _, _, _ => "bad"

end C18
