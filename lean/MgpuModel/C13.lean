import MgpuModel.C13Core
import MgpuModel.C13Elf
import MgpuModel.C13Drv
import MgpuModel.C13Frame
import MgpuModel.C04
/-!
# C13 — HSACO kernel loading: entry point of the executable model

* `C13Core.lean` — the loader on an ELF view (`loadKernel` and its helpers, accessor methods,
  symbol selection, sessions); case lines `load`, `ent`, `hdr`, `kd`, `acc`, `kdacc`, `sel`.
* `C13Elf.lean` — file bytes → view, as `debug/elf` does it for ELF64 little-endian files
  (`LoadKernelCodeObjectFromBytes` / `FromFS`); case lines `elf`, `loadb`, `foff`.
* `C13Drv.lean` — the driver's use of the loaded object (allocation, upload, packet, cache);
  case line `drv`.
* `C13Frame.lean` — specification side: the byte ranges the loader reads, and the ELF writer
  `writeElf`; case line `wr`.
* here: the loaded instruction bytes handed to the decoder of property C04 (`dec`).
-/
namespace C13

/-- Sequential decode of the loaded bytes with the decoder model of C04 (`C04.decode`, on the
8-byte window the real `Decode` looks at): number of instructions, where it stopped and why, and a
running hash of (format, opcode, size) so that the two decoders are compared instruction by
instruction. -/
def decWalk (cdna3 : Bool) : Nat → List Nat → Nat → Nat → Nat → String
  | 0, _, pc, n, h => s!"insts={n} end={pc} stop=fuel h={h}"
  | fuel + 1, rest, pc, n, h =>
    match rest with
    | [] => s!"insts={n} end={pc} stop=end h={h}"
    | _ =>
      match C04.decode cdna3 (rest.take 8) with
      | .ok i =>
        if i.size = 0 then s!"insts={n} end={pc} stop=size0 h={h}"
        else decWalk cdna3 fuel (rest.drop i.size) (pc + i.size) (n + 1)
          ((h * 31 + i.ft * 100000 + i.opcode * 10 + i.size) % 288230376151711717)
      | .err => s!"insts={n} end={pc} stop=err h={h}"
      | .notImpl => s!"insts={n} end={pc} stop=notimpl h={h}"

/-- `c13 dec <0|1> n:<kernel> syms=… ; view`: load by name with the loader model, then walk -/
def decOfView (cdna3 : Bool) (v : View) (k : String) : String :=
  match loadKernel v k with
  | .ok r => "v=" ++ toString r.version ++ " len=" ++ toString r.data.length ++ " " ++
      decWalk cdna3 (r.data.length + 1) (r.data.map (·.toNat)) 0 0 0
  | o => outcomeStr o

/-- the 120 instruction bytes of `ReLUForward` of amd/benchmarks/dnn/layer_benchmarks/relu/kernels_gfx942.hsaco
(a literal; the case line `c13 embedded relu` compares it with what the real loader returns for that file) -/
def reluForwardBytes : List Nat := [
  192, 0, 2, 192, 36, 0, 0, 0, 0, 1, 2, 192, 0, 0, 0, 0, 127, 192, 140, 191,
  3, 255, 3, 134, 255, 255, 0, 0, 2, 3, 2, 146, 2, 0, 0, 104, 4, 0, 136, 125,
  106, 32, 130, 190, 17, 0, 136, 191, 0, 1, 10, 192, 8, 0, 0, 0, 159, 0, 2, 34,
  0, 0, 143, 210, 130, 0, 2, 0, 127, 192, 140, 191, 2, 0, 8, 210, 4, 0, 1, 4,
  0, 128, 80, 220, 2, 0, 127, 2, 0, 0, 8, 210, 6, 0, 1, 4, 112, 15, 140, 191,
  2, 5, 4, 22, 128, 4, 4, 22, 0, 128, 112, 220, 0, 2, 127, 0, 0, 0, 129, 191]

def handle (line : String) : String :=
  match line.splitOn " ; " with
  | [] => "bad-op"
  | hd :: rest =>
    match Util.words hd with
    | ["c13", "drv"] => Drv.handleDrv rest
    | ["c13", "embedded", "relu"] => Util.bytesHex reluForwardBytes
    | ["c13", "wr", a, b, c, d] => Elf.handleWr a b c d rest
    | ["c13", "dec", arch, n, sy] => decOfView (arch == "1") (parseView rest (sy == "syms=1")) (unName n)
    | toks =>
      match Elf.handleElf toks with
      | some s => s
      | none => handleCore line

end C13
