import MgpuModel.Util
/-! # C17 — tick-exact model of `amd/timing/mem/simplebankedmemory` (after the `fix:` commit that keeps
per-bank order with row-buffer timing).

`middleware.Tick` = finalizeBanks → tickPipelines → tickDelayQueues → dispatchPending → drainTopPort.
Akita `pipelining.Pipeline` (width lanes × depth stages, `cyclePerStage`) and `sim.Buffer`
(post-pipeline buffer, port buffers) are modelled as the component uses them.
Lanes are stored **exit stage first** so one structural recursion processes a lane in Akita's order
(last stage → first stage). Core Lean only. -/
namespace C17
open Util

/-- `mem.InterleavingConverter` (Akita) — the shipped MI300A platform installs one as `BankAddressConverter` -/
structure Conv where
  isz : Nat
  n : Nat
  idx : Nat
  off : Nat
deriving Repr, DecidableEq

structure Cfg where
  banks : Nat
  ilv : Nat
  width : Nat
  depth : Nat
  lat : Nat
  row : Nat
  miss : Nat
  post : Nat
  top : Nat
  /-- `BankAddressConverter` (used ONLY to pick the bank and the row), `none` = not installed -/
  bconv : Option Conv
  /-- capacity of the backing `mem.Storage` in bytes; `none` = never exceeded (lines of the main runner) -/
  cap : Option Nat
deriving Repr, DecidableEq

inductive Kind
  | rd
  | wr
deriving DecidableEq, Repr

/-- a request as delivered to the Top port; `id` = acceptance number -/
structure Req where
  id : Nat
  kind : Kind
  addr : Nat
  len : Nat
  data : List Nat
  mask : Option (List Bool)
deriving DecidableEq, Repr

/-- `bankPipelineItem` -/
structure Item where
  req : Req
  committed : Bool
  rdata : List Nat
deriving DecidableEq, Repr

abbrev Stage := Option (Item × Nat)
/-- one pipeline lane, exit stage first -/
abbrev Lane := List Stage

structure Bank where
  lanes : List Lane
  post : List Item
  lastRow : Option Nat
  dq : List (Item × Nat)
deriving DecidableEq, Repr

/-- a response put on the Top port -/
structure Rsp where
  req : Req
  data : List Nat
deriving DecidableEq, Repr

structure State where
  topIn : List Req
  pending : List Req
  banks : List Bank
  /-- committed requests, newest first; the storage contents are a function of it (`readByte`) -/
  log : List Req
  outBuf : List Rsp
  /-- ghost: every accepted request in arrival order -/
  arrived : List Req
  /-- ghost: every response ever sent, in order -/
  resp : List Rsp
deriving Repr

/-! ## storage as a function of the commit log -/

/-- size of the footprint -/
def Req.size (r : Req) : Nat := match r.kind with
  | .rd => r.len
  | .wr => r.data.length

/-- the byte `r` stores at address `x`, if `r` is a write that covers `x` with an enabled byte -/
def wrByte (r : Req) (x : Nat) : Option Nat :=
  if r.kind = .wr ∧ r.addr ≤ x ∧ x < r.addr + r.data.length then
    match r.mask with
    | none => some (r.data.getD (x - r.addr) 0)
    | some m => if m.getD (x - r.addr) false then some (r.data.getD (x - r.addr) 0) else none
  else none

/-- contents of byte `x` after the commits in `log` (newest first); untouched memory reads 0 -/
def readByte : List Req → Nat → Nat
  | [], _ => 0
  | r :: rest, x => match wrByte r x with
    | some v => v
    | none => readByte rest x

def readRange (log : List Req) (addr len : Nat) : List Nat :=
  (List.range len).map fun i => readByte log (addr + i)

/-- `Storage.Read/Write(addr, len)` returns an error (→ `log.Panic`): the access is done in chunks — the first starts at
`addr`, the following ones at every 4 KiB unit boundary below `addr+len` — and `createOrGetStorageUnit` refuses a chunk
whose start lies above the capacity (`address > s.Capacity`, so `addr = Capacity` and the tail of a chunk pass) -/
def capErr (cap : Option Nat) (addr len : Nat) : Bool := match cap with
  | none => false
  | some k => decide (0 < len ∧ k < max addr ((addr + len - 1) / 4096 * 4096))

/-- Go indexes `req.DirtyMask[i]` for every `i < len(req.Data)`: a shorter mask panics -/
def maskOk (r : Req) : Bool := match r.mask with
  | none => true
  | some m => decide (r.data.length ≤ m.length)

/-! ## bank selection and row address (`interleavedBankSelector.Select`, `dispatchPending`) -/

/-- `InterleavingConverter.ConvertExternalToInternal`; `none` = `log.Panic` ("smaller than offset",
"does not belong to current element") or an integer division by zero -/
def Conv.conv? (v : Conv) (a : Nat) : Option Nat :=
  if a < v.off then none
  else if v.isz * v.n = 0 then none
  else if (a - v.off) % (v.isz * v.n) / v.isz ≠ v.idx then none
  else some ((a - v.off) / (v.isz * v.n) * v.isz + a % v.isz)

/-- the address `dispatchPending` selects bank and row from -/
def bankAddr (c : Cfg) (addr : Nat) : Nat := match c.bconv with
  | none => addr
  | some v => (v.conv? addr).getD addr

/-- does `dispatchPending` panic on one of these requests (address conversion)? -/
def convFault (c : Cfg) (reqs : List Req) : Bool := match c.bconv with
  | none => false
  | some v => reqs.any fun r => (v.conv? r.addr).isNone

def bankOf (c : Cfg) (addr : Nat) : Nat := (bankAddr c addr / 2 ^ c.ilv) % c.banks

def rowOf (c : Cfg) (addr : Nat) : Nat :=
  ((bankAddr c addr / 2 ^ c.ilv / c.banks) * 2 ^ c.ilv + bankAddr c addr % 2 ^ c.ilv) / 2 ^ c.row

/-! ## Akita pipeline -/

/-- stages behind an already processed stage `a` (nearer to the exit); returns the lane including `a` -/
def advance (lat : Nat) (a : Stage) : Lane → Lane
  | [] => [a]
  | b :: rest =>
    match b with
    | none => a :: advance lat none rest
    | some (it, left) =>
      if left > 0 then a :: advance lat (some (it, left - 1)) rest
      else match a with
        | none => some (it, lat - 1) :: advance lat none rest
        | some _ => a :: advance lat b rest

/-- `pipelineImpl.Tick` for one lane with the shared post-pipeline buffer -/
def tickLane (c : Cfg) (post : List Item) : Lane → List Item × Lane
  | [] => (post, [])
  | e :: rest =>
    match e with
    | none => (post, advance c.lat none rest)
    | some (it, left) =>
      if left > 0 then (post, advance c.lat (some (it, left - 1)) rest)
      else if post.length < c.post then (post ++ [it], advance c.lat none rest)
      else (post, advance c.lat e rest)

def tickLanes (c : Cfg) (post : List Item) : List Lane → List Item × List Lane
  | [] => (post, [])
  | l :: ls =>
    let r1 := tickLane c post l
    let r2 := tickLanes c r1.1 ls
    (r2.1, r1.2 :: r2.2)

/-- put `x` into the entry stage (last element) of a lane if it is empty -/
def acceptLane (x : Item × Nat) : Lane → Option Lane
  | [] => none
  | s :: rest =>
    match rest with
    | [] => if s.isNone then some [some x] else none
    | _ :: _ => (acceptLane x rest).map (s :: ·)

/-- `Accept`: first lane whose entry stage is free; `none` = `CanAccept()` is false -/
def acceptLanes (x : Item × Nat) : List Lane → Option (List Lane)
  | [] => none
  | l :: ls =>
    match acceptLane x l with
    | some l' => some (l' :: ls)
    | none => (acceptLanes x ls).map (l :: ·)

def tickBankPipe (c : Cfg) (b : Bank) : Bank :=
  let r := tickLanes c b.post b.lanes
  { b with post := r.1, lanes := r.2 }

/-! ## delay queues (`tickDelayQueues`, repaired: released strictly in queue order) -/

def delayGo (c : Cfg) : List (Item × Nat) → List Lane → List (Item × Nat) → List Lane × List (Item × Nat)
  | [], lanes, rem => (lanes, rem)
  | (it, n) :: rest, lanes, rem =>
    if n - 1 = 0 ∧ rem.isEmpty then
      match acceptLanes (it, c.lat - 1) lanes with
      | some lanes' => delayGo c rest lanes' rem
      | none => delayGo c rest lanes (rem ++ [(it, n - 1)])
    else delayGo c rest lanes (rem ++ [(it, n - 1)])

def tickBankDelay (c : Cfg) (b : Bank) : Bank :=
  let r := delayGo c b.dq b.lanes []
  { b with lanes := r.1, dq := r.2 }

/-! ## dispatchPending -/

def fresh (r : Req) : Item := ⟨r, false, []⟩

/-- what `dispatchPending` does with one request on its bank: `none` = stays pending -/
def dispatchBank (c : Cfg) (r : Req) (b : Bank) : Option Bank :=
  if c.row > 0 ∧ c.miss > 0 then
    let row := rowOf c r.addr
    if b.lastRow = some row then
      -- row hit: no extra delay, but behind whatever still waits in this bank
      if b.dq.isEmpty then
        match acceptLanes (fresh r, c.lat - 1) b.lanes with
        | some lanes' => some { b with lanes := lanes', lastRow := some row }
        | none => some { b with dq := b.dq ++ [(fresh r, 0)], lastRow := some row }
      else some { b with dq := b.dq ++ [(fresh r, 0)], lastRow := some row }
    else some { b with dq := b.dq ++ [(fresh r, c.miss)], lastRow := some row }
  else
    match acceptLanes (fresh r, c.lat - 1) b.lanes with
    | some lanes' => some { b with lanes := lanes' }
    | none => none

def dispatchOne (c : Cfg) (st : List Bank × List Req) (r : Req) : List Bank × List Req :=
  match st.1[bankOf c r.addr]? with
  | none => (st.1, st.2 ++ [r])
  | some b =>
    match dispatchBank c r b with
    | some b' => (st.1.set (bankOf c r.addr) b', st.2)
    | none => (st.1, st.2 ++ [r])

def dispatch (c : Cfg) (s : State) : State :=
  let r := s.pending.foldl (dispatchOne c) (s.banks, [])
  { s with banks := r.1, pending := r.2 }

/-! ## finalizeBanks -/

/-- first visit of `finalizeRead/Write`: read the data / apply the (masked) write; `none` = panic -/
def commit (it : Item) (log : List Req) : Option (Item × List Req) :=
  if it.committed then some (it, log)
  else match it.req.kind with
    | .rd => some ({ it with committed := true, rdata := readRange log it.req.addr it.req.len }, it.req :: log)
    | .wr => if maskOk it.req then some ({ it with committed := true }, it.req :: log) else none

def rspOf (it : Item) : Rsp := ⟨it.req, it.rdata⟩

/-- first visit of `finalizeRead/Write` with a footprint the storage refuses (checked before the mask is indexed) -/
def capFault (c : Cfg) (it : Item) : Bool := !it.committed && capErr c.cap it.req.addr it.req.size

structure Fin where
  post : List Item
  log : List Req
  out : List Rsp
  resp : List Rsp
  fault : Bool

/-- the `for { finalizeSingle }` loop of one bank -/
def finalizePost (c : Cfg) : List Item → List Req → List Rsp → List Rsp → Fin
  | [], log, out, resp => ⟨[], log, out, resp, false⟩
  | it :: rest, log, out, resp =>
    if capFault c it then ⟨it :: rest, log, out, resp, true⟩ else
    match commit it log with
    | none => ⟨it :: rest, log, out, resp, true⟩
    | some (it', log') =>
      if out.length < c.top then finalizePost c rest log' (out ++ [rspOf it']) (resp ++ [rspOf it'])
      else ⟨it' :: rest, log', out, resp, false⟩

/-- `finalizeBanks`, loop body for bank `k`: drain its post-pipeline buffer; `true` = panic -/
def finalizeAt (c : Cfg) (s : State) (k : Nat) : State × Bool :=
  match s.banks[k]? with
  | none => (s, false)
  | some b =>
    let f := finalizePost c b.post s.log s.outBuf s.resp
    ({ s with banks := s.banks.set k { b with post := f.post }, log := f.log, outBuf := f.out, resp := f.resp }, f.fault)

def finalizeFrom (c : Cfg) : List Nat → State → State × Bool
  | [], s => (s, false)
  | k :: ks, s =>
    let r := finalizeAt c s k
    if r.2 then r else finalizeFrom c ks r.1

/-- `for i := range m.banks { for { finalizeSingle } }` -/
def finalize (c : Cfg) (s : State) : State × Bool := finalizeFrom c (List.range s.banks.length) s

/-! ## the other phases and the tick -/

def tickPipes (c : Cfg) (s : State) : State := { s with banks := s.banks.map (tickBankPipe c) }
def tickDelays (c : Cfg) (s : State) : State := { s with banks := s.banks.map (tickBankDelay c) }
def drainTop (s : State) : State := { s with pending := s.pending ++ s.topIn, topIn := [] }

/-- one `Comp.Tick()`; a panic in finalizeBanks aborts the tick where it happened. A panic of the bank address
converter in dispatchPending ends the scenario (the real component is left with `pendingReqs` not updated); the model
stops before dispatchPending and reports `fault:conv`. -/
def tick (c : Cfg) (s : State) : State :=
  let f := finalize c s
  if f.2 then f.1 else
  let s3 := tickDelays c (tickPipes c f.1)
  if convFault c s3.pending then s3 else drainTop (dispatch c s3)

/-- `madeProgress` and the panic flag of the same tick -/
def tickFlags (c : Cfg) (s : State) : Bool × Bool :=
  let f := finalize c s
  if f.2 then (false, true) else
  let s1 := f.1
  let s2 := tickPipes c s1
  let s3 := tickDelays c s2
  if convFault c s3.pending then (false, true) else
  let s4 := dispatch c s3
  let p1 := decide (s.resp.length < s1.resp.length)
  let p2 := decide (s2.banks ≠ s1.banks)
  let p3 := s2.banks.any fun b => !b.dq.isEmpty
  let p4 := decide (s4.pending.length < s3.pending.length)
  let p5 := !s4.topIn.isEmpty
  (p1 || p2 || p3 || p4 || p5, false)

/-- which panic aborted the tick of `s` (only meaningful when it faults): the first bank, in index order, whose oldest
post-pipeline item cannot be committed — storage capacity before mask index — else the address converter -/
def faultKind (c : Cfg) (s : State) : String :=
  let f := finalize c s
  if !f.2 then "conv" else
  match f.1.banks.findSome? (fun b => match b.post with
      | it :: _ => if capFault c it then some "cap" else if !it.committed && !maskOk it.req then some "bounds" else none
      | [] => none) with
  | some k => k
  | none => "bounds"

inductive Op
  | deliver (kind : Kind) (addr len : Nat) (data : List Nat) (mask : Option (List Bool))
  | tick
  | out (k : Nat)

def deliver (c : Cfg) (s : State) (kind : Kind) (addr len : Nat) (data : List Nat) (mask : Option (List Bool)) : State :=
  if s.topIn.length < c.top then
    let r : Req := ⟨s.arrived.length, kind, addr, len, data, mask⟩
    { s with topIn := s.topIn ++ [r], arrived := s.arrived ++ [r] }
  else s

def step (c : Cfg) (s : State) : Op → State
  | .deliver k a l d m => deliver c s k a l d m
  | .tick => tick c s
  | .out k => { s with outBuf := s.outBuf.drop k }

def emptyBank (c : Cfg) : Bank := ⟨List.replicate c.width (List.replicate c.depth none), [], none, []⟩

def init (c : Cfg) : State := ⟨[], [], List.replicate c.banks (emptyBank c), [], [], [], []⟩

def run (c : Cfg) (ops : List Op) : State := ops.foldl (step c) (init c)

/-! ## the repaired component for every pipeline width

Second `fix:` commit: an Akita pipeline with more than one lane does not keep the entry order (a full post-pipeline
buffer stalls the lanes, they are then served by lane number), so `finalizeSingle` no longer takes whatever is at the head
of the post-pipeline buffer. Each bank keeps `inOrder` (entry order into the pipeline); `finalizeSingle` works on
`inOrder[0]` only — a younger request found at the head of the buffer is popped and *set aside* (`setAside`,
`numSetAside`); while something is set aside the bank accepts nothing (`canAccept`). With one lane nothing is ever set
aside and the component behaves exactly as the model above (`MgpuProofs/C17Ref.lean`: `w1_refines`).
The driver answers every case line from this model (`handle`); for width 1 it also runs the model above and compares. -/

structure WBank where
  lanes : List Lane
  post : List Item
  lastRow : Option Nat
  dq : List (Item × Nat)
  /-- `bank.inOrder` (the immutable part of the items): in the pipeline, the post-pipeline buffer or set aside -/
  order : List Req
  /-- the items with `setAside = true`, in the order they were set aside; `numSetAside` = its length -/
  early : List Item
deriving DecidableEq, Repr

def WBank.base (b : WBank) : Bank := ⟨b.lanes, b.post, b.lastRow, b.dq⟩

structure WState where
  topIn : List Req
  pending : List Req
  banks : List WBank
  log : List Req
  outBuf : List Rsp
  arrived : List Req
  resp : List Rsp
deriving Repr

def WState.base (s : WState) : State := ⟨s.topIn, s.pending, s.banks.map WBank.base, s.log, s.outBuf, s.arrived, s.resp⟩

/-- `bank.canAccept()` then `bank.accept(item)`; `none` = `canAccept()` is false -/
def accW (c : Cfg) (it : Item) (b : WBank) : Option WBank :=
  if b.early.isEmpty then
    match acceptLanes (it, c.lat - 1) b.lanes with
    | some lanes' => some { b with lanes := lanes', order := b.order ++ [it.req] }
    | none => none
  else none

def tickBankPipeW (c : Cfg) (b : WBank) : WBank :=
  let r := tickLanes c b.post b.lanes
  { b with post := r.1, lanes := r.2 }

def delayGoW (c : Cfg) : List (Item × Nat) → WBank → List (Item × Nat) → WBank × List (Item × Nat)
  | [], b, rem => (b, rem)
  | (it, n) :: rest, b, rem =>
    if n - 1 = 0 ∧ rem.isEmpty then
      match accW c it b with
      | some b' => delayGoW c rest b' rem
      | none => delayGoW c rest b (rem ++ [(it, n - 1)])
    else delayGoW c rest b (rem ++ [(it, n - 1)])

def tickBankDelayW (c : Cfg) (b : WBank) : WBank :=
  let r := delayGoW c b.dq b []
  { r.1 with dq := r.2 }

def dispatchBankW (c : Cfg) (r : Req) (b : WBank) : Option WBank :=
  if c.row > 0 ∧ c.miss > 0 then
    let row := rowOf c r.addr
    if b.lastRow = some row then
      if b.dq.isEmpty then
        match accW c (fresh r) b with
        | some b' => some { b' with lastRow := some row }
        | none => some { b with dq := b.dq ++ [(fresh r, 0)], lastRow := some row }
      else some { b with dq := b.dq ++ [(fresh r, 0)], lastRow := some row }
    else some { b with dq := b.dq ++ [(fresh r, c.miss)], lastRow := some row }
  else accW c (fresh r) b

def dispatchOneW (c : Cfg) (st : List WBank × List Req) (r : Req) : List WBank × List Req :=
  match st.1[bankOf c r.addr]? with
  | none => (st.1, st.2 ++ [r])
  | some b =>
    match dispatchBankW c r b with
    | some b' => (st.1.set (bankOf c r.addr) b', st.2)
    | none => (st.1, st.2 ++ [r])

def dispatchW (c : Cfg) (s : WState) : WState :=
  let r := s.pending.foldl (dispatchOneW c) (s.banks, [])
  { s with banks := r.1, pending := r.2 }

structure FinW where
  bank : WBank
  log : List Req
  out : List Rsp
  resp : List Rsp
  /-- `some kind` = panic (`cap`: storage refuses the footprint, `bounds`: mask shorter than the data) -/
  fault : Option String
  /-- some `finalizeSingle` returned true (a response was sent or a request was set aside) -/
  prog : Bool

/-- why the first visit of `finalizeRead/Write` panics on this item, if it does (capacity before mask index) -/
def faultOf (c : Cfg) (it : Item) : String := if capFault c it then "cap" else "bounds"

/-- the `for { finalizeSingle }` loop of one bank; one unit of fuel per call of `finalizeSingle` that returns true
(`order.length + post.length + 1` is enough: every such call shortens `inOrder` or the post-pipeline buffer) -/
def finalizeBankW (c : Cfg) : Nat → WBank → List Req → List Rsp → List Rsp → Bool → FinW
  | 0, b, log, out, resp, pg => ⟨b, log, out, resp, none, pg⟩
  | fuel + 1, b, log, out, resp, pg =>
    match b.order with
    | [] => ⟨b, log, out, resp, none, pg⟩
    | o :: os =>
      match b.early.find? (fun it => decide (it.req = o)) with
      | some it =>
        -- the oldest request was set aside earlier: finalize it from there
        if capFault c it then ⟨b, log, out, resp, some "cap", pg⟩ else
        match commit it log with
        | none => ⟨b, log, out, resp, some "bounds", pg⟩
        | some (it', log') =>
          if out.length < c.top then
            finalizeBankW c fuel { b with order := os, early := b.early.filter (fun e => !decide (e.req = o)) }
              log' (out ++ [rspOf it']) (resp ++ [rspOf it']) true
          else ⟨{ b with early := b.early.map (fun e => if e.req = o then it' else e) }, log', out, resp, none, pg⟩
      | none =>
        match b.post with
        | [] => ⟨b, log, out, resp, none, pg⟩
        | h :: t =>
          if h.req = o then
            if capFault c h then ⟨b, log, out, resp, some "cap", pg⟩ else
            match commit h log with
            | none => ⟨b, log, out, resp, some "bounds", pg⟩
            | some (h', log') =>
              if out.length < c.top then
                finalizeBankW c fuel { b with order := os, post := t } log' (out ++ [rspOf h']) (resp ++ [rspOf h']) true
              else ⟨{ b with post := h' :: t }, log', out, resp, none, pg⟩
          else
            -- a younger request left the pipeline first: pop it and set it aside
            finalizeBankW c fuel { b with post := t, early := b.early ++ [h] } log out resp true

structure FinS where
  st : WState
  fault : Option String
  prog : Bool

def finalizeAtW (c : Cfg) (s : WState) (k : Nat) (pg : Bool) : FinS :=
  match s.banks[k]? with
  | none => ⟨s, none, pg⟩
  | some b =>
    let f := finalizeBankW c (b.order.length + b.post.length + 1) b s.log s.outBuf s.resp pg
    ⟨{ s with banks := s.banks.set k f.bank, log := f.log, outBuf := f.out, resp := f.resp }, f.fault, f.prog⟩

def finalizeFromW (c : Cfg) : List Nat → WState → Bool → FinS
  | [], s, pg => ⟨s, none, pg⟩
  | k :: ks, s, pg =>
    let r := finalizeAtW c s k pg
    if r.fault.isSome then r else finalizeFromW c ks r.st r.prog

def finalizeW (c : Cfg) (s : WState) : FinS := finalizeFromW c (List.range s.banks.length) s false

def tickPipesW (c : Cfg) (s : WState) : WState := { s with banks := s.banks.map (tickBankPipeW c) }
def tickDelaysW (c : Cfg) (s : WState) : WState := { s with banks := s.banks.map (tickBankDelayW c) }
def drainTopW (s : WState) : WState := { s with pending := s.pending ++ s.topIn, topIn := [] }

def tickW (c : Cfg) (s : WState) : WState :=
  let f := finalizeW c s
  if f.fault.isSome then f.st else
  let s3 := tickDelaysW c (tickPipesW c f.st)
  if convFault c s3.pending then s3 else drainTopW (dispatchW c s3)

/-- `madeProgress` and the panic kind of the same tick -/
def tickFlagsW (c : Cfg) (s : WState) : Bool × Option String :=
  let f := finalizeW c s
  if f.fault.isSome then (false, f.fault) else
  let s1 := f.st
  let s2 := tickPipesW c s1
  let s3 := tickDelaysW c s2
  if convFault c s3.pending then (false, some "conv") else
  let s4 := dispatchW c s3
  let p2 := decide (s2.banks ≠ s1.banks)
  let p3 := s2.banks.any fun b => !b.dq.isEmpty
  let p4 := decide (s4.pending.length < s3.pending.length)
  let p5 := !s4.topIn.isEmpty
  (f.prog || p2 || p3 || p4 || p5, none)

def deliverW (c : Cfg) (s : WState) (kind : Kind) (addr len : Nat) (data : List Nat) (mask : Option (List Bool)) : WState :=
  if s.topIn.length < c.top then
    let r : Req := ⟨s.arrived.length, kind, addr, len, data, mask⟩
    { s with topIn := s.topIn ++ [r], arrived := s.arrived ++ [r] }
  else s

def stepW (c : Cfg) (s : WState) : Op → WState
  | .deliver k a l d m => deliverW c s k a l d m
  | .tick => tickW c s
  | .out k => { s with outBuf := s.outBuf.drop k }

def emptyBankW (c : Cfg) : WBank := ⟨List.replicate c.width (List.replicate c.depth none), [], none, [], [], []⟩

def initW (c : Cfg) : WState := ⟨[], [], List.replicate c.banks (emptyBankW c), [], [], [], []⟩

def runW (c : Cfg) (ops : List Op) : WState := ops.foldl (stepW c) (initW c)

/-! ## line protocol -/

def showRsp (r : Rsp) : String := match r.req.kind with
  | .rd => s!"d{r.req.id}:{bytesHex r.data}"
  | .wr => s!"w{r.req.id}"

def parseMask (s : String) : Option (List Bool) :=
  if s = "-" then none else if s = "e" then some [] else some (s.toList.map (· == '1'))

/-- tick+drain until quiet (bounded like the harness) -/
def quiesce (c : Cfg) : Nat → State → Nat → List Rsp → State × Nat × List Rsp × Bool
  | 0, s, n, acc => (s, n, acc, false)
  | fuel + 1, s, n, acc =>
    let fl := tickFlags c s
    let s' := tick c s
    if fl.2 then (s', n + 1, acc, true) else
    let d := s'.outBuf
    let s'' := { s' with outBuf := [] }
    if !fl.1 && d.isEmpty then (s'', n + 1, acc, false)
    else quiesce c fuel s'' (n + 1) (acc ++ d)

def dumpAL (c : Cfg) (arrived log : List Req) : String :=
  if arrived.any (fun r => let lo := r.addr - min r.addr 4; capErr c.cap lo (r.addr + r.size + 4 - lo)) then "S=err" else
  let bytes := arrived.flatMap fun r =>
    let lo := r.addr - min r.addr 4
    readRange log lo (r.addr + r.size + 4 - lo)
  s!"S={toHex (fnv bytes)}"

def dump (c : Cfg) (s : State) : String := dumpAL c s.arrived s.log

/-- op `i`: the entry-order bookkeeping of every bank (`bank.inOrder` with the `setAside` (`*`) and `committed` (`!`)
flags), banks separated by `|` -/
def showOrder (order : List Req) (items early : List Item) : String :=
  joinWith "," (order.map fun o =>
    s!"{o.id}" ++ (if early.any (fun e => decide (e.req = o)) then "*" else "") ++
      (if items.any (fun e => decide (e.req = o) && e.committed) then "!" else ""))

def laneItemsM (l : Lane) : List Item := l.filterMap (fun s => s.map (·.1))

/-- one lane: `inOrder` is the post-pipeline buffer followed by the lane, nothing is set aside -/
def showOrders (s : State) : String :=
  "I[" ++ joinWith "|" (s.banks.map fun b =>
    let items := b.post ++ b.lanes.flatMap laneItemsM
    showOrder (items.map (·.req)) items []) ++ "]"

def showOrdersW (s : WState) : String :=
  "I[" ++ joinWith "|" (s.banks.map fun b =>
    showOrder b.order (b.post ++ b.lanes.flatMap laneItemsM ++ b.early) b.early) ++ "]"

def runOps (c : Cfg) : List String → State → List String → List String
  | [], s, acc => (dump c s :: acc).reverse
  | o :: rest, s, acc =>
    match words o with
    | ["w", a, d, m] =>
      match hexNat? a, (if d = "-" then some [] else hexBytes? d) with
      | some a, some d =>
        let s' := deliver c s .wr a d.length d (parseMask m)
        runOps c rest s' ((if s'.arrived.length = s.arrived.length then "f" else "a") :: acc)
      | _, _ => ["bad"]
    | ["r", a, n] =>
      match hexNat? a, n.toNat? with
      | some a, some n =>
        let s' := deliver c s .rd a n [] none
        runOps c rest s' ((if s'.arrived.length = s.arrived.length then "f" else "a") :: acc)
      | _, _ => ["bad"]
    | ["t"] =>
      let fl := tickFlags c s
      runOps c rest (tick c s) ((if fl.2 then "fault:" ++ faultKind c s else if fl.1 then "t1" else "t0") :: acc)
    | ["o", k] =>
      match k.toNat? with
      | some k => runOps c rest { s with outBuf := s.outBuf.drop k }
          (("o[" ++ joinWith "," ((s.outBuf.take k).map showRsp) ++ "]") :: acc)
      | none => ["bad"]
    | ["i"] => runOps c rest s (showOrders s :: acc)
    | ["q"] =>
      let r := quiesce c 2000 s 0 []
      runOps c rest r.1 ((s!"q{r.2.1}[" ++ joinWith "," (r.2.2.1.map showRsp) ++ "]" ++ (if r.2.2.2 then "!" else "")) :: acc)
    | _ => ["bad"]

/-! the same protocol on the model of the repaired component -/

def quiesceW (c : Cfg) : Nat → WState → Nat → List Rsp → WState × Nat × List Rsp × Bool
  | 0, s, n, acc => (s, n, acc, false)
  | fuel + 1, s, n, acc =>
    let fl := tickFlagsW c s
    let s' := tickW c s
    if fl.2.isSome then (s', n + 1, acc, true) else
    let d := s'.outBuf
    let s'' := { s' with outBuf := [] }
    if !fl.1 && d.isEmpty then (s'', n + 1, acc, false)
    else quiesceW c fuel s'' (n + 1) (acc ++ d)

def runOpsW (c : Cfg) : List String → WState → List String → List String
  | [], s, acc => (dumpAL c s.arrived s.log :: acc).reverse
  | o :: rest, s, acc =>
    match words o with
    | ["w", a, d, m] =>
      match hexNat? a, (if d = "-" then some [] else hexBytes? d) with
      | some a, some d =>
        let s' := deliverW c s .wr a d.length d (parseMask m)
        runOpsW c rest s' ((if s'.arrived.length = s.arrived.length then "f" else "a") :: acc)
      | _, _ => ["bad"]
    | ["r", a, n] =>
      match hexNat? a, n.toNat? with
      | some a, some n =>
        let s' := deliverW c s .rd a n [] none
        runOpsW c rest s' ((if s'.arrived.length = s.arrived.length then "f" else "a") :: acc)
      | _, _ => ["bad"]
    | ["t"] =>
      let fl := tickFlagsW c s
      runOpsW c rest (tickW c s) ((match fl.2 with
        | some k => "fault:" ++ k
        | none => if fl.1 then "t1" else "t0") :: acc)
    | ["o", k] =>
      match k.toNat? with
      | some k => runOpsW c rest { s with outBuf := s.outBuf.drop k }
          (("o[" ++ joinWith "," ((s.outBuf.take k).map showRsp) ++ "]") :: acc)
      | none => ["bad"]
    | ["i"] => runOpsW c rest s (showOrdersW s :: acc)
    | ["q"] =>
      let r := quiesceW c 2000 s 0 []
      runOpsW c rest r.1 ((s!"q{r.2.1}[" ++ joinWith "," (r.2.2.1.map showRsp) ++ "]" ++ (if r.2.2.2 then "!" else "")) :: acc)
    | _ => ["bad"]

/-- optional `bisz= bn= bidx= boff=`: the bank address converter (absent on the lines of the main runner) -/
def parseConv (t : List String) : Option Conv :=
  match kvNat? t "bisz", kvNat? t "bn", kvNat? t "bidx", kvNat? t "boff" with
  | some a, some b, some i, some o => some ⟨a, b, i, o⟩
  | _, _, _, _ => none

def parseCfg (t : List String) : Option Cfg := do
  let banks ← kvNat? t "banks"
  let ilv ← kvNat? t "ilv"
  let w ← kvNat? t "w"
  let d ← kvNat? t "d"
  let lat ← kvNat? t "lat"
  let row ← kvNat? t "row"
  let miss ← kvNat? t "miss"
  let post ← kvNat? t "post"
  let top ← kvNat? t "top"
  pure ⟨banks, ilv, w, d, lat, row, miss, post, top, parseConv t, kvNat? t "cap"⟩

/-- `c17 conv bisz=… bn=… bidx=… boff=… ; a ; a ; …` — the converter alone: internal address (hex) or `panic` -/
def handleConv (v : Conv) (rest : List String) : String :=
  joinWith " " (rest.map fun a => match hexNat? a with
    | none => "bad"
    | some a => match v.conv? a with
      | none => "panic"
      | some x => toHex x)

/-- `configurationMustBeValid` (engine apart): numBanks, bankPipelineWidth, bankPipelineDepth, stageLatency,
topPortBufferSize, postPipelineBufSize must all be positive -/
def validCfg (banks width depth lat top post : Nat) : Bool :=
  decide (0 < banks ∧ 0 < width ∧ 0 < depth ∧ 0 < lat ∧ 0 < top ∧ 0 < post)

/-- `determineBankSelector`: `strings.ToLower(bankSelectorType)` must be "" or "interleaved" -/
def selectorOk (t : String) : Bool := t.toLower == "" || t.toLower == "interleaved"

def handle (line : String) : String :=
  match splitTrim line ";" with
  | [] => "bad"
  | first :: rest =>
    if (words first).contains "valid" then
      -- `Builder.configurationMustBeValid`: every one of the six sizes must be positive, else `Build` panics
      match kvNat? (words first) "banks", kvNat? (words first) "w", kvNat? (words first) "d",
            kvNat? (words first) "lat", kvNat? (words first) "top", kvNat? (words first) "post" with
      | some a, some b, some d, some e, some f, some g => if validCfg a b d e f g then "ok" else "panic"
      | _, _, _, _, _, _ => "bad"
    else if (words first).contains "sel" then
      -- `Builder.determineBankSelector`: case-insensitive "" / "interleaved", everything else panics
      match words first with
      | [_, _, t] => if selectorOk t then "ok" else "panic"
      | [_, _] => "ok"
      | _ => "bad"
    else
    if (words first).contains "conv" then
      match parseConv (words first) with
      | some v => handleConv v rest
      | none => "bad"
    else
    match parseCfg (words first) with
    | none => "bad"
    | some c => if c.banks = 0 ∨ c.width = 0 ∨ c.depth = 0 then "bad" else
      let w := joinWith " " (runOpsW c rest (initW c) [])
      -- one lane: the first model (on which the liveness theorems are stated) must give the same answer
      if c.width = 1 then
        let a := joinWith " " (runOps c rest (init c) [])
        if a = w then w else "MODELS-DIFFER " ++ a ++ " | " ++ w
      else w

end C17
