import MgpuModel.Util
/-! # C17 — tick-exact model of `amd/timing/mem/simplebankedmemory` (after the `fix:` commit that keeps
per-bank order with row-buffer timing).

`middleware.Tick` = finalizeBanks → tickPipelines → tickDelayQueues → dispatchPending → drainTopPort.
Akita `pipelining.Pipeline` (width lanes × depth stages, `cyclePerStage`) and `sim.Buffer`
(post-pipeline buffer, port buffers) are modelled as the component uses them.
Lanes are stored **exit stage first** so one structural recursion processes a lane in Akita's order
(last stage → first stage). Core Lean only. -/
namespace C17
open Util

/-- `mem.InterleavingConverter` (Akita) — the shipped MI300A platform installs one as `BankAddressConverter` -/
structure Conv where
  isz : Nat
  n : Nat
  idx : Nat
  off : Nat
deriving Repr, DecidableEq

structure Cfg where
  banks : Nat
  ilv : Nat
  width : Nat
  depth : Nat
  lat : Nat
  row : Nat
  miss : Nat
  post : Nat
  top : Nat
  /-- `BankAddressConverter` (used ONLY to pick the bank and the row), `none` = not installed -/
  bconv : Option Conv
  /-- capacity of the backing `mem.Storage` in bytes; `none` = never exceeded (lines of the main runner) -/
  cap : Option Nat
deriving Repr, DecidableEq

inductive Kind
  | rd
  | wr
deriving DecidableEq, Repr

/-- a request as delivered to the Top port; `id` = acceptance number -/
structure Req where
  id : Nat
  kind : Kind
  addr : Nat
  len : Nat
  data : List Nat
  mask : Option (List Bool)
deriving DecidableEq, Repr

/-- `bankPipelineItem` -/
structure Item where
  req : Req
  committed : Bool
  rdata : List Nat
deriving DecidableEq, Repr

abbrev Stage := Option (Item × Nat)
/-- one pipeline lane, exit stage first -/
abbrev Lane := List Stage

structure Bank where
  lanes : List Lane
  post : List Item
  lastRow : Option Nat
  dq : List (Item × Nat)
deriving DecidableEq, Repr

/-- a response put on the Top port -/
structure Rsp where
  req : Req
  data : List Nat
deriving DecidableEq, Repr

structure State where
  topIn : List Req
  pending : List Req
  banks : List Bank
  /-- committed requests, newest first; the storage contents are a function of it (`readByte`) -/
  log : List Req
  outBuf : List Rsp
  /-- ghost: every accepted request in arrival order -/
  arrived : List Req
  /-- ghost: every response ever sent, in order -/
  resp : List Rsp
deriving Repr

/-! ## storage as a function of the commit log -/

/-- size of the footprint -/
def Req.size (r : Req) : Nat := match r.kind with
  | .rd => r.len
  | .wr => r.data.length

/-- the byte `r` stores at address `x`, if `r` is a write that covers `x` with an enabled byte -/
def wrByte (r : Req) (x : Nat) : Option Nat :=
  if r.kind = .wr ∧ r.addr ≤ x ∧ x < r.addr + r.data.length then
    match r.mask with
    | none => some (r.data.getD (x - r.addr) 0)
    | some m => if m.getD (x - r.addr) false then some (r.data.getD (x - r.addr) 0) else none
  else none

/-- contents of byte `x` after the commits in `log` (newest first); untouched memory reads 0 -/
def readByte : List Req → Nat → Nat
  | [], _ => 0
  | r :: rest, x => match wrByte r x with
    | some v => v
    | none => readByte rest x

def readRange (log : List Req) (addr len : Nat) : List Nat :=
  (List.range len).map fun i => readByte log (addr + i)

/-- `Storage.Read/Write(addr, len)` returns an error (→ `log.Panic`): the access is done in chunks — the first starts at
`addr`, the following ones at every 4 KiB unit boundary below `addr+len` — and `createOrGetStorageUnit` refuses a chunk
whose start lies above the capacity (`address > s.Capacity`, so `addr = Capacity` and the tail of a chunk pass) -/
def capErr (cap : Option Nat) (addr len : Nat) : Bool := match cap with
  | none => false
  | some k => decide (0 < len ∧ k < max addr ((addr + len - 1) / 4096 * 4096))

/-- Go indexes `req.DirtyMask[i]` for every `i < len(req.Data)`: a shorter mask panics -/
def maskOk (r : Req) : Bool := match r.mask with
  | none => true
  | some m => decide (r.data.length ≤ m.length)

/-! ## bank selection and row address (`interleavedBankSelector.Select`, `dispatchPending`) -/

/-- `InterleavingConverter.ConvertExternalToInternal`; `none` = `log.Panic` ("smaller than offset",
"does not belong to current element") or an integer division by zero -/
def Conv.conv? (v : Conv) (a : Nat) : Option Nat :=
  if a < v.off then none
  else if v.isz * v.n = 0 then none
  else if (a - v.off) % (v.isz * v.n) / v.isz ≠ v.idx then none
  else some ((a - v.off) / (v.isz * v.n) * v.isz + a % v.isz)

/-- the address `dispatchPending` selects bank and row from -/
def bankAddr (c : Cfg) (addr : Nat) : Nat := match c.bconv with
  | none => addr
  | some v => (v.conv? addr).getD addr

/-- does `dispatchPending` panic on one of these requests (address conversion)? -/
def convFault (c : Cfg) (reqs : List Req) : Bool := match c.bconv with
  | none => false
  | some v => reqs.any fun r => (v.conv? r.addr).isNone

def bankOf (c : Cfg) (addr : Nat) : Nat := (bankAddr c addr / 2 ^ c.ilv) % c.banks

def rowOf (c : Cfg) (addr : Nat) : Nat :=
  ((bankAddr c addr / 2 ^ c.ilv / c.banks) * 2 ^ c.ilv + bankAddr c addr % 2 ^ c.ilv) / 2 ^ c.row

/-! ## Akita pipeline -/

/-- stages behind an already processed stage `a` (nearer to the exit); returns the lane including `a` -/
def advance (lat : Nat) (a : Stage) : Lane → Lane
  | [] => [a]
  | b :: rest =>
    match b with
    | none => a :: advance lat none rest
    | some (it, left) =>
      if left > 0 then a :: advance lat (some (it, left - 1)) rest
      else match a with
        | none => some (it, lat - 1) :: advance lat none rest
        | some _ => a :: advance lat b rest

/-- `pipelineImpl.Tick` for one lane with the shared post-pipeline buffer -/
def tickLane (c : Cfg) (post : List Item) : Lane → List Item × Lane
  | [] => (post, [])
  | e :: rest =>
    match e with
    | none => (post, advance c.lat none rest)
    | some (it, left) =>
      if left > 0 then (post, advance c.lat (some (it, left - 1)) rest)
      else if post.length < c.post then (post ++ [it], advance c.lat none rest)
      else (post, advance c.lat e rest)

def tickLanes (c : Cfg) (post : List Item) : List Lane → List Item × List Lane
  | [] => (post, [])
  | l :: ls =>
    let r1 := tickLane c post l
    let r2 := tickLanes c r1.1 ls
    (r2.1, r1.2 :: r2.2)

/-- put `x` into the entry stage (last element) of a lane if it is empty -/
def acceptLane (x : Item × Nat) : Lane → Option Lane
  | [] => none
  | s :: rest =>
    match rest with
    | [] => if s.isNone then some [some x] else none
    | _ :: _ => (acceptLane x rest).map (s :: ·)

/-- `Accept`: first lane whose entry stage is free; `none` = `CanAccept()` is false -/
def acceptLanes (x : Item × Nat) : List Lane → Option (List Lane)
  | [] => none
  | l :: ls =>
    match acceptLane x l with
    | some l' => some (l' :: ls)
    | none => (acceptLanes x ls).map (l :: ·)

def tickBankPipe (c : Cfg) (b : Bank) : Bank :=
  let r := tickLanes c b.post b.lanes
  { b with post := r.1, lanes := r.2 }

/-! ## delay queues (`tickDelayQueues`, repaired: released strictly in queue order) -/

def delayGo (c : Cfg) : List (Item × Nat) → List Lane → List (Item × Nat) → List Lane × List (Item × Nat)
  | [], lanes, rem => (lanes, rem)
  | (it, n) :: rest, lanes, rem =>
    if n - 1 = 0 ∧ rem.isEmpty then
      match acceptLanes (it, c.lat - 1) lanes with
      | some lanes' => delayGo c rest lanes' rem
      | none => delayGo c rest lanes (rem ++ [(it, n - 1)])
    else delayGo c rest lanes (rem ++ [(it, n - 1)])

def tickBankDelay (c : Cfg) (b : Bank) : Bank :=
  let r := delayGo c b.dq b.lanes []
  { b with lanes := r.1, dq := r.2 }

/-! ## dispatchPending -/

def fresh (r : Req) : Item := ⟨r, false, []⟩

/-- what `dispatchPending` does with one request on its bank: `none` = stays pending -/
def dispatchBank (c : Cfg) (r : Req) (b : Bank) : Option Bank :=
  if c.row > 0 ∧ c.miss > 0 then
    let row := rowOf c r.addr
    if b.lastRow = some row then
      -- row hit: no extra delay, but behind whatever still waits in this bank
      if b.dq.isEmpty then
        match acceptLanes (fresh r, c.lat - 1) b.lanes with
        | some lanes' => some { b with lanes := lanes', lastRow := some row }
        | none => some { b with dq := b.dq ++ [(fresh r, 0)], lastRow := some row }
      else some { b with dq := b.dq ++ [(fresh r, 0)], lastRow := some row }
    else some { b with dq := b.dq ++ [(fresh r, c.miss)], lastRow := some row }
  else
    match acceptLanes (fresh r, c.lat - 1) b.lanes with
    | some lanes' => some { b with lanes := lanes' }
    | none => none

def dispatchOne (c : Cfg) (st : List Bank × List Req) (r : Req) : List Bank × List Req :=
  match st.1[bankOf c r.addr]? with
  | none => (st.1, st.2 ++ [r])
  | some b =>
    match dispatchBank c r b with
    | some b' => (st.1.set (bankOf c r.addr) b', st.2)
    | none => (st.1, st.2 ++ [r])

def dispatch (c : Cfg) (s : State) : State :=
  let r := s.pending.foldl (dispatchOne c) (s.banks, [])
  { s with banks := r.1, pending := r.2 }

/-! ## finalizeBanks -/

/-- first visit of `finalizeRead/Write`: read the data / apply the (masked) write; `none` = panic -/
def commit (it : Item) (log : List Req) : Option (Item × List Req) :=
  if it.committed then some (it, log)
  else match it.req.kind with
    | .rd => some ({ it with committed := true, rdata := readRange log it.req.addr it.req.len }, it.req :: log)
    | .wr => if maskOk it.req then some ({ it with committed := true }, it.req :: log) else none

def rspOf (it : Item) : Rsp := ⟨it.req, it.rdata⟩

/-- first visit of `finalizeRead/Write` with a footprint the storage refuses (checked before the mask is indexed) -/
def capFault (c : Cfg) (it : Item) : Bool := !it.committed && capErr c.cap it.req.addr it.req.size

structure Fin where
  post : List Item
  log : List Req
  out : List Rsp
  resp : List Rsp
  fault : Bool

/-- the `for { finalizeSingle }` loop of one bank -/
def finalizePost (c : Cfg) : List Item → List Req → List Rsp → List Rsp → Fin
  | [], log, out, resp => ⟨[], log, out, resp, false⟩
  | it :: rest, log, out, resp =>
    if capFault c it then ⟨it :: rest, log, out, resp, true⟩ else
    match commit it log with
    | none => ⟨it :: rest, log, out, resp, true⟩
    | some (it', log') =>
      if out.length < c.top then finalizePost c rest log' (out ++ [rspOf it']) (resp ++ [rspOf it'])
      else ⟨it' :: rest, log', out, resp, false⟩

/-- `finalizeBanks`, loop body for bank `k`: drain its post-pipeline buffer; `true` = panic -/
def finalizeAt (c : Cfg) (s : State) (k : Nat) : State × Bool :=
  match s.banks[k]? with
  | none => (s, false)
  | some b =>
    let f := finalizePost c b.post s.log s.outBuf s.resp
    ({ s with banks := s.banks.set k { b with post := f.post }, log := f.log, outBuf := f.out, resp := f.resp }, f.fault)

def finalizeFrom (c : Cfg) : List Nat → State → State × Bool
  | [], s => (s, false)
  | k :: ks, s =>
    let r := finalizeAt c s k
    if r.2 then r else finalizeFrom c ks r.1

/-- `for i := range m.banks { for { finalizeSingle } }` -/
def finalize (c : Cfg) (s : State) : State × Bool := finalizeFrom c (List.range s.banks.length) s

/-! ## the other phases and the tick -/

def tickPipes (c : Cfg) (s : State) : State := { s with banks := s.banks.map (tickBankPipe c) }
def tickDelays (c : Cfg) (s : State) : State := { s with banks := s.banks.map (tickBankDelay c) }
def drainTop (s : State) : State := { s with pending := s.pending ++ s.topIn, topIn := [] }

/-- one `Comp.Tick()`; a panic in finalizeBanks aborts the tick where it happened. A panic of the bank address
converter in dispatchPending ends the scenario (the real component is left with `pendingReqs` not updated); the model
stops before dispatchPending and reports `fault:conv`. -/
def tick (c : Cfg) (s : State) : State :=
  let f := finalize c s
  if f.2 then f.1 else
  let s3 := tickDelays c (tickPipes c f.1)
  if convFault c s3.pending then s3 else drainTop (dispatch c s3)

/-- `madeProgress` and the panic flag of the same tick -/
def tickFlags (c : Cfg) (s : State) : Bool × Bool :=
  let f := finalize c s
  if f.2 then (false, true) else
  let s1 := f.1
  let s2 := tickPipes c s1
  let s3 := tickDelays c s2
  if convFault c s3.pending then (false, true) else
  let s4 := dispatch c s3
  let p1 := decide (s.resp.length < s1.resp.length)
  let p2 := decide (s2.banks ≠ s1.banks)
  let p3 := s2.banks.any fun b => !b.dq.isEmpty
  let p4 := decide (s4.pending.length < s3.pending.length)
  let p5 := !s4.topIn.isEmpty
  (p1 || p2 || p3 || p4 || p5, false)

/-- which panic aborted the tick of `s` (only meaningful when it faults): the first bank, in index order, whose oldest
post-pipeline item cannot be committed — storage capacity before mask index — else the address converter -/
def faultKind (c : Cfg) (s : State) : String :=
  let f := finalize c s
  if !f.2 then "conv" else
  match f.1.banks.findSome? (fun b => match b.post with
      | it :: _ => if capFault c it then some "cap" else if !it.committed && !maskOk it.req then some "bounds" else none
      | [] => none) with
  | some k => k
  | none => "bounds"

inductive Op
  | deliver (kind : Kind) (addr len : Nat) (data : List Nat) (mask : Option (List Bool))
  | tick
  | out (k : Nat)

def deliver (c : Cfg) (s : State) (kind : Kind) (addr len : Nat) (data : List Nat) (mask : Option (List Bool)) : State :=
  if s.topIn.length < c.top then
    let r : Req := ⟨s.arrived.length, kind, addr, len, data, mask⟩
    { s with topIn := s.topIn ++ [r], arrived := s.arrived ++ [r] }
  else s

def step (c : Cfg) (s : State) : Op → State
  | .deliver k a l d m => deliver c s k a l d m
  | .tick => tick c s
  | .out k => { s with outBuf := s.outBuf.drop k }

def emptyBank (c : Cfg) : Bank := ⟨List.replicate c.width (List.replicate c.depth none), [], none, []⟩

def init (c : Cfg) : State := ⟨[], [], List.replicate c.banks (emptyBank c), [], [], [], []⟩

def run (c : Cfg) (ops : List Op) : State := ops.foldl (step c) (init c)

/-! ## line protocol -/

def showRsp (r : Rsp) : String := match r.req.kind with
  | .rd => s!"d{r.req.id}:{bytesHex r.data}"
  | .wr => s!"w{r.req.id}"

def parseMask (s : String) : Option (List Bool) :=
  if s = "-" then none else if s = "e" then some [] else some (s.toList.map (· == '1'))

/-- tick+drain until quiet (bounded like the harness) -/
def quiesce (c : Cfg) : Nat → State → Nat → List Rsp → State × Nat × List Rsp × Bool
  | 0, s, n, acc => (s, n, acc, false)
  | fuel + 1, s, n, acc =>
    let fl := tickFlags c s
    let s' := tick c s
    if fl.2 then (s', n + 1, acc, true) else
    let d := s'.outBuf
    let s'' := { s' with outBuf := [] }
    if !fl.1 && d.isEmpty then (s'', n + 1, acc, false)
    else quiesce c fuel s'' (n + 1) (acc ++ d)

def dump (c : Cfg) (s : State) : String :=
  if s.arrived.any (fun r => let lo := r.addr - min r.addr 4; capErr c.cap lo (r.addr + r.size + 4 - lo)) then "S=err" else
  let bytes := s.arrived.flatMap fun r =>
    let lo := r.addr - min r.addr 4
    readRange s.log lo (r.addr + r.size + 4 - lo)
  s!"S={toHex (fnv bytes)}"

def runOps (c : Cfg) : List String → State → List String → List String
  | [], s, acc => (dump c s :: acc).reverse
  | o :: rest, s, acc =>
    match words o with
    | ["w", a, d, m] =>
      match hexNat? a, (if d = "-" then some [] else hexBytes? d) with
      | some a, some d =>
        let s' := deliver c s .wr a d.length d (parseMask m)
        runOps c rest s' ((if s'.arrived.length = s.arrived.length then "f" else "a") :: acc)
      | _, _ => ["bad"]
    | ["r", a, n] =>
      match hexNat? a, n.toNat? with
      | some a, some n =>
        let s' := deliver c s .rd a n [] none
        runOps c rest s' ((if s'.arrived.length = s.arrived.length then "f" else "a") :: acc)
      | _, _ => ["bad"]
    | ["t"] =>
      let fl := tickFlags c s
      runOps c rest (tick c s) ((if fl.2 then "fault:" ++ faultKind c s else if fl.1 then "t1" else "t0") :: acc)
    | ["o", k] =>
      match k.toNat? with
      | some k => runOps c rest { s with outBuf := s.outBuf.drop k }
          (("o[" ++ joinWith "," ((s.outBuf.take k).map showRsp) ++ "]") :: acc)
      | none => ["bad"]
    | ["q"] =>
      let r := quiesce c 2000 s 0 []
      runOps c rest r.1 ((s!"q{r.2.1}[" ++ joinWith "," (r.2.2.1.map showRsp) ++ "]" ++ (if r.2.2.2 then "!" else "")) :: acc)
    | _ => ["bad"]

/-- optional `bisz= bn= bidx= boff=`: the bank address converter (absent on the lines of the main runner) -/
def parseConv (t : List String) : Option Conv :=
  match kvNat? t "bisz", kvNat? t "bn", kvNat? t "bidx", kvNat? t "boff" with
  | some a, some b, some i, some o => some ⟨a, b, i, o⟩
  | _, _, _, _ => none

def parseCfg (t : List String) : Option Cfg := do
  let banks ← kvNat? t "banks"
  let ilv ← kvNat? t "ilv"
  let w ← kvNat? t "w"
  let d ← kvNat? t "d"
  let lat ← kvNat? t "lat"
  let row ← kvNat? t "row"
  let miss ← kvNat? t "miss"
  let post ← kvNat? t "post"
  let top ← kvNat? t "top"
  pure ⟨banks, ilv, w, d, lat, row, miss, post, top, parseConv t, kvNat? t "cap"⟩

/-- `c17 conv bisz=… bn=… bidx=… boff=… ; a ; a ; …` — the converter alone: internal address (hex) or `panic` -/
def handleConv (v : Conv) (rest : List String) : String :=
  joinWith " " (rest.map fun a => match hexNat? a with
    | none => "bad"
    | some a => match v.conv? a with
      | none => "panic"
      | some x => toHex x)

def handle (line : String) : String :=
  match splitTrim line ";" with
  | [] => "bad"
  | first :: rest =>
    if (words first).contains "conv" then
      match parseConv (words first) with
      | some v => handleConv v rest
      | none => "bad"
    else
    match parseCfg (words first) with
    | none => "bad"
    | some c => if c.banks = 0 ∨ c.width = 0 ∨ c.depth = 0 then "bad" else
      joinWith " " (runOps c rest (init c) [])

end C17
