/-! # C06 — shape of the fact records the translator (`translate/lanes.go`) extracts from the Go source

One `VectorHandler` per method with a `state` parameter in the vector files of `amd/emu` (GCN3 `ALUImpl`)
and `amd/emu/cdna3` (`ALU`). The records are purely syntactic; what they have to satisfy is
`C06.FitsSkeleton` in `MgpuModel/C06.lean`. -/
namespace C06Facts

/-- the lane-index expression of an operand access / helper call -/
inductive Idx where
  /-- the variable of the enclosing lane loop -/
  | loopVar
  /-- the function's own lane parameter (`laneID int`) — helpers only -/
  | param
  /-- an integer literal -/
  | lit (n : Nat)
  /-- the callee takes no lane argument -/
  | noLane
  /-- anything else (`laneid`, `i^1`, `i+1`, `63-i`, …) -/
  | other (e : String)
deriving DecidableEq, Repr

/-- a `for` statement (outside any other lane loop) whose body touches `state`, EXEC, LDS or memory -/
structure LoopFact where
  line : Nat
  /-- `v := lo` (−1: not a constant) -/
  lo : Int
  /-- `v < hi` (−1: not a constant / another comparison) -/
  hi : Int
  lt : Bool
  /-- post statement is `v++` -/
  inc : Bool
  /-- first statement of the body: 1 = `if exec&(1<<uint(v)) == 0 { continue }` or `if !laneMasked(exec, uint(v)) { continue }`
      with `exec := state.EXEC()`; 2 = some other test mentioning `exec`; 0 = none -/
  guard : Nat
  /-- a `break` that leaves the lane loop, or a `return` inside it -/
  hasBreak : Bool
  /-- the loop variable is assigned in the body -/
  varWritten : Bool
deriving DecidableEq, Repr

/-- one `state.ReadOperand/WriteOperand/ReadOperandBytes/WriteOperandBytes(<operand>, <idx>, …)` -/
structure UseFact where
  line : Nat
  call : String
  operand : String
  idx : Idx
  inLoop : Bool
  /-- `WriteOperand(<op>, 0, <mask accumulator>)`: the write-back of a 64-bit mask result -/
  sink : Bool
deriving DecidableEq, Repr

/-- a `uint64` variable holding a lane mask: `x := state.VCC()`, or a variable written back by
    `state.SetVCC(x)` / `state.WriteOperand(_, 0, x)` -/
structure MaskVar where
  name : String
  /-- 0 = `var x uint64` (zero), 1 = `x := state.VCC()`, 2 = anything else -/
  init : Nat
  /-- `x |= 1 << uint(v)`, `x |= c << uint(v)`, `x &= ^(uint64(1) << uint(v))` inside the lane loop -/
  updBit : Nat
  /-- any other assignment -/
  updOther : Nat
  /-- `x & (1 << uint(v))`, `(x & (1<<uint(v))) >> uint(v)`, `(x >> uint(v)) & 1` inside the lane loop -/
  readBit : Nat
  /-- any other occurrence -/
  readOther : Nat
  /-- written back after the loop -/
  sinkAfter : Nat
  /-- written back inside the loop -/
  sinkInLoop : Nat
  declaredInLoop : Bool
deriving DecidableEq, Repr

/-- `u.<callee>(state, …)` -/
structure CallFact where
  line : Nat
  callee : String
  /-- index of the callee's record in `Gen.vectorHandlers` (a witness; Lean checks the name) -/
  calleeIdx : Nat
  laneArg : Idx
  inLoop : Bool
deriving DecidableEq, Repr

structure VectorHandler where
  name : String
  arch : String
  file : String
  line : Nat
  /-- has a `laneID int` parameter (per-lane helper such as `flatAddrWithScalar`) -/
  isHelper : Bool
  loops : List LoopFact
  uses : List UseFact
  masks : List MaskVar
  calls : List CallFact
  /-- `state.VCC() & (1<<uint(v))`-like inline reads inside the lane loop -/
  vccInlineBit : Nat
  /-- any other inline `state.VCC()` -/
  vccInlineOther : Nat
  /-- `state.SetVCC(e)` with `e` not a tracked mask variable -/
  sinkOther : Nat
  /-- `exec := state.EXEC()` -/
  execAssigns : Nat
  /-- occurrences of the EXEC value outside a lane-loop guard -/
  execOther : Nat
  setExec : Nat
  setScc : Nat
  setPc : Nat
  /-- `lds[…]` inside / outside a lane loop -/
  ldsIn : Nat
  ldsOut : Nat
  /-- `u.storageAccessor.Read/Write` inside / outside a lane loop -/
  memIn : Nat
  memOut : Nat
  /-- variables declared outside the lane loop and assigned inside it (other than mask variables and
      `[N]byte` staging buffers): a channel from one lane's iteration to the next -/
  carried : List String
  /-- `var x [N]byte` declared outside the loop and filled inside it -/
  staging : List String
deriving Repr

structure Dispatch where
  arch : String
  format : String
  op : Nat
  /-- first method called in the case body ("" = the case does nothing: s_nop, s_waitcnt) -/
  handler : String
  /-- index of that method's record in `Gen.vectorHandlers` / `Gen.scalarHandlers` (a witness; Lean checks the name) -/
  hidx : Nat
deriving DecidableEq, Repr

structure ScalarHandler where
  name : String
  arch : String
  file : String
  line : Nat
  execReads : Nat
  execWrites : Nat
  /-- index of a `Gen.dispatch` entry that names this method (a witness; Lean checks the name) -/
  didx : Nat
deriving DecidableEq, Repr

end C06Facts
