import MgpuModel.Gen.LaneBodies
/-! # C06, second deepening — what sits AROUND the translated lane bodies

* `LaneHandler.sdwaWrap` — the state wrapper `emu.NewSDWAState` (amd/emu/sdwa.go) that both `runVOP2`
  dispatchers put around EVERY handler when `inst.IsSdwa`: the handler sees a plain instruction, reads of
  SRC0 / SRC1 deliver the selected sub-dword, a write of the vector destination goes through DST_SEL /
  DST_UNUSED. The two select functions are the TRANSLATIONS of `SDWASrcSelect` / `SDWADstSelect`
  (`Gen.Lane.fn_gcn3_*`), the wrapper itself is transcribed by hand (its source hash is the obligation
  `hand_modelled_unchanged`).
* `goMemRun` — a DS / FLAT handler as Go runs it: lanes in order on ONE mutable register file / memory / access
  log / staging array, the guard as written, `log.Panicf` of a body aborting the loop.
* `goReadFirstLane` — the documented cross-lane instruction `v_readfirstlane_b32`, transcribed.
* `noLaneRun` — handlers without lane code (`vop3aPreprocess/Postprocess`, CDNA3 `v_cmp_f_u64`). -/
namespace C06
open Gen.Lane

/-! ## `emu.NewSDWAState` -/

/-- `uint64(SDWASrcSelect(uint32(value), sel))` -/
def sdwaSrc (v : BitVec 64) (sel : BitVec 32) : BitVec 64 :=
  (fn_gcn3_SDWASrcSelect (v.setWidth 32) sel).setWidth 64

/-- `uint64(SDWADstSelect(uint32(old), uint32(value), sel, unused))` -/
def sdwaDst (old new : BitVec 64) (sel : BitVec 32) (unused : BitVec 8) : BitVec 64 :=
  (fn_gcn3_SDWADstSelect (old.setWidth 32) (new.setWidth 32) sel unused).setWidth 64

/-- the instruction the wrapped handler sees: `s.plain = *s.sdwa; s.plain.IsSdwa = false` -/
def Uni.plain (u : Uni) : Uni := { u with isSdwa := false }

/-- what the wrapped handler reads in iteration `i`: `sdwaState.ReadOperand` selects on `inst.Src0` / `inst.Src1`
    and passes every other operand (`inst.Src2`, `inst.Dst`) and `VCC()` through -/
def RawIn.sdwa (r : RawIn) (u : Uni) : RawIn :=
  { r with src0 := sdwaSrc r.src0 u.src0Sel, src1 := sdwaSrc r.src1 u.src1Sel }

/-- **a handler under `emu.NewSDWAState`**: `sdwaState.WriteOperand(inst.Dst, i, v)` reads the destination of
    lane `i` (still the value before this lane's write: a body writes its destination at most once) and stores
    `SDWADstSelect(old, v, DstSel, DstUnused)` -/
def LaneHandler.sdwaWrap (h : LaneHandler) : LaneHandler :=
  { arch := h.arch, name := h.name, guard := h.guard, accInit := h.accInit, msrc := h.msrc, sink := h.sink
    ok := fun u => h.ok u.plain
    raw := fun u r =>
      let o := h.raw u.plain (r.sdwa u)
      { dst := o.dst.map fun v => sdwaDst r.dstOld v u.dstSel u.dstUnused, acc := o.acc } }

/-- `runVOP2`: `inst := state.Inst(); if inst.IsSdwa { state = NewSDWAState(state) }; switch inst.Opcode { … u.h(state) }` -/
def vop2Handler (h : LaneHandler) (u : Uni) : LaneHandler := if u.isSdwa then h.sdwaWrap else h

def vop2Run (h : LaneHandler) (ops : Ops) (exec vcc0 : BitVec 64) (vgpr : Nat → Nat → Nat) : GoSt :=
  goRun (vop2Handler h ops.uni) ops exec vcc0 vgpr

/-! ## DS / FLAT handlers as Go runs them -/

/-- mutable state of the Go loop of a memory handler -/
structure GoMemSt where
  vgpr : Nat → Nat → Nat
  /-- LDS (DS) / memory (FLAT), byte addressed -/
  mem : Nat → Nat
  log : List Access
  /-- the staging array declared outside the loop -/
  stage : Bytes
  /-- a `log.Panicf` of a lane body was reached: the instruction aborted there -/
  fault : Bool

/-- what iteration `i` reads from the CURRENT state: `ReadOperand(inst.Addr, i)`, `ReadOperandBytes(inst.Data, i, ·)`,
    LDS / memory as the earlier lanes left it, the staging array as the previous lane left it -/
def GoMemSt.rawIn (g : GoMemSt) (ops : MemOps) (i : Nat) : MemRawIn :=
  { i := i
    addr := (if ops.addrN ≤ 1 then BitVec.ofNat 64 (g.vgpr i ops.addrReg % 4294967296)
             else BitVec.ofNat 64 (g.vgpr i ops.addrReg % 4294967296 + 4294967296 * (g.vgpr i (ops.addrReg + 1) % 4294967296)))
    data := regBytes (g.vgpr i) ops.dataReg 4
    data1 := regBytes (g.vgpr i) ops.data1Reg 4
    mem := fun k => BitVec.ofNat 8 (g.mem k)
    stage := g.stage }

/-- one iteration: `if exec&(1<<uint(i)) == 0 { continue }; body` (every DS / FLAT handler uses this guard);
    nothing happens any more once a body has panicked -/
def goMemIter (h : MemHandler) (ops : MemOps) (exec : BitVec 64) (i : Nat) (g : GoMemSt) : GoMemSt :=
  if g.fault then g else
  if Guard.skips .bitZero exec i then g else
    let o := h.raw ops.uni (g.rawIn ops i)
    if o.fault then { g with fault := true } else
    { vgpr := (match o.dst with
        | some bs => fun l => if l = i then writeCells (g.vgpr i) (bytesToWrites ops.dstReg bs) else g.vgpr l
        | none => g.vgpr)
      mem := applyStores g.mem (o.stores.map fun s => (s.1, s.2.toNat))
      log := g.log ++ (o.loads.map (fun a => ⟨i, false, a.1, a.2⟩) ++ o.stores.map (fun a => ⟨i, true, a.1, 1⟩))
      stage := o.stage
      fault := false }

def goMemLoop (h : MemHandler) (ops : MemOps) (exec : BitVec 64) : Nat → GoMemSt → GoMemSt
  | 0, g => g
  | n + 1, g => goMemIter h ops exec n (goMemLoop h ops exec n g)

/-- `exec := state.EXEC(); var buf [N]byte; for i := 0; i < 64; i++ {…}` on the state `s`; `stage0` is what the
    staging array holds on entry (zero in Go: `var buf [N]byte`; any bytes for the theorems) -/
def goMemRun (h : MemHandler) (ops : MemOps) (exec : BitVec 64) (s : VState) (stage0 : Bytes) : GoMemSt :=
  goMemLoop h ops exec 64 { vgpr := s.vgpr, mem := s.mem, log := s.log, stage := stage0, fault := false }

/-- the lanes below `n` only -/
def execBelow (exec : BitVec 64) (n : Nat) : BitVec 64 := exec &&& (BitVec.allOnes 64 >>> (64 - n))

/-! ## `v_readfirstlane_b32` (both ALUs, same text up to the receiver) -/

/-- the scan `var laneid int; for i := 0; i < 64; i++ { if exec&(1<<uint(i)) == 0 { continue }; laneid = i; break }`
    after `n` iterations: (laneid, the loop was left) -/
def rflScan (exec : BitVec 64) : Nat → Nat × Bool
  | 0 => (0, false)
  | n + 1 =>
    let p := rflScan exec n
    if p.2 then p else if Guard.skips .bitZero exec n then p else (n, true)

/-- `src0 := state.ReadOperand(inst.Src0, laneid)` -/
def goReadFirstLane (src0 : Opnd) (exec : BitVec 64) (vgpr : Nat → Nat → Nat) : BitVec 64 :=
  readOpnd src0 (vgpr (rflScan exec 64).1)

/-- the register file after `for i := 0; i < 64; i++ { state.WriteOperand(inst.Dst, i, src0) }`: the destination
    of `v_readfirstlane_b32` is an SGPR (`Opnd.uni`: no vector register is written); were it a VGPR the loop
    would write EVERY lane, whatever EXEC says -/
def goReadFirstLaneVgpr (src0 dst : Opnd) (exec : BitVec 64) (vgpr : Nat → Nat → Nat) : Nat → Nat → Nat :=
  fun l => if l < 64 then writeCells (vgpr l) (writeOpnd dst (goReadFirstLane src0 exec vgpr)) else vgpr l

/-- the specification: the lowest set bit of EXEC, lane 0 when EXEC = 0 -/
def firstActive (exec : BitVec 64) : Nat := ((List.range 64).find? fun i => exec.getLsbD i).getD 0

/-! ## handlers without lane code -/

/-- what a handler without lane code does to VCC (nothing else changes); `none`: it panics -/
def noLaneRun (h : NoLaneHandler) (u : Uni) (vcc : BitVec 64) : Option (BitVec 64) :=
  if h.ok u then some (h.setVCC.getD vcc) else none

/-- the skeleton instance of "write the constant mask 0": no register write, every active lane's bit false -/
def hConstFalse : Handler Unit :=
  { f := fun _ _ => { writes := [], bit := false, loads := [], stores := [] }, mask := .fresh }

end C06
