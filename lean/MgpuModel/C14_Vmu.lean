import MgpuModel.Util
/-! # C14 — the vector memory unit's transaction path, cycle by cycle

Hand transcription of `amd/timing/cu/vectormemoryunit.go` (`Run` = `sendRequest` ;
`transactionPipeline.Tick` ; `insertTransactionToPipeline`, with the coalescing stall) and of the
Akita pipeline it is built from (`akita/pipelining/pipeline.go`: `Tick`, `CanAccept`, `Accept`, with
`cyclePerStage = 1` as `cubuilder.go` sets it): a transaction created by `executeFlatLoad/Store`
waits in `transactionsWaiting`, enters the first free lane of the transaction pipeline (`width` lanes
of `stages` stages), leaves it into the post-pipeline buffer (capacity `buf`) and is put on the
`ToVectorMem` port (capacity `cap`, at most `burst` = 16 per cycle).

A transaction is its creation index. `sent` / `created` are ghosts. The model predicts in which
cycle every transaction reaches the port — and in which ORDER.

An Akita pipeline with several lanes does not keep the entry order: a full post-pipeline buffer
stalls the lanes, `Tick` then serves them by lane number, and a younger transaction reaches the
buffer before an older one. The REPAIRED unit (this model: `send`, `insertLoop`, `cycle`, `run`)
records the entry order (`transactionsInOrder`), `sendRequest` sends the oldest transaction only, a
younger head of the post-pipeline buffer is set aside, and while something is set aside the
pipeline accepts nothing (`canAcceptTransaction`): the transactions leave in creation order for
every width (`Props/C14Vmu.lean`: `vmu_fifo`, `vmu_fifo_full_all`). The unit before the repair took whatever stood
at the head of the post-pipeline buffer: kept as `C14.Vmu.Old` (`Old.send`, … `Old.run`; a FIFO with
one lane only, `vmu_fifo_before_fix_…_refuted`). -/
namespace C14.Vmu
open Util

structure Cfg where
  width : Nat
  stages : Nat
  /-- capacity of the post-pipeline buffer -/
  buf : Nat
  /-- capacity of the outgoing buffer of `ToVectorMem` -/
  cap : Nat
  /-- `sendRequest`: requests per cycle -/
  burst : Nat
deriving Repr, DecidableEq

structure St where
  /-- `transactionsWaiting`: (transaction, coalescing penalty charged after it enters the pipeline) -/
  waiting : List (Nat × Nat)
  /-- `coalescingStallRemaining` -/
  stall : Nat
  /-- `transactionPipeline.stages[lane][stage]` -/
  lanes : List (List (Option Nat))
  /-- `postTransactionPipelineBuffer` -/
  post : List Nat
  /-- outgoing buffer of the port -/
  out : List Nat
  /-- ghost: every transaction put on the port, in order -/
  sent : List Nat
  /-- number of transactions created so far -/
  next : Nat
  /-- `transactionsInOrder` (repaired unit): the transactions in the pipeline, in the post-pipeline
      buffer or set aside, in the order they entered the pipeline -/
  inOrder : List Nat := []
  /-- the entries of `transactionsInOrder` flagged `setAside`, in the order they were set aside;
      `numTransactionsSetAside` is the length of this list -/
  aside : List Nat := []
deriving Repr, DecidableEq

def St.init (c : Cfg) : St :=
  { waiting := [], stall := 0, lanes := List.replicate c.width (List.replicate c.stages none),
    post := [], out := [], sent := [], next := 0, inOrder := [], aside := [] }

/-- `executeFlatLoad/Store`: an instruction with `k` transactions, each with coalescing penalty `p` -/
def issue (s : St) (k p : Nat) : St :=
  { s with waiting := s.waiting ++ (List.range k).map (fun j => (s.next + j, p)), next := s.next + k }

/-- `sendRequest` (repaired): at most `n` rounds; each round looks at the OLDEST transaction of
    `transactionsInOrder`. If it is set aside it goes to the port (if the port has room). Otherwise the
    head of the post-pipeline buffer is inspected: the oldest transaction goes to the port, any other
    (younger) one is popped and set aside. -/
def send (c : Cfg) : Nat → St → St
  | 0, s => s
  | n + 1, s =>
    match s.inOrder with
    | [] => s
    | e :: older =>
      if e ∈ s.aside then
        if s.out.length < c.cap then
          send c n { s with inOrder := older, aside := s.aside.erase e, out := s.out ++ [e], sent := s.sent ++ [e] }
        else s
      else
        match s.post with
        | [] => s
        | h :: rest =>
          if h = e then
            if s.out.length < c.cap then
              send c n { s with inOrder := older, post := rest, out := s.out ++ [e], sent := s.sent ++ [e] }
            else s
          else send c n { s with post := rest, aside := s.aside ++ [h] }

/-- `Tick` on one lane, stages from the last to the first: the last stage moves its element to the
    post-pipeline buffer if that can be pushed, any other stage moves its element on if the next
    stage is (now) empty -/
def laneTick (b : Nat) : List (Option Nat) → List Nat → List (Option Nat) × List Nat
  | [], post => ([], post)
  | [x], post =>
    match x with
    | none => ([none], post)
    | some e => if post.length < b then ([none], post ++ [e]) else ([some e], post)
  | x :: y :: rest, post =>
    let r := laneTick b (y :: rest) post
    match x, r.1 with
    | some e, none :: tl => (none :: some e :: tl, r.2)
    | _, _ => (x :: r.1, r.2)

/-- `Tick`: lane 0 first, then lane 1, … -/
def tick (b : Nat) : List (List (Option Nat)) → List Nat → List (List (Option Nat)) × List Nat
  | [], post => ([], post)
  | l :: ls, post =>
    let r := laneTick b l post
    let r2 := tick b ls r.2
    (r.1 :: r2.1, r2.2)

/-- `Accept`: the element goes into stage 0 of the first lane whose stage 0 is empty; `none` = no
    such lane (`CanAccept` is false) -/
def accept (e : Nat) : List (List (Option Nat)) → Option (List (List (Option Nat)))
  | [] => none
  | (none :: tl) :: ls => some ((some e :: tl) :: ls)
  | l :: ls => (accept e ls).map (l :: ·)

/-- the loop of `insertTransactionToPipeline` (at most `fuel` = all waiting transactions);
    `canAcceptTransaction`: nothing is set aside and the pipeline can accept; an accepted transaction
    is appended to `transactionsInOrder` -/
def insertLoop (c : Cfg) : Nat → St → St
  | 0, s => s
  | fuel + 1, s =>
    match s.waiting with
    | [] => s
    | (e, p) :: rest =>
      if s.aside ≠ [] then s
      else if c.stages = 0 then
        -- `numStage == 0`: `CanAccept` = the post-pipeline buffer can be pushed, `Accept` pushes
        if s.post.length < c.buf then
          let s' := { s with waiting := rest, post := s.post ++ [e], inOrder := s.inOrder ++ [e] }
          if p > 0 then { s' with stall := p } else insertLoop c fuel s'
        else s
      else
        match accept e s.lanes with
        | none => s
        | some lanes =>
          let s' := { s with waiting := rest, lanes := lanes, inOrder := s.inOrder ++ [e] }
          if p > 0 then { s' with stall := p } else insertLoop c fuel s'

/-- `insertTransactionToPipeline` -/
def insert (c : Cfg) (s : St) : St :=
  if s.stall > 0 then { s with stall := s.stall - 1 } else insertLoop c s.waiting.length s

/-- one cycle of `VectorMemoryUnit.Run` -/
def cycle (c : Cfg) (s : St) : St :=
  let s1 := send c c.burst s
  let r := tick c.buf s1.lanes s1.post
  insert c { s1 with lanes := r.1, post := r.2 }

/-- the connection takes `n` requests from the port -/
def take (s : St) (n : Nat) : St := { s with out := s.out.drop n }

inductive Op where
  | issue (k p : Nat)
  /-- one cycle, then the memory side takes `t` requests -/
  | cyc (t : Nat)
deriving Repr, DecidableEq

def step (c : Cfg) (s : St) : Op → St
  | .issue k p => issue s k p
  | .cyc t => take (cycle c s) t

def run (c : Cfg) (s : St) (ops : List Op) : St := ops.foldl (step c) s

/-! ### the unit before the repair (`sendRequest` took the head of the post-pipeline buffer,
`insertTransactionToPipeline` asked the pipeline only); `inOrder` / `aside` are not used -/
namespace Old

/-- `sendRequest`: up to `n` transactions from the head of the post-pipeline buffer go to the port
    while it has room -/
def send (c : Cfg) : Nat → St → St
  | 0, s => s
  | n + 1, s =>
    match s.post with
    | [] => s
    | e :: rest =>
      if s.out.length < c.cap then
        send c n { s with post := rest, out := s.out ++ [e], sent := s.sent ++ [e] }
      else s

/-- the loop of `insertTransactionToPipeline` (at most `fuel` = all waiting transactions) -/
def insertLoop (c : Cfg) : Nat → St → St
  | 0, s => s
  | fuel + 1, s =>
    match s.waiting with
    | [] => s
    | (e, p) :: rest =>
      if c.stages = 0 then
        -- `numStage == 0`: `CanAccept` = the post-pipeline buffer can be pushed, `Accept` pushes
        if s.post.length < c.buf then
          let s' := { s with waiting := rest, post := s.post ++ [e] }
          if p > 0 then { s' with stall := p } else insertLoop c fuel s'
        else s
      else
        match accept e s.lanes with
        | none => s
        | some lanes =>
          let s' := { s with waiting := rest, lanes := lanes }
          if p > 0 then { s' with stall := p } else insertLoop c fuel s'

/-- `insertTransactionToPipeline` -/
def insert (c : Cfg) (s : St) : St :=
  if s.stall > 0 then { s with stall := s.stall - 1 } else insertLoop c s.waiting.length s

/-- one cycle of `VectorMemoryUnit.Run` -/
def cycle (c : Cfg) (s : St) : St :=
  let s1 := send c c.burst s
  let r := tick c.buf s1.lanes s1.post
  insert c { s1 with lanes := r.1, post := r.2 }

def step (c : Cfg) (s : St) : Op → St
  | .issue k p => issue s k p
  | .cyc t => take (cycle c s) t

def run (c : Cfg) (s : St) (ops : List Op) : St := ops.foldl (step c) s

end Old

/-- transactions inside the pipeline -/
def inPipe (s : St) : Nat := (s.lanes.map (fun l => (l.filter Option.isSome).length)).sum

/-! ### `c14 vmu w=<width> n=<stages> b=<buf> cap=<cap> ; is <k> <p> ; cy <t> ; …`

Answer: per `cy` the transactions put on the port in that cycle and `waiting:inPipe:post:aside`
after it, per `is` the index of the first transaction created; at the end the whole send order. -/

def parseOp (toks : List String) : Option Op :=
  match toks with
  | ["is", k, p] => do pure (.issue (← k.toNat?) (← p.toNat?))
  | ["cy", t] => do pure (.cyc (← t.toNat?))
  | _ => none

def idsDot (l : List Nat) : String := if l.isEmpty then "-" else joinWith "." (l.map toString)

def handle (toks : List String) (ops : List String) : String :=
  match kvNat? toks "w", kvNat? toks "n", kvNat? toks "b", kvNat? toks "cap" with
  | some w, some n, some b, some cap =>
    let c : Cfg := { width := w, stages := n, buf := b, cap := cap, burst := 16 }
    let r := ops.foldl (fun (acc : St × Array String) o =>
      let s := acc.1
      match parseOp (words o) with
      | none => (s, acc.2.push "x")
      | some op =>
        let s' := step c s op
        match op with
        | .issue _ _ => (s', acc.2.push s!"i{s.next}")
        | .cyc _ =>
          (s', acc.2.push s!"{idsDot (s'.sent.drop s.sent.length)}/{s'.waiting.length}:{inPipe s'}:{s'.post.length}:{s'.aside.length}"))
      (St.init c, #[])
    joinWith " " (r.2.toList ++ ["sent=" ++ idsDot r.1.sent])
  | _, _, _, _ => "bad"

end C14.Vmu
