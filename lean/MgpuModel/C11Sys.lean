import MgpuModel.C11Core
/-! # C11 — the closed copy system: driver copy middleware + command processor + DMA engine + memory

`Sys` composes the three tick-exact component models — `MqEnv` (the driver's copy path,
`MgpuModel/C11Mq.lean`), `CpEnv` (the command processor's copy / flush path, `C11Cp.lean`) and `Env`
(the DMA engine, `C11Core.lean`) — with a byte memory, the caches' dirty data and the page table into ONE
closed system. Every move of the system is a move of one component, or the hand-over of a message
between two of them (= an environment move of both: the GPU side of the driver IS the command
processor's driver port, the DMA side of the command processor IS the DMA engine, the memory side of
the DMA engine IS the memory). Nothing is left to an unconstrained environment except the
application (which enqueues copies), the kernel (which writes into the caches) and the schedule.
The payload (addresses, bytes) the component models abstract from is looked up through the ghost
links request → command piece; the memory performs a transaction when it answers it.

`c11 sys …` case lines run `Sys.step` against the REAL `driver.Driver`, `cp.CommandProcessor` and
`cp.DMAEngine` wired together by hand (`harness/c11_sys.go`). -/
namespace C11
open Util

/-- byte memory: association list, newest entry first; untouched bytes hold `memByte` -/
abbrev SMem := List (Nat × Nat)

def SMem.get (m : SMem) (a : Nat) : Nat :=
  match m.lookup a with
  | some v => v
  | none => memByte a

/-- write `bs` at `a`, `a+1`, … -/
def SMem.write (m : SMem) (a : Nat) : List Nat → SMem
  | [] => m
  | b :: bs => SMem.write ((a, b) :: m) (a + 1) bs

def SMem.read (m : SMem) (a n : Nat) : List Nat := (List.range n).map fun i => m.get (a + i)

/-- a copy command as the application issues it -/
structure SysCmd where
  q : Nat
  kind : MqKind
  /-- virtual address of the device range -/
  addr : Nat
  /-- payload of a host-to-device copy (`[]` for the other direction) -/
  data : List Nat
  len : Nat
  /-- `pieces pt len addr 0 len`: (paddr, offset in the host buffer, length) per page piece -/
  pcs : List (Nat × Nat × Nat)
  flush : Bool
deriving Repr

/-- a memory transaction performed by the memory (ghost log) -/
structure MemTx where
  /-- id of the transaction (`MemReq.id`) -/
  id : Nat
  write : Bool
  addr : Nat
  len : Nat
  /-- bytes written / bytes observed -/
  bytes : List Nat
  /-- id of the DMA copy request (= clone id of the command processor) it belongs to -/
  owner : Nat
deriving Repr

/-- an event that reads or changes the memory (ghost history, in order) -/
inductive MemEv where
  /-- the memory performed transaction `t` -/
  | tx (t : MemTx)
  /-- cache `i` wrote its dirty byte `v` back to physical address `a` -/
  | wb (i a v : Nat)
deriving Repr

structure Sys where
  pt : List Page := []
  bufs : List Buf := []
  mq : MqEnv := {}
  cp : CpEnv := {}
  dma : Env := { s := {} }
  mem : SMem := []
  /-- dirty bytes in the caches: (cache, physical address, value), newest first -/
  dirty : List (Nat × Nat × Nat) := []
  /-- completions retrieved from the DMA engine, not yet delivered to the command processor -/
  wire : List Nat := []
  /-- every copy command enqueued, in order -/
  cmds : List SysCmd := []
  /-- bytes delivered into host buffers by device-to-host copies: (queue, seq, offset, value), newest first -/
  host : List (Nat × Nat × Nat × Nat) := []
  /-- ghost: every transaction the memory performed, in order -/
  mlog : List MemTx := []
  /-- ghost: every event that read or changed the memory (transactions and write-backs), in order -/
  hist : List MemEv := []

/-- the `seq`-th command enqueued on queue `q` -/
def Sys.cmdOf (s : Sys) (q seq : Nat) : Option SysCmd := (s.cmds.filter (·.q == q))[seq]?

/-- the page piece a copy request of the driver carries -/
structure Piece where
  cmd : SysCmd
  seq : Nat
  /-- physical address, offset in the host buffer, length -/
  pa : Nat
  off : Nat
  len : Nat
deriving Repr

def Sys.pieceOf (s : Sys) (r : MqReq) : Option Piece :=
  if r.kind = .flush then none else
  match s.cmdOf r.q r.seq with
  | none => none
  | some c =>
    match c.pcs[r.idx]? with
    | none => none
    | some p => some { cmd := c, seq := r.seq, pa := p.1, off := p.2.1, len := p.2.2 }

/-- the driver request behind request `id` of the command processor's driver port: requests are
    delivered to the port in the order the GPU side of the driver takes them -/
def Sys.reqOfCp (s : Sys) (id : Nat) : Option MqReq := s.mq.seen[id]?

/-- the driver request behind DMA copy request `c` (= the `c`-th clone the DMA side took) -/
def Sys.reqOfDma (s : Sys) (c : Nat) : Option MqReq :=
  match s.cp.dmaSeen[c]? with
  | none => none
  | some cl => s.reqOfCp cl.orig

def mqKindToCp : MqKind → CpKind
  | .flush => .flush
  | .h2d => .h2d
  | .d2h => .d2h

def mqKindToDma : MqKind → Kind
  | .d2h => .d2h
  | _ => .h2d

inductive SysOp where
  /-- the application enqueues a copy: queue, direction, virtual address, length, payload salt -/
  | enq (q : Nat) (h2d : Bool) (addr len salt : Nat)
  | drvTick
  /-- the request at the head of the driver's GPU port reaches the command processor -/
  | toCp
  | cpTick
  | cacheTake (k : Nat)
  /-- the `j`-th outstanding cache flush is performed (dirty bytes written back) and acknowledged -/
  | cacheAck (j : Nat)
  /-- the clone at the head of the command processor's DMA port reaches the DMA engine -/
  | toDma
  | dmaTick
  | memTake (k : Nat)
  /-- the memory performs and answers the `j`-th outstanding transaction -/
  | memDo (j : Nat)
  /-- the DMA engine's completions are put on the wire to the command processor -/
  | dmaOut
  /-- the completion at the head of the wire reaches the command processor -/
  | toCpRsp
  /-- the answer at the head of the command processor's driver port reaches the driver -/
  | toDrv
  /-- a running kernel writes byte `v` at physical address `a`; it stays dirty in cache `i` -/
  | kwrite (i a v : Nat)
deriving Repr

def sysReqStr (s : Sys) (r : MqReq) : String :=
  mqReqStr r ++ (match s.pieceOf r with
    | some p => "@" ++ toHex p.pa ++ "+" ++ toString p.len
    | none => "")

/-- position of the first element satisfying `p` -/
def findIdx? {α} (p : α → Bool) : List α → Option Nat
  | [] => none
  | x :: xs => if p x then some 0 else (findIdx? p xs).map (· + 1)

/-- write-back of cache `i`: its dirty bytes reach memory, oldest first -/
def Sys.writeBack (s : Sys) (i : Nat) : Sys :=
  { s with mem := (s.dirty.filter (·.1 == i)).reverse.foldl (fun m e => (e.2.1, e.2.2) :: m) s.mem,
           dirty := s.dirty.filter (·.1 != i),
           hist := s.hist ++ (s.dirty.filter (·.1 == i)).reverse.map fun e => MemEv.wb e.1 e.2.1 e.2.2 }

def Sys.step (s : Sys) : SysOp → Sys × String
  | .enq q h2d addr len salt =>
    match pieces s.pt len addr 0 len with
    | none => (s, "bad")
    | some pcs =>
      if q < s.mq.s.queues.length then
        let kind : MqKind := if h2d then .h2d else .d2h
        let c : SysCmd := { q := q, kind := kind, addr := addr,
                            data := if h2d then (List.range len).map (h2dByte (addr + salt)) else [],
                            len := len, pcs := pcs, flush := needFlushing s.bufs addr len }
        let r := s.mq.step (.enq q { kind := kind, pieces := pcs.length, flush := c.flush })
        ({ s with mq := r.1, cmds := s.cmds ++ [c] }, r.2)
      else (s, "bad")
  | .drvTick =>
    let r := s.mq.step .tick
    ({ s with mq := r.1 }, r.2)
  | .toCp =>
    match s.mq.s.portOut with
    | [] => (s, "none")
    | r :: _ =>
      if s.cp.s.drvIn.length < s.cp.s.capIn then
        let a := s.mq.step (.take 1)
        let b := s.cp.step (.req (mqKindToCp r.kind))
        ({ s with mq := a.1, cp := b.1 }, "g[" ++ sysReqStr s r ++ "]")
      else (s, "full")
  | .cpTick =>
    let r := s.cp.step .tick
    ({ s with cp := r.1 }, r.2)
  | .cacheTake k =>
    let r := s.cp.step (.takeCache k)
    ({ s with cp := r.1 }, r.2)
  | .cacheAck j =>
    match s.cp.atCaches with
    | [] => (s, "none")
    | _ =>
      if s.cp.s.cacheIn.length ≥ s.cp.s.capIn then (s, "full") else
      let i := s.cp.atCaches.getD (j % s.cp.atCaches.length) 0
      let r := s.cp.step (.ack j)
      ({ s.writeBack i with cp := r.1 }, r.2)
  | .toDma =>
    match s.cp.s.dmaOut with
    | [] => (s, "none")
    | cl :: _ =>
      match (s.reqOfCp cl.orig).bind s.pieceOf with
      | none => (s, "bad-link")
      | some p =>
        let a := s.cp.step (.takeDma 1)
        let b := s.dma.step (.copy (mqKindToDma p.cmd.kind) p.pa p.len)
        ({ s with cp := a.1, dma := b }, a.2)
  | .dmaTick =>
    let e := s.dma.step .tick
    ({ s with dma := e }, match e.s.fault with
      | some f => "fault:" ++ f
      | none => if (s.dma.s.tick).2 then "t1" else "t0")
  | .memTake k =>
    let taken := s.dma.s.memOut.take k
    let strs := taken.map fun r =>
      if r.write then
        match (s.reqOfDma r.owner).bind s.pieceOf with
        | some p => s!"w({toHex r.addr},{r.len},{toHex (fnv ((p.cmd.data.drop (p.off + (r.addr - p.pa))).take r.len))})"
        | none => "w?"
      else s!"r({toHex r.addr},{r.len})"
    ({ s with dma := s.dma.step (.take k) }, "m[" ++ joinWith "," strs ++ "]")
  | .memDo j =>
    match s.dma.outstanding with
    | [] => (s, "none")
    | _ =>
      if s.dma.s.memIn.length ≥ s.dma.s.memCap then (s, "full") else
      match s.dma.outstanding[j % s.dma.outstanding.length]? with
      | none => (s, "none")
      | some r =>
        match (s.reqOfDma r.owner).bind s.pieceOf with
        | none => (s, "bad-link")
        | some p =>
          let e := s.dma.step (.respond j)
          if r.write then
            let bytes := (p.cmd.data.drop (p.off + (r.addr - p.pa))).take r.len
            ({ s with dma := e, mem := s.mem.write r.addr bytes,
                      mlog := s.mlog ++ [{ id := r.id, write := true, addr := r.addr, len := r.len, bytes := bytes, owner := r.owner }],
                      hist := s.hist ++ [.tx { id := r.id, write := true, addr := r.addr, len := r.len, bytes := bytes, owner := r.owner }] }, "ok")
          else
            let bytes := s.mem.read r.addr r.len
            ({ s with dma := e,
                      host := (bytes.zipIdx.map fun (b, i) => (p.cmd.q, p.seq, p.off + (r.addr - p.pa) + i, b)).reverse ++ s.host,
                      mlog := s.mlog ++ [{ id := r.id, write := false, addr := r.addr, len := r.len, bytes := bytes, owner := r.owner }],
                      hist := s.hist ++ [.tx { id := r.id, write := false, addr := r.addr, len := r.len, bytes := bytes, owner := r.owner }] }, "ok")
  | .dmaOut =>
    let cs := s.dma.s.cpOut
    ({ s with dma := s.dma.step .drain, wire := s.wire ++ cs },
     "c[" ++ joinWith "," (cs.map toString) ++ "]")
  | .toCpRsp =>
    match s.wire with
    | [] => (s, "none")
    | c :: rest =>
      match findIdx? (fun (cl : CpClone) => cl.cid == c) s.cp.atDma with
      | none => (s, "bad-link")
      | some j =>
        if s.cp.s.dmaIn.length ≥ s.cp.s.capIn then (s, "full") else
        ({ s with cp := (s.cp.step (.rsp j)).1, wire := rest }, "ok")
  | .toDrv =>
    match s.cp.s.drvOut with
    | [] => (s, "none")
    | m :: _ =>
      match s.reqOfCp m.id with
      | none => (s, "bad-link")
      | some rq =>
        match findIdx? (fun (x : MqReq) => x.id == rq.id) s.mq.outstanding with
        | none => (s, "bad-link")
        | some j =>
          let a := s.cp.step (.takeDrv 1)
          let b := s.mq.step (.rsp j)
          ({ s with cp := a.1, mq := b.1 }, a.2)
  | .kwrite i a v => ({ s with dirty := (i, a, v) :: s.dirty }, "ok")

def Sys.run (s : Sys) : List SysOp → Sys
  | [] => s
  | op :: rest => ((s.step op).1).run rest

/-- the bytes a completed device-to-host copy delivered into its host buffer -/
def Sys.d2hResult (s : Sys) (q seq len : Nat) : List Nat :=
  (List.range len).map fun i =>
    match s.host.find? (fun e => e.1 == q && e.2.1 == seq && e.2.2.1 == i) with
    | some e => e.2.2.2
    | none => 0

/-- what the application sees through the caches: the newest dirty byte, else memory -/
def Sys.view (s : Sys) (a : Nat) : Nat :=
  match s.dirty.find? (fun e => e.2.1 == a) with
  | some e => e.2.2
  | none => s.mem.get a

structure SysCfg where
  pt : List Page := []
  bufs : List Buf := []
  nCaches : Nat := 4
  cin : Nat := 4096
  cdrv : Nat := 4096
  cdma : Nat := 4096
  ccache : Nat := 4096
  cycH2D : Nat := 0
  cycD2H : Nat := 0
  nQueues : Nat := 1
  warm : Bool := false
  log2 : Nat := 6
  maxReq : Nat := 4
  memCap : Nat := 64

def Sys.init (c : SysCfg) : Sys :=
  { pt := c.pt, bufs := c.bufs,
    mq := MqEnv.init 1 c.cycH2D c.cycD2H c.nQueues c.warm,
    cp := CpEnv.init c.nCaches c.cin c.cdrv c.cdma c.ccache,
    dma := Env.init c.log2 c.maxReq c.memCap }

/-! ## Line protocol
`c11 sys pt=v:p:size,… bufs=start:size:d,… caches=N cin= cdrv= cdma= ccache= h2d= d2h= queues= warm= log2= max= ; op ; …`
ops: `e q h|d vaddr len salt`, `t` (driver tick), `g` (request → CP), `c` (CP tick), `xc k`, `a j`,
`m` (clone → DMA), `T` (DMA tick), `M k` (memory takes k), `R j` (memory performs + answers),
`D` (DMA completions → wire), `d` (wire → CP), `r` (CP answer → driver), `kw i paddr v`,
`img` (hash of every command's physical range with a guard band, results of the completed D2H copies). -/

def parseBufs (s : String) : Option (List Buf) :=
  if s == "" || s == "-" then some [] else
  (s.splitOn ",").mapM fun e =>
    match e.splitOn ":" with
    | [a, z, d] => do
      let a ← hexNat? a
      let z ← z.toNat?
      pure { start := a, size := z, dirty := d == "1" }
    | _ => none

/-- sequence number of the `k`-th enqueued command on its queue -/
def Sys.seqOf (s : Sys) (k : Nat) : Nat :=
  match s.cmds[k]? with
  | some c => ((s.cmds.take k).filter (·.q == c.q)).length
  | none => 0

def Sys.imgStr (s : Sys) : String :=
  let mems := s.cmds.map fun c =>
    toHex (fnv (c.pcs.flatMap fun p => s.mem.read (p.1 - 4) (p.2.2 + 8)))
  let res := s.cmds.zipIdx.filterMap fun (c, k) =>
    let seq := s.seqOf k
    if c.kind == .d2h && s.mq.s.completed.contains (c.q, seq) then
      some s!"d{c.q}.{seq}={toHex (fnv (s.d2hResult c.q seq c.len))}"
    else none
  joinWith "," mems ++ "|" ++ joinWith "," res

def sysLineOp (s : Sys) (toks : List String) : Sys × String :=
  match toks with
  | ["e", q, k, a, l, salt] =>
    match q.toNat?, hexNat? a, l.toNat?, salt.toNat? with
    | some q, some a, some l, some salt => s.step (.enq q (k == "h") a l salt)
    | _, _, _, _ => (s, "bad")
  | ["t"] => s.step .drvTick
  | ["g"] => s.step .toCp
  | ["c"] => s.step .cpTick
  | ["xc", k] => s.step (.cacheTake (k.toNat?.getD 0))
  | ["a", j] => s.step (.cacheAck (j.toNat?.getD 0))
  | ["m"] => s.step .toDma
  | ["T"] => s.step .dmaTick
  | ["M", k] => s.step (.memTake (k.toNat?.getD 0))
  | ["R", j] => s.step (.memDo (j.toNat?.getD 0))
  | ["D"] => s.step .dmaOut
  | ["d"] => s.step .toCpRsp
  | ["r"] => s.step .toDrv
  | ["kw", i, a, v] =>
    match i.toNat?, hexNat? a, v.toNat? with
    | some i, some a, some v => s.step (.kwrite i a v)
    | _, _, _ => (s, "bad")
  | ["img"] => (s, s.imgStr)
  | _ => (s, "bad")

def runSys (cfg : List String) (ops : List String) : String :=
  match (kv? cfg "pt").bind parsePt, (kv? cfg "bufs").bind parseBufs with
  | some pt, some bufs =>
    let c : SysCfg := {
      pt := pt
      bufs := bufs
      nCaches := (kvNat? cfg "caches").getD 4
      cin := (kvNat? cfg "cin").getD 4096
      cdrv := (kvNat? cfg "cdrv").getD 4096
      cdma := (kvNat? cfg "cdma").getD 4096
      ccache := (kvNat? cfg "ccache").getD 4096
      cycH2D := (kvNat? cfg "h2d").getD 0
      cycD2H := (kvNat? cfg "d2h").getD 0
      nQueues := (kvNat? cfg "queues").getD 1
      warm := ((kvNat? cfg "warm").getD 0 == 1)
      log2 := (kvNat? cfg "log2").getD 6
      maxReq := (kvNat? cfg "max").getD 4 }
    let r := ops.foldl (fun (a : Sys × List String) o =>
      let q := sysLineOp a.1 (words o)
      (q.1, q.2 :: a.2)) (Sys.init c, [])
    joinWith " " r.2.reverse
  | _, _ => "bad"

end C11
