import MgpuModel.Util
import MgpuModel.C03V_Float
import MgpuModel.C03V_Int
/-! # C03 (vector / memory half) — executable ISA specification

`handle` takes a case line `c03 v <arch> <hexbytes> <cell>=<hex> …` (the pre-state cells the
harness set; every other cell is 0), decodes the instruction word with its own field
extraction, executes the ISA semantics and prints the post-state *delta* in the canonical
order of `harness/emustate.go: delta`.

Independent of the Go handlers: integer lane functions are in `C03V_Int.lean` (meaning lemmas
in `MgpuProofs/Props/C03V.lean`), float arithmetic is the exact rational reference of
`C03V_Float.lean`, operand fetch / EXEC masking / VCC / SDWA / memory addressing are written
from the manuals. -/
namespace C03V
open C03V.I

/-! ## state -/
structure St where
  s : Array Nat
  v : Array Nat
  vcc : Nat
  exec : Nat
  scc : Nat
  m0 : Nat
  pc : Nat
  lds : List (Nat × Nat)
  mem : List (Nat × Nat)

def St.empty : St :=
  { s := Array.replicate 128 0, v := Array.replicate (256 * 64) 0, vcc := 0, exec := 0, scc := 0,
    m0 := 0, pc := 0, lds := [], mem := [] }

def St.rs (st : St) (i : Nat) : Nat := st.s.getD i 0
def St.rv (st : St) (r lane : Nat) : Nat := st.v.getD (r * 64 + lane) 0
def lookup (l : List (Nat × Nat)) (a : Nat) : Nat :=
  match l.find? (fun p => p.1 == a) with
  | some p => p.2
  | none => 0
def St.rlds (st : St) (a : Nat) : Nat := lookup st.lds a
def St.rmem (st : St) (a : Nat) : Nat := lookup st.mem a

inductive Cell where
  | s (i : Nat)
  | v (r lane : Nat)
  | vcc
  | exec
  | scc
  | pc
  | m0
  | lds (a : Nat)
  | mem (a : Nat)

/-- canonical order of `delta`: SGPRs, VGPRs lane-major, vcc, exec, scc, pc, m0, LDS, memory -/
def Cell.key : Cell → Nat
  | .s i => i
  | .v r l => 1 * 2 ^ 80 + l * 256 + r
  | .vcc => 2 * 2 ^ 80
  | .exec => 3 * 2 ^ 80
  | .scc => 4 * 2 ^ 80
  | .pc => 5 * 2 ^ 80
  | .m0 => 6 * 2 ^ 80
  | .lds a => 7 * 2 ^ 80 + a
  | .mem a => 8 * 2 ^ 80 + a

def St.old (st : St) : Cell → Nat
  | .s i => st.rs i
  | .v r l => st.rv r l
  | .vcc => st.vcc
  | .exec => st.exec
  | .scc => st.scc
  | .pc => st.pc
  | .m0 => st.m0
  | .lds a => st.rlds a
  | .mem a => st.rmem a

def Cell.show (c : Cell) (x : Nat) : String :=
  match c with
  | .s i => s!"s{i}={Util.toHex x}"
  | .v r l => s!"v{r}[{l}]={Util.toHex x}"
  | .vcc => s!"vcc={Util.toHex x}"
  | .exec => s!"exec={Util.toHex x}"
  | .scc => s!"scc={x}"
  | .pc => s!"pc={Util.toHex x}"
  | .m0 => s!"m0={Util.toHex x}"
  | .lds a => s!"lds[{Util.toHex a}]={Util.toHexPad 2 x}"
  | .mem a => s!"mem[{Util.toHex a}]={Util.toHexPad 2 x}"

abbrev Wr := Cell × Nat

/-- the printed delta: last write to a cell wins, cells whose value did not change are omitted -/
def finalize (st : St) (ws : List Wr) : String :=
  let arr : Array (Nat × Nat × Wr) := (ws.zipIdx.map fun (w, i) => (w.1.key, i, w)).toArray
  let sorted := arr.qsort (fun a b => a.1 < b.1 || (a.1 == b.1 && a.2.1 < b.2.1))
  let n := sorted.size
  let out := (List.range n).filterMap fun i =>
    match sorted[i]? with
    | none => none
    | some (k, _, (c, x)) =>
      let lastOfKey := match sorted[i + 1]? with
        | some (k', _, _) => k' != k
        | none => true
      if lastOfKey && st.old c != x then some (c.show x) else none
  if out.isEmpty then "-" else " ".intercalate out

/-! ## case-line parsing -/
def parseCell (st : St) (tok : String) : Option St := do
  let parts := tok.splitOn "="
  guard (parts.length == 2)
  let k := parts[0]!
  let vs := parts[1]!
  if k == "vcc" then pure { st with vcc := ← Util.hexNat? vs }
  else if k == "exec" then pure { st with exec := ← Util.hexNat? vs }
  else if k == "scc" then pure { st with scc := ← Util.hexNat? vs }
  else if k == "m0" then pure { st with m0 := ← Util.hexNat? vs }
  else if k == "pc" then pure { st with pc := ← Util.hexNat? vs }
  else if k.startsWith "lds[" || k.startsWith "mem[" then
    let a ← Util.hexNat? (((k.drop 4).toString.dropEnd 1).toString)
    let bs ← Util.hexBytes? vs
    let cells := bs.zipIdx.map fun (b, i) => (a + i, b)
    if k.startsWith "lds[" then pure { st with lds := cells ++ st.lds }
    else pure { st with mem := cells ++ st.mem }
  else if k.startsWith "s" then
    let i ← ((k.drop 1).toString).toNat?
    pure { st with s := st.s.setIfInBounds i (← Util.hexNat? vs) }
  else if k.startsWith "v" then
    let body := (k.drop 1).toString
    let ps := body.splitOn "["
    guard (ps.length == 2)
    let r ← ps[0]!.toNat?
    let l ← ((ps[1]!.dropEnd 1).toString).toNat?
    pure { st with v := st.v.setIfInBounds (r * 64 + l) (← Util.hexNat? vs) }
  else none

/-! ## operand fetch -/
def lo32 (x : Nat) : Nat := x % 2 ^ 32
def w32 (x : Nat) : W := BitVec.ofNat 32 x
def w64 (x : Nat) : D := BitVec.ofNat 64 x

def inlineF32 (code : Nat) : Nat :=
  match code with
  | 240 => 0x3f000000 | 241 => 0xbf000000 | 242 => 0x3f800000 | 243 => 0xbf800000
  | 244 => 0x40000000 | 245 => 0xc0000000 | 246 => 0x40800000 | 247 => 0xc0800000
  | _ => 0x3e22f983
def inlineF64 (code : Nat) : Nat :=
  match code with
  | 240 => 0x3fe0000000000000 | 241 => 0xbfe0000000000000 | 242 => 0x3ff0000000000000
  | 243 => 0xbff0000000000000 | 244 => 0x4000000000000000 | 245 => 0xc000000000000000
  | 246 => 0x4010000000000000 | 247 => 0xc010000000000000
  | _ => 0x3fc45f306dc9c882

/-- a 64-bit scalar register pair / special register -/
def St.sreg64 (st : St) (code : Nat) : Nat :=
  if code == 106 then st.vcc else if code == 126 then st.exec
  else st.rs code + st.rs (code + 1) * 2 ^ 32

/-- 9-bit source operand of width `w` (32 or 64) for lane `lane` -/
def St.src (st : St) (code lane w lit : Nat) (f64 : Bool) : Nat :=
  if code ≥ 256 then
    let r := code - 256
    if w == 64 then st.rv r lane + st.rv (r + 1) lane * 2 ^ 32 else st.rv r lane
  else if code ≤ 101 then (if w == 64 then st.sreg64 code else st.rs code)
  else if code == 106 then (if w == 64 then st.vcc else lo32 st.vcc)
  else if code == 107 then st.vcc / 2 ^ 32
  else if code == 124 then st.m0
  else if code == 126 then (if w == 64 then st.exec else lo32 st.exec)
  else if code == 127 then st.exec / 2 ^ 32
  else if 128 ≤ code && code ≤ 192 then code - 128
  else if 193 ≤ code && code ≤ 208 then 2 ^ w - (code - 192)
  else if 240 ≤ code && code ≤ 248 then (if w == 64 && f64 then inlineF64 code else inlineF32 code)
  else if code == 255 then lit
  else 0

/-! ## vector-ALU opcode table -/
inductive Ty where
  | int | f32 | f64
deriving BEq

inductive Kind where
  | plain      -- D = f(S0,S1,S2)
  | carryOut   -- also writes carry to VCC / SDST
  | carryIO    -- reads carry-in (VCC or SRC2 mask), writes carry-out
  | cmp        -- writes only a lane mask
  | cndmask    -- D = mask[lane] ? S1 : S0
  | mac        -- S2 is the old destination
  | madmk      -- D = S0 * K + S1
  | madak      -- D = S0 * S1 + K
  | rfl        -- v_readfirstlane_b32
  | movrel     -- v_movrelsd_b32
  | fmas       -- v_div_fmas: reads VCC[lane]
deriving BEq

structure LaneIn where
  a : Nat
  b : Nat
  c : Nat
  cin : Bool

structure LaneOut where
  d : Nat
  co : Bool := false

structure VOp where
  name : String
  nsrc : Nat
  w0 : Nat := 32
  w1 : Nat := 32
  w2 : Nat := 32
  wd : Nat := 32
  kind : Kind := .plain
  ty : Ty := .int
  /-- result is produced by float arithmetic (NaN canonical, clamp applies) -/
  arith : Bool := false
  /-- which sources accept the float ABS / NEG input modifiers (bit i = source i) -/
  modMask : Nat := 7
  f : LaneIn → LaneOut

def un32 (n : String) (g : W → W) : VOp := { name := n, nsrc := 1, f := fun x => ⟨(g (w32 x.a)).toNat, false⟩ }
def bin32 (n : String) (g : W → W → W) : VOp :=
  { name := n, nsrc := 2, f := fun x => ⟨(g (w32 x.a) (w32 x.b)).toNat, false⟩ }
def tri32 (n : String) (g : W → W → W → W) : VOp :=
  { name := n, nsrc := 3, f := fun x => ⟨(g (w32 x.a) (w32 x.b) (w32 x.c)).toNat, false⟩ }
def binF (n : String) (fm : F.Fmt) (g : Nat → Nat → Nat) : VOp :=
  let w := fm.width
  { name := n, nsrc := 2, w0 := w, w1 := w, wd := w, ty := if w == 64 then .f64 else .f32, arith := true,
    f := fun x => ⟨g x.a x.b, false⟩ }
def triF (n : String) (fm : F.Fmt) (g : Nat → Nat → Nat → Nat) : VOp :=
  let w := fm.width
  { name := n, nsrc := 3, w0 := w, w1 := w, w2 := w, wd := w, ty := if w == 64 then .f64 else .f32,
    arith := true, f := fun x => ⟨g x.a x.b x.c, false⟩ }
def co32 (n : String) (g : W → W → W × Bool) : VOp :=
  { name := n, nsrc := 2, kind := .carryOut,
    f := fun x => let r := g (w32 x.a) (w32 x.b); ⟨r.1.toNat, r.2⟩ }
def cio32 (n : String) (g : W → W → Bool → W × Bool) : VOp :=
  { name := n, nsrc := 2, kind := .carryIO,
    f := fun x => let r := g (w32 x.a) (w32 x.b) x.cin; ⟨r.1.toNat, r.2⟩ }
def cmpOf (n : String) (w : Nat) (ty : Ty) (g : Nat → Nat → Bool) : VOp :=
  { name := n, nsrc := 2, w0 := w, w1 := w, wd := 0, kind := .cmp, ty := ty, f := fun x => ⟨0, g x.a x.b⟩ }

/-- float compare, `op` 0..15: F LT EQ LE GT LG GE O U NGE NLG NGT NLE NEQ NLT TRU -/
def fcmp (fm : F.Fmt) (op : Nat) (a b : Nat) : Bool :=
  let r := F.cmpV (F.unpack fm a) (F.unpack fm b)
  let lt := r == some .lt
  let eq := r == some .eq
  let gt := r == some .gt
  let un := r.isNone
  match op with
  | 0 => false | 1 => lt | 2 => eq | 3 => lt || eq | 4 => gt | 5 => lt || gt | 6 => gt || eq
  | 7 => !un | 8 => un | 9 => !(gt || eq) | 10 => !(lt || gt) | 11 => !gt | 12 => !(lt || eq)
  | 13 => !eq | 14 => !lt | _ => true

/-- V_CMP_CLASS_F32: S1 is a mask over the ten IEEE classes of S0 -/
def fclass (fm : F.Fmt) (a mask : Nat) : Bool :=
  let neg := a ≥ fm.signBit
  let e := (a / 2 ^ fm.mb) % 2 ^ fm.eb
  let m := a % 2 ^ fm.mb
  let cls : Nat :=
    if e == fm.expMax && m != 0 then (if m ≥ 2 ^ (fm.mb - 1) then 1 else 0)
    else if e == fm.expMax then (if neg then 2 else 9)
    else if e == 0 && m == 0 then (if neg then 5 else 6)
    else if e == 0 then (if neg then 4 else 7)
    else (if neg then 3 else 8)
  mask.testBit cls

def cmpNames : Array String := #["f", "lt", "eq", "le", "gt", "ne", "ge", "t"]
def fcmpNames : Array String :=
  #["f", "lt", "eq", "le", "gt", "lg", "ge", "o", "u", "nge", "nlg", "ngt", "nle", "neq", "nlt", "tru"]

/-- VOPC opcode space (identical on GCN3 and CDNA3 for the opcodes below) -/
def vopcTable (op : Nat) : Option VOp :=
  if op == 16 then some { cmpOf "v_cmp_class_f32" 32 .f32 (fun a b => fclass F.f32 a b) with modMask := 1 }
  else if 64 ≤ op && op < 80 then
    some (cmpOf ("v_cmp_" ++ fcmpNames[op - 64]! ++ "_f32") 32 .f32 (fcmp F.f32 (op - 64)))
  else if 96 ≤ op && op < 112 then
    some (cmpOf ("v_cmp_" ++ fcmpNames[op - 96]! ++ "_f64") 64 .f64 (fcmp F.f64 (op - 96)))
  else if 160 ≤ op && op < 168 then
    some (cmpOf ("v_cmp_" ++ cmpNames[op - 160]! ++ "_i16") 32 .int
      (fun a b => cmpI (op - 160) (BitVec.ofNat 16 a) (BitVec.ofNat 16 b)))
  else if 168 ≤ op && op < 176 then
    some (cmpOf ("v_cmp_" ++ cmpNames[op - 168]! ++ "_u16") 32 .int
      (fun a b => cmpU (op - 168) (BitVec.ofNat 16 a) (BitVec.ofNat 16 b)))
  else if 192 ≤ op && op < 200 then
    some (cmpOf ("v_cmp_" ++ cmpNames[op - 192]! ++ "_i32") 32 .int (fun a b => cmpI (op - 192) (w32 a) (w32 b)))
  else if 200 ≤ op && op < 208 then
    some (cmpOf ("v_cmp_" ++ cmpNames[op - 200]! ++ "_u32") 32 .int (fun a b => cmpU (op - 200) (w32 a) (w32 b)))
  else if 224 ≤ op && op < 232 then
    some (cmpOf ("v_cmp_" ++ cmpNames[op - 224]! ++ "_i64") 64 .int (fun a b => cmpI (op - 224) (w64 a) (w64 b)))
  else if 232 ≤ op && op < 240 then
    some (cmpOf ("v_cmp_" ++ cmpNames[op - 232]! ++ "_u64") 64 .int (fun a b => cmpU (op - 232) (w64 a) (w64 b)))
  else none

/-- V_MUL_LEGACY_F32: DX9 rules, 0 * anything = +0 -/
def mulLegacy (a b : Nat) : Nat :=
  if a % 2 ^ 31 == 0 || b % 2 ^ 31 == 0 then 0 else F.mul F.f32 a b

def vop2Table (cdna3 : Bool) (op : Nat) : Option VOp :=
  match op with
  | 0 => some { name := "v_cndmask_b32", nsrc := 2, kind := .cndmask, f := fun x => ⟨if x.cin then x.b else x.a, false⟩ }
  | 1 => some (binF "v_add_f32" F.f32 (F.add F.f32))
  | 2 => some (binF "v_sub_f32" F.f32 (F.sub F.f32))
  | 3 => some (binF "v_subrev_f32" F.f32 (fun a b => F.sub F.f32 b a))
  -- 4 = v_mul_legacy_f32 (GCN3): DX9 rules for 0 * inf / NaN, sign of the zero not documented: no exact reference
  | 5 => some (binF "v_mul_f32" F.f32 (F.mul F.f32))
  | 6 => some (bin32 "v_mul_i32_i24" mulI24)
  | 8 => some (bin32 "v_mul_u32_u24" mulU24)
  | 10 => some { binF "v_min_f32" F.f32 (F.fmin F.f32) with arith := false }
  | 11 => some { binF "v_max_f32" F.f32 (F.fmax F.f32) with arith := false }
  | 12 => some (bin32 "v_min_i32" minI)
  | 13 => some (bin32 "v_max_i32" maxI)
  | 14 => some (bin32 "v_min_u32" minU)
  | 15 => some (bin32 "v_max_u32" maxU)
  | 16 => some (bin32 "v_lshrrev_b32" lshrrev)
  | 17 => some (bin32 "v_ashrrev_i32" ashrrev)
  | 18 => some (bin32 "v_lshlrev_b32" lshlrev)
  | 19 => some (bin32 "v_and_b32" (· &&& ·))
  | 20 => some (bin32 "v_or_b32" (· ||| ·))
  | 21 => some (bin32 "v_xor_b32" (· ^^^ ·))
  | 22 => if cdna3 then none else
          some { triF "v_mac_f32" F.f32 (F.mad F.f32) with nsrc := 2, kind := .mac }
  | 23 => some { triF (if cdna3 then "v_fmamk_f32" else "v_madmk_f32") F.f32
                   (if cdna3 then F.fma F.f32 else F.mad F.f32) with nsrc := 2, kind := .madmk }
  | 24 => some { triF (if cdna3 then "v_fmaak_f32" else "v_madak_f32") F.f32
                   (if cdna3 then F.fma F.f32 else F.mad F.f32) with nsrc := 2, kind := .madak }
  | 25 => some (co32 "v_add_co_u32" addCo)
  | 26 => some (co32 "v_sub_co_u32" subCo)
  | 27 => some (co32 "v_subrev_co_u32" (fun a b => subCo b a))
  | 28 => some (cio32 "v_addc_co_u32" addcCo)
  | 29 => some (cio32 "v_subb_co_u32" subbCo)
  | 30 => some (cio32 "v_subbrev_co_u32" (fun a b c => subbCo b a c))
  | 38 => some (bin32 "v_add_u16" addU16)
  | 42 => some (bin32 "v_lshlrev_b16" lshlrev16)
  | 52 => if cdna3 then some (bin32 "v_add_u32" (· + ·)) else none
  | 53 => if cdna3 then some (bin32 "v_sub_u32" (· - ·)) else none
  | 54 => if cdna3 then some (bin32 "v_subrev_u32" (fun a b => b - a)) else none
  | 59 => if cdna3 then some { triF "v_fmac_f32" F.f32 (F.fma F.f32) with nsrc := 2, kind := .mac } else none
  | _ => none

def cvtOp (n : String) (ws wd : Nat) (ty : Ty) (arith : Bool) (g : Nat → Nat) : VOp :=
  { name := n, nsrc := 1, w0 := ws, wd := wd, ty := ty, arith := arith, f := fun x => ⟨g x.a, false⟩ }

def vop1Table (cdna3 : Bool) (op : Nat) : Option VOp :=
  match op with
  | 1 => some (un32 "v_mov_b32" id)
  | 2 => some { un32 "v_readfirstlane_b32" id with kind := .rfl }
  | 4 => some (cvtOp "v_cvt_f64_i32" 32 64 .int true (fun a => F.pack F.f64 (F.ofSInt 32 a)))
  | 5 => some (cvtOp "v_cvt_f32_i32" 32 32 .int true (fun a => F.pack F.f32 (F.ofSInt 32 a)))
  | 6 => some (cvtOp "v_cvt_f32_u32" 32 32 .int true (fun a => F.pack F.f32 (F.ofUInt a)))
  | 7 => some (cvtOp "v_cvt_u32_f32" 32 32 .f32 false (fun a => F.toUInt 32 (F.unpack F.f32 a)))
  | 8 => some (cvtOp "v_cvt_i32_f32" 32 32 .f32 false (fun a => F.toSInt 32 (F.unpack F.f32 a)))
  | 10 => some (cvtOp "v_cvt_f16_f32" 32 32 .f32 false (fun a =>
            if F.isNaNBits F.f32 a then F.f16.qnan else F.cvt F.f32 F.f16 a))
  | 15 => some (cvtOp "v_cvt_f32_f64" 64 32 .f64 true (F.cvt F.f64 F.f32))
  | 16 => some (cvtOp "v_cvt_f64_f32" 32 64 .f32 true (F.cvt F.f32 F.f64))
  | 17 => some (cvtOp "v_cvt_f32_ubyte0" 32 32 .int true (fun a => F.pack F.f32 (F.ofUInt (a % 256))))
  | 18 => some (cvtOp "v_cvt_f32_ubyte1" 32 32 .int true (fun a => F.pack F.f32 (F.ofUInt (a / 2 ^ 8 % 256))))
  | 19 => some (cvtOp "v_cvt_f32_ubyte2" 32 32 .int true (fun a => F.pack F.f32 (F.ofUInt (a / 2 ^ 16 % 256))))
  | 20 => some (cvtOp "v_cvt_f32_ubyte3" 32 32 .int true (fun a => F.pack F.f32 (F.ofUInt (a / 2 ^ 24 % 256))))
  | 21 => some (cvtOp "v_cvt_u32_f64" 64 32 .f64 false (fun a => F.toUInt 32 (F.unpack F.f64 a)))
  | 22 => some (cvtOp "v_cvt_f64_u32" 32 64 .int true (fun a => F.pack F.f64 (F.ofUInt a)))
  | 3 => some (cvtOp "v_cvt_i32_f64" 64 32 .f64 false (fun a => F.toSInt 32 (F.unpack F.f64 a)))
  | 28 => some (cvtOp "v_trunc_f32" 32 32 .f32 true (fun a => F.pack F.f32 (F.truncV (F.unpack F.f32 a))))
  | 30 => some (cvtOp "v_rndne_f32" 32 32 .f32 true (fun a => F.pack F.f32 (F.rndneV (F.unpack F.f32 a))))
  | 43 => some (un32 "v_not_b32" (~~~ ·))
  | 44 => some (un32 "v_bfrev_b32" bfrev)
  | 45 => some (un32 "v_ffbh_u32" ffbh)
  | 46 => some (un32 "v_ffbl_b32" ffbl)
  | 56 => if cdna3 then some (cvtOp "v_mov_b64" 64 64 .int false id)   -- GFX940: VOP1 0x38 is V_MOV_B64
          else some { un32 "v_movrelsd_b32" id with kind := .movrel }
  | _ => none

/-- opcodes ≥ 448 of the VOP3 encoding (VOP3-only instructions) -/
def vop3Table (cdna3 : Bool) (op : Nat) : Option VOp :=
  match op with
  | 449 => some (triF "v_mad_f32" F.f32 (F.mad F.f32))
  | 450 => some (tri32 "v_mad_i32_i24" madI24)
  | 451 => some (tri32 "v_mad_u32_u24" madU24)
  | 456 => some (tri32 "v_bfe_u32" bfeU)
  | 457 => some (tri32 "v_bfe_i32" bfeI)
  | 458 => some (tri32 "v_bfi_b32" bfi)
  | 459 => some (triF "v_fma_f32" F.f32 (F.fma F.f32))
  | 460 => some (triF "v_fma_f64" F.f64 (F.fma F.f64))
  | 465 => some (tri32 "v_min3_i32" min3I)
  | 466 => some (tri32 "v_min3_u32" min3U)
  | 468 => some (tri32 "v_max3_i32" max3I)
  | 469 => some (tri32 "v_max3_u32" max3U)
  | 471 => some (tri32 "v_med3_i32" med3I)
  | 472 => some (tri32 "v_med3_u32" med3U)
  | 464 => some { triF "v_min3_f32" F.f32 (fun a b c => F.fmin F.f32 (F.fmin F.f32 a b) c) with arith := false }
  | 467 => some { triF "v_max3_f32" F.f32 (fun a b c => F.fmax F.f32 (F.fmax F.f32 a b) c) with arith := false }
  | 462 => some (tri32 "v_alignbit_b32" alignbit)
  | 482 => some { triF "v_div_fmas_f32" F.f32 (fun a b c => F.fma F.f32 a b c) with kind := .fmas }
  | 483 => some { triF "v_div_fmas_f64" F.f64 (fun a b c => F.fma F.f64 a b c) with kind := .fmas }
  | 488 => some { name := "v_mad_u64_u32", nsrc := 3, w2 := 64, wd := 64, kind := .carryOut,
                  f := fun x => let r := madU64U32 (w32 x.a) (w32 x.b) (w64 x.c); ⟨r.1.toNat, r.2⟩ }
  | 499 => if cdna3 then some (tri32 "v_xad_u32" xad) else none
  | 509 => if cdna3 then some (tri32 "v_lshl_add_u32" lshlAdd) else none
  | 510 => if cdna3 then some (tri32 "v_add_lshl_u32" addLshl) else none
  | 511 => some (tri32 "v_add3_u32" add3)
  | 512 => if cdna3 then some (tri32 "v_lshl_or_b32" lshlOr) else none
  | 520 => some { name := "v_lshl_add_u64", nsrc := 3, w0 := 64, w2 := 64, wd := 64,
                  f := fun x => ⟨(lshlAdd64 (w64 x.a) (w32 x.b) (w64 x.c)).toNat, false⟩ }
  | 640 => some (binF "v_add_f64" F.f64 (F.add F.f64))
  | 641 => some (binF "v_mul_f64" F.f64 (F.mul F.f64))
  | 642 => some { binF "v_min_f64" F.f64 (F.fmin F.f64) with arith := false }
  | 643 => some { binF "v_max_f64" F.f64 (F.fmax F.f64) with arith := false }
  | 645 => some (bin32 "v_mul_lo_u32" mulLo)
  | 646 => some (bin32 "v_mul_hi_u32" mulHiU)
  | 647 => some (bin32 "v_mul_hi_i32" mulHiI)
  | 655 => some { name := "v_lshlrev_b64", nsrc := 2, w1 := 64, wd := 64,
                  f := fun x => ⟨(lshlrev64 (w32 x.a) (w64 x.b)).toNat, false⟩ }
  | 656 => some { name := "v_lshrrev_b64", nsrc := 2, w1 := 64, wd := 64,
                  f := fun x => ⟨(lshrrev64 (w32 x.a) (w64 x.b)).toNat, false⟩ }
  | 657 => some { name := "v_ashrrev_i64", nsrc := 2, w1 := 64, wd := 64,
                  f := fun x => ⟨(ashrrev64 (w32 x.a) (w64 x.b)).toNat, false⟩ }
  | _ => none

/-! ## modifiers -/
def signBitOf (ty : Ty) (w : Nat) : Nat := if ty == .f64 && w == 64 then 2 ^ 63 else 2 ^ 31
/-- VOP3 ABS / NEG input modifiers act on the sign bit of float sources -/
def applyMod (ty : Ty) (w : Nat) (abs neg : Bool) (x : Nat) : Nat :=
  if ty == .int then x else
  let sb := signBitOf ty w
  let x1 := if abs then x % sb + (x / (2 * sb)) * (2 * sb) else x
  if neg then (if (x1 / sb) % 2 == 1 then x1 - sb else x1 + sb) else x1

/-- CLAMP on a float result: clamp to [0,1]; NaN → 0 (DX10_CLAMP) -/
def clampF (fm : F.Fmt) (x : Nat) : Nat :=
  match F.unpack fm x with
  | .nan => 0
  | v =>
    let one := F.pack fm (.fin false 1 0)
    if F.cmpV v (.fin false 0 0) == some .lt then 0
    else if x == fm.signBit then 0
    else if F.cmpV v (.fin false 1 0) == some .gt then one else x

/-! ## execution of VALU instructions -/
def bit (x i : Nat) : Bool := x.testBit i
def field (w lo hi : Nat) : Nat := (w >>> lo) % 2 ^ (hi - lo + 1)

/-- write a `w`-bit value to VGPR `r` (and `r+1`) of one lane -/
def wrV (r lane w x : Nat) : List Wr :=
  if w == 64 then [(.v r lane, lo32 x), (.v (r + 1) lane, x / 2 ^ 32 % 2 ^ 32)] else [(.v r lane, lo32 x)]

/-- write a 64-bit lane mask to an SGPR pair / VCC (scalar destination code) -/
def wrMask (code x : Nat) : List Wr :=
  if code == 106 then [(.vcc, x)] else if code == 126 then [(.exec, x)]
  else [(.s code, lo32 x), (.s (code + 1), x / 2 ^ 32)]

def wrS32 (st : St) (code x : Nat) : List Wr :=
  if code == 106 then [(.vcc, (st.vcc / 2 ^ 32) * 2 ^ 32 + lo32 x)]
  else if code == 107 then [(.vcc, lo32 st.vcc + lo32 x * 2 ^ 32)]
  else if code == 124 then [(.m0, lo32 x)]
  else if code == 126 then [(.exec, (st.exec / 2 ^ 32) * 2 ^ 32 + lo32 x)]
  else if code == 127 then [(.exec, lo32 st.exec + lo32 x * 2 ^ 32)]
  else [(.s code, lo32 x)]

structure VEnc where
  op : VOp
  src0 : Nat
  src1 : Nat
  src2 : Nat := 0
  vdst : Nat
  /-- scalar destination of lane masks (carry-out / compare) -/
  sdst : Nat := 106
  /-- carry-in / select mask source (scalar code) -/
  msrc : Nat := 106
  abs : Nat := 0
  neg : Nat := 0
  clamp : Bool := false
  lit : Nat := 0
  sdwa : Bool := false
  dstSel : Nat := 6
  dstUnused : Nat := 0
  s0Sel : Nat := 6
  s0Sext : Bool := false
  s1Sel : Nat := 6
  s1Sext : Bool := false

def firstLane (exec : Nat) : Nat :=
  ((List.range 64).find? (fun i => exec.testBit i)).getD 0

def execVALU (st : St) (e : VEnc) : List Wr :=
  let op := e.op
  let isF64 := op.ty == .f64
  if op.kind == .rfl then
    wrS32 st e.vdst (st.src e.src0 (firstLane st.exec) 32 e.lit false)
  else
  let maskIn := if op.kind == .fmas then st.vcc else st.sreg64 e.msrc
  let step := fun (acc : List Wr × Nat) (lane : Nat) =>
    if !st.exec.testBit lane then acc else
    let rd := fun (code w idx : Nat) =>
      let raw := st.src code lane w e.lit isF64
      let raw := if e.sdwa then
          (sdwaSrc (w32 raw) (if idx == 0 then e.s0Sel else e.s1Sel) (if idx == 0 then e.s0Sext else e.s1Sext)).toNat
        else raw
      applyMod op.ty w (bit e.abs idx && bit op.modMask idx) (bit e.neg idx && bit op.modMask idx) (if w == 64 then raw % 2 ^ 64 else lo32 raw)
    let a := rd e.src0 op.w0 0
    let oldD := if op.wd == 64 then st.rv e.vdst lane + st.rv (e.vdst + 1) lane * 2 ^ 32 else st.rv e.vdst lane
    let (b, c) :=
      match op.kind with
      | .madmk => (lo32 e.lit, rd e.src1 op.w1 1)
      | .madak => (rd e.src1 op.w1 1, lo32 e.lit)
      | .mac => (rd e.src1 op.w1 1, oldD)
      | _ => (if op.nsrc ≥ 2 then rd e.src1 op.w1 1 else 0, if op.nsrc ≥ 3 then rd e.src2 op.w2 2 else 0)
    let cin := maskIn.testBit lane
    let o := op.f { a := a, b := b, c := c, cin := cin }
    let d0 :=
      if op.kind == .fmas && cin then
        (if isF64 then F.mul F.f64 o.d 0x43f0000000000000 else F.mul F.f32 o.d 0x4f800000)
      else o.d
    let d1 := if e.clamp && op.arith then (if isF64 then clampF F.f64 d0 else clampF F.f32 d0) else d0
    let d2 := if e.sdwa then (sdwaDst (w32 oldD) (w32 d1) e.dstSel e.dstUnused).toNat else d1
    let ws :=
      if op.kind == .cmp then []
      else if op.kind == .movrel then
        [(Cell.v ((e.vdst + st.m0) % 256) lane, st.rv ((e.src0 - 256 + st.m0) % 256) lane)]
      else wrV e.vdst lane op.wd d2
    (acc.1 ++ ws, if o.co then acc.2 + 2 ^ lane else acc.2)
  let (ws, mask) := (List.range 64).foldl step ([], 0)
  match op.kind with
  | .cmp | .carryOut | .carryIO => ws ++ wrMask e.sdst mask
  | _ => ws

/-! ## decoding the vector encodings -/
def sdwaFields (e : VEnc) (dw : Nat) : VEnc :=
  { e with sdwa := true, src0 := 256 + field dw 0 7, dstSel := field dw 8 10, dstUnused := field dw 11 12,
           s0Sel := field dw 16 18, s0Sext := bit dw 19, s1Sel := field dw 24 26, s1Sext := bit dw 27 }

def decodeVALU (cdna3 : Bool) (w0 w1 : Nat) : Option VEnc :=
  let top7 := field w0 25 31
  if field w0 26 31 == 0x34 then
    -- VOP3a / VOP3b
    let opc := field w0 16 25
    let base : Option VOp :=
      if opc < 256 then vopcTable opc
      else if opc < 320 then vop2Table cdna3 (opc - 256)
      else if opc < 448 then vop1Table cdna3 (opc - 320)
      else vop3Table cdna3 opc
    base.map fun op =>
      let isB := op.kind == .carryOut || op.kind == .carryIO
      let e : VEnc := { op := op, src0 := field w1 0 8, src1 := field w1 9 17, src2 := field w1 18 26,
                        vdst := field w0 0 7, neg := field w1 29 31 }
      if isB then { e with sdst := field w0 8 14, msrc := field w1 18 26, clamp := bit w0 15 }
      else if op.kind == .cmp then { e with sdst := field w0 0 7, abs := field w0 8 10, clamp := bit w0 15 }
      else if op.kind == .cndmask then { e with msrc := field w1 18 26, abs := field w0 8 10, clamp := bit w0 15 }
      else { e with abs := field w0 8 10, clamp := bit w0 15 }
  else if top7 == 0x3F then
    (vop1Table cdna3 (field w0 9 16)).map fun op =>
      let e : VEnc := { op := op, src0 := field w0 0 8, src1 := 0, vdst := field w0 17 24, lit := w1 }
      if field w0 0 8 == 249 then sdwaFields e w1 else e
  else if top7 == 0x3E then
    (vopcTable (field w0 17 24)).map fun op =>
      let e : VEnc := { op := op, src0 := field w0 0 8, src1 := 256 + field w0 9 16, vdst := 0, lit := w1 }
      if field w0 0 8 == 249 then sdwaFields e w1 else e
  else if field w0 31 31 == 0 then
    (vop2Table cdna3 (field w0 25 30)).map fun op =>
      let e : VEnc := { op := op, src0 := field w0 0 8, src1 := 256 + field w0 9 16, vdst := field w0 17 24, lit := w1 }
      if field w0 0 8 == 249 then sdwaFields e w1 else e
  else none

/-! ## memory instructions -/
def bytesOf (n x : Nat) : List Nat := (List.range n).map fun i => (x / 2 ^ (8 * i)) % 256
def leNat (bs : List Nat) : Nat := bs.zipIdx.foldl (fun acc (b, i) => acc + b * 2 ^ (8 * i)) 0
def St.memRead (st : St) (a n : Nat) : Nat := leNat ((List.range n).map fun i => st.rmem ((a + i) % 2 ^ 64))
def St.ldsRead (st : St) (a n : Nat) : Nat := leNat ((List.range n).map fun i => st.rlds (a + i))
def wrMemBytes (a n x : Nat) : List Wr := (bytesOf n x).zipIdx.map fun (b, i) => (Cell.mem ((a + i) % 2 ^ 64), b)
def wrLdsBytes (a n x : Nat) : List Wr := (bytesOf n x).zipIdx.map fun (b, i) => (Cell.lds (a + i), b)
/-- write `n` dwords to consecutive VGPRs of one lane -/
def wrVN (r lane n x : Nat) : List Wr := (List.range n).map fun i => (Cell.v (r + i) lane, (x / 2 ^ (32 * i)) % 2 ^ 32)
def St.rvN (st : St) (r lane n : Nat) : Nat :=
  (List.range n).foldl (fun acc i => acc + st.rv (r + i) lane * 2 ^ (32 * i)) 0
def activeLanes (st : St) : List Nat := (List.range 64).filter fun i => st.exec.testBit i

/-- SMEM S_LOAD_DWORD{,X2,X4,X8,X16}: SGPRs[sdata..] = MEM[(SBASE + OFFSET) & ~3] -/
def execSMEM (cdna3 : Bool) (st : St) (w0 w1 : Nat) : Option (String × List Wr) :=
  let op := field w0 18 25
  if op > 4 then none else
  let n := 2 ^ op
  let base := st.sreg64 (2 * field w0 0 5)
  let imm := bit w0 17
  let off : Int :=
    if imm then
      (if cdna3 then (if bit w1 20 then (field w1 0 20 : Int) - 2 ^ 21 else (field w1 0 20 : Int))
       else (field w1 0 19 : Int))
    else (st.rs (field w1 0 6) : Int)
  -- "m_addr = (SGPR[SBASE * 2] + m_offset) & ~0x3" (GCN3 ISA, S_LOAD_DWORD); Vega/CDNA3 ISA §8.1.1:
  -- "the two LSBs are ignored and treated as if they were zero"
  let addr := (((base : Int) + off) % (2 ^ 64 : Int)).toNat / 4 * 4
  let sdata := field w0 6 12
  let ws := (List.range n).flatMap fun i => wrS32 st (sdata + i) (st.memRead (addr + 4 * i) 4)
  some (#["s_load_dword", "s_load_dwordx2", "s_load_dwordx4", "s_load_dwordx8", "s_load_dwordx16"][op]!, ws)

/-- FLAT / GLOBAL loads and stores -/
def execFLAT (cdna3 : Bool) (st : St) (w0 w1 : Nat) : Option (String × List Wr) :=
  let op := field w0 18 24
  let seg := field w0 14 15
  let saddr := field w1 16 22
  let vaddr := field w1 0 7
  let data := field w1 8 15
  let vdst := field w1 24 31
  -- The GCN3 ALU also accepts the GFX9 extensions of the encoding (gfx803 binaries leave these
  -- bits 0): a signed 13-bit OFFSET in every segment, and a scalar base when SADDR is neither
  -- 0x7F nor 0 (`flatPrecomputeScalarBase`, `flatAddrWithScalar`).
  let off : Int :=
    if !cdna3 then sext13 (field w0 0 12)
    else if seg == 0 then (field w0 0 11 : Int) else sext13 (field w0 0 12)
  let useS := if cdna3 then seg != 0 && saddr != 0x7F else saddr != 0x7F && saddr != 0
  let addrOf := fun (lane : Nat) =>
    let base : Int := if useS then (st.sreg64 saddr : Int) + (st.rv vaddr lane : Int)
                      else (st.rvN vaddr lane 2 : Int)
    ((base + off) % (2 ^ 64 : Int)).toNat
  let load := fun (name : String) (nbytes : Nat) (signed : Bool) =>
    some (name, (activeLanes st).flatMap fun l =>
      let raw := st.memRead (addrOf l) nbytes
      if nbytes < 4 then wrVN vdst l 1 (extend nbytes signed raw) else wrVN vdst l (nbytes / 4) raw)
  let store := fun (name : String) (nbytes : Nat) =>
    some (name, (activeLanes st).flatMap fun l =>
      wrMemBytes (addrOf l) nbytes (st.rvN data l ((nbytes + 3) / 4)))
  match op with
  | 16 => load "load_ubyte" 1 false
  | 17 => load "load_sbyte" 1 true
  | 18 => load "load_ushort" 2 false
  | 19 => load "load_sshort" 2 true
  | 20 => load "load_dword" 4 false
  | 21 => load "load_dwordx2" 8 false
  | 22 => load "load_dwordx3" 12 false
  | 23 => load "load_dwordx4" 16 false
  | 24 => store "store_byte" 1
  | 26 => store "store_short" 2
  | 28 => store "store_dword" 4
  | 29 => store "store_dwordx2" 8
  | 30 => store "store_dwordx3" 12
  | 31 => store "store_dwordx4" 16
  | _ => none

/-- DS (LDS) reads and writes. Addresses are `VGPR[addr] + offset` (32-bit wrap). -/
def execDS (st : St) (w0 w1 : Nat) : Option (String × List Wr) :=
  let op := field w0 17 24
  let off0 := field w0 0 7
  let off1 := field w0 8 15
  let off16 := field w0 0 15
  let addr := field w1 0 7
  let d0 := field w1 8 15
  let d1 := field w1 16 23
  let vdst := field w1 24 31
  let a1 := fun (l : Nat) => (st.rv addr l + off16) % 2 ^ 32
  let write := fun (name : String) (n : Nat) =>
    some (name, (activeLanes st).flatMap fun l => wrLdsBytes (a1 l) n (st.rvN d0 l ((n + 3) / 4)))
  let read := fun (name : String) (n : Nat) (signed : Bool) =>
    some (name, (activeLanes st).flatMap fun l =>
      let raw := st.ldsRead (a1 l) n
      if n < 4 then wrVN vdst l 1 (extend n signed raw) else wrVN vdst l (n / 4) raw)
  let write2 := fun (name : String) (es stride : Nat) =>
    some (name, (activeLanes st).flatMap fun l =>
      wrLdsBytes (ds2Addr (st.rv addr l) off0 (es * stride)) es (st.rvN d0 l (es / 4)) ++
      wrLdsBytes (ds2Addr (st.rv addr l) off1 (es * stride)) es (st.rvN d1 l (es / 4)))
  let read2 := fun (name : String) (es stride : Nat) =>
    some (name, (activeLanes st).flatMap fun l =>
      wrVN vdst l (es / 4) (st.ldsRead (ds2Addr (st.rv addr l) off0 (es * stride)) es) ++
      wrVN (vdst + es / 4) l (es / 4) (st.ldsRead (ds2Addr (st.rv addr l) off1 (es * stride)) es))
  match op with
  | 13 => write "ds_write_b32" 4
  | 14 => write2 "ds_write2_b32" 4 1
  | 15 => write2 "ds_write2st64_b32" 4 64
  | 30 => write "ds_write_b8" 1
  | 31 => write "ds_write_b16" 2
  | 54 => read "ds_read_b32" 4 false
  | 55 => read2 "ds_read2_b32" 4 1
  | 56 => read2 "ds_read2st64_b32" 4 64
  | 57 => read "ds_read_i8" 1 true
  | 58 => read "ds_read_u8" 1 false
  | 59 => read "ds_read_i16" 2 true
  | 60 => read "ds_read_u16" 2 false
  | 77 => write "ds_write_b64" 8
  | 78 => write2 "ds_write2_b64" 8 1
  | 79 => write2 "ds_write2st64_b64" 8 64
  | 118 => read "ds_read_b64" 8 false
  | 119 => read2 "ds_read2_b64" 8 1
  | 120 => read2 "ds_read2st64_b64" 8 64
  | 222 => write "ds_write_b96" 12
  | 223 => write "ds_write_b128" 16
  | 254 => read "ds_read_b96" 12 false
  | 255 => read "ds_read_b128" 16 false
  | _ => none

/-! ## top level -/
def leWord (bs : List Nat) (i : Nat) : Nat :=
  bs.getD (4 * i) 0 + bs.getD (4 * i + 1) 0 * 2 ^ 8 + bs.getD (4 * i + 2) 0 * 2 ^ 16 + bs.getD (4 * i + 3) 0 * 2 ^ 24

/-- execute one instruction; `none` = outside the specified subset -/
def exec (cdna3 : Bool) (st : St) (bs : List Nat) : Option (String × List Wr) :=
  let w0 := leWord bs 0
  let w1 := leWord bs 1
  let enc := field w0 26 31
  if enc == 0x30 then execSMEM cdna3 st w0 w1
  else if enc == 0x37 then execFLAT cdna3 st w0 w1
  else if enc == 0x36 then execDS st w0 w1
  else (decodeVALU cdna3 w0 w1).map fun e => (e.op.name, execVALU st e)

def handle (line : String) : String :=
  match Util.words line with
  | _ :: _ :: arch :: hex :: cells =>
    match Util.hexBytes? hex with
    | none => "bad"
    | some bs =>
      match cells.foldlM parseCell St.empty with
      | none => "bad"
      | some st =>
        match exec (arch == "cdna3") st bs with
        | none => "nospec"
        | some (_, ws) => finalize st ws
  | _ => "bad"

end C03V
