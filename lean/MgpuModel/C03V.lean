import MgpuModel.Util
/-! C03 (vector / memory part) — stub; replaced by the vector-ALU module. -/
namespace C03V
def handle (_line : String) : String := "bad"
end C03V
