/-! # C20 — NVIDIA trace-driven simulation: driver / GPU / SM / sub-core with Akita's sleep/wake rule

Transcribes `nvidia/{driver,gpu,sm,subcore}` tick by tick (including the value each `Tick` returns),
the `sim.Port` buffers (capacity 4 each way, `Send` fails when full, `Deliver` wakes only when the
buffer was empty, leaving the full state notifies the other side) and `directconnection.Comp.Tick`
(round-robin over ports, head-of-line forwarding).  A component has one `awake` flag = "a tick event
is pending"; `Handle` = clear flag, run `Tick`, set the flag again iff it reported progress.

The three parent/child layers (driver→GPUs, GPU→SMs, SM→sub-cores) have identical code, so they are
three instances of one polymorphic `Level`.  `legacy = true` is the code before the `fix:` commits
(empty units never complete; GPU/SM `dispatch…` return `false` after a successful dispatch). -/
namespace C20

/-- capacity of every port buffer (`sim.NewPort(comp, 4, 4, name)`) -/
def cap : Nat := 4

/-! ## total-map view of a list (reads beyond the end give `default`, writes extend) -/
def get {α} [Inhabited α] : List α → Nat → α
  | [], _ => default
  | x :: _, 0 => x
  | _ :: xs, i + 1 => get xs i

def upd {α} [Inhabited α] : List α → Nat → α → List α
  | [], 0, v => [v]
  | [], i + 1, v => default :: upd [] i v
  | _ :: xs, 0, v => v :: xs
  | x :: xs, i + 1, v => x :: upd xs i v

/-- One parent with its children and the connection between them.
 `α` = the unit of work handed down (kernel, thread block, warp). -/
structure Level (α : Type) where
  n : Nat                         -- number of children
  undisp : List α := []           -- parent: undispatched units
  unfin : Nat := 0                -- parent: unfinished count
  free : List Nat := []           -- parent: free children, in list order
  pOut : List (Nat × α) := []     -- parent port, outgoing buffer (destination child, unit)
  pIn : List Nat := []            -- parent port, incoming buffer (child that finished)
  cIn : List (List α) := []       -- child ports, incoming buffers
  cOut : List Nat := []           -- child ports, outgoing buffers (completion messages are all alike)
  connAwake : Bool := false
  rr : Nat := 0                   -- directconnection nextPortID
deriving Inhabited

namespace Level
variable {α : Type}

/-- `port.Send` on the parent port -/
def send (l : Level α) (j : Nat) (u : α) : Option (Level α) :=
  if cap ≤ l.pOut.length then none
  else some { l with pOut := l.pOut ++ [(j, u)], connAwake := l.connAwake || l.pOut.isEmpty }

/-- `dispatch…To…`: first undispatched unit to the first free child. Second component: a message was sent. -/
def dispatch (l : Level α) : Level α × Bool :=
  match l.free, l.undisp with
  | f :: fs, u :: us =>
    match l.send f u with
    | some l' => ({ l' with free := fs, undisp := us }, true)
    | none => (l, false)
  | _, _ => (l, false)

/-- parent processes one completion message: (level, got one, unfinished reached 0, buffer left the full state) -/
def procUp (l : Level α) : Level α × Bool × Bool × Bool :=
  match l.pIn with
  | [] => (l, false, false, false)
  | j :: rest =>
    let wasFull := cap ≤ rest.length + 1
    ({ l with pIn := rest, free := l.free ++ [j], unfin := l.unfin - 1,
              connAwake := l.connAwake || wasFull }, true, l.unfin - 1 == 0, wasFull)

/-- `port.Send` of a completion message on child `j`'s port -/
def childSend (l : Level α) (j : Nat) : Option (Level α) :=
  let c := get l.cOut j
  if cap ≤ c then none
  else some { l with cOut := upd l.cOut j (c + 1), connAwake := l.connAwake || c == 0 }

/-- child `j` peeks/retrieves its incoming buffer: (unit, level, buffer left the full state) -/
def childTake (l : Level α) (j : Nat) : Option (α × Level α × Bool) :=
  match get l.cIn j with
  | [] => none
  | u :: rest =>
    let wasFull := cap ≤ rest.length + 1
    some (u, { l with cIn := upd l.cIn j rest, connAwake := l.connAwake || wasFull }, wasFull)

/-- `forwardMany` on the parent port: (remaining pOut, cIn, children woken (delivery into an empty buffer), #forwarded) -/
def fwdDown : List (Nat × α) → List (List α) → List (Nat × α) × List (List α) × List Nat × Nat
  | [], cIn => ([], cIn, [], 0)
  | (j, u) :: rest, cIn =>
    let b := get cIn j
    if cap ≤ b.length then ((j, u) :: rest, cIn, [], 0)
    else
      let r := fwdDown rest (upd cIn j (b ++ [u]))
      (r.1, r.2.1, if b.isEmpty then j :: r.2.2.1 else r.2.2.1, r.2.2.2 + 1)

/-- result of one connection tick: who gets woken -/
structure ConnOut (α : Type) where
  l : Level α
  progress : Bool := false
  wakePar : Bool := false
  wakeChi : List Nat := []

/-- forward from port `p` (0 = parent, k+1 = child k) -/
def fwdPort (o : ConnOut α) (p : Nat) : ConnOut α :=
  let l := o.l
  match p with
  | 0 =>
    let r := fwdDown l.pOut l.cIn
    let k := r.2.2.2
    { l := { l with pOut := r.1, cIn := r.2.1 }, progress := o.progress || k != 0,
      wakePar := o.wakePar || (k != 0 && cap ≤ l.pOut.length), wakeChi := o.wakeChi ++ r.2.2.1 }
  | j + 1 =>
    let c := get l.cOut j
    let k := min c (cap - l.pIn.length)
    { l := { l with pIn := l.pIn ++ List.replicate k j, cOut := upd l.cOut j (c - k) },
      progress := o.progress || k != 0,
      wakePar := o.wakePar || (k != 0 && l.pIn.isEmpty),
      wakeChi := if k != 0 && cap ≤ c then o.wakeChi ++ [j] else o.wakeChi }

/-- `directconnection.middleware.Tick` -/
def connTick (l : Level α) : ConnOut α :=
  let np := l.n + 1
  let o := (List.range np).foldl (fun o i => fwdPort o ((i + l.rr) % np)) { l := l }
  { o with l := { o.l with rr := (l.rr + 1) % np, connAwake := o.progress } }

end Level

abbrev Warp := Nat
abbrev Block := List Warp
abbrev Kernel := List Block

structure Gpu where
  awake : Bool := false
  fin : Nat := 0        -- finishedKernelsCount
deriving Inhabited

structure Smx where
  awake : Bool := false
  fin : Nat := 0        -- finishedThreadblocksCount
  warps : Nat := 0      -- warpsCount
deriving Inhabited

structure Sub where
  awake : Bool := false
  rem : Nat := 0        -- unfinishedInstsCount
  fin : Nat := 0        -- finishedWarpsCount
  insts : Nat := 0      -- instsCount
deriving Inhabited

structure Sys where
  legacy : Bool
  G : Nat
  S : Nat
  C : Nat
  dAwake : Bool
  l0 : Level Kernel
  gpus : List Gpu
  l1 : List (Level Block)
  sms : List Smx
  l2 : List (Level Warp)
  subs : List Sub

def mkLevel {α : Type} (n : Nat) : Level α := { n := n, free := List.range n }

def init (legacy : Bool) (G S C : Nat) (trace : List Kernel) : Sys :=
  { legacy, G, S, C, dAwake := true,
    l0 := { (mkLevel G : Level Kernel) with undisp := trace, unfin := trace.length },
    gpus := List.replicate G {},
    l1 := List.replicate G (mkLevel S),
    sms := List.replicate (G * S) {},
    l2 := List.replicate (G * S) (mkLevel C),
    subs := List.replicate (G * S * C) {} }

def wakeGpu (s : Sys) (g : Nat) : Sys := { s with gpus := upd s.gpus g { get s.gpus g with awake := true } }
def wakeSm (s : Sys) (m : Nat) : Sys := { s with sms := upd s.sms m { get s.sms m with awake := true } }
def wakeSub (s : Sys) (u : Nat) : Sys := { s with subs := upd s.subs u { get s.subs u with awake := true } }

/-- wake the children `ks` of one level through the map `f` from child index to global index -/
def wakeMany (wake : Sys → Nat → Sys) (f : Nat → Nat) (s : Sys) (ks : List Nat) : Sys :=
  ks.foldl (fun s k => wake s (f k)) s

def others (n j : Nat) : List Nat := (List.range n).filter (· != j)

/-- `Driver.Tick`: dispatchKernelsToDevices (returns true on success); processDevicesInput -/
def tickDriver (s : Sys) : Sys :=
  let d := s.l0.dispatch
  let p := d.1.procUp
  let s := { s with l0 := p.1, dAwake := d.2 || p.2.1 }
  if p.2.2.2 then wakeMany wakeGpu id s (List.range s.G) else s

/-- `GPU.Tick`: reportFinishedKernels; dispatchThreadblocksToSMs; processDriverInput; processSMsInput -/
def tickGpu (s : Sys) (g : Nat) : Sys :=
  let gp := get s.gpus g
  -- reportFinishedKernels
  let r : Level Kernel × Nat × Bool :=
    if gp.fin = 0 then (s.l0, gp.fin, false)
    else match s.l0.childSend g with
      | none => (s.l0, gp.fin, false)
      | some l => (l, gp.fin - 1, true)
  -- dispatchThreadblocksToSMs
  let d := (get s.l1 g).dispatch
  let p2 := if s.legacy then false else d.2
  -- processDriverInput
  let t : Level Kernel × Level Block × Nat × Bool × Bool :=
    match r.1.childTake g with
    | none => (r.1, d.1, r.2.1, false, false)
    | some (k, l0', wf) =>
      (l0', { d.1 with undisp := d.1.undisp ++ k, unfin := d.1.unfin + k.length },
       if !s.legacy && k.isEmpty then r.2.1 + 1 else r.2.1, true, wf)
  -- processSMsInput
  let p := t.2.1.procUp
  let fin := if p.2.1 && p.2.2.1 then t.2.2.1 + 1 else t.2.2.1
  let s1 := { s with l0 := t.1, l1 := upd s.l1 g p.1,
                     gpus := upd s.gpus g { awake := r.2.2 || p2 || t.2.2.2.1 || p.2.1, fin := fin } }
  let s2 := if t.2.2.2.2 then wakeMany wakeGpu id { s1 with dAwake := true } (others s.G g) else s1
  if p.2.2.2 then wakeMany wakeSm (fun k => g * s.S + k) s2 (List.range s.S) else s2

/-- `SM.Tick`: reportFinishedKernels; dispatchThreadblocksToSubcores; processGPUInput; processSubcoresInput -/
def tickSm (s : Sys) (m : Nat) : Sys :=
  let g := m / s.S
  let j := m % s.S
  let sm := get s.sms m
  let lg := get s.l1 g
  let r : Level Block × Nat × Bool :=
    if sm.fin = 0 then (lg, sm.fin, false)
    else match lg.childSend j with
      | none => (lg, sm.fin, false)
      | some l => (l, sm.fin - 1, true)
  let d := (get s.l2 m).dispatch
  let p2 := if s.legacy then false else d.2
  let t : Level Block × Level Warp × Nat × Nat × Bool × Bool :=
    match r.1.childTake j with
    | none => (r.1, d.1, r.2.1, sm.warps, false, false)
    | some (b, lg', wf) =>
      (lg', { d.1 with undisp := d.1.undisp ++ b, unfin := d.1.unfin + b.length },
       (if !s.legacy && b.isEmpty then r.2.1 + 1 else r.2.1), sm.warps + b.length, true, wf)
  let p := t.2.1.procUp
  let fin := if p.2.1 && p.2.2.1 then t.2.2.1 + 1 else t.2.2.1
  let s1 := { s with l1 := upd s.l1 g t.1, l2 := upd s.l2 m p.1,
                     sms := upd s.sms m { awake := r.2.2 || p2 || t.2.2.2.2.1 || p.2.1, fin := fin, warps := t.2.2.2.1 } }
  let s2 := if t.2.2.2.2.2 then wakeMany wakeSm (fun k => g * s.S + k) (wakeGpu s1 g) (others s.S j) else s1
  if p.2.2.2 then wakeMany wakeSub (fun k => m * s.C + k) s2 (List.range s.C) else s2

/-- `Subcore.Tick`: reportFinishedWarps; run; processSMInput -/
def tickSub (s : Sys) (u : Nat) : Sys :=
  let m := u / s.C
  let j := u % s.C
  let sc := get s.subs u
  let lm := get s.l2 m
  let r : Level Warp × Nat × Bool :=
    if sc.fin = 0 then (lm, sc.fin, false)
    else match lm.childSend j with
      | none => (lm, sc.fin, false)
      | some l => (l, sc.fin - 1, true)
  -- run
  let q : Nat × Nat × Bool :=
    if sc.rem = 0 then (sc.rem, r.2.1, false)
    else (sc.rem - 1, (if sc.rem - 1 = 0 then r.2.1 + 1 else r.2.1), true)
  -- processSMInput
  match r.1.childTake j with
  | none =>
    { s with l2 := upd s.l2 m r.1, subs := upd s.subs u { sc with awake := r.2.2 || q.2.2, rem := q.1, fin := q.2.1 } }
  | some (n, lm', wf) =>
    let s1 := { s with l2 := upd s.l2 m lm',
                       subs := upd s.subs u { awake := true, rem := n,
                                              fin := (if !s.legacy && n = 0 then q.2.1 + 1 else q.2.1),
                                              insts := sc.insts + n } }
    if wf then wakeMany wakeSub (fun k => m * s.C + k) (wakeSm s1 m) (others s.C j) else s1

def tickConn0 (s : Sys) : Sys :=
  let o := s.l0.connTick
  let s1 := { s with l0 := o.l, dAwake := s.dAwake || o.wakePar }
  wakeMany wakeGpu id s1 o.wakeChi

def tickConn1 (s : Sys) (g : Nat) : Sys :=
  let o := (get s.l1 g).connTick
  let s1 := { s with l1 := upd s.l1 g o.l }
  let s2 := if o.wakePar then wakeGpu s1 g else s1
  wakeMany wakeSm (fun k => g * s.S + k) s2 o.wakeChi

def tickConn2 (s : Sys) (m : Nat) : Sys :=
  let o := (get s.l2 m).connTick
  let s1 := { s with l2 := upd s.l2 m o.l }
  let s2 := if o.wakePar then wakeSm s1 m else s1
  wakeMany wakeSub (fun k => m * s.C + k) s2 o.wakeChi

/-- one engine event = one component or connection handles its tick event -/
inductive Ev
  | drv
  | gpu (g : Nat)
  | sm (m : Nat)
  | sub (u : Nat)
  | c0
  | c1 (g : Nat)
  | c2 (m : Nat)
deriving Repr, DecidableEq

def step (s : Sys) : Ev → Sys
  | .drv => tickDriver s
  | .gpu g => tickGpu s g
  | .sm m => tickSm s m
  | .sub u => tickSub s u
  | .c0 => tickConn0 s
  | .c1 g => tickConn1 s g
  | .c2 m => tickConn2 s m

def run (s : Sys) (evs : List Ev) : Sys := evs.foldl step s

/-- is the component that handles `e` awake (has a pending tick event)? -/
def awakeOf (s : Sys) : Ev → Bool
  | .drv => s.dAwake
  | .gpu g => (get s.gpus g).awake
  | .sm m => (get s.sms m).awake
  | .sub u => (get s.subs u).awake
  | .c0 => s.l0.connAwake
  | .c1 g => (get s.l1 g).connAwake
  | .c2 m => (get s.l2 m).connAwake

/-- every event of a shape -/
def allEvs (s : Sys) : List Ev :=
  [Ev.drv, Ev.c0] ++ (List.range s.G).map Ev.gpu ++ (List.range s.G).map Ev.c1
    ++ (List.range (s.G * s.S)).map Ev.sm ++ (List.range (s.G * s.S)).map Ev.c2
    ++ (List.range (s.G * s.S * s.C)).map Ev.sub

/-- nothing is scheduled: the engine's event queue is empty -/
def allAsleep (s : Sys) : Bool := (allEvs s).all (fun e => !awakeOf s e)

end C20
