import MgpuModel.Util
import MgpuModel.C02Wf
/-! C02 (second deepening) — stub, filled in by the Bar part. -/
namespace C02.Bar
open Util

def handleBar (_t : List String) : String := "bad"

end C02.Bar
