import MgpuModel.Util
import MgpuModel.C02Wf
import MgpuModel.C14
/-!
C02 (second deepening) — `s_barrier` inside the event machine: the wavefronts of one work-group on the
timing compute unit, meeting at barriers, next to the emulator's `runWG` loop.

An instruction of kind `.endpgm` is, for one wavefront, "the instruction that ends a run-until-barrier
segment": `emu.ComputeUnit.runWfUntilBarrier` treats `s_barrier` and `s_endpgm` alike (PC += size, log
the instruction, leave the loop); which of the two it was is a matter of the PC (`WG.bars`). So the
per-wavefront machines `tstep` / `estep` of `C02Wf.lean` are used unchanged, and this file adds what
the scheduler does BETWEEN the wavefronts (transcribed as in the C14 model, whose decision functions are
imported and proved equal in `Props/C02Bar.lean`):

* `Scheduler.evalSBarrier`: the wavefront becomes `WfAtBarrier` (`park` — the outstanding-access counters
  are NOT looked at, unlike `s_endpgm`); if now every wavefront of the work-group is at the barrier or
  has ended (`areAllWfInWGAtBarrier`, after the C14 repair), `passBarrier`: every waiting wavefront gets
  `UpdatePCAndSetReady` (`releaseAll`);
* `Scheduler.evalSEndPgm`: a wavefront that ends while all the others wait at the barrier releases them;
* a wavefront at the barrier still fetches instructions (`FetchArbiter.canFetchFromWF` refuses only
  `WfCompleted`) and still receives memory responses; it is not decoded, issued or executed;
* the emulator: `runWG` = rounds of { every unfinished wavefront, in order, `runWfUntilBarrier` on the
  memory the previous one left } followed by `resolveBarrier`.
The capacity of the scheduler's barrier buffer (an arriving wavefront may have to retry) is C14's
business: a refused arrival is simply no event here.
-/
namespace C02.Bar
open Util C02.Wf

/-- the work-group as the compute unit sees it: one program per wavefront (the same code; ownership may
    differ), and the PCs of the `s_barrier` instructions -/
structure WG where
  Ps : List Prog
  bars : Nat → Bool

structure WState where
  c : List TState
  /-- `wf.State == WfAtBarrier` (such a wavefront has `ph = .done` and keeps `cur`) -/
  parked : List Bool

/-- the running instruction is an `s_barrier` -/
def isBar (g : WG) (s : TState) : Bool :=
  match s.cur with
  | some i => decide (i.kind = .endpgm) && g.bars s.pc
  | none => false

/-- every wavefront is at the barrier or has ended (`areAllWfInWGAtBarrier`; both have `ph = .done`) -/
def allStopped (c : List TState) : Bool := c.all fun t => decide (t.ph = .done)

/-- `UpdatePCAndSetReady` of a wavefront waiting at the barrier -/
def releaseOne (s : TState) : Option TState :=
  match s.cur with
  | some i => advance s i
  | none => none

/-- `passBarrier` / `setAllWfStateToReady` (`none`: `removeStaleInstBuffer` panicked) -/
def releaseAll : List TState → List Bool → Option (List TState)
  | [], _ => some []
  | s :: ss, ps =>
    match (if ps.headD false then releaseOne s else some s), releaseAll ss ps.tail with
    | some s', some r => some (s' :: r)
    | _, _ => none

def unparkAll (ps : List Bool) : List Bool := ps.map fun _ => false

/-- the events a wavefront waiting at the barrier still takes -/
def parkedStep (P : Prog) (gate : TState → Inst → Bool) (s : TState) : Ev → Option TState
  | .fetch =>
    if s.fetching = none ∧ s.ib.length < 256 then
      let st := if s.ib = [] then lineBase s.pc else s.ibStart
      some { s with ibStart := st, fetching := some (st + s.ib.length) }
    else none
  | .fetchRet => tstep P gate s .fetchRet
  | .serveV k => tstep P gate s (.serveV k)
  | .serveS k => tstep P gate s (.serveS k)
  | .retV => tstep P gate s .retV
  | .retS k => tstep P gate s (.retS k)
  | _ => none

def wgstep (g : WG) (gate : TState → Inst → Bool) (W : WState) (we : Nat × Ev) : Option WState :=
  if isEnv we.2 then none else
  match W.c[we.1]?, g.Ps[we.1]? with
  | some s, some P =>
    if W.parked.getD we.1 false then
      match parkedStep P gate s we.2 with
      | none => none
      | some s' => some { W with c := setMemAll s'.mem (W.c.set we.1 s') }
    else if we.2 = .complete ∧ s.ph = .issued ∧ isBar g s = true then
      -- evalSBarrier
      let c1 := W.c.set we.1 { s with ph := .done }
      let p1 := W.parked.set we.1 true
      if allStopped c1 then
        match releaseAll c1 p1 with
        | none => none
        | some c2 => some { c := c2, parked := unparkAll p1 }
      else some { c := c1, parked := p1 }
    else
      match tstep P gate s we.2 with
      | none => none
      | some s' =>
        let c1 := setMemAll s'.mem (W.c.set we.1 s')
        -- evalSEndPgm: the wavefront ended while all the others wait at the barrier
        if we.2 = .complete ∧ s'.ph = .done ∧ allStopped c1 ∧ W.parked.any id = true then
          match releaseAll c1 W.parked with
          | none => none
          | some c2 => some { c := c2, parked := unparkAll W.parked }
        else some { W with c := c1 }
  | _, _ => none

def wgrun (g : WG) (gate : TState → Inst → Bool) : WState → List (Nat × Ev) → Option WState
  | W, [] => some W
  | W, e :: es => match wgstep g gate W e with
    | none => none
    | some W' => wgrun g gate W' es

def winit (inits : List (Nat × RF)) (m0 : Mem) : WState :=
  { c := inits.map fun pr => tinit pr.1 pr.2 m0, parked := inits.map fun _ => false }

/-- all wavefronts have ended -/
def WState.finished (W : WState) : Bool := allStopped W.c && !(W.parked.any id)

/-! ## the emulator: `runWG` -/

structure EWf where
  E : EState
  /-- `wf.AtBarrier` -/
  atBar : Bool

/-- `runWfUntilBarrier`: until an instruction of kind `.endpgm` has been executed -/
def erunSeg (P : Prog) : Nat → EState → Option EState
  | 0, s => if s.done then some s else none
  | n + 1, s => if s.done then some s else
    match estep P s with
    | none => none
    | some s' => erunSeg P n s'

/-- one pass of `for _, wf := range cu.wfs[wg] { runWfUntilBarrier(wf) }` on the shared memory -/
def eround (g : WG) (fuel : Nat) : List Prog → List EWf → Mem → Option (List EWf × Mem)
  | P :: Ps, w :: ws, m =>
    if w.E.done then
      -- `wf.Completed`: returns at once
      match eround g fuel Ps ws m with
      | none => none
      | some r => some (w :: r.1, r.2)
    else
      match erunSeg P fuel { w.E with mem := m } with
      | none => none
      | some E' =>
        match eround g fuel Ps ws E'.mem with
        | none => none
        | some r => some ({ E := E', atBar := g.bars (E'.trace.getLastD 0) } :: r.1, r.2)
  | _, _, m => some ([], m)

/-- `resolveBarrier`: the wavefronts at the barrier go on -/
def eresolve (ws : List EWf) : List EWf :=
  ws.map fun w => if w.atBar then { E := { w.E with done := false }, atBar := false } else w

def ecompleted (ws : List EWf) : Bool := ws.all fun w => w.E.done && !w.atBar

/-- `runWG`: at most `rounds` passes -/
def ewgRun (g : WG) (fuel : Nat) : Nat → List EWf → Mem → Option (List EWf × Mem)
  | 0, ws, m => if ecompleted ws then some (ws, m) else none
  | r + 1, ws, m =>
    if ecompleted ws then some (ws, m) else
    match eround g fuel g.Ps ws m with
    | none => none
    | some x => ewgRun g fuel r (eresolve x.1) x.2

def einitW (inits : List (Nat × RF)) (m0 : Mem) : List EWf :=
  inits.map fun pr => { E := einit pr.1 pr.2 m0, atBar := false }

/-! ## agreement with the C14 model (abstraction used by `Props/C02Bar.lean`) -/

/-- the scheduler's view of wavefront `j` in the C14 model -/
def toC14Wf (W : WState) (j : Nat) (s : TState) : C14.Wf :=
  { id := j, wg := 0,
    state := if W.parked.getD j false then .atBarrier
             else match s.ph with
               | .ready => .ready
               | .issued => .running
               | .executed => .running
               | .done => .completed,
    op := 0, lk := 0, vm := 0, osc := s.lgkm, ovc := s.vm, pc := s.pc / 4, inPool := true, arr := 0, bar := 0 }

def toC14 (W : WState) : List C14.Wf := W.c.mapIdx fun j s => toC14Wf W j s

/-! ## concrete programs with barriers: `bar` is laid out as an `s_endpgm`-kind instruction whose PC is in
`bars`; everything else is the sample instruction set of `C02Wf.lean` (LDS instructions excluded: the
register-file encoding of LDS is per wavefront) -/

inductive BI
  | c (x : CInst)
  | bar
deriving Repr, DecidableEq

def BI.toC : BI → CInst
  | .c x => x
  | .bar => .endp

def barOffsets : List BI → Nat → List Nat
  | [], _ => []
  | .bar :: bs, o => o :: barOffsets bs (o + 4)
  | .c x :: bs, o => barOffsets bs (o + (compile x).size)

def bwg (base : Nat) (bs : List BI) (foreign : Nat → Bool) (n : Nat) : WG :=
  { Ps := List.replicate n (cprog base (bs.map BI.toC) foreign),
    bars := fun pc => (barOffsets bs 0).any fun o => base + o == pc }

/-- wavefront `j` of `n`: the register image of `C02Wf.initRegs` with s14 = 256·j (its own slot) and
    s13 = 256·((j+1) mod n) (its neighbour's slot) -/
def initRegsW (seed exec j n : Nat) : RF :=
  setR (setR (initRegs seed exec) (sreg 14) (256 * j)) (sreg 13) (256 * ((j + 1) % n))

def parseBI (s : String) : Option BI :=
  if s = "bar" then some .bar else (parseCInst s).map .c

def parseWEv (s : String) : Option (Nat × Ev) :=
  match s.splitOn ":" with
  | [w, e] => do pure ((← w.toNat?), (← parseEv e))
  | _ => none

/-- driver only: re-tabulate a register file that differs from the (already tabulated) file `old` at
    most on the cells `wr` — the new closure is evaluated on those cells only. For the instructions of the
    sample set (`compile_wf`: `f_frame`, `ld_frame`, `wrD_sub`) this is extensionally `new`; evaluating
    `new` on every cell would re-run e.g. the memory read of an `s_load` for each of the 1867 cells. -/
@[noinline] def freezeOn (wr : List Nat) (old new : RF) : Box :=
  let lo := wr.foldl min (wr.headD 0)
  let hi := wr.foldl max 0
  freezeR fun x => if lo ≤ x && x ≤ hi && wr.contains x then new x else old x

/-- driver only: the same for a memory that differs from the tabulated `old` at most inside the byte
    ranges `rs` (the footprint of the store just performed: `st_frame`) -/
@[noinline] def freezeMOn (rs : Ranges) (old new : Mem) : Box :=
  freezeM fun a => if inRanges rs a then new a else old a

/-- the byte ranges the store performed by `serveV k` writes (`none`: not a store) -/
def storeTouched (s : TState) : Ev → Option Ranges
  | .serveV k => match s.vq[k]? with
    | some p => if p.inst.isStore then some (p.inst.fpl p.r0) else none
    | none => none
  | _ => none

/-- the registers an event of wavefront state `s` may write -/
def touched (s : TState) : Ev → Option (List Nat)
  | .exec => s.cur.map (·.wr)
  | .retV => s.vq.head?.map (·.inst.wr)
  | .retS k => s.sq[k]?.map (·.inst.wr)
  | _ => none

/-- run the events; the index of the first refused one. After an event the registers it may have written
    and — after a performed store — the shared memory are re-tabulated (as `trunIdx` does after every
    event). Bind the BOX, not the function: a let-bound function value is eta-expanded by the compiler
    and would re-tabulate on every read. -/
def wgrunIdx (g : WG) (W : WState) (evs : List (Nat × Ev)) : WState × Option Nat :=
  let rec go : WState → List (Nat × Ev) → Nat → WState × Option Nat
    | W, [], _ => (W, none)
    | W, e :: es, k => match wgstep g (fun _ _ => true) W e with
      | none => (W, some k)
      | some W' =>
        let c1 := match W.c[e.1]? with
          | none => W'.c
          | some s0 => match touched s0 e.2 with
            | none => W'.c
            | some wr => W'.c.modify e.1 (fun s => { s with regs := (freezeOn wr s0.regs s.regs).f })
        let c2 := match W.c[e.1]? with
          | none => c1
          | some s0 => match storeTouched s0 e.2 with
            | none => c1
            | some rs =>
              let bm := freezeMOn rs s0.mem ((c1.headD (tinit 0 (fun _ => 0) (fun _ => 0))).mem)
              c1.map fun s => { s with mem := bm.f }
        go { W' with c := c2 } es (k + 1)
  go W evs 0

/-! driver only: the emulator loops with the register file and the memory re-tabulated after every
    instruction (extensionally the identity, `freezeE_eq`; without it the closures `estep` builds pile up
    and every register read re-evaluates all earlier instructions) -/

def erunSegD (P : Prog) : Nat → EState → Option EState
  | 0, s => if s.done then some s else none
  | n + 1, s => if s.done then some s else
    match estep P s with
    | none => none
    | some s' =>
      -- the registers on the cells the instruction may write, the memory only after a store (every
      -- re-tabulation adds a layer that reads outside the tabulated windows have to walk through)
      match P.instAt s.pc with
      | none => erunSegD P n s'
      | some i =>
        let s1 := { s' with regs := (freezeOn i.wr s.regs s'.regs).f }
        erunSegD P n (if i.isStore then { s1 with mem := (freezeMOn (i.fpl s.regs) s.mem s1.mem).f } else s1)

def eroundD (g : WG) (fuel : Nat) : List Prog → List EWf → Mem → Option (List EWf × Mem)
  | P :: Ps, w :: ws, m =>
    if w.E.done then
      match eroundD g fuel Ps ws m with
      | none => none
      | some r => some (w :: r.1, r.2)
    else
      match erunSegD P fuel { w.E with mem := m } with
      | none => none
      | some E' =>
        match eroundD g fuel Ps ws E'.mem with
        | none => none
        | some r => some ({ E := E', atBar := g.bars (E'.trace.getLastD 0) } :: r.1, r.2)
  | _, _, m => some ([], m)

def ewgRunD (g : WG) (fuel : Nat) : Nat → List EWf → Mem → Option (List EWf × Mem)
  | 0, ws, m => if ecompleted ws then some (ws, m) else none
  | r + 1, ws, m =>
    if ecompleted ws then some (ws, m) else
    match eroundD g fuel g.Ps ws m with
    | none => none
    | some x => ewgRunD g fuel r (eresolve x.1) x.2

def wfStr (base : Nat) (T : TState) (p : Bool) : String :=
  -- the PC of a completed wavefront is dead state (the real `evalSEndPgm` advances it once more when the
  -- ending wavefront releases the waiters: `passBarrier` runs before `WfCompleted` is set): not printed
  let pcs := if T.ph = .done ∧ p = false then "-" else toString (T.pc - base)
  s!"ph={if p then "bar" else phaseStr T.ph} pc={pcs} vm={T.vm} lgkm={T.lgkm} tr={traceStr base T.trace} {regsStr T.regs}"

def ewfStr (base : Nat) (w : EWf) : String :=
  s!"pc={w.E.pc - base} tr={traceStr base w.E.trace} {regsStr w.E.regs}"

/-- `c02 bar base=<hex> exec=<hex> seed=<n> nwf=<n> prog=<i>/<i>/… ev=<w>:<e>,<w>:<e>,…` -/
def handleBar (t : List String) : String :=
  match kvHex? t "base", kvHex? t "exec", kvNat? t "seed", kvNat? t "nwf", kv? t "prog", kv? t "ev" with
  | some base, some exec, some seed, some n, some ps, some es =>
    match (ps.splitOn "/").mapM parseBI, (if es = "-" then some [] else (es.splitOn ",").mapM parseWEv) with
    | some bs, some evs =>
      let g := bwg base bs foreignWindow n
      let m0 : Mem := memByte seed
      let inits := (List.range n).map fun j => (base, initRegsW seed exec j n)
      let (W, rej) := wgrunIdx g (winit inits m0) evs
      let tst := match rej with | none => "ok" | some k => s!"rej@{k}"
      let tw := joinWith " ; " ((W.c.zip W.parked).map fun x => wfStr base x.1 x.2)
      let tm := memDiff seed ((W.c.headD (tinit 0 (fun _ => 0) m0)).mem)
      let er := ewgRunD g 400 64 (einitW inits m0) m0
      let es := match er with
        | none => "E stuck"
        | some (ws, m) => "E done " ++ joinWith " ; " (ws.map (ewfStr base)) ++ s!" mem={memDiff seed m}"
      s!"T {tst} {tw} mem={tm} | {es}"
    | _, _ => "bad"
  | _, _, _, _, _, _ => "bad"

end C02.Bar
