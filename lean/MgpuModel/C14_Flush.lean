import MgpuModel.Util
/-! # C14 — the compute unit's memory-side bookkeeping under PIPELINE FLUSH / RESTART

Hand transcription (branch by branch) of the part of `amd/timing/cu/computeunit.go` that page
migration uses: `Tick` (`sendToCP`, `processInput`, `doFlush`), `processInputFromCP`,
`handlePipelineFlushReq`, `handlePipelineResume`, `flushPipeline` (with `populateShadowBuffers`,
the `Flush` of the scalar / vector-memory unit queues, `flushCUBuffers`; the shadow lists keep what
they hold and receive what is newly in flight — the code before that repair is `…Old`),
`reInsertShadowBufferReqsToOriginalBuffers`, `checkShadowBuffers`, `send{Scalar,Vector,InstFetch}
ShadowBufferAccesses`, the three return handlers `handleFetchReturn`, `handleScalarDataLoadReturn`,
`handleVectorDataLoadReturn` / `handleVectorDataStoreRsp` (match by request ID in the in-flight
list, silently drop when not found), and of the issue side (`ScalarUnit.executeSMEMLoad`,
`VectorMemoryUnit.executeFlatLoad/Store`, `SchedulerImpl.DoFetch`, the units' `sendRequest`).

One memory path (`Chan`) = an in-flight list, its shadow copy, the requests the unit has built but
not yet put on the port, and the port's two buffers. A request ID string is modelled as the pair
`(entry id, generation)`: `send…ShadowBufferAccesses` overwrites `req.ID` with a fresh ID **before**
it tries to send (also when the send then fails), which is `gen + 1`.

The real `Tick` is `runPipeline ; sendToCP ; processInput ; doFlush`. `runPipeline` (units and
scheduler, skipped while `isPaused`) is represented by the events `issS / issV / fetch / usendS /
usendV` that precede a `tick`; `tick` is the rest.

Ghost fields (`issued`, `applied`, `sent`, `flushed`, `resent`, `ackLog`, `flushes`, `restarts`,
`acksLost`, `cp`) are never read by a transition.
-/
namespace C14.Flush
open Util

/-- one `…MemAccessInfo` / `InstFetchReqInfo` record -/
structure Entry where
  /-- identity of the record (allocation order) -/
  id : Nat
  /-- wavefront -/
  wf : Nat
  /-- `!req.CanWaitForCoalesce`: the response of this request decrements the counters -/
  last : Bool
  /-- how often the request ID has been regenerated -/
  gen : Nat
deriving DecidableEq, Repr, Inhabited

/-- a request ID / the `RespondTo` of a response: (entry id, generation) -/
abbrev Req := Nat × Nat

/-- one memory path of the compute unit -/
structure Chan where
  /-- `InFlight…` -/
  inf : List Entry
  /-- `shadowInFlight…` -/
  sh : List Entry
  /-- requests built by the unit and not yet on the port (`ScalarUnit.readBuf`; the vector memory
      unit's `transactionsWaiting` + transaction pipeline + post-pipeline buffer), entry ids -/
  unit : List Nat
  /-- outgoing buffer of the port -/
  out : List Req
  /-- incoming buffer of the port (responses) -/
  inp : List Req
  /-- ghost: ids of all records ever created on this path -/
  issued : List Nat
  /-- ghost: ids whose response was matched (register written / instruction bytes taken) -/
  applied : List Nat
  /-- ghost: every request ever put on the port -/
  sent : List Req
  /-- ghost: ids moved to the shadow list by the last executed flush -/
  flushed : List Nat
  /-- ghost: ids re-sent from the shadow list since then -/
  resent : List Nat
deriving Repr, Inhabited

def Chan.empty : Chan :=
  { inf := [], sh := [], unit := [], out := [], inp := [], issued := [], applied := [], sent := [],
    flushed := [], resent := [] }

def ids (l : List Entry) : List Nat := l.map (·.id)

/-- a unit creates the records `es` (appended to the in-flight list) and queues their requests -/
def Chan.issueQ (c : Chan) (es : List Entry) : Chan :=
  { c with inf := c.inf ++ es, unit := c.unit ++ ids es, issued := c.issued ++ ids es }

/-- `DoFetch`: the request has been sent, then the record is appended -/
def Chan.issueSent (c : Chan) (e : Entry) : Chan :=
  { c with inf := c.inf ++ [e], out := c.out ++ [(e.id, e.gen)], sent := c.sent ++ [(e.id, e.gen)],
           issued := c.issued ++ [e.id] }

/-- the unit's `sendRequest`: at most `n` queued requests go to the port while it has room -/
def Chan.usend (c : Chan) (cap n : Nat) : Chan × Nat :=
  let k := min n (min c.unit.length (cap - c.out.length))
  let rs : List Req := (c.unit.take k).map (fun i => (i, 0))
  ({ c with unit := c.unit.drop k, out := c.out ++ rs, sent := c.sent ++ rs }, k)

/-- `port.Deliver` of a response -/
def Chan.deliver (c : Chan) (cap : Nat) (r : Req) : Chan × Bool :=
  if c.inp.length < cap then ({ c with inp := c.inp ++ [r] }, true) else (c, false)

/-- the connection takes `n` messages from the outgoing buffer -/
def Chan.take (c : Chan) (n : Nat) : Chan × List Req :=
  ({ c with out := c.out.drop n }, c.out.take n)

/-- foreign messages fill up to `n` free places of the outgoing buffer -/
def Chan.foreign (c : Chan) (cap n : Nat) : Chan × Nat :=
  let k := min n (cap - c.out.length)
  ({ c with out := c.out ++ List.replicate k (1000000, 0) }, k)

def Entry.is (r : Req) (e : Entry) : Bool := e.id == r.1 && e.gen == r.2

/-- a return handler: the first record whose request ID equals `RespondTo` leaves the in-flight
    list; no record -> the response is dropped -/
def Chan.respond (c : Chan) (r : Req) : Chan × Option Entry :=
  match c.inf.find? (Entry.is r) with
  | none => (c, none)
  | some e => ({ c with inf := c.inf.eraseP (Entry.is r), applied := c.applied ++ [e.id] }, some e)

/-- `reInsertShadowBufferReqsToOriginalBuffers`: the records still waiting to be re-sent MOVE back
    to the in-flight list (the shadow list is emptied here, after the copy loop) -/
def Chan.reinsert (c : Chan) : Chan := { c with inf := c.inf ++ c.sh, sh := [] }

/-- `flushPipeline`: `populateShadowBuffers` APPENDS the in-flight records to the shadow list (what
    an earlier flush saved and no restart has re-sent yet stays saved), the in-flight list is
    emptied, the unit's `Flush` drops its queued requests -/
def Chan.flush (c : Chan) : Chan :=
  { c with sh := c.sh ++ c.inf, inf := [], unit := [], flushed := ids (c.sh ++ c.inf), resent := [] }

/-- before the repair: `reInsertShadowBufferReqsToOriginalBuffers` left the shadow list as it was … -/
def Chan.reinsertOld (c : Chan) : Chan := { c with inf := c.inf ++ c.sh }

/-- … and `flushPipeline` set `shadow = nil` before `populateShadowBuffers`: a flush executed while
    the unit was still paused by an earlier flush dropped every saved record -/
def Chan.flushOld (c : Chan) : Chan :=
  { c with sh := [] ++ c.inf, inf := [], unit := [], flushed := ids c.inf, resent := [] }

/-- `send…ShadowBufferAccesses`: the head record gets a fresh request ID; if the port takes the
    request the record moves to the in-flight list -/
def Chan.drain (c : Chan) (cap : Nat) : Chan :=
  match c.sh with
  | [] => c
  | e :: rest =>
    let e' : Entry := { e with gen := e.gen + 1 }
    if c.out.length < cap then
      { c with inf := c.inf ++ [e'], sh := rest, out := c.out ++ [(e.id, e'.gen)],
               sent := c.sent ++ [(e.id, e'.gen)], resent := c.resent ++ [e.id] }
    else { c with sh := e' :: rest }

/-- messages on `ToCP`: flush acknowledgement, restart answer, foreign traffic -/
inductive CPMsg | ack | rrsp | other
deriving DecidableEq, Repr, Inhabited
inductive CPReq | flush | restart
deriving DecidableEq, Repr, Inhabited

/-- ghost: where the command processor is in its request/acknowledge protocol
    (`ctrlMiddleware`: flush all CUs, wait for the acks, …, restart all CUs, wait for the answers;
    the driver starts the next migration only after the restart answer) -/
inductive CPSt | idle | flushSent | acked | restartSent
deriving DecidableEq, Repr, Inhabited

structure Cfg where
  capF : Nat := 4
  capS : Nat := 32
  capV : Nat := 64
  capCP : Nat := 4
  /-- `InFlightVectorMemAccessLimit` -/
  vLimit : Nat := 512
  /-- `ScalarUnit.readBufSize` -/
  sBuf : Nat := 16
deriving Repr, Inhabited

structure St where
  f : Chan
  s : Chan
  v : Chan
  /-- `wf.OutstandingVectorMemAccess` -/
  vm : Nat → Int
  /-- `wf.OutstandingScalarMemAccess` -/
  lgkm : Nat → Int
  isFlushing : Bool
  isPaused : Bool
  isSending : Bool
  /-- `currentFlushReq != nil` -/
  flushReq : Bool
  /-- `isHandlingWfCompletionEvent` (no statement of the package assigns it) -/
  handlingWfc : Bool
  /-- `toSendToCP != nil` (only the flush acknowledgement is ever stored there) -/
  ackPending : Bool
  /-- outgoing / incoming buffer of `ToCP` -/
  cpOut : List CPMsg
  cpIn : List CPReq
  /-- `log.Panicf("Unable to send restart rsp to CP")` -/
  fault : Bool
  nextId : Nat
  /-- ghost: flush requests executed by `flushPipeline` -/
  flushes : Nat
  /-- ghost: restart requests handled by `handlePipelineResume` -/
  restarts : Nat
  /-- ghost: acknowledgements overwritten in `toSendToCP` before they were sent -/
  acksLost : Nat
  /-- ghost: everything ever put on `ToCP` -/
  ackLog : List CPMsg
  /-- ghost: protocol state of the command processor -/
  cp : CPSt
deriving Inhabited

def St.init : St :=
  { f := Chan.empty, s := Chan.empty, v := Chan.empty, vm := fun _ => 0, lgkm := fun _ => 0,
    isFlushing := false, isPaused := false, isSending := false, flushReq := false,
    handlingWfc := false, ackPending := false, cpOut := [], cpIn := [], fault := false, nextId := 0,
    flushes := 0, restarts := 0, acksLost := 0, ackLog := [], cp := .idle }

def upd (g : Nat → Int) (w : Nat) (d : Int) : Nat → Int := fun x => if x = w then g x + d else g x

inductive Kind | f | s | v | c
deriving DecidableEq, Repr, Inhabited

inductive Op
  /-- `ScalarUnit.executeSMEMLoad`: an SMEM load of wavefront `w` split into `n` requests -/
  | issS (w n : Nat)
  /-- `VectorMemoryUnit.executeFlatLoad/Store`: `n` transactions -/
  | issV (w n : Nat)
  /-- `SchedulerImpl.DoFetch` for wavefront `w` -/
  | fetch (w : Nat)
  /-- `ScalarUnit.sendRequest` (up to 4 per cycle) -/
  | usendS
  /-- `VectorMemoryUnit.sendRequest`: `n` transactions have left the transaction pipeline -/
  | usendV (n : Nat)
  /-- the memory side delivers a response with `RespondTo = (id, gen)` to port `k` -/
  | deliver (k : Kind) (id gen : Nat)
  /-- the command processor delivers a flush / restart request -/
  | cpFlush
  | cpRestart
  /-- the connection takes `n` messages from the outgoing buffer of port `k` -/
  | take (k : Kind) (n : Nat)
  /-- other traffic occupies `n` places of the outgoing buffer of memory port `k` (back-pressure) -/
  | foreign (k : Kind) (n : Nat)
  /-- `sendToCP ; processInput ; doFlush` -/
  | tick
deriving DecidableEq, Repr, Inhabited

/-- entries of one instruction: ids `base …`, the last one carries the counter decrement -/
def mkEntries (base w n : Nat) : List Entry :=
  (List.range n).map (fun i => { id := base + i, wf := w, last := i + 1 == n, gen := 0 })

def issS (c : Cfg) (s : St) (w n : Nat) : St × Bool :=
  if s.s.unit.length + n > c.sBuf ∨ n = 0 then (s, false) else
  ({ s with s := s.s.issueQ (mkEntries s.nextId w n), nextId := s.nextId + n,
            lgkm := upd s.lgkm w 1 }, true)

def issV (c : Cfg) (s : St) (w n : Nat) : St × Bool :=
  if n = 0 ∨ n + s.v.inf.length > c.vLimit then (s, false) else
  ({ s with v := s.v.issueQ (mkEntries s.nextId w n), nextId := s.nextId + n,
            vm := upd s.vm w 1, lgkm := upd s.lgkm w 1 }, true)

def fetch (c : Cfg) (s : St) (w : Nat) : St × Bool :=
  if s.f.out.length < c.capF then
    ({ s with f := s.f.issueSent { id := s.nextId, wf := w, last := true, gen := 0 },
              nextId := s.nextId + 1 }, true)
  else (s, false)

/-- `sendToCP` -/
def sendToCP (c : Cfg) (s : St) : St :=
  if s.ackPending ∧ s.cpOut.length < c.capCP then
    { s with cpOut := s.cpOut ++ [.ack], ackPending := false, ackLog := s.ackLog ++ [.ack] }
  else s

/-- `processInputFromInstMem` + `handleFetchReturn` (one response per cycle) -/
def procF (s : St) : St :=
  match s.f.inp with
  | [] => s
  | r :: rest => { s with f := ({ s.f with inp := rest }).respond r |>.1 }

/-- `processInputFromScalarMem` + `handleScalarDataLoadReturn` -/
def procS (s : St) : St :=
  match s.s.inp with
  | [] => s
  | r :: rest =>
    match ({ s.s with inp := rest }).respond r with
    | (ch, none) => { s with s := ch }
    | (ch, some e) => { s with s := ch, lgkm := if e.last then upd s.lgkm e.wf (-1) else s.lgkm }

/-- one iteration of the loop of `processInputFromVectorMem` -/
def procV1 (s : St) : St :=
  match s.v.inp with
  | [] => s
  | r :: rest =>
    match ({ s.v with inp := rest }).respond r with
    | (ch, none) => { s with v := ch }
    | (ch, some e) =>
      { s with v := ch, vm := if e.last then upd s.vm e.wf (-1) else s.vm,
               lgkm := if e.last then upd s.lgkm e.wf (-1) else s.lgkm }

def procV : Nat → St → St
  | 0, s => s
  | n + 1, s => procV n (procV1 s)

/-- `processInputFromCP` -/
def procCP (c : Cfg) (s : St) : St :=
  match s.cpIn with
  | [] => s
  | .flush :: rest => { s with cpIn := rest, isFlushing := true, flushReq := true }
  | .restart :: rest =>
    if s.cpOut.length < c.capCP then
      { s with cpIn := rest, isSending := true, cpOut := s.cpOut ++ [.rrsp], ackLog := s.ackLog ++ [.rrsp],
               restarts := s.restarts + 1 }
    else { s with cpIn := rest, isSending := true, fault := true, restarts := s.restarts + 1 }

/-- `processInput` -/
def processInput (c : Cfg) (s : St) : St :=
  let s := if !s.isPaused || s.isSending then procV 16 (procS (procF s)) else s
  procCP c s

/-- `reInsertShadowBufferReqsToOriginalBuffers` -/
def reinsert (s : St) : St :=
  { s with isSending := false, v := s.v.reinsert, s := s.s.reinsert, f := s.f.reinsert }

/-- `flushPipeline` -/
def flushPipeline (s : St) : St :=
  if !s.flushReq then s else
  if s.handlingWfc then s else
  { s with f := s.f.flush, s := s.s.flush, v := s.v.flush, isPaused := true,
           acksLost := if s.ackPending then s.acksLost + 1 else s.acksLost,
           ackPending := true, flushReq := false, isFlushing := false, flushes := s.flushes + 1 }

/-- `checkShadowBuffers` -/
def checkShadow (c : Cfg) (s : St) : St :=
  if s.s.sh.length + s.v.sh.length + s.f.sh.length = 0 then
    { s with isSending := false, isPaused := false }
  else
    { s with s := s.s.drain c.capS, v := s.v.drain c.capV, f := s.f.drain c.capF }

/-- `doFlush` -/
def doFlush (c : Cfg) (s : St) : St :=
  let s := if s.isFlushing then flushPipeline (if s.isSending then reinsert s else s) else s
  if s.isSending then checkShadow c s else s

def tick (c : Cfg) (s : St) : St := doFlush c (processInput c (sendToCP c s))

/-! the flush path before the repair (`Chan.reinsertOld`, `Chan.flushOld`) -/

def reinsertOld (s : St) : St :=
  { s with isSending := false, v := s.v.reinsertOld, s := s.s.reinsertOld, f := s.f.reinsertOld }

def flushPipelineOld (s : St) : St :=
  if !s.flushReq then s else
  if s.handlingWfc then s else
  { s with f := s.f.flushOld, s := s.s.flushOld, v := s.v.flushOld, isPaused := true,
           acksLost := if s.ackPending then s.acksLost + 1 else s.acksLost,
           ackPending := true, flushReq := false, isFlushing := false, flushes := s.flushes + 1 }

def doFlushOld (c : Cfg) (s : St) : St :=
  let s := if s.isFlushing then flushPipelineOld (if s.isSending then reinsertOld s else s) else s
  if s.isSending then checkShadow c s else s

def tickOld (c : Cfg) (s : St) : St := doFlushOld c (processInput c (sendToCP c s))

def capOf (c : Cfg) : Kind → Nat
  | .f => c.capF
  | .s => c.capS
  | .v => c.capV
  | .c => c.capCP

/-- ghost: the command processor's protocol state after it has received `m` -/
def cpRecv (cp : CPSt) (m : CPMsg) : CPSt :=
  match cp, m with
  | .flushSent, .ack => .acked
  | .restartSent, .rrsp => .idle
  | x, _ => x

def cpRecvAll (cp : CPSt) (ms : List CPMsg) : CPSt := ms.foldl cpRecv cp

def step (c : Cfg) (s : St) (o : Op) : St :=
  if s.fault then s else
  match o with
  | .issS w n => (issS c s w n).1
  | .issV w n => (issV c s w n).1
  | .fetch w => (fetch c s w).1
  | .usendS => { s with s := (s.s.usend c.capS 4).1 }
  | .usendV n => { s with v := (s.v.usend c.capV (min n 16)).1 }
  | .deliver .f i g => { s with f := (s.f.deliver c.capF (i, g)).1 }
  | .deliver .s i g => { s with s := (s.s.deliver c.capS (i, g)).1 }
  | .deliver .v i g => { s with v := (s.v.deliver c.capV (i, g)).1 }
  | .deliver .c _ _ => s
  | .cpFlush =>
    if s.cpIn.length < c.capCP then
      { s with cpIn := s.cpIn ++ [.flush], cp := if s.cp = .idle then .flushSent else s.cp }
    else s
  | .cpRestart =>
    if s.cpIn.length < c.capCP then
      { s with cpIn := s.cpIn ++ [.restart], cp := if s.cp = .acked then .restartSent else s.cp }
    else s
  | .take .f n => { s with f := (s.f.take n).1 }
  | .take .s n => { s with s := (s.s.take n).1 }
  | .take .v n => { s with v := (s.v.take n).1 }
  | .take .c n => { s with cpOut := s.cpOut.drop n, cp := cpRecvAll s.cp (s.cpOut.take n) }
  | .foreign .f n => { s with f := (s.f.foreign c.capF n).1 }
  | .foreign .s n => { s with s := (s.s.foreign c.capS n).1 }
  | .foreign .v n => { s with v := (s.v.foreign c.capV n).1 }
  | .foreign .c _ => s
  | .tick => tick c s

def run (c : Cfg) (s : St) (ops : List Op) : St := ops.foldl (step c) s

/-- the compute unit before the repair -/
def stepOld (c : Cfg) (s : St) (o : Op) : St :=
  match o with
  | .tick => if s.fault then s else tickOld c s
  | o => step c s o

def runOld (c : Cfg) (s : St) (ops : List Op) : St := ops.foldl (stepOld c) s

/-! ## the line protocol (`c14 flush …`) -/

def entStr (l : List Entry) : String :=
  if l.isEmpty then "-" else joinWith "," (l.map (fun e => s!"{e.id}.{e.gen}"))

def reqStr (l : List Req) : String :=
  if l.isEmpty then "-" else joinWith "," (l.map (fun r => s!"{r.1}.{r.2}"))

def chanStr (c : Chan) : String :=
  s!"{entStr c.inf}/{entStr c.sh}/{c.unit.length}/{reqStr c.out}/{reqStr c.inp}"

def b2s (b : Bool) : String := if b then "1" else "0"

def cpMsgStr (l : List CPMsg) : String :=
  if l.isEmpty then "-" else String.ofList (l.map (fun m => match m with | .ack => 'A' | .rrsp => 'R' | .other => 'O'))

def cpReqStr (l : List CPReq) : String :=
  if l.isEmpty then "-" else String.ofList (l.map (fun m => match m with | .flush => 'F' | .restart => 'S'))

def digest (nw : Nat) (s : St) : String :=
  let ws := (List.range nw).map (fun w => s!"{s.vm w}:{s.lgkm w}")
  s!"p{b2s s.isPaused}s{b2s s.isSending}f{b2s s.isFlushing}q{b2s s.flushReq}a{b2s s.ackPending} " ++
  s!"F={chanStr s.f} S={chanStr s.s} V={chanStr s.v} C={cpMsgStr s.cpOut}/{cpReqStr s.cpIn} " ++
  s!"w={joinWith "," ws}"

def parseKind : String → Option Kind
  | "f" => some .f
  | "s" => some .s
  | "v" => some .v
  | "c" => some .c
  | _ => none

def parseOp (t : List String) : Option Op :=
  match t with
  | ["is", w, n] => do pure (.issS (← w.toNat?) (← n.toNat?))
  | ["iv", w, n] => do pure (.issV (← w.toNat?) (← n.toNat?))
  | ["fe", w] => do pure (.fetch (← w.toNat?))
  | ["us"] => some .usendS
  | ["uv", n] => do pure (.usendV (← n.toNat?))
  | ["de", k, i, g] => do pure (.deliver (← parseKind k) (← i.toNat?) (← g.toNat?))
  | ["cf"] => some .cpFlush
  | ["cr"] => some .cpRestart
  | ["tk", k, n] => do pure (.take (← parseKind k) (← n.toNat?))
  | ["fo", k, n] => do pure (.foreign (← parseKind k) (← n.toNat?))
  | ["t"] => some .tick
  | _ => none

/-- the answer of one event (what the harness reads off the real compute unit) -/
def opOut (c : Cfg) (nw : Nat) (s : St) (o : Op) : String :=
  let s' := step c s o
  match o with
  | .issS w n => if (issS c s w n).2 then s!"i{s.nextId}" else "rej"
  | .issV w n => if (issV c s w n).2 then s!"i{s.nextId}" else "rej"
  | .fetch w => if (fetch c s w).2 then s!"i{s.nextId}" else "rej"
  | .usendS => s!"u{(s.s.usend c.capS 4).2}"
  | .usendV n => s!"u{(s.v.usend c.capV (min n 16)).2}"
  | .deliver .f i g => s!"d{b2s (s.f.deliver c.capF (i, g)).2}"
  | .deliver .s i g => s!"d{b2s (s.s.deliver c.capS (i, g)).2}"
  | .deliver .v i g => s!"d{b2s (s.v.deliver c.capV (i, g)).2}"
  | .deliver .c _ _ => "x"
  | .cpFlush => s!"c{b2s (decide (s.cpIn.length < c.capCP))}"
  | .cpRestart => s!"c{b2s (decide (s.cpIn.length < c.capCP))}"
  | .take .f n => s!"k{reqStr (s.f.take n).2}"
  | .take .s n => s!"k{reqStr (s.s.take n).2}"
  | .take .v n => s!"k{reqStr (s.v.take n).2}"
  | .take .c n => s!"k{cpMsgStr (s.cpOut.take n)}"
  | .foreign .f n => s!"o{(s.f.foreign c.capF n).2}"
  | .foreign .s n => s!"o{(s.s.foreign c.capS n).2}"
  | .foreign .v n => s!"o{(s.v.foreign c.capV n).2}"
  | .foreign .c _ => "x"
  | .tick => if s'.fault then "fault:restart-rsp" else digest nw s'

def handle (toks : List String) (ops : List String) : String :=
  let c : Cfg :=
    { capF := (kvNat? toks "capf").getD 4, capS := (kvNat? toks "caps").getD 32,
      capV := (kvNat? toks "capv").getD 64, capCP := (kvNat? toks "capcp").getD 4,
      vLimit := (kvNat? toks "vlimit").getD 512, sBuf := (kvNat? toks "sbuf").getD 16 }
  let nw := (kvNat? toks "nw").getD 1
  let foreign (n : Nat) : List Req := List.replicate n (1000000, 0)
  let s0 : St :=
    { St.init with f := { Chan.empty with out := foreign ((kvNat? toks "pf").getD 0) }
                   s := { Chan.empty with out := foreign ((kvNat? toks "ps").getD 0) }
                   v := { Chan.empty with out := foreign ((kvNat? toks "pv").getD 0) }
                   cpOut := List.replicate ((kvNat? toks "pc").getD 0) .other }
  let r := ops.foldl (fun (acc : St × Array String) o =>
    if acc.1.fault then acc else
    match parseOp (words o) with
    | none => (acc.1, acc.2.push "x")
    | some op => (step c acc.1 op, acc.2.push (opOut c nw acc.1 op))) (s0, #[])
  joinWith " ; " r.2.toList

end C14.Flush
