import MgpuModel.C13Core
/-!
# C13 — from the bytes of the file to the ELF view (what the loader takes from `debug/elf`)

`C13Core.lean` starts at the *view*: sections (name, address, data) and the symbol table.
This file models the step before it, for the kind of file every `.hsaco` is — ELF64,
little-endian — exactly as `debug/elf` (Go 1.25) performs it for the four calls the loader
makes:

* `elf.NewFile` (`parse`): identification bytes, `Header64`, the checks on `shoff`, `phoff`,
  `shnum`, `shstrndx`, `phentsize`, `shentsize`, the program-header table (must be readable;
  offsets and file sizes must be non-negative `int64`), the section-header table, the section
  name string table (`shstrndx = 0`: all names empty; wrong type / unreadable / bad index: error);
* `File.Section(name)`: first section with the name (`findSection` of the core file);
* `Section.Data()` (`secData`): `SHT_NOBITS` gives an error unless the size is 0, anything
  else is the file range `[sh_offset, +sh_size)` and an error when the file is shorter;
* `File.Symbols()` (`symbolsOf`): first `SHT_SYMTAB` section, its data a multiple of 24 bytes,
  `sh_link` a valid non-zero section index whose data is the string table, entry 0 skipped,
  a bad name index gives the empty name; **an empty symbol section makes `data[Sym64Size:]`
  panic** (`SymRes.panic`).

Outside the modelled class (`Parsed.unmodelled`): ELF32, big-endian, extended section numbering
(`shnum = 0` with `shoff > 0`), `SHF_COMPRESSED` sections, `.zdebug*` symbol/string tables.
`loadBytes` is `LoadKernelCodeObjectFromBytes` / `…FromFS` (they differ only in the
`io.ReaderAt` handed to `elf.NewFile`).
-/
namespace C13
namespace Elf

/-- `saferio.ReadDataAt` / `ReadData` on an in-memory or on-disk file: `n` bytes at `off`;
a read of 0 bytes succeeds anywhere, any other read needs the whole range inside the file -/
def readAt (f : Bytes) (off n : Nat) : Option Bytes :=
  if n = 0 then some []
  else if off + n ≤ f.length then some ((f.drop off).take n)
  else none

/-- 2^63: offsets and sizes are rejected when negative as `int64` -/
def I63 : Nat := 9223372036854775808

/-- one `Section64` header: the fields `debug/elf` keeps that matter here -/
structure Shdr where
  nameIdx : Nat
  type : Nat
  flags : Nat
  addr : Nat
  off : Nat
  size : Nat
  link : Nat
  deriving DecidableEq, Repr

def SHT_SYMTAB : Nat := 2
def SHT_STRTAB : Nat := 3
def SHT_NOBITS : Nat := 8
def SHF_COMPRESSED : Nat := 2048

def shdrAt (f : Bytes) (base : Nat) : Shdr :=
  { nameIdx := u32 f base
    type := u32 f (base + 4)
    flags := u64 f (base + 8)
    addr := u64 f (base + 16)
    off := u64 f (base + 24)
    size := u64 f (base + 32)
    link := u32 f (base + 40) }

inductive Hdrs where
  /-- `elf.NewFile` returns an error: the loader ends in `log.Fatal(err)` -/
  | reject
  | unmodelled
  | ok (shs : List Shdr) (shstrndx : Nat)
  deriving DecidableEq, Repr

/-- `elf.NewFile` up to and including the section-header loop -/
def parseHeaders (f : Bytes) : Hdrs :=
  if f.length < 16 then .reject
  else if byteAt f 0 != 0x7f || byteAt f 1 != 0x45 || byteAt f 2 != 0x4c || byteAt f 3 != 0x46 then .reject
  else if byteAt f 4 != 1 && byteAt f 4 != 2 then .reject
  else if byteAt f 5 != 1 && byteAt f 5 != 2 then .reject
  else if byteAt f 6 != 1 then .reject
  else if byteAt f 4 == 1 || byteAt f 5 == 2 then .unmodelled
  else if f.length < 64 then .reject
  else if byteAt f 20 != 1 then .reject  -- `Version(bo.Uint32(…))`: `Version` is a byte type, only the low byte is compared
  else
    let phoff := u64 f 32
    let shoff := u64 f 40
    let phentsize := u16 f 54
    let phnum := u16 f 56
    let shentsize := u16 f 58
    let shnum := u16 f 60
    let shstrndx := u16 f 62
    if shoff ≥ I63 || phoff ≥ I63 then .reject
    else if shoff == 0 && shnum != 0 then .reject
    else if shnum > 0 && shstrndx ≥ shnum then .reject
    else if phnum > 0 && phentsize < 56 then .reject
    else if (readAt f phoff (phnum * phentsize)).isNone then .reject
    else if (List.range phnum).any (fun i =>
        u64 f (phoff + i * phentsize + 8) ≥ I63 || u64 f (phoff + i * phentsize + 32) ≥ I63) then .reject
    else if shoff > 0 && shnum == 0 then .unmodelled
    else if shnum > 0 && shentsize < 64 then .reject
    else if (readAt f shoff (shnum * shentsize)).isNone then .reject
    else
      let shs := (List.range shnum).map (fun i => shdrAt f (shoff + i * shentsize))
      if shs.any (fun s => s.flags / SHF_COMPRESSED % 2 == 1) then .unmodelled
      else if shs.any (fun s => s.off ≥ I63 || s.size ≥ I63) then .reject
      else .ok shs shstrndx

/-- `Section.Data()`; `none` = it returns `nil, err` -/
def secData (f : Bytes) (sh : Shdr) : Option Bytes :=
  if sh.type = SHT_NOBITS then (if sh.size = 0 then some [] else none)
  else readAt f sh.off sh.size

/-- `getString`: the NUL-terminated string at `start`; `none` = `("", false)` -/
def getString (tab : Bytes) (start : Nat) : Option Bytes :=
  if start ≥ tab.length then none
  else if (tab.drop start).contains 0 then some ((tab.drop start).takeWhile (· != 0))
  else none

/-- Go `string(bytes)`; names are compared bytewise in Go, and this map is injective -/
def strOf (b : Bytes) : String := String.ofList (b.map (fun c => Char.ofNat c.toNat))

structure ESection where
  name : String
  sh : Shdr
  deriving DecidableEq, Repr

inductive Parsed where
  | reject
  | unmodelled
  | ok (secs : List ESection)
  deriving DecidableEq, Repr

def nameAll (tab : Bytes) : List Shdr → Option (List ESection)
  | [] => some []
  | sh :: rest =>
    match getString tab sh.nameIdx, nameAll tab rest with
    | some n, some l => some ({ name := strOf n, sh := sh } :: l)
    | _, _ => none

/-- `elf.NewFile` -/
def parse (f : Bytes) : Parsed :=
  match parseHeaders f with
  | .reject => .reject
  | .unmodelled => .unmodelled
  | .ok shs shstrndx =>
    if shs.isEmpty then .ok []
    else if shstrndx = 0 then .ok (shs.map (fun sh => { name := "", sh := sh }))
    else
      match shs[shstrndx]? with
      | none => .reject
      | some shstr =>
        if shstr.type ≠ SHT_STRTAB then .reject
        else
          match secData f shstr with
          | none => .reject
          | some tab =>
            match nameAll tab shs with
            | none => .reject
            | some secs => .ok secs

inductive SymRes where
  /-- `Symbols()` returns an error: the loader treats the whole `.text` as one kernel -/
  | err
  /-- `Symbols()` panics (`data = data[Sym64Size:]` on an empty symbol section) -/
  | panic
  | unmodelled
  | ok (l : List Symbol)
  deriving DecidableEq, Repr

def symAt (d strs : Bytes) (i : Nat) : Symbol :=
  let o := 24 * (i + 1)
  { name := match getString strs (u32 d o) with
            | some n => strOf n
            | none => ""
    value := u64 d (o + 8)
    size := u64 d (o + 16)
    shndx := u16 d (o + 6) }

def zdebug (n : String) : Bool := n.startsWith ".zdebug"

/-- `File.Symbols()` (`getSymbols64(SHT_SYMTAB)`) -/
def symbolsOf (f : Bytes) (secs : List ESection) : SymRes :=
  match secs.find? (fun s => s.sh.type == SHT_SYMTAB) with
  | none => .err
  | some st =>
    if zdebug st.name then .unmodelled
    else
      match secData f st.sh with
      | none => .err
      | some d =>
        if d.length % 24 ≠ 0 then .err
        else if st.sh.link = 0 ∨ st.sh.link ≥ secs.length then .err
        else
          match secs[st.sh.link]? with
          | none => .err
          | some strSec =>
            if zdebug strSec.name then .unmodelled
            else
              match secData f strSec.sh with
              | none => .err
              | some strs =>
                if d.length = 0 then .panic
                else .ok ((List.range (d.length / 24 - 1)).map (symAt d strs))

/-- the sections as the loader sees them -/
def sectionsOf (f : Bytes) (secs : List ESection) : List Section :=
  secs.map (fun s => { name := s.name, addr := s.sh.addr, data := secData f s.sh })

def viewOf (f : Bytes) (secs : List ESection) (syms : Option (List Symbol)) : View :=
  { sections := sectionsOf f secs, symbols := syms }

/-- `LoadKernelCodeObjectFromBytes(file, name)` = `LoadKernelCodeObjectFromFS(path, name)` for a
path with these bytes; `none` = outside the modelled class of files -/
def loadBytes (f : Bytes) (name : String) : Option Outcome :=
  match parse f with
  | .unmodelled => none
  | .reject => some (.fatal "elf")
  | .ok secs =>
    match symbolsOf f secs with
    | .unmodelled => none
    | .ok l => some (loadKernel (viewOf f secs (some l)) name)
    | .err => some (loadKernel (viewOf f secs none) name)
    | .panic =>
      -- the loader asks for `.text` and its data before it asks for the symbols
      match findSection (sectionsOf f secs) ".text" with
      | none => some (.fatal "notext")
      | some t =>
        match t.data with
        | none => some (.fatal "textdata")
        | some _ => some .fault

/-! ## where the returned bytes sit in the file -/

/-- the header of the section the loader calls `.text` -/
def textShdr (secs : List ESection) : Option Shdr := (secs.find? (fun s => s.name == ".text")).map (·.sh)

/-- file offset of the first byte of kernel symbol `s` -/
def fileOffsetOf (t : Shdr) (s : Symbol) : Nat := t.off + (s.value - t.addr)

/-! ## line protocol -/

def dataStr (d : Option Bytes) : String :=
  match d with
  | none => "!"
  | some [] => "e"
  | some b => Util.bytesHex (b.map (·.toNat))

/-- the rendering of `c13view` in harness/c13.go: data only for `.text` / `.rodata` -/
def viewStr (f : Bytes) (secs : List ESection) (symTag : String) (syms : List Symbol) : String :=
  let ss := secs.map (fun s =>
    " ; S n:" ++ s.name ++ " " ++ Util.toHex s.sh.addr ++ " " ++
      (if s.name == ".text" || s.name == ".rodata" then dataStr (secData f s.sh) else "-"))
  let ys := syms.map (fun y =>
    " ; Y n:" ++ y.name ++ " " ++ Util.toHex y.value ++ " " ++ Util.toHex y.size ++ " " ++ toString y.shndx)
  symTag ++ String.join ss ++ String.join ys

def elfStr (f : Bytes) : String :=
  match parse f with
  | .reject => "reject"
  | .unmodelled => "unmodelled"
  | .ok secs =>
    match symbolsOf f secs with
    | .unmodelled => "unmodelled"
    | .err => viewStr f secs "syms=0" []
    | .panic => viewStr f secs "syms=panic" []
    | .ok l => viewStr f secs "syms=1" l

def handleElf (toks : List String) : Option String :=
  match toks with
  | ["c13", "elf", h] => some (elfStr (hexToBytes h))
  | ["c13", "loadb", n, h] =>
    some (match loadBytes (hexToBytes h) (unName n) with
      | none => "unmodelled"
      | some o => outcomeStr o)
  | ["c13", "foff", n, h] =>
    -- file offset and length of the bytes a load by name returns (theorem `elf_bytes_exact`)
    let f := hexToBytes h
    some (match parse f with
      | .ok secs =>
        (match symbolsOf f secs, textShdr secs with
         | .ok l, some t =>
           (match firstKernelSym (sectionsOf f secs) l (unName n) with
            | some s => "off=" ++ toString (fileOffsetOf t s) ++ " len=" ++ toString s.size
            | none => "nosym")
         | _, _ => "nosym")
      | _ => "nosym")
  | _ => none

end Elf
end C13
