import MgpuModel.C08_Base
import MgpuModel.C02
/-! # C08 — what a dispatched wavefront is told about the launch geometry

* the whole initial SGPR image both modes write (`emu.ComputeUnit.initWfRegs`,
  `cu.WfDispatcherImpl.initRegisters`): the transcription is C02's `initS` (tied to both real
  functions by the `c02 init` and `c08 sgpr` case lines); here it is compared with the ABI layout
  (`Field`, `abiIndex`, `abiImage`): user SGPRs in the fixed order private segment buffer (4
  dwords), dispatch ptr (2), queue ptr (2), kernarg segment ptr (2), dispatch id (2), flat scratch
  init (2), private segment size (1), work-group count X, Y, Z (1 each), then the system SGPRs
  work-group id X, Y, Z (1 each), each present iff its enable bit is set;
* the work-group-count registers `(grid + wg − 1) / wg` computed in 64 bits (`C02.wgCount`; before the repair in
  `uint32`, `C02.wgCountOld`);
* the HIP hidden kernel arguments of V5 code objects (`gputensor.newCDNA3HiddenArgs`, serialised by
  `binary.Write` as the driver does with every kernel-argument struct);
* the byte layout of `kernels.HsaKernelDispatchPacket` (what a kernel reads through the dispatch
  pointer);
* the driver's work-group split in signed 64-bit `int` (`distS`, `gpuFilterS`) — what happens at and
  beyond 2^63 work-groups, where `distI` (low 64 bits, unsigned) no longer describes the code. -/
namespace C08
open Util

/-! ## the ABI layout of the initial SGPRs -/

inductive Field
  | privSegBuf | dispatchPtr | queuePtr | kernarg | dispatchID | flatScratch | privSegSize
  | cntX | cntY | cntZ | idX | idY | idZ
deriving DecidableEq, Repr

/-- the order in which enabled fields occupy SGPRs -/
def Field.order : List Field :=
  [.privSegBuf, .dispatchPtr, .queuePtr, .kernarg, .dispatchID, .flatScratch, .privSegSize,
   .cntX, .cntY, .cntZ, .idX, .idY, .idZ]

/-- size in dwords -/
def Field.size : Field → Nat
  | .privSegBuf => 4
  | .dispatchPtr => 2
  | .queuePtr => 2
  | .kernarg => 2
  | .dispatchID => 2
  | .flatScratch => 2
  | _ => 1

def Field.enabled (f : C02.Flags) : Field → Bool
  | .privSegBuf => f.privSegBuf
  | .dispatchPtr => f.dispatchPtr
  | .queuePtr => f.queuePtr
  | .kernarg => f.kernarg
  | .dispatchID => f.dispatchID
  | .flatScratch => f.flatScratch
  | .privSegSize => f.privSegSize
  | .cntX => f.cntX
  | .cntY => f.cntY
  | .cntZ => f.cntZ
  | .idX => f.idX
  | .idY => f.idY
  | .idZ => f.idZ

/-- the dwords the ABI puts into the field (low dword first). `none`: the simulator provides no
    content for the field (it only reserves the registers). The work-group counts are the TRUE
    counts `⌈grid/wg⌉` (`nwgI`), not the `uint32` expression of the code. -/
def Field.value (a : C02.Args) : Field → Option (List Nat)
  | .dispatchPtr => some [a.packetAddr % 4294967296, a.packetAddr / 4294967296 % 4294967296]
  | .kernarg => some [a.kernargAddr % 4294967296, a.kernargAddr / 4294967296 % 4294967296]
  | .cntX => some [nwgI a.gx a.wx % 4294967296]
  | .cntY => some [nwgI a.gy a.wy % 4294967296]
  | .cntZ => some [nwgI a.gz a.wz % 4294967296]
  | .idX => some [a.ix % 4294967296]
  | .idY => some [a.iy % 4294967296]
  | .idZ => some [a.iz % 4294967296]
  | _ => none

/-- dwords occupied by the enabled fields among `l` -/
def usedBy (f : C02.Flags) (l : List Field) : Nat := (l.map fun x => if x.enabled f then x.size else 0).sum

/-- first SGPR of field `x`: the enabled fields before it, packed -/
def abiIndex (f : C02.Flags) (x : Field) : Nat := usedBy f (Field.order.takeWhile (· != x))

/-- the ABI's initial SGPR image: content of register `r`, `none` = not defined by the simulator -/
def abiImage (f : C02.Flags) (a : C02.Args) (r : Nat) : Option Nat :=
  Field.order.findSome? fun x =>
    if x.enabled f && decide (abiIndex f x ≤ r) && decide (r < abiIndex f x + x.size) then
      (x.value a).bind fun vs => vs[r - abiIndex f x]?
    else none

/-- the same list of writes, generated from the ABI table instead of the straight-line code -/
def abiWrites (f : C02.Flags) (a : C02.Args) : List C02.Wr :=
  Field.order.flatMap fun x =>
    if x.enabled f then
      match x.value a with
      | some vs => (List.range vs.length).map fun k => ⟨0, (0, abiIndex f x + k), vs.getD k 0⟩
      | none => []
    else []

/-- no work-group-count register wraps: `grid + wg − 1` fits `uint32` on every axis whose count
    register is enabled -/
def CountsFit (f : C02.Flags) (a : C02.Args) : Prop :=
  (f.cntX = true → a.gx + a.wx ≤ 4294967296) ∧ (f.cntY = true → a.gy + a.wy ≤ 4294967296) ∧
  (f.cntZ = true → a.gz + a.wz ≤ 4294967296)

instance (f : C02.Flags) (a : C02.Args) : Decidable (CountsFit f a) := by
  unfold CountsFit; exact inferInstance

/-- the dispatch packet is typed: `GridSize` is a `uint32`, `WorkgroupSize` a `uint16` (on every axis
    whose count register is enabled) — all the repaired count registers need -/
def CountsTyped (f : C02.Flags) (a : C02.Args) : Prop :=
  (f.cntX = true → a.gx < 4294967296 ∧ a.wx < 65536) ∧ (f.cntY = true → a.gy < 4294967296 ∧ a.wy < 65536) ∧
  (f.cntZ = true → a.gz < 4294967296 ∧ a.wz < 65536)

instance (f : C02.Flags) (a : C02.Args) : Decidable (CountsTyped f a) := by
  unfold CountsTyped; exact inferInstance

/-- every enabled count register holds the true number of work-groups of its axis -/
def CountsOk (f : C02.Flags) (a : C02.Args) : Prop :=
  (f.cntX = true → C02.wgCount a.gx a.wx = nwgI a.gx a.wx) ∧ (f.cntY = true → C02.wgCount a.gy a.wy = nwgI a.gy a.wy) ∧
  (f.cntZ = true → C02.wgCount a.gz a.wz = nwgI a.gz a.wz)

/-! ## HIP hidden kernel arguments (V5 code objects) -/

/-- `gputensor.CDNA3HiddenArgs` -/
structure Hidden where
  bc : Coord      -- HiddenBlockCountX/Y/Z  (uint32)
  gs : Coord      -- HiddenGroupSizeX/Y/Z   (uint16)
  rem : Coord     -- HiddenRemainderX/Y/Z   (uint16)
  off : Coord     -- HiddenGlobalOffsetX/Y/Z (int64), never set: 0
  dims : Nat      -- HiddenGridDims (uint16)
deriving Repr, DecidableEq

/-- `newCDNA3HiddenArgs(globalSize, localSize)` before the repair: block counts `(g + l − 1) / l` in `uint32` -/
def hiddenOfOld (g : Geo) : Except String Hidden :=
  if g.wx = 0 ∨ g.wy = 0 ∨ g.wz = 0 then .error "div0" else
  .ok { bc := (C02.wgCountOld g.gx g.wx, C02.wgCountOld g.gy g.wy, C02.wgCountOld g.gz g.wz),
        gs := (g.wx, g.wy, g.wz),
        rem := (g.gx % g.wx % 65536, g.gy % g.wy % 65536, g.gz % g.wz % 65536),
        off := (0, 0, 0),
        dims := if g.gz > 1 then 3 else if g.gy > 1 then 2 else 1 }

/-- `newCDNA3HiddenArgs(globalSize, localSize)` (block counts computed in 64 bits); a zero local size
    divides by zero -/
def hiddenOf (g : Geo) : Except String Hidden :=
  if g.wx = 0 ∨ g.wy = 0 ∨ g.wz = 0 then .error "div0" else
  .ok { bc := (C02.wgCount g.gx g.wx, C02.wgCount g.gy g.wy, C02.wgCount g.gz g.wz),
        gs := (g.wx, g.wy, g.wz),
        rem := (g.gx % g.wx % 65536, g.gy % g.wy % 65536, g.gz % g.wz % 65536),
        off := (0, 0, 0),
        dims := if g.gz > 1 then 3 else if g.gy > 1 then 2 else 1 }

/-- little-endian bytes of an `n`-byte unsigned field -/
def leBytes : Nat → Nat → List Nat
  | 0, _ => []
  | n + 1, v => v % 256 :: leBytes n (v / 256)

/-- field names and byte sizes of `CDNA3HiddenArgs` in declaration order (`binary.Write` packs
    them without padding). Regenerated from the Go source as `Gen.C08Geo.hiddenFields`. -/
def hiddenLayout : List (String × Nat) :=
  [("HiddenBlockCountX", 4), ("HiddenBlockCountY", 4), ("HiddenBlockCountZ", 4),
   ("HiddenGroupSizeX", 2), ("HiddenGroupSizeY", 2), ("HiddenGroupSizeZ", 2),
   ("HiddenRemainderX", 2), ("HiddenRemainderY", 2), ("HiddenRemainderZ", 2),
   ("Pad", 16),
   ("HiddenGlobalOffsetX", 8), ("HiddenGlobalOffsetY", 8), ("HiddenGlobalOffsetZ", 8),
   ("HiddenGridDims", 2)]

/-- byte offset of a named field in a packed layout -/
def offsetOf (name : String) : List (String × Nat) → Option Nat
  | [] => none
  | (n, sz) :: rest => if n = name then some 0 else (offsetOf name rest).map (· + sz)

def Hidden.field (h : Hidden) : String → Nat
  | "HiddenBlockCountX" => h.bc.1
  | "HiddenBlockCountY" => h.bc.2.1
  | "HiddenBlockCountZ" => h.bc.2.2
  | "HiddenGroupSizeX" => h.gs.1
  | "HiddenGroupSizeY" => h.gs.2.1
  | "HiddenGroupSizeZ" => h.gs.2.2
  | "HiddenRemainderX" => h.rem.1
  | "HiddenRemainderY" => h.rem.2.1
  | "HiddenRemainderZ" => h.rem.2.2
  | "HiddenGlobalOffsetX" => h.off.1
  | "HiddenGlobalOffsetY" => h.off.2.1
  | "HiddenGlobalOffsetZ" => h.off.2.2
  | "HiddenGridDims" => h.dims
  | _ => 0

/-- the 66 bytes `binary.Write(LittleEndian, CDNA3HiddenArgs)` produces -/
def hiddenBytes (h : Hidden) : List Nat := hiddenLayout.flatMap fun p => leBytes p.2 (h.field p.1)

/-- the implicit-argument block of the AMDGPU ABI for code object V5: name → (offset, size) -/
def abiHidden : List (String × Nat × Nat) :=
  [("hidden_block_count_x", 0, 4), ("hidden_block_count_y", 4, 4), ("hidden_block_count_z", 8, 4),
   ("hidden_group_size_x", 12, 2), ("hidden_group_size_y", 14, 2), ("hidden_group_size_z", 16, 2),
   ("hidden_remainder_x", 18, 2), ("hidden_remainder_y", 20, 2), ("hidden_remainder_z", 22, 2),
   ("hidden_global_offset_x", 40, 8), ("hidden_global_offset_y", 48, 8), ("hidden_global_offset_z", 56, 8),
   ("hidden_grid_dims", 64, 2)]

/-- Go field name of an ABI name -/
def goName : String → String
  | "hidden_block_count_x" => "HiddenBlockCountX"
  | "hidden_block_count_y" => "HiddenBlockCountY"
  | "hidden_block_count_z" => "HiddenBlockCountZ"
  | "hidden_group_size_x" => "HiddenGroupSizeX"
  | "hidden_group_size_y" => "HiddenGroupSizeY"
  | "hidden_group_size_z" => "HiddenGroupSizeZ"
  | "hidden_remainder_x" => "HiddenRemainderX"
  | "hidden_remainder_y" => "HiddenRemainderY"
  | "hidden_remainder_z" => "HiddenRemainderZ"
  | "hidden_global_offset_x" => "HiddenGlobalOffsetX"
  | "hidden_global_offset_y" => "HiddenGlobalOffsetY"
  | "hidden_global_offset_z" => "HiddenGlobalOffsetZ"
  | "hidden_grid_dims" => "HiddenGridDims"
  | s => s

/-- read an `n`-byte little-endian field at `off` -/
def readLE (bytes : List Nat) (off n : Nat) : Nat :=
  ((bytes.drop off).take n).foldr (fun b acc => b + 256 * acc) 0

/-- the size along one axis a V5 kernel derives for the work-group with id `i` from the hidden
    arguments: the last group is the partial one when a remainder exists -/
def hiddenSize (bc gs rem i : Nat) : Nat := if rem ≠ 0 ∧ i + 1 = bc then rem else gs

/-! ## the dispatch packet -/

/-- `kernels.HsaKernelDispatchPacket`, declaration order (regenerated as `Gen.C08Geo.packetFields`) -/
def packetLayout : List (String × Nat) :=
  [("Header", 2), ("Setup", 2), ("WorkgroupSizeX", 2), ("WorkgroupSizeY", 2), ("WorkgroupSizeZ", 2),
   ("reserverd0", 2), ("GridSizeX", 4), ("GridSizeY", 4), ("GridSizeZ", 4), ("PrivateSegmentSize", 4),
   ("GroupSegmentSize", 4), ("KernelObject", 8), ("KernargAddress", 8), ("reserved2", 8),
   ("CompletionSignal", 8)]

/-- `hsa_kernel_dispatch_packet_t` of the HSA runtime specification: name → offset -/
def aqlOffsets : List (String × Nat) :=
  [("Header", 0), ("Setup", 2), ("WorkgroupSizeX", 4), ("WorkgroupSizeY", 6), ("WorkgroupSizeZ", 8),
   ("GridSizeX", 12), ("GridSizeY", 16), ("GridSizeZ", 20), ("PrivateSegmentSize", 24),
   ("GroupSegmentSize", 28), ("KernelObject", 32), ("KernargAddress", 40), ("CompletionSignal", 56)]

/-! ## the driver's split in signed 64-bit arithmetic

Go's `int` is a 64-bit two's-complement integer: products wrap, `/` truncates toward zero,
comparisons are signed. Values are kept as their unsigned residues `< 2^64` (`u`), read as
signed by `sv`. Inside `Geo.NoWrap` this is `distI` (theorem `distS_eq_distI`). -/

def W64 : Nat := 18446744073709551616
def H63 : Nat := 9223372036854775808

/-- signed reading of a 64-bit residue -/
def sv (u : Nat) : Int := if u < H63 then (u : Int) else (u : Int) - (W64 : Int)

/-- residue of a signed value -/
def uv (i : Int) : Nat := (i % (W64 : Int)).toNat

def mulS (a b : Nat) : Nat := a * b % W64
def addS (a b : Nat) : Nat := (a + b) % W64

/-- `numWGX * numWGY * numWGZ` in `int` -/
def Geo.totalS (g : Geo) : Nat := mulS (mulS (nwgI g.gx g.wx) (nwgI g.gy g.wy)) (nwgI g.gz g.wz)

/-- `(totalWGCount + totalCUCount - 1) / totalCUCount`, Go division -/
def wgPerCUS (total sumCU : Nat) : Nat :=
  uv (Int.tdiv (sv (addS (addS total sumCU) (W64 - 1))) (sv sumCU))

/-- the cumulative ranges as 64-bit residues -/
def wgDistS (per : Nat) : List Nat → Nat → List Nat
  | [], acc => [acc]
  | c :: cs, acc => acc :: wgDistS per cs (addS acc (mulS c per))

/-- `distributeWGToGPUs` in `int`: fault or the cumulative ranges (signed values) -/
def distS (g : Geo) (cus : List Nat) : Except String (List Int) :=
  if g.wx = 0 ∨ g.wy = 0 ∨ g.wz = 0 ∨ cus.sum = 0 then .error "div0" else
  let dist := wgDistS (wgPerCUS g.totalS cus.sum) cus 0
  if sv dist.getLast! < sv g.totalS then .error "not_all_allocated" else .ok (dist.map sv)

/-- the closure: `IDZ*numWGX*numWGY + IDY*numWGX + IDX` in `int`, signed comparisons -/
def gpuFilterS (g : Geo) (dist : List Int) (i : Nat) (c : Coord) : Bool :=
  let nx := nwgI g.gx g.wx
  let ny := nwgI g.gy g.wy
  let f := sv (addS (addS (mulS (mulS c.2.2 nx) ny) (mulS c.2.1 nx)) c.1)
  decide (dist.getD i 0 ≤ f) && decide (f < dist.getD (i + 1) 0)

/-- GPUs that receive a launch request: `wgDist[i+1]-wgDist[i] != 0` -/
def launchedS (d : List Int) (n : Nat) : List Nat :=
  (List.range n).filter fun i => decide (d.getD (i + 1) 0 - d.getD i 0 ≠ 0)

/-! ## line protocol -/

def intStr (i : Int) : String := if i < 0 then "-" ++ toString i.natAbs else toString i.natAbs

def hexBytes (l : List Nat) : String := String.join (l.map (toHexPad 2))

def handleRegs (t : List String) : Option String :=
  match t with
  | "c08" :: "sgpr" :: _ => some (C02.handleInit t)
  | "c08" :: "hidden" :: _ =>
    match geoOf t with
    | some g =>
      match hiddenOf g with
      | .error e => some ("fault:" ++ e)
      | .ok h => some s!"b={hexBytes (hiddenBytes h)}"
    | none => some "bad"
  | "c08" :: "dist64" :: _ =>
    match geoOf t, cusOf t, (kv? t "probe").bind parse3 with
    | some g, some cus, some pr =>
      match distS g cus with
      | .error e => some ("fault:" ++ e)
      | .ok d =>
        let l := launchedS d cus.length
        let acc := l.filter fun i => gpuFilterS g d i pr
        some s!"d={joinWith "," (d.map intStr)} acc={if acc.isEmpty then "-" else distStr acc} launched={if l.isEmpty then "-" else distStr l}"
    | _, _, _ => some "bad"
  | _ => none

end C08
