import MgpuModel.C12_K
import MgpuModel.C12_Wake
/-!
# C12.E — the composed model: application threads + `runAsync` + engine goroutine + `Driver.Tick`

`C12.K` is the hand-off protocol (who signals whom, when a tick event is scheduled, when the engine
goroutine looks at the event queue); `C12.W` is Akita's sleep/wake rule with `Driver.Tick` as a list
of stages and a free flag `owed` ("an application thread has changed the queues and `runAsync`'s
`TickLater` has not happened yet"). Neither model says where `owed` comes from. Here both run in ONE
state:

* the protocol part is a `K.St` and moves by `K.step` (any number of application threads and queues);
* the engine handles the driver's tick event as ONE action (Akita's engine is serial: nothing else of
  the simulation runs inside an event; the finer interleaving of `Dequeue` / `NotifyAllSubscribers`
  with the application threads is what `K` itself covers): `passK` = `K.step .eng` repeated until the
  tick event is over;
* the component `Driver.Tick` works on is READ OFF the protocol state (`coreOf`): the command queues
  of `K` as queues of Noop commands (the commands `K`'s tick completes in `processNewCommand`), ports
  empty, delay line idle; the tick-scheduled flag of `W` IS `K`'s `evt`;
* `owed` is a ghost flag updated exactly as `W.step` does: set by the append of `Enqueue`
  (`W.Ev.enq`), cleared by `runAsync`'s `TickLater` (`W.Ev.kick`).

Theorems (`MgpuProofs/Props/C12_E2E.lean`): every run is a run of `K` (on `St.k`) AND a run of
`W.step` over the stages of `Driver.Tick` (on `sysOf`); `owed` implies `willSignal ∨ r = tick`.
-/
namespace C12
namespace E

structure St where
  k : K.St
  /-- ghost: `W.Sys.owed` -/
  owed : Bool := false
deriving DecidableEq, Repr

/-- the thread's next action is the append of `CommandQueue.Enqueue` -/
def isEnq (a : K.App) : Bool := match a.pc, a.script with
  | .idle, .enq _ :: _ => true
  | _, _ => false

/-- the rest of the tick event: engine steps while the engine is inside `Driver.Tick` -/
def passK : Nat → K.St → K.St
  | 0, k => k
  | n + 1, k =>
    if K.isTickPc k.e then (match K.step k .eng with | some k' => passK n k' | none => k) else k

/-- enough steps for one pass over all queues (`deq i` / `notify i` per queue, end of tick) -/
def fuel (k : K.St) : Nat := 2 * k.qs.length + 2

def step (s : St) : K.Th → Option St
  | .app j => match s.k.apps[j]? with
    | none => none
    | some a => (K.step s.k (.app j)).map fun k' => { k := k', owed := s.owed || isEnq a }
  | .async => (K.step s.k .async).map fun k' => { k := k', owed := s.owed && !(s.k.r == .tick) }
  | .eng => (K.step s.k .eng).map fun k' => { s with k := passK (fuel k') k' }

def init (scripts : List (List K.Op)) (nq : Nat) : St := { k := K.init scripts nq }

def runSched (s : St) : List K.Th → Option St
  | [] => some s
  | t :: ts => match step s t with
    | none => none
    | some s' => runSched s' ts

/-- reachable from an initial state whose scripts all end with a drain -/
inductive Reach : St → Prop
  | init (scripts : List (List K.Op)) (nq : Nat) (h : ∀ sc ∈ scripts, K.okScript sc = true) : Reach (init scripts nq)
  | step {s s' : St} (t : K.Th) : Reach s → step s t = some s' → Reach s'

/-! ### the driver component read off the protocol state -/

def qOf (q : K.Qu) : W.Drv.Q := { cmds := q.cmds.map fun _ => W.Drv.Cmd.noop }

def coreOf (k : K.St) : W.Drv.C := { d := { qs := k.qs.map qOf, cyc := none } }

/-- the state of `W.step`: the component, "a tick event is scheduled" = `K`'s `evt`, the ghost flag -/
def sysOf (s : St) : W.Sys W.Drv.D W.Drv.Rsp W.Drv.Req := { core := coreOf s.k, awake := s.k.evt, owed := s.owed }

/-- the engine is between events (never inside `Driver.Tick`) -/
def NoMid (s : St) : Prop := K.isTickPc s.k.e = false

def stuck (s : St) : Prop := ∀ t, step s t = none

/-- all maximal executions from `s` of length ≤ `n` end with every drain of every thread returned -/
def AllRunsFinish : Nat → St → Prop
  | 0, s => K.finished s.k
  | n + 1, s => K.finished s.k ∨ ((∃ t s', step s t = some s') ∧ ∀ t s', step s t = some s' → AllRunsFinish n s')

end E
end C12
