import MgpuModel.C12_K
import MgpuModel.C12_Wake
import MgpuModel.C12_Full
/-!
# C12.E — the composed model: application threads + `runAsync` + engine goroutine + `Driver.Tick`

`C12.K` is the hand-off protocol (who signals whom, when a tick event is scheduled, when the engine
goroutine looks at the event queue); `C12.W` is Akita's sleep/wake rule with `Driver.Tick` as a list
of stages and a free flag `owed` ("an application thread has changed the queues and `runAsync`'s
`TickLater` has not happened yet"). Neither model says where `owed` comes from. Here both run in ONE
state:

* the protocol part is a `K.St` and moves by `K.step` (any number of application threads and queues);
* the engine handles the driver's tick event as ONE action (Akita's engine is serial: nothing else of
  the simulation runs inside an event; the finer interleaving of `Dequeue` / `NotifyAllSubscribers`
  with the application threads is what `K` itself covers): `passK` = `K.step .eng` repeated until the
  tick event is over;
* the component `Driver.Tick` works on is READ OFF the protocol state (`coreOf`): the command queues
  of `K` as queues of Noop commands (the commands `K`'s tick completes in `processNewCommand`), ports
  empty, delay line idle; the tick-scheduled flag of `W` IS `K`'s `evt`;
* `owed` is a ghost flag updated exactly as `W.step` does: set by the append of `Enqueue`
  (`W.Ev.enq`), cleared by `runAsync`'s `TickLater` (`W.Ev.kick`).

Theorems (`MgpuProofs/Props/C12_E2E.lean`): every run is a run of `K` (on `St.k`) AND a run of
`W.step` over the stages of `Driver.Tick` (on `sysOf`); `owed` implies `willSignal ∨ r = tick`.
-/
namespace C12
namespace E

structure St where
  k : K.St
  /-- ghost: `W.Sys.owed` -/
  owed : Bool := false
deriving DecidableEq, Repr

/-- the thread's next action is the append of `CommandQueue.Enqueue` -/
def isEnq (a : K.App) : Bool := match a.pc, a.script with
  | .idle, .enq _ :: _ => true
  | _, _ => false

/-- the rest of the tick event: engine steps while the engine is inside `Driver.Tick` -/
def passK : Nat → K.St → K.St
  | 0, k => k
  | n + 1, k =>
    if K.isTickPc k.e then (match K.step k .eng with | some k' => passK n k' | none => k) else k

/-- enough steps for one pass over all queues (`deq i` / `notify i` per queue, end of tick) -/
def fuel (k : K.St) : Nat := 2 * k.qs.length + 2

def step (s : St) : K.Th → Option St
  | .app j => match s.k.apps[j]? with
    | none => none
    | some a => (K.step s.k (.app j)).map fun k' => { k := k', owed := s.owed || isEnq a }
  | .async => (K.step s.k .async).map fun k' => { k := k', owed := s.owed && !(s.k.r == .tick) }
  | .eng => (K.step s.k .eng).map fun k' => { s with k := passK (fuel k') k' }

def init (scripts : List (List K.Op)) (nq : Nat) : St := { k := K.init scripts nq }

def runSched (s : St) : List K.Th → Option St
  | [] => some s
  | t :: ts => match step s t with
    | none => none
    | some s' => runSched s' ts

/-- reachable from an initial state whose scripts all end with a drain -/
inductive Reach : St → Prop
  | init (scripts : List (List K.Op)) (nq : Nat) (h : ∀ sc ∈ scripts, K.okScript sc = true) : Reach (init scripts nq)
  | step {s s' : St} (t : K.Th) : Reach s → step s t = some s' → Reach s'

/-! ### the driver component read off the protocol state -/

def qOf (q : K.Qu) : W.Drv.Q := { cmds := q.cmds.map fun _ => W.Drv.Cmd.noop }

def coreOf (k : K.St) : W.Drv.C := { d := { qs := k.qs.map qOf, cyc := none } }

/-- the state of `W.step`: the component, "a tick event is scheduled" = `K`'s `evt`, the ghost flag -/
def sysOf (s : St) : W.Sys W.Drv.D W.Drv.Rsp W.Drv.Req := { core := coreOf s.k, awake := s.k.evt, owed := s.owed }

/-- the engine is between events (never inside `Driver.Tick`) -/
def NoMid (s : St) : Prop := K.isTickPc s.k.e = false

def stuck (s : St) : Prop := ∀ t, step s t = none

/-- all maximal executions from `s` of length ≤ `n` end with every drain of every thread returned -/
def AllRunsFinish : Nat → St → Prop
  | 0, s => K.finished s.k
  | n + 1, s => K.finished s.k ∨ ((∃ t s', step s t = some s') ∧ ∀ t s', step s t = some s' → AllRunsFinish n s')

/-! ## C12.E.N — the same ghost flag on `K`'s own (non-atomic) steps
`E` handles the tick event as one action. Here the engine moves by `K.step .eng` itself — `Dequeue`
(removal) and `NotifyAllSubscribers` are separate actions that interleave with the application
threads, exactly as in `C12.K` — and `owed` is updated as in `E`. Every run of `E` is a run of `N`. -/
namespace N

def step (s : St) : K.Th → Option St
  | .eng => (K.step s.k .eng).map fun k' => { s with k := k' }
  | t => E.step s t

def runSched (s : St) : List K.Th → Option St
  | [] => some s
  | t :: ts => match step s t with
    | none => none
    | some s' => runSched s' ts

inductive Reach : St → Prop
  | init (scripts : List (List K.Op)) (nq : Nat) (h : ∀ sc ∈ scripts, K.okScript sc = true) : Reach (E.init scripts nq)
  | step {s s' : St} (t : K.Th) : Reach s → step s t = some s' → Reach s'

end N

/-! ## C12.E.G — the same composition with ANY commands and the GPU port

`E` reads the component off the protocol state, which is only possible for commands that complete
when they are started. Here the component `Driver.Tick` works on (`W.Drv.C`: queues of Noop / kernel
commands with `IsRunning` and the outstanding-request count, `requestsToSend`, the memory-copy
timer, both buffers of the GPU port) is part of the state; the protocol part is still a `K.St` moved
by `K.step` for the application threads, `runAsync` and the engine goroutine outside the tick event —
its `qs` are the ids of the commands queued in the component (`Sync`), which is what
`DrainCommandQueue` tests. The tick event is `W.runStages (W.Drv.stages outCap)`; the commands it
dequeued are dequeued in the id queues (`syncQs`) and the subscribers of those queues are notified
(`notifyChanged`). Two more actors: the connection delivers a `LaunchKernelRsp` / retrieves a request
(`W.step .deliver/.retrieve`) — connections are components of the same serial engine, so they act only
while the engine goroutine is inside `Run`, between events (`e = loop`). With kernels a queue can be non-empty while the driver rightly sleeps
(waiting for the GPU), so `K`'s invariant does not hold here — the link `owed ⇒ willSignal ∨ r = tick`
and the refinement to `W.step` do. -/
namespace G

structure St where
  k : K.St
  core : W.Drv.C
  owed : Bool := false

inductive Th
  | app (j : Nat) | async | eng
  | deliver (m : W.Drv.Rsp)     -- the connection delivers a `LaunchKernelRsp`
  | retrieve                    -- the connection takes a request from the GPU port
deriving DecidableEq, Repr

/-- the id queue after the component's queue shrank to `w`: the completed commands are dequeued -/
def syncQ (q : K.Qu) (w : W.Drv.Q) : K.Qu := Nat.repeat K.deqQu (q.cmds.length - w.cmds.length) q
def syncQs (qs : List K.Qu) (ws : List W.Drv.Q) : List K.Qu := List.zipWith syncQ qs ws

/-- `NotifyAllSubscribers` of every queue a command was dequeued from -/
def notifyChanged : Nat → List K.Qu → List W.Drv.Q → List K.App → List K.App
  | i, q :: qs, w :: ws, apps =>
    notifyChanged (i + 1) qs ws (if w.cmds.length < q.cmds.length then K.notifyAll i apps else apps)
  | _, _, _, apps => apps

/-- the queue of the thread's next call -/
def enqTarget (a : K.App) : Nat := match a.script with
  | .enq q :: _ => q
  | _ => 0

/-- `kind id` = the command an `Enqueue` with ghost id `id` appends (any assignment) -/
def step (kind : Nat → W.Drv.Cmd) (inCap outCap : Nat) (s : St) : Th → Option St
  | .app j => match s.k.apps[j]? with
    | none => none
    | some a => (K.step s.k (.app j)).map fun k' =>
        if isEnq a then { k := k', core := { s.core with d := W.Drv.enqCmd (enqTarget a) (kind s.k.nextId) s.core.d }, owed := true }
        else { s with k := k' }
  | .async => (K.step s.k .async).map fun k' => { s with k := k', owed := s.owed && !(s.k.r == .tick) }
  | .eng =>
    if s.k.e = .loop ∧ s.k.evt = true then
      let r := W.runStages (W.Drv.stages outCap) s.core
      some { s with core := r.1,
                    k := { s.k with evt := r.2, qs := syncQs s.k.qs r.1.d.qs,
                                    apps := notifyChanged 0 s.k.qs r.1.d.qs s.k.apps } }
    else if K.isTickPc s.k.e then none
    else (K.step s.k .eng).map fun k' => { s with k := k' }
  | .deliver m =>
    if s.k.e = .loop ∧ s.core.inb.length < inCap then
      some { s with core := { s.core with inb := s.core.inb ++ [m] },
                    k := { s.k with evt := s.k.evt || s.core.inb.isEmpty } }
    else none
  | .retrieve =>
    if s.k.e = .loop then
      match s.core.outb with
      | [] => none
      | _ :: rest => some { s with core := { s.core with outb := rest },
                                   k := { s.k with evt := s.k.evt || (s.core.outb.length == outCap) } }
    else none

/-- `E` inside `G`: the component read off the protocol state, put into the state -/
def emb (s : E.St) : St := { k := s.k, core := coreOf s.k, owed := s.owed }

def ofTh : K.Th → Th
  | .app j => .app j | .async => .async | .eng => .eng

/-- `NotifyAllSubscribers` of every non-empty queue from number `i` on (what one pass of `K`'s tick does) -/
def notifyNE : Nat → List K.Qu → List K.App → List K.App
  | _, [], apps => apps
  | i, q :: qs, apps => notifyNE (i + 1) qs (if q.cmds = [] then apps else K.notifyAll i apps)

def init (scripts : List (List K.Op)) (nq : Nat) : St :=
  { k := K.init scripts nq, core := { d := { qs := List.replicate nq {}, cyc := none } } }

def runSched (kind : Nat → W.Drv.Cmd) (inCap outCap : Nat) (s : St) : List Th → Option St
  | [] => some s
  | t :: ts => match step kind inCap outCap s t with
    | none => none
    | some s' => runSched kind inCap outCap s' ts

inductive Reach (kind : Nat → W.Drv.Cmd) (inCap outCap : Nat) : St → Prop
  | init (scripts : List (List K.Op)) (nq : Nat) (h : ∀ sc ∈ scripts, K.okScript sc = true) : Reach kind inCap outCap (init scripts nq)
  | step {s s' : St} (t : Th) : Reach kind inCap outCap s → step kind inCap outCap s t = some s' → Reach kind inCap outCap s'

def sysOf (s : St) : W.Sys W.Drv.D W.Drv.Rsp W.Drv.Req := { core := s.core, awake := s.k.evt, owed := s.owed }

/-- the id queues mirror the component's queues: same number of queues, same number of commands -/
def Sync (s : St) : Prop := s.k.qs.map (fun q => q.cmds.length) = s.core.d.qs.map (fun q => q.cmds.length)
instance (s : St) : Decidable (Sync s) := by unfold Sync; exact inferInstance

end G

/-! ## C12.E.F — the composition with ALL seven stages of `Driver.Tick` and both ports (`W.Full`)

Same construction as `G` with the component of `C12.W.Full`: Noop / kernel / H2D / D2H / magic-copy /
flush commands, the shared delay line, the page-migration handshake, the GPU port with the GPU side
as ghost `ext` (answers are answers to requests really sent), the MMU port. Everything the component
does is done BY `W.Full.step` on `sysOf s` and written back (`put`): the append of `Enqueue` is
`Full.Ev.enq`, `runAsync`'s `TickLater` is `.kick`, the tick event is `.tick`, the connections are
`.retrieveG` / `.answer j` / `.deliverM r` / `.retrieveM`. The protocol part moves by `K.step`; its
id queues follow the component's queues (`Sync`). -/
namespace F

structure St where
  k : K.St
  core : W.Full.C
  ext : List W.Full.GReq := []
  owed : Bool := false

inductive Th
  | app (j : Nat) | async | eng
  | env (ev : W.Full.Ev)      -- the GPU side / the MMU side (`envOk`)

def sysOf (s : St) : W.Full.Sys := { core := s.core, awake := s.k.evt, owed := s.owed, ext := s.ext }

/-- write back what `W.Full.step` did (the tick-scheduled flag is `K`'s `evt`) -/
def put (k : K.St) (y : W.Full.Sys) : St :=
  { k := { k with evt := y.awake }, core := y.core, ext := y.ext, owed := y.owed }

def syncN (q : K.Qu) (n : Nat) : K.Qu := Nat.repeat K.deqQu (q.cmds.length - n) q
def lens (c : W.Full.C) : List Nat := c.d.qs.map fun q => q.cmds.length

def notifyN : Nat → List K.Qu → List Nat → List K.App → List K.App
  | i, q :: qs, n :: ns, apps => notifyN (i + 1) qs ns (if n < q.cmds.length then K.notifyAll i apps else apps)
  | _, _, _, apps => apps

/-- what the connections do (no injected foreign message; enqueues and kicks belong to the threads) -/
def envOk : W.Full.Ev → Bool
  | .retrieveG => true | .answer _ => true | .deliverM _ => true | .retrieveM => true | _ => false

def step (kind : Nat → W.Full.Cmd) (caps : W.Full.Caps) (s : St) : Th → Option St
  | .app j => match s.k.apps[j]? with
    | none => none
    | some a => (K.step s.k (.app j)).map fun k' =>
        if isEnq a then put k' (W.Full.step caps (sysOf s) (.enq (G.enqTarget a) (kind s.k.nextId)))
        else { s with k := k' }
  | .async => (K.step s.k .async).map fun k' =>
      if s.k.r = .tick then put k' (W.Full.step caps (sysOf s) .kick) else { s with k := k' }
  | .eng =>
    if s.k.e = .loop ∧ s.k.evt = true then
      let y := W.Full.step caps (sysOf s) .tick
      some { k := { s.k with evt := y.awake, qs := List.zipWith syncN s.k.qs (lens y.core),
                             apps := notifyN 0 s.k.qs (lens y.core) s.k.apps },
             core := y.core, ext := y.ext, owed := y.owed }
    else if K.isTickPc s.k.e then none
    else if s.k.e = .loop ∧ (s.core.outb ≠ [] ∨ s.ext ≠ []) then none   -- `Run` does not return while a connection has an event pending
    else (K.step s.k .eng).map fun k' => { s with k := k' }
  | .env ev => if envOk ev = true ∧ s.k.e = .loop then some (put s.k (W.Full.step caps (sysOf s) ev)) else none

def init (cfg : W.Full.Cfg) (scripts : List (List K.Op)) : St :=
  { k := K.init scripts cfg.ctxs.length, core := (W.Full.init cfg).core }

def runSched (kind : Nat → W.Full.Cmd) (caps : W.Full.Caps) (s : St) : List Th → Option St
  | [] => some s
  | t :: ts => match step kind caps s t with
    | none => none
    | some s' => runSched kind caps s' ts

inductive Reach (kind : Nat → W.Full.Cmd) (caps : W.Full.Caps) : St → Prop
  | init (cfg : W.Full.Cfg) (scripts : List (List K.Op)) (h : ∀ sc ∈ scripts, K.okScript sc = true) :
      Reach kind caps (init cfg scripts)
  | step {s s' : St} (t : Th) : Reach kind caps s → step kind caps s t = some s' → Reach kind caps s'

def Sync (s : St) : Prop := s.k.qs.map (fun q => q.cmds.length) = lens s.core
instance (s : St) : Decidable (Sync s) := by unfold Sync; exact inferInstance

/-- no actor can move: no application thread, not `runAsync`, not the engine goroutine, no connection -/
def stuck (kind : Nat → W.Full.Cmd) (caps : W.Full.Caps) (s : St) : Prop := ∀ t, step kind caps s t = none

/-- a move that is not a connection stuttering: any step of an application thread, `runAsync` or the
    engine goroutine (a tick event handled is a real `Driver.Tick`), or a connection step that takes
    a request from the port / delivers an answer -/
def realMove (s s' : St) : Th → Prop
  | .env _ => s'.core.outb.length ≠ s.core.outb.length ∨ s'.ext.length ≠ s.ext.length
  | _ => True

end F

end E
end C12
