import MgpuModel.C02Wf
import MgpuModel.C14_Arb
/-!
C02 (third deepening) — the `issue` event of the wavefront machine, driven by the real issue path.

`C02.Wf.tstep … .issue` lets a wavefront issue when it is `WfReady`, holds a decoded instruction and an
arbitrary `gate` says yes. Here the gate is replaced by what the compute unit really does each cycle:
`IssueArbiter.Arbitrate` over the SIMD wavefront pools followed by the loop of `SchedulerImpl.DoIssue`
(model `C14.Arb.arbitrate` / `C14.Arb.doIssue`, tied to the real code by the `c14 arb` cases).

* `view` — what the arbiter reads of a wavefront of the machine (`wf.State`, `wf.InstToIssue`,
  `InstToIssue.ExeUnit`, the scoreboard's answer),
* `poolsOf` — the pools of a compute-unit state under a layout (which wavefront sits in which SIMD pool),
* `cycleEvs` — the `issue` events one `DoIssue` produces,
* `schedRun` — the compute unit where `issue` events come ONLY from `DoIssue`; everything else
  (fetch, decode, units, memory) stays free.
-/
namespace C02.Arb
open Util C02.Wf C14.Arb

/-- `InstToIssue.ExeUnit` (`insts.ExeUnit`: 0 VALU, 1 scalar, 2 vector memory, 3 branch, 4 LDS, 6 special) -/
def unitOf : Kind → Nat
  | .alu 0 => 1
  | .alu 2 => 4
  | .alu _ => 0
  | .branch => 3
  | .vload => 2
  | .vstore => 2
  | .sload => 1
  | .wait _ _ => 6
  | .nop => 6
  | .endpgm => 6

/-- `wf.State` (`wavefront.WfState`: 1 Ready, 2 Running, 3 Completed) -/
def stateCode : Phase → Nat
  | .ready => 1
  | .issued => 2
  | .executed => 2
  | .done => 3

/-- what `Arbitrate` reads of wavefront `id`; `hz` = `scoreboardEnabled && HasHazard(InstToIssue)` -/
def view (id : Nat) (hz : Bool) (s : TState) : AWf :=
  { id := id, state := stateCode s.ph, hasInst := s.toIssue.isSome,
    unit := match s.toIssue with
      | some i => unitOf i.kind
      | none => 0
    hazard := hz }

/-- `cu.WfPools` of the compute-unit state `c`: `layout` lists, per SIMD, the wavefronts (indices into
    `c`) in pool order; a wavefront in no pool (not yet dispatched) is not seen by the arbiter -/
def poolsOf (c : List TState) (hz : Nat → Bool) (layout : List (List Nat)) : List (List AWf) :=
  layout.map fun p => p.filterMap fun id => (c[id]?).map (view id (hz id))

/-- the machine events of the acts of one `DoIssue`: `issueToInternal` and the hand-over to a unit are
    both the `issue` event (wavefront `WfRunning`, `DynamicInst` set, "inst" task started); a refused
    wavefront is left alone -/
def actEvs : List Act → List (Nat × Ev)
  | [] => []
  | .internal id :: r => (id, .issue) :: actEvs r
  | .unit id _ :: r => (id, .issue) :: actEvs r
  | .refused _ :: r => actEvs r

/-- one issue cycle of the compute unit: round-robin pointer, pool layout, scoreboard answers and the
    wavefronts already waiting in each unit are whatever they are -/
structure Cycle where
  last : Nat
  layout : List (List Nat)
  hz : Nat → Bool
  load : Nat → Nat

/-- the acts of one `DoIssue` in compute-unit state `c` -/
def cycleActs (cap : Nat → Nat) (c : List TState) (y : Cycle) : List Act :=
  doIssue cap (arbitrate y.last (poolsOf c y.hz y.layout)).1 y.load

/-- the `issue` events of one `DoIssue` in compute-unit state `c` -/
def cycleEvs (cap : Nat → Nat) (c : List TState) (y : Cycle) : List (Nat × Ev) :=
  actEvs (cycleActs cap c y)

/-- a step of the compute unit under the real scheduler -/
inductive Step where
  /-- any event of any wavefront except `issue` -/
  | ev (w : Nat) (e : Ev)
  /-- one `DoIssue` -/
  | cycle (y : Cycle)

def isIssue : Ev → Bool
  | .issue => true
  | _ => false

/-- the most permissive gate: the machine every other gate restricts -/
def anyGate : TState → Inst → Bool := fun _ _ => true

/-- the compute unit where `issue` happens only inside `DoIssue`: final state and the flat event
    sequence; `none` = some event was refused by the machine's rules -/
def schedRun (Ps : List Prog) (cap : Nat → Nat) : List TState → List Step → Option (List TState × List (Nat × Ev))
  | c, [] => some (c, [])
  | c, .ev w e :: r =>
    if isIssue e then none else
    match custep Ps anyGate c (w, e) with
    | none => none
    | some c' => (schedRun Ps cap c' r).map fun x => (x.1, (w, e) :: x.2)
  | c, .cycle y :: r =>
    match curun Ps anyGate c (cycleEvs cap c y) with
    | none => none
    | some c' => (schedRun Ps cap c' r).map fun x => (x.1, cycleEvs cap c y ++ x.2)

/-- a layout names each wavefront at most once and only wavefronts that have a program -/
def layoutOK (Ps : List Prog) (layout : List (List Nat)) : Prop :=
  layout.flatten.Nodup ∧ ∀ id ∈ layout.flatten, id < Ps.length

/-- `DoIssue` applied to one wavefront: `DynamicInst := InstToIssue; InstToIssue := nil; WfRunning`,
    "inst" task logged at the current PC -/
def issueNow (s : TState) : TState :=
  match s.toIssue with
  | some i => { s with cur := some i, toIssue := none, ph := .issued, trace := s.trace ++ [s.pc] }
  | none => s

/-- a wavefront state without the shared-memory copy it carries -/
def noMem (s : TState) : TState := { s with mem := fun _ => 0 }

/-- the wavefronts the acts of a `DoIssue` moved (internal or to a unit) -/
def movedIds : List Act → List Nat
  | [] => []
  | .internal id :: r => id :: movedIds r
  | .unit id _ :: r => id :: movedIds r
  | .refused _ :: r => movedIds r

/-! ### `c02 arb last=<k> pools=<id:ph:inst,...|...> load=<n0,..,n5>`

One real `DoIssue` on a real compute unit whose wavefronts hold really decoded instructions of the
concrete set (`harness/c02_zarb.go`). The machine states are built from the line, the pools derived
with `poolsOf`, the answer is `cycleActs` in the format of `c14 arb mode=d`. -/

def parseWf (s : String) : Option (Nat × TState) :=
  match s.splitOn ":" with
  | [id, ph, inst] => do
    let id ← id.toNat?
    let ph ← (match ph with
      | "r" => some Phase.ready
      | "x" => some Phase.issued
      | "d" => some Phase.done
      | _ => none)
    let ti ← (if inst = "-" then some none else (parseCInst inst).map fun ci => some (compile ci))
    pure (id, { pc := 0, regs := fun _ => 0, mem := fun _ => 0, ph := ph, toIssue := ti })
  | _ => none

def parsePoolWf (s : String) : Option (List (Nat × TState)) :=
  if s = "-" || s = "" then some [] else (s.splitOn ",").mapM parseWf

def handleArb (toks : List String) : String :=
  match kvNat? toks "last", (kv? toks "pools").bind (fun s => (s.splitOn "|").mapM parsePoolWf),
        (kv? toks "load").bind natList? with
  | some last, some pools, some load =>
    let all := pools.flatten
    let c := (List.range all.length).map fun i => (all.lookup i).getD (tinit 0 (fun _ => 0) (fun _ => 0))
    let y : Cycle := { last := last, layout := pools.map (·.map (·.1)), hz := fun _ => false, load := fun u => load.getD u 0 }
    let acts := cycleActs unitCap c y
    let ints := acts.filterMap (fun x => match x with | .internal i => some i | _ => none)
    let runs := (acts.filterMap (fun x => match x with | .unit i _ => some i | _ => none)).foldl
      (fun acc i => insertSorted i acc) []
    s!"int={idsOr ints} run={idsOr runs} last={(arbitrate last (poolsOf c y.hz y.layout)).2}"
  | _, _, _ => "bad"

end C02.Arb
