import MgpuModel.Util
import MgpuModel.C12
/-!
# C05.T — the driver / runAsync / runEngine hand-off WITH SIMULATED TIME

`C12.step` is the interleaving model of the (repaired) hand-off protocol between the application
thread, `Driver.runAsync` and `Driver.runEngine`; it says which thread may do what, and property C12
proves that every interleaving terminates. Reproducibility (C05) asks more: that every interleaving
produces the SAME simulation. This file adds what the protocol model leaves out — the engine's
clock — as a thin layer over `C12.step`:

* `now`   — `SerialEngine.now`, in cycles of the driver (`Freq.NextTick(now) = now + 1`);
* `next`  — `TickScheduler.nextTickTime` of the driver (0 stands for the initial `-1`);
* `TickLater()` = `if next ≥ now + 1 then nothing else next := now + 1; schedule a tick at next`,
  called by `runAsync` (between `Engine.Pause()` and `Engine.Continue()`) and by
  `TickingComponent.Handle` after a tick that made progress;
* the engine pops the (only) queued tick event: `now := next`;
* ghost `ctimes`: (command id, `now` of the tick that dequeued it); ghost `ticks`: event times.

`T.step s t` is `C12.step s.p t` plus this bookkeeping, so the timed model has exactly the
interleavings of the protocol model (`T.step_proj`, `T.step_lift` in `MgpuProofs/C05Sched.lean`).
The harness (`harness/c05_deep.go`) drives the REAL driver and serial engine through gate-level
schedules and compares state and engine time after every move with `T.runTrace` (`c05 tsched`).

`KL` is a ghost layer over `C12.K.step` (k application threads × m queues) that logs which queue
each dequeue served, used for the witness that two application threads break reproducibility.
-/
namespace C05
namespace T
open C12 (APc RPc EPc Th)

structure St where
  /-- the protocol state -/
  p : C12.St := {}
  /-- `SerialEngine.now`, in driver cycles -/
  now : Nat := 0
  /-- the driver's `TickScheduler.nextTickTime` (0 = nothing scheduled yet) -/
  next : Nat := 0
  /-- ghost: (command id, cycle of the tick event that dequeued it), in completion order -/
  ctimes : List (Nat × Nat) := []
  /-- ghost: the times of the driver tick events the engine has popped -/
  ticks : List Nat := []
deriving DecidableEq, Repr

/-- `TickScheduler.TickLater` -/
def tickLater (now next : Nat) : Nat := if next ≥ now + 1 then next else now + 1

/-- the time bookkeeping of one protocol step (`p'` is the protocol state after it) -/
def advance (s : St) (t : Th) (p' : C12.St) : St :=
  match t with
  | .app => { s with p := p' }
  | .async =>
    match s.p.r with
    | .tick => { s with p := p', next := tickLater s.now s.next }   -- Pause; TickLater; Continue
    | _ => { s with p := p' }
  | .eng =>
    match s.p.e with
    | .loop =>               -- `SerialEngine.Run`: pop the tick event, `now := evt.Time()`
      if s.p.evt then { s with p := p', now := s.next, ticks := s.ticks ++ [s.next] } else { s with p := p' }
    | .deq =>                -- `Driver.Tick` → `processNewCommand` → `Dequeue` of the head
      match s.p.cmds with
      | [] => { s with p := p' }
      | c :: _ => { s with p := p', ctimes := s.ctimes ++ [(c, s.now)] }
    | .notify =>             -- end of a tick that made progress: `TickLater()`
      { s with p := p', next := tickLater s.now s.next }
    | _ => { s with p := p' }

/-- one atomic step of thread `t`: the protocol step plus the clock -/
def step (s : St) (t : Th) : Option St :=
  match C12.step s.p t with
  | none => none
  | some p' => some (advance s t p')

def init (rounds : List Nat) : St := { p := C12.init rounds }

def runSched (s : St) : List Th → Option St
  | [] => some s
  | t :: ts => match step s t with
    | none => none
    | some s' => runSched s' ts

/-- reachable from an initial state -/
inductive Reach : St → Prop
  | init (rounds : List Nat) : Reach (init rounds)
  | step {s s' : St} (t : Th) : Reach s → step s t = some s' → Reach s'

/-- the system is at rest: `runAsync` in its `select`, no engine goroutine -/
def quiescent (s : St) : Prop := s.p.r = .idle ∧ s.p.e = .none
instance (s : St) : Decidable (quiescent s) := by unfold quiescent; exact inferInstance

/-- a step the QUIESCENT-CALL discipline allows: the application thread starts an API call
    (`Enqueue`, `DrainCommandQueue`) only when the system is at rest -/
def qAllowed (s : St) (t : Th) : Prop := t = .app → s.p.a = .idle → quiescent s
instance (s : St) (t : Th) : Decidable (qAllowed s t) := by unfold qAllowed; exact inferInstance

/-- schedules that respect the quiescent-call discipline -/
def runQ (s : St) : List Th → Option St
  | [] => some s
  | t :: ts => if qAllowed s t then
      (match step s t with
       | none => none
       | some s' => runQ s' ts)
    else none

/-- completion times of a script run round by round, each round started at rest at time `n`:
    the `k` commands of a round complete at `n+1 … n+k`, the tick at `n+k+1` finds nothing to do -/
def specTimes : Nat → Nat → List Nat → List (Nat × Nat)
  | _, _, [] => []
  | n, id, k :: ks => (List.range k).map (fun i => (id + i, n + 1 + i)) ++ specTimes (n + k + 1) (id + k) ks

/-! ### gate-level view (one harness move = `step` iterated to the next park point) -/

def settle : Nat → St → Th → St
  | 0, s, _ => s
  | n + 1, s, t => if C12.parkedPc s.p t then s else
      match step s t with
      | none => s
      | some s' => settle n s' t

def macroStep (s : St) (t : Th) : Option St :=
  match step s t with
  | none => none
  | some s' => some (settle 8 s' t)

def showSt (s : St) : String := s!"{C12.showSt s.p}@{s.now}"

def runTrace (s : St) : List String → List String → List String
  | [], acc => acc.reverse
  | w :: ws, acc =>
    match C12.parseTh w with
    | none => ("bad" :: acc).reverse
    | some t =>
      match macroStep s t with
      | none => runTrace s ws ("-" :: acc)
      | some s' => runTrace s' ws (showSt s' :: acc)

end T

/-! ## k application threads: which queue each dequeue served (ghost log over `C12.K.step`) -/
namespace KL
open C12.K (Th EPc)

structure St where
  k : C12.K.St := {}
  /-- ghost: queue index of every dequeue, in the order the engine performed them -/
  log : List Nat := []
deriving DecidableEq, Repr

def step (s : St) (t : Th) : Option St :=
  match C12.K.step s.k t with
  | none => none
  | some k' =>
    match t, s.k.e with
    | .eng, .deq i => if i < s.k.qs.length ∧ C12.K.cmdsOf s.k i ≠ [] then some { k := k', log := s.log ++ [i] }
                      else some { s with k := k' }
    | _, _ => some { s with k := k' }

def init (scripts : List (List C12.K.Op)) (nq : Nat) : St := { k := C12.K.init scripts nq }

def runSched (s : St) : List Th → Option St
  | [] => some s
  | t :: ts => match step s t with
    | none => none
    | some s' => runSched s' ts

end KL
end C05
