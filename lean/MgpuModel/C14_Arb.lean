import MgpuModel.Util
/-! # C14 — who may issue: `IssueArbiter.Arbitrate` and `SchedulerImpl.DoIssue`

Hand transcription of `amd/timing/cu/issuearbiter.go` (`Arbitrate`: SIMD pools in round-robin order
starting at `lastSIMDID`, inside a pool oldest first, only wavefronts that are `WfReady`, have a
decoded instruction and — with the register scoreboard — no operand hazard, at most one wavefront per
execution-unit type and pool; `lastSIMDID` advances unless all pools are empty) and of the loop of
`DoIssue` (`ExeUnitSpecial` goes to `issueToInternal`, anything else to its decode unit when that
can accept a wavefront: at most 4 per unit and cycle; the wavefront becomes `WfRunning`).

The scoreboard itself (`Scoreboard.HasHazard`) is a Boolean per wavefront here. -/
namespace C14.Arb
open Util

/-- a wavefront as the arbiter sees it -/
structure AWf where
  id : Nat
  /-- `WfState` code (1 = `WfReady`) -/
  state : Nat
  /-- `InstToIssue != nil` -/
  hasInst : Bool
  /-- `InstToIssue.ExeUnit` (6 = `ExeUnitSpecial`) -/
  unit : Nat
  /-- `scoreboardEnabled && ScoreboardData != nil && HasHazard(InstToIssue)` -/
  hazard : Bool
deriving Repr, DecidableEq

/-- the arbiter's test of one wavefront -/
def eligible (w : AWf) : Bool := w.state == 1 && w.hasInst && !w.hazard

/-- one pool: oldest first, `typeMask` = the unit types already taken -/
def pickPool : List AWf → List Nat → List AWf
  | [], _ => []
  | w :: rest, mask =>
    if eligible w && !mask.contains w.unit then w :: pickPool rest (w.unit :: mask)
    else pickPool rest mask

/-- `Arbitrate`: the chosen wavefronts and the new `lastSIMDID` -/
def arbitrate (last : Nat) (pools : List (List AWf)) : List AWf × Nat :=
  if pools.all (·.isEmpty) then ([], last)
  else
    ((List.range pools.length).flatMap (fun i => pickPool (pools.getD ((last + i) % pools.length) []) []),
     (last + 1) % pools.length)

/-- what `DoIssue` does with one chosen wavefront -/
inductive Act where
  /-- `issueToInternal` -/
  | internal (id : Nat)
  /-- handed to the decode unit of its type; `WfRunning` -/
  | unit (id u : Nat)
  /-- the unit cannot accept a wavefront: stays Ready, keeps its instruction -/
  | refused (id : Nat)
deriving Repr, DecidableEq

/-- the loop of `DoIssue`; `load u` = wavefronts already waiting in the unit of type `u`
    (`CanAcceptWave` = fewer than `cap u`) -/
def doIssue (cap : Nat → Nat) : List AWf → (Nat → Nat) → List Act
  | [], _ => []
  | w :: rest, load =>
    if w.unit = 6 then .internal w.id :: doIssue cap rest load
    else if load w.unit < cap w.unit then
      .unit w.id w.unit :: doIssue cap rest (fun u => if u = w.unit then load u + 1 else load u)
    else .refused w.id :: doIssue cap rest load

/-! ### `c14 arb mode=<a|d> last=<k> pools=<id:state:inst:unit:hazard,...|...> load=<n0,..,n5>`

`mode=a` (`Arbitrate`): the chosen ids in order and the new `lastSIMDID`. `mode=d` (`DoIssue`): the
wavefronts handed to `issueToInternal` in order, the wavefronts that became Running in a unit
(sorted by id), the new `lastSIMDID`. Decode units hold 4 wavefronts, the branch unit 1. -/

def parseAWf (s : String) : Option AWf :=
  match s.splitOn ":" with
  | [id, st, inst, unit, hz] => do
    pure { id := ← id.toNat?, state := ← st.toNat?, hasInst := (← inst.toNat?) != 0, unit := ← unit.toNat?,
           hazard := (← hz.toNat?) != 0 }
  | _ => none

def parsePool (s : String) : Option (List AWf) :=
  if s = "-" || s = "" then some [] else (s.splitOn ",").mapM parseAWf

/-- `CanAcceptWave`: the decode units take 4 wavefronts, the branch unit (type 3) one -/
def unitCap (u : Nat) : Nat := if u = 3 then 1 else 4

def insertSorted (x : Nat) : List Nat → List Nat
  | [] => [x]
  | y :: l => if x ≤ y then x :: y :: l else y :: insertSorted x l

def idsOr (l : List Nat) : String := if l.isEmpty then "-" else joinWith "," (l.map toString)

def handle (toks : List String) : String :=
  match kvNat? toks "last", (kv? toks "pools").bind (fun s => (s.splitOn "|").mapM parsePool),
        (kv? toks "load").bind natList? with
  | some last, some pools, some load =>
    let r := arbitrate last pools
    if kv? toks "mode" == some "a" then
      s!"chosen={idsOr (r.1.map (·.id))} last={r.2}"
    else
      let acts := doIssue unitCap r.1 (fun u => load.getD u 0)
      let ints := acts.filterMap (fun x => match x with | .internal i => some i | _ => none)
      let runs := (acts.filterMap (fun x => match x with | .unit i _ => some i | _ => none)).foldl
        (fun acc i => insertSorted i acc) []
      s!"int={idsOr ints} run={idsOr runs} last={r.2}"
  | _, _, _ => "bad"

end C14.Arb
