import MgpuModel.C12
/-!
# C12.M — memory effects of queued commands (abstract store)

A layer over `C12.Q` (the sequential, correspondence-tested model of `Driver.processNewCommand` /
`processLaunchKernelReturn` over any number of queues): every command id has an abstract memory
effect `eff id : Store → Store`; whenever `Q.step` completes a command (appends it to a queue's
`done` log) its effect is applied to the shared store and `(queue, id)` is appended to the global
completion log. One tick may complete one command in each of several queues, in queue order.

The effect of a kernel is attributed to its completion point (`rsp`); any point between its start
and its completion gives the same per-queue order, because a queue has at most one started,
not yet completed command (`Q.fifo`).
-/
namespace C12
namespace M

/-- abstract memory: cell → value -/
abbrev Store := Nat → Nat
/-- command id → its effect on the memory -/
abbrev Eff := Nat → Store → Store

structure St where
  q : Q.St
  store : Store
  /-- ghost: global completion log, `(queue index, command id)` in the order the effects were applied -/
  log : List (Nat × Nat) := []

/-- the id queue number `i` (state `q`) completes under `op`, if any -/
def completes (op : Q.Op) (i : Nat) (q : Q.Queue) : Option Nat :=
  match op with
  | .enq _ _ => none
  | .tick => match q.cmds with
    | [] => none
    | c :: _ => if q.running then none else match c.kind with
      | .noop => some c.id
      | .kern => none
  | .rsp j => if j = i then (match q.cmds with
      | [] => none
      | c :: _ => if q.running then some c.id else none) else none

/-- the completions of one step, in queue order (`k` = index of the first queue of the list) -/
def newly (op : Q.Op) : Nat → List Q.Queue → List (Nat × Nat)
  | _, [] => []
  | k, q :: rest => (match completes op k q with | some c => [(k, c)] | none => []) ++ newly op (k + 1) rest

def applyLog (eff : Eff) (l : List (Nat × Nat)) (σ : Store) : Store := l.foldl (fun σ e => eff e.2 σ) σ
def applyIds (eff : Eff) (ids : List Nat) (σ : Store) : Store := ids.foldl (fun σ c => eff c σ) σ
/-- the ids of queue `i` in a log, in log order -/
def proj (i : Nat) (l : List (Nat × Nat)) : List Nat := (l.filter (·.1 == i)).map (·.2)

def step (eff : Eff) (s : St) (op : Q.Op) : St :=
  { q := Q.step s.q op,
    store := applyLog eff (newly op 0 s.q.qs) s.store,
    log := s.log ++ newly op 0 s.q.qs }

def init (n : Nat) (σ0 : Store) : St := { q := Q.init n, store := σ0 }
def run (eff : Eff) (s : St) (ops : List Q.Op) : St := ops.foldl (step eff) s

end M
end C12
