import MgpuModel.C15_Core
import MgpuModel.C15_Sys
import MgpuModel.C15_Cu
/-! # C15 — line-protocol dispatcher

`c15 cu …` lines go to the composition of the reorder buffer with the compute unit's flush /
restart (`MgpuModel/C15_Cu.lean`), every other line to the ROB scenarios / `fields` cases
(`handleRob`, `MgpuModel/C15_Core.lean`, which holds the tick-exact ROB model). -/
namespace C15
open Util

def handle (line : String) : String :=
  match splitTrim line ";" with
  | [] => "bad"
  | first :: ops =>
    let ws := (words first).filter (· ≠ "c15")
    if ws.head? = some "cu" then Cu.handle ws ops else handleRob line

end C15
