import MgpuModel.Util
import MgpuModel.C02Wf
/-!
C02 (second deepening) — the `s_waitcnt` placement check as a DATAFLOW ANALYSIS over the control-flow
graph of a kernel.

`C02Wf.hcheck` is the static form of the hazard hypothesis for straight-line instruction lists only.
Here the same check (`hstep true false`: addresses unknown, every FLAT instruction counts) is run as a
forward "may be in flight" analysis over a graph with branches:

* an abstract state (`AState`) says which memory instructions may still be in flight when control
  reaches an instruction: vector accesses as pairs (index of the instruction, a LOWER bound on the
  number of vector accesses issued after it, capped at 64), scalar loads as indices,
* `xfer` is the transfer function of one instruction (`none`: the instruction touches a destination
  register of a load possibly in flight, or a memory access meets a store possibly in flight),
* a certificate (one in-state per instruction) is checked by `cfgCheck`: every instruction passes and
  its out-state is covered by the in-state of every successor,
* `cfgSolve` computes a certificate by round-robin propagation, `hcheckCfg` = solve, then check.

Soundness (`MgpuProofs/Props/C02Cfg.lean`) depends on `cfgCheck` only.
-/
namespace C02.Cfg
open Util C02.Wf

/-- what may be in flight: `pv` = (instruction index, lower bound on the number of younger vector
    accesses), `ps` = indices of scalar loads -/
structure AState where
  pv : List (Nat × Nat) := []
  ps : List Nat := []
deriving DecidableEq, Repr

/-- instruction `k` is `code[k]`, sits at PC `addr k`, control may continue at the indices `succ k` -/
structure Graph where
  code : List Inst
  addr : Nat → Nat
  succ : Nat → List Nat

/-- the indices of everything possibly in flight -/
def AState.idxs (A : AState) : List Nat := A.pv.map Prod.fst ++ A.ps

/-- `regOK` against the instructions whose index is in `A` -/
def regOKA (g : Graph) (A : AState) (i : Inst) : Bool :=
  A.idxs.all fun x => match g.code[x]? with
    | some q => !q.isLoad || disj (i.rd ++ i.wr) q.wr
    | none => true

/-- `memOK true` against the instructions whose index is in `A` -/
def memOKA (g : Graph) (A : AState) (i : Inst) : Bool :=
  A.idxs.all fun x => match g.code[x]? with
    | some q => !(q.isStore || i.isStore) || q.region != i.region
    | none => true

/-- one more younger vector access, capped at 64 -/
def bump (y : Nat) : Nat := if y < 64 then y + 1 else 64

/-- the transfer function of instruction `k` (mirrors `hstep true false`) -/
def xfer (g : Graph) (k : Nat) (A : AState) : Option AState :=
  match g.code[k]? with
  | none => none
  | some i =>
    match i.kind with
    | .wait vm lgkm =>
      some (if lgkm = 0 then {} else { pv := A.pv.filter (fun p => decide (p.2 < vm)), ps := A.ps })
    | .endpgm => some {}
    | .nop => some A
    | .alu _ => if regOKA g A i then some A else none
    | .branch => if regOKA g A i then some A else none
    | .vload => if regOKA g A i && memOKA g A i then
        some { pv := A.pv.map (fun p => (p.1, bump p.2)) ++ [(k, 0)], ps := A.ps } else none
    | .vstore => if regOKA g A i && memOKA g A i then
        some { pv := A.pv.map (fun p => (p.1, bump p.2)) ++ [(k, 0)], ps := A.ps } else none
    | .sload => if regOKA g A i && memOKA g A i then some { pv := A.pv, ps := A.ps ++ [k] } else none

/-- the pair `p` is covered by a pair of `B` with the same index and a count not larger -/
def pvCovered (p : Nat × Nat) (B : List (Nat × Nat)) : Bool :=
  B.any fun q => q.1 == p.1 && decide (q.2 ≤ p.2)

/-- `X ⊑ Y`: everything `X` says may be in flight, `Y` says too -/
def leA (X Y : AState) : Bool :=
  X.pv.all (fun p => pvCovered p Y.pv) && X.ps.all (fun s => Y.ps.contains s)

/-- instruction `k` passes and its out-state flows into every successor's in-state -/
def cfgCheckAt (g : Graph) (A : List AState) (k : Nat) : Bool :=
  match xfer g k (A.getD k {}) with
  | none => false
  | some out => (g.succ k).all fun j => decide (j < g.code.length) && leA out (A.getD j {})

/-- the certificate check: `A` holds one in-state per instruction. (`s_endpgm` leaves the empty state,
    so a listed successor of it only has to be in range; `cgraph` lists none.) -/
def cfgCheck (g : Graph) (A : List AState) : Bool :=
  A.length == g.code.length && (List.range g.code.length).all (cfgCheckAt g A)

/-! ## the solver

Iteration order (the Go side repeats it literally):
* in-states start empty; a ROUND visits k = 0, 1, …, n-1 in this order; visiting k computes
  `xfer k in[k]`; if it is refused nothing happens, otherwise the out-state is joined into `in[j]` for
  j in `succ k` in list order (out-of-range j skipped), the update being visible to the later visits of
  the same round;
* join of pairs, one pair of `out.pv` after the other in list order: if the target has a pair with the
  same index, that pair's count becomes the minimum (position kept), otherwise the pair is appended;
  join of `ps`: append the indices not yet present, in list order;
* rounds are repeated until a round changes nothing, at most `65 * (n + 1)` times. -/

def joinPv (T : List (Nat × Nat)) (p : Nat × Nat) : List (Nat × Nat) :=
  if T.any (fun q => q.1 == p.1) then T.map (fun q => if q.1 == p.1 then (q.1, min q.2 p.2) else q)
  else T ++ [p]

def joinPs (T : List Nat) (s : Nat) : List Nat := if T.contains s then T else T ++ [s]

def joinA (T X : AState) : AState := { pv := X.pv.foldl joinPv T.pv, ps := X.ps.foldl joinPs T.ps }

def solveStep (g : Graph) (A : List AState) (k : Nat) : List AState :=
  match xfer g k (A.getD k {}) with
  | none => A
  | some out => (g.succ k).foldl (fun A j => if j < A.length then A.set j (joinA (A.getD j {}) out) else A) A

def solveRound (g : Graph) (A : List AState) : List AState :=
  (List.range g.code.length).foldl (solveStep g) A

def solveIter (g : Graph) : Nat → List AState → List AState
  | 0, A => A
  | n + 1, A =>
    let A' := solveRound g A
    if A' = A then A else solveIter g n A'

def cfgSolve (g : Graph) (rounds : Nat) : List AState :=
  solveIter g rounds (List.replicate g.code.length {})

/-- the static check of a program with branches: a decidable predicate on the graph -/
def hcheckCfg (g : Graph) : Bool := cfgCheck g (cfgSolve g (65 * (g.code.length + 1)))

/-! ## the graph of a program of the sample instruction set -/

/-- successors of instruction `k` (`tgt off` = index of the instruction a branch with that offset reaches) -/
def csucc (tgt : Nat → Nat) (k : Nat) : CInst → List Nat
  | .endp => []
  | .br off => [tgt off]
  | .cbr _ off => [k + 1, tgt off]
  | .cbrv _ off => [k + 1, tgt off]
  | _ => [k + 1]

/-- instruction `k` at PC `base + offset k`; a branch target is computed on PCs exactly as the
    emulator does (`brTarget` of the PC behind the 4-byte branch) and looked up among the instruction
    start PCs: a target that is not the start of an instruction gives the out-of-range index
    `cs.length` (`List.idxOf`), so the check fails -/
def cgraph (base : Nat) (cs : List CInst) : Graph :=
  let offs := offsets cs 0
  let pcs := offs.map fun o => base + o
  { code := cs.map compile
    addr := fun k => base + offs.getD k 0
    succ := fun k => match cs[k]? with
      | none => []
      | some c => csucc (fun off => pcs.idxOf (brTarget off (pcAdd (base + offs.getD k 0) 4))) k c }

/-! ## driver: `c02 cfg [base=<hex>] prog=<i>/<i>/…`

Instruction syntax as `parseCInst` (`c02 wf`); `base` defaults to 1000 (hex). Output

    cfg=<ok|rej@K> succ=<0:j,j;1:j;…> in=<p/s,p/s,…>

`ok`: `hcheckCfg`; `rej@K`: K = the first instruction index at which the solver's result fails
`cfgCheckAt`; `succ`: for every instruction index, in order, its successor indices in list order
(an unresolved branch target shows as the number of instructions); `in`: for every instruction the
number of pairs in `pv` and the number of indices in `ps` of its in-state as the solver left it. -/

def handleCfg (t : List String) : String :=
  match kv? t "prog" with
  | none => "bad"
  | some ps =>
    match (ps.splitOn "/").mapM parseCInst with
    | none => "bad"
    | some cs =>
      let base := (kvHex? t "base").getD 4096
      let g := cgraph base cs
      let n := g.code.length
      let A := cfgSolve g (65 * (n + 1))
      let verdict :=
        if cfgCheck g A then "ok" else
        match (List.range n).find? (fun k => !cfgCheckAt g A k) with
        | some k => s!"rej@{k}"
        | none => "rej"
      let succStr := joinWith ";" ((List.range n).map fun k =>
        s!"{k}:" ++ joinWith "," ((g.succ k).map toString))
      let inStr := joinWith "," (A.map fun a => s!"{a.pv.length}/{a.ps.length}")
      s!"cfg={verdict} succ={succStr} in={inStr}"

end C02.Cfg
